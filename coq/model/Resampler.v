(* Executable model of timeseries/_resampling.py.  Definitions only.

   Time: every datetime is modelled as its UTC INSTANT in integer microseconds (Z); a timedelta is a number
   of microseconds.  That is exact for what the code does today: `_window_end` is built from
   `datetime.now(timezone.utc)` and only ever has timedeltas added, so it stays in UTC, and Python compares /
   subtracts aware datetimes of different tzinfo as instants.  It is NOT how Python adds a timedelta to an
   aware datetime in a zoneinfo zone (that is done on the local wall clock and drifts by the DST offset across
   a transition): code that carried `align_to`'s tzinfo into `_window_end` would leave this model.  The tie
   covers that semantics by scenarios, not by translation: the harness passes `align_to` (C07) and sample
   stamps (C08) in DST-observing zones (Europe/Berlin, America/New_York), with runs that cross a transition
   and creation instants in the other regime, and converts every recorded timestamp back to a UTC instant.

   Part 1 (C07): `Resampler._calculate_window_end`, the `_window_end` bookkeeping of
   `Resampler.resample` and the series dictionary (`add_timeseries`/`remove_timeseries`).
   Part 2 (C08): one `_ResamplingHelper` + the None/NaN filter of
   `_StreamingHelper._receive_samples`: bounded deque, source properties, the relevance
   window and the bisect/islice slice handed to the resampling function. *)
From Verif Require Export model.Common gen.Resampler.

(* ------------------------------------------------------------------ Part 1: timeline *)

(* Resampler._calculate_window_end, as read by hand (reference for the translated function).  `timedelta % timedelta` is a floor
   modulo (Z.modulo for a positive divisor); `not elapsed` is `elapsed == 0`.
   Returns (window_end, start_delay_time). *)
Definition window_end_spec (now period : Z) (align_to : option Z) : Z * Z :=
  match align_to with
  | None => (now + period, 0)
  | Some a =>
    let elapsed := (now - a) mod period in
    if elapsed =? 0 then (now + period, 0)
    else (now + period * 2 - elapsed, if negb (elapsed =? 0) then period - elapsed else 0)
  end.

(* What the model runs is the function regenerated from /repo by tools/translate.py (gen/Resampler.v);
   proofs/ResamplerTimeline.v shows it equal to [window_end_spec]. *)
Definition window_end : Z -> Z -> option Z -> Z * Z := calculate_window_end.

(* wall-clock instant of the timer's first tick: the constructor sets
   _next_tick_time = loop_now + resampling_period + start_delay_time *)
Definition first_tick_at (now period : Z) (we : Z * Z) : Z := now + period + snd we.

Definition zmem (s : Z) (l : list Z) : bool := existsb (Z.eqb s) l.

Record rstate := mkR {
  r_wend : Z;              (* Resampler._window_end *)
  r_series : list Z        (* keys of Resampler._resamplers in insertion order *)
}.

(* add_timeseries / remove_timeseries on the key list *)
Definition add_series (s : Z) (l : list Z) : list Z := if zmem s l then l else l ++ [s].
Definition remove_series (s : Z) (l : list Z) : list Z := filter (fun x => negb (x =? s)) l.

(* a change of the series dictionary made by another task WHILE a tick's sinks are awaited *)
Inductive change := CAdd (s : Z) | CRemove (s : Z).
Definition apply_change (l : list Z) (c : change) : list Z :=
  match c with CAdd s => add_series s l | CRemove s => remove_series s l end.

(* how `resample()` leaves one iteration of its loop *)
Inductive outcome :=
| OOk                         (* goes on to the next tick *)
| ORaised (srcs : list Z)     (* raises ResamplingError({src: exc}) *)
| OCrash.                     (* dies with IndexError (see [tick_outcome]) *)

(* Boundary events.  A tick carries labels: how late the timer delivered it, which sinks raise during
   this tick, which sources have already stopped (their helper raises before the sink is called), and which
   dictionary changes happen while its gather is in flight.  [late] does not influence anything: that is
   the theorem. *)
Inductive revent :=
| Tick (late : Z) (fail dead : list Z) (during : list change)
| Add (s : Z)
| Remove (s : Z).

(* `{source: results[i] for i, source in enumerate(self._resamplers) if isinstance(results[i], ...)}`:
   the results of the gather (one per series registered when the tick began, True = an exception) are paired
   by POSITION with the keys registered when the gather has finished. *)
Fixpoint reported (keys : list Z) (results : list bool) : list Z :=
  match keys, results with
  | k :: ks, r :: rs => if r then k :: reported ks rs else reported ks rs
  | _, _ => []
  end.

(* more keys than results: `results[i]` raises IndexError (a series was added during the gather) *)
Definition tick_outcome (keys_after : list Z) (results : list bool) : outcome :=
  if (length results <? length keys_after)%nat then OCrash
  else match reported keys_after results with [] => OOk | l => ORaised l end.

(* outputs of one event: the (series, timestamp) pairs handed to sinks, in gather order, and how the
   loop iteration ended.  `_window_end += period` is executed after the gather and BEFORE the
   exceptions are collected, i.e. on every one of the three ways out. *)
Definition rstep (period : Z) (st : rstate) (e : revent) : rstate * (list (Z * Z) * outcome) :=
  match e with
  | Add s => (mkR (r_wend st) (add_series s (r_series st)), ([], OOk))
  | Remove s => (mkR (r_wend st) (remove_series s (r_series st)), ([], OOk))
  | Tick _ fail dead during =>
    let keys := r_series st in
    let results := map (fun s => zmem s fail || zmem s dead) keys in
    let keys' := fold_left apply_change during keys in
    (mkR (r_wend st + period) keys',
     (map (fun s => (s, r_wend st)) (filter (fun s => negb (zmem s dead)) keys),
      tick_outcome keys' results))
  end.

Fixpoint rrun (period : Z) (st : rstate) (es : list revent) : list (list (Z * Z) * outcome) :=
  match es with
  | [] => []
  | e :: es' => let '(st', o) := rstep period st e in o :: rrun period st' es'
  end.

Fixpoint rfinal (period : Z) (st : rstate) (es : list revent) : rstate :=
  match es with
  | [] => st
  | e :: es' => rfinal period (fst (rstep period st e)) es'
  end.

Definition rinit (now period : Z) (align_to : option Z) (we : Z * Z) : rstate := mkR (fst we) [].

(* erase the lateness label *)
Definition unlabel (e : revent) : revent :=
  match e with Tick _ f d du => Tick 0 f d du | _ => e end.

(* timestamps handed to series [s] by a run *)
Definition emitted (s : Z) (outs : list (list (Z * Z) * outcome)) : list Z :=
  flat_map (fun o => map snd (filter (fun p => fst p =? s) (fst o))) outs.

Definition is_tick (e : revent) : bool := match e with Tick _ _ _ _ => true | _ => false end.

Definition outcome_eqb (a b : outcome) : bool :=
  match a, b with
  | OOk, OOk => true
  | OCrash, OCrash => true
  | ORaised x, ORaised y => listZ_eqb x y
  | _, _ => false
  end.

(* ------------------------------------------------------------------ Part 2: one source *)

Record item := mkI {
  i_ts : Z;     (* Sample.timestamp *)
  i_id : Z;     (* identity of the sample (its value in the harness) *)
  i_kind : Z    (* 0 = a number, 1 = value None, 2 = NaN; 3 = +inf, 4 = -inf, 5 = huge: valid values *)
}.
(* `sample.value is not None and not sample.value.isnan()`: infinities are kept *)
Definition item_valid (x : item) : bool := negb ((i_kind x =? 1) || (i_kind x =? 2)).
Definition item_eqb (a b : item) : bool :=
  (i_ts a =? i_ts b) && (i_id a =? i_id b) && (i_kind a =? i_kind b).

Record hconf := mkC {
  c_period : Z;        (* resampling_period *)
  c_age_n : Z;         (* max_data_age_in_periods = c_age_n / c_age_d (the float's exact value) *)
  c_age_d : Z;
  c_init_len : Z;      (* initial_buffer_len *)
  c_max_len : Z        (* max_buffer_len *)
}.

Record hstate := mkH {
  h_buf : list item;       (* _buffer, oldest first *)
  h_maxlen : Z;            (* _buffer.maxlen *)
  h_sp : option Z;         (* source_properties.sampling_period *)
  h_start : option Z;      (* source_properties.sampling_start *)
  h_recv : Z               (* source_properties.received_samples *)
}.

Definition hinit (c : hconf) : hstate := mkH [] (c_init_len c) None None 0.

Definition lastn {A} (n : nat) (l : list A) : list A := skipn (length l - n) l.

(* deque(maxlen=m).append(x) *)
Definition push (m : Z) (buf : list item) (x : item) : list item := lastn (Z.to_nat m) (buf ++ [x]).

(* _StreamingHelper._receive_samples + _ResamplingHelper.add_sample *)
Definition hrecv (st : hstate) (x : item) : hstate :=
  if item_valid x then
    mkH (push (h_maxlen st) (h_buf st) x) (h_maxlen st) (h_sp st)
        (match h_start st with None => Some (i_ts x) | s => s end) (h_recv st + 1)
  else st.

(* datetime's _divide_and_round(a, b), b > 0: nearest integer to a/b, ties to even.
   `timedelta * float` is _divide_and_round(usec * num, den) with num/den the float's exact ratio. *)
Definition div_round_he (a b : Z) : Z :=
  let q := a / b in
  let r := a mod b in
  if (2 * r >? b) || ((2 * r =? b) && Z.odd q) then q + 1 else q.

(* bisect.bisect_right(buf, x, key=timestamp), the loop as CPython runs it *)
Fixpoint bis (fuel : nat) (x : Z) (l : list item) (lo hi : nat) : nat :=
  match fuel with
  | O => lo
  | S f =>
    if (lo <? hi)%nat then
      let mid := ((lo + hi) / 2)%nat in
      if x <? i_ts (nth mid l (mkI 0 0 0)) then bis f x l lo mid else bis f x l (S mid) hi
    else lo
  end.
Definition bisect_right (x : Z) (l : list item) : nat := bis (S (length l)) x l 0%nat (length l).

(* list(itertools.islice(buf, i, j)) *)
Definition islice {A} (l : list A) (i j : nat) : list A := firstn (j - i) (skipn i l).

(* _update_source_sample_period's guard (True = the period is (re)computed now) *)
Definition upd_cond (c : hconf) (st : hstate) (T : Z) : bool :=
  match h_sp st, h_start st with
  | None, Some s0 =>
    negb (h_recv st * 1000000 * c_age_d c <? c_period c * c_age_n c) &&
    negb (Z.of_nat (length (h_buf st)) <? h_maxlen st) &&
    (s0 <? T)
  | _, _ => false
  end.

(* the state after `if self._update_source_sample_period(T): self._update_buffer_len()`.
   The freshly estimated input period [osp] and the resulting buffer length [olen] are float
   computations: oracle inputs recorded from the implementation run. *)
(* An estimate that rounds to zero microseconds (a burst stamped right before T) is discarded and the
   estimate retried at a later tick.  (Before the fix recorded as known finding C08-zero-input-period the
   code stored the zero period and _update_buffer_len then died with ZeroDivisionError: the tick emitted
   nothing for this source and a supervisor dropped the series.) *)
Definition hupdate (c : hconf) (st : hstate) (T osp olen : Z) : hstate :=
  if upd_cond c st T && negb (osp =? 0) then
    mkH (if olen =? h_maxlen st then h_buf st else lastn (Z.to_nat olen) (h_buf st))
        olen (Some osp) (h_start st) (h_recv st)
  else st.

(* ---- what the two float computations approximate (exact rational specifications).
   The recorded oracle values are checked against them on every compared run ([hspec_ok] in [hcheck]);
   the theorems about the window hold for arbitrary oracle values and do not depend on this. *)

(* sampling_period = timedelta(seconds=(T - sampling_start).total_seconds() / received_samples):
   the quotient (T - start)/received in microseconds, within one microsecond *)
Definition osp_ok (st : hstate) (T osp : Z) : bool :=
  match h_start st with
  | Some s0 => Z.abs (osp * h_recv st - (T - s0)) <=? h_recv st
  | None => false
  end.

Definition clamp_len (c : hconf) (n : Z) : Z :=
  let n1 := Z.max 1 n in if n1 >? c_max_len c then c_max_len c else n1.

(* new_buffer_len = ceil(sp_seconds * max_age)                    when up-sampling   (sp > period, strictly)
                  = ceil(period_seconds / sp_seconds * max_age)   otherwise (down-sampling AND sp = period)
   then max(1, .) and truncation to max_buffer_len.  [len_quot] is the exact quotient a/b. *)
Definition ceil_div (a b : Z) : Z := if a mod b =? 0 then a / b else a / b + 1.

Definition len_quot (c : hconf) (osp : Z) : Z * Z :=
  if osp >? c_period c
  then (osp * c_age_n c, 1000000 * c_age_d c)
  else (c_period c * c_age_n c, osp * c_age_d c).

(* the documented capacity once the input period is known *)
Definition doc_len (c : hconf) (osp : Z) : Z :=
  clamp_len c (ceil_div (fst (len_quot c osp)) (snd (len_quot c osp))).

(* what is accepted from the implementation: the documented capacity; a float ceil may land on the neighbouring
   integer only when the exact quotient is within 1e-9 (relative) of an integer *)
Definition olen_ok (c : hconf) (osp olen : Z) : bool :=
  let '(a, b) := len_quot c osp in
  let fl := a / b in
  let fr := a mod b in
  (olen =? doc_len c osp) ||
  ((fr * 1000000000 <=? a) && (olen =? clamp_len c (if fr =? 0 then fl + 1 else fl))) ||
  (((b - fr) * 1000000000 <=? a) && (olen =? clamp_len c (fl + 2))).

(* max(resampling_period, sampling_period) * max_data_age_in_periods, rounded as timedelta*float *)
Definition relevance (c : hconf) (st : hstate) : Z :=
  let p := match h_sp st with Some sp => Z.max (c_period c) sp | None => c_period c end in
  div_round_he (p * c_age_n c) (c_age_d c).

(* _ResamplingHelper.resample(T): new state and the sequence handed to the resampling function
   (the function is called, and a value emitted, iff that sequence is non-empty) *)
Definition htick (c : hconf) (st : hstate) (T osp olen : Z) : hstate * list item :=
  let st1 := hupdate c st T osp olen in
  let lo := T - relevance c st1 in
  let i := bisect_right lo (h_buf st1) in
  let j := bisect_right T (h_buf st1) in
  (st1, islice (h_buf st1) i j).

Definition emits_value (passed : list item) : bool :=
  match passed with [] => false | _ => true end.

Inductive hevent :=
| Recv (x : item)
| HTick (T osp olen : Z).

Definition hstep (c : hconf) (st : hstate) (e : hevent) : hstate * option (list item) :=
  match e with
  | Recv x => (hrecv st x, None)
  | HTick T osp olen => let '(st', p) := htick c st T osp olen in (st', Some p)
  end.

Fixpoint hfinal (c : hconf) (st : hstate) (es : list hevent) : hstate :=
  match es with
  | [] => st
  | e :: es' => hfinal c (fst (hstep c st e)) es'
  end.

(* valid samples received so far, in arrival order *)
Fixpoint valid_hist (es : list hevent) : list item :=
  match es with
  | [] => []
  | Recv x :: es' => if item_valid x then x :: valid_hist es' else valid_hist es'
  | HTick _ _ _ :: es' => valid_hist es'
  end.

(* ---- comparison against a recorded implementation run (used by the generated case files) *)
(* expectation at a tick: passed sequence, "a value was emitted", sampling period and buffer
   capacity after the tick *)
Definition hexp := (list item * bool * option Z * Z)%type.

Definition hspec_ok (c : hconf) (st : hstate) (e : hevent) : bool :=
  match e with
  | HTick T osp olen =>
    if upd_cond c st T && negb (osp =? 0) then osp_ok st T osp && olen_ok c osp olen else true
  | Recv _ => true
  end.

Fixpoint hcheck (c : hconf) (st : hstate) (es : list (hevent * option hexp)) : bool :=
  match es with
  | [] => true
  | (e, ex) :: es' =>
    let '(st', out) := hstep c st e in
    hspec_ok c st e &&
    (match out, ex with
     | None, None => true
     | Some p, Some (ep, ev, esp, elen) =>
       list_eqb item_eqb p ep && Bool.eqb (emits_value p) ev && optZ_eqb (h_sp st') esp && (h_maxlen st' =? elen)
     | _, _ => false
     end) && hcheck c st' es'
  end.

Definition outs_eqb (a b : list (Z * Z) * outcome) : bool :=
  list_eqb (pair_eqb Z.eqb Z.eqb) (fst a) (fst b) && outcome_eqb (snd a) (snd b).
