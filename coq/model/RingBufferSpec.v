(* C09 — the abstract object the ring buffer has to behave like: a sliding time-indexed map.
   Definitions only.  `s_new` is the newest slot ever accepted, `s_map k` the last VALID value
   written to slot k (None: never written / written as missing / evicted). *)
From Verif Require Export model.RingBuffer.

Record spec := mkSpec { s_new : option Z; s_map : Z -> option Z }.

Definition spec_init : spec := mkSpec None (fun _ => None).

(* reject if older than the window ending at the newest slot; otherwise advance the window,
   evict what falls out, write (a missing value erases the slot) *)
Definition spec_update (c : Z) (a : spec) (k : Z) (v : cell) : option spec :=
  let too_old := match s_new a with Some n => k <? n - c + 1 | None => false end in
  if too_old then None
  else
    let nw := match s_new a with Some n => Z.max n k | None => k end in
    Some (mkSpec (Some nw)
                 (fun j => if j =? k then v else if j <? nw - c + 1 then None else s_map a j)).

(* histories: rejected updates leave the state unchanged (the caller sees IndexError) *)
Definition rb_step (b : rb) (x : Z * cell) : rb :=
  match update b (fst x) (snd x) with Some b' => b' | None => b end.
Definition spec_step (c : Z) (a : spec) (x : Z * cell) : spec :=
  match spec_update c a (fst x) (snd x) with Some a' => a' | None => a end.
Definition rb_run (b : rb) (h : list (Z * cell)) : rb := fold_left rb_step h b.
Definition spec_run (c : Z) (a : spec) (h : list (Z * cell)) : spec := fold_left (spec_step c) h a.

(* the slots lo, lo+1, ..., lo+n-1 *)
Fixpoint zrange (lo : Z) (n : nat) : list Z :=
  match n with O => [] | S n' => lo :: zrange (lo + 1) n' end.

Definition is_some {A} (o : option A) : bool := match o with Some _ => true | None => false end.

(* observers of the abstract map; c = capacity *)
Definition spec_window_slots (c : Z) (a : spec) : list Z :=
  match s_new a with Some n => zrange (n - c + 1) (Z.to_nat c) | None => [] end.

Definition spec_count (c : Z) (a : spec) : Z :=
  Z.of_nat (length (filter (fun j => is_some (s_map a j)) (spec_window_slots c a))).

Definition spec_oldest (c : Z) (a : spec) : option Z :=
  find (fun j => is_some (s_map a j)) (spec_window_slots c a).

Definition spec_newest (c : Z) (a : spec) : option Z :=
  match spec_oldest c a with Some _ => s_new a | None => None end.

Definition spec_covered (c : Z) (a : spec) : Z :=
  match spec_oldest c a, s_new a with Some o, Some n => n - o + 1 | _, _ => 0 end.

(* value reported for slot j: the stored valid value, else the fill *)
Definition slot_value (a : spec) (f : cell) (j : Z) : cell :=
  match s_map a j with Some v => Some v | None => f end.

(* the slots a query [s, e) (already on the slot grid) covers: clamped to [oldest valid, newest] *)
Definition spec_cover (c : Z) (a : spec) (s e : Z) : list Z :=
  match spec_oldest c a, s_new a with
  | Some o, Some n => let lo := Z.max s o in let hi := Z.min e (n + 1) in zrange lo (Z.to_nat (hi - lo))
  | _, _ => []
  end.

Definition spec_window (c : Z) (a : spec) (s e : Z) (f : cell) : list cell :=
  map (slot_value a f) (spec_cover c a s e).

Definition spec_window_idx (c : Z) (a : spec) (s e : option Z) (f : cell) : list cell :=
  match spec_oldest c a with
  | Some o => let n := spec_covered c a in
              spec_window c a (o + slice_adj n s 0) (o + slice_adj n e n) f
  | None => []
  end.

(* MovingWindow.at(index): position i of the covered range (negative: from the end), NaN for a
   slot without valid value, IndexError outside *)
Definition spec_at_idx (c : Z) (a : spec) (i : Z) : result :=
  match spec_oldest c a, s_new a with
  | Some o, Some n =>
      let k := (if i >=? 0 then o else n + 1) + i in
      if (k <? o) || (k >? n) then RErr else RVal (s_map a k)
  | _, _ => RErr
  end.

Definition spec_at_ts (p al c : Z) (a : spec) (t : Z) : result :=
  match spec_oldest c a, s_new a with
  | Some o, Some n =>
      if (t <? ts_of p al o) || (t >? ts_of p al n) then RErr else RVal (s_map a (norm_slot p al t))
  | _, _ => RErr
  end.

(* declarative reading of the abstract map after a history: the window ends at the largest slot
   that ever occurred, and a slot of the window holds whatever was written to it last *)
Definition hist_max (h : list (Z * cell)) : option Z :=
  fold_left (fun acc x => Some (match acc with Some n => Z.max n (fst x) | None => fst x end)) h None.
Definition last_write (j : Z) (h : list (Z * cell)) : cell :=
  fold_left (fun acc x => if fst x =? j then snd x else acc) h None.
