(* C09 — executable model of frequenz.sdk.timeseries._ringbuffer.buffer.OrderedRingBuffer
   and of the MovingWindow facade (at / window / __getitem__), method by method.
   Definitions only (no lemmas).

   Times at the interface are integer microseconds (Z).  `norm_slot` is
   `normalize_timestamp` returning the slot NUMBER n (the datetime is align + n*period);
   everything behind it works on slot numbers, because every datetime the buffer stores
   (newest, oldest, gap bounds) is a normalised one.  `_timestamp_newest == _TIMESTAMP_MIN`
   (nothing written yet) is `newest = None`; the three places where the code computes with
   datetime.min are commented below (assumption: every sample is later than
   datetime.min + capacity * period, i.e. after year 1).

   Payloads are opaque integers; a cell is `Some id` or `None` (= NaN).

   The model follows the code as it is AFTER the `fix:` commits for F11/F12 (window():
   start/end normalised before clamping), F13 (MovingWindow.at: gap slots give NaN, the
   index must lie in the covered range) and count_covered (exact timedelta division). *)
From Verif Require Export model.Common.
From Verif Require Import gen.RingBuffer.   (* T-tie: rb_wrap, rb_normalize_timestamp, gap_contains as /repo has them now *)

Definition cell := option Z.
Definition gap := (Z * Z)%type.            (* Gap(start, end): start inclusive, end exclusive *)

(* ---------------------------------------------------------------- normalize_timestamp *)
(* timedelta / 2 : true division, rounded to the nearest microsecond, ties to even *)
Definition td_half (p : Z) : Z :=
  let q := p / 2 in
  if p mod 2 =? 0 then q else if q mod 2 =? 0 then q else q + 1.

(* the slot NUMBER of normalize_timestamp(t): rb_normalize_timestamp is the method as translated
   from /repo (T-tie); its result is the datetime align + n * period *)
Definition norm_slot (p a t : Z) : Z := (rb_normalize_timestamp t a p (td_half p) - a) / p.

Definition ts_of (p a k : Z) : Z := a + k * p.

(* ---------------------------------------------------------------- state *)
Record rb := mkRB { cells : list cell; gaps : list gap; newest : option Z }.

Definition cap (b : rb) : Z := Z.of_nat (length (cells b)).
Definition init_rb (cs : list cell) : rb := mkRB cs [] None.

(* _timestamp_oldest = newest - (full_time_range - period) *)
Definition oldest_bound (c n : Z) : Z := n - c + 1.

Definition wrap (c i : Z) : Z := rb_wrap i c.

Fixpoint set_nth {A} (n : nat) (x : A) (l : list A) : list A :=
  match l, n with
  | [], _ => []
  | _ :: t, O => x :: t
  | h :: t, S n' => h :: set_nth n' x t
  end.

Definition get_cell (cs : list cell) (i : Z) : cell := nth (Z.to_nat i) cs None.

(* Gap.contains / is_missing *)
Definition contains (g : gap) (k : Z) : bool := gap_contains k (fst g) (snd g).   (* T-tie: Gap.contains *)
Definition is_missing (gs : list gap) (k : Z) : bool := existsb (fun g => contains g k) gs.

(* ---------------------------------------------------------------- _remove_gap *)
(* first gap containing k: shrink it at the front / at the back / split it; the second
   component is the new gap that the code APPENDS to the list when it splits *)
Fixpoint remove_gap_go (k : Z) (gs : list gap) : list gap * option gap :=
  match gs with
  | [] => ([], None)
  | g :: rest =>
      if contains g k then
        if fst g =? k then
          if snd g =? k + 1 then (rest, None) else ((k + 1, snd g) :: rest, None)
        else if snd g - 1 =? k then ((fst g, k) :: rest, None)
        else ((fst g, k) :: rest, Some (k + 1, snd g))
      else let '(r, a) := remove_gap_go k rest in (g :: r, a)
  end.

Definition remove_gap (k : Z) (gs : list gap) : list gap :=
  let '(r, a) := remove_gap_go k gs in
  match a with Some g => r ++ [g] | None => r end.

(* ---------------------------------------------------------------- _cleanup_gaps *)
(* sorted(self._gaps, key=start): stable *)
Fixpoint ins_gap (g : gap) (l : list gap) : list gap :=
  match l with
  | [] => [g]
  | h :: t => if fst g <=? fst h then g :: h :: t else h :: ins_gap g t
  end.
Fixpoint sort_gaps (l : list gap) : list gap :=
  match l with [] => [] | h :: t => ins_gap h (sort_gaps t) end.

(* the first two tests of the loop body, applied to the gap at position i:
   None = deleted (out of date), Some = kept, start moved up to `oldest` if needed *)
Definition trim (old : Z) (w : gap) : option gap :=
  if snd w <=? old then None
  else if fst w <? old then Some (old, snd w) else Some w.

(* The while loop.  `cur` is gaps[i] after its own two tests (None: position i not yet
   examined); `l` is gaps[i+1:], untouched.  One structural step per element of l:
     w2 subset of w1        -> del gaps[i+1]
     w1.end >= w2.start     -> w1.end = w2.end; del gaps[i+1]  (then w1 is re-examined)
     else                   -> i += 1 *)
Fixpoint cl (old : Z) (cur : option gap) (l : list gap) : list gap :=
  match l with
  | [] => match cur with Some w1 => [w1] | None => [] end
  | w2 :: rest =>
      match cur with
      | None => cl old (trim old w2) rest
      | Some w1 =>
          if (fst w1 <=? fst w2) && (snd w1 >=? snd w2) then cl old (Some w1) rest
          else if snd w1 >=? fst w2 then cl old (trim old (fst w1, snd w2)) rest
          else w1 :: cl old (trim old w2) rest
      end
  end.

Definition cleanup_gaps (old : Z) (gs : list gap) : list gap := cl old None (sort_gaps gs).

(* ---------------------------------------------------------------- _update_gaps *)
(* k: normalised slot of the sample, prev: newest before this update, nw: newest after it *)
Definition update_gaps (c : Z) (gs : list gap) (k : Z) (prev : option Z) (nw : Z) (missing : bool)
  : list gap :=
  let old := oldest_bound c nw in
  let found := is_missing gs k in
  (* self._timestamp_newest - newest >= full_time_range   (newest = datetime.min: true) *)
  let far := match prev with None => true | Some n => nw - n >=? c end in
  if negb missing && far then [(old, nw)]
  else
    (* newest + period  (datetime.min + period lies below every window: any slot < old) *)
    let after_prev := match prev with None => old - 1 | Some n => n + 1 end in
    let gs1 :=
      if negb missing && negb found && (k >? after_prev)
      then gs ++ [(after_prev, k)] else gs in
    let gs2 :=
      if missing then
        if negb found then gs1 ++ [(Z.min after_prev k, k + 1)] else gs1
      else if (0 <? Z.of_nat (length gs1)) && found then remove_gap k gs1 else gs1 in
    cleanup_gaps old gs2.

(* ---------------------------------------------------------------- update *)
(* None = IndexError (too old); v = None for a sample whose value is None or NaN *)
Definition update (b : rb) (k : Z) (v : cell) : option rb :=
  let c := cap b in
  let too_old := match newest b with Some n => k <? oldest_bound c n | None => false end in
  if too_old then None
  else
    let nw := match newest b with Some n => Z.max n k | None => k end in
    Some (mkRB (set_nth (Z.to_nat (wrap c k)) v (cells b))
               (update_gaps c (gaps b) k (newest b) nw (match v with None => true | _ => false end))
               (Some nw)).

(* ---------------------------------------------------------------- observers *)
(* to_internal_index: None = IndexError *)
Definition to_idx (b : rb) (k : Z) : option Z :=
  match newest b with
  | Some n => if (n + 1 <? k) || (k <? oldest_bound (cap b) n) then None else Some (wrap (cap b) k)
  | None => None
  end.

Definition count_valid (b : rb) : Z :=
  match newest b with
  | None => 0
  | Some n =>
      let c := cap b in
      let old := oldest_bound c n in
      let sum_missing := Z.max 0 (fold_right (fun g acc => (snd g - Z.max (fst g) old) + acc) 0 (gaps b)) in
      let start_pos := wrap c old in
      let end_pos := wrap c n in
      if end_pos <? start_pos then c - start_pos + end_pos + 1 - sum_missing
      else end_pos + 1 - start_pos - sum_missing
  end.

Definition min_end (gs : list gap) : option Z :=
  match gs with
  | [] => None
  | g :: r => Some (fold_right (fun x acc => Z.min (snd x) acc) (snd g) r)
  end.

Definition oldest_ts (b : rb) : option Z :=
  if count_valid b =? 0 then None
  else match newest b with
       | None => None
       | Some n =>
           let old := oldest_bound (cap b) n in
           if is_missing (gaps b) old then min_end (gaps b) else Some old
       end.

Definition newest_ts (b : rb) : option Z :=
  if count_valid b =? 0 then None else newest b.

Definition count_covered (b : rb) : Z :=
  match oldest_ts b, newest_ts b with
  | Some o, Some n => n - o + 1
  | _, _ => 0
  end.

(* get_timestamp(index) *)
Definition get_timestamp (b : rb) (i : Z) : option Z :=
  match oldest_ts b, newest_ts b with
  | Some o, Some n => Some ((if i >=? 0 then o else n + 1) + i)
  | _, _ => None
  end.

(* slice(start, end).indices(n)[:2] *)
Definition slice_adj (n : Z) (x : option Z) (dflt : Z) : Z :=
  match x with
  | None => dflt
  | Some s => if s <? 0 then Z.max (s + n) 0 else Z.min s n
  end.

(* _wrapped_buffer_window *)
Definition wrapped (cs : list cell) (sp ep : Z) : list cell :=
  if sp >=? ep then skipn (Z.to_nat sp) cs ++ firstn (Z.to_nat ep) cs
  else firstn (Z.to_nat (ep - sp)) (skipn (Z.to_nat sp) cs).

(* data[si:ei] = fill *)
Fixpoint fill_from (i si ei : Z) (f : cell) (d : list cell) : list cell :=
  match d with
  | [] => []
  | x :: r => (if (si <=? i) && (i <? ei) then f else x) :: fill_from (i + 1) si ei f r
  end.

(* _fill_gaps(data, fill, oldest_timestamp = s, gaps) *)
Definition fill_gaps (d : list cell) (f : cell) (s : Z) (gs : list gap) : list cell :=
  fold_left (fun d g =>
               let si := Z.max (fst g - s) 0 in
               let ei := Z.min (snd g - s) (Z.of_nat (length d)) in
               if si <? ei then fill_from 0 si ei f d else d) gs d.

Inductive result := RList (l : list cell) | RVal (v : cell) | RErr.

(* window() once start and end are normalised slots.  fill: None = fill_value None (raw data),
   Some f = fill with f (Some None = NaN, the default) *)
Definition window_slots (b : rb) (s e : Z) (fill : option cell) : result :=
  match oldest_ts b, newest_ts b with
  | Some o, Some n =>
      let s' := Z.max s o in
      let e' := Z.min e (n + 1) in
      if s' >=? e' then RList []
      else match to_idx b s', to_idx b e' with
           | Some sp, Some ep =>
               let w := wrapped (cells b) sp ep in
               RList (match fill with Some f => fill_gaps w f s' (gaps b) | None => w end)
           | _, _ => RErr
           end
  | _, _ => RList []
  end.

Definition window_idx (b : rb) (s e : option Z) (fill : option cell) : result :=
  if count_covered b =? 0 then RList []
  else
    let n := count_covered b in
    match get_timestamp b (slice_adj n s 0), get_timestamp b (slice_adj n e n) with
    | Some ts, Some te => window_slots b ts te fill
    | _, _ => RErr
    end.

Definition window_ts (p a : Z) (b : rb) (s e : Z) (fill : option cell) : result :=
  if count_covered b =? 0 then RList []
  else window_slots b (norm_slot p a s) (norm_slot p a e) fill.

(* one datetime and one index *)
Definition window_mixed (b : rb) : result :=
  if count_covered b =? 0 then RList [] else RErr.

(* MovingWindow.at(datetime) / MovingWindow.__getitem__(datetime) *)
Definition at_ts (p a : Z) (b : rb) (t : Z) : result :=
  if count_valid b =? 0 then RErr
  else match oldest_ts b, newest_ts b with
       | Some o, Some n =>
           if (t <? ts_of p a o) || (t >? ts_of p a n) then RErr
           else
             let k := norm_slot p a t in
             if is_missing (gaps b) k then RVal None
             else match to_idx b k with
                  | Some i => RVal (get_cell (cells b) i)
                  | None => RErr
                  end
       | _, _ => RErr
       end.

(* MovingWindow.at(int) / MovingWindow.__getitem__(int) *)
Definition at_idx (b : rb) (i : Z) : result :=
  if count_valid b =? 0 then RErr
  else match get_timestamp b i, oldest_ts b, newest_ts b with
       | Some k, Some o, Some n =>
           if (k <? o) || (k >? n) then RErr
           else if is_missing (gaps b) k then RVal None
           else match to_idx b k with
                | Some j => RVal (get_cell (cells b) j)
                | None => RErr
                end
       | _, _, _ => RErr
       end.

(* ---------------------------------------------------------------- correspondence driver *)
Inductive query :=
| QWinIdx (s e : option Z) (fill : option cell)
| QWinTs (s e : Z) (fill : option cell)
| QWinMixed
| QAtIdx (i : Z)
| QAtTs (t : Z).

Definition run_query (p a : Z) (b : rb) (q : query) : result :=
  match q with
  | QWinIdx s e f => window_idx b s e f
  | QWinTs s e f => window_ts p a b s e f
  | QWinMixed => window_mixed b
  | QAtIdx i => at_idx b i
  | QAtTs t => at_ts p a b t
  end.

Inductive step := SUpdate (t : Z) (v : cell) | SRoundTrip.

Record obs := mkObs { o_rej : bool; o_cv : Z; o_cc : Z; o_old : option Z; o_new : option Z;
                      o_gaps : list (Z * Z); o_cells : list cell; o_bn : option Z }.

Definition observe (p a : Z) (b : rb) (rej : bool) : obs :=
  mkObs rej (count_valid b) (count_covered b)
        (option_map (ts_of p a) (oldest_ts b)) (option_map (ts_of p a) (newest_ts b))
        (map (fun g => (ts_of p a (fst g), ts_of p a (snd g))) (gaps b))
        (cells b) (option_map (ts_of p a) (newest b)).

Definition do_step (p a : Z) (b : rb) (s : step) : rb * bool :=
  match s with
  | SRoundTrip => (b, false)
  | SUpdate t v => match update b (norm_slot p a t) v with Some b' => (b', false) | None => (b, true) end
  end.

Definition cell_eqb : cell -> cell -> bool := optZ_eqb.
Definition result_eqb (x y : result) : bool :=
  match x, y with
  | RList l1, RList l2 => list_eqb cell_eqb l1 l2
  | RVal v1, RVal v2 => cell_eqb v1 v2
  | RErr, RErr => true
  | _, _ => false
  end.
Definition obs_eqb (x y : obs) : bool :=
  Bool.eqb (o_rej x) (o_rej y) && (o_cv x =? o_cv y) && (o_cc x =? o_cc y) &&
  optZ_eqb (o_old x) (o_old y) && optZ_eqb (o_new x) (o_new y) &&
  list_eqb (pair_eqb Z.eqb Z.eqb) (o_gaps x) (o_gaps y) &&
  list_eqb cell_eqb (o_cells x) (o_cells y) && optZ_eqb (o_bn x) (o_bn y).

Fixpoint check_steps (p a : Z) (b : rb) (l : list (step * obs * list (query * result))) : bool :=
  match l with
  | [] => true
  | (s, o, qs) :: r =>
      let '(b', rej) := do_step p a b s in
      obs_eqb (observe p a b' rej) o &&
      forallb (fun qr => result_eqb (run_query p a b' (fst qr)) (snd qr)) qs &&
      check_steps p a b' r
  end.

(* case: period, align, initial container content, steps with the implementation's answers *)
Definition check_case (c : Z * Z * list cell * list (step * obs * list (query * result))) : bool :=
  let '(p, a, init, l) := c in check_steps p a (init_rb init) l.

(* for replays: what the model answers *)
Fixpoint run_show_go (p a : Z) (b : rb) (l : list (step * list query)) : list (obs * list result) :=
  match l with
  | [] => []
  | (s, qs) :: r =>
      let '(b', rej) := do_step p a b s in
      (observe p a b' rej, map (run_query p a b') qs) :: run_show_go p a b' r
  end.
Definition run_show (p a : Z) (init : list cell) (l : list (step * list query)) :=
  run_show_go p a (init_rb init) l.
