(* PowerManagingActor serving SEVERAL component groups: per group the state of
   model/PowerManager.v (two Matryoshka buckets, cached system bounds); shared by all groups:
   the `last_result_partial_failure` flag of `_run` and the 1 s expiry timer, whose handler
   sweeps every bucket of both Matryoshka instances.  Definitions only. *)
From Verif Require Export model.PowerManager.

Record pmn := mkPMN { n_groups : list pm; n_pf : bool }.

Inductive nevent :=
| NE (k : nat) (e : pevent)      (* proposal / bounds update / result concerning group k *)
| NTick (now : Z)                (* timer: drop old proposals everywhere, nothing sent *)
| NRestart.                      (* stop() followed by start(): `_run` is re-entered; its local
                                    partial-failure flag starts again at False, everything else
                                    (buckets, stored targets, cached bounds, tracker tasks) persists *)

Fixpoint upd {A} (l : list A) (k : nat) (x : A) : list A :=
  match l, k with
  | [], _ => []
  | _ :: r, O => x :: r
  | y :: r, S k' => y :: upd r k' x
  end.

Definition with_pf (st : pm) (b : bool) : pm := mkPM (pm_reg st) (pm_op st) (pm_sys st) b.

Definition tick_pm (ma_reg ma_op now : Z) (st : pm) : pm :=
  mkPM (expire_grp ma_reg now (pm_reg st)) (expire_grp ma_op now (pm_op st)) (pm_sys st) (pm_last_pf st).

(* one handler run: new state and, for an event of group k, (k, Request sent if any, reports sent) *)
Definition nstep (ma_reg ma_op : Z) (st : pmn) (ev : nevent) : pmn * option (nat * option Z * bool) :=
  match ev with
  | NTick now => (mkPMN (map (tick_pm ma_reg ma_op now) (n_groups st)) (n_pf st), None)
  | NRestart => (mkPMN (n_groups st) false, None)
  | NE k e =>
      match nth_error (n_groups st) k with
      | None => (st, None)
      | Some g =>
          let '(g', r, rep) := pstep ma_reg ma_op (with_pf g (n_pf st)) e in
          (mkPMN (upd (n_groups st) k g') (pm_last_pf g'), Some (k, r, rep))
      end
  end.

Definition nobs := option (nat * option Z * option report).

Fixpoint nrun (ma_reg ma_op q_reg q_op : Z) (st : pmn) (h : list nevent) : list nobs :=
  match h with
  | [] => []
  | ev :: h' =>
      let '(st', o) := nstep ma_reg ma_op st ev in
      match o with
      | None => None
      | Some (k, r, rep) =>
          Some (k, r, if rep then option_map (fun g => reports g q_reg q_op) (nth_error (n_groups st') k) else None)
      end :: nrun ma_reg ma_op q_reg q_op st' h'
  end.

Definition pmn_init (n : nat) : pmn := mkPMN (repeat pm_init n) false.
