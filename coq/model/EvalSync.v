(* C06 — FormulaEvaluator.apply / _synchronize_metric_timestamps, FormulaEngine._run and
   FormulaEngine3Phase._run as functions of the CONTENTS of the input streams (Kahn style:
   deliveries only decide when the evaluator blocks, never what it computes).

   Executable definitions only.

   A stream is the list of samples (timestamp in microseconds, value) that will ever be
   delivered on it, in delivery order.  "Blocked for ever" (a stream ran dry) ends the output.
   The iteration order of the `set` of finished fetch tasks — arbitrary in CPython — is an
   input: [ords r] is the order used in round r (a permutation of 0..n-1). *)
From Verif Require Export model.Common.

Definition sample := (Z * Z)%type.

Definition upd {A} (f : nat -> A) (i : nat) (x : A) : nat -> A :=
  fun j => if Nat.eqb j i then x else f j.

(* evaluator state: what is still to come on every stream, and MetricFetcher._next_value *)
Record est := mkE { rem : nat -> list sample; cur : nat -> sample }.

(* MetricFetcher.fetch_next on stream i; None = blocks for ever *)
Definition pop (i : nat) (s : est) : option est :=
  match rem s i with
  | [] => None
  | x :: r => Some (mkE (upd (rem s) i r) (upd (cur s) i x))
  end.

Fixpoint pop_names (names : list nat) (s : est) : option est :=
  match names with
  | [] => Some s
  | i :: ns => match pop i s with None => None | Some s' => pop_names ns s' end
  end.

(* metrics_by_ts: dict timestamp -> names, in insertion order *)
Fixpoint g_insert (t : Z) (i : nat) (gs : list (Z * list nat)) : list (Z * list nat) :=
  match gs with
  | [] => [(t, [i])]
  | (t', ns) :: r => if t' =? t then (t', ns ++ [i]) :: r else (t', ns) :: g_insert t i r
  end.

Definition groups (ord : list nat) (c : nat -> sample) : list (Z * list nat) :=
  fold_left (fun gs i => g_insert (fst (c i)) i gs) ord [].

(* latest_ts = max(metrics_by_ts) *)
Definition latest_ts (ord : list nat) (c : nat -> sample) : Z :=
  fold_left Z.max (map (fun i => fst (c i)) ord) (fst (c (hd 0%nat ord))).

(* while metric_ts < latest_ts: for name in names: next_val = await fetch_next(); metric_ts = next_val.timestamp
   None = blocked (or out of fuel: callers give fuel > number of samples) *)
Fixpoint drain (fuel : nat) (latest : Z) (names : list nat) (s : est) (mts : Z) : option (est * Z) :=
  if mts <? latest then
    match fuel with
    | O => None
    | S fu => match pop_names names s with
              | None => None
              | Some s' => drain fu latest names s' (fst (cur s' (last names 0%nat)))
              end
    end
  else Some (s, mts).

Inductive sres := SOk (s : est) | SErr (s : est) | SBlock.

(* the loop over metrics_by_ts.items(); SErr = "Unable to synchronize" RuntimeError *)
Fixpoint sync_groups (fuel : nat) (latest : Z) (gs : list (Z * list nat)) (s : est) : sres :=
  match gs with
  | [] => SOk s
  | (t, names) :: r =>
      if t =? latest then sync_groups fuel latest r s
      else match drain fuel latest names s t with
           | None => SBlock
           | Some (s', m) => if latest <? m then SErr s' else sync_groups fuel latest r s'
           end
  end.

Section Engine.
  Variable n : nat.                     (* number of metric fetchers *)
  Variable f : list Z -> Z.             (* the formula, on the fetched values in fetcher order *)
  Variable dfuel : nat.                 (* bound for the drain loops: > number of samples *)
  Variable ords : nat -> list nat.      (* iteration order of the finished-task set, per round *)

  Definition vals (s : est) : list Z := map (fun i => snd (cur s i)) (seq 0 n).

  (* FormulaEngine._run: apply() for ever; a round that raises emits nothing and is retried
     (with _first_run still True when the synchronisation failed). *)
  Fixpoint run (fuel : nat) (r : nat) (first : bool) (s : est) : list sample :=
    match fuel with
    | O => []
    | S fu =>
        match pop_names (seq 0 n) s with
        | None => []
        | Some s1 =>
            if first then
              let lt := latest_ts (ords r) (cur s1) in
              match sync_groups dfuel lt (groups (ords r) (cur s1)) s1 with
              | SBlock => []
              | SErr s2 => run fu (S r) true s2
              | SOk s2 => (lt, f (vals s2)) :: run fu (S r) false s2
              end
            else (fst (cur s1 (hd 0%nat (ords r))), f (vals s1)) :: run fu (S r) false s1
        end
    end.
End Engine.

Definition init (ss : nat -> list sample) : est := mkE ss (fun _ => (0, 0)).

Definition engine (n : nat) (f : list Z -> Z) (ords : nat -> list nat) (fuel : nat)
           (ss : nat -> list sample) : list sample :=
  run n f fuel ords fuel 0%nat true (init ss).

(* ---------------------------------------------------------------- 3-phase zipper *)
Definition sample3 := (Z * (Z * Z * Z))%type.

(* FormulaEngine3Phase._run as it was before the fix (kept for the refutation remark):
   one sample from each phase engine, stamped with phase 1's timestamp *)
Fixpoint zip3_unaligned (a b c : list sample) : list sample3 :=
  match a, b, c with
  | x :: a', y :: b', z :: c' => (fst x, (snd x, snd y, snd z)) :: zip3_unaligned a' b' c'
  | _, _, _ => []
  end.

(* after the fix: samples older than the newest of the three are discarded until the three
   timestamps agree.  [align] works on (current sample, rest) per phase. *)
Fixpoint align (fuel : nat) (x : sample) (a : list sample) (y : sample) (b : list sample)
         (z : sample) (c : list sample) : option (sample * list sample * (sample * list sample) * (sample * list sample)) :=
  let lt := Z.max (fst x) (Z.max (fst y) (fst z)) in
  if (fst x =? lt) && (fst y =? lt) && (fst z =? lt) then Some (x, a, (y, b), (z, c))
  else match fuel with
       | O => None
       | S fu =>
           match (if fst x <? lt then match a with [] => None | x' :: a' => Some (x', a') end else Some (x, a)) with
           | None => None
           | Some (x1, a1) =>
               match (if fst y <? lt then match b with [] => None | y' :: b' => Some (y', b') end else Some (y, b)) with
               | None => None
               | Some (y1, b1) =>
                   match (if fst z <? lt then match c with [] => None | z' :: c' => Some (z', c') end else Some (z, c)) with
                   | None => None
                   | Some (z1, c1) => align fu x1 a1 y1 b1 z1 c1
                   end
               end
           end
       end.

Fixpoint zip3 (fuel : nat) (a b c : list sample) : list sample3 :=
  match fuel with
  | O => []
  | S fu =>
      match a, b, c with
      | x :: a', y :: b', z :: c' =>
          match align fuel x a' y b' z c' with
          | None => []
          | Some (x1, a1, (y1, b1), (z1, c1)) => (fst x1, (snd x1, snd y1, snd z1)) :: zip3 fu a1 b1 c1
          end
      | _, _, _ => []
      end
  end.

(* ---------------------------------------------------------------- helpers for the case files *)
Definition of_list {A} (d : A) (l : list A) : nat -> A := fun i => nth i l d.
Definition sumZ (l : list Z) : Z := fold_left Z.add l 0.
Definition total_len (l : list (list sample)) : nat := fold_left (fun a s => (a + length s)%nat) l 0%nat.
Definition sample_eqb (a b : sample) := (fst a =? fst b) && (snd a =? snd b).
Definition sample3_eqb (a b : sample3) :=
  (fst a =? fst b) && (let '(p, q, r) := snd a in let '(p', q', r') := snd b in (p =? p') && (q =? q') && (r =? r')).

(* the harness formula: the sum of the inputs; a missing (None) input value is written -1 and makes
   the result missing (nones_are_zeros = False) *)
Definition sumN (l : list Z) : Z := if existsb (Z.eqb (-1)) l then -1 else sumZ l.

Definition engine_of (ss : list (list sample)) (ords : list (list nat)) : list sample :=
  let n := length ss in
  engine n sumN (of_list (seq 0 n) ords) (S (total_len ss)) (of_list [] ss).
