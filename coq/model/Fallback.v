(* C19 — MetricFetcher with a fallback (_formula_steps.py: _fetch_next, fetch_next_with_fallback,
   _synchronize_and_fetch_fallback and their error branches) as a function of the CONTENTS of the
   primary and the fallback stream (Kahn style), plus the two-term evaluator used for the
   end-to-end correspondence.  Executable definitions only.

   The fallback is started lazily; what it delivers is the list [fb]: it begins at whatever grid
   point the fallback formula happened to produce first (arbitrary — the theorems quantify over it). *)
From Verif Require Export model.Common.

(* a sample value: valid number, or invalid of some kind (0 None, 1 NaN, 2 +inf, 3 -inf) *)
Inductive val := V (z : Z) | Inv (k : Z).
Definition valid (v : val) : bool := match v with V _ => true | Inv _ => false end.
Definition smp := (Z * val)%type.                      (* timestamp (µs), value *)

(* one receive(): a sample, or a ReceiverError raised by the receiver *)
Inductive item := Smp (s : smp) | Err.
(* what a stream will ever deliver; once exhausted it blocks for ever, or — if [closed] —
   every further receive() raises ReceiverStoppedError *)
Record strm := mkS { items : list item; closed : bool }.

Definition strm_len (s : strm) : nat := length (items s).

Inductive rres := RBlock | RErr (s : strm) | RSmp (x : smp) (s : strm).
Definition recv (s : strm) : rres :=
  match items s with
  | [] => if closed s then RErr s else RBlock
  | Smp x :: r => RSmp x (mkS r (closed s))
  | Err :: r => RErr (mkS r (closed s))
  end.

Record fst_ := mkF {
  running : bool;              (* FallbackMetricFetcher.is_running *)
  latest : option smp;         (* MetricFetcher._latest_fallback_sample *)
  prim : strm;
  fb : strm }.

(* _synchronize_and_fetch_fallback, the catch-up loop:
   while primary.timestamp > latest.timestamp: latest = await fallback.receive() *)
Inductive cres := CBlock | CNone (l : smp) (f : strm) | CSome (l : smp) (f : strm).
Fixpoint catch_up (fuel : nat) (pts : Z) (l : smp) (f : strm) : cres :=
  if fst l <? pts then
    match fuel with
    | O => CBlock
    | S fu => match recv f with
              | RBlock => CBlock
              | RErr f' => CNone l f'
              | RSmp x f' => catch_up fu pts x f'
              end
    end
  else CSome l f.

(* result of one fetch_next(): blocks for ever / raises / returns a sample or None *)
Inductive fres := FBlock | FRaise (s : fst_) | FRet (o : option smp) (s : fst_).

Definition sync_and_fetch (fuel : nat) (p : smp) (s : fst_) (pr : strm) : fres :=
  (* returns through FRet: the sample fetch_next_with_fallback returns for primary sample p *)
  let go (l : smp) (f : strm) :=
    match catch_up fuel (fst p) l f with
    | CBlock => FBlock
    | CNone l' f' => FRet (Some p) (mkF true (Some l') pr f')
    | CSome l' f' =>
        (* after the loop: the fallback has no sample for the primary's timestamp (it is ahead,
           or skipped it) -> None, i.e. the primary sample is returned *)
        if fst p <? fst l' then FRet (Some p) (mkF true (Some l') pr f')
        else FRet (Some (if valid (snd p) then p else l')) (mkF true (Some l') pr f')
    end in
  match latest s with
  | Some l => go l (fb s)
  | None => match recv (fb s) with
            | RBlock => FBlock
            | RErr f' => FRet (Some p) (mkF true None pr f')
            | RSmp x f' => go x f'
            end
  end.

Definition fetch_with_fallback (fuel : nat) (s : fst_) : fres :=
  match recv (prim s) with
  | RBlock => FBlock
  | RErr pr =>                      (* primary failed: return await fallback_fetcher.receive() *)
      match recv (fb s) with
      | RBlock => FBlock
      | RErr f' => FRaise (mkF true (latest s) pr f')
      | RSmp x f' => FRet (Some x) (mkF true (latest s) pr f')
      end
  | RSmp p pr => sync_and_fetch fuel p s pr
  end.

(* MetricFetcher._fetch_next with a fallback configured *)
Definition fetch_next (fuel : nat) (s : fst_) : fres :=
  if running s then fetch_with_fallback fuel s
  else match recv (prim s) with
       | RBlock => FBlock
       | RErr pr => FRet None (mkF true (latest s) pr (fb s))            (* start(); return None *)
       | RSmp p pr => if valid (snd p) then FRet (Some p) (mkF false (latest s) pr (fb s))
                      else FRet (Some p) (mkF true (latest s) pr (fb s))  (* start(); return invalid *)
       end.

(* what a sequence of fetch_next() calls yields *)
Inductive fout := ORet (o : option smp) | ORaise.
Fixpoint fetch_n (fuel : nat) (calls : nat) (s : fst_) : list fout :=
  match calls with
  | O => []
  | S c => match fetch_next fuel s with
           | FBlock => []
           | FRaise s' => ORaise :: fetch_n fuel c s'
           | FRet o s' => ORet o :: fetch_n fuel c s'
           end
  end.

Definition fetcher_init (p f : strm) : fst_ := mkF false None p f.

(* ---------------------------------------------------------------- two-term formula A + B
   A = the fetcher with fallback, B = a plain stream.  FormulaEvaluator.apply / FormulaEngine._run
   specialised to these two fetchers; [picks r] = which fetcher's task comes first in the set
   iteration of round r (0 = A). *)
Record e2 := mkE2 { ea : fst_; eb : list smp; ca : smp; cb : smp }.

Definition term_value (zeros : bool) (v : val) : option Z :=
  match v with V z => Some z | Inv _ => if zeros then Some 0 else None end.
Definition out_value (zeros : bool) (a b : val) : option Z :=
  match term_value zeros a, term_value false b with
  | Some x, Some y => Some (x + y)
  | _, _ => None
  end.

Inductive dres := DBlock | DFail (s : e2) | DOk (s : e2).
(* drain A (fetch_next until its timestamp reaches latest); a None result trips the assert,
   a raise propagates: both abort the round *)
Fixpoint drain_a (fuel : nat) (lt : Z) (s : e2) : dres :=
  if fst (ca s) <? lt then
    match fuel with
    | O => DBlock
    | S fu => match fetch_next (S (strm_len (fb (ea s)))) (ea s) with
              | FBlock => DBlock
              | FRaise a' => DFail (mkE2 a' (eb s) (ca s) (cb s))
              | FRet None a' => DFail (mkE2 a' (eb s) (ca s) (cb s))
              | FRet (Some x) a' => drain_a fu lt (mkE2 a' (eb s) x (cb s))
              end
    end
  else DOk s.
Fixpoint drain_b (fuel : nat) (lt : Z) (s : e2) : dres :=
  if fst (cb s) <? lt then
    match fuel with
    | O => DBlock
    | S fu => match eb s with
              | [] => DBlock
              | x :: r => drain_b fu lt (mkE2 (ea s) r (ca s) x)
              end
    end
  else DOk s.

Section Eval2.
  Variable zeros : bool.              (* nones_are_zeros of term A *)
  Variable dfuel : nat.
  Variable picks : nat -> nat.

  Fixpoint run2 (fuel : nat) (r : nat) (first : bool) (s : e2) : list (Z * option Z) :=
    match fuel with
    | O => []
    | S fu =>
        (* both fetch tasks run; the round needs both to finish *)
        match fetch_next dfuel (ea s), eb s with
        | FBlock, _ => []
        | _, [] => []
        | FRaise a', b :: rb => run2 fu (S r) first (mkE2 a' rb (ca s) b)
        | FRet None a', b :: rb => run2 fu (S r) first (mkE2 a' rb (ca s) b)
        | FRet (Some a) a', b :: rb =>
            let s1 := mkE2 a' rb a b in
            if first then
              let lt := Z.max (fst a) (fst b) in
              match (if fst a <? lt then drain_a dfuel lt s1 else if fst b <? lt then drain_b dfuel lt s1 else DOk s1) with
              | DBlock => []
              | DFail s2 => run2 fu (S r) true s2
              | DOk s2 =>
                  if (lt <? fst (ca s2)) || (lt <? fst (cb s2)) then run2 fu (S r) true s2
                  else (lt, out_value zeros (snd (ca s2)) (snd (cb s2))) :: run2 fu (S r) false s2
              end
            else (fst (if Nat.eqb (picks r) 0 then a else b), out_value zeros (snd a) (snd b)) :: run2 fu (S r) false s1
        end
    end.
End Eval2.

(* ---------------------------------------------------------------- helpers for the case files *)
Definition val_eqb (a b : val) : bool :=
  match a, b with V x, V y => x =? y | Inv x, Inv y => x =? y | _, _ => false end.
Definition smp_eqb (a b : smp) : bool := (fst a =? fst b) && val_eqb (snd a) (snd b).
Definition fout_eqb (a b : fout) : bool :=
  match a, b with
  | ORaise, ORaise => true
  | ORet x, ORet y => opt_eqb smp_eqb x y
  | _, _ => false
  end.
