(* Formula engine (C05, C13): executable model.  Definitions only.

   Anchors in /repo/src/frequenz/sdk/timeseries/formula_engine:
     _tokenizer.py            Tokenizer.__next__, _read_unsigned_int      -> tokz / tokenize
     _formula_engine.py       _operator_precedence (TRANSLATED: gen/Formula.v),
                              FormulaBuilder.push_oper / push_metric / push_constant /
                              push_clipper / finalize                     -> push_oper ... finalize
                              _BaseHOFormulaBuilder._push / consumption / production,
                              HigherOrderFormulaBuilder.build             -> hb_tokens, compile
     _resampled_formula_builder.py  from_string                            -> compile_string
     _formula_steps.py        the step classes' apply, MetricFetcher.apply -> exec_step, fetch_val
     _formula_evaluator.py    FormulaEvaluator.apply (post-fix loop, len==1 test,
                              isnan/isinf -> None) + the engine loop that drops a round
                              on any exception                             -> exec, finish, run_round

   Value domain: [val] = finite rational | +inf | -inf | NaN with the IEEE-754 rules for the
   non-finite cases.  [rnd : Q -> val] stands for the rounding/overflow of one arithmetic
   result on two finite operands ([Num] = exact arithmetic).  Python specifics are explicit:
   max(a,b) = b if b > a else a; min(a,b) = b if b < a else a.

   The step semantics is the one of the REPAIRED tree (fix: commits for F5 and F6):
     Divider    : val1 / val2 if val2 != 0 else nan      (before: ZeroDivisionError -> round dropped)
     Maximizer  : nan if isnan(val1) or isnan(val2) else max(val1, val2)   (before: max(val1, val2))
     Minimizer  : likewise.
     _BaseHOFormulaBuilder._push / consumption / production return a NEW builder (fix: 466a650;
     before they mutated self), so a builder is a value and [hb] trees with repeated sub-trees
     describe builder objects used several times. *)
From Coq Require Import ZArith NArith QArith List Bool String.
From Verif Require Import model.Common gen.Formula.
Import ListNotations.
Close Scope string_scope.
Local Open Scope Z_scope.
Local Open Scope list_scope.

(* ------------------------------------------------------------------ values *)
Inductive val := Num (q : Q) | PInf | NInf | NaN.

Definition Qlt_bool (a b : Q) : bool := negb (Qle_bool b a).

Definition is_nan (v : val) : bool := match v with NaN => true | _ => false end.
Definition is_inf (v : val) : bool := match v with PInf | NInf => true | _ => false end.

Definition vneg (v : val) : val :=
  match v with Num q => Num (Qopp q) | PInf => NInf | NInf => PInf | NaN => NaN end.

Definition vadd (rnd : Q -> val) (a b : val) : val :=
  match a, b with
  | NaN, _ | _, NaN => NaN
  | Num x, Num y => rnd (Qplus x y)
  | PInf, NInf | NInf, PInf => NaN
  | PInf, _ | _, PInf => PInf
  | NInf, _ | _, NInf => NInf
  end.

Definition vsub (rnd : Q -> val) (a b : val) : val :=
  match a, b with
  | Num x, Num y => rnd (Qminus x y)
  | _, _ => vadd rnd a (vneg b)
  end.

(* sign of a non-NaN value *)
Definition vsign (v : val) : comparison :=
  match v with
  | Num q => Qcompare q 0
  | PInf => Gt
  | NInf => Lt
  | NaN => Eq
  end.

Definition sign_mul (a b : comparison) : comparison :=
  match a, b with
  | Eq, _ | _, Eq => Eq
  | Gt, Gt | Lt, Lt => Gt
  | _, _ => Lt
  end.

Definition inf_of_sign (s : comparison) : val :=
  match s with Gt => PInf | Lt => NInf | Eq => NaN end.

Definition vmul (rnd : Q -> val) (a b : val) : val :=
  match a, b with
  | NaN, _ | _, NaN => NaN
  | Num x, Num y => rnd (Qmult x y)
  | _, _ => inf_of_sign (sign_mul (vsign a) (vsign b))      (* inf * 0 = nan *)
  end.

(* Divider.apply:  val1 / val2 if val2 != 0 else nan *)
Definition vdiv (rnd : Q -> val) (a b : val) : val :=
  match b with
  | NaN => NaN
  | Num y =>
      if Qeq_bool y 0 then NaN
      else match a with
           | NaN => NaN
           | Num x => rnd (Qdiv x y)
           | _ => inf_of_sign (sign_mul (vsign a) (vsign b))
           end
  | _ => match a with
         | Num _ => Num 0            (* finite / inf = (signed) zero, exactly *)
         | _ => NaN                  (* inf / inf, nan / inf *)
         end
  end.

(* a < b as Python floats compare (False whenever a NaN is involved) *)
Definition vlt (a b : val) : bool :=
  match a, b with
  | Num x, Num y => Qlt_bool x y
  | NInf, Num _ | NInf, PInf | Num _, PInf => true
  | _, _ => false
  end.

(* Python's builtins on two arguments *)
Definition pymax (a b : val) : val := if vlt a b then b else a.
Definition pymin (a b : val) : val := if vlt b a then b else a.

(* Maximizer.apply / Minimizer.apply (repaired) *)
Definition vmax (a b : val) : val := if is_nan a || is_nan b then NaN else pymax a b.
Definition vmin (a b : val) : val := if is_nan a || is_nan b then NaN else pymin a b.
(* Consumption.apply: max(val, 0);  Production.apply: max(-val, 0) *)
Definition vcons (v : val) : val := pymax v (Num 0).
Definition vprod (v : val) : val := pymax (vneg v) (Num 0).
(* Clipper.apply *)
Definition vclip (lo hi : option val) (v : val) : val :=
  let v1 := match lo with Some l => pymax v l | None => v end in
  match hi with Some h => pymin v1 h | None => v1 end.

Definition val_eqb (a b : val) : bool :=
  match a, b with
  | Num x, Num y => Qeq_bool x y
  | PInf, PInf | NInf, NInf | NaN, NaN => true
  | _, _ => false
  end.

(* ------------------------------------------------------------------ steps *)
Inductive step :=
| SAdd | SSub | SMul | SDiv | SMax | SMin | SCons | SProd | SOpen
| SConst (v : val) | SClip (lo hi : option val) | SFetch (n : N).

Definition bin2 (f : val -> val -> val) (st : list val) : option (list val) :=
  match st with
  | v2 :: v1 :: r => Some (f v1 v2 :: r)      (* val2 = pop(); val1 = pop() *)
  | _ => None                                  (* IndexError: pop from empty list *)
  end.

Definition un1 (f : val -> val) (st : list val) : option (list val) :=
  match st with
  | v :: r => Some (f v :: r)
  | _ => None
  end.

(* [fv n]: what MetricFetcher n pushes in this round *)
Definition exec_step (rnd : Q -> val) (fv : N -> val) (s : step) (st : list val) : option (list val) :=
  match s with
  | SAdd => bin2 (vadd rnd) st
  | SSub => bin2 (vsub rnd) st
  | SMul => bin2 (vmul rnd) st
  | SDiv => bin2 (vdiv rnd) st
  | SMax => bin2 vmax st
  | SMin => bin2 vmin st
  | SCons => un1 vcons st
  | SProd => un1 vprod st
  | SOpen => Some st
  | SConst v => Some (v :: st)
  | SClip lo hi => un1 (vclip lo hi) st
  | SFetch n => Some (fv n :: st)
  end.

Fixpoint exec (rnd : Q -> val) (fv : N -> val) (p : list step) (st : list val) : option (list val) :=
  match p with
  | [] => Some st
  | s :: p' => match exec_step rnd fv s st with
               | Some st' => exec rnd fv p' st'
               | None => None
               end
  end.

(* one round of the engine: a sample (value or None) or nothing at all *)
Inductive outcome := Emit (v : option Q) | Dropped.

Definition finish (r : option (list val)) : outcome :=
  match r with
  | Some [Num q] => Emit (Some q)
  | Some [_] => Emit None                      (* isnan(res) or isinf(res) *)
  | _ => Dropped                               (* exception in a step, or len(eval_stack) != 1 *)
  end.

(* what arrives on an input stream for one timestamp *)
Inductive inp := IVal (q : Q) | INone | INaN | IPInf | INInf.
Definition missing (i : inp) : bool := match i with IVal _ => false | _ => true end.

(* MetricFetcher.apply *)
Definition fetch_val (nones_are_zeros : bool) (i : inp) : val :=
  match i with
  | IVal q => Num q
  | _ => if nones_are_zeros then Num 0 else NaN
  end.

Fixpoint nz_flag (fs : list (N * bool)) (n : N) : bool :=
  match fs with
  | [] => false
  | (m, z) :: r => if N.eqb m n then z else nz_flag r n
  end.

Definition run_round (rnd : Q -> val) (prog : list step * list (N * bool)) (env : N -> inp) : outcome :=
  finish (exec rnd (fun n => fetch_val (nz_flag (snd prog) n) (env n)) (fst prog) []).

(* ------------------------------------------------------------------ operators, precedence table *)
Inductive oper := OMax | OMin | OCons | OProd | OLp | ODiv | OMul | OSub | OAdd | ORp.

Definition oper_name (o : oper) : string :=
  match o with
  | OMax => "max" | OMin => "min" | OCons => "consumption" | OProd => "production"
  | OLp => "(" | ODiv => "/" | OMul => "*" | OSub => "-" | OAdd => "+" | ORp => ")"
  end%string.

Fixpoint lookup_prec (k : string) (t : list (string * Z)) : option Z :=
  match t with
  | [] => None
  | (k', v) :: r => if String.eqb k k' then Some v else lookup_prec k r
  end.

(* _operator_precedence[oper]; the table is the one translated from the source.
   (A missing key would be a KeyError; proofs/FormulaFacts.prec_total shows all ten are there.) *)
Definition prec (o : oper) : Z := default (-1) (lookup_prec (oper_name o) operator_precedence).

Definition is_lp (o : oper) : bool := match o with OLp => true | _ => false end.
Definition is_rp (o : oper) : bool := match o with ORp => true | _ => false end.

(* the step object appended to the build stack for an operator string *)
Definition step_of (o : oper) : step :=
  match o with
  | OAdd => SAdd | OSub => SSub | OMul => SMul | ODiv => SDiv
  | OMax => SMax | OMin => SMin | OCons => SCons | OProd => SProd
  | OLp => SOpen
  | ORp => SOpen   (* never on the build stack: push_oper(")") appends nothing *)
  end.

(* ------------------------------------------------------------------ FormulaBuilder *)
Record builder := mkB {
  b_stack : list oper;          (* _build_stack, top first *)
  b_steps : list step;          (* _steps *)
  b_fetch : list (N * bool)     (* _metric_fetchers: name -> nones_are_zeros, insertion order *)
}.

Definition empty_builder : builder := mkB [] [] [].

(* the `while self._build_stack:` loop of push_oper: (popped steps in pop order, remaining stack) *)
Fixpoint pop_ops (o : oper) (stk : list oper) : list oper * list oper :=
  match stk with
  | [] => ([], [])
  | p :: stk' =>
      if prec o <? prec p then ([], stk)
      else if is_rp o && is_lp p then ([], stk')
      else if is_lp p then ([], stk)
      else let '(popped, rest) := pop_ops o stk' in (p :: popped, rest)
  end.

Definition push_stack (o : oper) (stk : list oper) : list oper :=
  match o with ORp => stk | _ => o :: stk end.

Definition push_oper (o : oper) (b : builder) : builder :=
  let '(popped, rest) := if is_lp o then ([], b_stack b) else pop_ops o (b_stack b) in
  mkB (push_stack o rest) (b_steps b ++ map step_of popped) (b_fetch b).

Fixpoint has_key (fs : list (N * bool)) (n : N) : bool :=
  match fs with
  | [] => false
  | (m, _) :: r => N.eqb m n || has_key r n
  end.

(* setdefault(name, MetricFetcher(...)): the first push of a name fixes its flag *)
Definition push_metric (n : N) (nz : bool) (b : builder) : builder :=
  mkB (b_stack b) (b_steps b ++ [SFetch n])
      (if has_key (b_fetch b) n then b_fetch b else b_fetch b ++ [(n, nz)]).

Definition push_constant (v : val) (b : builder) : builder :=
  mkB (b_stack b) (b_steps b ++ [SConst v]) (b_fetch b).

Definition push_clipper (lo hi : option val) (b : builder) : builder :=
  mkB (b_stack b) (b_steps b ++ [SClip lo hi]) (b_fetch b).

Definition finalize (b : builder) : list step * list (N * bool) :=
  (b_steps b ++ map step_of (b_stack b), b_fetch b).

(* ------------------------------------------------------------------ tokens *)
Inductive tok := TMetric (n : N) | TOper (o : oper) | TConst (v : val).

(* from_string's loop body / HigherOrderFormulaBuilder.build's loop body *)
Definition feed (nz : bool) (b : builder) (t : tok) : builder :=
  match t with
  | TMetric n => push_metric n nz b
  | TOper o => push_oper o b
  | TConst v => push_constant v b
  end.

Definition compile (nz : bool) (ts : list tok) : list step * list (N * bool) :=
  finalize (fold_left (feed nz) ts empty_builder).

(* ------------------------------------------------------------------ Tokenizer (code points) *)
Local Open Scope N_scope.
Definition is_digit (c : N) : bool := (48 <=? c) && (c <=? 57).
Definition digit_val (c : N) : N := c - 48.
Definition is_ws (c : N) : bool := (c =? 32) || (c =? 10) || (c =? 13) || (c =? 9).
Definition oper_of_char (c : N) : option oper :=
  if c =? 43 then Some OAdd else if c =? 45 then Some OSub else if c =? 42 then Some OMul
  else if c =? 47 then Some ODiv else if c =? 40 then Some OLp else if c =? 41 then Some ORp
  else None.

Inductive tmode := MIdle | MHash | MNum (acc : N).

(* one character seen by Tokenizer.__next__'s loop: token produced (if any) and next mode;
   None = ValueError("Unable to parse character") *)
Definition idle_char (c : N) : option (option tok * tmode) :=
  if is_ws c then Some (None, MIdle)
  else match oper_of_char c with
       | Some o => Some (Some (TOper o), MIdle)
       | None => if c =? 35 then Some (None, MHash) else None
       end.

Definition flush (m : tmode) : list tok := match m with MNum a => [TMetric a] | _ => [] end.
Definition opt_list {A} (o : option A) : list A := match o with Some x => [x] | None => [] end.

(* None = the ValueError of the tokenizer, or of int("") for a '#' without digits *)
Fixpoint tokz (m : tmode) (cs : list N) : option (list tok) :=
  match cs with
  | [] => match m with MHash => None | _ => Some (flush m) end
  | c :: r =>
      match m, is_digit c with
      | MHash, true => tokz (MNum (digit_val c)) r
      | MNum a, true => tokz (MNum (10 * a + digit_val c)) r
      | MHash, false => None
      | _, _ =>
          match idle_char c with
          | None => None
          | Some (ot, m') =>
              match tokz m' r with
              | None => None
              | Some ts => Some (flush m ++ opt_list ot ++ ts)
              end
          end
      end
  end.

Definition tokenize (cs : list N) : option (list tok) := tokz MIdle cs.
Local Close Scope N_scope.

(* ResampledFormulaBuilder.from_string *)
Definition compile_string (nz : bool) (cs : list N) : option (list step * list (N * bool)) :=
  option_map (compile nz) (tokenize cs).

(* ------------------------------------------------------------------ expressions: strings *)
Inductive bop := Add | Sub | Mul | Div.

Definition oper_of_bop (o : bop) : oper :=
  match o with Add => OAdd | Sub => OSub | Mul => OMul | Div => ODiv end.

(* Grammar form of a well-formed formula: a segment is an operand followed by
   (operator, operand) pairs; an operand is a metric, a constant or a parenthesised segment. *)
Inductive gexpr := GVar (n : N) | GConst (q : Q) | GSeg (f : gexpr) (r : list (bop * gexpr)).

Fixpoint gatom (g : gexpr) : list tok :=
  match g with
  | GVar n => [TMetric n]
  | GConst q => [TConst (Num q)]
  | GSeg f r =>
      TOper OLp ::
      (gatom f ++
       (fix rest (r : list (bop * gexpr)) : list tok :=
          match r with
          | [] => []
          | (o, a) :: r' => TOper (oper_of_bop o) :: gatom a ++ rest r'
          end) r) ++ [TOper ORp]
  end.

Fixpoint grest (r : list (bop * gexpr)) : list tok :=
  match r with
  | [] => []
  | (o, a) :: r' => TOper (oper_of_bop o) :: gatom a ++ grest r'
  end.

(* top level: the outermost segment is not parenthesised *)
Definition gtokens (g : gexpr) : list tok :=
  match g with
  | GSeg f r => gatom f ++ grest r
  | _ => gatom g
  end.

(* AST with the standard printer: minimal parentheses by precedence climbing
   (levels: 0 sum, 1 product, 2 atom) plus explicit redundant parentheses [EParen]. *)
Inductive expr := EVar (n : N) | EConst (q : Q) | EBin (o : bop) (a b : expr) | EParen (e : expr).

Definition level (o : bop) : nat := match o with Add | Sub => 0 | Mul | Div => 1 end.

Fixpoint pp (lvl : nat) (e : expr) : list tok :=
  match e with
  | EVar n => [TMetric n]
  | EConst q => [TConst (Num q)]
  | EParen e' => TOper OLp :: pp 0 e' ++ [TOper ORp]
  | EBin o a b =>
      let body := pp (level o) a ++ TOper (oper_of_bop o) :: pp (S (level o)) b in
      if (lvl <=? level o)%nat then body else TOper OLp :: body ++ [TOper ORp]
  end.

(* ------------------------------------------------------------------ higher-order builders *)
Inductive hop := HB (o : bop) | HMax | HMin.
Inductive hun := UCons | UProd.

Definition oper_of_hop (o : hop) : oper :=
  match o with HB b => oper_of_bop b | HMax => OMax | HMin => OMin end.
Definition oper_of_hun (u : hun) : oper := match u with UCons => OCons | UProd => OProd end.

(* A builder value, by the calls that made it: HigherOrderFormulaBuilder(engine), then
   _push(oper, engine | constant | builder), consumption(), production(). *)
Inductive hb :=
| HStart (n : N)
| HPushE (b : hb) (o : hop) (n : N)
| HPushC (b : hb) (o : hop) (c : val)
| HPushB (b : hb) (o : hop) (b' : hb)
| HUn (b : hb) (u : hun).

(* the deque _steps *)
Fixpoint hb_tokens (b : hb) : list tok :=
  match b with
  | HStart n => [TMetric n]
  | HPushE b o n => TOper OLp :: hb_tokens b ++ [TOper ORp; TOper (oper_of_hop o); TMetric n]
  | HPushC b o c => TOper OLp :: hb_tokens b ++ [TOper ORp; TOper (oper_of_hop o); TConst c]
  | HPushB b o b' => TOper OLp :: hb_tokens b
                       ++ [TOper ORp; TOper (oper_of_hop o); TOper OLp] ++ hb_tokens b' ++ [TOper ORp]
  | HUn b u => TOper OLp :: hb_tokens b ++ [TOper ORp; TOper (oper_of_hun u)]
  end.

(* HigherOrderFormulaBuilder.build(name, nones_are_zeros=nz) *)
Definition compile_hb (nz : bool) (b : hb) : list step * list (N * bool) := compile nz (hb_tokens b).

(* ------------------------------------------------------------------ equality tests for the case files *)
Definition optval_eqb := opt_eqb val_eqb.
Definition step_eqb (a b : step) : bool :=
  match a, b with
  | SAdd, SAdd | SSub, SSub | SMul, SMul | SDiv, SDiv | SMax, SMax | SMin, SMin
  | SCons, SCons | SProd, SProd | SOpen, SOpen => true
  | SConst x, SConst y => val_eqb x y
  | SClip l h, SClip l' h' => optval_eqb l l' && optval_eqb h h'
  | SFetch n, SFetch m => N.eqb n m
  | _, _ => false
  end.

Definition outcome_eqb (a b : outcome) : bool :=
  match a, b with
  | Emit x, Emit y => opt_eqb Qeq_bool x y
  | Dropped, Dropped => true
  | _, _ => false
  end.

Definition fetch_eqb (a b : N * bool) : bool := N.eqb (fst a) (fst b) && Bool.eqb (snd a) (snd b).

Definition prog_eqb (a b : list step * list (N * bool)) : bool :=
  list_eqb step_eqb (fst a) (fst b) && list_eqb fetch_eqb (snd a) (snd b).

(* inputs of one round as an association list (absent name: INone) *)
Fixpoint env_of (l : list (N * inp)) (n : N) : inp :=
  match l with
  | [] => INone
  | (m, i) :: r => if N.eqb m n then i else env_of r n
  end.

(* ================================================================== reference semantics
   What "the arithmetic value of the expression" means; the theorems relate the compiled
   post-fix programs to these. *)

(* --- on values, for any rounding function: the four arithmetic operators by name *)
Definition vapp (rnd : Q -> val) (o : bop) : val -> val -> val :=
  match o with Add => vadd rnd | Sub => vsub rnd | Mul => vmul rnd | Div => vdiv rnd end.
Definition happ (rnd : Q -> val) (o : hop) : val -> val -> val :=
  match o with HB b => vapp rnd b | HMax => vmax | HMin => vmin end.
Definition hunapp (u : hun) : val -> val := match u with UCons => vcons | UProd => vprod end.

(* the value of a builder tree: every node applied to the values of its operands *)
Fixpoint hval (rnd : Q -> val) (fv : N -> val) (b : hb) : val :=
  match b with
  | HStart n => fv n
  | HPushE b o n => happ rnd o (hval rnd fv b) (fv n)
  | HPushC b o c => happ rnd o (hval rnd fv b) c
  | HPushB b o b' => happ rnd o (hval rnd fv b) (hval rnd fv b')
  | HUn b u => hunapp u (hval rnd fv b)
  end.

Fixpoint hb_engines (b : hb) : list N :=
  match b with
  | HStart n => [n]
  | HPushE b _ n => hb_engines b ++ [n]
  | HPushC b _ _ => hb_engines b
  | HPushB b _ b' => hb_engines b ++ hb_engines b'
  | HUn b _ => hb_engines b
  end.

(* --- exact real (rational) arithmetic with "undefined": None = a needed input is missing or a
   divisor is zero.  Nothing here relies on Coq's total division (x / 0 = 0). *)
Definition D := option Q.

Definition dapp (o : bop) (a b : D) : D :=
  match a, b with
  | Some x, Some y =>
      match o with
      | Add => Some (Qplus x y)
      | Sub => Some (Qminus x y)
      | Mul => Some (Qmult x y)
      | Div => if Qeq_bool y 0 then None else Some (Qdiv x y)
      end
  | _, _ => None
  end.

Definition deq (a b : D) : Prop :=
  match a, b with
  | Some x, Some y => Qeq x y
  | None, None => True
  | _, _ => False
  end.

Definition inj (d : D) : val := match d with Some q => Num q | None => NaN end.

(* ordinary evaluation of the AST: parentheses group, each node applies its operator to the
   values of its two operands (left-associativity is in the tree the printer [pp] prints) *)
Fixpoint evalD (fd : N -> D) (e : expr) : D :=
  match e with
  | EVar n => fd n
  | EConst q => Some q
  | EBin o a b => dapp o (evalD fd a) (evalD fd b)
  | EParen e' => evalD fd e'
  end.

(* ordinary precedence, left to right, on a parenthesis-free segment:
   state  S pm T  = "sum so far" pm "current term";  * and / extend the term, + and - close it *)
Fixpoint std (S : D) (pm : bop) (T : D) (rest : list (bop * D)) : D :=
  match rest with
  | [] => dapp pm S T
  | (o, x) :: r =>
      match o with
      | Mul | Div => std S pm (dapp o T x) r
      | Add | Sub => std (dapp pm S T) o x r
      end
  end.

Fixpoint gval (fd : N -> D) (g : gexpr) : D :=
  match g with
  | GVar n => fd n
  | GConst q => Some q
  | GSeg f r => std (Some 0%Q) Add (gval fd f) (map (fun p => (fst p, gval fd (snd p))) r)
  end.

(* what a stream contributes in a round, as a D: missing = undefined, or 0 when so configured *)
Definition fetch_D (nz : bool) (i : inp) : D :=
  match i with
  | IVal q => Some q
  | _ => if nz then Some 0%Q else None
  end.

Definition emit_of (d : D) : outcome := Emit d.

Definition outcome_equiv (a b : outcome) : Prop :=
  match a, b with
  | Emit x, Emit y => deq x y
  | Dropped, Dropped => True
  | _, _ => False
  end.

(* builder trees in exact arithmetic (finite constants) *)
Definition dmax (a b : D) : D :=
  match a, b with Some x, Some y => Some (if Qlt_bool x y then y else x) | _, _ => None end.
Definition dmin (a b : D) : D :=
  match a, b with Some x, Some y => Some (if Qlt_bool y x then y else x) | _, _ => None end.
Definition dhapp (o : hop) : D -> D -> D :=
  match o with HB b => dapp b | HMax => dmax | HMin => dmin end.
Definition dhun (u : hun) (a : D) : D :=
  match a, u with
  | Some x, UCons => Some (if Qlt_bool x 0 then 0%Q else x)
  | Some x, UProd => Some (if Qlt_bool (Qopp x) 0 then 0%Q else Qopp x)
  | None, _ => None
  end.
Definition D_of_val (v : val) : D := match v with Num q => Some q | _ => None end.

Fixpoint hvalD (fd : N -> D) (b : hb) : D :=
  match b with
  | HStart n => fd n
  | HPushE b o n => dhapp o (hvalD fd b) (fd n)
  | HPushC b o c => dhapp o (hvalD fd b) (D_of_val c)
  | HPushB b o b' => dhapp o (hvalD fd b) (hvalD fd b')
  | HUn b u => dhun u (hvalD fd b)
  end.

Fixpoint hb_consts_finite (b : hb) : bool :=
  match b with
  | HStart _ => true
  | HPushE b _ _ => hb_consts_finite b
  | HPushC b _ c => hb_consts_finite b && match c with Num _ => true | _ => false end
  | HPushB b _ b' => hb_consts_finite b && hb_consts_finite b'
  | HUn b _ => hb_consts_finite b
  end.

(* ------------------------------------------------------------------ spelling of a token list as characters
   A metric is '#' followed by one or more decimal digits (leading zeros allowed), an operator
   is its character; white-space may surround tokens but not split '#' from its digits. *)
Inductive sptok := SpM (d : N) (ds : list N) | SpO (c : N) (o : oper).

Definition sp_chars (t : sptok) : list N :=
  match t with
  | SpM d ds => 35%N :: map (fun x => (48 + x)%N) (d :: ds)
  | SpO c _ => [c]
  end.
Definition sp_tok (t : sptok) : tok :=
  match t with
  | SpM d ds => TMetric (fold_left (fun a x => (10 * a + x)%N) ds d)
  | SpO _ o => TOper o
  end.
Definition sp_ok (t : sptok) : Prop :=
  match t with
  | SpM d ds => Forall (fun x => (x < 10)%N) (d :: ds)
  | SpO c o => oper_of_char c = Some o
  end.
Fixpoint render (l : list (list N * sptok)) (trail : list N) : list N :=
  match l with
  | [] => trail
  | (ws, t) :: r => ws ++ sp_chars t ++ render r trail
  end.

(* ------------------------------------------------------------------ formula generators (C12 <-> C05)
   Every generator in _formula_generators/*.py drives the builder the same way:
     push_component_metric(id0, nones_are_zeros=z0)                       (first term, no operator)
     for each further term:  push_oper("+") or push_oper("-");  push_component_metric(id, nones_are_zeros=z)
     build()
   (no parentheses, no constants, no clipper; an empty component set is the single term
   NON_EXISTING_COMPONENT_ID with nones_are_zeros=True).  A signed term: (plus?, id, nones_are_zeros). *)
Definition sterm : Type := (bool * N * bool)%type.
Definition st_op (t : sterm) : bop := if fst (fst t) then Add else Sub.
Definition st_id (t : sterm) : N := snd (fst t).
Definition st_nz (t : sterm) : bool := snd t.

Definition signed_calls (n0 : N) (z0 : bool) (rest : list sterm) : builder :=
  fold_left (fun b t => push_metric (st_id t) (st_nz t) (push_oper (oper_of_bop (st_op t)) b))
            rest (push_metric n0 z0 empty_builder).

Definition compile_signed (n0 : N) (z0 : bool) (rest : list sterm) : list step * list (N * bool) :=
  finalize (signed_calls n0 z0 rest).

(* the flag a component id gets: the one of its first occurrence (setdefault) *)
Definition signed_flag (n0 : N) (z0 : bool) (rest : list sterm) (n : N) : bool :=
  nz_flag ((n0, z0) :: map (fun t => (st_id t, st_nz t)) rest) n.

(* sum of sign_i * value_i, left to right, on possibly-undefined values *)
Definition signed_sum (fd : N -> D) (n0 : N) (rest : list sterm) : D :=
  fold_left (fun acc t => dapp (st_op t) acc (fd (st_id t))) rest (fd n0).

(* ------------------------------------------------------------------ the value domain as an instance of the
   translated steps' number operations (gen/Formula.v: float_ops; T-tie of the `apply` bodies) *)
(* Python float ==  (NaN is unequal to everything) *)
Definition py_eq (a b : val) : bool :=
  match a, b with
  | Num x, Num y => Qeq_bool x y
  | PInf, PInf | NInf, NInf => true
  | _, _ => false
  end.

Definition vops (rnd : Q -> val) : float_ops val :=
  mk_float_ops val (vadd rnd) (vsub rnd) (vmul rnd)
    (fun a b => if py_eq b (Num 0) then None          (* ZeroDivisionError *)
                else Some (vdiv rnd a b))             (* IEEE division by a non-zero divisor *)
    vneg vlt py_eq is_nan is_inf NaN (fun z => Num (inject_Z z)).

(* ------------------------------------------------------------------ FormulaEnginePool.from_string
   (_formula_engine_pool.py; what LogicalMeter.start_formula calls).  The pool keeps one engine per
   key  formula + component_metric_id.value  (string concatenation); an existing engine is reused,
   whatever nones_are_zeros the later request carries. *)
Record pengine := mkPE {
  pe_metric : list N;                                   (* the metric whose streams the engine reads *)
  pe_prog : option (list step * list (N * bool))        (* None: from_string raised ValueError *)
}.

Fixpoint pool_find (k : list N) (p : list (list N * pengine)) : option pengine :=
  match p with
  | [] => None
  | (k', e) :: r => if list_eqb N.eqb k k' then Some e else pool_find k r
  end.

Definition pool_from_string (p : list (list N * pengine)) (f m : list N) (nz : bool)
  : list (list N * pengine) * pengine :=
  let k := f ++ m in
  match pool_find k p with
  | Some e => (p, e)
  | None => let e := mkPE m (compile_string nz f) in (p ++ [(k, e)], e)
  end.

Fixpoint pool_run (p : list (list N * pengine)) (reqs : list (list N * list N * bool)) : list pengine :=
  match reqs with
  | [] => []
  | (f, m, nz) :: r => let '(p', e) := pool_from_string p f m nz in e :: pool_run p' r
  end.

Definition pool_requests (reqs : list (list N * list N * bool)) : list pengine := pool_run [] reqs.

Definition is_letter (c : N) : bool := (97 <=? c)%N && (c <=? 122)%N.
