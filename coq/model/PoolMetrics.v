(* C18 — battery-pool SoC and capacity: SoCCalculator.calculate and
   CapacityCalculator.calculate as written, and the documented formulas
   (battery_pool/_battery_pool.py, docstrings of `soc` and `capacity`).
   Executable definitions only.  Python numerics (pmax, pmin, isclose, ...) come from
   model/PoolBounds.v. *)
From Coq Require Import QArith Qabs List Bool.
From Verif Require Import model.Common gen.Pool model.PoolBounds.
Import ListNotations.
Open Scope Q_scope.

(* One battery id the calculator may meet:
   b_working  - the id is in `working_batteries`
   b_present  - the id is a key of `metrics_data`
   the four metrics as stored in ComponentMetricsData (None = missing; the fetcher drops
   NaN values, so NaN counts as missing) *)
Record bat := mkBat {
  b_working : bool; b_present : bool;
  b_cap : option Q; b_lo : option Q; b_hi : option Q; b_soc : option Q }.

(* ------------------------------------------------------------------ SoCCalculator *)
(* body of the loop for one battery that passed all `continue`s *)
Definition soc_scaled (lo hi soc : Q) : Q :=
  let raw := if isclose hi lo
             then (if Qltb soc lo then 0 else 100)
             else (soc - lo) / (hi - lo) * 100 in
  pmin (pmax raw 0) 100.

(* Some (usable_capacity_x100, soc_scaled) when the battery is used, None = `continue` *)
Definition soc_entry (b : bat) : option (Q * Q) :=
  if b_working b && b_present b then
    match b_cap b, b_lo b, b_hi b, b_soc b with
    | Some c, Some lo, Some hi, Some s => Some (c * (hi - lo), soc_scaled lo hi s)
    | _, _, _, _ => None
    end
  else None.

(* (used_capacity_x100, total_capacity_x100, timestamp != _MIN_TIMESTAMP) *)
Fixpoint soc_loop (bs : list bat) (used total : Q) (any : bool) : Q * Q * bool :=
  match bs with
  | [] => (used, total, any)
  | b :: r =>
    match soc_entry b with
    | None => soc_loop r used total any
    | Some (u, s) => soc_loop r (used + u * s) (total + u) true
    end
  end.

Definition soc_finish (used total : Q) : Q :=
  if is_close_to_zero total then 0
  else let pct := used / total in if isclose pct 100 then 100 else pct.

Definition soc_calc (bs : list bat) : option Q :=
  let '(used, total, any) := soc_loop bs 0 0 false in
  if any then Some (soc_finish used total) else None.

(* ------------------------------------------------------------------ CapacityCalculator *)
Definition cap_entry (b : bat) : option Q :=
  if b_working b && b_present b then
    match b_cap b, b_lo b, b_hi b with
    | Some c, Some lo, Some hi => Some (c * (hi - lo) / 100)
    | _, _, _ => None
    end
  else None.

Fixpoint cap_loop (bs : list bat) (total : Q) (any : bool) : Q * bool :=
  match bs with
  | [] => (total, any)
  | b :: r =>
    match cap_entry b with
    | None => cap_loop r total any
    | Some u => cap_loop r (total + u) true
    end
  end.

Definition cap_calc (bs : list bat) : option Q :=
  let '(total, any) := cap_loop bs 0 false in
  if any then Some total else None.

(* ------------------------------------------------------------------ documented formulas *)
(* "working batteries" with all required metrics *)
Definition soc_qualifies (b : bat) : bool :=
  b_working b && b_present b &&
  match b_cap b, b_lo b, b_hi b, b_soc b with
  | Some _, Some _, Some _, Some _ => true
  | _, _, _, _ => false
  end.
Definition cap_qualifies (b : bat) : bool :=
  b_working b && b_present b &&
  match b_cap b, b_lo b, b_hi b with
  | Some _, Some _, Some _ => true
  | _, _, _ => false
  end.

Definition oq (o : option Q) : Q := default 0 o.

(* battery.usable_capacity = capacity * (soc_upper_bound - soc_lower_bound) / 100 *)
Definition doc_usable (b : bat) : Q := oq (b_cap b) * (oq (b_hi b) - oq (b_lo b)) / 100.
(* soc_scaled = min(max(0, (soc - lower) / (upper - lower) * 100), 100) *)
Definition doc_scaled (b : bat) : Q :=
  pmin (pmax 0 ((oq (b_soc b) - oq (b_lo b)) / (oq (b_hi b) - oq (b_lo b)) * 100)) 100.

Fixpoint qsumf {A} (f : A -> Q) (l : list A) : Q :=
  match l with [] => 0 | x :: r => f x + qsumf f r end.

Definition doc_used (bs : list bat) : Q :=
  qsumf (fun b => doc_usable b * doc_scaled b) (filter soc_qualifies bs).
Definition doc_total (bs : list bat) : Q := qsumf doc_usable (filter soc_qualifies bs).
(* average_soc = used_capacity / total_capacity *)
Definition doc_soc (bs : list bat) : Q := doc_used bs / doc_total bs.
(* total_capacity = sum(capacity * (upper - lower) / 100) *)
Definition doc_capacity (bs : list bat) : Q := qsumf doc_usable (filter cap_qualifies bs).

(* the code comment: "When the calculated is close to 0.0 or 100.0, they are set to exactly
   0.0 or 100.0" — only the snap to 100 exists in the code *)
Definition snap100 (x : Q) : Q := if isclose x 100 then 100 else x.

(* ------------------------------------------------------------------ relational clauses *)
Definition scale_caps (k : Q) (bs : list bat) : list bat :=
  map (fun b => mkBat (b_working b) (b_present b)
                      (match b_cap b with Some c => Some (k * c) | None => None end)
                      (b_lo b) (b_hi b) (b_soc b)) bs.

Definition optQ_eqb (a b : option Q) : bool := opt_eqb Qeq_bool a b.
