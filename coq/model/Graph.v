(* C12 — microgrid component trees and the generated power formulas.
   Executable definitions only (no lemmas).

   Anchors:  microgrid/component_graph.py (is_*_meter / is_*_chain, dfs) and
   timeseries/formula_engine/_formula_generators/{_formula_generator,_grid_power_formula_base,
   _grid_power_formula,_consumer_power_formula,_producer_power_formula,_battery_power_formula,
   _pv_power_formula,_ev_charger_power_formula,_chp_power_formula}.py

   A microgrid is a list of grid successors ([roots]); every component has exactly one predecessor
   (a tree: a component with two predecessors would be metered twice, which is outside the premise of
   C12).  Powers are part of the tree, so "for every tree" includes "for every power assignment".
   A formula is a list of signed terms; a term names the component whose power stream it reads (the
   node itself, its id is what the correspondence compares) and the components of its fallback
   formula.  [nones_are_zeros] of a term is always [category != METER] in the code and is derived. *)
From Verif Require Import model.Common.

Inductive node : Type :=
| Meter  (id : Z) (kids : list node) (load : Z)   (* reading = sum of kids' readings + unmetered load *)
| BatInv (id : Z) (bats : list Z) (p : Z)         (* battery inverter with its batteries *)
| PvInv  (id : Z) (p : Z)
| Ev     (id : Z) (p : Z)
| Chp    (id : Z) (p : Z).

Definition nid (n : node) : Z :=
  match n with Meter i _ _ | BatInv i _ _ | PvInv i _ | Ev i _ | Chp i _ => i end.

Definition zsum (l : list Z) : Z := fold_right Z.add 0 l.

(* what the power stream of a component delivers *)
Fixpoint reading (n : node) : Z :=
  match n with
  | Meter _ kids load => zsum (map reading kids) + load
  | BatInv _ _ p | PvInv _ p | Ev _ p | Chp _ p => p
  end.

(* true totals per device type *)
Fixpoint tot_pv (n : node) : Z :=
  match n with Meter _ kids _ => zsum (map tot_pv kids) | PvInv _ p => p | _ => 0 end.
Fixpoint tot_bat (n : node) : Z :=
  match n with Meter _ kids _ => zsum (map tot_bat kids) | BatInv _ _ p => p | _ => 0 end.
Fixpoint tot_ev (n : node) : Z :=
  match n with Meter _ kids _ => zsum (map tot_ev kids) | Ev _ p => p | _ => 0 end.
Fixpoint tot_chp (n : node) : Z :=
  match n with Meter _ kids _ => zsum (map tot_chp kids) | Chp _ p => p | _ => 0 end.
Fixpoint tot_load (n : node) : Z :=
  match n with Meter _ kids load => zsum (map tot_load kids) + load | _ => 0 end.
(* total power of the devices selected by [sel] *)
Fixpoint tot_sel (sel : node -> bool) (n : node) : Z :=
  match n with
  | Meter _ kids _ => zsum (map (tot_sel sel) kids)
  | BatInv _ _ p | PvInv _ p | Ev _ p | Chp _ p => if sel n then p else 0
  end.
Definition total (f : node -> Z) (roots : list node) : Z := zsum (map f roots).

(* ------------------------------------------------------------------ classification *)
Definition is_meter (n : node) := match n with Meter _ _ _ => true | _ => false end.
Definition is_bat_inv (n : node) := match n with BatInv _ _ _ => true | _ => false end.
Definition is_pv_inv (n : node) := match n with PvInv _ _ => true | _ => false end.
Definition is_ev (n : node) := match n with Ev _ _ => true | _ => false end.
Definition is_chp (n : node) := match n with Chp _ _ => true | _ => false end.
(* successors that are nodes of the tree; the batteries below an inverter satisfy none of the
   predicates and have no successors, so they never matter for a meter's classification or a DFS *)
Definition succs (n : node) : list node := match n with Meter _ kids _ => kids | _ => [] end.
Definition is_nil {A} (l : list A) : bool := match l with [] => true | _ => false end.

(* is_grid_meter: a meter that is the only successor of the grid.  [gm] says "this node is a
   successor of the grid and the grid has exactly one successor". *)
Definition gm_of (roots : list node) : bool := match roots with [_] => true | _ => false end.

(* is_X_meter: category METER, not the grid meter, >= 1 successor, all successors X *)
Definition dedicated_to (isx : node -> bool) (gm : bool) (n : node) : bool :=
  is_meter n && negb gm && negb (is_nil (succs n)) && forallb isx (succs n).
Definition is_pv_meter := dedicated_to is_pv_inv.
Definition is_ev_meter := dedicated_to is_ev.
Definition is_bat_meter := dedicated_to is_bat_inv.
Definition is_chp_meter := dedicated_to is_chp.
Definition pv_chain (gm : bool) n := is_pv_inv n || is_pv_meter gm n.
Definition ev_chain (gm : bool) n := is_ev n || is_ev_meter gm n.
Definition bat_chain (gm : bool) n := is_bat_inv n || is_bat_meter gm n.
Definition chp_chain (gm : bool) n := is_chp n || is_chp_meter gm n.

(* dfs(current, visited, condition): stops at the first node that fulfils the condition *)
Fixpoint dfs (cond : bool -> node -> bool) (gm : bool) (n : node) : list node :=
  if cond gm n then [n]
  else match n with
       | Meter _ kids _ => flat_map (dfs cond false) kids
       | _ => []
       end.
(* a DFS that starts at the grid component (which fulfils none of the conditions used) *)
Definition dfs_grid (cond : bool -> node -> bool) (roots : list node) : list node :=
  flat_map (dfs cond (gm_of roots)) roots.

(* every component of the tree (batteries are only ids inside their inverters) *)
Fixpoint nodes (n : node) : list node :=
  n :: match n with Meter _ kids _ => flat_map nodes kids | _ => [] end.
Definition all_nodes (roots : list node) : list node := flat_map nodes roots.

(* ------------------------------------------------------------------ terms *)
Definition term : Type := (Z * node * list node)%type.      (* sign, primary, fallback components *)
Definition t_sign (t : term) : Z := fst (fst t).
Definition t_node (t : term) : node := snd (fst t).
Definition t_fb (t : term) : list node := snd t.
Definition eval (ts : list term) : Z := zsum (map (fun t => t_sign t * reading (t_node t)) ts).
(* value of the fallback formula of a term (a plain sum of the fallback components) *)
Definition eval_fb (t : term) : Z := zsum (map reading (t_fb t)).

(* _get_meter_fallback_components: the successors when they are all of one device type
   (vacuously so for a meter without successors: the empty set, i.e. no fallback) *)
Definition meter_fallback (m : node) : list node :=
  let s := succs m in
  if forallb is_chp s || forallb is_pv_inv s || forallb is_bat_inv s || forallb is_ev s then s else [].

(* _get_metric_fallback_components on the result of a DFS / on grid successors.  A meter is a
   primary component with [meter_fallback]; a device is looked up as the fallback of its
   predecessor only when that predecessor is a meter dedicated to its type — never the case for a
   grid successor or a DFS result, because the DFS stops at such a meter — so it stays primary. *)
Definition with_fallback (fb : bool) (sign : Z) (n : node) : term :=
  (sign, n, if fb && is_meter n then meter_fallback n else []).

(* ------------------------------------------------------------------ generators *)
(* GridPowerFormula: sum of the grid successors of category INVERTER / EV_CHARGER / METER;
   ComponentNotFound (None) when there is none *)
Definition grid_terms (fb : bool) (roots : list node) : option (list term) :=
  let comps := filter (fun r => negb (is_chp r)) roots in
  if is_nil comps then None else Some (map (with_fallback fb 1) comps).

Definition non_consumer (gm : bool) (n : node) : bool :=
  bat_chain gm n || chp_chain gm n || pv_chain gm n || ev_chain gm n.
Definition consumer_component (gm : bool) (n : node) : bool :=
  (is_meter n || is_bat_inv n || is_pv_inv n) && negb (non_consumer gm n).

(* _gen_with_grid_meter: the given meters minus every non-consumer chain found below them *)
Definition consumer_from_meters (fb gm : bool) (meters : list node) : list term :=
  map (fun m => (1, m, [])) meters
  ++ map (with_fallback fb (-1)) (flat_map (dfs non_consumer gm) meters).

Definition are_grid_meters (roots : list node) : bool :=
  forallb (fun r => is_meter r && negb (non_consumer (gm_of roots) r)) roots.

(* ConsumerPowerFormula.generate.  Without grid meter(s) the consumer components (meters not
   dedicated to one device type) are found by a DFS from the grid and then treated exactly like
   grid meters (repaired behaviour; before the fix of finding F9 they were summed WITHOUT
   subtracting what is below them: [map (fun m => (1, m, [])) cc]). *)
Definition consumer_terms (fb : bool) (roots : list node) : list term :=
  if are_grid_meters roots then consumer_from_meters fb (gm_of roots) roots
  else let cc := dfs_grid consumer_component roots in
       if is_nil cc then [] else consumer_from_meters fb (gm_of roots) cc.

(* the formula as generated before the fix (kept for the regression witness only) *)
Definition consumer_terms_before_fix (fb : bool) (roots : list node) : list term :=
  if are_grid_meters roots then consumer_from_meters fb (gm_of roots) roots
  else map (fun m => (1, m, [])) (dfs_grid consumer_component roots).

Definition producer_terms (fb : bool) (roots : list node) : list term :=
  map (with_fallback fb 1) (dfs_grid (fun gm n => pv_chain gm n || chp_chain gm n) roots).

(* PVPowerFormula without component ids: DFS for PV chains *)
Definition pv_terms (fb : bool) (roots : list node) : list term :=
  map (with_fallback fb 1) (dfs_grid pv_chain roots).

(* PVPowerFormula / BatteryPowerFormula for requested inverters ([sel]; the pools request all of
   their type by default).  With fallback, an inverter whose predecessor is a meter dedicated to the
   type is replaced by that meter, provided ALL successors of the meter are requested (dict keyed
   by the primary component: the meter occurs once, its inverters are the fallback); otherwise, and
   without fallback, the requested inverters themselves are summed.
   (Before the fix of finding F9b the meter was taken as soon as ONE of its inverters was
   requested: [by_inverters_before_fix].) *)
Fixpoint by_inverters (isx sel : node -> bool) (fb gm : bool) (n : node) : list term :=
  match n with
  | Meter _ kids _ =>
      if fb && dedicated_to isx gm n && forallb sel kids then [(1, n, kids)]
      else flat_map (by_inverters isx sel fb false) kids
  | _ => if sel n then [(1, n, [])] else []
  end.
Fixpoint by_inverters_before_fix (isx sel : node -> bool) (fb gm : bool) (n : node) : list term :=
  match n with
  | Meter _ kids _ =>
      if fb && dedicated_to isx gm n
      then (let req := filter sel kids in if is_nil req then [] else [(1, n, req)])
      else flat_map (by_inverters_before_fix isx sel fb false) kids
  | _ => if sel n then [(1, n, [])] else []
  end.
Definition pvids_terms (fb : bool) (roots : list node) : list term :=
  flat_map (by_inverters is_pv_inv is_pv_inv fb (gm_of roots)) roots.
(* only inverters that have a battery are reachable from the requested battery ids *)
Definition has_bats (n : node) : bool := match n with BatInv _ (_ :: _) _ => true | _ => false end.
Definition battery_terms (fb : bool) (roots : list node) : list term :=
  flat_map (by_inverters is_bat_inv has_bats fb (gm_of roots)) roots.

(* the pools over a subset: BatteryPowerFormula for the battery ids [bids] (below),
   PVPowerFormula for the PV inverters [psel] (no ids = DFS for all PV chains) *)
Definition mem (x : Z) (l : list Z) : bool := existsb (Z.eqb x) l.
(* BatteryPowerFormula for the battery ids [bids].  The batteries of an inverter are just ids, so
   several inverters may share a battery (1:N, N:1, N:M); nothing below assumes the lists disjoint.
   Every inverter that is a predecessor of a requested battery takes part, and all batteries behind
   such an inverter must be requested, else FormulaGenerationError (None). *)
Definition bat_sel (bids : list Z) (n : node) : bool :=
  match n with BatInv _ bats _ => existsb (fun b => mem b bids) bats | _ => false end.
Definition bat_closed (bids : list Z) (n : node) : bool :=
  match n with BatInv _ bats _ => forallb (fun b => mem b bids) bats | _ => true end.
Definition pv_sel (psel : list Z) (n : node) : bool := is_pv_inv n && mem (nid n) psel.
Definition battery_pool_terms (fb : bool) (roots : list node) (bids : list Z) : option (list term) :=
  if forallb (fun n => implb (bat_sel bids n) (bat_closed bids n)) (all_nodes roots)
  then Some (flat_map (by_inverters is_bat_inv (bat_sel bids) fb (gm_of roots)) roots)
  else None.
Definition pv_pool_terms (fb : bool) (roots : list node) (psel : list Z) : list term :=
  if is_nil psel then pv_terms fb roots
  else flat_map (by_inverters is_pv_inv (pv_sel psel) fb (gm_of roots)) roots.
Definition battery_pool_terms_before_fix (fb : bool) (roots : list node) (bids : list Z) : list term :=
  flat_map (by_inverters_before_fix is_bat_inv (bat_sel bids) fb (gm_of roots)) roots.

Fixpoint ev_nodes (n : node) : list node :=
  match n with Meter _ kids _ => flat_map ev_nodes kids | Ev _ _ => [n] | _ => [] end.
Definition ev_terms (roots : list node) : list term :=
  map (fun n => (1, n, [])) (flat_map ev_nodes roots).

(* EVChargerPowerFormula for the charger ids [esel] (an EV-charger pool over a subset): the requested
   chargers themselves - an EV-charger meter is never read by this formula *)
Definition ev_sel (esel : list Z) (n : node) : bool := is_ev n && mem (nid n) esel.
Fixpoint ev_pool_nodes (sel : node -> bool) (n : node) : list node :=
  match n with
  | Meter _ kids _ => flat_map (ev_pool_nodes sel) kids
  | Ev _ _ => if sel n then [n] else []
  | _ => []
  end.
Definition ev_pool_terms (roots : list node) (esel : list Z) : list term :=
  map (fun n => (1, n, [])) (flat_map (ev_pool_nodes (ev_sel esel)) roots).

(* CHPPowerFormula._get_chp_meters: every CHP must have a meter as predecessor all of whose
   successors are CHPs, else FormulaGenerationError (None); the set of those meters *)
Fixpoint opt_concat {A} (l : list (option (list A))) : option (list A) :=
  match l with
  | [] => Some []
  | None :: _ => None
  | Some x :: r => match opt_concat r with Some y => Some (x ++ y) | None => None end
  end.
Fixpoint chp_meters (n : node) : option (list node) :=
  match n with
  | Meter _ kids _ =>
      if existsb is_chp kids then (if forallb is_chp kids then Some [n] else None)
      else opt_concat (map chp_meters kids)
  | Chp _ _ => None          (* a CHP directly below the grid *)
  | _ => Some []
  end.
Definition chp_terms (roots : list node) : option (list term) :=
  match opt_concat (map chp_meters roots) with
  | Some ms => Some (map (fun m => (1, m, [])) ms)
  | None => None
  end.

(* ------------------------------------------------------------------ the premise of C12 *)
Definition dedicated (gm : bool) (n : node) : bool :=
  is_pv_meter gm n || is_ev_meter gm n || is_bat_meter gm n || is_chp_meter gm n.

(* unmetered load only at meters not dedicated to one device type; every battery inverter has a
   battery; every CHP is metered by a meter dedicated to CHPs (and recognised as such: not at the
   same time the grid meter) *)
Fixpoint wf_node (gm : bool) (n : node) : bool :=
  match n with
  | Meter _ kids load =>
      (if dedicated gm n then load =? 0 else true)
      && (if existsb is_chp kids then is_chp_meter gm n else true)
      && forallb (wf_node false) kids
  | BatInv _ bats _ => negb (is_nil bats)
  | _ => true
  end.
Definition wf (roots : list node) : bool :=
  negb (is_nil roots) && forallb (fun r => negb (is_chp r)) roots && forallb (wf_node (gm_of roots)) roots.

(* Meters, inverters and EV chargers have a power stream; a CHP has none (the data sourcing actor
   rejects the category), which is why CHPs must be metered: no formula may read a CHP itself. *)
Definition reads_measurable (ts : list term) : bool := forallb (fun t => negb (is_chp (t_node t))) ts.

(* trigger of the (fixed) finding F9: no grid meter(s), and the consumer DFS meets a meter that
   has a non-consumer chain below it *)
Definition f9_trigger (roots : list node) : bool :=
  negb (are_grid_meters roots)
  && existsb (fun m => negb (is_nil (dfs non_consumer (gm_of roots) m))) (dfs_grid consumer_component roots).

(* ------------------------------------------------------------------ reading by component id *)
(* The formula engine subscribes to component IDS.  [eval] above sums the readings of the nodes the
   terms name; [eval_by_id] looks every id up in the tree (proofs/GraphIds.v: the same number when
   the component ids are distinct). *)
Definition lookup (roots : list node) (i : Z) : option node := find (fun n => nid n =? i) (all_nodes roots).
Definition reading_of (roots : list node) (i : Z) : Z :=
  match lookup roots i with Some n => reading n | None => 0 end.
Definition by_id (t : term) : Z * Z := (t_sign t, nid (t_node t)).
Definition eval_by_id (roots : list node) (ts : list (Z * Z)) : Z :=
  zsum (map (fun t => fst t * reading_of roots (snd t)) ts).

(* ------------------------------------------------------------------ observation (for the case files) *)
Fixpoint insertZ (x : Z) (l : list Z) : list Z :=
  match l with [] => [x] | y :: r => if x <=? y then x :: l else y :: insertZ x r end.
Definition sortZ (l : list Z) : list Z := fold_right insertZ [] l.
Definition oterm : Type := (Z * Z * bool * list Z)%type.   (* id, sign, nones_are_zeros, sorted fallback ids *)
Definition observe (t : term) : oterm :=
  (nid (t_node t), t_sign t, negb (is_meter (t_node t)), sortZ (map nid (t_fb t))).
Definition oterm_eqb (a b : oterm) : bool :=
  let '(i1, s1, z1, f1) := a in let '(i2, s2, z2, f2) := b in
  (i1 =? i2) && (s1 =? s2) && Bool.eqb z1 z2 && listZ_eqb f1 f2.
Definition count_o (x : oterm) (l : list oterm) : nat := length (filter (oterm_eqb x) l).
Definition same_terms (a b : list oterm) : bool :=
  Nat.eqb (length a) (length b) && forallb (fun x => Nat.eqb (count_o x a) (count_o x b)) (a ++ b).
