(* Executable model (over Q, exact) of the battery power distribution algorithm:
     frequenz/sdk/microgrid/_power_distributing/_distribution_algorithm/_battery_distribution_algorithm.py
       AggregatedBatteryData, _inclusion_exclusion_bounds, _compute_battery_availability_ratio,
       _distribute_power, _greedy_distribute_remaining_power, _distribute_multi_inverter_pairs,
       _distribute_consume_power / _distribute_supply_power, distribute_power
     _component_managers/_battery_manager.py  _distribute_power:  distributed = request - remaining
   Definitions only (no lemmas).  `pow(available_soc, exponent)` enters as the argument [powf];
   python dicts keyed by inverter set / component id are positional lists here (component ids are
   assumed pairwise distinct, as in any component graph). *)
From Coq Require Export QArith Qabs.
From Verif Require Export model.Common.
From Verif Require Import gen.DistConst.   (* T-tie: constants regenerated from /repo on every run *)
Open Scope Q_scope.

(* ---------------------------------------------------------------- numbers *)
Definition Qlt_bool (a b : Q) : bool := negb (Qle_bool b a).
Definition qmax (a b : Q) : Q := if Qlt_bool a b then b else a.     (* python max(a, b) *)
Definition qmin (a b : Q) : Q := if Qlt_bool b a then b else a.     (* python min(a, b) *)
Definition qsum (l : list Q) : Q := fold_right Qplus 0 l.
Definition sumsp (l : list (Z * Q)) : Q := qsum (map snd l).   (* sum of (inverter id, set-point) pairs *)
Definition qmaxl (l : list Q) : Q := match l with [] => 0 | x :: t => fold_left qmax t x end.
Definition qminl (l : list Q) : Q := match l with [] => 0 | x :: t => fold_left qmin t x end.

Definition eps : Q := dist_close_to_zero_abs_tol.   (* is_close_to_zero: abs_tol (1e-9), translated from _internal/_math.py *)
Definition rel_tol : Q := 1 # 1000000000.  (* math.isclose default rel_tol *)
Definition czero (v : Q) : bool := Qle_bool (Qabs v) eps.
Definition isclose (a b : Q) : bool := Qle_bool (Qabs (a - b)) (rel_tol * qmax (Qabs a) (Qabs b)).

(* ---------------------------------------------------------------- input data *)
Record battery := mkBat { b_cap : Q; b_soc : Q; b_lo : Q; b_hi : Q; b_il : Q; b_el : Q; b_eu : Q; b_iu : Q }.
Record inverter := mkInv { i_id : Z; i_il : Q; i_el : Q; i_eu : Q; i_iu : Q }.
Record group := mkGrp { g_bats : list battery; g_invs : list inverter }.

(* AggregatedBatteryData *)
Record agg := mkAgg { a_cap : Q; a_soc : Q; a_lo : Q; a_hi : Q; a_il : Q; a_el : Q; a_eu : Q; a_iu : Q }.
Definition nbat (bs : list battery) : Q := inject_Z (Z.of_nat (length bs)).
Definition aggregate (bs : list battery) : agg :=
  let cap := qsum (map b_cap bs) in
  mkAgg cap
        (qsum (map (fun b => b_soc b * b_cap b) bs) / cap)
        (qsum (map (fun b => b_lo b * b_cap b) bs) / cap)
        (qsum (map (fun b => b_hi b * b_cap b) bs) / cap)
        (qsum (map b_il bs))
        (qminl (map b_el bs) * nbat bs)
        (qmaxl (map b_eu bs) * nbat bs)
        (qsum (map b_iu bs)).

(* ---------------------------------------------------------------- direction-normalised data
   (_inclusion_exclusion_bounds + available_soc; every bound is a magnitude in the request's direction) *)
Record pinv := mkPI { pi_id : Z; pi_excl : Q; pi_incl : Q }.
Record pgroup := mkPG { pg_cap : Q; pg_avail : Q; pg_factor : Q; pg_bexcl : Q; pg_bincl : Q; pg_invs : list pinv }.

Definition prep_inv (supply : bool) (a : agg) (i : inverter) : pinv :=
  if supply then mkPI (i_id i) (- i_el i) (- qmax (i_il i) (a_il a))
  else mkPI (i_id i) (i_eu i) (qmin (i_iu i) (a_iu a)).

Definition prepare (supply : bool) (powf : Q -> Q) (g : group) : pgroup :=
  let a := aggregate (g_bats g) in
  let avail := if supply then qmax 0 (a_soc a - a_lo a) else qmax 0 (a_hi a - a_soc a) in
  mkPG (a_cap a) avail (powf avail)
       (if supply then - a_el a else a_eu a)
       (if supply then - a_il a else a_iu a)
       (map (prep_inv supply a) (g_invs g)).

(* ---------------------------------------------------------------- _compute_battery_availability_ratio *)
Record entry := mkE { e_src : pgroup; e_ratio : Q; e_min : Q; e_upper : Q }.

Definition min_power (g : pgroup) : Q := qmax (pg_bexcl g) (qminl (map pi_excl (pg_invs g))).
Definition incl_bound (g : pgroup) : Q := qmin (qsum (map pi_incl (pg_invs g))) (pg_bincl g).
Definition mk_entry (total_cap : Q) (g : pgroup) : entry :=
  mkE g (pg_cap g / total_cap * pg_factor g) (min_power g) (incl_bound g).

(* list.sort(key=(min_power, ratio), reverse=True): stable, descending *)
Definition key_lt (x y : entry) : bool :=
  Qlt_bool (e_min x) (e_min y) || (Qeq_bool (e_min x) (e_min y) && Qlt_bool (e_ratio x) (e_ratio y)).
Fixpoint insert_desc (x : entry) (l : list entry) : list entry :=
  match l with
  | [] => [x]
  | y :: t => if key_lt x y then y :: insert_desc x t else x :: l
  end.
Definition sort_entries (l : list entry) : list entry := fold_right insert_desc [] l.

(* ---------------------------------------------------------------- reservation loop *)
Inductive kind := KZero | KExcess (e : Q) | KDeficit (d : Q).
Record slot := mkS { s_src : pgroup; s_min : Q; s_upper : Q; s_kind : kind }.

(* state: reserved_power, used_ratio *)
Fixpoint reserve (p sum_ratio reserved used : Q) (l : list entry) : list slot :=
  match l with
  | [] => []
  | x :: t =>
      let ratio := sum_ratio - used in
      if czero ratio || czero (e_ratio x)
      then mkS (e_src x) 0 0 KZero :: reserve p sum_ratio reserved used t
      else
        let calc := (p - reserved) * e_ratio x / ratio in
        let k := if Qlt_bool (e_upper x) calc then KExcess (e_upper x - e_min x)
                 else if Qlt_bool calc (e_min x) then KDeficit (calc - e_min x)
                 else KExcess (calc - e_min x) in
        mkS (e_src x) (e_min x) (e_upper x) k
          :: reserve p sum_ratio (reserved + qmax calc (e_min x)) (used + e_ratio x) t
  end.

(* ---------------------------------------------------------------- deficit covering *)
(* max(excess_reserved.items(), key=value) picks the FIRST entry carrying the maximal value:
   [max_excess] is that value, [take_first lp v] rewrites the first excess entry equal to it *)
Definition max_step (acc : option Q) (s : slot) : option Q :=
  match s_kind s with
  | KExcess e => match acc with
                 | Some b => if Qlt_bool b e then Some e else acc
                 | None => Some e
                 end
  | _ => acc
  end.
Definition max_excess (l : list slot) : option Q := fold_left max_step l None.

Fixpoint take_first (lp v : Q) (l : list slot) : list slot :=
  match l with
  | [] => []
  | s :: t =>
      match s_kind s with
      | KExcess e => if Qeq_bool e lp then mkS (s_src s) (s_min s) (s_upper s) (KExcess v) :: t
                     else s :: take_first lp v t
      | _ => s :: take_first lp v t
      end
  end.

(* the while loop for one deficit [d] (negative); returns the slots and the uncovered rest *)
Fixpoint cover (fuel : nat) (d : Q) (l : list slot) : list slot * Q :=
  match fuel with
  | O => (l, d)
  | S f =>
      if czero d || negb (Qlt_bool d 0) then (l, d) else
      match max_excess l with
      | None => (l, d)
      | Some lp =>
          if czero lp || Qlt_bool lp 0 then (l, d)
          else if Qle_bool (- d) lp || isclose lp (- d) then (take_first lp (lp + d) l, 0)
          else cover f (d + lp) (take_first lp 0 l)
      end
  end.

Definition deficits_of (l : list slot) : list Q :=
  flat_map (fun s => match s_kind s with KDeficit d => [d] | _ => [] end) l.

(* for each deficit in insertion order; also collects the uncovered rests *)
Fixpoint cover_all (ds : list Q) (l : list slot) : list slot * list Q :=
  match ds with
  | [] => (l, [])
  | d :: t => let '(l1, r) := cover (S (length l)) d l in
              let '(l2, rs) := cover_all t l1 in (l2, r :: rs)
  end.

(* ---------------------------------------------------------------- excess application, greedy top-up *)
Record gpower := mkG { gp_src : pgroup; gp_lower : Q; gp_upper : Q; gp_power : Q }.   (* _Power(upper_bound, power, lower_bound) *)

Definition slot_power (s : slot) : Q :=
  match s_kind s with
  | KZero => 0
  | KExcess e => s_min s + e
  | KDeficit _ => s_min s
  end.
Definition apply_excess (l : list slot) : list gpower :=
  map (fun s => mkG (s_src s) (s_min s) (s_upper s) (slot_power s)) l.

Fixpoint greedy_loop (rem : Q) (l : list gpower) : list gpower * Q :=
  match l with
  | [] => ([], rem)
  | g :: t =>
      if czero rem || czero (gp_power g)
      then let '(t', r) := greedy_loop rem t in (g :: t', r)
      else let add := qmin (gp_upper g - gp_power g) rem in
           let '(t', r) := greedy_loop (rem - add) t in
           (mkG (gp_src g) (gp_lower g) (gp_upper g) (gp_power g + add) :: t', r)
  end.
Definition greedy (rem : Q) (l : list gpower) : list gpower * Q :=
  if czero rem then (l, rem) else greedy_loop rem l.

(* ---------------------------------------------------------------- split over the inverters of a set *)
(* sorted(ids, key=(-excl, id)): largest exclusion bound first, ties by ascending id *)
Definition inv_before (x y : pinv) : bool :=
  Qlt_bool (pi_excl y) (pi_excl x) || (Qeq_bool (pi_excl x) (pi_excl y) && (pi_id x <? pi_id y)%Z).
Fixpoint insert_inv (x : pinv) (l : list pinv) : list pinv :=
  match l with
  | [] => [x]
  | y :: t => if inv_before y x then y :: insert_inv x t else x :: l
  end.
Definition sort_invs (l : list pinv) : list pinv := fold_right insert_inv [] l.

Fixpoint split_loop (rem : Q) (l : list pinv) : list (Z * Q) * Q :=
  match l with
  | [] => ([], rem)
  | i :: t =>
      if negb (czero rem) && Qle_bool (pi_excl i) rem
      then let np := qmin (pi_incl i) rem in
           let '(t', r) := split_loop (rem - np) t in ((pi_id i, np) :: t', r)
      else let '(t', r) := split_loop rem t in ((pi_id i, 0) :: t', r)
  end.

Definition split_raw (g : gpower) : list (Z * Q) * Q :=
  match pg_invs (gp_src g) with
  | [i] => ([(pi_id i, gp_power g)], 0)
  | invs => split_loop (gp_power g) (sort_invs invs)
  end.

(* a set whose inverters cannot take its minimum power is not used at all:
   `if assigned < lower_bound and not math.isclose(assigned, lower_bound)` *)
Definition guard_ok (assigned lower : Q) : bool := negb (Qlt_bool assigned lower) || isclose assigned lower.
Definition split_group (g : gpower) : list (Z * Q) * Q :=
  let '(d, r) := split_raw g in
  if guard_ok (sumsp d) (gp_lower g) then (d, r)
  else (map (fun a => (fst a, 0)) d, gp_power g).

(* per battery group: its data, its inverters' set-points, the part of its power no inverter took *)
Record gres := mkGR { gr_src : pgroup; gr_sp : list (Z * Q); gr_left : Q }.

Fixpoint split_all (l : list gpower) : list gres * Q :=
  match l with
  | [] => ([], 0)
  | g :: t => let '(d, r) := split_group g in
              let '(ds, rs) := split_all t in (mkGR (gp_src g) d r :: ds, r + rs)
  end.

(* ---------------------------------------------------------------- _distribute_power *)
Inductive label := LAllZero | LZeroSkip | LDeficit | LDeficitUncovered | LGreedy | LMultiInverter
                 | LSplitLeftover | LSupply | LTinyRequest | LNegExcess | LNegLeftover | LSetUnused.

Record result := mkR { res_groups : list gres;   (* per battery group, in processing order *)
                       res_rem : Q; res_trace : list label }.
Definition res_dist (r : result) : list (Z * Q) := flat_map gr_sp (res_groups r).

Definition zeros (gs : list pgroup) : list gres :=
  map (fun g => mkGR g (map (fun i => (pi_id i, 0)) (pg_invs g)) 0) gs.

Definition total_cap (gs : list pgroup) : Q := qsum (map pg_cap gs).
Definition entries (gs : list pgroup) : list entry := sort_entries (map (mk_entry (total_cap gs)) gs).
Definition sum_ratio (gs : list pgroup) : Q := qsum (map (fun g => e_ratio (mk_entry (total_cap gs) g)) gs).

Definition flag (b : bool) (l : label) : list label := if b then [l] else [].
Definition is_zero_slot (s : slot) := match s_kind s with KZero => true | _ => false end.
Definition is_deficit_slot (s : slot) := match s_kind s with KDeficit _ => true | _ => false end.

(* the phases of _distribute_power after the all-zero test *)
Definition reserved_slots (gs : list pgroup) (p : Q) : list slot := reserve p (sum_ratio gs) 0 0 (entries gs).
Definition covered_slots (gs : list pgroup) (p : Q) : list slot * list Q :=
  cover_all (deficits_of (reserved_slots gs p)) (reserved_slots gs p).
Definition assigned (gs : list pgroup) (p : Q) : list gpower := apply_excess (fst (covered_slots gs p)).
Definition left_over (gs : list pgroup) (p : Q) : Q := p - qsum (map gp_power (assigned gs p)).

(* None = ValueError("All batteries have capacity 0.") *)
Definition core (gs : list pgroup) (p : Q) : option result :=
  if czero (total_cap gs) then None
  else if czero (sum_ratio gs) then Some (mkR (zeros gs) p [LAllZero])
  else
    let sl0 := reserved_slots gs p in
    let '(sl, rests) := cover_all (deficits_of sl0) sl0 in
    let pw0 := apply_excess sl in
    let lo := p - qsum (map gp_power pw0) in
    let '(pw, rem) := greedy lo pw0 in
    let '(ds, srem) := split_all pw in
    Some (mkR ds (rem + srem)
              (flag (existsb is_zero_slot sl0) LZeroSkip
               ++ flag (existsb is_deficit_slot sl0) LDeficit
               ++ flag (existsb (fun r => negb (czero r) && Qlt_bool r 0) rests) LDeficitUncovered
               ++ flag (negb (czero lo)) LGreedy
               ++ flag (existsb (fun g => (1 <? length (pg_invs (gp_src g)))%nat) pw) LMultiInverter
               ++ flag (negb (Qeq_bool srem 0)) LSplitLeftover
               ++ flag (existsb (fun s => match s_kind s with KExcess e => Qlt_bool e 0 | _ => false end) sl) LNegExcess
               ++ flag (Qlt_bool lo 0) LNegLeftover
               ++ flag (existsb (fun g => negb (guard_ok (sumsp (fst (split_raw g))) (gp_lower g))) pw) LSetUnused)).

(* ---------------------------------------------------------------- distribute_power *)
Definition neg_result (r : result) : result :=
  mkR (map (fun gd => mkGR (gr_src gd) (map (fun a => (fst a, - snd a)) (gr_sp gd)) (- gr_left gd)) (res_groups r))
      (- res_rem r) (LSupply :: res_trace r).

Definition distribute (powf : Q -> Q) (gs : list group) (p : Q) : option result :=
  if czero p then Some (mkR (zeros (map (prepare false powf) gs)) 0 [LTinyRequest])
  else if Qlt_bool 0 p then core (map (prepare false powf) gs) p
  else match core (map (prepare true powf) gs) (- p) with
       | Some r => Some (neg_result r)
       | None => None
       end.

(* BatteryManager._distribute_power: distributed_power_value = request - remaining_power *)
Record request_result := mkRR { rr_res : result; res_distributed : Q }.
Definition run_request (powf : Q -> Q) (gs : list group) (p : Q) : option request_result :=
  match distribute powf gs p with
  | Some r => Some (mkRR r (p - res_rem r))
  | None => None
  end.

(* ---------------------------------------------------------------- helpers for the generated case files *)
Fixpoint insert_id (x : Z * Q) (l : list (Z * Q)) : list (Z * Q) :=
  match l with
  | [] => [x]
  | y :: t => if (fst y <? fst x)%Z then y :: insert_id x t else x :: l
  end.
Definition sort_by_id (l : list (Z * Q)) : list (Z * Q) := fold_right insert_id [] l.

Definition label_eqb (a b : label) : bool :=
  match a, b with
  | LAllZero, LAllZero | LZeroSkip, LZeroSkip | LDeficit, LDeficit | LDeficitUncovered, LDeficitUncovered
  | LGreedy, LGreedy | LMultiInverter, LMultiInverter | LSplitLeftover, LSplitLeftover | LSupply, LSupply
  | LTinyRequest, LTinyRequest | LNegExcess, LNegExcess | LNegLeftover, LNegLeftover | LSetUnused, LSetUnused => true
  | _, _ => false
  end.
Definition has_label (l : label) (r : result) : bool := existsb (label_eqb l) (res_trace r).
