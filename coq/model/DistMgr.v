(* BatteryManager glue around the distribution algorithm (definitions only):
   _get_bounds / _check_request (the ENFORCED bounds) -> _get_power_distribution -> _distribute_power,
   applied to the latest battery / inverter data of the battery sets that have data, in the order the
   manager iterated its sets (recorded from the run). *)
From Verif Require Export model.Dist.
Open Scope Q_scope.

Definition enf_il (gs : list group) : Q :=
  qsum (map (fun g => qmax (a_il (aggregate (g_bats g))) (qsum (map i_il (g_invs g)))) gs).
Definition enf_iu (gs : list group) : Q :=
  qsum (map (fun g => qmin (a_iu (aggregate (g_bats g))) (qsum (map i_iu (g_invs g)))) gs).
Definition enf_el (gs : list group) : Q :=
  qmin (qsum (map (fun g => a_el (aggregate (g_bats g))) gs)) (qsum (flat_map (fun g => map i_el (g_invs g)) gs)).
Definition enf_eu (gs : list group) : Q :=
  qmax (qsum (map (fun g => a_eu (aggregate (g_bats g))) gs)) (qsum (flat_map (fun g => map i_eu (g_invs g)) gs)).

(* _check_request: true = the request is forwarded to the algorithm *)
Definition check_request (gs : list group) (p : Q) (adjust : bool) : bool :=
  if czero p then true
  else if adjust then negb (Qlt_bool (enf_el gs) p && Qlt_bool p (enf_eu gs))
  else (Qle_bool (enf_il gs) p && Qle_bool p (enf_el gs)) || (Qle_bool (enf_eu gs) p && Qle_bool p (enf_iu gs)).

Inductive mresult :=
  | MError          (* no data for any battery set *)
  | MOutOfBounds
  | MFailed         (* the algorithm raised ValueError -> Error result *)
  | MDone (rr : request_result).   (* Success: set_power calls = res_dist, excess = res_rem, succeeded = res_distributed *)

Definition manager_request (powf : Q -> Q) (gs : list group) (p : Q) (adjust : bool) : mresult :=
  match gs with
  | [] => MError
  | _ => if check_request gs p adjust
         then match run_request powf gs p with Some rr => MDone rr | None => MFailed end
         else MOutOfBounds
  end.

(* ---------------------------------------------------------------- result accounting under API faults
   _set_distributed_power / _parse_result / _distribute_power are modelled in model/Accounting.v (C15's area,
   imported read-only, qualified).  Here the set-points and the remaining power are the ones the algorithm computed
   and every inverter has its own set_power outcome. *)
From Verif Require model.Accounting.

Definition faults_input (p : Q) (rr : request_result) (m : list (Z * list Z)) (out_of : Z -> Accounting.outcome)
  : Accounting.bat_in :=
  let d := res_dist (rr_res rr) in
  Accounting.mkBat p d (res_rem (rr_res rr)) m (map (fun c => out_of (fst c)) d).

Definition faults_result (p : Q) (rr : request_result) (m : list (Z * list Z)) (out_of : Z -> Accounting.outcome)
  : Accounting.result := Accounting.bat_result (faults_input p rr m out_of).
