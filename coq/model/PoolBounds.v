(* C17 — battery-pool power bounds: advertised (PowerBoundsCalculator.calculate) versus
   enforced (BatteryManager._get_bounds / _check_request).  Executable definitions only.

   Numbers are exact rationals (Q); the implementation is run on the exact class
   tools/lib/exact.py:X, so results are compared with Qeq, never as floats.

   Python numerics modelled here (also used by model/PoolMetrics.v):
     max(a, b)      = b if b > a else a            (pmax)
     min(a, b)      = b if b < a else a            (pmin)
     max(iterable)  = left fold of pmax            (lmax)   min likewise (lmin)
     sum(iterable)  = ((0 + x1) + x2) + ...        (qsum)
     math.isclose(a, b, rel_tol, abs_tol) = |a-b| <= max(rel_tol*|a|, rel_tol*|b|, abs_tol)
     _math.is_close_to_zero(v) = math.isclose(v, 0.0, abs_tol = <translated default>)  *)
From Coq Require Import QArith Qabs List Bool.
From Verif Require Import model.Common gen.Pool.
Import ListNotations.
Open Scope Q_scope.

(* ------------------------------------------------------------------ Python numerics *)
Definition Qltb (a b : Q) : bool := negb (Qle_bool b a).
Definition pmax (a b : Q) : Q := if Qltb a b then b else a.
Definition pmin (a b : Q) : Q := if Qltb b a then b else a.

Definition qsum (l : list Q) : Q := fold_left Qplus l 0.

(* max()/min() of a non-empty iterable; the callers guard emptiness (Python raises /
   asserts there), the model returns 0 on the unreachable empty list *)
Definition lmax (l : list Q) : Q := match l with [] => 0 | x :: r => fold_left pmax r x end.
Definition lmin (l : list Q) : Q := match l with [] => 0 | x :: r => fold_left pmin r x end.

Definition isclose_rel_tol : Q := 1 # 1000000000.   (* math.isclose default rel_tol = 1e-09 *)
Definition py_isclose (rel abs a b : Q) : bool :=
  Qle_bool (Qabs (a - b)) (pmax (pmax (Qabs (rel * b)) (Qabs (rel * a))) abs).
Definition isclose (a b : Q) : bool := py_isclose isclose_rel_tol 0 a b.
Definition is_close_to_zero (v : Q) : bool := py_isclose isclose_rel_tol is_close_to_zero_abs_tol v 0.

(* ------------------------------------------------------------------ PowerBounds *)
(* result.PowerBounds: inclusion_lower, exclusion_lower, exclusion_upper, inclusion_upper *)
Record pb := mkPB { il : Q; el : Q; eu : Q; iu : Q }.

Definition pb_eqb (a b : pb) : bool :=
  Qeq_bool (il a) (il b) && Qeq_bool (el a) (el b) && Qeq_bool (eu a) (eu b) && Qeq_bool (iu a) (iu b).

Definition nlen {A} (l : list A) : Q := inject_Z (Z.of_nat (length l)).

(* _battery_distribution_algorithm._aggregate_battery_power_bounds (non-empty list) *)
Definition agg_bat (bs : list pb) : pb :=
  mkPB (qsum (map il bs))
       (lmin (map el bs) * nlen bs)
       (lmax (map eu bs) * nlen bs)
       (qsum (map iu bs)).

(* ------------------------------------------------------------------ advertised bounds *)
(* One component's entry in metrics_data: None = component absent from the map, otherwise
   the four bound metrics in the calculator's order (inclusion_lower, exclusion_lower,
   exclusion_upper, inclusion_upper), each possibly missing. *)
Definition centry := option (option Q * option Q * option Q * option Q).

(* get_validated_bounds: all four metrics present, else the component is ignored *)
Definition validate (e : centry) : option pb :=
  match e with
  | Some (Some a, Some b, Some c, Some d) => Some (mkPB a b c d)
  | _ => None
  end.

Fixpoint somes {A} (l : list (option A)) : list A :=
  match l with
  | [] => []
  | Some x :: r => x :: somes r
  | None :: r => somes r
  end.

(* One element of `battery_sets` with the inverter set the code attaches to it
   (`self._bat_inv_map[next(iter(battery_ids))]`).  Which batteries/inverters end up in
   which group is decided by the component graph and CPython's set iteration; both the
   calculator and the manager take it from the same maps, so it is an input here. *)
Record group := mkG { g_bats : list centry; g_invs : list centry }.

(* contribution of one group to the four running sums, None = `continue` *)
Definition adv_group (g : group) : option pb :=
  match somes (map validate (g_bats g)) with
  | [] => None
  | bb =>
    let ab := agg_bat bb in
    match somes (map validate (g_invs g)) with
    | [] => None
    | ib => Some (mkPB (pmax (il ab) (qsum (map il ib)))
                       (pmin (el ab) (qsum (map el ib)))
                       (pmax (eu ab) (qsum (map eu ib)))
                       (pmin (iu ab) (qsum (map iu ib))))
    end
  end.

(* the `for battery_ids in battery_sets` loop appends one contribution per group that was not
   skipped to each of the four lists *)
Definition adv_contribs (gs : list group) : list pb := somes (map adv_group gs).

(* PowerBoundsCalculator.calculate: the four lists are added up with sum();
   None = SystemBounds(inclusion_bounds=None, exclusion_bounds=None), returned when no group
   contributed (timestamp == _MIN_TIMESTAMP) *)
Definition advertised (gs : list group) : option pb :=
  match adv_contribs gs with
  | [] => None
  | cs => Some (mkPB (qsum (map il cs)) (qsum (map el cs)) (qsum (map eu cs)) (qsum (map iu cs)))
  end.

(* Bounds.__contains__ (both ends present) and SystemBounds.__contains__ *)
Definition bounds_contains (lo hi x : Q) : bool := Qle_bool lo x && Qle_bool x hi.
Definition sys_contains (incl excl : option (Q * Q)) (x : Q) : bool :=
  match incl with
  | None => false
  | Some (l, u) =>
    if negb (bounds_contains l u x) then false
    else match excl with
         | Some (l', u') => negb (bounds_contains l' u' x)
         | None => true
         end
  end.
Definition adv_contains (a : option pb) (x : Q) : bool :=
  match a with
  | None => sys_contains None None x
  | Some b => sys_contains (Some (il b, iu b)) (Some (el b, eu b)) x
  end.

(* ------------------------------------------------------------------ enforced bounds *)
(* complete data: every battery and inverter of the group has all its bounds *)
Definition cgroup := (list pb * list pb)%type.
Definition wrap_entry (b : pb) : centry := Some (Some (il b), Some (el b), Some (eu b), Some (iu b)).
Definition wrap (g : cgroup) : group := mkG (map wrap_entry (fst g)) (map wrap_entry (snd g)).

(* InvBatPair(AggregatedBatteryData(batteries), inverters) of _get_battery_inverter_data *)
Definition pair_of (g : cgroup) : pb * list pb := (agg_bat (fst g), snd g).

(* BatteryManager._get_bounds(pairs_data) *)
Definition enforced (ps : list (pb * list pb)) : pb :=
  mkPB (qsum (map (fun p => pmax (il (fst p)) (qsum (map il (snd p)))) ps))
       (pmin (qsum (map (fun p => el (fst p)) ps)) (qsum (flat_map (fun p => map el (snd p)) ps)))
       (pmax (qsum (map (fun p => eu (fst p)) ps)) (qsum (flat_map (fun p => map eu (snd p)) ps)))
       (qsum (map (fun p => pmin (iu (fst p)) (qsum (map iu (snd p)))) ps)).

(* BatteryManager._check_request after the battery-id checks: true = None (forwarded to the
   distribution), false = OutOfBounds *)
Definition check_request (adjust : bool) (b : pb) (p : Q) : bool :=
  if is_close_to_zero p then true
  else if adjust then negb (Qltb (el b) p && Qltb p (eu b))
  else (Qle_bool (il b) p && Qle_bool p (el b)) || (Qle_bool (eu b) p && Qle_bool p (iu b)).

(* BatteryManager._get_distribution once it has pairs (the Error branches aside): the request is
   checked against the enforced bounds and then distributed; whatever the distribution could not
   place is REPORTED as remaining_power (`rem`), it never turns the answer into OutOfBounds *)
Inductive dkind := DOutOfBounds | DDistributed (rem : Q).
Definition get_distribution_kind (adjust : bool) (b : pb) (p rem : Q) : dkind :=
  if check_request adjust b p then DDistributed rem else DOutOfBounds.
Definition dist_kind_ok (k : dkind) : bool := match k with DDistributed _ => true | DOutOfBounds => false end.

(* AvailabilityRatio.min_power of one pair, consume (p > 0) and supply (p < 0) direction:
   max(excl_bounds[battery], min(excl_bounds[inverter] ...)) with
   _inclusion_exclusion_bounds' sign flip for supply *)
Definition min_power_up (p : pb * list pb) : Q := pmax (eu (fst p)) (lmin (map eu (snd p))).
Definition min_power_down (p : pb * list pb) : Q :=
  pmax (- el (fst p)) (lmin (map (fun i => - el i) (snd p))).

(* ------------------------------------------------------------------ minimum powers as the algorithm stores them *)
(* BatteryDistributionAlgorithm identifies a pair by AggregatedBatteryData.component_id (the
   first battery of the set) and keeps the exclusion bounds of batteries AND inverters in one
   dict keyed by component id (`_inclusion_exclusion_bounds`); `_compute_battery_availability_ratio`
   reads min_power back through those keys.  A later write to the same key wins. *)
Definition ipair := (Z * pb * list (Z * pb))%type.   (* first battery id, aggregated bounds, inverters *)
Definition dict := list (Z * Q).                     (* newest write first *)
Fixpoint dget (d : dict) (k : Z) : Q :=
  match d with
  | [] => 0
  | (k', v) :: r => if Z.eqb k k' then v else dget r k
  end.
Definition writes_of (up : bool) (p : ipair) : list (Z * Q) :=
  let '(bid, b, invs) := p in
  (bid, if up then eu b else - el b) :: map (fun i => (fst i, if up then eu (snd i) else - el (snd i))) invs.
Definition excl_dict (up : bool) (ps : list ipair) : dict :=
  fold_left (fun d p => fold_left (fun d w => w :: d) (writes_of up p) d) ps [].
Definition min_power_keyed (up : bool) (ps : list ipair) : Q :=
  let d := excl_dict up ps in
  qsum (map (fun p : ipair => let '(bid, _, invs) := p in
                              pmax (dget d bid) (lmin (map (fun i => dget d (fst i)) invs))) ps).
(* forgetting the ids *)
Definition strip (p : ipair) : pb * list pb := let '(_, b, invs) := p in (b, map snd invs).
(* the ids a pair writes *)
Definition keys_of (p : ipair) : list Z := let '(bid, _, invs) := p in bid :: map fst invs.
(* groups whose members carry their component ids, in the order the manager read them
   (AggregatedBatteryData.component_id = batteries[0].component_id) *)
Definition igroup := (list (Z * pb) * list (Z * pb))%type.
Definition cg_of (g : igroup) : cgroup := (map snd (fst g), map snd (snd g)).
Definition ipair_of (g : igroup) : ipair :=
  (match fst g with (bid, _) :: _ => bid | [] => 0%Z end, agg_bat (map snd (fst g)), snd g).
