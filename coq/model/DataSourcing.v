(* Executable model of microgrid/_data_sourcing/microgrid_api_source.py (MicrogridApiSource):
   a labelled transition system.  Definitions only.

   What one event stands for in the code:
     AddMetric c n   one complete `add_metric(request)` call; n is the request's channel name
                     (`get_channel_name()`: namespace, component id, metric id, start time) seen from
                     component c: the metric plus a tag for the (namespace, start) pair.
     HandlerOpen c   a (re)created `_handle_data_stream(c, category)` task finds no API receiver for c, validates
                     the requested metrics and calls the API client's `<category>_data(c)`; the call may stay
                     pending for any number of loop iterations / any time (state HOpening).  A request arriving
                     meanwhile cancels the task in that await (AddMetric: HOpening -> HStarting); the replacement
                     task opens the stream again.  Nothing of the cancelled call survives (assumption: the client
                     creates the receiver only when the call returns, as frequenz-client-microgrid does).
     HandlerStart c  the opening call returned (from HOpening) or the receiver already existed (from HStarting):
                     the step of a (re)created `_handle_data_stream(c, category)` task (or of a
                     `run_forever` retry after a crash): validate, create the API receiver if it does
                     not exist yet, take the snapshot of the requested metrics (`_get_metric_senders`).
     ApiMsg c m      the microgrid API delivers data message m of component c (enqueued in the
                     component's API receiver if that receiver exists).
     Take c          the running handler of c consumes the oldest buffered message and spawns its
                     `process_msg` task (which carries the handler's snapshot).
     Deliver         the oldest in-flight `process_msg` task sends one sample per channel of its snapshot.
                     [st_out] logs every `send()` that is entered; a send on a channel its consumer closed
                     raises, and that must not keep the other sends of the fan-out from happening.
     HandlerFail c   the API client's `<category>_data(c)` raised during a handler (re)start.
     AddFault c n    `api_client.components()` raised inside `add_metric`: nothing was registered.
     Restart         the actor's `_run()` was re-entered: the source, its subscriptions, receivers and
                     handler tasks belong to the actor object and persist (state unchanged).
   The last three fields of the state are history (ghost) variables used by the theorems only. *)
From Verif Require Export model.Common.

Inductive category := Meter | Inverter | Battery | EvCharger | OtherCat.

Definition comp := Z.
Definition metric := Z.      (* position of the metric in ComponentMetricId *)

Record name := mkN { n_metric : metric; n_tag : Z }.
Definition name_eqb (a b : name) : bool := (n_metric a =? n_metric b) && (n_tag a =? n_tag b).

(* a data message: timestamp (microseconds) and, for every metric, the value of the field that
   metric reads (position = metric index; fields the category does not have are never read) *)
Record msg := mkMsg { m_ts : Z; m_vals : list Z }.
Definition sample := (Z * Z)%type.         (* timestamp, value *)

(* ComponentMetricId order: 0 ACTIVE_POWER, 1-3 ACTIVE_POWER_PHASE_k, 4 REACTIVE_POWER,
   5-7 REACTIVE_POWER_PHASE_k, 8-10 CURRENT_PHASE_k, 11-13 VOLTAGE_PHASE_k, 14 FREQUENCY, 15 SOC,
   16 SOC_LOWER_BOUND, 17 SOC_UPPER_BOUND, 18 CAPACITY, 19-22 POWER_{INCL_LO,EXCL_LO,EXCL_UP,INCL_UP},
   23-26 ACTIVE_POWER_{INCL_LO,EXCL_LO,EXCL_UP,INCL_UP}, 27 TEMPERATURE *)
Definition supported (cat : category) (m : metric) : bool :=
  match cat with
  | Meter | EvCharger => (0 <=? m) && (m <=? 14)                               (* _MeterDataMethods, _EVChargerDataMethods *)
  | Inverter => ((0 <=? m) && (m <=? 14)) || ((23 <=? m) && (m <=? 26))        (* _InverterDataMethods *)
  | Battery => ((15 <=? m) && (m <=? 22)) || (m =? 27)                         (* _BatteryDataMethods *)
  | OtherCat => false                                                           (* "Unknown component category" *)
  end.

Definition sample_of (n : name) (m : msg) : sample :=
  (m_ts m, nth (Z.to_nat (n_metric n)) (m_vals m) 0).

Inductive hstate := HStarting | HRunning (snap : list name) | HCrashed
  | HOpening.   (* suspended in the API client's `<category>_data(c)` call that opens the component's stream *)

Record task := mkT { t_comp : comp; t_snap : list name; t_msg : msg }.

Definition out := (comp * name * sample)%type.

Record state := mkSt {
  st_subs  : comp -> list name;            (* _req_streaming_metrics, flattened, in request order *)
  st_recv  : comp -> option (list msg);    (* comp_data_receivers: None = not created; FIFO buffer *)
  st_hand  : comp -> option hstate;        (* comp_data_tasks *)
  st_fly   : list task;                    (* in-flight process_msg tasks, oldest first *)
  st_acc   : list (comp * msg);            (* history: messages accepted by an API receiver *)
  st_taken : list task;                    (* history: every Take *)
  st_out   : list out                      (* history: every sample sent *)
}.

Definition init : state := mkSt (fun _ => []) (fun _ => None) (fun _ => None) [] [] [] [].

Definition upd {A} (f : comp -> A) (k : comp) (v : A) : comp -> A :=
  fun x => if x =? k then v else f x.

Definition mem_name (n : name) (l : list name) : bool := existsb (name_eqb n) l.

Inductive event :=
| AddMetric (c : comp) (n : name)
| HandlerOpen (c : comp)
| HandlerStart (c : comp)
| ApiMsg (c : comp) (m : msg)
| Take (c : comp)
| Deliver
(* faults of the environment and what they may NOT change *)
| HandlerFail (c : comp)            (* the API client raised while the handler (re)started: run_forever retries later *)
| AddFault (c : comp) (n : name)    (* `add_metric` raised while reading `components()`: the request is dropped *)
| Restart.                          (* DataSourcingActor._run() re-entered after an unhandled exception *)

Definition fanout (t : task) : list out :=
  map (fun n => (t_comp t, n, sample_of n (t_msg t))) (t_snap t).

Definition queue (s : state) (c : comp) : list msg := default [] (st_recv s c).

(* validation shared by both paths of a handler (re)start: `_check_<category>_request` before the opening
   call, `_get_metric_senders` afterwards; either raises for a metric the category has no extractor for *)
Definition set_hand (s : state) (c : comp) (h : hstate) : state :=
  mkSt (st_subs s) (st_recv s) (upd (st_hand s) c (Some h)) (st_fly s) (st_acc s) (st_taken s) (st_out s).

Definition do_open (cats : comp -> option category) (s : state) (c : comp) : option state :=
  match cats c with
  | Some cat => if forallb (fun n => supported cat (n_metric n)) (st_subs s c)
                then Some (set_hand s c HOpening) else Some (set_hand s c HCrashed)
  | None => None
  end.

Definition do_start (cats : comp -> option category) (s : state) (c : comp) : option state :=
  match cats c with
  | Some cat =>
      if forallb (fun n => supported cat (n_metric n)) (st_subs s c)
      then Some (mkSt (st_subs s)
                      (match st_recv s c with None => upd (st_recv s) c (Some []) | Some _ => st_recv s end)
                      (upd (st_hand s) c (Some (HRunning (st_subs s c))))
                      (st_fly s) (st_acc s) (st_taken s) (st_out s))
      else Some (set_hand s c HCrashed)                              (* ValueError / KeyError *)
  | None => None
  end.

(* [cats] is what `api_client.components()` answers: None = unknown component id *)
Definition step (cats : comp -> option category) (s : state) (e : event) : option (state * list out) :=
  match e with
  | AddMetric c n =>
      match cats c with
      | None => Some (s, [])                                   (* "Unknown component ID": return *)
      | Some cat =>
          if negb (supported cat (n_metric n)) then Some (s, [])   (* "Unsupported metric": return (since fix C20-invalid-metric) *)
          else if mem_name n (st_subs s c) then Some (s, [])   (* same channel name already handled *)
          else Some (mkSt (upd (st_subs s) c (st_subs s c ++ [n])) (st_recv s)
                          (upd (st_hand s) c (Some HStarting))     (* cancel + create_task *)
                          (st_fly s) (st_acc s) (st_taken s) (st_out s), [])
      end
  | HandlerOpen c =>
      match st_hand s c, st_recv s c with
      | Some HStarting, None | Some HCrashed, None => option_map (fun s' => (s', [])) (do_open cats s c)
      | _, _ => None
      end
  | HandlerStart c =>
      match st_hand s c, st_recv s c with
      | Some HStarting, Some _ | Some HCrashed, Some _ | Some HOpening, _ =>
          option_map (fun s' => (s', [])) (do_start cats s c)
      | _, _ => None
      end
  | ApiMsg c m =>
      match st_recv s c with
      | None => Some (s, [])                                   (* no receiver: never reaches the SDK *)
      | Some q => Some (mkSt (st_subs s) (upd (st_recv s) c (Some (q ++ [m]))) (st_hand s)
                             (st_fly s) (st_acc s ++ [(c, m)]) (st_taken s) (st_out s), [])
      end
  | Take c =>
      match st_hand s c, st_recv s c with
      | Some (HRunning snap), Some (m :: q) =>
          let t := mkT c snap m in
          Some (mkSt (st_subs s) (upd (st_recv s) c (Some q)) (st_hand s)
                     (st_fly s ++ [t]) (st_acc s) (st_taken s ++ [t]) (st_out s), [])
      | _, _ => None
      end
  | Deliver =>
      match st_fly s with
      | t :: r => Some (mkSt (st_subs s) (st_recv s) (st_hand s) r (st_acc s) (st_taken s)
                             (st_out s ++ fanout t), fanout t)
      | [] => None
      end
  | HandlerFail c =>
      match st_hand s c with
      | Some HStarting | Some HCrashed | Some HOpening => Some (set_hand s c HCrashed, [])
      | _ => None
      end
  | AddFault _ _ => Some (s, [])
  | Restart => Some (s, [])
  end.

Definition is_fault (e : event) : bool :=
  match e with HandlerFail _ => true | _ => false end.

Fixpoint run (cats : comp -> option category) (s : state) (es : list event) : option state :=
  match es with
  | [] => Some s
  | e :: r => match step cats s e with
              | Some (s', _) => run cats s' r
              | None => None
              end
  end.

(* the samples sent on channel (c, n), in order *)
Definition chan_out (c : comp) (n : name) (o : list out) : list sample :=
  map snd (filter (fun x => (fst (fst x) =? c) && name_eqb (snd (fst x)) n) o).

(* ------------------------------------------------------------------ trace checking (C-tie) *)
(* what the harness observed at an event *)
Inductive observed :=
| ONone
| OStart (created : bool) (names : list name)   (* receiver created in this step; channels looked up *)
| OCrash
| OTake (m : msg)
| OSent (o : list out).

Definition sample_eqb (a b : sample) : bool := (fst a =? fst b) && (snd a =? snd b).
Definition out_eqb (a b : out) : bool :=
  (fst (fst a) =? fst (fst b)) && name_eqb (snd (fst a)) (snd (fst b)) && sample_eqb (snd a) (snd b).
Definition msg_eqb (a b : msg) : bool := (m_ts a =? m_ts b) && listZ_eqb (m_vals a) (m_vals b).
Definition same_set {A} (eqb : A -> A -> bool) (a b : list A) : bool :=
  (length a =? length b)%nat && forallb (fun x => existsb (eqb x) b) a && forallb (fun x => existsb (eqb x) a) b.

Definition obs_ok (s s' : state) (e : event) (o : list out) (ob : observed) : bool :=
  match e, ob with
  | AddMetric _ _, ONone | ApiMsg _ _, ONone => true
  | HandlerStart c, OStart created names =>
      match st_hand s' c with
      | Some (HRunning snap) =>
          same_set name_eqb snap names &&
          Bool.eqb created (match st_recv s c with None => true | Some _ => false end)
      | _ => false
      end
  | HandlerOpen c, ONone => match st_hand s' c with Some HOpening => true | _ => false end
  | HandlerOpen c, OCrash | HandlerStart c, OCrash | HandlerFail c, OCrash => match st_hand s' c with Some HCrashed => true | _ => false end
  | AddFault _ _, ONone | Restart, ONone => true
  | Take c, OTake m => match rev (st_taken s') with t :: _ => (t_comp t =? c) && msg_eqb (t_msg t) m | [] => false end
  | Deliver, OSent o' => same_set out_eqb o o'
  | _, _ => false
  end.

Fixpoint run_checked (cats : comp -> option category) (s : state) (es : list (event * observed)) : option state :=
  match es with
  | [] => Some s
  | (e, ob) :: r =>
      match step cats s e with
      | Some (s', o) => if obs_ok s s' e o ob then run_checked cats s' r else None
      | None => None
      end
  end.

Definition cats_of (l : list (comp * category)) : comp -> option category :=
  fun c => match find (fun p => fst p =? c) l with Some p => Some (snd p) | None => None end.

(* after the harness let everything settle: nothing in flight, nothing buffered for a running handler *)
Definition quiescent (s : state) (cs : list comp) : bool :=
  match st_fly s with [] => true | _ => false end &&
  forallb (fun c => match st_hand s c, st_recv s c with
                    | Some (HRunning _), Some (_ :: _) => false
                    | Some HStarting, _ | Some HOpening, _ => false
                    | _, _ => true
                    end) cs.

(* a consumer that closed its channel mid-stream has read a prefix of what was sent on it *)
Fixpoint prefix_eqb (a b : list sample) : bool :=
  match a, b with
  | [], _ => true
  | x :: xs, y :: ys => sample_eqb x y && prefix_eqb xs ys
  | _ :: _, [] => false
  end.

(* ------------------------------------------------------------------ the request channel (production wiring) *)
(* `_DataPipeline._data_sourcing_request_sender()` gives the actor a Broadcast receiver of [cap] slots;
   `Broadcast.send` never suspends, so requests issued back to back queue up before the actor runs:
   `_enqueue` drops the OLDEST entry of a full receiver. *)
Definition req_enqueue {A} (cap : nat) (q : list A) (r : A) : list A :=
  if (cap <=? length q)%nat then tl q ++ [r] else q ++ [r].
Definition req_burst {A} (cap : nat) (q : list A) (rs : list A) : list A := fold_left (req_enqueue cap) rs q.
