(* C15 — distribution result accounting.  Executable definitions only.

   Battery path = BatteryManager._distribute_power / _set_distributed_power / _parse_result
   (_battery_manager.py 254-315, 604-695).  The per-inverter set-points and the
   algorithm's remaining power are INPUTS here (they are C01/C02's subject).

   PV path = PVManager.distribute_power (water filling) / _set_api_power
   (_pv_inverter_manager.py 98-251), as repaired by the `fix:` commit for F14
   (succeeded_power = request.power - remaining_power - failed_power; before the fix it was
   `self._target_power - failed_power` with `_target_power` constantly zero — kept below as
   [pv_result_before_fix] for the record, it is not used by any theorem).

   Powers are exact rationals (Q); component ids are Z; python sets are lists compared as sets. *)
From Coq Require Export QArith Qabs.
From Verif Require Export model.Common.
From Verif Require Import gen.Accounting.
Open Scope Q_scope.

(* ------------------------------------------------------------------ outcomes of one set_power call *)
Inductive outcome :=
| OOk          (* the call returned before the timeout *)
| ORange       (* OperationOutOfRange *)
| OClient      (* any other ApiClientError *)
| OOther       (* any other Exception *)
| OTimeout.    (* no reply before the timeout: task cancelled -> CancelledError *)

(* both managers: `failed` stays/gets True in every except-branch, False only after task.result() returned *)
Definition call_failed (o : outcome) : bool :=
  match o with
  | OOk => false
  | ORange => true
  | OClient => true
  | OTimeout => true
  | OOther => true
  end.

(* ------------------------------------------------------------------ results *)
Inductive result :=
| Success (succeeded_power : Q) (succeeded : list Z) (excess : Q)
| PartialFailure (succeeded_power : Q) (succeeded : list Z) (failed_power : Q) (failed : list Z) (excess : Q)
| NoResult            (* the coroutine returned without sending any Result *)
| Raised.             (* the coroutine raised (ValueError) *)

Definition r_reported (r : result) : bool :=
  match r with Success _ _ _ | PartialFailure _ _ _ _ _ => true | _ => false end.
Definition r_succeeded_power (r : result) : Q :=
  match r with Success p _ _ | PartialFailure p _ _ _ _ => p | _ => 0 end.
Definition r_failed_power (r : result) : Q :=
  match r with PartialFailure _ _ p _ _ => p | _ => 0 end.   (* Success has no failed_power field: nothing failed *)
Definition r_excess (r : result) : Q :=
  match r with Success _ _ e | PartialFailure _ _ _ _ e => e | _ => 0 end.
Definition r_succeeded (r : result) : list Z :=
  match r with Success _ s _ | PartialFailure _ s _ _ _ => s | _ => [] end.
Definition r_failed (r : result) : list Z :=
  match r with PartialFailure _ _ _ f _ => f | _ => [] end.

(* ------------------------------------------------------------------ small helpers *)
Definition Qltb (a b : Q) : bool := negb (Qle_bool b a).
Definition Qmax (a b : Q) : Q := if Qltb a b then b else a.   (* python max(a, b): b only if b > a *)
Fixpoint qsum (l : list Q) : Q := match l with [] => 0 | x :: t => x + qsum t end.
Definition memZ (x : Z) (l : list Z) : bool := existsb (Z.eqb x) l.
Definition diffZ (a b : list Z) : list Z := filter (fun x => negb (memZ x b)) a.   (* set(a) - set(b) *)
Definition is_nil {A} (l : list A) : bool := match l with [] => true | _ => false end.

(* math.isclose(value, 0.0, abs_tol=tol) with the default rel_tol 1e-9  <->  |value| <= tol *)
Definition close_to_zero (v : Q) : bool := Qle_bool (Qabs v) acc_close_to_zero_abs_tol.

(* set-points of the calls that failed / succeeded, aligned call list + outcome list *)
Fixpoint failed_setpoints (calls : list (Z * Q)) (outs : list outcome) : list Q :=
  match calls, outs with
  | (_, p) :: c', o :: o' => if call_failed o then p :: failed_setpoints c' o' else failed_setpoints c' o'
  | _, _ => []
  end.
Fixpoint ok_setpoints (calls : list (Z * Q)) (outs : list outcome) : list Q :=
  match calls, outs with
  | (_, p) :: c', o :: o' => if call_failed o then ok_setpoints c' o' else p :: ok_setpoints c' o'
  | _, _ => []
  end.
Fixpoint failed_ids (calls : list (Z * Q)) (outs : list outcome) : list Z :=
  match calls, outs with
  | (i, _) :: c', o :: o' => if call_failed o then i :: failed_ids c' o' else failed_ids c' o'
  | _, _ => []
  end.
Fixpoint ok_ids (calls : list (Z * Q)) (outs : list outcome) : list Z :=
  match calls, outs with
  | (i, _) :: c', o :: o' => if call_failed o then ok_ids c' o' else i :: ok_ids c' o'
  | _, _ => []
  end.

(* ================================================================== battery path *)
Record bat_in := mkBat {
  b_req  : Q;                      (* request.power.as_watts() *)
  b_dist : list (Z * Q);           (* distribution.distribution.items(): inverter id -> set-point, dict order *)
  b_rem  : Q;                      (* distribution.remaining_power *)
  b_map  : list (Z * list Z);      (* self._inv_bats_map: inverter id -> battery ids *)
  b_out  : list outcome            (* outcome of the set_power call of each entry of b_dist *)
}.

Fixpoint inv_bats (m : list (Z * list Z)) (inv : Z) : list Z :=
  match m with
  | [] => []
  | (i, bs) :: t => if Z.eqb i inv then bs else inv_bats t inv
  end.

(* keys of `battery_distribution` *)
Definition bat_addressed (m : list (Z * list Z)) (dist : list (Z * Q)) : list Z :=
  flat_map (fun c => inv_bats m (fst c)) dist.

(* the one set_power call per entry of the distribution, in dict order *)
Definition bat_calls (x : bat_in) : list (Z * Q) := b_dist x.

(* _parse_result: (failed_power, failed_batteries) *)
Fixpoint parse_result (m : list (Z * list Z)) (dist : list (Z * Q)) (outs : list outcome) : Q * list Z :=
  match dist, outs with
  | (inv, p) :: d', o :: o' =>
      let r := parse_result m d' o' in
      if call_failed o then (p + fst r, inv_bats m inv ++ snd r) else r
  | _, _ => (0, [])
  end.

(* _distribute_power, at least one set-point *)
Definition bat_answer (x : bat_in) : result :=
  let distributed := b_req x - b_rem x in
  let keys := bat_addressed (b_map x) (b_dist x) in
  let fr := parse_result (b_map x) (b_dist x) (b_out x) in
  if is_nil (snd fr)
  then Success distributed keys (b_rem x)
  else PartialFailure (distributed - fst fr) (diffZ keys (snd fr)) (fst fr) (snd fr) (b_rem x).

(* _distribute_power: asyncio.wait() of an empty task set raises ValueError.  Not reachable through
   distribute_power (_get_distribution answers Error when there is no component data and the
   algorithm emits one set-point per inverter), kept for faithfulness. *)
Definition bat_result (x : bat_in) : result :=
  if is_nil (b_dist x) then Raised else bat_answer x.

(* ComponentPoolStatusTracker.update_status(succeed_batteries, failed_batteries) arguments *)
Definition bat_status_update (x : bat_in) : list Z * list Z :=
  let r := bat_result x in (r_succeeded r, r_failed r).

(* ================================================================== PV path *)
Record pv_in := mkPV {
  p_req       : Q;                          (* request.power *)
  p_ids_empty : bool;                       (* request.component_ids is empty *)
  p_tracker   : bool;                       (* self._component_pool_status_tracker is not None *)
  p_working   : list (Z * option Q);        (* get_working_components(..) in iteration order; data cache:
                                               None = no value yet, Some b = active_power_inclusion_lower_bound *)
  p_out       : list outcome                (* outcome of the k-th set_power call *)
}.

Fixpoint with_data (l : list (Z * option Q)) : list (Z * Q) :=
  match l with
  | [] => []
  | (i, Some b) :: t => (i, b) :: with_data t
  | (_, None) :: t => with_data t
  end.

(* list.sort(key=bound, reverse=True): descending by bound, stable *)
Fixpoint insert_desc (x : Z * Q) (l : list (Z * Q)) : list (Z * Q) :=
  match l with
  | [] => [x]
  | y :: t => if Qltb (snd x) (snd y) then y :: insert_desc x t else x :: y :: t
  end.
Definition pv_sort (l : list (Z * Q)) : list (Z * Q) := fold_right insert_desc [] l.

(* the allocation loop; `length l` = num_components - idx *)
Fixpoint pv_fill (rem : Q) (l : list (Z * Q)) : list (Z * Q) * Q :=
  match l with
  | [] => ([], rem)
  | (i, b) :: t =>
      if Qltb 0 rem || close_to_zero rem
      then let r := pv_fill rem t in ((i, 0) :: fst r, snd r)
      else
        let share := rem / inject_Z (Z.of_nat (length l)) in
        let alloc := Qmax (Qmax rem b) share in       (* max(remaining_power, discharge_bounds, distribution) *)
        let r := pv_fill (rem - alloc) t in
        ((i, alloc) :: fst r, snd r)
  end.

Definition pv_sorted_working (x : pv_in) : list (Z * Q) := pv_sort (with_data (p_working x)).
Definition pv_calls (x : pv_in) : list (Z * Q) :=
  if p_tracker x then fst (pv_fill (p_req x) (pv_sorted_working x)) else [].

(* _set_api_power, succeeded_power = [target] - failed_power *)
Definition pv_set_api_power (target : Q) (allocs : list (Z * Q)) (rem : Q) (outs : list outcome) : result :=
  let failed := failed_ids allocs outs in
  let fp := qsum (failed_setpoints allocs outs) in
  if is_nil failed
  then Success target (ok_ids allocs outs) rem
  else PartialFailure (target - fp) (ok_ids allocs outs) fp failed rem.

Definition pv_result_with (target_of : Q -> Q -> Q) (x : pv_in) : result :=
  if negb (p_tracker x) then
    if p_ids_empty x then Success 0 [] (p_req x) else Raised
  else
    let w := pv_sorted_working x in
    if is_nil w then NoResult
    else
      let r := pv_fill (p_req x) w in
      pv_set_api_power (target_of (p_req x) (snd r)) (fst r) (snd r) (p_out x).

(* the code as it is now (after the F14 fix): distributed_power = request.power - remaining_power *)
Definition pv_result : pv_in -> result := pv_result_with (fun req rem => req - rem).
(* the code before the fix: self._target_power, never assigned after __init__ set it to zero *)
Definition pv_result_before_fix : pv_in -> result := pv_result_with (fun _ _ => 0).

(* ------------------------------------------------------------------ comparison helpers for the case files *)
Definition setZ_eqb (a b : list Z) : bool := forallb (fun x => memZ x b) a && forallb (fun x => memZ x a) b.
Definition result_eqb (a b : result) : bool :=
  match a, b with
  | Success p s e, Success p' s' e' => Qeq_bool p p' && setZ_eqb s s' && Qeq_bool e e'
  | PartialFailure p s fp f e, PartialFailure p' s' fp' f' e' =>
      Qeq_bool p p' && setZ_eqb s s' && Qeq_bool fp fp' && setZ_eqb f f' && Qeq_bool e e'
  | NoResult, NoResult => true
  | Raised, Raised => true
  | _, _ => false
  end.
Definition calls_eqb (a b : list (Z * Q)) : bool := list_eqb (pair_eqb Z.eqb Qeq_bool) a b.
