(* Executable model of the request coalescing of
   microgrid/_power_distributing/power_distributing.py
   (PowerDistributingActor._run / _handle_task_completion / _process_request).

   group id  = the frozenset of component ids of a request (an integer label here)
   request   = an integer label (the harness uses the sequence number of the request)

   inflight g = Some r  <->  `g in self._processing_tasks` (its task processes r)
   pending  g = Some r  <->  `self._pending_requests[g] == r`

   Events:  Arrive g r   the `async for` loop of _run received request r for group g
            Finish g ok  the done-callback _handle_task_completion ran for group g's task
                         (ok = the task returned; false = it raised an Exception)
            Restart      `_run` is entered again (Actor restart after an unhandled exception in
                         the receive loop, or stop() followed by start()).  The distribution tasks
                         are plain asyncio tasks that the service does not own: they survive, their
                         done-callbacks keep running, and both dictionaries are instance state that
                         `_run` does not touch -- so a restart changes nothing.
   Output:  Start g r    _process_request(g, r): create_task(distribute_power(r))

   Definitions only (no lemmas). *)
From Verif Require Export model.Common.

Record dstate := mkD {
  inflight : Z -> option Z;
  pending  : Z -> option Z
}.

Definition upd (f : Z -> option Z) (g : Z) (v : option Z) : Z -> option Z :=
  fun x => if Z.eqb x g then v else f x.

Inductive devent := Arrive (g r : Z) | Finish (g : Z) (ok : bool) | Restart.
Inductive dout := Start (g r : Z).

Definition d_init : dstate := mkD (fun _ => None) (fun _ => None).

(* One step.  The order of the tests is the order of the code:
     _run:                     `if req_id in self._processing_tasks` -> overwrite pending, else process
     _handle_task_completion:  `if req_id in self._pending_requests` -> process the popped request
                               `elif req_id in self._processing_tasks` -> del
                               `else` -> log an error
   The result of the finished task (ok) is only logged. *)
Definition dstep (st : dstate) (e : devent) : dstate * list dout :=
  match e with
  | Arrive g r =>
      match inflight st g with
      | Some _ => (mkD (inflight st) (upd (pending st) g (Some r)), [])
      | None => (mkD (upd (inflight st) g (Some r)) (pending st), [Start g r])
      end
  | Finish g ok =>
      match pending st g with
      | Some r => (mkD (upd (inflight st) g (Some r)) (upd (pending st) g None), [Start g r])
      | None =>
          match inflight st g with
          | Some _ => (mkD (upd (inflight st) g None) (pending st), [])
          | None => (st, [])
          end
      end
  | Restart => (st, [])
  end.

(* labels of the flattened trace: every event followed by the outputs of its step *)
Inductive dlabel := LA (g r : Z) | LF (g : Z) (ok : bool) | LS (g r : Z) | LR.

Definition lbl_of_event (e : devent) : dlabel :=
  match e with Arrive g r => LA g r | Finish g ok => LF g ok | Restart => LR end.
Definition lbl_of_out (o : dout) : dlabel := match o with Start g r => LS g r end.

Fixpoint dtrace (st : dstate) (w : list devent) : list dlabel :=
  match w with
  | [] => []
  | e :: w' => let '(st', outs) := dstep st e in
               lbl_of_event e :: map lbl_of_out outs ++ dtrace st' w'
  end.

Fixpoint dfinal (st : dstate) (w : list devent) : dstate :=
  match w with
  | [] => st
  | e :: w' => dfinal (fst (dstep st e)) w'
  end.

(* last request that arrived for g / last request started for g, in a chronological trace *)
Fixpoint last_arrive_from (g : Z) (acc : option Z) (tr : list dlabel) : option Z :=
  match tr with
  | [] => acc
  | LA g' r :: t => last_arrive_from g (if Z.eqb g' g then Some r else acc) t
  | _ :: t => last_arrive_from g acc t
  end.
Fixpoint last_start_from (g : Z) (acc : option Z) (tr : list dlabel) : option Z :=
  match tr with
  | [] => acc
  | LS g' r :: t => last_start_from g (if Z.eqb g' g then Some r else acc) t
  | _ :: t => last_start_from g acc t
  end.
Definition last_arrive g tr := last_arrive_from g None tr.
Definition last_start g tr := last_start_from g None tr.

(* ---- replay of a recorded implementation run ----
   An observed step is (event, requests started by the implementation during that step).
   The implementation must only make moves the model allows:
     * a completion callback runs only for a group that has a task in flight,
     * the distribute_power calls made during the step are exactly the model's outputs. *)
Definition dout_eqb (a b : dout) : bool :=
  match a, b with Start g r, Start g' r' => Z.eqb g g' && Z.eqb r r' end.

Definition allowed (st : dstate) (e : devent) : bool :=
  match e with
  | Arrive _ _ => true
  | Finish g _ => match inflight st g with Some _ => true | None => false end
  | Restart => true
  end.

Fixpoint dreplay (st : dstate) (obs : list (devent * list dout)) : option dstate :=
  match obs with
  | [] => Some st
  | (e, outs) :: rest =>
      let '(st', mouts) := dstep st e in
      if allowed st e && list_eqb dout_eqb mouts outs then dreplay st' rest else None
  end.

(* final check of a replay: the groups listed are quiescent in the model exactly when the
   implementation's dictionaries say so *)
Definition dquiet (st : dstate) (g : Z) : bool :=
  match inflight st g, pending st g with None, None => true | _, _ => false end.
