(* Executable model of the actor life cycle:
     actor/_actor.py               Actor.start, Actor._run_loop, Actor._delay_if_restart
     actor/_background_service.py  BackgroundService.is_running / cancel / stop / wait
     actor/_run_utils.py           run (actors)
   RESTART_DELAY comes from gen/Actor.v (regenerated from /repo on every run).

   Part 1: the labelled transition system of ONE _run_loop task.
   Part 2: the tasks of any number of actors / background services, the blocked wait() and
           stop() calls, and run().
   Time is integer microseconds of the event loop's clock.  Definitions only (no lemmas). *)
From Verif Require Export model.Common gen.Actor.

(* ------------------------------------------------------------------ Part 1: _run_loop *)
(* how one invocation of _run() (or one task) ends *)
Inductive outcome := Return | Exc | BaseExc | Cancelled.

Definition outcome_eqb (a b : outcome) : bool :=
  match a, b with
  | Return, Return | Exc, Exc | BaseExc, BaseExc | Cancelled, Cancelled => true
  | _, _ => false
  end.

(* n = n_restarts.  pend = Task.cancel() was called and the CancelledError has not been
   thrown into the coroutine yet.  since = instant the delay started. *)
Inductive lstate :=
| Delay (n : nat) (since : Z) (pend : bool)   (* in `await self._delay_if_restart(n)` (n = 0: task created, not yet run) *)
| Running (n : nat) (pend : bool)             (* in `await self._run()` *)
| Ended (o : outcome).                        (* the task is done *)

Inductive levent :=
| LCancel                (* Task.cancel() on the loop task *)
| LEnter                 (* the delay is over, _run() is invoked *)
| LDeliver               (* the pending CancelledError is thrown into _run() at its current await *)
| LExit (o : outcome)    (* _run() finished: returned / raised Exception / BaseException / CancelledError *)
| LDelayCancelled.       (* the pending CancelledError is thrown at the delay (or before the first step) *)

(* `self._restart_limit is None or n_restarts < self._restart_limit` *)
Definition may_restart (limit : option nat) (n : nat) : bool :=
  match limit with None => true | Some l => Nat.ltb n l end.

(* `if iteration > 0: await asyncio.sleep(RESTART_DELAY)` *)
Definition delay_of (delay : Z) (n : nat) : Z := match n with O => 0 | S _ => delay end.

Definition lcancel (s : lstate) : lstate :=
  match s with
  | Delay n since _ => Delay n since true
  | Running n _ => Running n true
  | Ended o => Ended o                  (* cancel() of a finished task does nothing *)
  end.

Definition lstep (limit : option nat) (delay : Z) (s : lstate) (t : Z) (e : levent) : option lstate :=
  match e with
  | LCancel => Some (lcancel s)
  | LEnter =>
      match s with
      | Delay n since false => if Z.eqb t (since + delay_of delay n) then Some (Running n false) else None
      | _ => None
      end
  | LDelayCancelled =>
      match s with Delay _ _ true => Some (Ended Cancelled) | _ => None end   (* `except CancelledError: raise` *)
  | LDeliver =>
      match s with Running n true => Some (Running n false) | _ => None end
  | LExit o =>
      match s with
      | Running n p =>
          match o with
          | Exc => if may_restart limit n then Some (Delay (S n) t p)   (* n_restarts += 1; continue *)
                   else Some (Ended Exc)                                (* raise *)
          | _ => Some (Ended o)                                         (* break / raise *)
          end
      | _ => None
      end
  end.

Fixpoint lrun (limit : option nat) (delay : Z) (s : lstate) (tr : list (Z * levent)) : option lstate :=
  match tr with
  | [] => Some s
  | (t, e) :: tr' => match lstep limit delay s t e with Some s' => lrun limit delay s' tr' | None => None end
  end.

Definition is_enter (x : Z * levent) : bool := match snd x with LEnter => true | _ => false end.
Definition is_exit (x : Z * levent) : bool := match snd x with LExit _ => true | _ => false end.
Definition is_exc (x : Z * levent) : bool := match snd x with LExit Exc => true | _ => false end.
Definition is_delay_cancel (x : Z * levent) : bool := match snd x with LDelayCancelled => true | _ => false end.
Definition count {A} (f : A -> bool) (l : list A) : nat := length (filter f l).

(* min(k, limit), limit None = unbounded *)
Definition min_limit (k : nat) (limit : option nat) : nat :=
  match limit with None => k | Some l => Nat.min k l end.

(* ------------------------------------------------------------------ Part 2: services *)
Inductive tinfo :=
| TLoop (a : nat) (s : lstate)             (* the _run_loop task created by actor a's start() *)
| TExtra (a : nat) (o : option outcome).   (* any other task put into a's _tasks; None = not done *)

Definition t_outcome (ti : option tinfo) : option outcome :=
  match ti with
  | Some (TLoop _ (Ended o)) => Some o
  | Some (TExtra _ o) => o
  | _ => None
  end.

Inductive wkind := KWait | KStop.
Inductive wresult := WOk | WRaise (errs : list (nat * outcome)).

(* a wait()/stop() call blocked in `await asyncio.wait(self._tasks)`:
   s0 = _tasks at call time, prev = tasks of earlier (error-free) rounds, snap = tasks awaited now *)
Record waiter := mkW { w_kind : wkind; w_actor : nat; w_s0 : list nat; w_prev : list nat; w_snap : list nat }.
(* a wait()/stop() call whose result is determined *)
Record finished := mkF { f_kind : wkind; f_actor : nat; f_s0 : list nat; f_waited : list nat; f_res : wresult }.

Record gstate := mkG {
  g_tasks : nat -> option tinfo;            (* every task ever created *)
  g_creq : nat -> nat;                      (* Task.cancelling(): cancel() calls received while not done *)
  g_set : nat -> list nat;                  (* actor -> its _tasks *)
  g_wait : nat -> option waiter;
  g_fin : nat -> option finished;
  g_ret : nat -> bool;                      (* the call has returned / raised to its caller *)
  g_run : nat -> option (list nat * list nat); (* run(): (all its wait() tasks, those not yet seen done) *)
  g_runret : nat -> bool;
  g_limit : nat -> option (option nat)      (* _restart_limit assigned after construction (None = still the configured one) *)
}.

Definition g_init : gstate :=
  mkG (fun _ => None) (fun _ => O) (fun _ => []) (fun _ => None) (fun _ => None) (fun _ => false)
      (fun _ => None) (fun _ => false) (fun _ => None).

Definition updn {A} (f : nat -> A) (k : nat) (v : A) : nat -> A := fun x => if Nat.eqb x k then v else f x.
Definition memn (x : nat) (l : list nat) : bool := existsb (Nat.eqb x) l.
Definition subn (a b : list nat) : bool := forallb (fun x => memn x b) a.
Definition set_eqb (a b : list nat) : bool := subn a b && subn b a.
Definition removen (l r : list nat) : list nat := filter (fun x => negb (memn x r)) l.

Definition is_done (st : gstate) (t : nat) : bool :=
  match t_outcome (g_tasks st t) with Some _ => true | None => false end.

(* `any(not task.done() for task in self._tasks)` *)
Definition is_running (st : gstate) (a : nat) : bool := existsb (fun t => negb (is_done st t)) (g_set st a).

Definition cancel_info (ti : option tinfo) : option tinfo :=
  match ti with Some (TLoop a s) => Some (TLoop a (lcancel s)) | x => x end.

(* `for task in self._tasks: task.cancel(msg)` *)
Definition cancel_all (st : gstate) (l : list nat) : gstate :=
  mkG (fun t => if memn t l then cancel_info (g_tasks st t) else g_tasks st t)
      (fun t => if memn t l && negb (is_done st t) then S (g_creq st t) else g_creq st t)
      (g_set st) (g_wait st) (g_fin st) (g_ret st) (g_run st) (g_runret st) (g_limit st).

Definition pending_of (st : gstate) (l : list nat) : list nat := filter (fun t => negb (is_done st t)) l.

(* exceptions collected by wait() from a round of done tasks: everything but a normal return,
   CancelledError included *)
Fixpoint errs_of (st : gstate) (l : list nat) : list (nat * outcome) :=
  match l with
  | [] => []
  | t :: l' => match t_outcome (g_tasks st t) with
               | Some Return | None => errs_of st l'
               | Some o => (t, o) :: errs_of st l'
               end
  end.

Definition non_cancel (x : nat * outcome) : bool := negb (outcome_eqb (snd x) Cancelled).

(* wait(): `if exceptions: raise BaseExceptionGroup(...)`;
   stop(): `_, rest = exc_group.split(CancelledError); if rest is not None: raise rest` *)
Definition result_of (k : wkind) (errs : list (nat * outcome)) : wresult :=
  match k with
  | KWait => match errs with [] => WOk | _ => WRaise errs end
  | KStop => match filter non_cancel errs with [] => WOk | rest => WRaise rest end
  end.

Definition err_eqb (a b : nat * outcome) : bool := Nat.eqb (fst a) (fst b) && outcome_eqb (snd a) (snd b).
Definition errs_sub (a b : list (nat * outcome)) : bool := forallb (fun x => existsb (err_eqb x) b) a.
(* exception groups are compared as sets (the order inside a group is the iteration order of a
   set); a CancelledError carries no task identity, so those are compared by their number *)
Definition wres_eqb (a b : wresult) : bool :=
  match a, b with
  | WOk, WOk => true
  | WRaise x, WRaise y =>
      Nat.eqb (length x) (length y) &&
      Nat.eqb (length (filter non_cancel x)) (length (filter non_cancel y)) &&
      errs_sub (filter non_cancel x) (filter non_cancel y) && errs_sub (filter non_cancel y) (filter non_cancel x)
  | _, _ => false
  end.

Inductive gevent :=
| GStart (a tid : nat) (created : bool)     (* a.start(); created = a new loop task (id tid) was made *)
| GAdd (a tid : nat)                        (* a task is added to a._tasks *)
| GLoop (tid : nat) (e : levent)            (* a step of a loop task (not LCancel) *)
| GExtraDone (tid : nat) (o : outcome)      (* another task finished *)
| GCancel (a : nat) (targets : list nat)    (* a.cancel(); targets = tasks whose cancelling() count grew *)
| GCancelTask (tid : nat)                   (* Task.cancel() on one task (e.g. a task cancelling itself) *)
| GWaitCall (a w : nat)                     (* call w = a.wait() begins *)
| GStopCall (a w : nat) (targets : list nat)(* call w = a.stop() begins *)
| GWake (w : nat)                           (* call w resumes from asyncio.wait() *)
| GRet (w : nat) (r : wresult)              (* call w returned (WOk) or raised the group r *)
| GRunCall (r : nat) (actors : list nat) (aws : list (nat * nat))
     (* run(actors) (the starts come before as GStart) blocks on the wait() tasks aws = (actor, call);
        it must wait on exactly one wait() per actor it was given (both lists sorted by actor) *)
| GRunWake (r : nat) (done : list nat)      (* run resumes from asyncio.wait(FIRST_COMPLETED) with these done *)
| GRunRet (r : nat)                         (* run returned *)
| GCawCall (tid w : nat) (targets : list nat)
     (* call w = _internal._asyncio.cancel_and_await(task tid) begins: `if task.done(): return`, else
        task.cancel() and `await task` with CancelledError suppressed -- i.e. stop() of the anonymous
        singleton set {tid} (no service owns it: pseudo-actor caw_actor w, whose _tasks is empty);
        its resumption and return are GWake w / GRet w *)
| GCallCancelled (w : nat)
     (* the task awaiting call w (a wait(), stop(), `async with` exit or cancel_and_await) is itself
        cancelled / timed out while the call is blocked: the call RAISES CancelledError -- it does not
        return -- whether or not the tasks are done; nothing else changes *)
| GSetLimit (a : nat) (l : option nat)      (* `a._restart_limit = l` while the actor exists (running or not) *)
| GWithDone (a : nat) (l : list nat).       (* `async with a:` finished; __aexit__ = stop(): every task of
                                              the set l at the exit of the body is done *)

(* per actor: its _restart_limit and its RESTART_DELAY (`self.RESTART_DELAY`: the base-class constant, or the value
   a subclass or the instance overrides it with) *)
Record config := mkC { c_limit : nat -> option nat; c_delay : nat -> Z }.

Definition set_tasks st f := mkG f (g_creq st) (g_set st) (g_wait st) (g_fin st) (g_ret st) (g_run st) (g_runret st) (g_limit st).
Definition set_set st f := mkG (g_tasks st) (g_creq st) f (g_wait st) (g_fin st) (g_ret st) (g_run st) (g_runret st) (g_limit st).
Definition set_wait st f := mkG (g_tasks st) (g_creq st) (g_set st) f (g_fin st) (g_ret st) (g_run st) (g_runret st) (g_limit st).
Definition set_fin st f := mkG (g_tasks st) (g_creq st) (g_set st) (g_wait st) f (g_ret st) (g_run st) (g_runret st) (g_limit st).
Definition set_ret st f := mkG (g_tasks st) (g_creq st) (g_set st) (g_wait st) (g_fin st) f (g_run st) (g_runret st) (g_limit st).
Definition set_run st f := mkG (g_tasks st) (g_creq st) (g_set st) (g_wait st) (g_fin st) (g_ret st) f (g_runret st) (g_limit st).
Definition set_runret st f := mkG (g_tasks st) (g_creq st) (g_set st) (g_wait st) (g_fin st) (g_ret st) (g_run st) f (g_limit st).
Definition set_limit st f := mkG (g_tasks st) (g_creq st) (g_set st) (g_wait st) (g_fin st) (g_ret st) (g_run st) (g_runret st) f.

(* the restart limit in force: `self._restart_limit` is read at every failure *)
Definition cur_limit (c : config) (st : gstate) (a : nat) : option nat :=
  match g_limit st a with Some l => l | None => c_limit c a end.

Definition caw_actor (w : nat) : nat := (1000 + w)%nat.   (* actors proper are numbered below 1000 *)

Definition fresh_call (st : gstate) (w : nat) : bool :=
  match g_wait st w, g_fin st w with None, None => true | _, _ => false end.

(* entering wait(): `while self._tasks: done, pending = await asyncio.wait(self._tasks)` *)
Definition begin_wait (st : gstate) (k : wkind) (a w : nat) : gstate :=
  match g_set st a with
  | [] => set_fin st (updn (g_fin st) w (Some (mkF k a [] [] WOk)))
  | s => set_wait st (updn (g_wait st) w (Some (mkW k a s [] s)))
  end.

(* resuming from asyncio.wait(): remove the done tasks from _tasks, collect exceptions, raise or loop *)
Definition wake (st : gstate) (w : nat) : option gstate :=
  match g_wait st w with
  | None => None
  | Some W =>
      if forallb (is_done st) (w_snap W) then
        let a := w_actor W in
        let set' := removen (g_set st a) (w_snap W) in
        let st1 := set_set st (updn (g_set st) a set') in
        let waited := w_prev W ++ w_snap W in
        match errs_of st (w_snap W), set' with
        | [], _ :: _ => Some (set_wait st1 (updn (g_wait st1) w (Some (mkW (w_kind W) a (w_s0 W) waited set'))))
        | errs, _ =>
            let st2 := set_wait st1 (updn (g_wait st1) w None) in
            Some (set_fin st2 (updn (g_fin st2) w (Some (mkF (w_kind W) a (w_s0 W) waited (result_of (w_kind W) errs)))))
        end
      else None
  end.

Definition gstep (c : config) (st : gstate) (t : Z) (e : gevent) : option gstate :=
  match e with
  | GStart a tid created =>
      if is_running st a then (if created then None else Some st)     (* `if self.is_running: return` *)
      else if created then
        match g_tasks st tid with
        | None => Some (set_set (set_tasks st (updn (g_tasks st) tid (Some (TLoop a (Delay 0 t false)))))
                                (updn (g_set st) a [tid]))            (* _tasks.clear(); _tasks.add(create_task(_run_loop())) *)
        | Some _ => None
        end
      else None
  | GAdd a tid =>
      match g_tasks st tid with
      | None => Some (set_set (set_tasks st (updn (g_tasks st) tid (Some (TExtra a None))))
                              (updn (g_set st) a (tid :: g_set st a)))
      | Some _ => None
      end
  | GLoop tid le =>
      match le, g_tasks st tid with
      | LCancel, _ => None
      | _, Some (TLoop a s) =>
          match lstep (cur_limit c st a) (c_delay c a) s t le with
          | Some s' => Some (set_tasks st (updn (g_tasks st) tid (Some (TLoop a s'))))
          | None => None
          end
      | _, _ => None
      end
  | GExtraDone tid o =>
      match g_tasks st tid with
      | Some (TExtra a None) => Some (set_tasks st (updn (g_tasks st) tid (Some (TExtra a (Some o)))))
      | _ => None
      end
  | GCancel a targets =>
      if set_eqb (pending_of st (g_set st a)) targets then Some (cancel_all st (g_set st a)) else None
  | GCancelTask tid => Some (cancel_all st [tid])
  | GWaitCall a w =>
      if fresh_call st w then Some (begin_wait st KWait a w) else None
  | GStopCall a w targets =>
      if fresh_call st w then
        match g_set st a with
        | [] => match targets with [] => Some (begin_wait st KStop a w) | _ => None end   (* `if not self._tasks: return` *)
        | s => if set_eqb (pending_of st s) targets then Some (begin_wait (cancel_all st s) KStop a w) else None
        end
      else None
  | GWake w => wake st w
  | GRet w r =>
      match g_fin st w with
      | Some F => if negb (g_ret st w) && wres_eqb (f_res F) r then Some (set_ret st (updn (g_ret st) w true)) else None
      | None => None
      end
  | GRunCall r actors aws =>
      match g_run st r with
      | None => if list_eqb Nat.eqb (map fst aws) actors
                then Some (set_run st (updn (g_run st) r (Some (map snd aws, map snd aws)))) else None
      | Some _ => None
      end
  | GRunWake r done =>
      match g_run st r with
      | Some (ws, pend) =>
          if negb (match done with [] => true | _ => false end)
             && subn done pend && forallb (g_ret st) done
             && forallb (fun w => negb (g_ret st w) || memn w done) pend
          then Some (set_run st (updn (g_run st) r (Some (ws, removen pend done)))) else None
      | None => None
      end
  | GRunRet r =>
      match g_run st r with
      | Some (_, []) => if g_runret st r then None else Some (set_runret st (updn (g_runret st) r true))
      | _ => None
      end
  | GCawCall tid w targets =>
      if fresh_call st w then
        match g_set st (caw_actor w) with
        | [] =>
            if is_done st tid then
              match targets with
              | [] => Some (set_fin st (updn (g_fin st) w (Some (mkF KStop (caw_actor w) [] [] WOk))))
              | _ => None
              end
            else if set_eqb targets [tid] then
              Some (set_wait (cancel_all st [tid])
                             (updn (g_wait (cancel_all st [tid])) w (Some (mkW KStop (caw_actor w) [tid] [] [tid]))))
            else None
        | _ => None
        end
      else None
  | GCallCancelled w =>
      match g_wait st w with
      | Some _ => Some (set_wait st (updn (g_wait st) w None))
      | None => None
      end
  | GSetLimit a l => Some (set_limit st (updn (g_limit st) a (Some l)))
  | GWithDone a l => if forallb (is_done st) l then Some st else None
  end.

Fixpoint grun (c : config) (st : gstate) (tr : list (Z * gevent)) : option gstate :=
  match tr with
  | [] => Some st
  | (t, e) :: tr' => match gstep c st t e with Some st' => grun c st' tr' | None => None end
  end.

(* index of the first event the model refuses (for replays); None = the whole trace is accepted *)
Fixpoint grun_stuck (c : config) (st : gstate) (tr : list (Z * gevent)) (i : nat) : option nat :=
  match tr with
  | [] => None
  | (t, e) :: tr' => match gstep c st t e with Some st' => grun_stuck c st' tr' (S i) | None => Some i end
  end.
