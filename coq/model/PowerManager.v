(* Executable model of PowerManagingActor (_power_managing_actor.py) for one component
   group: two Matryoshka instances (regular / operating point), the cached system bounds,
   _calculate_shifted_bounds, the three branches of _calculate_target_power with the
   "None = unchanged" protocol, the bounds tracker, result handling and reports.
   Integer watts; definitions only. *)
From Verif Require Export model.Matryoshka.

Record grp := mkG { g_created : bool; g_bucket : list proposal; g_target : option Z }.

(* Matryoshka.calculate_target_power(ids, proposal, system_bounds, must_return_power) *)
Definition gcalc (g : grp) (p : option proposal) (s : sysb) (must : bool) : grp * option Z :=
  if negb (g_created g) && no_bounds s then (g, None)
  else
    let g1 := match p with
              | Some q => mkG true (bucket_insert q (g_bucket g)) (g_target g)
              | None => g
              end in
    if negb (g_created g1) then (g1, None)
    else
      let t := calc_target s (g_bucket g1) in
      if must || match g_target g1 with None => true | Some t0 => negb (t0 =? t) end
      then (mkG true (g_bucket g1) (Some t), Some t)
      else (g1, None).

(* _calculate_shifted_bounds *)
Definition shifted (s : sysb) (o : option Z) : sysb :=
  match o with
  | None => s
  | Some x => mkS (match s_incl s with Some (l, u) => Some (l - x, u - x) | None => None end) (s_excl s)
  end.

Record pm := mkPM { pm_reg : grp; pm_op : grp; pm_sys : sysb; pm_last_pf : bool }.

Definition or_stored (r : option Z) (g : grp) : option Z :=
  match r with Some x => Some x | None => g_target g end.

Definition total (a b : option Z) : option Z :=
  match a, b with
  | Some x, Some y => Some (x + y)
  | Some x, None => Some x
  | None, y => y
  end.

(* _calculate_target_power as repaired by the `fix:` commit (F7): a group whose target did
   not change (None) contributes its stored target to the shift and to the total *)
Definition calc_total (st : pm) (p : option (bool * proposal)) (must : bool) : pm * option Z :=
  match p with
  | Some (true, q) =>
      let '(gop, rs) := gcalc (pm_op st) (Some q) (pm_sys st) must in
      let '(greg, rn) := gcalc (pm_reg st) None (shifted (pm_sys st) (or_stored rs gop)) must in
      (mkPM greg gop (pm_sys st) (pm_last_pf st),
       match rs, rn with None, None => None | _, _ => total (or_stored rs gop) (or_stored rn greg) end)
  | Some (false, q) =>
      let '(greg, rn) := gcalc (pm_reg st) (Some q) (pm_sys st) must in
      let '(gop, rs) := gcalc (pm_op st) None (shifted (pm_sys st) (or_stored rn greg)) must in
      (mkPM greg gop (pm_sys st) (pm_last_pf st),
       match rs, rn with None, None => None | _, _ => total (or_stored rs gop) (or_stored rn greg) end)
  | None =>
      let '(greg, rn) := gcalc (pm_reg st) None (pm_sys st) must in
      let '(gop, rs) := gcalc (pm_op st) None (shifted (pm_sys st) (or_stored rn greg)) must in
      (mkPM greg gop (pm_sys st) (pm_last_pf st),
       match rs, rn with None, None => None | _, _ => total (or_stored rs gop) (or_stored rn greg) end)
  end.

(* the behaviour BEFORE the fix, kept only to state the finding F7 as a theorem *)
Definition calc_total_before_fix (st : pm) (must : bool) : pm * option Z :=
  let '(greg, rn) := gcalc (pm_reg st) None (pm_sys st) must in
  let '(gop, rs) := gcalc (pm_op st) None (shifted (pm_sys st) rn) must in
  (mkPM greg gop (pm_sys st) (pm_last_pf st), total rs rn).

Inductive pevent :=
| PProp (is_op : bool) (p : proposal)     (* proposal received (must_send = True) *)
| PBounds (s : sysb)                      (* bounds tracker: new system bounds *)
| PResult (k : Z)                         (* 0 Success, 1 PartialFailure, other: Error/OutOfBounds *)
| PTick (now : Z).                        (* 1 s timer: drop old proposals, nothing sent *)

Definition expire_grp (ma now : Z) (g : grp) : grp :=
  mkG (g_created g) (bucket_expire ma now (g_bucket g)) (g_target g).

(* returns: new state, the Request sent (if any), whether reports are sent *)
Definition pstep (ma_reg ma_op : Z) (st : pm) (e : pevent) : pm * option Z * bool :=
  match e with
  | PProp is_op p => let '(st', r) := calc_total st (Some (is_op, p)) true in (st', r, true)
  | PBounds s =>
      let st0 := mkPM (pm_reg st) (pm_op st) s (pm_last_pf st) in
      let '(st', r) := calc_total st0 None false in (st', r, true)
  | PResult k =>
      if k =? 1 then
        if pm_last_pf st then (st, None, true)
        else let st0 := mkPM (pm_reg st) (pm_op st) (pm_sys st) true in
             let '(st', r) := calc_total st0 None true in (st', r, true)
      else if k =? 0 then (mkPM (pm_reg st) (pm_op st) (pm_sys st) false, None, true)
      else (st, None, true)
  | PTick now =>
      (mkPM (expire_grp ma_reg now (pm_reg st)) (expire_grp ma_op now (pm_op st)) (pm_sys st) (pm_last_pf st),
       None, false)
  end.

(* what _send_reports publishes for a subscribed priority of each group *)
Record report := mkR { r_reg_target : option Z; r_op_target : option Z;
                       r_reg_bounds : option (Z * Z); r_op_bounds : option (Z * Z) }.

Definition reports (st : pm) (q_reg q_op : Z) : report :=
  mkR (g_target (pm_reg st)) (g_target (pm_op st))
      (get_status_bounds (shifted (pm_sys st) (g_target (pm_op st))) (g_bucket (pm_reg st)) q_reg)
      (get_status_bounds (pm_sys st) (g_bucket (pm_op st)) q_op).

Definition pm_init : pm :=
  mkPM (mkG false [] None) (mkG false [] None) (mkS None None) false.

Fixpoint prun (ma_reg ma_op : Z) (q_reg q_op : Z) (st : pm) (h : list pevent)
  : list (option Z * option report) :=
  match h with
  | [] => []
  | e :: h' =>
    let '(st', r, rep) := pstep ma_reg ma_op st e in
    (r, if rep then Some (reports st' q_reg q_op) else None) :: prun ma_reg ma_op q_reg q_op st' h'
  end.

(* ---- second run function: dynamic report subscriptions (several priorities per group) ----
   Used by the `bursts` correspondence stream, where events are injected back to back and the
   order in which the actor's handlers actually ran is recorded and replayed. *)
Inductive pevent2 :=
| PE (e : pevent)
| PSub (is_op : bool) (q : Z).      (* bounds subscription for priority q (no-op if already there) *)

Record psubs := mkSubs { s_reg : list Z; s_op : list Z }.

Definition add_sub (sb : psubs) (is_op : bool) (q : Z) : psubs :=
  if is_op then (if existsb (Z.eqb q) (s_op sb) then sb else mkSubs (s_reg sb) (s_op sb ++ [q]))
  else (if existsb (Z.eqb q) (s_reg sb) then sb else mkSubs (s_reg sb ++ [q]) (s_op sb)).

Definition rep_line := (Z * option Z * option (Z * Z))%type.   (* priority, target, bounds *)

Definition reports2 (st : pm) (sb : psubs) : list rep_line * list rep_line :=
  (map (fun q => (q, g_target (pm_reg st),
                  get_status_bounds (shifted (pm_sys st) (g_target (pm_op st))) (g_bucket (pm_reg st)) q)) (s_reg sb),
   map (fun q => (q, g_target (pm_op st),
                  get_status_bounds (pm_sys st) (g_bucket (pm_op st)) q)) (s_op sb)).

Fixpoint prun2 (ma_reg ma_op : Z) (sb : psubs) (st : pm) (h : list pevent2)
  : list (option Z * option (list rep_line * list rep_line)) :=
  match h with
  | [] => []
  | PSub is_op q :: h' => (None, None) :: prun2 ma_reg ma_op (add_sub sb is_op q) st h'
  | PE e :: h' =>
    let '(st', r, rep) := pstep ma_reg ma_op st e in
    (r, if rep then Some (reports2 st' sb) else None) :: prun2 ma_reg ma_op sb st' h'
  end.
