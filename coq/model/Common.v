(* Shared executable helpers for every model and for the generated case files.
   Definitions only; no proofs here so the models still evaluate when a proof
   elsewhere breaks. *)
From Coq Require Export ZArith List Bool.
Export ListNotations.
Open Scope Z_scope.

(* indices (from 0) of the elements of [l] that satisfy [f] *)
Fixpoint idx_filter_from {A} (f : A -> bool) (l : list A) (i : nat) : list nat :=
  match l with
  | [] => []
  | x :: xs => if f x then i :: idx_filter_from f xs (S i) else idx_filter_from f xs (S i)
  end.
Definition idx_filter {A} (f : A -> bool) (l : list A) : list nat := idx_filter_from f l 0%nat.

Definition opt_eqb {A} (eqb : A -> A -> bool) (a b : option A) : bool :=
  match a, b with
  | None, None => true
  | Some x, Some y => eqb x y
  | _, _ => false
  end.

Fixpoint list_eqb {A} (eqb : A -> A -> bool) (a b : list A) : bool :=
  match a, b with
  | [], [] => true
  | x :: xs, y :: ys => eqb x y && list_eqb eqb xs ys
  | _, _ => false
  end.

Definition pair_eqb {A B} (ea : A -> A -> bool) (eb : B -> B -> bool) (a b : A * B) : bool :=
  ea (fst a) (fst b) && eb (snd a) (snd b).

Definition optZ_eqb := opt_eqb Z.eqb.
Definition listZ_eqb := list_eqb Z.eqb.

Definition default {A} (d : A) (o : option A) : A :=
  match o with Some x => x | None => d end.
