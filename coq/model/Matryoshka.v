(* Executable model of microgrid/_power_managing/_matryoshka.py over Z (integer watts).
   The three functions of _bounds.py are NOT re-written here: they come from
   gen/Extracted.v, regenerated from /repo by tools/translate.py on every run. *)
From Verif Require Export model.Common gen.Extracted.

Record proposal := mkP {
  p_prio : Z;            (* priority *)
  p_src  : Z;            (* rank of the source id in lexicographic order *)
  p_pref : option Z;     (* preferred power *)
  p_lo   : option Z;     (* bounds.lower *)
  p_hi   : option Z;     (* bounds.upper *)
  p_time : Z             (* creation time, microseconds *)
}.

Record sysb := mkS {
  s_incl : option (Z * Z);
  s_excl : option (Z * Z)
}.

(* Proposal.__lt__ : (priority, source_id) lexicographic *)
Definition p_ltb (a b : proposal) : bool :=
  (p_prio a <? p_prio b) || ((p_prio a =? p_prio b) && (p_src a <? p_src b)).
(* Proposal.__eq__/__hash__ : (priority, source_id) *)
Definition p_keyb (a b : proposal) : bool :=
  (p_prio a =? p_prio b) && (p_src a =? p_src b).

(* sorted(proposals, reverse=True): descending insertion sort.  The bucket is a
   Python set keyed by (priority, source), so keys are unique and the order total. *)
Fixpoint insert_desc (p : proposal) (l : list proposal) : list proposal :=
  match l with
  | [] => [p]
  | q :: qs => if p_ltb p q then q :: insert_desc p qs else p :: l
  end.
Definition sort_desc (l : list proposal) : list proposal := fold_right insert_desc [] l.

(* exclusion bounds are ignored when both are zero *)
Definition eff_excl (s : sysb) : option (Z * Z) :=
  match s_excl s with
  | Some (l, u) => if negb (l =? 0) || negb (u =? 0) then Some (l, u) else None
  | None => None
  end.

Definition pick (pref : Z) (r : option Z * option Z) (cur : Z) : Z :=
  match r with
  | (None, Some p) | (Some p, None) => p
  | (Some pl, Some ph) => if (ph - pref) <? (pref - pl) then ph else pl
  | (None, None) => cur
  end.

(* one iteration of the `for next_proposal in sorted(..)` loop of _calc_target_power,
   after the `if upper_bound < lower_bound: break` test *)
Definition sweep_step (ex : option (Z * Z)) (p : proposal) (st : Z * Z * Z) : Z * Z * Z :=
  let '(lb, ub, tgt) := st in
  let tgt' := match p_pref p with
              | None => tgt
              | Some v => pick v (clamp_to_bounds v lb ub ex) tgt
              end in
  let pl := default lb (p_lo p) in
  let pu := default ub (p_hi p) in
  match check_exclusion_bounds_overlap pl pu ex with
  | (true, true) => (lb, ub, tgt')
  | _ => let '(lb', ub') := adjust_exclusion_bounds (Z.max lb pl) (Z.min ub pu) ex in
         (lb', ub', tgt')
  end.

Fixpoint sweep (ex : option (Z * Z)) (ps : list proposal) (st : Z * Z * Z) : Z :=
  let '(lb, ub, tgt) := st in
  match ps with
  | [] => tgt
  | p :: ps' => if ub <? lb then tgt else sweep ex ps' (sweep_step ex p st)
  end.

Definition init_bounds (s : sysb) : Z * Z :=
  match s_incl s with Some (l, u) => (l, u) | None => (0, 0) end.

(* Matryoshka._calc_target_power *)
Definition calc_target (s : sysb) (bucket : list proposal) : Z :=
  let '(l, u) := init_bounds s in
  sweep (eff_excl s) (sort_desc bucket) (l, u, 0).

(* ---- bucket maintenance: the set keyed by (priority, source) ---- *)
Definition bucket_insert (p : proposal) (b : list proposal) : list proposal :=
  p :: filter (fun q => negb (p_keyb p q)) b.

(* drop_old_proposals(loop_time): strictly older than max age are dropped *)
Definition bucket_expire (max_age now : Z) (b : list proposal) : list proposal :=
  filter (fun q => negb (now - p_time q >? max_age)) b.

Inductive mevent :=
| Propose (p : proposal)
| Expire (now : Z)
| SetBounds (s : sysb).

Definition bucket_step (max_age : Z) (b : list proposal) (e : mevent) : list proposal :=
  match e with
  | Propose p => bucket_insert p b
  | Expire now => bucket_expire max_age now b
  | SetBounds _ => b
  end.

Definition bucket_after (max_age : Z) (h : list mevent) : list proposal :=
  fold_left (bucket_step max_age) h [].

Definition target_after (max_age : Z) (s : sysb) (h : list mevent) : Z :=
  calc_target s (bucket_after max_age h).

(* The full per-call behaviour of Matryoshka.calculate_target_power(..., must_return_power=True)
   including _validate_component_ids: while no bucket exists and the system has neither
   inclusion nor exclusion bounds, a proposal is ignored and None is returned. *)
Record mstate := mkM { m_created : bool; m_bucket : list proposal; m_sys : sysb }.

Definition no_bounds (s : sysb) : bool :=
  match s_incl s, s_excl s with None, None => true | _, _ => false end.

Definition mstep (max_age : Z) (st : mstate) (e : mevent) : mstate * option Z :=
  match e with
  | SetBounds s => (mkM (m_created st) (m_bucket st) s, None)
  | Propose p =>
    if negb (m_created st) && no_bounds (m_sys st) then (st, None)
    else let b := bucket_insert p (m_bucket st) in
         (mkM true b (m_sys st), Some (calc_target (m_sys st) b))
  | Expire now =>
    let b := bucket_expire max_age now (m_bucket st) in
    (mkM (m_created st) b (m_sys st),
     if m_created st then Some (calc_target (m_sys st) b) else None)
  end.

Fixpoint mrun (max_age : Z) (st : mstate) (h : list mevent) : list (option Z) :=
  match h with
  | [] => []
  | e :: h' => let '(st', o) := mstep max_age st e in o :: mrun max_age st' h'
  end.

Fixpoint mfinal (max_age : Z) (st : mstate) (h : list mevent) : mstate :=
  match h with
  | [] => st
  | e :: h' => mfinal max_age (fst (mstep max_age st e)) h'
  end.

(* ---- get_status: bounds reported to an actor of priority [q] ---- *)
Fixpoint status_sweep (ex : option (Z * Z)) (q : Z) (ps : list proposal) (lb ub : Z) : Z * Z :=
  match ps with
  | [] => (lb, ub)
  | p :: ps' =>
    if p_prio p <=? q then (lb, ub) else
    let pl := default lb (p_lo p) in
    let pu := default ub (p_hi p) in
    match check_exclusion_bounds_overlap pl pu ex with
    | (true, true) => status_sweep ex q ps' lb ub
    | _ =>
      let cl := Z.max lb pl in
      let cu := Z.min ub pu in
      if cl <=? cu then
        let '(lb', ub') := adjust_exclusion_bounds cl cu ex in status_sweep ex q ps' lb' ub'
      else (lb, ub)
    end
  end.

Definition get_status_bounds (s : sysb) (bucket : list proposal) (q : Z) : option (Z * Z) :=
  match s_incl s with
  | None => None
  | Some (l, u) => Some (status_sweep (eff_excl s) q (sort_desc bucket) l u)
  end.

(* _Report.adjust_to_bounds *)
Definition adjust_to_bounds (s : sysb) (report_bounds : option (Z * Z)) (power : Z)
  : option Z * option Z :=
  match report_bounds with
  | None => (None, None)
  | Some (l, u) => clamp_to_bounds power l u (s_excl s)
  end.
