(* Executable model of the battery status tracker
     microgrid/_power_distributing/_component_status/_battery_status_tracker.py
     microgrid/_power_distributing/_component_status/_blocking_status.py
     microgrid/_power_distributing/_component_status/_component_status.py (ComponentPoolStatus)
     microgrid/_power_distributing/_component_pool_status_tracker.py (_update_status)
   Time is integer microseconds.  Every event carries the wall-clock reading `now` of the
   instant at which the tracker handles it (all `datetime.now()` calls inside one
   handler are taken at that single instant).
   The valid-state sets, the critical error level, the minimum blocking duration and the
   three methods of BlockingStatus come from gen/BatteryStatus.v (regenerated from /repo on
   every run).
   Definitions only -- lemmas live in proofs/BatteryStatus*.v. *)
From Coq Require Export String.
From Verif Require Export model.Common gen.BatteryStatus.
Open Scope Z_scope.

(* ------------------------------------------------------------------ BlockingStatus *)
Record blocking := mkB {
  b_last  : Z;            (* last_blocking_duration *)
  b_until : option Z      (* blocked_until *)
}.

Record cfg := mkC {
  c_max_age : Z;          (* max_data_age *)
  c_dmin    : Z;          (* BlockingStatus.min_duration *)
  c_dmax    : Z           (* BlockingStatus.max_duration = max_blocking_duration *)
}.

(* __post_init__: last_blocking_duration := min_duration, blocked_until := None *)
Definition blocking_init (c : cfg) : blocking := mkB (c_dmin c) None.

(* BlockingStatus.block / unblock / is_blocked are the functions TRANSLATED from
   _blocking_status.py (gen/BatteryStatus.v): each is the method as a pure function of the
   object's fields and of the clock reading; `block` returns (returned duration,
   last_blocking_duration, blocked_until).  proofs/BatteryStatusFacts.v shows them equal to
   the readable forms block_hand / unblock_hand / is_blocked_hand. *)
Definition block (c : cfg) (now : Z) (b : blocking) : blocking * Z :=
  let '(d, last, until) := BlockingStatus_block (c_dmin c) (c_dmax c) (b_last b) (b_until b) now in
  (mkB last until, d).

Definition unblock (b : blocking) : blocking := mkB (b_last b) (BlockingStatus_unblock (b_until b)).

Definition is_blocked (now : Z) (b : blocking) : bool := BlockingStatus_is_blocked (b_until b) now.

(* ------------------------------------------------------------------ messages *)
Definition mem_str (s : string) (l : list string) : bool := existsb (String.eqb s) l.

Record bmsg := mkBM {
  bm_ts     : Z;              (* message timestamp *)
  bm_state  : string;         (* BatteryComponentState member name *)
  bm_relay  : string;         (* BatteryRelayState member name *)
  bm_errors : list string;    (* ErrorLevel member name of every error, in order *)
  bm_cap    : bool            (* capacity is a number (not NaN) *)
}.

Record imsg := mkIM {
  im_ts     : Z;
  im_state  : string;         (* InverterComponentState member name *)
  im_errors : list string
}.

(* _is_timestamp_outdated / _is_message_reliable *)
Definition reliable (c : cfg) (now ts : Z) : bool := negb (now - ts >? c_max_age c).
(* _no_critical_error *)
Definition no_critical (errs : list string) : bool := negb (mem_str critical_level errs).
(* _is_battery_state_correct *)
Definition battery_state_correct (m : bmsg) : bool :=
  mem_str (bm_state m) battery_valid_state && mem_str (bm_relay m) battery_valid_relay.
(* _is_inverter_state_correct *)
Definition inverter_state_correct (m : imsg) : bool := mem_str (im_state m) inverter_valid_state.

(* the conjunction evaluated by _handle_status_battery *)
Definition bat_msg_ok (c : cfg) (now : Z) (m : bmsg) : bool :=
  reliable c now (bm_ts m) && battery_state_correct m && no_critical (bm_errors m) && bm_cap m.
(* the conjunction evaluated by _handle_status_inverter *)
Definition inv_msg_ok (c : cfg) (now : Z) (m : imsg) : bool :=
  reliable c now (im_ts m) && inverter_state_correct m && no_critical (im_errors m).

(* ------------------------------------------------------------------ tracker *)
Inductive status := NotWorking | Uncertain | Working.

Definition status_eqb (a b : status) : bool :=
  match a, b with
  | NotWorking, NotWorking | Uncertain, Uncertain | Working, Working => true
  | _, _ => false
  end.

Record cstream := mkCS {
  s_ok : bool;            (* last_msg_correct *)
  s_ts : Z                (* last_msg_timestamp *)
}.

Record state := mkST {
  st_bat  : cstream;
  st_inv  : cstream;
  st_blk  : blocking;
  st_last : status        (* _last_status: the last status sent *)
}.

(* `ts0` is the class-level default of last_msg_timestamp (the import time of the module) *)
Definition init (c : cfg) (ts0 : Z) : state :=
  mkST (mkCS false ts0) (mkCS false ts0) (blocking_init c) NotWorking.

Inductive event :=
| BatMsg (m : bmsg)
| InvMsg (m : imsg)
| BatTimer
| InvTimer
| SetPower (in_succeeded in_failed : bool).

(* _get_current_status: the status and the (possibly unblocked) blocking object *)
Definition current_status (now : Z) (s : state) : status * blocking :=
  if negb (s_ok (st_bat s) && s_ok (st_inv s)) then (NotWorking, st_blk s)
  else match st_last s with
       | NotWorking => (Working, unblock (st_blk s))
       | _ => if is_blocked now (st_blk s) then (Uncertain, st_blk s) else (Working, st_blk s)
       end.

(* _get_new_status_if_changed followed by the `send` of the select loop *)
Definition finish (now : Z) (s : state) : state * option status :=
  let '(cur, blk) := current_status now s in
  if status_eqb (st_last s) cur
  then (mkST (st_bat s) (st_inv s) blk (st_last s), None)
  else (mkST (st_bat s) (st_inv s) blk cur, Some cur).

(* _handle_status_set_power_result *)
Definition handle_set_power (c : cfg) (now : Z) (succ failed : bool) (s : state) : state :=
  if succ then mkST (st_bat s) (st_inv s) (unblock (st_blk s)) (st_last s)
  else if failed && negb (status_eqb (st_last s) NotWorking)
       then mkST (st_bat s) (st_inv s) (fst (block c now (st_blk s))) (st_last s)
       else s.

(* the late-timer filter of the select loop: `now - last_msg_timestamp < max_data_age` *)
Definition timer_is_late (c : cfg) (now : Z) (cs : cstream) : bool :=
  now - s_ts cs <? c_max_age c.

(* one iteration of the select loop *)
Definition step (c : cfg) (s : state) (now : Z) (e : event) : state * option status :=
  match e with
  | BatMsg m =>
      finish now (mkST (mkCS (bat_msg_ok c now m) (bm_ts m)) (st_inv s) (st_blk s) (st_last s))
  | InvMsg m =>
      finish now (mkST (st_bat s) (mkCS (inv_msg_ok c now m) (im_ts m)) (st_blk s) (st_last s))
  | SetPower succ failed =>
      finish now (handle_set_power c now succ failed s)
  | BatTimer =>
      if timer_is_late c now (st_bat s) then (s, None)   (* `continue` *)
      else finish now (mkST (mkCS false (s_ts (st_bat s))) (st_inv s) (st_blk s) (st_last s))
  | InvTimer =>
      if timer_is_late c now (st_inv s) then (s, None)
      else finish now (mkST (st_bat s) (mkCS false (s_ts (st_inv s))) (st_blk s) (st_last s))
  end.

(* a history: events with the clock reading at which each is handled *)
Definition trace := list (Z * event).

Fixpoint run (c : cfg) (s : state) (tr : trace) : state * list (option status) :=
  match tr with
  | [] => (s, [])
  | (now, e) :: tr' =>
      let '(s1, o) := step c s now e in
      let '(s2, os) := run c s1 tr' in
      (s2, o :: os)
  end.

Definition final (c : cfg) (s : state) (tr : trace) : state := fst (run c s tr).
Definition outputs (c : cfg) (s : state) (tr : trace) : list (option status) := snd (run c s tr).

(* the notifications actually sent, in order *)
Fixpoint notifications (os : list (option status)) : list status :=
  match os with
  | [] => []
  | Some x :: r => x :: notifications r
  | None :: r => notifications r
  end.

(* the status a subscriber of the status channel holds: the last notification, or the
   documented initial value *)
Definition last_reported (os : list (option status)) : status :=
  last (notifications os) NotWorking.

(* ------------------------------------------------------------------ pool *)
Record pool := mkPool {
  p_working   : list Z;
  p_uncertain : list Z
}.

Definition zmem (x : Z) (l : list Z) : bool := existsb (Z.eqb x) l.
Definition set_add (x : Z) (l : list Z) : list Z := if zmem x l then l else x :: l.
Definition set_discard (x : Z) (l : list Z) : list Z := filter (fun y => negb (Z.eqb x y)) l.
Definition set_inter (a b : list Z) : list Z := filter (fun x => zmem x b) a.

Definition pool_init : pool := mkPool [] [].

(* ComponentPoolStatusTracker._update_status, one status message *)
Definition pool_update (p : pool) (id : Z) (v : status) : pool :=
  match v with
  | Working    => mkPool (set_add id (p_working p)) (set_discard id (p_uncertain p))
  | Uncertain  => mkPool (set_discard id (p_working p)) (set_add id (p_uncertain p))
  | NotWorking => mkPool (set_discard id (p_working p)) (set_discard id (p_uncertain p))
  end.

Definition pool_run (p : pool) (ms : list (Z * status)) : pool :=
  fold_left (fun q m => pool_update q (fst m) (snd m)) ms p.

(* ComponentPoolStatus.get_working_components *)
Definition get_working_components (p : pool) (components : list Z) : list Z :=
  let w := set_inter (p_working p) components in
  if (0 <? Z.of_nat (length w)) then w else set_inter (p_uncertain p) components.

(* ------------------------------------------------------------------ comparison helpers
   used by the generated case files *)
Definition status_code (s : status) : Z :=
  match s with NotWorking => 0 | Uncertain => 1 | Working => 2 end.
Definition out_codes (os : list (option status)) : list (option Z) :=
  map (fun o => match o with Some s => Some (status_code s) | None => None end) os.

Fixpoint insert_sorted (x : Z) (l : list Z) : list Z :=
  match l with
  | [] => [x]
  | y :: r => if x <=? y then x :: l else y :: insert_sorted x r
  end.
Definition sort_z (l : list Z) : list Z := fold_right insert_sorted [] l.
