(* C20 — stub while the proofs are being written *)
From Verif Require Import model.DataSourcing.
Example C20_stub : True. Proof. exact I. Qed.
Print Assumptions C20_stub.
