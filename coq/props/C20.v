(* C20 — each component message reaches every subscribed metric stream exactly once.
   Statements only; every proof is `exact <lemma>` from proofs/DataSourcingFacts.v.

   All theorems quantify over EVERY event sequence [es] of the transition system of
   model/DataSourcing.v (any interleaving of subscription requests, handler (re)starts, API
   messages, takes and deliveries, for any answer [cats] of `components()`).
   PARTIAL with respect to the running system: that asyncio/frequenz-channels only produce such
   sequences (FIFO execution of the per-message tasks with an atomic fan-out, a non-suspending
   Broadcast.send, cancellation before the old handler runs again, the API receiver surviving the
   restart, no receiver overflow) is a runtime assumption exercised by the trace-refinement runs. *)
From Verif Require Import gen.DataSourcing model.DataSourcing proofs.DataSourcingFacts.

(* Every message accepted by a component's API receiver is in exactly one place: the take log splits
   into delivered tasks ++ in-flight tasks, everything sent is the fan-out of the delivered tasks, and
   per component  accepted = delivered ++ in flight ++ still buffered  (as sequences, in arrival order). *)
Theorem C20_conservation : forall cats es s, run cats init es = Some s ->
  exists done, st_taken s = done ++ st_fly s /\ st_out s = flat_map fanout done /\
  forall c, acc_of c (st_acc s) =
            map t_msg (tasks_of c done) ++ map t_msg (tasks_of c (st_fly s)) ++ queue s c.
Proof. exact conservation. Qed.

(* On every channel (c, n) the samples sent are: one sample (that metric's value, the message's
   timestamp) per delivered message of c whose handler snapshot contained n — in take order; a
   position of the take log contributes at most once. *)
Theorem C20_exactly_once_in_order : forall cats es s, run cats init es = Some s ->
  exists done, st_taken s = done ++ st_fly s /\
  forall c n, chan_out c n (st_out s) =
    map (fun t => sample_of n (t_msg t))
        (filter (fun t => (t_comp t =? c) && mem_name n (t_snap t)) done).
Proof. exact exactly_once_in_order. Qed.

(* "subscribed at that time": the snapshot a taken message travels with is the component's current
   subscription set at the moment of the take. *)
Theorem C20_snapshot_is_current : forall cats es s c s' o, run cats init es = Some s ->
  step cats s (Take c) = Some (s', o) ->
  exists m, st_taken s' = st_taken s ++ [mkT c (st_subs s c) m] /\
            st_fly s' = st_fly s ++ [mkT c (st_subs s c) m] /\ st_subs s' = st_subs s.
Proof. exact take_snapshot_current_reach. Qed.

(* Once a name is subscribed, whatever happens next (further subscriptions included) it stays
   subscribed and every message of its component taken from then on carries it. *)
Theorem C20_existing_unaffected : forall cats es0 es s s' c n,
  run cats init es0 = Some s -> In n (st_subs s c) -> run cats s es = Some s' ->
  In n (st_subs s' c) /\
  exists new, st_taken s' = st_taken s ++ new /\ forall t, In t new -> t_comp t = c -> In n (t_snap t).
Proof. exact existing_unaffected_reach. Qed.

(* A subscription request changes nothing but the subscription set and handler of its own component:
   buffers, in-flight tasks, everything already sent and all other components are untouched. *)
Theorem C20_add_frame : forall cats s c n s' o, step cats s (AddMetric c n) = Some (s', o) ->
  o = [] /\ st_recv s' = st_recv s /\ st_fly s' = st_fly s /\ st_out s' = st_out s /\ st_taken s' = st_taken s /\
  st_acc s' = st_acc s /\
  forall c', c' <> c -> st_subs s' c' = st_subs s c' /\ st_hand s' c' = st_hand s c'.
Proof. exact add_frame. Qed.

(* Consequence: every stream is a gap-free run of its component's accepted messages — some prefix is
   skipped (before the subscription), then every message, each once, in order, up to the last delivered. *)
Theorem C20_stream_gap_free : forall cats es s, run cats init es = Some s ->
  exists done, st_taken s = done ++ st_fly s /\
  forall c n, exists k,
    chan_out c n (st_out s) = map (sample_of n) (skipn k (map t_msg (tasks_of c done))) /\
    acc_of c (st_acc s) = map t_msg (tasks_of c done) ++ map t_msg (tasks_of c (st_fly s)) ++ queue s c.
Proof. exact stream_gap_free. Qed.

(* A request whose channel name is already subscribed is a no-op; so is the second of two identical requests. *)
Theorem C20_idempotent : forall cats s c n, In n (st_subs s c) -> step cats s (AddMetric c n) = Some (s, []).
Proof. exact add_existing_noop. Qed.

Theorem C20_repeat_no_effect : forall cats s c n s1 o,
  step cats s (AddMetric c n) = Some (s1, o) -> step cats s1 (AddMetric c n) = Some (s1, []).
Proof. exact add_twice_noop. Qed.

(* Unknown component id: no state change. *)
Theorem C20_unknown : forall cats s c n, cats c = None -> step cats s (AddMetric c n) = Some (s, []).
Proof. exact add_unknown_noop. Qed.

(* A request for a metric the component's data does not provide (or for a component category without
   data) is ignored as well, so no reachable handler ever crashes and every handler (re)start ends up
   running with the current subscription set.
   (C20_invalid_metric_refuted_before_fix: before the `fix:` commit such a request was registered, every
   later (re)start of the component's handler raised KeyError/ValueError, and the EXISTING streams of the
   component stopped for good — witness in corpus/C20/trace_invalid_metric.json.) *)
Theorem C20_invalid_request_ignored : forall cats s c n cat,
  cats c = Some cat -> supported cat (n_metric n) = false -> step cats s (AddMetric c n) = Some (s, []).
Proof. exact add_unsupported_noop. Qed.

(* unless the API client itself raises (HandlerFail), no handler is ever in the crashed state *)
Theorem C20_handler_never_crashes : forall cats es s c, run cats init es = Some s ->
  existsb is_fault es = false -> st_hand s c <> Some HCrashed.
Proof. exact never_crashed. Qed.

(* The stream-opening call of the API client may stay pending for any number of loop iterations: while it
   does, only the handler's own state differs (HOpening, no receiver yet, so nothing is accepted, taken or
   sent for the component); a new request arriving meanwhile is registered and puts the handler back to
   "starting" (the task is cancelled inside the call and replaced), so the stream is opened again by the
   replacement and C20_handler_start_runs applies to it.
   Assumed about the client: a cancelled opening call leaves nothing behind (the receiver is created when the
   call returns), and cancelling one task does not poison the opening call of its replacement. *)
Theorem C20_opening_call_frame : forall cats es s c s' o, run cats init es = Some s ->
  step cats s (HandlerOpen c) = Some (s', o) -> s' = set_hand s c HOpening /\ o = [] /\ st_recv s c = None.
Proof. exact open_frame. Qed.

Theorem C20_request_while_opening : forall cats s c n cat,
  st_hand s c = Some HOpening -> cats c = Some cat -> supported cat (n_metric n) = true -> ~ In n (st_subs s c) ->
  exists s', step cats s (AddMetric c n) = Some (s', []) /\ st_hand s' c = Some HStarting /\
             st_subs s' c = st_subs s c ++ [n] /\ st_recv s' = st_recv s.
Proof. exact add_while_opening. Qed.

(* What must persist across faults: a failing API client call during a handler (re)start, a failing
   `components()` inside add_metric (the request is dropped) and a restart of the actor's `_run()` change
   neither subscriptions, receivers/buffers, in-flight tasks nor anything sent; the last two change
   nothing at all.  All theorems above therefore hold for event sequences containing them. *)
Theorem C20_faults_and_restart_keep_state : forall cats s e s' o,
  (match e with HandlerFail _ | AddFault _ _ | Restart => True | _ => False end) ->
  step cats s e = Some (s', o) ->
  o = [] /\ st_subs s' = st_subs s /\ st_recv s' = st_recv s /\ st_fly s' = st_fly s /\ st_out s' = st_out s /\
  st_taken s' = st_taken s /\ st_acc s' = st_acc s /\
  (match e with HandlerFail _ => True | _ => s' = s end).
Proof. exact fault_frame. Qed.

Theorem C20_handler_start_runs : forall cats es s c s' o, run cats init es = Some s ->
  step cats s (HandlerStart c) = Some (s', o) -> st_hand s' c = Some (HRunning (st_subs s c)).
Proof. exact handler_start_runs. Qed.

(* Complement of C20_idempotent: a request whose handling FAILED (AddFault) is not subscribed, also after the
   restart the failure causes, so the identical request sent again is registered like a new one (subscription set
   extended, handler (re)started) — nothing may remember it as "already handled". *)
Theorem C20_repeat_after_fault_is_served : forall cats s c n cat s1 o1 s2 o2,
  step cats s (AddFault c n) = Some (s1, o1) -> step cats s1 Restart = Some (s2, o2) ->
  cats c = Some cat -> supported cat (n_metric n) = true -> ~ In n (st_subs s c) ->
  ~ In n (st_subs s2 c) /\
  exists s3, step cats s2 (AddMetric c n) = Some (s3, []) /\ st_subs s3 c = st_subs s c ++ [n] /\
             st_hand s3 c = Some HStarting.
Proof. exact repeat_after_fault_is_served. Qed.

(* The request channel of the production wiring (`_DataPipeline._data_sourcing_request_sender`): with the
   receiver capacity the code passes (`limit=` of the actor's `channel.new_receiver(...)`, translated as
   [data_sourcing_request_limit]; equal to the translated `_REQUEST_RECV_BUFFER_SIZE`; the "pipeline" stream
   also reads it off the receiver the real pipeline creates) a burst of up to that many requests issued back to back before the actor runs loses none and keeps
   its order; each is then served by its own AddMetric event. *)
Theorem C20_request_limit_is_configured_size : data_sourcing_request_limit = request_recv_buffer_size.
Proof. exact request_limit_is_configured_size. Qed.

Theorem C20_request_burst_served : forall A (rs : list A),
  (length rs <= Z.to_nat request_recv_buffer_size)%nat ->
  req_burst (Z.to_nat data_sourcing_request_limit) [] rs = rs.
Proof. exact request_burst_served. Qed.

Theorem C20_request_queue_bounded : forall A (cap : nat) (rs q : list A),
  (0 < cap)%nat -> (length q <= cap)%nat -> length (req_burst cap q rs) = Nat.min cap (length q + length rs).
Proof. exact req_burst_length. Qed.

Example C20_request_capacity_nonvacuous :
  0 < data_sourcing_request_limit /\ req_burst 3 [] [1; 2; 3; 4; 5] = [3; 4; 5] /\ req_burst 3 [] [1; 2; 3] = [1; 2; 3].
Proof. vm_compute. repeat split; reflexivity. Qed.

(* The trace checker used for the correspondence accepts only runs of the transition system, so the
   theorems above apply to every recorded trace of the real code it accepts. *)
Theorem C20_checked_traces_are_runs : forall cats evs s s',
  run_checked cats s evs = Some s' -> run cats s (map fst evs) = Some s'.
Proof. exact run_checked_run. Qed.

(* Non-vacuity: a subscription added while a message is in flight and another one is buffered. *)
Example C20_nonvacuous :
  let cats := cats_of [(4, Meter)] in
  let a := mkN 0 0 in let b := mkN 14 0 in
  let m k := mkMsg (k * 1000000) (map (fun i => 100 * k + Z.of_nat i) (seq 0 28)) in
  match run cats init [AddMetric 4 a; HandlerOpen 4; AddMetric 4 a; HandlerStart 4; ApiMsg 4 (m 1); ApiMsg 4 (m 2); Take 4;
                       AddMetric 4 b; AddMetric 4 a; AddMetric 7 a; AddMetric 4 (mkN 15 0); AddFault 9 a; Restart; HandlerFail 4; HandlerStart 4; Take 4; ApiMsg 4 (m 3);
                       Deliver; Take 4; Deliver; Deliver] with
  | Some s => chan_out 4 a (st_out s) = [(1000000, 100); (2000000, 200); (3000000, 300)] /\
              chan_out 4 b (st_out s) = [(2000000, 214); (3000000, 314)] /\
              st_fly s = [] /\ queue s 4 = []
  | None => False
  end.
Proof. vm_compute. repeat split; reflexivity. Qed.

Print Assumptions C20_conservation.
Print Assumptions C20_exactly_once_in_order.
Print Assumptions C20_snapshot_is_current.
Print Assumptions C20_existing_unaffected.
Print Assumptions C20_add_frame.
Print Assumptions C20_stream_gap_free.
Print Assumptions C20_idempotent.
Print Assumptions C20_repeat_no_effect.
Print Assumptions C20_unknown.
Print Assumptions C20_invalid_request_ignored.
Print Assumptions C20_handler_never_crashes.
Print Assumptions C20_faults_and_restart_keep_state.
Print Assumptions C20_opening_call_frame.
Print Assumptions C20_request_while_opening.
Print Assumptions C20_handler_start_runs.
Print Assumptions C20_checked_traces_are_runs.
Print Assumptions C20_repeat_after_fault_is_served.
Print Assumptions C20_request_limit_is_configured_size.
Print Assumptions C20_request_burst_served.
Print Assumptions C20_request_queue_bounded.
