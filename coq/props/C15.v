(* C15 — Distribution results truthfully account for the requested power.
   Statements only; every proof is `exact <lemma>` from proofs/AccountingFacts.v.

   "The calls that failed" is read declaratively: zip the set_power calls with their outcomes
   (one outcome in {ok, out-of-range, client error, other exception, timeout} per call), keep
   those whose outcome is not `ok` ([failed_calls] / [ok_calls]).  All theorems are for EVERY
   input and EVERY outcome vector.

   Battery path: set-points ([b_dist]) and remaining power ([b_rem]) are inputs — they are the
   output of the distribution algorithm, C01/C02's subject.  C01's conclusion
   `sum set-points + remaining == requested` is an explicit hypothesis of C15_bat_succeeded only.
   [bat_wf]: one outcome per call, and every addressed inverter has at least one battery in
   _inv_bats_map (true by construction of the map).

   PV path: the model is the code after the F14 `fix:` commit.  Before it the reported
   succeeded_power was `0 - failed_power` (the field `_target_power` was never assigned):
   C15_pv_sum was false, witness in AccountingFacts.pv_before_fix_refuted
   (request -1000 W, bounds -300/-600, both calls ok: 0 + 0 + (-100) <> -1000). *)
From Coq Require Import Permutation Lia Lqa.
From Verif Require Import model.Accounting proofs.AccountingFacts proofs.AccountingSaturation proofs.AccountingEndToEnd.
From Verif Require model.Dist.
Open Scope Q_scope.

(* ------------------------------------------------------------------ battery pools *)
(* a Result is produced iff there is at least one set-point (an empty distribution never reaches
   _distribute_power through distribute_power; on it asyncio.wait raises) *)
Theorem C15_bat_reported : forall x, r_reported (bat_result x) = true <-> b_dist x <> [].
Proof. exact bat_reported. Qed.

Theorem C15_bat_sum : forall x, b_dist x <> [] ->
  r_succeeded_power (bat_result x) + r_failed_power (bat_result x) + r_excess (bat_result x) == b_req x.
Proof. exact bat_sum. Qed.

Theorem C15_bat_sets : forall x b,
  ~ (In b (r_succeeded (bat_result x)) /\ In b (r_failed (bat_result x))) /\
  (In b (r_succeeded (bat_result x)) \/ In b (r_failed (bat_result x))
     <-> In b (bat_addressed (b_map x) (b_dist x))) /\
  (In b (r_failed (bat_result x))
     <-> exists inv, In inv (map fst (failed_calls (b_dist x) (b_out x))) /\ In b (inv_bats (b_map x) inv)).
Proof.
  intros x b. rewrite <- failed_ids_spec.
  exact (conj (bat_sets_disjoint x b) (conj (bat_sets_cover x b) (bat_failed_set x b))).
Qed.

Theorem C15_bat_failed : forall x, bat_wf x ->
  r_failed_power (bat_result x) == qsum (map snd (failed_calls (b_dist x) (b_out x))).
Proof. intros x W. rewrite <- failed_setpoints_spec. exact (bat_failed_power x W). Qed.

(* with C01's identity as hypothesis, the succeeded power is what the successful calls carried *)
Theorem C15_bat_succeeded : forall x, bat_wf x ->
  qsum (map snd (b_dist x)) + b_rem x == b_req x ->
  r_succeeded_power (bat_result x) == qsum (map snd (ok_calls (b_dist x) (b_out x))).
Proof. intros x W H. rewrite <- ok_setpoints_spec. exact (bat_succeeded_power x W H). Qed.

(* Success is reported exactly when no call failed *)
Theorem C15_bat_kind : forall x, bat_wf x -> b_dist x <> [] ->
  ((exists p s e, bat_result x = Success p s e) <-> Forall (fun o => call_failed o = false) (b_out x)).
Proof. exact bat_kind. Qed.

(* END TO END: set-points and remaining power computed by the model of the real distribution algorithm
   (model/Dist.v) from ANY battery/inverter data [gs], any pow function, any request the algorithm does not
   treat as zero (|p| > 1e-9 W), any inverter->battery map, ANY outcome vector.  C01's identity is no longer a
   hypothesis: it is discharged by the lemma behind C01_sum (DistFacts.distribute_sum). *)
Theorem C15_bat_end_to_end : forall powf gs p r m outs,
  Dist.czero p = false -> Dist.distribute powf gs p = Some r ->
  let x := bat_of_distribution p r m outs in
  bat_wf x -> Dist.res_dist r <> [] ->
  r_reported (bat_result x) = true /\
  r_succeeded_power (bat_result x) + r_failed_power (bat_result x) + r_excess (bat_result x) == p /\
  r_failed_power (bat_result x) == qsum (map snd (failed_calls (Dist.res_dist r) outs)) /\
  r_succeeded_power (bat_result x) == qsum (map snd (ok_calls (Dist.res_dist r) outs)) /\
  r_excess (bat_result x) == Dist.res_rem r.
Proof. exact bat_end_to_end. Qed.

(* ------------------------------------------------------------------ PV pools *)
(* water filling: loop invariant for every list of inverters (sorted or not), every request *)
Theorem C15_pv_alloc : forall l req,
  qsum (map snd (fst (pv_fill req l))) + snd (pv_fill req l) == req /\
  map fst (fst (pv_fill req l)) = map fst l /\
  Forall2 (fun w a => fst a = fst w /\ (snd w <= 0 -> snd w <= snd a /\ snd a <= 0)) l (fst (pv_fill req l)).
Proof. exact (fun l req => conj (pv_fill_sum l req) (conj (pv_fill_ids l req) (pv_fill_bounds l req))). Qed.

(* ... and the list handed to it is a descending-by-bound permutation of the usable inverters *)
Theorem C15_pv_sorted : forall x,
  Permutation (pv_sorted_working x) (with_data (p_working x)) /\ desc_sorted (pv_sorted_working x).
Proof. exact (fun x => conj (pv_sort_perm _) (pv_sort_sorted _)). Qed.

(* when is a Result reported at all *)
Theorem C15_pv_reported : forall x,
  (r_reported (pv_result x) = true <-> (p_tracker x = false /\ p_ids_empty x = true) \/ pv_distributing x) /\
  (pv_result x = NoResult <-> p_tracker x = true /\ with_data (p_working x) = []).
Proof. exact (fun x => conj (pv_reported x) (pv_no_result x)). Qed.

Theorem C15_pv_sum : forall x, r_reported (pv_result x) = true ->
  r_succeeded_power (pv_result x) + r_failed_power (pv_result x) + r_excess (pv_result x) == p_req x.
Proof. exact pv_sum. Qed.

Theorem C15_pv_sets : forall x i,
  (NoDup (map fst (p_working x)) -> ~ (In i (r_succeeded (pv_result x)) /\ In i (r_failed (pv_result x)))) /\
  (pv_distributing x -> length (pv_calls x) = length (p_out x) ->
     (In i (r_succeeded (pv_result x)) \/ In i (r_failed (pv_result x)) <-> In i (map fst (pv_calls x))) /\
     (In i (map fst (pv_calls x)) <-> exists b, In (i, Some b) (p_working x)) /\
     r_failed (pv_result x) = map fst (failed_calls (pv_calls x) (p_out x))).
Proof.
  intros x i. split; [exact (pv_sets_disjoint x i)|]. intros D L. rewrite <- failed_ids_spec.
  exact (conj (pv_sets_cover x i D L) (conj (pv_calls_usable x i (proj1 D)) (pv_failed_set x D))).
Qed.

Theorem C15_pv_failed : forall x, pv_distributing x ->
  r_failed_power (pv_result x) == qsum (map snd (failed_calls (pv_calls x) (p_out x))).
Proof. intros x D. rewrite <- failed_setpoints_spec. exact (pv_failed_power x D). Qed.

Theorem C15_pv_succeeded : forall x, pv_distributing x -> length (pv_calls x) = length (p_out x) ->
  r_succeeded_power (pv_result x) == qsum (map snd (ok_calls (pv_calls x) (p_out x))) /\
  qsum (map snd (pv_calls x)) + r_excess (pv_result x) == p_req x.
Proof.
  intros x D L. rewrite <- ok_setpoints_spec. split; [exact (pv_succeeded_power x D L)|].
  rewrite (pv_excess x D). exact (pv_alloc_sum x (proj1 D)).
Qed.

(* the excess is power that really could not be placed: with the usual non-positive lower bounds, a
   reported excess that is negative and outside the is_close_to_zero tolerance means that every
   usable inverter was sent exactly its lower bound (this is where the descending sort is needed) *)
Theorem C15_pv_excess_saturated : forall x, pv_distributing x ->
  (forall i b, In (i, Some b) (p_working x) -> b <= 0) ->
  Qltb 0 (r_excess (pv_result x)) || close_to_zero (r_excess (pv_result x)) = false ->
  Forall2 (fun w a => fst a = fst w /\ snd a == snd w) (pv_sorted_working x) (pv_calls x).
Proof. exact pv_excess_saturated. Qed.

(* ------------------------------------------------------------------ non-vacuity *)
(* two inverters behind one battery + one 1:1 pair; one call times out, one is rejected *)
Example C15_bat_nonvacuous :
  let x := mkBat 100 [(10%Z, 60); (11%Z, 30); (12%Z, 5)] 5 [(10%Z, [100%Z]); (11%Z, [100%Z]); (12%Z, [102%Z])]
                 [OOk; OTimeout; ORange] in
  bat_wf x /\ b_dist x <> [] /\ qsum (map snd (b_dist x)) + b_rem x == b_req x /\
  result_eqb (bat_result x) (PartialFailure 60 [] 35 [100%Z; 102%Z] 5) = true.
Proof.
  cbv zeta. split; [|split; [cbn; discriminate|split; [vm_compute; reflexivity|vm_compute; reflexivity]]].
  split; [reflexivity|]. cbn. intros inv [H|[H|[H|[]]]]; subst; cbn; discriminate.
Qed.

Example C15_pv_nonvacuous :
  let x := mkPV (-1000) false true [(1%Z, Some (-600)); (2%Z, Some (-300)); (3%Z, None)] [OOk; OClient] in
  pv_distributing x /\ length (pv_calls x) = length (p_out x) /\ NoDup (map fst (p_working x)) /\
  calls_eqb (pv_calls x) [(2%Z, -300); (1%Z, -600)] = true /\
  result_eqb (pv_result x) (PartialFailure (-300) [2%Z] (-600) [1%Z] (-100)) = true.
Proof.
  cbv zeta. split; [split; [reflexivity|cbn; discriminate]|].
  split; [vm_compute; reflexivity|]. split; [|split; vm_compute; reflexivity].
  cbn. repeat (apply NoDup_cons; [cbn; intuition congruence|]). apply NoDup_nil.
Qed.

Print Assumptions C15_bat_reported.
Print Assumptions C15_bat_sum.
Print Assumptions C15_bat_sets.
Print Assumptions C15_bat_failed.
Print Assumptions C15_bat_succeeded.
Print Assumptions C15_bat_kind.
Print Assumptions C15_bat_end_to_end.
Print Assumptions C15_pv_alloc.
Print Assumptions C15_pv_sorted.
Print Assumptions C15_pv_reported.
Print Assumptions C15_pv_sum.
Print Assumptions C15_pv_sets.
Print Assumptions C15_pv_failed.
Print Assumptions C15_pv_succeeded.
Print Assumptions C15_pv_excess_saturated.
