(* C16 — a battery is reported usable only while its data proves it healthy.
   Statements only; every proof is `exact <lemma>` from proofs/BatteryStatus*.v.
   Model: model/BatteryStatus.v (one `step` per iteration of the tracker's select loop; every
   event carries the clock reading `now` at which it is handled).  The tables of valid
   states, the critical level and the blocking/data-age constants are the ones translated
   from /repo (gen/BatteryStatus.v). *)
From Coq Require Import Lia String.
From Verif Require Import model.BatteryStatus proofs.BatteryStatusFacts proofs.BatteryStatusBackoff
  proofs.BatteryStatusPool.
Open Scope string_scope.
Open Scope list_scope.
Open Scope Z_scope.

(* The status a subscriber holds (the last notification, NOT_WORKING before the first) is
   the tracker's _last_status, after every history. *)
Theorem C16_reported_is_last_status : forall c ts0 tr,
  last_reported (outputs c (init c ts0) tr) = st_last (final c (init c ts0) tr).
Proof. exact last_reported_final. Qed.

(* SAFETY, for every history of events and clock readings: if the battery is currently
   reported WORKING or UNCERTAIN then the latest battery message and the latest inverter
   message each passed every validity predicate when they were handled, and every data-timer
   tick of that stream handled since was a late one (younger data existed): no data
   time-out has been processed since. *)
Theorem C16_safe : forall c ts0 tr,
  last_reported (outputs c (init c ts0) tr) <> NotWorking ->
  bat_evidence c tr /\ inv_evidence c tr.
Proof. exact safe. Qed.

(* what "passed every validity predicate" means *)
Theorem C16_battery_message_predicates : forall c now m,
  bat_msg_ok c now m = true <->
  now - bm_ts m <= c_max_age c /\
  mem_str (bm_state m) battery_valid_state = true /\
  mem_str (bm_relay m) battery_valid_relay = true /\
  mem_str critical_level (bm_errors m) = false /\
  bm_cap m = true.
Proof. exact bat_msg_ok_spec. Qed.

Theorem C16_inverter_message_predicates : forall c now m,
  inv_msg_ok c now m = true <->
  now - im_ts m <= c_max_age c /\
  mem_str (im_state m) inverter_valid_state = true /\
  mem_str critical_level (im_errors m) = false.
Proof. exact inv_msg_ok_spec. Qed.

(* the translated tables say what the property calls "operational" *)
Theorem C16_tables :
  (forall s, mem_str s battery_valid_state = true <-> s = "IDLE" \/ s = "CHARGING" \/ s = "DISCHARGING") /\
  (forall s, mem_str s battery_valid_relay = true <-> s = "CLOSED") /\
  (forall s, mem_str s inverter_valid_state = true <->
             s = "STANDBY" \/ s = "IDLE" \/ s = "CHARGING" \/ s = "DISCHARGING") /\
  critical_level = "CRITICAL".
Proof.
  repeat split; try (intro H; apply mem_str_In in H; cbn in H; intuition congruence);
    try (intro H; apply mem_str_In; cbn; intuition congruence).
Qed.

(* IMMEDIACY, from any state: a message failing any predicate, or a data-timer tick not
   discarded by the late filter, makes the battery NOT_WORKING in the same step, and the
   change is notified in that step if the battery was usable. *)
Theorem C16_immediate : forall c s now e,
  disqualifying c s now e ->
  st_last (fst (step c s now e)) = NotWorking /\
  (st_last s <> NotWorking -> snd (step c s now e) = Some NotWorking).
Proof. exact immediate. Qed.

(* UNCERTAIN: whenever the status is evaluated for a battery that was usable and still has
   healthy data, it is UNCERTAIN exactly while it is blocked, WORKING otherwise. *)
Theorem C16_uncertain : forall c s now e,
  skipped c s now e = false ->
  let s' := fst (step c s now e) in
  both_ok s' = true -> st_last s <> NotWorking ->
  st_last s' = if is_blocked now (st_blk s') then Uncertain else Working.
Proof. exact uncertain. Qed.

(* recovery: healthy data on a not-working battery => WORKING at once, block cleared *)
Theorem C16_recover : forall c s now e,
  skipped c s now e = false ->
  let s' := fst (step c s now e) in
  both_ok s' = true -> st_last s = NotWorking ->
  st_last s' = Working /\ b_until (st_blk s') = None.
Proof. exact recover. Qed.

(* The three methods of BlockingStatus used by the model are the ones translated from /repo;
   they equal the readable forms the back-off proofs are written against. *)
Theorem C16_blocking_status_as_translated :
  (forall c now b, block c now b = block_hand c now b) /\
  (forall b, unblock b = unblock_hand b) /\
  (forall now b, is_blocked now b = is_blocked_hand now b).
Proof. exact (conj block_spec (conj unblock_spec is_blocked_spec)). Qed.

(* BACK-OFF.  After every history the blocking state refines the closed-form counter
   [streak] (consecutive effective failures since the last success / recovery) ... *)
Theorem C16_backoff_invariant : forall c ts0 tr,
  wf_cfg c -> refines c (st_blk (final c (init c ts0) tr)) (streak c ts0 tr).
Proof. exact backoff_reachable. Qed.

(* ... and a failure reported for a usable battery whose block (if any) has expired is the
   k-th consecutive one, k = streak + 1: it blocks until now + min(2^(k-1) d_min, d_max)
   and (data healthy) the battery is UNCERTAIN in the same step. *)
Theorem C16_backoff : forall c s now sp,
  wf_cfg c -> refines c (st_blk s) sp ->
  st_last s <> NotWorking -> is_blocked now (st_blk s) = false ->
  let s' := fst (step c s now (SetPower false true)) in
  let k := S (sp_k sp) in
  spec_effect c s s' now (SetPower false true) sp
    = mkSp k (Some (now + Z.min (2 ^ (Z.of_nat k - 1) * c_dmin c) (c_dmax c))) /\
  b_until (st_blk s') = Some (now + Z.min (2 ^ (Z.of_nat k - 1) * c_dmin c) (c_dmax c)) /\
  st_last s' = (if both_ok s then Uncertain else NotWorking).
Proof. exact backoff_failure. Qed.

Theorem C16_failure_while_blocked_changes_nothing : forall c s now,
  st_last s <> NotWorking -> is_blocked now (st_blk s) = true ->
  st_blk (fst (step c s now (SetPower false true))) = st_blk s.
Proof. exact failure_while_blocked. Qed.

Theorem C16_success_resets : forall c s now b sp,
  let s' := fst (step c s now (SetPower true b)) in
  b_until (st_blk s') = None /\ spec_effect c s s' now (SetPower true b) sp = spec0.
Proof. exact success_resets. Qed.

Theorem C16_data_events_keep_blocking : forall c s now e,
  (forall a b, e <> SetPower a b) -> st_last s <> NotWorking ->
  st_blk (fst (step c s now e)) = st_blk s.
Proof. exact data_events_keep_blocking. Qed.

(* A set-power result that mentions the battery in neither set (it received no command) leaves
   its blocking deadline, last blocking duration, failure streak and data flags untouched,
   after every history. *)
Theorem C16_not_mentioned_keeps_blocking : forall c ts0 tr now sp,
  let s := final c (init c ts0) tr in
  let s' := fst (step c s now (SetPower false false)) in
  st_blk s' = st_blk s /\ spec_effect c s s' now (SetPower false false) sp = sp /\
  st_bat s' = st_bat s /\ st_inv s' = st_inv s.
Proof. exact not_mentioned_keeps_blocking. Qed.

(* NOTIFICATIONS ONLY ON CHANGE: consecutive notifications differ, and the first one differs
   from the initial NOT_WORKING. *)
Theorem C16_only_on_change : forall c ts0 tr,
  no_repeat NotWorking (notifications (outputs c (init c ts0) tr)).
Proof. exact only_on_change. Qed.

(* POOL: after any sequence of status notifications, a returned component was requested and
   its latest status is WORKING, or it is UNCERTAIN and no requested component is WORKING;
   and nothing usable is withheld. *)
Theorem C16_pool : forall ms comps id,
  In id (get_working_components (pool_run pool_init ms) comps) ->
  In id comps /\
  (latest ms id = Working \/
   (latest ms id = Uncertain /\ forall id', In id' comps -> latest ms id' <> Working)).
Proof. exact pool_fallback. Qed.

Theorem C16_pool_complete : forall ms comps id,
  In id comps ->
  (latest ms id = Working -> In id (get_working_components (pool_run pool_init ms) comps)) /\
  (latest ms id = Uncertain -> (forall id', In id' comps -> latest ms id' <> Working) ->
   In id (get_working_components (pool_run pool_init ms) comps)).
Proof. exact pool_complete. Qed.

(* non-vacuity, with the constants of the code (10 s data age, 1 s .. 30 s blocking):
   healthy pair -> WORKING; failure -> UNCERTAIN; probe after the deadline -> WORKING;
   second failure blocks 2 s; critical error -> NOT_WORKING; silence -> NOT_WORKING *)
Example C16_nonvacuous :
  let c := mkC default_max_data_age_us min_blocking_duration_us default_max_blocking_duration_us in
  let b := fun ts => BatMsg (mkBM ts "CHARGING" "CLOSED" ["WARN"] true) in
  let i := fun ts => InvMsg (mkIM ts "IDLE" []) in
  let tr := [(0, b 0); (0, i 0); (1000, SetPower false true); (500000, b 500000); (1001000, i 1001000);
             (1002000, SetPower false true); (3001999, b 3001999); (3002000, i 3002000);
             (3003000, BatMsg (mkBM 3003000 "CHARGING" "CLOSED" ["CRITICAL"] true)); (3004000, b 3004000);
             (13002000, InvTimer); (13004000, BatTimer)] in
  wf_cfg c /\
  notifications (outputs c (init c (-5)) tr)
    = [Working; Uncertain; Working; Uncertain; Working; NotWorking; Working; NotWorking] /\
  last_reported (outputs c (init c (-5)) (firstn 8 tr)) = Working /\
  streak c (-5) (firstn 6 tr) = mkSp 2 (Some 3002000) /\
  get_working_components (pool_run pool_init [(1, Working); (2, Uncertain); (1, NotWorking)]) [1; 2; 3] = [2].
Proof.
  cbn zeta. split; [unfold wf_cfg, min_blocking_duration_us, default_max_blocking_duration_us; cbn [c_dmin c_dmax]; lia|]. repeat split; vm_compute; reflexivity.
Qed.

Print Assumptions C16_reported_is_last_status.
Print Assumptions C16_safe.
Print Assumptions C16_battery_message_predicates.
Print Assumptions C16_inverter_message_predicates.
Print Assumptions C16_tables.
Print Assumptions C16_immediate.
Print Assumptions C16_uncertain.
Print Assumptions C16_recover.
Print Assumptions C16_blocking_status_as_translated.
Print Assumptions C16_backoff_invariant.
Print Assumptions C16_backoff.
Print Assumptions C16_failure_while_blocked_changes_nothing.
Print Assumptions C16_success_resets.
Print Assumptions C16_data_events_keep_blocking.
Print Assumptions C16_not_mentioned_keeps_blocking.
Print Assumptions C16_only_on_change.
Print Assumptions C16_pool.
Print Assumptions C16_pool_complete.
