(* C19 — Formulas switch to fallback components when a primary meter fails.
   Statements only; every proof is `exact <lemma>` from proofs/FallbackFacts.v.

   [fetch_n fuel c st]: what c successive MetricFetcher.fetch_next() calls return, as a function of the
   CONTENTS of the primary and fallback streams (model/Fallback.v).  [samples l closed] is a stream that
   delivers exactly the samples l (then blocks, or -- closed -- raises ReceiverStoppedError).
   [sgrid d t l]: l is consecutive with step d from timestamp t.  The fallback formula is started lazily,
   the grid point at which its stream begins is arbitrary (universally quantified: z / lag below).

   PARTIAL: delivery order and blocking are runtime behaviour (the fetcher is modelled as a function of
   stream contents; tools/harness/c19.py tests that against random interleavings).  The theorems are about
   grid streams without receiver errors inside the fallback; other contents are covered by the
   correspondence only. *)
From Coq Require Import Lia.
From Verif Require Import model.Fallback proofs.FallbackFacts.

(* a valid primary sample is used immediately: whenever fetch_next returns it returns that very sample
   (it can only be held up, never replaced -- and not even held up while the fallback is not running) *)
Theorem C19_return : forall fuel s p pr,
  recv (prim s) = RSmp p pr -> valid (snd p) = true ->
  (fetch_next fuel s = FBlock /\ running s = true) \/ exists s', fetch_next fuel s = FRet (Some p) s'.
Proof. exact fetch_valid_primary. Qed.

(* once fallback_ts <= primary_ts has held (the fallback runs, its latest sample l is not after the next
   primary sample: 0 <= z), the k-th later primary sample p yields p if valid, else the fallback sample x
   of the same timestamp -- stamped fst p either way *)
Theorem C19_value : forall d (ps : list smp) z (l : smp) (fs : list smp) pc fc fuel T0 k (p : smp),
  0 < d -> sgrid d (fst l + d) fs -> sgrid d T0 ps -> T0 = fst l + z * d -> 0 <= z ->
  z + Z.of_nat (length ps) <= Z.of_nat (length (l :: fs)) -> (length fs <= fuel)%nat ->
  nth_error ps k = Some p ->
  exists x, nth_error (l :: fs) (Z.to_nat (z + Z.of_nat k)) = Some x /\ fst x = fst p /\
    nth_error (fetch_n fuel (length ps) (mkF true (Some l) (samples ps pc) (samples fs fc))) k =
      Some (ORet (Some (if valid (snd p) then p else x))).
Proof. exact value_after_sync. Qed.

(* the same-timestamp clause on the value-failure path, for ANY stream contents (gaps on either side,
   any lag): while the fallback runs and the primary delivers a sample p, what fetch_next returns is p
   itself or a (fallback) sample carrying p's timestamp -- never a sample of another timestamp *)
Theorem C19_same_timestamp : forall fuel s p pr o s',
  running s = true -> recv (prim s) = RSmp p pr ->
  fetch_next fuel s = FRet (Some o) s' -> o = p \/ fst o = fst p.
Proof. exact fallback_sample_same_ts. Qed.

(* the catch-up loop: whenever it ends normally the cached fallback sample is not older than the
   primary sample, whatever the lag was ... *)
Theorem C19_catch_up_reaches : forall fuel pts l f l' f',
  catch_up fuel pts l f = CSome l' f' -> pts <= fst l'.
Proof. exact catch_up_reaches. Qed.

(* ... and on a gap-free fallback stream q steps behind (every q, not just 1) it ends exactly on the
   sample of the primary's timestamp, having consumed q samples *)
Theorem C19_catch_up_any_lag : forall d (q : nat) fuel pts (l : smp) (fs : list smp) c,
  0 < d -> sgrid d (fst l + d) fs -> pts = fst l + Z.of_nat q * d ->
  (q <= length fs)%nat -> (q <= fuel)%nat ->
  catch_up fuel pts l (samples fs c) = CSome (nth q (l :: fs) dflt) (samples (skipn q fs) c).
Proof. exact catch_up_grid. Qed.

(* bounded start-up: p0 is the first invalid primary sample (it starts the fallback and is passed
   through); the fallback's first sample x0 lies lag steps after p0.  Every primary sample k+1 steps after
   p0 with lag <= k+1 already yields primary-if-valid-else-fallback of its own timestamp: an invalid
   primary is passed through for at most lag + 1 timestamps. *)
Theorem C19_startup : forall d (p0 : smp) (ps : list smp) (x0 : smp) (fs : list smp) pc fc fuel (lag k : nat) (p : smp),
  0 < d -> valid (snd p0) = false ->
  sgrid d (fst p0 + d) ps -> sgrid d (fst x0 + d) fs ->
  fst x0 = fst p0 + Z.of_nat lag * d ->
  (length ps + 1 <= lag + length (x0 :: fs))%nat -> (length fs <= fuel)%nat ->
  (lag <= S k)%nat -> nth_error ps k = Some p ->
  exists x, In x (x0 :: fs) /\ fst x = fst p /\
    nth_error (fetch_n fuel (S (length ps)) (fetcher_init (samples (p0 :: ps) pc) (samples (x0 :: fs) fc))) (S k) =
      Some (ORet (Some (if valid (snd p) then p else x))).
Proof. exact startup_bound. Qed.

(* after the primary STREAM fails the term is exactly the rest of the fallback stream ... *)
Theorem C19_closed : forall fuel (c : nat) lat fs fc,
  (c <= length fs)%nat ->
  fetch_n fuel c (mkF true lat (samples [] true) (samples fs fc)) = map (fun x => ORet (Some x)) (firstn c fs).
Proof. exact closed_follows_fallback. Qed.

(* ... after one call without a sample if the fallback had never been needed before *)
Theorem C19_closed_not_started : forall fuel (c : nat) fs fc,
  (c <= length fs)%nat ->
  fetch_n fuel (S c) (fetcher_init (samples [] true) (samples fs fc)) =
    ORet None :: map (fun x => ORet (Some x)) (firstn c fs).
Proof. exact closed_starts_fallback. Qed.

(* Same-timestamp part of the property on this path, [stamps_follow d t_end outs]: the k-th sample
   returned after the failure at t_end is stamped t_end + (k+1)*d (what the other terms of the formula
   have in that round).  It holds when the fallback had been synchronised with the primary's last sample
   (negated trigger of the known finding C19-stream-failure-unaligned) ... *)
Theorem C19_closed_same_timestamp_partial : forall d fuel c (l : smp) (fs : list smp) fc,
  sgrid d (fst l + d) fs -> (c <= length fs)%nat ->
  stamps_follow d (fst l) (fetch_n fuel c (mkF true (Some l) (samples [] true) (samples fs fc))).
Proof. exact closed_synchronised. Qed.

(* ... and is refuted in general: valid grid streams, primary stops after its sample at 0, the fallback
   (never needed before) begins at 1 instead of 2. *)
Theorem C19_closed_same_timestamp_refuted :
  exists fuel ps fs, sgrid 1 0 ps /\ sgrid 1 1 fs /\ Forall (fun x => valid (snd x) = true) (ps ++ fs) /\
    ~ stamps_follow 1 0 (skipn (length ps) (fetch_n fuel 4 (fetcher_init (samples ps true) (samples fs false)))).
Proof. exact closed_unaligned_refuted. Qed.

(* non-vacuity: primary valid, None, None, valid; fallback started two steps after the first None *)
Example C19_nonvacuous :
  fetch_n 9 5 (fetcher_init (samples [(0, V 1); (1, Inv 0); (2, Inv 1); (3, Inv 0); (4, V 5)] false)
                            (samples [(3, V 30); (4, V 40)] false))
  = [ORet (Some (0, V 1)); ORet (Some (1, Inv 0)); ORet (Some (2, Inv 1)); ORet (Some (3, V 30)); ORet (Some (4, V 5))].
Proof. vm_compute. reflexivity. Qed.

Print Assumptions C19_return.
Print Assumptions C19_value.
Print Assumptions C19_same_timestamp.
Print Assumptions C19_catch_up_reaches.
Print Assumptions C19_catch_up_any_lag.
Print Assumptions C19_startup.
Print Assumptions C19_closed.
Print Assumptions C19_closed_not_started.
Print Assumptions C19_closed_same_timestamp_partial.
Print Assumptions C19_closed_same_timestamp_refuted.
