(* C17 — Power inside a pool's advertised bounds is never rejected as out of bounds.
   Statements only; every proof is `exact <lemma>` from proofs/.

   gs      : any list of battery groups with complete data (batteries' bounds, inverters' bounds);
             groups may overlap, the grouping is the parameter both code paths share
   advertised (map wrap gs)       = PowerBoundsCalculator.calculate on that data
   enforced (map pair_of gs)      = BatteryManager._get_bounds on the InvBatPairs of the same groups
   check_request adjust bounds p  = BatteryManager._check_request (true = not OutOfBounds) *)
From Coq Require Import QArith List Lqa.
From Verif Require Import model.Common model.PoolBounds proofs.PoolBoundsNum proofs.PoolBoundsFacts proofs.PoolBoundsKeyed.
Import ListNotations.
Open Scope Q_scope.

(* The calculator advertises bounds exactly when there is a group, and they are the per-group
   max/min of battery and inverter bounds, summed over the groups. *)
Theorem C17_advertised_shape : forall gs, Forall wf_group gs ->
  match advertised (map wrap gs) with
  | Some a => gs <> [] /\ pb_eq a (adv_sum gs)
  | None => gs = []
  end.
Proof. exact advertised_complete. Qed.

(* The inclusion bounds advertised and enforced are identical. *)
Theorem C17_incl_equal : forall gs a, Forall wf_group gs -> advertised (map wrap gs) = Some a ->
  il a == il (enforced (map pair_of gs)) /\ iu a == iu (enforced (map pair_of gs)).
Proof. exact incl_equal. Qed.

(* The enforced exclusion zone lies inside the advertised one. *)
Theorem C17_excl_dominates : forall gs a, Forall wf_group gs -> advertised (map wrap gs) = Some a ->
  el a <= el (enforced (map pair_of gs)) /\ eu (enforced (map pair_of gs)) <= eu a.
Proof. exact excl_dominates. Qed.

(* Any power (zero or not) within the advertised inclusion bounds and outside - or on the edge
   of - the advertised exclusion zone is accepted, with and without adjust_power. *)
Theorem C17_accept : forall gs a, Forall wf_group gs -> advertised (map wrap gs) = Some a ->
  forall p adjust, il a <= p <= iu a -> (p <= el a \/ eu a <= p) ->
  check_request adjust (enforced (map pair_of gs)) p = true.
Proof. exact accept. Qed.

(* ... and so is the answer of the manager's entry point _get_distribution: never OutOfBounds,
   whatever adjust_power says and whatever remainder the distribution leaves. *)
Theorem C17_accept_entry : forall gs a, Forall wf_group gs -> advertised (map wrap gs) = Some a ->
  forall p adjust rem, il a <= p <= iu a -> (p <= el a \/ eu a <= p) ->
  get_distribution_kind adjust (enforced (map pair_of gs)) p rem = DDistributed rem.
Proof. exact accept_entry. Qed.

(* ... in particular every power that `in SystemBounds` admits. *)
Theorem C17_accept_contains : forall gs a, Forall wf_group gs -> advertised (map wrap gs) = Some a ->
  forall p adjust, adv_contains (Some a) p = true ->
  check_request adjust (enforced (map pair_of gs)) p = true.
Proof. exact accept_contains. Qed.

(* Such a power is at least the sum of the groups' minimum powers in its direction, each
   group's minimum power computed from its own data (any grouping; consistent inverter data:
   exclusion_lower <= 0 <= exclusion_upper). *)
Theorem C17_min_powers : forall gs a p,
  Forall wf_group gs -> Forall wf_inverters gs -> advertised (map wrap gs) = Some a ->
  il a <= p <= iu a -> (p <= el a \/ eu a <= p) ->
  (0 < p -> qsum (map min_power_up (map pair_of gs)) <= p) /\
  (p < 0 -> qsum (map min_power_down (map pair_of gs)) <= - p).
Proof. exact min_powers. Qed.

(* The same for the minimum powers as the distribution algorithm stores them (one dict keyed by
   component id, a group identified by its first battery): PARTIAL - holds when no component id
   is written twice, i.e. for disjoint groups (every topology in which inverter sharing
   partitions the batteries) ... *)
Theorem C17_min_powers_partial : forall (igs : list igroup) a p,
  NoDup (flat_map keys_of (map ipair_of igs)) ->
  Forall wf_group (map cg_of igs) -> Forall wf_inverters (map cg_of igs) ->
  advertised (map wrap (map cg_of igs)) = Some a ->
  il a <= p <= iu a -> (p <= el a \/ eu a <= p) ->
  (0 < p -> min_power_keyed true (map ipair_of igs) <= p) /\
  (p < 0 -> min_power_keyed false (map ipair_of igs) <= - p).
Proof. exact min_powers_keyed. Qed.

(* ... and fails for overlapping battery sets (known finding C17-overlapping-battery-sets):
   47 W is advertised and accepted, the stored minimum powers add up to 72 W. *)
Theorem C17_min_powers_refuted_overlapping : exists (igs : list igroup) a p,
  Forall wf_group (map cg_of igs) /\ Forall wf_inverters (map cg_of igs) /\
  advertised (map wrap (map cg_of igs)) = Some a /\
  il a <= p <= iu a /\ (p <= el a \/ eu a <= p) /\ 0 < p /\
  (forall adjust, check_request adjust (enforced (map pair_of (map cg_of igs))) p = true) /\
  ~ min_power_keyed true (map ipair_of igs) <= p.
Proof. exact min_powers_refuted_overlapping. Qed.

(* the zero test of _check_request is |p| <= the translated tolerance *)
Theorem C17_zero_test : forall v, is_close_to_zero v = true <-> Qabs.Qabs v <= Pool.is_close_to_zero_abs_tol.
Proof. exact is_close_to_zero_spec. Qed.

(* non-vacuity: two groups whose battery / inverter exclusion bounds dominate alternately;
   advertised exclusion (-200, 200) strictly contains the enforced one (-100, 100); 200 W is
   advertised and accepted, 150 W is not advertised (and still accepted by the manager) *)
Example C17_nonvacuous :
  let g1 := ([mkPB (-1000) (-100) 100 1000], [mkPB (-1000) 0 0 1000]) in
  let g2 := ([mkPB (-1000) 0 0 1000], [mkPB (-1000) (-100) 100 1000]) in
  let gs := [g1; g2] in
  Forall wf_group gs /\ Forall wf_inverters gs /\
  pb_eqb (default (mkPB 0 0 0 0) (advertised (map wrap gs))) (mkPB (-2000) (-200) 200 2000) = true /\
  pb_eqb (enforced (map pair_of gs)) (mkPB (-2000) (-100) 100 2000) = true /\
  adv_contains (advertised (map wrap gs)) 201 = true /\
  adv_contains (advertised (map wrap gs)) 150 = false /\
  check_request false (enforced (map pair_of gs)) 200 = true /\
  check_request false (enforced (map pair_of gs)) 50 = false.
Proof.
  cbv zeta. repeat split; try (vm_compute; reflexivity).
  - apply Forall_cons; [|apply Forall_cons; [|apply Forall_nil]]; split; cbn; congruence.
  - apply Forall_cons; [|apply Forall_cons; [|apply Forall_nil]]; intros i [<-|[]]; split; cbn; lra.
Qed.

Print Assumptions C17_advertised_shape.
Print Assumptions C17_incl_equal.
Print Assumptions C17_excl_dominates.
Print Assumptions C17_accept.
Print Assumptions C17_accept_entry.
Print Assumptions C17_accept_contains.
Print Assumptions C17_min_powers.
Print Assumptions C17_min_powers_partial.
Print Assumptions C17_min_powers_refuted_overlapping.
Print Assumptions C17_zero_test.
