(* C17 — placeholder during development *)
From Coq Require Import QArith List.
From Verif Require Import model.PoolBounds.
Example C17_dev : advertised nil = None.
Proof. reflexivity. Qed.
Print Assumptions C17_dev.
