(* C13 — Missing formula inputs propagate as None, or count as zero on request.
   Statements only; every proof is `exact <lemma>` from proofs/.

   Model: model/Formula.v (repaired tree).  Before the two `fix:` commits both statements below
   that mention max/min and division were false for the code (kept here as remarks only):
     C13_max_refuted_before_fix : a.max(b) with b missing emitted a   (Python: max(a, nan) = a)
     C13_div_refuted_before_fix : a / b with b = 0 raised, the engine loop swallowed the
                                  exception and NO sample was sent for that timestamp. *)
From Coq Require Import NArith QArith List.
From Verif Require Import model.Common gen.Formula model.Formula proofs.FormulaFacts proofs.FormulaHO proofs.FormulaNaN proofs.FormulaSY proofs.FormulaSteps.
Import ListNotations.
Local Open Scope Q_scope.

(* The step semantics of the model is the `apply` body of each step class as TRANSLATED from
   _formula_steps.py on this run (gen/Formula.v), instantiated with the model's value operations
   [vops rnd] (IEEE-style add/sub/mul, division raising on a zero divisor, Python < and ==). *)
Theorem C13_steps_as_translated : forall rnd fv st,
  Adder_apply (vops rnd) st = exec_step rnd fv SAdd st /\
  Subtractor_apply (vops rnd) st = exec_step rnd fv SSub st /\
  Multiplier_apply (vops rnd) st = exec_step rnd fv SMul st /\
  Divider_apply (vops rnd) st = exec_step rnd fv SDiv st /\
  Maximizer_apply (vops rnd) st = exec_step rnd fv SMax st /\
  Minimizer_apply (vops rnd) st = exec_step rnd fv SMin st /\
  Consumption_apply (vops rnd) st = exec_step rnd fv SCons st /\
  Production_apply (vops rnd) st = exec_step rnd fv SProd st /\
  (forall lo hi, Clipper_apply (vops rnd) lo hi st = exec_step rnd fv (SClip lo hi) st) /\
  (forall c, ConstantValue_apply (vops rnd) c st = exec_step rnd fv (SConst c) st).
Proof. exact steps_as_translated. Qed.

(* Every operator, either operand position, every rounding function: NaN in => NaN out. *)
Theorem C13_nan_left_op : forall rnd o b, happ rnd o NaN b = NaN.
Proof. exact happ_nan_l. Qed.
Theorem C13_nan_right_op : forall rnd o a, happ rnd o a NaN = NaN.
Proof. exact happ_nan_r. Qed.
Theorem C13_nan_unary : forall u, hunapp u NaN = NaN.
Proof. exact hunapp_nan. Qed.
Theorem C13_nan_clip : forall lo hi, vclip lo hi NaN = NaN.
Proof. exact vclip_nan. Qed.
(* a zero divisor makes the quotient undefined (NaN), whatever the dividend *)
Theorem C13_zero_divisor : forall rnd a y, Qeq y 0 -> vdiv rnd a (Num y) = NaN.
Proof. exact vdiv_zero. Qed.

(* Through ANY post-fix program (any mix of the eleven step kinds, Clipper included): once a
   fetcher pushed NaN, a NaN is still on the stack at the end, so no number can be emitted. *)
Theorem C13_nan_reaches_result : forall rnd fv p n, In (SFetch n) p -> fv n = NaN ->
  forall st st', exec rnd fv p st = Some st' -> has_nan st'.
Proof. exact exec_fetch_nan. Qed.

(* MetricFetcher: the four encodings of "missing" are treated alike *)
Theorem C13_fetch_missing_zero : forall i, missing i = true -> fetch_val true i = Num 0.
Proof. exact fetch_zero. Qed.
Theorem C13_fetch_missing_nan : forall i, missing i = true -> fetch_val false i = NaN.
Proof. exact fetch_nan. Qed.

(* Formulas built through the operator API (any tree, any constants, any rounding): *)
Theorem C13_always_emits : forall rnd nz b env, run_round rnd (compile_hb nz b) env <> Dropped.
Proof. exact hb_always_emits. Qed.

Theorem C13_none_iff : forall rnd nz b env,
  run_round rnd (compile_hb nz b) env = Emit None <->
  needed_missing nz env b \/ not_finite (hval rnd (fun n => Num (numval (env n))) b).
Proof. exact hb_none_iff. Qed.

Theorem C13_value_otherwise : forall rnd nz b env, ~ needed_missing nz env b ->
  run_round rnd (compile_hb nz b) env = finish (Some [hval rnd (fun n => Num (numval (env n))) b]).
Proof. exact hb_value. Qed.

Theorem C13_missing_is_zero : forall rnd b env,
  run_round rnd (compile_hb true b) env = run_round rnd (compile_hb true b) (fun n => IVal (numval (env n))).
Proof. exact hb_missing_is_zero. Qed.

(* Formula strings (exact arithmetic): a sample for every round; None exactly when the ordinary
   value of the expression is undefined, i.e. a needed input is missing on a stream not configured
   as zero ([fetch_D false] = undefined) or a divisor is zero; with nones_are_zeros a missing input
   is 0 ([fetch_D true] = Some 0). *)
Theorem C13_string : forall nz e env,
  outcome_equiv (run_round Num (compile nz (pp 0 e)) env)
                (Emit (evalD (fun n => fetch_D nz (env n)) e)).
Proof. exact string_round. Qed.

(* non-vacuity: max with the SECOND operand missing, and a zero divisor, on concrete formulas *)
Example C13_nonvacuous :
  let env := fun n => if N.eqb n 0%N then IVal 5 else if N.eqb n 1%N then INaN else IVal 0 in
  run_round Num (compile_hb false (HPushE (HStart 0%N) HMax 1%N)) env = Emit None /\
  run_round Num (compile_hb true (HPushE (HStart 0%N) HMax 1%N)) env = Emit (Some 5) /\
  run_round Num (compile_hb false (HPushE (HStart 0%N) (HB Div) 2%N)) env = Emit None /\
  run_round Num (compile_hb false (HPushE (HStart 0%N) (HB Sub) 2%N)) env = Emit (Some (5 - 0)).
Proof. vm_compute. repeat split. Qed.

Print Assumptions C13_steps_as_translated.
Print Assumptions C13_nan_left_op.
Print Assumptions C13_nan_right_op.
Print Assumptions C13_nan_unary.
Print Assumptions C13_nan_clip.
Print Assumptions C13_zero_divisor.
Print Assumptions C13_nan_reaches_result.
Print Assumptions C13_fetch_missing_zero.
Print Assumptions C13_fetch_missing_nan.
Print Assumptions C13_always_emits.
Print Assumptions C13_none_iff.
Print Assumptions C13_value_otherwise.
Print Assumptions C13_missing_is_zero.
Print Assumptions C13_string.
