(* C11 — Distributed power = regular target + operating-point target, in bounds.
   Statements only; every proof is `exact <lemma>` from proofs/. *)
From Coq Require Import Lia.
From Verif Require Import model.PowerManager model.PowerManagerN proofs.MatryoshkaFacts proofs.PowerManagerFacts
  proofs.PowerManagerNFacts.

(* For EVERY history of proposals (regular / operating point), bounds updates (each containing
   zero), distribution results and expiry ticks, starting from the initial state: every request
   sent equals the sum of the two stored targets of the state it was sent from (absent group
   = 0) and lies within the system inclusion bounds in force. *)
Theorem C11_sum_and_bounds : forall ma_reg ma_op h,
  Forall wf_event h ->
  Forall (fun '(st', x) =>
            x = opt0 (g_target (pm_reg st')) + opt0 (g_target (pm_op st')) /\ incl_ok (pm_sys st') x)
         (requests ma_reg ma_op pm_init h).
Proof. intros. apply requests_ok; [exact pm_init_inv|assumption]. Qed.

(* one step, from any state satisfying the invariant *)
Theorem C11_step : forall ma1 ma2 st e,
  PMinv st -> wf_event e ->
  let '(st', r, _) := pstep ma1 ma2 st e in PMinv st' /\ req_ok st' r.
Proof. exact pstep_inv. Qed.

(* the reports published after the request carry exactly those stored targets *)
Theorem C11_reports_current : forall st q1 q2,
  r_reg_target (reports st q1 q2) = g_target (pm_reg st) /\
  r_op_target (reports st q1 q2) = g_target (pm_op st).
Proof. exact reports_carry_targets. Qed.

Theorem C11_tick_coalescing_sound : forall ma n1 n2 b, n1 <= n2 ->
  bucket_expire ma n2 (bucket_expire ma n1 b) = bucket_expire ma n2 b.
Proof. exact expire_expire. Qed.

(* the `bursts` correspondence stream replays recorded handler orders with dynamic report
   subscriptions through prun2; its requests are exactly those of the pstep sequence, so
   C11_sum_and_bounds applies to every such replay *)
Theorem C11_subscriptions_do_not_influence_requests : forall ma1 ma2 h sb st,
  somes (map fst (prun2 ma1 ma2 sb st h)) = map snd (requests ma1 ma2 st (strip h)).
Proof. intros. apply prun2_requests. Qed.

(* What the actors are told is what is in force: after EVERY history the last request sent equals
   the sum of the two stored targets (the ones every report carries, C11_reports_current), unless no
   target exists yet.  In particular a target can never be reported without a request carrying
   it having been sent. *)
Theorem C11_reported_targets_are_in_force : forall ma_reg ma_op h,
  let '(st', last) := run_last ma_reg ma_op pm_init None h in
  told st' = None \/ told st' = last.
Proof. intros. apply told_in_force. left. reflexivity. Qed.

Theorem C11_step_sends_what_is_told : forall ma1 ma2 st e,
  let '(st', r, _) := pstep ma1 ma2 st e in
  match r with Some x => told st' = Some x | None => told st' = told st end.
Proof. exact pstep_told. Qed.

(* SEVERAL component groups served by one actor (model/PowerManagerN.v: per-group state, the
   shared partial-failure flag, the timer sweeping every bucket).  For every history over any
   number of groups: every request sent for group k equals the sum of group k's two stored
   targets and lies within group k's inclusion bounds in force. *)
Theorem C11_multi_group_sum_and_bounds : forall ma_reg ma_op n h,
  Forall wf_nevent h ->
  Forall (fun '(st', k, x) =>
            exists g, nth_error (n_groups st') k = Some g /\
                      x = opt0 (g_target (pm_reg g)) + opt0 (g_target (pm_op g)) /\ incl_ok (pm_sys g) x)
         (nrequests ma_reg ma_op (pmn_init n) h).
Proof. intros. apply nrequests_ok; [apply pmn_init_inv|assumption]. Qed.

(* an event concerning group k leaves every other group's proposals, stored targets and bounds
   untouched (only the partial-failure flag is shared) *)
Theorem C11_groups_independent : forall ma1 ma2 st k e j,
  j <> k -> nth_error (n_groups (fst (nstep ma1 ma2 st (NE k e)))) j = nth_error (n_groups st) j.
Proof. exact nstep_other_groups. Qed.

Theorem C11_tick_keeps_targets : forall ma1 ma2 st now j g,
  nth_error (n_groups st) j = Some g ->
  exists g', nth_error (n_groups (fst (nstep ma1 ma2 st (NTick now)))) j = Some g' /\
             g_target (pm_reg g') = g_target (pm_reg g) /\ g_target (pm_op g') = g_target (pm_op g) /\
             pm_sys g' = pm_sys g.
Proof. exact ntick_keeps_targets. Qed.

(* stop() followed by start() of the manager keeps every group's proposals, stored targets and cached bounds *)
Theorem C11_restart_keeps_groups : forall ma1 ma2 st, n_groups (fst (nstep ma1 ma2 st NRestart)) = n_groups st.
Proof. exact nrestart_keeps_groups. Qed.

Example C11_multi_group_nonvacuous :
  let h := [NE 0 (PBounds (mkS (Some (-100, 100)) None)); NE 1 (PBounds (mkS (Some (-50, 50)) None));
            NE 0 (PProp true (mkP 1 0 (Some 70) None None 0)); NE 1 (PProp false (mkP 1 0 (Some 80) None None 0));
            NE 0 (PProp false (mkP 1 0 (Some 20) None None 0)); NE 0 (PResult 1); NE 1 (PResult 1)] in
  Forall wf_nevent h /\
  map (fun '(_, k, x) => (k, x)) (nrequests 60000000 60000000 (pmn_init 2) h) = [(0%nat, 70); (1%nat, 50); (0%nat, 90); (0%nat, 90)].
Proof.
  split; [repeat constructor; cbn; lia|vm_compute; reflexivity].
Qed.

(* FINDING F7 (repaired by the `fix:` commit in /repo): the behaviour before the fix treated a
   group whose target did not change as absent.  Witness: op target 70, regular target 20,
   bounds shrink to [-100, 60]: the request was 60 while the stored targets are 20 + 60. *)
Theorem C11_F7_before_fix_refuted :
  exists st, PMinv st /\
    let '(st', r) := calc_total_before_fix st false in
    exists x, r = Some x /\ x <> opt0 (g_target (pm_reg st')) + opt0 (g_target (pm_op st')).
Proof.
  exists (mkPM (mkG true [mkP 1 0 (Some 20) None None 0] (Some 20))
               (mkG true [mkP 1 0 (Some 70) None None 0] (Some 70))
               (mkS (Some (-100, 60)) None) false).
  split; [repeat split; cbn; try discriminate; lia|].
  vm_compute. exists 60. split; [reflexivity|discriminate].
Qed.

(* non-vacuity: the same situation under the repaired logic *)
Example C11_nonvacuous :
  let h := [PBounds (mkS (Some (-100, 100)) None); PProp true (mkP 1 0 (Some 70) None None 0);
            PProp false (mkP 1 0 (Some 20) None None 0); PBounds (mkS (Some (-100, 80)) None)] in
  Forall wf_event h /\
  map snd (requests 60000000 60000000 pm_init h) = [70; 90; 80].
Proof.
  split; [repeat constructor; cbn; lia|vm_compute; reflexivity].
Qed.

Print Assumptions C11_sum_and_bounds.
Print Assumptions C11_step.
Print Assumptions C11_reports_current.
Print Assumptions C11_tick_coalescing_sound.
Print Assumptions C11_subscriptions_do_not_influence_requests.
Print Assumptions C11_reported_targets_are_in_force.
Print Assumptions C11_step_sends_what_is_told.
Print Assumptions C11_multi_group_sum_and_bounds.
Print Assumptions C11_groups_independent.
Print Assumptions C11_tick_keeps_targets.
Print Assumptions C11_restart_keeps_groups.
Print Assumptions C11_F7_before_fix_refuted.
