(* C10 — actors restart after failures, only after failures, and stop cleanly.
   Statements only; proofs are in proofs/ActorLoopFacts.v and proofs/ActorServiceFacts.v.
   Loop theorems quantify over ALL sequences of loop events (cancel requests, deliveries,
   outcomes of _run at any time), service theorems over ALL sequences of global events
   accepted by the model (any number of actors, tasks, concurrent wait/stop/run calls).
   RESTART_DELAY is the constant translated from /repo (gen/Actor.v). *)
From Coq Require Import Lia.
From Verif Require Import model.Actor proofs.ActorLoopFacts proofs.ActorServiceFacts.

(* ---- restart policy of one _run_loop task ---- *)

(* the run logic is invoked 1 + min(#runs that raised an Exception, limit) times (limit None =
   unbounded) when the loop ended through an outcome of _run ... *)
Theorem C10_restart_count : forall limit delay t0 tr o,
  lrun limit delay (Delay 0 t0 false) tr = Some (Ended o) ->
  count is_delay_cancel tr = 0%nat ->
  count is_enter tr = S (min_limit (count is_exc tr) limit).
Proof. exact restart_count. Qed.

(* ... and once per failure so far when it was cancelled while waiting to (re)start *)
Theorem C10_restart_count_cancelled_in_delay : forall limit delay t0 tr o,
  lrun limit delay (Delay 0 t0 false) tr = Some (Ended o) ->
  count is_delay_cancel tr <> 0%nat ->
  o = Cancelled /\ count is_enter tr = count is_exc tr /\ le_limit (count is_exc tr) limit.
Proof. exact restart_count_cancelled. Qed.

(* the counts in every reachable state (running: one more invocation than failures) *)
Theorem C10_restart_count_any_state : forall limit delay t0 tr s,
  lrun limit delay (Delay 0 t0 false) tr = Some s -> loop_inv limit tr s.
Proof. intros. eapply loop_inv_run; eassumption. Qed.

(* a failure within the limit schedules a restart *)
Theorem C10_restart_after_exception : forall limit delay n p t,
  may_restart limit n = true -> lstep limit delay (Running n p) t (LExit Exc) = Some (Delay (S n) t p).
Proof. exact restart_after_exception. Qed.

(* ... exactly when the restarts already consumed are BELOW the limit in force at that failure
   (`self._restart_limit` is read at every failure and may have been changed meanwhile); at or beyond
   it the failure is final *)
Theorem C10_restart_budget : forall limit n,
  may_restart limit n = true <-> match limit with None => True | Some l => (n < l)%nat end.
Proof. exact may_restart_spec. Qed.

Theorem C10_no_restart_without_budget : forall limit delay n p t,
  may_restart limit n = false -> lstep limit delay (Running n p) t (LExit Exc) = Some (Ended Exc).
Proof. exact no_restart_without_budget. Qed.

(* a normal return, a cancellation and a BaseException are final: never re-invoked *)
Theorem C10_no_restart_after : forall limit delay s0 tr1 t o tr2 s,
  lrun limit delay s0 (tr1 ++ (t, LExit o) :: tr2) = Some s -> o <> Exc ->
  s = Ended o /\ count is_enter tr2 = 0%nat.
Proof. exact no_restart_after. Qed.

Theorem C10_no_restart_beyond_limit : forall delay l p t tr2 s,
  lrun (Some l) delay (Running l p) ((t, LExit Exc) :: tr2) = Some s ->
  s = Ended Exc /\ count is_enter tr2 = 0%nat.
Proof. exact no_restart_beyond_limit. Qed.

(* never twice concurrently, and only after the delay: between two consecutive invocations the
   previous one ended, with an Exception, nothing happened in between, and the restart comes
   exactly the actor's restart delay after that failure -- for EVERY delay (an actor's
   `self.RESTART_DELAY` may be overridden by a subclass or on the instance) ... *)
Theorem C10_delay : forall limit delay s0 tr1 ta mid tb tr2 s,
  lrun limit delay s0 (tr1 ++ (ta, LEnter) :: mid ++ (tb, LEnter) :: tr2) = Some s ->
  count is_enter mid = 0%nat ->
  exists pre t1, mid = pre ++ [(t1, LExit Exc)] /\ count is_exit pre = 0%nat /\ tb = t1 + delay.
Proof. exact restart_spacing. Qed.

(* ... in particular for the base-class constant translated from /repo *)
Theorem C10_delay_default : forall limit s0 tr1 ta mid tb tr2 s,
  lrun limit actor_restart_delay_us s0 (tr1 ++ (ta, LEnter) :: mid ++ (tb, LEnter) :: tr2) = Some s ->
  count is_enter mid = 0%nat ->
  exists pre t1, mid = pre ++ [(t1, LExit Exc)] /\ count is_exit pre = 0%nat /\
                 tb = t1 + actor_restart_delay_us.
Proof. intros limit. exact (restart_spacing limit actor_restart_delay_us). Qed.

(* a cancel request during the delay prevents the re-invocation *)
Theorem C10_cancel_in_delay_prevents_restart : forall limit delay l n since tb r,
  count is_enter l = 0%nat ->
  lrun limit delay (Delay n since true) (l ++ (tb, LEnter) :: r) = None.
Proof. intros. apply delay_pending_rejects_enter. assumption. Qed.

(* in the global system every loop task steps under its OWN actor's limit and delay *)
Theorem C10_loop_uses_own_config : forall c st t tid le st',
  gstep c st t (GLoop tid le) = Some st' ->
  exists a s s', g_tasks st tid = Some (TLoop a s) /\ le <> LCancel /\
                 lstep (cur_limit c st a) (c_delay c a) s t le = Some s' /\ g_tasks st' tid = Some (TLoop a s').
Proof. exact loop_step_uses_own_config. Qed.

Theorem C10_first_run_immediate : forall limit delay t0 l tb r s,
  count is_enter l = 0%nat ->
  lrun limit delay (Delay 0 t0 false) (l ++ (tb, LEnter) :: r) = Some s -> tb = t0.
Proof. exact first_enter_time. Qed.

(* ---- start / tasks ---- *)

(* in every reachable state an actor has at most one unfinished _run_loop task (so its run
   logic never runs twice concurrently), and that task is in its task set *)
Theorem C10_sequential : forall c tr st,
  grun c g_init tr = Some st ->
  (forall a x1 x2 s1 s2, g_tasks st x1 = Some (TLoop a s1) -> g_tasks st x2 = Some (TLoop a s2) ->
                         live s1 = true -> live s2 = true -> x1 = x2) /\
  (forall x a s, g_tasks st x = Some (TLoop a s) -> live s = true -> In x (g_set st a)).
Proof. intros c tr st H. destruct (reach_loops_ok c tr st H) as [H1 H2]. split; assumption. Qed.

Theorem C10_start_idempotent : forall c st t a tid created st',
  gstep c st t (GStart a tid created) = Some st' -> is_running st a = true -> st' = st /\ created = false.
Proof. exact start_idempotent. Qed.

(* ---- stop / wait ---- *)

(* stop() requests the cancellation of every unfinished task of the set *)
Theorem C10_stop_cancels : forall c st t a w tg st',
  gstep c st t (GStopCall a w tg) = Some st' ->
  forall x, In x (g_set st a) ->
    is_done st x = true \/
    (g_creq st' x = S (g_creq st x) /\ g_tasks st' x = cancel_info (g_tasks st x)).
Proof. exact stop_cancels_all. Qed.

(* after stop()/wait() has returned: every task it waited for is done, these include every task
   of the set at call time, what it raised is exactly the errors of the tasks it waited for
   (stop: the non-cancellation errors; none = normal return), and it waited for more than the
   set at call time only if every task of that set returned normally *)
Theorem C10_stop : forall c tr st w,
  grun c g_init tr = Some st -> g_ret st w = true ->
  exists F, g_fin st w = Some F /\
    (forall x, In x (f_waited F) -> is_done st x = true) /\
    incl (f_s0 F) (f_waited F) /\
    f_res F = result_of (f_kind F) (errs_of st (f_waited F)) /\
    (f_waited F = f_s0 F \/ forall x, In x (f_s0 F) -> outc st x = Some Return).
Proof. exact returned_call_ok. Qed.

(* finished tasks stay finished with the same outcome (so the statement above is stable) *)
Theorem C10_outcomes_stable : forall c st t e st' x o,
  gstep c st t e = Some st' -> outc st x = Some o -> outc st' x = Some o.
Proof. intros c st t e st' x o H. exact (step_mono c st t e st' H x o). Qed.

(* the task awaiting wait()/stop()/`async with` exit is itself cancelled or timed out while the call is
   blocked: the call may RAISE CancelledError at any time (nothing else changes, no task counts as
   finished) ... *)
Theorem C10_awaiter_cancelled : forall c st t w st',
  gstep c st t (GCallCancelled w) = Some st' ->
  g_wait st w <> None /\ g_wait st' w = None /\ g_fin st' = g_fin st /\ g_ret st' = g_ret st /\
  g_tasks st' = g_tasks st /\ g_set st' = g_set st.
Proof. exact awaiter_cancelled. Qed.

(* ... but it may RETURN (normally or with the error group) only once its result is determined, which by
   C10_stop means every task it waited for -- including all of the set at call time -- is done *)
Theorem C10_return_needs_result : forall c st t w r st',
  gstep c st t (GRet w r) = Some st' -> exists F, g_fin st w = Some F /\ wres_eqb (f_res F) r = true.
Proof. exact ret_needs_finished. Qed.

(* ---- cancel_and_await(task) (_internal/_asyncio.py), used to stop helper tasks ---- *)

(* a done task: returns at once; otherwise the task's cancellation is requested -- also when it is
   already being cancelled -- and the call blocks on exactly that task *)
Theorem C10_cancel_and_await_call : forall c st t tid w tg st',
  gstep c st t (GCawCall tid w tg) = Some st' ->
  (is_done st tid = true /\ g_fin st' w = Some (mkF KStop (caw_actor w) [] [] WOk) /\ g_wait st' w = g_wait st w) \/
  (is_done st tid = false /\ g_creq st' tid = S (g_creq st tid) /\
   g_wait st' w = Some (mkW KStop (caw_actor w) [tid] [] [tid]) /\ g_set st' (caw_actor w) = []).
Proof. exact caw_call. Qed.

(* it resumes only when the task is done, and raises exactly the task's non-cancellation error
   (C10_stop applies to the returned call as to any stop()) *)
Theorem C10_cancel_and_await_returns : forall st w a tid st',
  g_wait st w = Some (mkW KStop a [tid] [] [tid]) -> g_set st a = [] -> wake st w = Some st' ->
  is_done st tid = true /\
  g_fin st' w = Some (mkF KStop a [tid] [tid] (result_of KStop (errs_of st [tid]))) /\ g_wait st' w = None.
Proof. exact caw_wake. Qed.

(* `async with service:` -- __aexit__ is stop(): the model accepts the end of the statement only
   when every task of the set at the exit of the body is done *)
Theorem C10_async_with_exit : forall c st t a l st',
  gstep c st t (GWithDone a l) = Some st' -> st' = st /\ forall x, In x l -> is_done st x = true.
Proof.
  intros c st t a l st'. cbn. destruct (forallb (is_done st) l) eqn:E; [|discriminate].
  intros H. injection H as <-. split; [reflexivity|]. apply forallb_forall. exact E.
Qed.

(* ---- run ---- *)

(* run() has returned only if every one of its wait() calls has returned ... *)
Theorem C10_run_returns : forall c tr st r,
  grun c g_init tr = Some st -> g_runret st r = true ->
  exists ws, g_run st r = Some (ws, []) /\ forall w, In w ws -> g_ret st w = true.
Proof. exact run_returned_all_finished. Qed.

(* the wait() calls run() blocks on are exactly one per actor it was given (identity, not name) *)
Theorem C10_run_waits_every_actor : forall c st t r actors aws st',
  gstep c st t (GRunCall r actors aws) = Some st' ->
  map fst aws = actors /\ g_run st' r = Some (map snd aws, map snd aws).
Proof. exact run_waits_every_actor. Qed.

(* ... and once they all have, run() is not blocked: it can resume and return *)
Theorem C10_run_progress : forall c tr st r ws pend (t : Z),
  grun c g_init tr = Some st -> g_run st r = Some (ws, pend) -> g_runret st r = false ->
  (forall w, In w ws -> g_ret st w = true) -> incl pend ws ->
  exists tr' st', grun c st tr' = Some st' /\ g_runret st' r = true.
Proof. exact run_progress. Qed.

(* non-vacuity: limit 1, two failures (the second one while being cancelled), stop() during the
   first run with an extra failing task; the model accepts the trace and computes the group *)
Example C10_nonvacuous :
  let c := mkC (fun _ => Some 1%nat) (fun _ => actor_restart_delay_us) in
  let tr := [(0, GStart 0 1 true); (0, GLoop 1 LEnter); (10, GAdd 0 2); (20, GLoop 1 (LExit Exc));
             (20 + actor_restart_delay_us, GLoop 1 LEnter); (3000000, GStopCall 0 1 [1; 2]%nat);
             (3000000, GLoop 1 LDeliver); (3000000, GLoop 1 (LExit Exc)); (3000000, GExtraDone 2 BaseExc);
             (3000000, GWake 1); (3000000, GRet 1 (WRaise [(1, Exc); (2, BaseExc)]%nat))] in
  match grun c g_init tr with
  | Some st => g_ret st 1%nat = true /\ is_running st 0%nat = false /\ g_creq st 1%nat = 1%nat
  | None => False
  end /\
  lrun (Some 1%nat) 5 (Delay 0 0 false)
       [(0, LEnter); (1, LExit Exc); (6, LEnter); (7, LCancel); (7, LDeliver); (7, LExit Exc)] = Some (Ended Exc).
Proof. vm_compute. repeat split. Qed.

(* run() over the EMPTY group waits on nothing and returns at once; C10_run_returns holds vacuously *)
Example C10_run_empty_group :
  let c := mkC (fun _ => None) (fun _ => actor_restart_delay_us) in
  match grun c g_init [(5, GRunCall 0 [] []); (5, GRunRet 0)] with
  | Some st => g_runret st 0%nat = true /\ g_run st 0%nat = Some ([], [])
  | None => False
  end.
Proof. vm_compute. split; reflexivity. Qed.

Print Assumptions C10_restart_count.
Print Assumptions C10_restart_count_cancelled_in_delay.
Print Assumptions C10_restart_count_any_state.
Print Assumptions C10_restart_after_exception.
Print Assumptions C10_restart_budget.
Print Assumptions C10_no_restart_without_budget.
Print Assumptions C10_no_restart_after.
Print Assumptions C10_no_restart_beyond_limit.
Print Assumptions C10_delay.
Print Assumptions C10_delay_default.
Print Assumptions C10_cancel_in_delay_prevents_restart.
Print Assumptions C10_loop_uses_own_config.
Print Assumptions C10_first_run_immediate.
Print Assumptions C10_sequential.
Print Assumptions C10_start_idempotent.
Print Assumptions C10_stop_cancels.
Print Assumptions C10_stop.
Print Assumptions C10_outcomes_stable.
Print Assumptions C10_awaiter_cancelled.
Print Assumptions C10_return_needs_result.
Print Assumptions C10_cancel_and_await_call.
Print Assumptions C10_cancel_and_await_returns.
Print Assumptions C10_async_with_exit.
Print Assumptions C10_run_returns.
Print Assumptions C10_run_waits_every_actor.
Print Assumptions C10_run_progress.
