(* C07 — Resampled timeline is aligned, gap-free and shared by all series.
   Statements only; every proof is `exact <lemma>` from proofs/ResamplerTimeline.v. *)
From Coq Require Import Lia.
From Verif Require Import model.Resampler proofs.ResamplerTimeline.

(* The function the model runs is `Resampler._calculate_window_end` as translated from /repo. *)
Theorem C07_window_end_as_translated : forall now period align,
  0 < period ->
  window_end now period align = window_end_spec now period align.
Proof. exact window_end_as_translated. Qed.

(* First window end w for creation instant [now]:  now + period <= w < now + 2*period (so "no earlier than
   creation, no later than two periods after it"); the timer is armed for exactly w; w = now + period when
   align_to is None, otherwise w is on the grid align_to + k*period and is the first grid point >= now + period. *)
Theorem C07_first : forall now period align,
  0 < period ->
  let we := window_end now period align in
  now + period <= fst we < now + 2 * period /\
  0 <= snd we < period /\
  first_tick_at now period we = fst we /\
  match align with
  | None => fst we = now + period
  | Some a => (fst we - a) mod period = 0 /\
              forall g, (g - a) mod period = 0 -> now + period <= g -> fst we <= g
  end.
Proof. exact window_end_first_translated. Qed.

(* The k-th tick (the tick after any prefix [pre] containing k ticks, whatever else happened: additions,
   removals, failing sinks, stopped sources, dictionary changes during earlier gathers, any lateness) hands
   w + k*period to every registered live series and nothing else to anybody. *)
Theorem C07_kth : forall period st pre late fail dead during post,
  let es := pre ++ Tick late fail dead during :: post in
  let o := nth (length pre) (rrun period st es) ([], OOk) in
  let stk := rfinal period st pre in
  (forall s t, In (s, t) (fst o) -> t = r_wend st + Z.of_nat (nticks pre) * period) /\
  (forall s, In s (r_series stk) -> ~ In s dead -> In (s, r_wend st + Z.of_nat (nticks pre) * period) (fst o)).
Proof. exact kth_tick. Qed.

(* No tick skipped, duplicated or reordered: a series that stays registered receives
   w, w + period, ..., one per tick, for every event sequence. *)
Theorem C07_no_skip_dup : forall period es st s,
  NoDup (r_series st) -> In s (r_series st) -> never_removed s es ->
  emitted s (rrun period st es) = map (fun k => r_wend st + Z.of_nat k * period) (seq 0 (nticks es)).
Proof. exact no_skip_no_dup. Qed.

(* ... independent of the lateness labels on the ticks *)
Theorem C07_lateness_irrelevant : forall period es st,
  rrun period st (map unlabel es) = rrun period st es /\
  rfinal period st (map unlabel es) = rfinal period st es.
Proof. exact labels_irrelevant. Qed.

(* All series resampled together receive the same timestamp. *)
Theorem C07_shared : forall period st es o s1 t1 s2 t2,
  In o (rrun period st es) -> In (s1, t1) (fst o) -> In (s2, t2) (fst o) -> t1 = t2.
Proof. exact shared_timestamp. Qed.

(* The increment happens on every way out of a loop iteration: normally, with ResamplingError, and with the
   IndexError that kills resample() when add_timeseries ran while the tick's sinks were awaited (exactly when
   the dictionary has grown during the gather).  With an undisturbed gather the error names exactly the
   registered series whose sink failed or whose source had stopped. *)
Theorem C07_error_path : forall period st late fail dead during,
  let '(st', (outs, how)) := rstep period st (Tick late fail dead during) in
  r_wend st' = r_wend st + period /\
  r_series st' = fold_left apply_change during (r_series st) /\
  (how = OCrash <-> (length (r_series st) < length (r_series st'))%nat) /\
  (during = [] ->
   how = match filter (fun s => zmem s fail || zmem s dead) (r_series st) with [] => OOk | l => ORaised l end).
Proof. exact error_path. Qed.

(* From creation: every timestamp ever handed to any sink is w0 + k*period, k >= 0, on the align_to grid
   (or on the grid of the creation instant), never before creation + period. *)
Theorem C07_timeline : forall now period align es o s t,
  0 < period ->
  let we := window_end now period align in
  In o (rrun period (rinit now period align we) es) -> In (s, t) (fst o) ->
  (exists k, 0 <= k /\ t = fst we + k * period) /\
  now + period <= t /\
  match align with Some a => (t - a) mod period = 0 | None => (t - now) mod period = 0 end.
Proof. exact timeline_from_creation_translated. Qed.

(* non-vacuity: creation 250 ms after a grid point, 1 s period, epoch alignment; two series, one added late,
   one failing sink, a tick three periods late: timestamps 2 s, 3 s, 4 s on the grid; raised exactly once.
   Then series 3 is added while the sinks of the 5 s tick are awaited: resample() dies (OCrash), is called
   again, and the next tick hands 6 s to both series. *)
Example C07_nonvacuous :
  let now := 1700000000250000 in
  let we := window_end now 1000000 (Some 0) in
  we = (1700000002000000, 750000) /\
  rrun 1000000 (rinit now 1000000 (Some 0) we)
       [Add 1; Tick 0 [] [] []; Add 2; Tick 3000000 [2] [] []; Remove 2; Tick 0 [] [] [];
        Tick 0 [] [] [CAdd 3]; Tick 0 [] [] []] =
  [([], OOk); ([(1, 1700000002000000)], OOk); ([], OOk);
   ([(1, 1700000003000000); (2, 1700000003000000)], ORaised [2]); ([], OOk);
   ([(1, 1700000004000000)], OOk);
   ([(1, 1700000005000000)], OCrash);
   ([(1, 1700000006000000); (3, 1700000006000000)], OOk)].
Proof. vm_compute. split; reflexivity. Qed.

Print Assumptions C07_window_end_as_translated.
Print Assumptions C07_first.
Print Assumptions C07_kth.
Print Assumptions C07_no_skip_dup.
Print Assumptions C07_lateness_irrelevant.
Print Assumptions C07_shared.
Print Assumptions C07_error_path.
Print Assumptions C07_timeline.
