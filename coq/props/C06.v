From Verif Require Import model.EvalSync.
Example C06_placeholder : engine_of [ [(0,1);(4,2)]; [(4,256)] ] [] = [(4, 258)].
Proof. vm_compute. reflexivity. Qed.
Print Assumptions C06_placeholder.
