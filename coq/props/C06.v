(* C06 — Every formula sample is computed from inputs of a single timestamp.
   Statements only; every proof is `exact <lemma>` from proofs/EvalSyncFacts.v.

   [engine n f ords fuel ss]: the samples a FormulaEngine over the n input streams [ss] emits, as a
   function of the stream CONTENTS (model/EvalSync.v).  [ords r] is the iteration order of the set of
   finished fetch tasks in round r (arbitrary in CPython); [f] is the formula.
   [grid_inputs n d T0 ms ss]: every input is consecutive with the common step d, input i starts
   [ms i] steps before T0, T0 is the latest first timestamp, and every input reaches T0.

   PARTIAL by nature: channel delivery, the receiver limit and task scheduling are runtime behaviour.
   The theorems are about the function of the stream contents; that the running engine computes this
   function for every interleaving with backlog within the receiver capacity (as the property assumes)
   is what the correspondence runs of tools/harness/c06.py test. *)
From Coq Require Import Permutation Lia.
From Verif Require Import model.EvalSync proofs.EvalSyncFacts.

(* The k-th emitted sample is stamped T0 + k*d and computed from exactly the values every input
   carries for T0 + k*d -- for every choice of the "arbitrary" set order in every round. *)
Theorem C06_single_ts : forall n f ords d T0 ms ss fuel,
  0 < d -> (0 < n)%nat -> (forall r, Permutation (seq 0 n) (ords r)) ->
  grid_inputs n d T0 ms ss ->
  (forall i, (i < n)%nat -> (length (ss i) < fuel)%nat) ->
  forall k, (forall i, (i < n)%nat -> (ms i + k < length (ss i))%nat) ->
  exists vs, nth_error (engine n f ords fuel ss) k = Some (T0 + Z.of_nat k * d, f vs) /\
             length vs = n /\
             forall i, (i < n)%nat -> value_at (ss i) (T0 + Z.of_nat k * d) = Some (nth i vs 0).
Proof. exact engine_single_ts. Qed.

(* ... and there are exactly as many samples as timestamps from T0 on for which every input has
   a sample: with C06_single_ts, none skipped, none repeated, none reordered. *)
Theorem C06_none_skipped_or_repeated : forall n f ords d T0 ms ss fuel L,
  0 < d -> (0 < n)%nat -> (forall r, Permutation (seq 0 n) (ords r)) ->
  grid_inputs n d T0 ms ss ->
  (forall i, (i < n)%nat -> (length (ss i) < fuel)%nat) ->
  (forall i, (i < n)%nat -> (ms i + L <= length (ss i))%nat) ->
  (exists i, (i < n)%nat /\ (ms i + L)%nat = length (ss i)) ->
  length (engine n f ords fuel ss) = L.
Proof. exact engine_count. Qed.

(* The whole output is independent of the set iteration orders (the schedule never enters the
   model at all: C06_schedule_free holds by construction, the correspondence makes it meaningful). *)
Theorem C06_order_free : forall n f ords ords' d T0 ms ss fuel,
  0 < d -> (0 < n)%nat ->
  (forall r, Permutation (seq 0 n) (ords r)) -> (forall r, Permutation (seq 0 n) (ords' r)) ->
  grid_inputs n d T0 ms ss ->
  (forall i, (i < n)%nat -> (length (ss i) < fuel)%nat) ->
  engine n f ords fuel ss = engine n f ords' fuel ss.
Proof. exact engine_order_free. Qed.

(* 3-phase zipper (after the fix `align the per-phase samples ... before zipping`): for ANY three
   phase streams, each emitted (t, v1, v2, v3) consists of phase samples stamped t. *)
Theorem C06_3phase_single_ts : forall fuel a b c t v1 v2 v3,
  In (t, (v1, v2, v3)) (zip3 fuel a b c) -> In (t, v1) a /\ In (t, v2) b /\ In (t, v3) c.
Proof. exact zip3_single_ts. Qed.

(* equal T0 of the three phase engines: nothing is discarded, the k-th 3-phase sample is stamped
   T0 + k*d and carries the three phase values of that timestamp. *)
Theorem C06_3phase : forall d fuel a b c t k,
  on_grid d t a -> on_grid d t b -> on_grid d t c -> (length a < fuel)%nat ->
  (k < length a)%nat -> (k < length b)%nat -> (k < length c)%nat ->
  nth_error (zip3 fuel a b c) k =
    Some (t + Z.of_nat k * d, (snd (nth k a (0, 0)), snd (nth k b (0, 0)), snd (nth k c (0, 0)))).
Proof. exact zip3_grid_equal_start. Qed.

(* Remark (C06_3phase_refuted_before_fix, finding F10): the zipper as it was in the unchanged tree
   is [zip3_unaligned]; proofs/EvalSyncFacts.v:zip3_unaligned_refuted exhibits grid phase streams
   starting at 0, 1, 0 for which it emits (0, (10, 21, 30)) although phase 2 has no sample stamped 0. *)

(* non-vacuity: three inputs starting at 0 s, 2 s and -1 s (step 1 s), set order [2;0;1] *)
Example C06_nonvacuous :
  let ss := [ [(0, 1); (1000000, 2); (2000000, 3); (3000000, 4)];
              [(2000000, 256); (3000000, 512); (4000000, 768)];
              [(-1000000, 65536); (0, 131072); (1000000, 196608); (2000000, 262144); (3000000, 327680)] ] in
  grid_inputs 3 1000000 2000000 (of_list 0%nat [2; 0; 3]%nat) (of_list [] ss) /\
  engine_of ss [[2; 0; 1]%nat] = [(2000000, 3 + 256 + 262144); (3000000, 4 + 512 + 327680)] /\
  zip3 9 [(0, 1); (1, 2); (2, 3)] [(1, 5); (2, 6)] [(0, 7); (1, 8); (2, 9)] = [(1, (2, 5, 8)); (2, (3, 6, 9))].
Proof.
  cbn zeta. split; [|split; vm_compute; reflexivity].
  unfold grid_inputs. split; [|split].
  - intros i Hi. destruct i as [|[|[|i]]]; [| | |lia]; vm_compute; intuition congruence.
  - exists 1%nat. split; [lia|reflexivity].
  - intros i Hi. destruct i as [|[|[|i]]]; [| | |lia]; vm_compute; lia.
Qed.

Print Assumptions C06_single_ts.
Print Assumptions C06_none_skipped_or_repeated.
Print Assumptions C06_order_free.
Print Assumptions C06_3phase_single_ts.
Print Assumptions C06_3phase.
