(* C04 — Lower-priority preferences are honoured only inside higher-priority bounds.
   Statements only; every proof is `exact <lemma>` from proofs/.

   Reading of "admissible": inside the intersection [L,U] of the system inclusion bounds
   and the bounds of every proposal sorted above (higher priority; equal priority ordered
   by source id as Proposal.__lt__ does), outside the open exclusion zone; a preference of
   exactly zero is honoured as zero when the whole zone lies inside [L,U] (the documented
   zero exception of clamp_to_bounds).  "Closest" = minimal |t - v|, ties to the lower value. *)
From Coq Require Import Lia.
From Verif Require Import model.Matryoshka proofs.BoundsFacts proofs.MatryoshkaFacts proofs.MatryoshkaC04.

Theorem C04_closest : forall s bucket hi p lo v,
  wf_sys_excl s ->
  sort_desc bucket = hi ++ p :: lo ->
  p_pref p = Some v -> (forall q, In q lo -> p_pref q = None) ->
  conflict_free (eff_excl s) (init_bounds s) (hi ++ [p]) ->
  closest_spec (eff_excl s) (fst (ideal_bounds (init_bounds s) hi)) (snd (ideal_bounds (init_bounds s) hi)) v
               (calc_target s bucket).
Proof. exact calc_target_closest. Qed.

(* the choice is unique, so the statement above determines the target *)
Theorem C04_closest_unique : forall ex L U v t1 t2,
  closest_spec ex L U v t1 -> closest_spec ex L U v t2 -> t1 = t2.
Proof. exact closest_unique. Qed.

Theorem C04_no_preference : forall s bucket,
  (forall q, In q bucket -> p_pref q = None) -> calc_target s bucket = 0.
Proof. exact calc_target_no_pref. Qed.

(* the bounds reported for priority q are, outside the exclusion zone, exactly the ideal
   intersection of system bounds and the bounds of all strictly-higher-priority proposals *)
Theorem C04_report_is_ideal : forall s bucket q hi rest l u,
  wf_sys_excl s -> s_incl s = Some (l, u) ->
  sort_desc bucket = hi ++ rest ->
  (forall x, In x hi -> q < p_prio x) ->
  match rest with [] => True | p :: _ => p_prio p <= q end ->
  conflict_free (eff_excl s) (l, u) hi ->
  exists R, get_status_bounds s bucket q = Some R /\
            Sim (eff_excl s) (fst (ideal_bounds (l, u) hi)) (snd (ideal_bounds (l, u) hi)) (fst R) (snd R).
Proof. exact report_is_ideal. Qed.

(* ... hence, for the lowest-priority actor with a preference, when every proposal sorted above
   it has a strictly higher priority: the target is what adjust_to_bounds on its own report
   says; in particular a preference that adjust_to_bounds returns unchanged is adopted. *)
Theorem C04_target_from_report : forall s bucket hi p lo v l u,
  wf_sys_excl s -> s_incl s = Some (l, u) ->
  sort_desc bucket = hi ++ p :: lo ->
  p_pref p = Some v -> (forall q, In q lo -> p_pref q = None) ->
  (forall x, In x hi -> p_prio p < p_prio x) ->
  conflict_free (eff_excl s) (l, u) (hi ++ [p]) ->
  exists R, get_status_bounds s bucket (p_prio p) = Some R /\
            calc_target s bucket = pick v (adjust_to_bounds s (Some R) v) 0.
Proof. exact target_from_report. Qed.

Corollary C04_adopted_unchanged : forall s bucket hi p lo v l u,
  wf_sys_excl s -> s_incl s = Some (l, u) ->
  sort_desc bucket = hi ++ p :: lo ->
  p_pref p = Some v -> (forall q, In q lo -> p_pref q = None) ->
  (forall x, In x hi -> p_prio p < p_prio x) ->
  conflict_free (eff_excl s) (l, u) (hi ++ [p]) ->
  forall R, get_status_bounds s bucket (p_prio p) = Some R ->
  adjust_to_bounds s (Some R) v = (Some v, Some v) -> calc_target s bucket = v.
Proof.
  intros s bucket hi p lo v l u Hw Hi Hs Hv Hlo Hhi Hcf R HR Ha.
  destruct (target_from_report s bucket hi p lo v l u Hw Hi Hs Hv Hlo Hhi Hcf) as (R' & HR' & Ht).
  rewrite HR in HR'. injection HR' as <-. rewrite Ht, Ha. cbn. destruct (v - v <? v - v); reflexivity.
Qed.

(* a proposal with neither power nor bounds is equivalent to no proposal *)
Theorem C04_empty_noop : forall s b p,
  wf_sys_excl s -> is_empty p ->
  conflict_free (eff_excl s) (init_bounds s) (sort_desc b) ->
  calc_target s (p :: b) = calc_target s b.
Proof. exact empty_proposal_noop. Qed.

(* KNOWN FINDING F8: with two actors on the SAME priority the report of the one sorted lower
   (smaller source id) omits the sibling's bounds: adjust_to_bounds says the preference is
   adopted unchanged, the target is different.  (The hypothesis `p_prio p < p_prio x` of
   C04_target_from_report is exactly what fails.) *)
Theorem C04_report_refuted_equal_priority :
  exists s bucket p v R,
    wf_sys s /\ wf_sys_excl s /\ In p bucket /\ p_pref p = Some v /\
    (forall q, In q bucket -> p_prio p <= p_prio q) /\
    conflict_free (eff_excl s) (init_bounds s) (sort_desc bucket) /\
    get_status_bounds s bucket (p_prio p) = Some R /\
    adjust_to_bounds s (Some R) v = (Some v, Some v) /\
    calc_target s bucket <> v.
Proof.
  exists (mkS (Some (-100, 100)) None),
         [mkP 1 1 None (Some (-10)) (Some 10) 0; mkP 1 0 (Some 50) None None 0],
         (mkP 1 0 (Some 50) None None 0), 50, (-100, 100).
  split; [cbn; lia|]. split; [exact I|]. split; [right; left; reflexivity|]. split; [reflexivity|].
  split; [intros q [<-|[<-|[]]]; cbn; lia|].
  split; [cbn; repeat split; try exact I; (exists 0; cbn; split; [lia|tauto])|].
  split; [vm_compute; reflexivity|]. split; [vm_compute; reflexivity|]. vm_compute. discriminate.
Qed.

(* non-vacuity: a conflict-free three-actor set with an exclusion zone *)
Example C04_nonvacuous :
  let s := mkS (Some (-100, 100)) (Some (-10, 10)) in
  let b := [mkP 3 0 None (Some (-50)) (Some 40) 0; mkP 2 1 (Some 70) None (Some 60) 0; mkP 1 2 (Some 5) None None 0] in
  wf_sys_excl s /\ conflict_free (eff_excl s) (init_bounds s) (sort_desc b) /\ calc_target s b = 10 /\
  get_status_bounds s b 1 = Some (-50, 40).
Proof.
  cbn. split; [lia|]. split.
  - repeat split; try exact I; (exists 20; cbn; split; [lia|lia]).
  - split; vm_compute; reflexivity.
Qed.

Print Assumptions C04_closest.
Print Assumptions C04_closest_unique.
Print Assumptions C04_no_preference.
Print Assumptions C04_report_is_ideal.
Print Assumptions C04_target_from_report.
Print Assumptions C04_adopted_unchanged.
Print Assumptions C04_empty_noop.
Print Assumptions C04_report_refuted_equal_priority.
