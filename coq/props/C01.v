From Verif Require Import model.Dist.
Example C01_placeholder : True. Proof. exact I. Qed.
Print Assumptions C01_placeholder.
