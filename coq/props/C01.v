(* C01 — battery power distribution conserves the requested power.
   Statements only; every proof is `exact <lemma>` from proofs/Dist*.v.
   Model: model/Dist.v = the code AFTER the fix commits c773a4e, ccb79d8, fcfd05e, 5d1dfb7 (on the unchanged tree
   C01_sum was refuted by the witnesses kept in corpus/C01/exact_fixed_F1_F2.json).

   [distribute powf gs p]  = BatteryDistributionAlgorithm.distribute_power(p, gs); powf = pow(., exponent)
   [wf_groups gs]          = the property's data domain: per component il <= el <= 0 <= eu <= iu, capacity > 0,
                             at least one battery per group, group minimum power <= group inclusion bound (both directions)
   [admitted gs p]         = czero p = false (|p| > 1e-9 W, the code's own zero test) and p outside the exclusion zone
                             the pool advertises (per group max(battery excl, sum of inverter excl), summed)
   [remainder_slack]       = n * eps + 2 * rel_tol * (pool inclusion bound in the request's direction), n = number of
                             groups, eps = is_close_to_zero's abs_tol (translated from /repo), rel_tol = math.isclose's 1e-9.
                             The code's own tolerances force it: an uncovered deficit leaves every excess <= eps, not 0,
                             and math.isclose may cover a deficit that exceeds the donor's excess by 1e-9 relative. *)
From Coq Require Import QArith List.
From Verif Require model.Accounting proofs.AccountingFacts.
From Verif Require Import model.Dist model.DistMgr proofs.DistFacts proofs.DistMgrFacts proofs.DistBounds proofs.DistTop proofs.DistRemainder proofs.DistWitness.
Import ListNotations.
Open Scope Q_scope.

(* set-points + remainder == request, exactly, for EVERY data set (well-formed or not) and every pow function *)
Theorem C01_sum : forall powf gs p r,
  czero p = false -> distribute powf gs p = Some r -> sumsp (res_dist r) + res_rem r == p.
Proof. exact distribute_sum. Qed.

(* the power BatteryManager reports as set (request - remainder) is the power commanded *)
Theorem C01_reported_is_commanded : forall powf gs p rr,
  czero p = false -> run_request powf gs p = Some rr -> res_distributed rr == sumsp (res_dist (rr_res rr)).
Proof. exact request_reported. Qed.

(* through BatteryManager (model/DistMgr.v: _check_request on the enforced bounds, then the algorithm on the latest
   data): for every served request the recorded set_power calls + excess == request and succeeded == commanded *)
Theorem C01_manager_conserves : forall powf gs p adj rr,
  czero p = false -> manager_request powf gs p adj = MDone rr ->
  sumsp (res_dist (rr_res rr)) + res_rem (rr_res rr) == p /\
  res_distributed rr == sumsp (res_dist (rr_res rr)).
Proof. exact manager_conserves. Qed.

(* ... and under API faults (every inverter's set_power is accepted, rejected as out of range, fails with another client
   error or does not answer): the Result's succeeded power is the sum of the ACCEPTED set-points, its failed power the sum
   of the rejected ones, and succeeded + failed + excess == request.  Result accounting = model/Accounting.v (C15). *)
Theorem C01_reported_is_commanded_under_faults : forall powf gs p adj rr m out_of,
  czero p = false -> manager_request powf gs p adj = MDone rr ->
  (forall inv, In inv (map fst (res_dist (rr_res rr))) -> Accounting.inv_bats m inv <> nil) ->
  res_dist (rr_res rr) <> nil ->
  let d := res_dist (rr_res rr) in
  let outs := map (fun c => out_of (fst c)) d in
  let R := faults_result p rr m out_of in
  Accounting.r_reported R = true /\
  Accounting.r_succeeded_power R == Accounting.qsum (map snd (AccountingFacts.ok_calls d outs)) /\
  Accounting.r_failed_power R == Accounting.qsum (map snd (AccountingFacts.failed_calls d outs)) /\
  Accounting.r_succeeded_power R + Accounting.r_failed_power R + Accounting.r_excess R == p /\
  Accounting.r_excess R == res_rem (rr_res rr).
Proof. exact manager_reported_under_faults. Qed.

(* every set-point has the request's sign or is zero: exact, no condition on the run or on admission *)
Theorem C01_sign : forall powf gs p r,
  wf_groups gs -> czero p = false -> distribute powf gs p = Some r ->
  forall a, In a (res_dist r) -> (0 < p -> 0 <= snd a) /\ (p < 0 -> snd a <= 0).
Proof. exact distribute_sign. Qed.

(* the remainder never exceeds the request in magnitude (exact) and has the request's sign up to the explicit
   tolerance slack, for every admitted request, with or without deficits, every pow non-negative on non-negatives *)
Theorem C01_remainder : forall powf gs p r,
  wf_groups gs -> (forall x, 0 <= x -> 0 <= powf x) -> admitted gs p -> distribute powf gs p = Some r ->
  (0 < p -> - remainder_slack powf gs p <= res_rem r <= p) /\
  (p < 0 -> p <= res_rem r <= remainder_slack powf gs p).
Proof. exact distribute_remainder. Qed.

Theorem C01_remainder_slack_formula : forall powf gs p,
  remainder_slack powf gs p =
  inject_Z (Z.of_nat (length (pgs_of powf gs p))) * eps + 2 * rel_tol * qsum (map incl_bound (pgs_of powf gs p)).
Proof. exact remainder_slack_formula. Qed.

(* the step behind the slack: the power left for the greedy top-up is at least -n*eps *)
Theorem C01_left_over_bound : forall gs p,
  wf_pgs gs -> (forall g, In g gs -> ratio_ok g) -> adm_core gs p -> 0 <= p ->
  - (inject_Z (Z.of_nat (length gs)) * eps) <= left_over gs p.
Proof. exact left_over_ge. Qed.

(* non-vacuity: a well-formed two-group pool, admitted requests in both directions, everything distributed,
   slack below a microwatt *)
Example C01_nonvacuous :
  wf_groups ex_gs /\ (admitted ex_gs 120 /\ admitted ex_gs (-120)) /\
  (remainder_slack idf ex_gs 120 < 1 # 1000000 /\ remainder_slack idf ex_gs (-120) < 1 # 1000000) /\
  (exists r, distribute idf ex_gs 120 = Some r /\ sumsp (res_dist r) == 120 /\ res_rem r == 0) /\
  (exists r, distribute idf ex_gs (-120) = Some r /\ sumsp (res_dist r) == -120 /\ res_rem r == 0).
Proof. exact (conj ex_wf (conj ex_admitted (conj ex_slack_small ex_runs))). Qed.

Print Assumptions C01_sum.
Print Assumptions C01_reported_is_commanded.
Print Assumptions C01_manager_conserves.
Print Assumptions C01_reported_is_commanded_under_faults.
Print Assumptions C01_sign.
Print Assumptions C01_remainder.
Print Assumptions C01_remainder_slack_formula.
Print Assumptions C01_left_over_bound.
Print Assumptions C01_nonvacuous.
