(* C01 — battery power distribution conserves the requested power.
   Statements only; every proof is `exact <lemma>` from proofs/Dist*.v.
   Model: model/Dist.v (the code AFTER the fix commits c773a4e, ccb79d8, fcfd05e; on the unchanged tree
   C01_sum was refuted by the corpus witnesses corpus/C01/exact_fixed_F1_F2.json).

   [distribute powf gs p]   = BatteryDistributionAlgorithm.distribute_power(p, gs), powf = pow(., exponent)
   [wf_groups gs]           = the property's data domain (per component il <= el <= 0 <= eu <= iu, capacity > 0,
                              group minimum power <= group inclusion bound in both directions)
   [czero p = false]        = the request is non-zero for the code (|p| > 1e-9 W)
   [side_ok powf gs p]      = two conditions on the run, decidable by evaluation (lower_okb) and required by the
                              generated case files on every in-domain case:
                                (i) no excess entry is negative after the deficit covering
                                    (math.isclose may cover a deficit that exceeds the donor's excess by <= 1e-9 relative);
                               (ii) the left-over handed to the greedy top-up is non-negative
                                    (request - assigned >= 0).
                              Derived inside Coq only for deficit-free runs (C01_side_ok_when_no_deficit); NOT derived
                              from `admitted gs p` in general -- hence the `_partial` names.  Missing: with deficits,
                              "an uncovered deficit implies every excess <= 1e-9" gives request - assigned >= -n*1e-9 only,
                              so the general statement needs tolerance-slack versions of the lower-bound lemmas. *)
From Coq Require Import QArith List.
From Verif Require Import model.Dist proofs.DistFacts proofs.DistBounds proofs.DistTop proofs.DistShares proofs.DistWitness.
Import ListNotations.
Open Scope Q_scope.

(* set-points + remainder == request, exactly, for EVERY data set (well-formed or not), every pow function *)
Theorem C01_sum : forall powf gs p r,
  czero p = false -> distribute powf gs p = Some r -> sumsp (res_dist r) + res_rem r == p.
Proof. exact distribute_sum. Qed.

(* the power reported as set by BatteryManager (request - remainder) is the power commanded *)
Theorem C01_reported_is_commanded : forall powf gs p rr,
  czero p = false -> run_request powf gs p = Some rr -> res_distributed rr == sumsp (res_dist (rr_res rr)).
Proof. exact request_reported. Qed.

(* every set-point has the request's sign or is zero *)
Theorem C01_sign_partial : forall powf gs p r,
  wf_groups gs -> czero p = false -> side_ok powf gs p -> distribute powf gs p = Some r ->
  forall a, In a (res_dist r) -> (0 < p -> 0 <= snd a) /\ (p < 0 -> snd a <= 0).
Proof. exact distribute_sign. Qed.

(* the remainder has the request's sign and never exceeds it in magnitude *)
Theorem C01_remainder_partial : forall powf gs p r,
  wf_groups gs -> czero p = false -> side_ok powf gs p -> distribute powf gs p = Some r ->
  (0 < p -> 0 <= res_rem r <= p) /\ (p < 0 -> p <= res_rem r <= 0).
Proof. exact distribute_remainder. Qed.

(* side_ok holds whenever no battery group's proportional share falls below its minimum power (no deficit entry
   after the reservation loop), for every pow function that is non-negative on non-negative arguments:
   the proportional shares never add up to more than the request *)
Theorem C01_side_ok_when_no_deficit : forall powf gs p,
  wf_groups gs -> (forall x, 0 <= x -> 0 <= powf x) -> deficit_free powf gs p -> side_ok powf gs p.
Proof. exact deficit_free_side_ok. Qed.

(* the side conditions can be discharged by evaluation for any concrete input *)
Theorem C01_side_conditions_decidable : forall gs p, lower_okb gs p = true -> lower_ok gs p.
Proof. exact lower_okb_ok. Qed.

(* non-vacuity: a well-formed two-group pool, admitted requests in both directions, side conditions hold,
   all of the request is distributed *)
Example C01_nonvacuous :
  wf_groups ex_gs /\ (admitted ex_gs 120 /\ admitted ex_gs (-120)) /\
  (side_ok idf ex_gs 120 /\ side_ok idf ex_gs (-120)) /\
  (exists r, distribute idf ex_gs 120 = Some r /\ sumsp (res_dist r) == 120 /\ res_rem r == 0) /\
  (exists r, distribute idf ex_gs (-120) = Some r /\ sumsp (res_dist r) == -120 /\ res_rem r == 0).
Proof. exact (conj ex_wf (conj ex_admitted (conj ex_side_ok ex_runs))). Qed.

Print Assumptions C01_sum.
Print Assumptions C01_reported_is_commanded.
Print Assumptions C01_sign_partial.
Print Assumptions C01_remainder_partial.
Print Assumptions C01_side_ok_when_no_deficit.
Print Assumptions C01_side_conditions_decidable.
Print Assumptions C01_nonvacuous.
