(* C12 — Generated microgrid power formulas balance for every topology.
   Statements only; every proof is `exact <lemma>` from proofs/GraphFacts.v.

   [roots] is the list of grid successors of a component TREE (a component with two predecessors
   would be metered twice: outside the property's premise); device powers and unmetered loads are
   part of the tree, so every theorem is "for every tree and every power assignment".
   [wf roots] is the premise: at least one grid successor, no CHP directly at the grid, every
   battery inverter has a battery, unmetered load only at meters not dedicated to one device type,
   every CHP below a meter dedicated to CHPs.  [eval] sums sign * reading of the components the
   generated formula reads; [fb] is FormulaGeneratorConfig.allow_fallback. *)
From Verif Require Import model.Common model.Graph proofs.GraphFacts proofs.GraphIds.

Theorem C12_pv : forall fb roots, wf roots = true -> eval (pv_terms fb roots) = total tot_pv roots.
Proof. exact pv_formula. Qed.

(* the entry point the PV pool uses: all PV inverter ids given explicitly *)
Theorem C12_pv_pool : forall fb roots, wf roots = true -> eval (pvids_terms fb roots) = total tot_pv roots.
Proof. exact pvids_formula. Qed.

(* pools over a subset (battery ids [bids] / PV inverter ids [psel]): the total of exactly the inverters
   of the requested batteries / the requested inverters, also when they share a dedicated meter with
   others.  Inverters may share batteries (the battery lists of BatInv nodes need not be disjoint);
   the generator is defined (Some) iff every inverter of a requested battery has all its batteries
   requested (GraphFacts.battery_pool_defined).
   (Before the fix of finding F9b the shared meter was read: GraphFacts.pool_before_fix_refuted.) *)
Theorem C12_battery_pool : forall fb roots bids ts, wf roots = true ->
  battery_pool_terms fb roots bids = Some ts -> eval ts = total (tot_sel (bat_sel bids)) roots.
Proof. exact battery_pool_formula. Qed.

Theorem C12_pv_pool_subset : forall fb roots psel, wf roots = true ->
  eval (pv_pool_terms fb roots psel) =
  if is_nil psel then total tot_pv roots else total (tot_sel (pv_sel psel)) roots.
Proof. exact pv_pool_formula. Qed.

(* an EV-charger pool over a subset of the chargers: exactly the requested chargers, also when they
   sit behind an EV-charger meter together with others *)
Theorem C12_ev_pool_subset : forall roots esel,
  eval (ev_pool_terms roots esel) = total (tot_sel (ev_sel esel)) roots.
Proof. exact ev_pool_formula. Qed.

Theorem C12_ev : forall roots, eval (ev_terms roots) = total tot_ev roots.
Proof. exact ev_formula. Qed.

Theorem C12_chp : forall roots, wf roots = true ->
  exists ts, chp_terms roots = Some ts /\ eval ts = total tot_chp roots.
Proof. exact chp_formula. Qed.

Theorem C12_battery : forall fb roots, wf roots = true -> eval (battery_terms fb roots) = total tot_bat roots.
Proof. exact battery_formula. Qed.

(* consumer power = the sum of all unmetered loads — with or without grid meter(s).
   (Before the fix of finding F9 this failed without a grid meter: GraphFacts.consumer_before_fix_refuted
   is the 6-node witness on the formula as it was generated then, consumer_before_fix_partial the
   statement outside the trigger.) *)
Theorem C12_consumer : forall fb roots, wf roots = true -> eval (consumer_terms fb roots) = total tot_load roots.
Proof. exact consumer_formula. Qed.

Theorem C12_producer : forall fb roots, wf roots = true ->
  eval (producer_terms fb roots) = total tot_pv roots + total tot_chp roots.
Proof. exact producer_formula. Qed.

(* grid power = what flows through the grid connection = the sum of everything below it *)
Theorem C12_grid : forall fb roots, wf roots = true ->
  exists g, grid_terms fb roots = Some g /\
    eval g = total tot_load roots + total tot_pv roots + total tot_chp roots + total tot_bat roots + total tot_ev roots.
Proof. exact grid_total. Qed.

Theorem C12_balance : forall fb roots, wf roots = true ->
  exists g, grid_terms fb roots = Some g /\
    eval g = eval (consumer_terms fb roots) + eval (producer_terms fb roots)
             + eval (battery_terms fb roots) + eval (ev_terms roots).
Proof. exact balance. Qed.

(* primary/fallback selection: the fallback formula of a meter dedicated to one device type
   evaluates to what the meter reads *)
Theorem C12_fallback_of_dedicated_meter : forall gm n, wf_node gm n = true -> dedicated gm n = true ->
  sumr (meter_fallback n) = reading n.
Proof. exact meter_fallback_value. Qed.

(* CHPs have no power stream of their own: under the premise no grid / consumer / producer term
   reads a CHP itself (the other formulas read inverters, EV chargers or CHP meters by construction) *)
Theorem C12_reads_measurable : forall fb roots, wf roots = true ->
  reads_measurable (consumer_terms fb roots) = true /\ reads_measurable (producer_terms fb roots) = true /\
  (forall g, grid_terms fb roots = Some g -> reads_measurable g = true).
Proof.
  exact (fun fb roots H => conj (consumer_reads_measurable fb roots H)
                             (conj (producer_reads_measurable fb roots H)
                                   (fun g => grid_reads_measurable fb roots g H))).
Qed.

(* The engine subscribes to component ids: when the ids of the tree are distinct, looking the ids of
   the generated terms up in the tree gives [eval]; every generated term names a node of the tree. *)
Theorem C12_eval_by_id : forall roots ts,
  NoDup (map nid (all_nodes roots)) -> within roots ts -> eval_by_id roots (map by_id ts) = eval ts.
Proof. exact eval_by_id_eval. Qed.

Theorem C12_terms_within_tree : forall fb roots,
  within roots (consumer_terms fb roots) /\ within roots (producer_terms fb roots) /\
  within roots (pv_terms fb roots) /\ within roots (pvids_terms fb roots) /\
  within roots (battery_terms fb roots) /\ within roots (ev_terms roots) /\
  (forall bids ts, battery_pool_terms fb roots bids = Some ts -> within roots ts) /\
  (forall g, grid_terms fb roots = Some g -> within roots g) /\
  (forall ts, chp_terms roots = Some ts -> within roots ts).
Proof.
  exact (fun fb roots =>
    conj (within_consumer fb roots) (conj (within_producer fb roots) (conj (within_pv fb roots)
    (conj (within_by_inverters _ _ fb roots) (conj (within_by_inverters _ _ fb roots) (conj (within_ev roots)
    (conj (within_battery_pool fb roots) (conj (within_grid fb roots) (within_chp roots))))))))).
Qed.

Theorem C12_balance_by_id : forall fb roots,
  wf roots = true -> NoDup (map nid (all_nodes roots)) ->
  exists g, grid_terms fb roots = Some g /\
    eval_by_id roots (map by_id g) =
      eval_by_id roots (map by_id (consumer_terms fb roots)) + eval_by_id roots (map by_id (producer_terms fb roots))
      + eval_by_id roots (map by_id (battery_terms fb roots)) + eval_by_id roots (map by_id (ev_terms roots)).
Proof. exact balance_by_id. Qed.

(* why the premise asks for a CHP meter that is not at the same time the grid meter:
   grid -> meter 2 -> CHP 3 makes the consumer and producer formulas read CHP 3 itself *)
Example C12_chp_below_grid_meter_is_read_directly :
  let roots := [Meter 2 [Chp 3 (-5)] 0] in
  wf roots = false /\ reads_measurable (producer_terms true roots) = false /\
  reads_measurable (consumer_terms true roots) = false.
Proof. vm_compute. repeat split; reflexivity. Qed.

(* non-vacuity: a tree with a dedicated, a mixed and a load-only meter, CHP, EV, two grid successors;
   and the former F9 witness *)
Example C12_nonvacuous :
  let roots := [Meter 2 [Meter 3 [BatInv 4 [5; 6] 10; BatInv 7 [8] (-3)] 0;
                         Meter 9 [PvInv 10 (-20); Ev 11 6; Meter 12 [] 4] 5;
                         Meter 13 [Chp 14 (-8)] 0] 7;
                PvInv 15 (-30)] in
  wf roots = true /\ eval (consumer_terms true roots) = 16 /\ eval (producer_terms true roots) = -58 /\
  eval (battery_terms true roots) = 7 /\ eval (ev_terms roots) = 6 /\
  option_map eval (grid_terms true roots) = Some (-29) /\
  wf f9_witness = true /\ eval (consumer_terms true f9_witness) = 7.
Proof. vm_compute. repeat split; reflexivity. Qed.

(* non-vacuity with SHARED batteries (N:M): inverter 4 -> batteries 8 and 10, inverter 5 -> battery 10
   only, inverter 6 -> battery 11, behind battery meter 3.  The formulas sum INVERTER powers. *)
Example C12_shared_batteries :
  let roots := [Meter 2 [Meter 3 [BatInv 4 [8; 10] 700; BatInv 5 [10] 400; BatInv 6 [11] 30] 0; PvInv 7 (-50)] 9] in
  wf roots = true /\ eval (battery_terms true roots) = 1130 /\ eval (battery_terms false roots) = 1130 /\
  option_map eval (battery_pool_terms true roots [8; 10]) = Some 1100 /\
  option_map eval (battery_pool_terms true roots [11]) = Some 30 /\
  battery_pool_terms true roots [10] = None /\ eval (consumer_terms true roots) = 9.
Proof. vm_compute. repeat split; reflexivity. Qed.

Print Assumptions C12_pv.
Print Assumptions C12_pv_pool.
Print Assumptions C12_battery_pool.
Print Assumptions C12_pv_pool_subset.
Print Assumptions C12_ev_pool_subset.
Print Assumptions C12_ev.
Print Assumptions C12_chp.
Print Assumptions C12_battery.
Print Assumptions C12_consumer.
Print Assumptions C12_producer.
Print Assumptions C12_grid.
Print Assumptions C12_balance.
Print Assumptions C12_fallback_of_dedicated_meter.
Print Assumptions C12_reads_measurable.
Print Assumptions C12_eval_by_id.
Print Assumptions C12_terms_within_tree.
Print Assumptions C12_balance_by_id.
