(* C03 — Power manager target stays inside usable system bounds, history-free.
   Statements only; every proof is `exact <lemma>` from proofs/. *)
From Coq Require Import Permutation Lia.
From Verif Require Import model.Matryoshka proofs.BoundsFacts proofs.MatryoshkaFacts.

(* The three bounds functions the model uses are the ones translated from /repo. *)
Theorem C03_bounds_functions_as_translated :
  (forall lo hi ex, check_exclusion_bounds_overlap lo hi ex = overlap lo hi ex) /\
  (forall lo hi ex, adjust_exclusion_bounds lo hi ex = adjust lo hi ex) /\
  (forall v lo hi ex, clamp_to_bounds v lo hi ex = clamp v lo hi ex).
Proof. exact (conj overlap_spec (conj adjust_spec clamp_spec)). Qed.

(* For EVERY bucket of proposals (compatible or not): the target lies within the system
   inclusion bounds and is zero or outside the open exclusion zone. *)
Theorem C03_envelope : forall s ps, wf_sys s -> in_envelope s (calc_target s ps).
Proof. exact calc_target_envelope. Qed.

(* without inclusion bounds the target is forced to zero *)
Theorem C03_no_bounds : forall s ps, s_incl s = None -> calc_target s ps = 0.
Proof.
  intros s ps H. pose proof (calc_target_envelope s ps) as E.
  unfold wf_sys, in_envelope in E. rewrite H in E. apply E. exact I.
Qed.

(* The bucket after any history is exactly the set of live proposals ... *)
Theorem C03_bucket_is_live_set : forall ma h p, In p (bucket_after ma h) <-> live ma h p.
Proof. exact bucket_after_live. Qed.

(* ... hence two histories with the same live proposals give the same target. *)
Theorem C03_history_free : forall ma s h1 h2,
  (forall p, live ma h1 p <-> live ma h2 p) -> target_after ma s h1 = target_after ma s h2.
Proof. exact history_free. Qed.

Theorem C03_order_free : forall ma s ps1 ps2,
  NoDupKey ps1 -> Permutation ps1 ps2 ->
  target_after ma s (map Propose ps1) = target_after ma s (map Propose ps2).
Proof. exact order_free. Qed.

(* proposals older than the maximum age stop counting at the next expiry call *)
Theorem C03_expiry : forall ma now b p,
  (In p (bucket_expire ma now b) -> now - p_time p <= ma) /\
  (In p b -> now - p_time p <= ma -> In p (bucket_expire ma now b)).
Proof. intros. split; [apply expire_drops|apply expire_keeps]. Qed.

(* the per-call machine compared against the implementation reports the target of its
   current bucket under its current bounds *)
Theorem C03_machine_reports_bucket_target : forall ma st e t,
  snd (mstep ma st e) = Some t ->
  t = calc_target (m_sys (fst (mstep ma st e))) (m_bucket (fst (mstep ma st e))).
Proof. exact mstep_output. Qed.

(* lifted to EVERY reachable state of the per-call machine: whatever the history of
   proposals, expiries and bounds changes, each reported target is inside the envelope of
   the bounds in force at the moment it is reported *)
Theorem C03_every_report_in_envelope : forall ma h st n t,
  wf_sys (m_sys st) -> Forall ev_wf h ->
  nth_error (mrun ma st h) n = Some (Some t) ->
  in_envelope (m_sys (mfinal ma st (firstn (S n) h))) t.
Proof. exact mrun_envelope. Qed.

(* history-freedom of the machine itself (bounds changes included in the histories) *)
Theorem C03_machine_history_free : forall ma s0 h1 h2,
  let st := mkM true [] s0 in
  (forall p, live ma h1 p <-> live ma h2 p) ->
  m_sys (mfinal ma st h1) = m_sys (mfinal ma st h2) ->
  calc_target (m_sys (mfinal ma st h1)) (m_bucket (mfinal ma st h1)) =
  calc_target (m_sys (mfinal ma st h2)) (m_bucket (mfinal ma st h2)).
Proof. exact machine_history_free. Qed.

(* non-vacuity of the run-level statements: bounds change mid-history, the last report is
   non-trivial and differs from the one before the change *)
Example C03_run_nonvacuous :
  let st := mkM true [] (mkS (Some (-100, 100)) None) in
  let h := [Propose (mkP 1 0 (Some 80) None None 0); SetBounds (mkS (Some (-50, 50)) (Some (-10, 10)));
            Propose (mkP 2 1 (Some 7) None None 5)] in
  wf_sys (m_sys st) /\ Forall ev_wf h /\ mrun 60 st h = [Some 80; None; Some 50].
Proof.
  cbn zeta. split; [unfold wf_sys; cbn; lia|]. split; [|vm_compute; reflexivity].
  repeat constructor; unfold wf_sys; cbn; lia.
Qed.

(* non-vacuity: a well-formed system, conflicting proposals, a non-trivial target *)
Example C03_nonvacuous :
  let s := mkS (Some (-100, 100)) (Some (-10, 10)) in
  let ps := [mkP 3 0 (Some 5) (Some 20) (Some 50) 0; mkP 1 1 (Some (-40)) None None 0;
             mkP 2 2 None (Some 60) (Some 70) 0] in
  wf_sys s /\ calc_target s ps = 10 /\ NoDupKey ps.
Proof.
  cbn. split; [unfold wf_sys; cbn; lia|]. split; [vm_compute; reflexivity|].
  change (NoDup [(3, 0); (1, 1); (2, 2)]). repeat (apply NoDup_cons; [cbn; intuition congruence|]). apply NoDup_nil.
Qed.

Print Assumptions C03_bounds_functions_as_translated.
Print Assumptions C03_envelope.
Print Assumptions C03_no_bounds.
Print Assumptions C03_bucket_is_live_set.
Print Assumptions C03_history_free.
Print Assumptions C03_order_free.
Print Assumptions C03_expiry.
Print Assumptions C03_machine_reports_bucket_target.
Print Assumptions C03_every_report_in_envelope.
Print Assumptions C03_machine_history_free.
