(* C14 — power requests for a component group are applied one at a time, latest wins.
   Statements only; every proof is `exact <lemma>` from proofs/DistributorFacts.v.
   All theorems quantify over ALL words of events (arrivals and completions of any groups,
   successes and failures, spurious completions included). *)
From Verif Require Import model.Distributor proofs.DistributorFacts.

(* one at a time: in the trace of every word, from every state, between two starts of the
   same group there is a completion of that group *)
Theorem C14_exclusive : forall st w g pre r mid r' post,
  dtrace st w = pre ++ LS g r :: mid ++ LS g r' :: post -> exists ok, In (LF g ok) mid.
Proof. intros st w. exact (dtrace_exclusive st w). Qed.

(* ... and while a task of g is in flight no other is started before its completion *)
Theorem C14_exclusive_inflight : forall st w g pre r post,
  inflight st g <> None -> dtrace st w = pre ++ LS g r :: post -> exists ok, In (LF g ok) pre.
Proof. intros st w g pre r post H. exact (dtrace_finish_first st w g H pre r post). Qed.

(* a request waits only behind a task of its own group *)
Theorem C14_pending_inv : forall w g,
  pending (dfinal d_init w) g <> None -> inflight (dfinal d_init w) g <> None.
Proof. exact pending_needs_inflight. Qed.

(* latest wins: whenever nothing is pending for g (in particular when g is quiescent), the
   request started last for g is the one that arrived last for g *)
Theorem C14_latest : forall w g,
  pending (dfinal d_init w) g = None ->
  last_start g (dtrace d_init w) = last_arrive g (dtrace d_init w).
Proof. exact latest_wins. Qed.

(* coalescing keeps only the most recent: the pending request IS the last arrival *)
Theorem C14_pending_is_latest : forall w g r,
  pending (dfinal d_init w) g = Some r ->
  last_arrive g (dtrace d_init w) = Some r /\ inflight (dfinal d_init w) g <> None.
Proof. exact pending_is_latest. Qed.

(* promptness: the completion of g's task starts the pending request in the same step,
   and the step does not look at the result of the finished task *)
Theorem C14_prompt : forall st g ok r,
  pending st g = Some r ->
  snd (dstep st (Finish g ok)) = [Start g r] /\
  inflight (fst (dstep st (Finish g ok))) g = Some r /\
  pending (fst (dstep st (Finish g ok))) g = None.
Proof. exact finish_starts_pending. Qed.

Theorem C14_prompt_success_or_exception : forall st g,
  dstep st (Finish g true) = dstep st (Finish g false).
Proof. exact finish_ignores_result. Qed.

(* the last request of a group is eventually applied: once its tasks complete (two
   completions suffice) the group is quiescent and the last start is the last arrival *)
Theorem C14_eventually_applied : forall w g ok1 ok2,
  let w' := w ++ [Finish g ok1; Finish g ok2] in
  inflight (dfinal d_init w') g = None /\ pending (dfinal d_init w') g = None /\
  last_start g (dtrace d_init w') = last_arrive g (dtrace d_init w') /\
  last_arrive g (dtrace d_init w') = last_arrive g (dtrace d_init w).
Proof. exact eventually_applied. Qed.

(* independence: an arrival for an idle group starts immediately whatever other groups hold *)
Theorem C14_independent : forall st g r,
  inflight st g = None -> snd (dstep st (Arrive g r)) = [Start g r].
Proof. exact idle_group_starts. Qed.

(* ... events of other groups leave g's slots untouched and never start a request of g *)
Theorem C14_frame : forall st e g,
  ev_group e <> g ->
  inflight (fst (dstep st e)) g = inflight st g /\
  pending (fst (dstep st e)) g = pending st g /\
  forall o, In o (snd (dstep st e)) -> lbl_group (lbl_of_out o) = ev_group e.
Proof. exact step_frame. Qed.

(* ... and everything observable of group g is what the machine does when fed g's events
   alone: other groups neither delay nor reorder g's requests *)
Theorem C14_projection : forall g w,
  filter (lbl_in g) (dtrace d_init w) = dtrace d_init (filter (ev_in g) w).
Proof. intros g w. apply projection. split; reflexivity. Qed.

(* a restart of the receive loop (Actor restart, or stop() + start()) neither forgets the task in
   flight nor the pending request, and starts nothing: every theorem above quantifies over words
   that contain restarts at any position *)
Theorem C14_restart_keeps_state : forall st, dstep st Restart = (st, []).
Proof. reflexivity. Qed.

(* a recorded run accepted by the replay function is a run of the model, so all of the
   above applies to its observed trace *)
Theorem C14_replay_sound : forall obs st st',
  dreplay st obs = Some st' ->
  obs_trace obs = dtrace st (map fst obs) /\ st' = dfinal st (map fst obs).
Proof. exact dreplay_sound. Qed.

(* non-vacuity: overlapping arrivals, an overwritten pending request, a failing task *)
Example C14_nonvacuous :
  let w := [Arrive 1 10; Arrive 1 11; Arrive 2 20; Arrive 1 12; Finish 1 false; Finish 2 true; Finish 1 true] in
  dtrace d_init w = [LA 1 10; LS 1 10; LA 1 11; LA 2 20; LS 2 20; LA 1 12; LF 1 false; LS 1 12;
                     LF 2 true; LF 1 true] /\
  last_start 1 (dtrace d_init w) = Some 12 /\ last_arrive 1 (dtrace d_init w) = Some 12 /\
  dquiet (dfinal d_init w) 1 = true.
Proof. vm_compute. repeat split. Qed.

Example C14_restart_nonvacuous :
  dtrace d_init [Arrive 1 10; Arrive 1 11; Restart; Arrive 1 12; Finish 1 false; Restart; Finish 1 true]
  = [LA 1 10; LS 1 10; LA 1 11; LR; LA 1 12; LF 1 false; LS 1 12; LR; LF 1 true].
Proof. vm_compute. reflexivity. Qed.

Print Assumptions C14_restart_keeps_state.
Print Assumptions C14_exclusive.
Print Assumptions C14_exclusive_inflight.
Print Assumptions C14_pending_inv.
Print Assumptions C14_latest.
Print Assumptions C14_pending_is_latest.
Print Assumptions C14_prompt.
Print Assumptions C14_prompt_success_or_exception.
Print Assumptions C14_eventually_applied.
Print Assumptions C14_independent.
Print Assumptions C14_frame.
Print Assumptions C14_projection.
Print Assumptions C14_replay_sound.
