(* C09 — placeholder while the proofs are staged *)
From Verif Require Import model.RingBuffer.
Example C09_placeholder : norm_slot 1000000 0 1500000 = 2.
Proof. vm_compute. reflexivity. Qed.
Print Assumptions C09_placeholder.
