(* C09 — Ring buffer / moving window behaves as a sliding time-indexed map.
   Statements only; every proof is `exact <lemma>` from proofs/RingBuffer*.v.

   Concrete side  : model/RingBuffer.v      (OrderedRingBuffer + MovingWindow.at/window/[]; cells,
                                             gap list, newest; every method as written)
   Abstract side  : model/RingBufferSpec.v  (newest slot N, map slot -> last valid value;
                                             update = reject if older than N-cap+1, advance, evict, write)
   Inv b a        : proofs/RingBufferInv.v  (gap list sorted / disjoint / non-adjacent / inside the
                                             window; outside the gaps the cells hold exactly the map;
                                             inside the gaps and outside the window the map is empty)

   Before the `fix:` commits the model of the then-current code refuted three of the statements below
   (kept as remarks only, the model now follows the repaired code):
     C09_window_datetimes_refuted_before_fix   cap 5, slots 0..4 written, window(2.1 s, 2.3 s): both ends
        round to slot 2, start_pos = end_pos, the WHOLE wrapped buffer (5 values) was returned  (F11);
        cap 6, slots 0,1,2,4,5 written, window(2.4 s, 5 s): fill offsets computed from the raw start,
        result [NaN, <unwritten cell>, 14] instead of [12, NaN, 14]                              (F12)
     C09_at_refuted_before_fix                 slots 0,1,4,5 written, at(2) = at(3 s) = mw[2] = the raw,
        never written cell; at(count_covered) wrapped to the oldest cell                         (F13)
     C09_counts_refuted_before_fix             period 100 ms, 3 consecutive samples:
        count_covered = int(0.3 // 0.1) = 2 *)
From Coq Require Import Lia.
From Verif Require Import gen.RingBuffer model.RingBuffer model.RingBufferSpec
     proofs.RingBufferGaps proofs.RingBufferInv proofs.RingBufferObs proofs.RingBufferDecl.

(* T-tie: wrap, normalize_timestamp and Gap.contains of the model ARE the methods translated from
   /repo's buffer.py on every run (gen/RingBuffer.v); these lemmas are what the proofs use of them *)
Theorem C09_wrap_as_translated : forall c i, wrap c i = i mod c.
Proof. exact wrap_mod. Qed.

Theorem C09_contains_as_translated : forall g k, contains g k = (fst g <=? k) && (k <? snd g).
Proof. exact contains_unfold. Qed.

(* normalize_timestamp(t) = align + n * period with n the floor quotient, +1 when the remainder is
   beyond half a period, or exactly half with n odd (half = timedelta / 2, modelled by td_half) *)
Theorem C09_normalize_as_translated : forall p a t, 0 < p ->
  gen.RingBuffer.rb_normalize_timestamp t a p (td_half p) = ts_of p a (norm_slot p a t) /\
  norm_slot p a t =
  (let n := (t - a) / p in let r := (t - a) mod p in
   if negb (r =? 0) && (((td_half p =? r) && negb (n mod 2 =? 0)) || (td_half p <? r)) then n + 1 else n).
Proof.
  intros p a t Hp. split; [|apply norm_slot_unfold; exact Hp].
  rewrite (norm_slot_unfold p a t Hp). unfold ts_of. rewrite normalize_timestamp_spec. reflexivity.
Qed.

(* ------------------------------------------------------------------ stage 1: update + gap list *)
Theorem C09_init : forall cs, cs <> [] -> Inv (init_rb cs) spec_init.
Proof. exact Inv_init. Qed.

(* the buffer rejects (IndexError) exactly the updates older than the window ... *)
Theorem C09_same_rejects : forall b a k v, Inv b a ->
  (update b k v = None <-> spec_update (cap b) a k v = None).
Proof. exact update_rejects. Qed.

(* ... and every accepted update (in order, out of order, duplicate, gap, jump of any size, valid or
   missing value) re-establishes the invariant against the updated abstract map *)
Theorem C09_refines : forall b a k v b', Inv b a -> update b k v = Some b' ->
  exists a', spec_update (cap b) a k v = Some a' /\ Inv b' a'.
Proof. exact update_preserves. Qed.

(* for EVERY history, starting from any non-empty container with arbitrary content *)
Theorem C09_refines_history : forall cs h, cs <> [] ->
  Inv (rb_run (init_rb cs) h) (spec_run (cap (init_rb cs)) spec_init h) /\
  cap (rb_run (init_rb cs) h) = cap (init_rb cs).
Proof. intros cs h H. apply run_preserves. apply Inv_init. exact H. Qed.

(* the reported gaps are exactly the window slots without a valid value *)
Theorem C09_gaps : forall b a n j, Inv b a -> newest b = Some n -> n - cap b + 1 <= j <= n ->
  gaps_ok (cap b) n (gaps b) /\ is_some (s_map a j) = negb (is_missing (gaps b) j).
Proof.
  intros b a n j HI Hn Hj. pose proof (inv_facts _ _ _ HI Hn) as F.
  split; [exact (f_gaps _ _ _ F)|exact (facts_some _ _ _ _ F Hj)].
Qed.

(* ------------------------------------------------------------------ stage 2: counts and bounds *)
Theorem C09_counts : forall b a, Inv b a ->
  count_valid b = spec_count (cap b) a /\ oldest_ts b = spec_oldest (cap b) a /\
  newest_ts b = spec_newest (cap b) a /\ count_covered b = spec_covered (cap b) a.
Proof. exact observers_inv. Qed.

(* ------------------------------------------------------------------ stage 3: queries *)
(* window(start, end) with arbitrary datetimes (microseconds): one value per slot of
   [max(round start, oldest valid), min(round end, newest + 1)), the stored valid value or the fill *)
Theorem C09_window_datetimes : forall p al b a s e f, Inv b a ->
  window_ts p al b s e (Some f) = RList (spec_window (cap b) a (norm_slot p al s) (norm_slot p al e) f).
Proof. exact window_ts_inv. Qed.

(* window(start, end) with indices (negative / None / out of range as for Python slices) *)
Theorem C09_window_indices : forall b a s e f, Inv b a ->
  window_idx b s e (Some f) = RList (spec_window_idx (cap b) a s e f).
Proof. exact window_idx_inv. Qed.

(* fill_value spelled out: for EVERY fill value v (NaN, 0, 0.0, -0.0, 1, negative, huge: v ranges over
   all cells) and every query range, slots covered by a sample read their sample, all other slots of
   the range read v -- by datetime and by index, ring buffer and MovingWindow.window alike *)
Theorem C09_window_fill_value : forall p al b a s e (v : cell), Inv b a ->
  window_ts p al b s e (Some v)
  = RList (map (fun j => match s_map a j with Some x => Some x | None => v end)
               (spec_cover (cap b) a (norm_slot p al s) (norm_slot p al e))).
Proof. exact window_ts_fill. Qed.

Theorem C09_window_fill_value_indices : forall b a s e (v : cell) o, Inv b a -> spec_oldest (cap b) a = Some o ->
  window_idx b s e (Some v)
  = RList (map (fun j => match s_map a j with Some x => Some x | None => v end)
               (spec_cover (cap b) a (o + slice_adj (spec_covered (cap b) a) s 0)
                                     (o + slice_adj (spec_covered (cap b) a) e (spec_covered (cap b) a)))).
Proof. exact window_idx_fill. Qed.

(* MovingWindow.at(i) / mw[i] and MovingWindow.at(datetime) / mw[datetime] *)
Theorem C09_at_index : forall b a i, Inv b a -> at_idx b i = spec_at_idx (cap b) a i.
Proof. exact at_idx_inv. Qed.

Theorem C09_at_datetime : forall p al b a t, 0 < p -> Inv b a ->
  at_ts p al b t = spec_at_ts p al (cap b) a t.
Proof. exact at_ts_inv. Qed.

(* never data from an evicted or unwritten slot: the answered slots lie inside the query and inside
   [oldest valid, newest] (itself inside the window), ... *)
Theorem C09_only_window_slots : forall b a s e j, Inv b a -> In j (spec_cover (cap b) a s e) ->
  s <= j < e /\
  exists o n, spec_oldest (cap b) a = Some o /\ s_new a = Some n /\ o <= j <= n /\ n - cap b + 1 <= o.
Proof. exact spec_cover_range. Qed.

(* ... every valid value of the map was written to that very slot by an update of the history
   (so the initial content of the container can never surface), ... *)
Theorem C09_values_from_history : forall c h j v,
  s_map (spec_run c spec_init h) j = Some v -> In (j, Some v) h.
Proof. intros c h j v H. destruct (spec_run_values c h spec_init j v H) as [X|X]; [discriminate|exact X]. Qed.

(* ... and never more slots than the query spans *)
Theorem C09_no_more_than_spanned : forall c a s e f,
  Z.of_nat (length (spec_window c a s e f)) <= Z.max 0 (e - s).
Proof. exact spec_window_length. Qed.

(* end to end, in microseconds: any container content, any history of samples, any datetime query *)
Theorem C09_sliding_map : forall p al cs (h : list (Z * cell)) s e f, cs <> [] ->
  let hist := map (fun x => (norm_slot p al (fst x), snd x)) h in
  window_ts p al (rb_run (init_rb cs) hist) s e (Some f)
  = RList (spec_window (cap (init_rb cs)) (spec_run (cap (init_rb cs)) spec_init hist)
                       (norm_slot p al s) (norm_slot p al e) f).
Proof.
  intros p al cs h s e f Hne hist.
  destruct (C09_refines_history cs hist Hne) as [HI Hcap].
  rewrite (window_ts_inv p al _ _ s e f HI). rewrite Hcap. reflexivity.
Qed.

(* what the abstract map IS, without recursion over updates: after any history the window ends at the
   largest slot that ever occurred; a slot of that window holds the value written to it last (None if
   never written or last written as missing); every other slot is empty.  (Hence the updates the
   buffer rejects are exactly those that cannot influence this content.) *)
Theorem C09_map_is_last_write : forall c h, 0 < c ->
  let a := spec_run c spec_init h in
  s_new a = hist_max h /\
  (forall j, last_write j h <> None -> exists N, hist_max h = Some N /\ j <= N) /\
  (forall j, s_map a j = match hist_max h with
                         | Some N => if N - c + 1 <=? j then last_write j h else None
                         | None => None
                         end).
Proof. exact spec_run_declarative. Qed.

(* fill_value=None (documented raw mode): same slots; every slot holding a valid value is reported
   with it; the remaining positions are unconstrained (the caller opted out of the fill) *)
Theorem C09_window_raw_mode : forall p al b a s e, Inv b a ->
  exists w, window_ts p al b s e None = RList w /\
            raw_agrees a (spec_cover (cap b) a (norm_slot p al s) (norm_slot p al e)) w.
Proof. exact window_ts_raw. Qed.

(* ------------------------------------------------------------------ normalize_timestamp *)
Theorem C09_normalize_grid_monotone : forall p al, 0 < p ->
  (forall k, norm_slot p al (ts_of p al k) = k) /\
  (forall t1 t2, t1 <= t2 -> norm_slot p al t1 <= norm_slot p al t2).
Proof. intros p al Hp. split; [intros; apply norm_slot_grid; exact Hp|intros; apply norm_slot_mono; assumption]. Qed.

(* nearest slot, ties to the even slot (periods of an even number of microseconds) *)
Theorem C09_normalize_nearest : forall p al t, 0 < p -> p mod 2 = 0 ->
  let k := norm_slot p al t in
  - p <= 2 * (t - ts_of p al k) <= p /\
  (2 * (t - ts_of p al k) = p \/ 2 * (t - ts_of p al k) = - p -> k mod 2 = 0).
Proof. exact norm_slot_nearest. Qed.

(* ------------------------------------------------------------------ non-vacuity *)
(* capacity 4, period 1 s; samples at 0 s (10), 1 s (11), 1.5 s (None: rounds to slot 2), 5 s (15:
   a jump), 4.4 s (14, out of order).  Window slots 2..5: slot 2 evicted/missing, 3 never written. *)
Example C09_nonvacuous :
  let p := 1000000 in
  let cs := [Some (-1000); Some (-1001); Some (-1002); Some (-1003)] in
  let h := [(0, Some 10); (1000000, Some 11); (1500000, None); (5000000, Some 15); (4400000, Some 14)] in
  let hist := map (fun x => (norm_slot p 0 (fst x), snd x)) h in
  let b := rb_run (init_rb cs) hist in
  cs <> [] /\
  gaps b = [(2, 4)] /\ count_valid b = 2 /\ oldest_ts b = Some 4 /\ newest_ts b = Some 5 /\
  window_ts p 0 b 2100000 2300000 (Some None) = RList [] /\
  window_ts p 0 b 3600000 9000000 (Some (Some (-5))) = RList [Some 14; Some 15] /\
  window_idx b (Some (-9)) None (Some None) = RList [Some 14; Some 15] /\
  at_idx b 2 = RErr /\ at_idx b (-1) = RVal (Some 15) /\
  update b 1 (Some 99) = None /\
  spec_update 4 (spec_run 4 spec_init hist) 1 (Some 99) = None.
Proof. cbv zeta. split; [discriminate|]. vm_compute. repeat split; reflexivity. Qed.

Print Assumptions C09_wrap_as_translated.
Print Assumptions C09_contains_as_translated.
Print Assumptions C09_normalize_as_translated.
Print Assumptions C09_init.
Print Assumptions C09_same_rejects.
Print Assumptions C09_refines.
Print Assumptions C09_refines_history.
Print Assumptions C09_gaps.
Print Assumptions C09_counts.
Print Assumptions C09_window_datetimes.
Print Assumptions C09_window_indices.
Print Assumptions C09_window_fill_value.
Print Assumptions C09_window_fill_value_indices.
Print Assumptions C09_at_index.
Print Assumptions C09_at_datetime.
Print Assumptions C09_only_window_slots.
Print Assumptions C09_values_from_history.
Print Assumptions C09_no_more_than_spanned.
Print Assumptions C09_sliding_map.
Print Assumptions C09_map_is_last_write.
Print Assumptions C09_window_raw_mode.
Print Assumptions C09_normalize_grid_monotone.
Print Assumptions C09_normalize_nearest.
