(* C05 — Formula output equals the arithmetic value of the expression.
   Statements only; every proof is `exact <lemma>` from proofs/. *)
From Coq Require Import NArith QArith List.
From Verif Require Import model.Common model.Formula proofs.FormulaFacts proofs.FormulaHO.
Import ListNotations.
Local Open Scope Q_scope.

(* Operator API: the program built by HigherOrderFormulaBuilder.build for ANY builder tree
   computes the value of the tree (each node = its operator applied to its operands' values). *)
Theorem C05_ho_program : forall rnd fv nz b,
  exec rnd fv (fst (compile_hb nz b)) [] = Some [hval rnd fv b].
Proof. exact compile_hb_exec. Qed.

Theorem C05_ho : forall rnd nz b env,
  run_round rnd (compile_hb nz b) env = finish (Some [hval rnd (fun n => fetch_val nz (env n)) b]).
Proof. exact run_round_hb. Qed.

Print Assumptions C05_ho_program.
Print Assumptions C05_ho.
