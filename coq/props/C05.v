(* C05 — Formula output equals the arithmetic value of the expression.
   Statements only; every proof is `exact <lemma>` from proofs/.

   Reading guide.  [run_round rnd prog env] is one round of the engine (model/Formula.v):
   fetch, run the post-fix steps on a stack, isnan/isinf -> None.  [rnd = Num] is exact
   arithmetic ("up to floating-point rounding" in the property); [D = option Q] is a real value
   or "undefined" (missing operand, zero divisor) -- no statement relies on Coq's x / 0 = 0.
   [fetch_D nz i] is what a stream contributes: its value, or (missing) undefined / 0 when
   nones_are_zeros.  [outcome_equiv] compares emitted rationals with Qeq. *)
From Coq Require Import NArith QArith List.
From Verif Require Import model.Common gen.Formula model.Formula proofs.FormulaFacts proofs.FormulaHO
  proofs.FormulaSY proofs.FormulaTok proofs.FormulaSum proofs.FormulaSteps proofs.FormulaPool.
Import ListNotations.
Local Open Scope Q_scope.

(* What the proofs use of the TRANSLATED _operator_precedence table: all ten keys are present
   and their relative order.  (Swapping two entries in the source breaks this obligation.) *)
Theorem C05_table_total : forall o, lookup_prec (oper_name o) operator_precedence <> None.
Proof. exact prec_total. Qed.
Theorem C05_table_order : forall a b, (prec a <? prec b)%Z = (rank a <? rank b)%nat.
Proof. exact prec_order. Qed.

(* The step semantics of the model is the `apply` body of each step class as TRANSLATED from
   _formula_steps.py on this run (gen/Formula.v), instantiated with the model's value operations
   [vops rnd] (IEEE-style add/sub/mul, division raising on a zero divisor, Python < and ==). *)
Theorem C05_steps_as_translated : forall rnd fv st,
  Adder_apply (vops rnd) st = exec_step rnd fv SAdd st /\
  Subtractor_apply (vops rnd) st = exec_step rnd fv SSub st /\
  Multiplier_apply (vops rnd) st = exec_step rnd fv SMul st /\
  Divider_apply (vops rnd) st = exec_step rnd fv SDiv st /\
  Maximizer_apply (vops rnd) st = exec_step rnd fv SMax st /\
  Minimizer_apply (vops rnd) st = exec_step rnd fv SMin st /\
  Consumption_apply (vops rnd) st = exec_step rnd fv SCons st /\
  Production_apply (vops rnd) st = exec_step rnd fv SProd st /\
  (forall lo hi, Clipper_apply (vops rnd) lo hi st = exec_step rnd fv (SClip lo hi) st) /\
  (forall c, ConstantValue_apply (vops rnd) c st = exec_step rnd fv (SConst c) st).
Proof. exact steps_as_translated. Qed.

(* Tokenizer: every spelling of a token list -- '#' + decimal digits, the six operator
   characters, any white-space (blank, \n, \r, \t) around tokens -- reads back as that list. *)
Theorem C05_tokenize : forall l trail,
  Forall (fun p => Forall (fun c => is_ws c = true) (fst p) /\ sp_ok (snd p)) l ->
  Forall (fun c => is_ws c = true) trail ->
  tokenize (render l trail) = Some (map (fun p => sp_tok (snd p)) l).
Proof. exact tokenize_spelling. Qed.

(* Formula strings, grammar form: a formula is an operand followed by (operator, operand) pairs,
   an operand is a metric, a constant or a parenthesised formula -- i.e. EVERY well-formed token
   list over # + - * / ( ), with any nesting and any redundant parentheses.  Its value [gval] is
   ordinary precedence, left to right ([std]).  from_string's program emits exactly that value. *)
Theorem C05_string_grammar : forall nz g env,
  outcome_equiv (run_round Num (compile nz (gtokens g)) env)
                (Emit (gval (fun n => fetch_D nz (env n)) g)).
Proof. exact gexpr_round. Qed.

(* Formula strings, AST form: an expression tree printed by the standard printer [pp]
   (precedence climbing: minimal parentheses for left-associative + - * /, plus arbitrary
   redundant [EParen]s) evaluates to the tree's value [evalD]; a zero divisor or a missing
   needed input gives None, never a wrong number and never a lost sample. *)
Theorem C05_string : forall nz e env,
  outcome_equiv (run_round Num (compile nz (pp 0 e)) env)
                (Emit (evalD (fun n => fetch_D nz (env n)) e)).
Proof. exact string_round. Qed.

(* the printed AST is in grammar form, with the same value *)
Theorem C05_printer_in_grammar : forall e, pp 0 e = gtokens (to_g e).
Proof. exact pp_gtokens. Qed.
Theorem C05_printer_value : forall fd e, deq (gval fd (to_g e)) (evalD fd e).
Proof. exact to_g_value. Qed.

(* Operator API: the program built by HigherOrderFormulaBuilder.build for ANY builder tree
   (engines, builders and constants combined by + - * / max min consumption production)
   computes the value of the tree, for every rounding function and every constant. *)
Theorem C05_ho_program : forall rnd fv nz b,
  exec rnd fv (fst (compile_hb nz b)) [] = Some [hval rnd fv b].
Proof. exact compile_hb_exec. Qed.

Theorem C05_ho : forall rnd nz b env,
  run_round rnd (compile_hb nz b) env = finish (Some [hval rnd (fun n => fetch_val nz (env n)) b]).
Proof. exact run_round_hb. Qed.

(* ... which in exact arithmetic is ordinary arithmetic on the inputs of the round *)
Theorem C05_ho_exact : forall nz b env, hb_consts_finite b = true ->
  run_round Num (compile_hb nz b) env = Emit (hvalD (fun n => fetch_D nz (env n)) b).
Proof. exact run_round_hb_exact. Qed.

(* a name used several times is one fetcher: every occurrence reads the same value with the
   flag of the first push *)
Theorem C05_shared_fetcher : forall nz ts env n, In (SFetch n) (fst (compile nz ts)) ->
  fetch_val (nz_flag (snd (compile nz ts)) n) (env n) = fetch_val nz (env n).
Proof. exact compile_fetch. Qed.

(* Link to C12 (coq/model/Graph.v describes every generated formula as a list of signed terms
   (id, sign, nones_are_zeros) and its harness checks the real generators' steps against it).
   The call sequence ALL generators in _formula_generators/*.py use -- push_component_metric for
   the first term, then push_oper("+") or push_oper("-") followed by push_component_metric for
   each further term, then build(); no parentheses, constants or clippers occur there; an empty
   component set is the single term NON_EXISTING_COMPONENT_ID with nones_are_zeros=True --
   compiles to a program whose round value is  sum_i sign_i * value_i  (left to right), where a
   missing value counts 0 on an id whose first push said nones_are_zeros and makes the sample
   None otherwise.  Exact arithmetic ("-" after "+" is re-associated a + (b - c) by the table). *)
Theorem C05_signed_sum : forall n0 z0 rest env,
  outcome_equiv (run_round Num (compile_signed n0 z0 rest) env)
                (Emit (signed_sum (fun n => fetch_D (signed_flag n0 z0 rest n) (env n)) n0 rest)).
Proof. exact signed_round. Qed.
(* the sum is undefined (None) exactly when some term's contribution is *)
Theorem C05_signed_sum_none : forall fd n0 rest,
  signed_sum fd n0 rest = None <-> fd n0 = None \/ exists t, In t rest /\ fd (st_id t) = None.
Proof. exact signed_sum_none_iff. Qed.
(* for EVERY rounding function: a sample in every round, None when a term is missing on a
   stream that is not zero-configured *)
Theorem C05_signed_always_emits : forall rnd n0 z0 rest env,
  run_round rnd (compile_signed n0 z0 rest) env <> Dropped.
Proof. exact signed_always_emits. Qed.
Theorem C05_signed_missing_none : forall rnd n0 z0 rest env n,
  n = n0 \/ (exists t, In t rest /\ st_id t = n) ->
  missing (env n) = true -> signed_flag n0 z0 rest n = false ->
  run_round rnd (compile_signed n0 z0 rest) env = Emit None.
Proof. exact signed_missing_none. Qed.

(* FormulaEnginePool.from_string (LogicalMeter.start_formula): the pool's key is the concatenation
   formula ++ metric name.  For every sequence of requests whose formulas are over the tokenizer's
   alphabet (no letters) and whose metric names start with a letter, the engine handed out for a
   request reads the request's metric and runs the request's formula: requests for the same string
   and different metrics never alias. *)
Theorem C05_pool_no_alias : forall reqs p, pool_inv p ->
  Forall (fun r => letter_free (fst (fst r)) /\ name_ok (snd (fst r))) reqs ->
  Forall2 (fun r e => pe_metric e = snd (fst r) /\ exists nz0, pe_prog e = compile_string nz0 (fst (fst r)))
          reqs (pool_run p reqs).
Proof. exact pool_no_alias. Qed.

(* non-vacuity: "#1 - #2 * ( ( #3 + #1 ) ) / #2 - #3" with 7, 2, 5: 7 - 2*12/2 - 5 = -10
   (evaluating left to right without precedence would give 25); the string tokenizes to pp e *)
Example C05_nonvacuous :
  let e := EBin Sub (EBin Sub (EVar 1) (EBin Div (EBin Mul (EVar 2) (EParen (EParen (EBin Add (EVar 3) (EVar 1))))) (EVar 2))) (EVar 3) in
  let env := fun n => if N.eqb n 1 then IVal 7 else if N.eqb n 2 then IVal 2 else IVal 5 in
  outcome_eqb (run_round Num (compile false (pp 0 e)) env) (Emit (Some (-10))) = true /\
  evalD (fun n => fetch_D false (env n)) e = Some (7 - 2 * (5 + 7) / 2 - 5) /\
  option_map (list_eqb (fun a b => match a, b with TMetric x, TMetric y => N.eqb x y | TOper x, TOper y => (rank x =? rank y)%nat | _, _ => false end) (pp 0 e))
    (tokenize [35;49;32;45;35;50;42;40;9;40;35;51;43;35;49;41;41;47;35;48;50;10;45;32;35;51]%N) = Some true.
Proof. vm_compute. repeat split. Qed.

Print Assumptions C05_steps_as_translated.
Print Assumptions C05_table_total.
Print Assumptions C05_table_order.
Print Assumptions C05_tokenize.
Print Assumptions C05_string_grammar.
Print Assumptions C05_string.
Print Assumptions C05_printer_in_grammar.
Print Assumptions C05_printer_value.
Print Assumptions C05_ho_program.
Print Assumptions C05_ho.
Print Assumptions C05_ho_exact.
Print Assumptions C05_shared_fetcher.
Print Assumptions C05_signed_sum.
Print Assumptions C05_signed_sum_none.
Print Assumptions C05_signed_always_emits.
Print Assumptions C05_signed_missing_none.
Print Assumptions C05_pool_no_alias.
