(* C18 — Pool SoC and capacity are the documented aggregates of working batteries.
   Statements only; every proof is `exact <lemma>` from proofs/.

   soc_calc bs / cap_calc bs = SoCCalculator.calculate / CapacityCalculator.calculate on the
   batteries bs (each with its working / present-in-metrics_data flags and optional metrics);
   doc_soc, doc_capacity     = the formulas in the docstrings of BatteryPool.soc / .capacity. *)
From Coq Require Import QArith List Lqa Permutation.
From Verif Require Import model.Common model.PoolBounds model.PoolMetrics proofs.PoolBoundsNum proofs.PoolMetricsFacts.
Import ListNotations.
Open Scope Q_scope.

(* SoC = usable-capacity-weighted mean of the rescaled, clamped SoCs (snapped to 100 when
   math.isclose says so); 0 when the total usable capacity x 100 is within 1e-9 of zero.
   limits_ok: no battery has distinct SoC limits that math.isclose treats as equal. *)
Theorem C18_soc_spec : forall bs r, (forall b, In b bs -> limits_ok b) -> soc_calc bs = Some r ->
  (is_close_to_zero (100 * doc_total bs) = false -> r == snap100 (doc_soc bs)) /\
  (is_close_to_zero (100 * doc_total bs) = true -> r == 0).
Proof. exact soc_spec. Qed.

(* capacity = sum of usable capacities *)
Theorem C18_capacity_spec : forall bs r, cap_calc bs = Some r -> r == doc_capacity bs.
Proof. exact cap_spec. Qed.

(* None exactly when no battery qualifies (working, present, all required metrics) *)
Theorem C18_soc_none_iff : forall bs, soc_calc bs = None <-> forall b, In b bs -> soc_qualifies b = false.
Proof. exact soc_none_iff. Qed.
Theorem C18_capacity_none_iff : forall bs, cap_calc bs = None <-> forall b, In b bs -> cap_qualifies b = false.
Proof. exact cap_none_iff. Qed.

(* 0 <= SoC <= 100 (capacities >= 0, lower limit <= upper limit; SoC itself unconstrained) *)
Theorem C18_range : forall bs r, (forall b, In b bs -> wf_bat b) -> soc_calc bs = Some r -> 0 <= r <= 100.
Proof. exact soc_range. Qed.

(* non-decreasing in every battery's SoC (any number of batteries raised at once) *)
Theorem C18_monotone : forall bs bs' r r',
  (forall b, In b bs -> wf_bat b) -> Forall2 soc_raised bs bs' ->
  soc_calc bs = Some r -> soc_calc bs' = Some r' -> r <= r'.
Proof. exact soc_monotone. Qed.

(* unchanged when all capacities are scaled by k > 0 — provided the zero-capacity guard, an
   absolute tolerance, answers the same before and after (hypothesis necessary, see below) *)
Theorem C18_scale : forall k bs, 0 < k ->
  is_close_to_zero (k * qsumf entry_total bs) = is_close_to_zero (qsumf entry_total bs) ->
  optQ_eq (soc_calc (scale_caps k bs)) (soc_calc bs).
Proof. exact soc_scale. Qed.

Theorem C18_scale_guard_hypothesis_needed : exists k bs,
  0 < k /\ (forall b, In b bs -> wf_bat b) /\ ~ optQ_eq (soc_calc (scale_caps k bs)) (soc_calc bs).
Proof.
  exists (1 # 1000000000000), [mkBat true true (Some 1) (Some 0) (Some 100) (Some 50)].
  split; [reflexivity|]. split.
  - intros b [<-|[]] _. cbn. split; lra.
  - vm_compute. intro H. discriminate H.
Qed.

(* batteries that are not working, absent from the data or lack a metric do not influence
   the result: it is a function of the qualifying batteries alone *)
Theorem C18_excluded : forall bs,
  soc_calc bs = soc_calc (filter soc_qualifies bs) /\ cap_calc bs = cap_calc (filter cap_qualifies bs).
Proof. intro bs. exact (conj (soc_excluded bs) (cap_excluded bs)). Qed.
Theorem C18_excluded_one : forall l1 b l2,
  (soc_qualifies b = false -> soc_calc (l1 ++ b :: l2) = soc_calc (l1 ++ l2)) /\
  (cap_qualifies b = false -> cap_calc (l1 ++ b :: l2) = cap_calc (l1 ++ l2)).
Proof. intros. exact (conj (soc_excluded_one l1 b l2) (cap_excluded_one l1 b l2)). Qed.

(* the iteration order of the `working_batteries` set does not matter *)
Theorem C18_order_free : forall bs bs', Permutation bs bs' ->
  optQ_eq (soc_calc bs) (soc_calc bs') /\ optQ_eq (cap_calc bs) (cap_calc bs').
Proof. intros bs bs' P. exact (conj (soc_permutation bs bs' P) (cap_permutation bs bs' P)). Qed.

(* non-vacuity: two working batteries (one outside its limits), one non-working, one incomplete *)
Example C18_nonvacuous :
  let bs := [mkBat true true (Some 100) (Some 10) (Some 90) (Some 50);
             mkBat true true (Some 50) (Some 20) (Some 80) (Some 95);
             mkBat false true (Some 70) (Some 0) (Some 100) (Some 10);
             mkBat true true (Some 70) None (Some 100) (Some 10)] in
  (forall b, In b bs -> wf_bat b) /\ (forall b, In b bs -> limits_ok b) /\
  optQ_eq (soc_calc bs) (Some (700 # 11)) /\ optQ_eq (cap_calc bs) (Some 110) /\
  is_close_to_zero (100 * doc_total bs) = false /\ doc_soc bs == 700 # 11.
Proof.
  cbv zeta. split; [|split].
  - intros b [<-|[<-|[<-|[<-|[]]]]] HQ; try discriminate HQ; cbn; split; lra.
  - intros b [<-|[<-|[<-|[<-|[]]]]] HQ HC; try discriminate HQ; vm_compute in HC; discriminate HC.
  - repeat split; vm_compute; reflexivity.
Qed.

Print Assumptions C18_soc_spec.
Print Assumptions C18_capacity_spec.
Print Assumptions C18_soc_none_iff.
Print Assumptions C18_capacity_none_iff.
Print Assumptions C18_range.
Print Assumptions C18_monotone.
Print Assumptions C18_scale.
Print Assumptions C18_scale_guard_hypothesis_needed.
Print Assumptions C18_excluded.
Print Assumptions C18_excluded_one.
Print Assumptions C18_order_free.
