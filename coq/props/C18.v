(* C18 — placeholder during development *)
From Coq Require Import QArith List.
From Verif Require Import model.PoolMetrics.
Example C18_dev : soc_calc nil = None.
Proof. reflexivity. Qed.
Print Assumptions C18_dev.
