(* C08 — Resampled values use exactly the recent, non-future input samples.
   Statements only; every proof is `exact <lemma>` from proofs/ResamplerWindow.v. *)
From Coq Require Import Lia.
From Verif Require Import model.Resampler proofs.ResamplerWindow.

(* CPython's bisect_right loop on a time-ordered buffer returns the number of stamps <= x, and the slice
   between two bisect positions is the half-open filter. *)
Theorem C08_bisect_right_filter : forall lo hi l, tsorted l ->
  islice l (bisect_right lo l) (bisect_right hi l) =
  filter (fun y => (lo <? i_ts y) && (i_ts y <=? hi)) l.
Proof. exact bisect_slice_filter. Qed.

(* For EVERY time-ordered valid history (any arrival pattern, any None/NaN in between, any earlier ticks with
   any oracle values for the estimated input period and the resized capacity): the sequence handed to the
   resampling function at tick T is exactly the buffered samples stamped in (T - relevance, T], where
   relevance = round_half_even(max_age * max(period, input period)); the buffer is a suffix of the valid
   history no longer than its capacity. *)
Theorem C08_window : forall c es T osp olen,
  tsorted (valid_hist es) ->
  let st' := fst (htick c (hfinal c (hinit c) es) T osp olen) in
  let passed := snd (htick c (hfinal c (hinit c) es) T osp olen) in
  passed = filter (in_window (T - relevance c st') T) (h_buf st') /\
  suffix (h_buf st') (valid_hist es) /\
  (length (h_buf st') <= Z.to_nat (h_maxlen st'))%nat.
Proof. exact window_exact. Qed.

(* "limited to the most recent ones that fit the configured buffer": until the input period is estimated the
   buffer is exactly the last initial_buffer_len valid samples ... *)
Theorem C08_buffer_most_recent : forall c es,
  h_sp (hfinal c (hinit c) es) = None ->
  h_buf (hfinal c (hinit c) es) = lastn (Z.to_nat (c_init_len c)) (valid_hist es) /\
  h_maxlen (hfinal c (hinit c) es) = c_init_len c.
Proof. exact buffer_most_recent. Qed.

(* ... the estimate (and with it the capacity) is fixed once, and from then on the buffer is the last
   `capacity` of (what it held then ++ the valid samples received since). *)
Theorem C08_buffer_after_estimate : forall c es st sp,
  h_sp st = Some sp -> (length (h_buf st) <= Z.to_nat (h_maxlen st))%nat ->
  h_buf (hfinal c st es) = lastn (Z.to_nat (h_maxlen st)) (h_buf st ++ valid_hist es) /\
  h_maxlen (hfinal c st es) = h_maxlen st /\ h_sp (hfinal c st es) = Some sp.
Proof. exact buffer_after_estimate. Qed.

(* Arrival order is preserved, nothing is invented (every history, time-ordered or not). *)
Theorem C08_order : forall c es T osp olen,
  subseq (snd (htick c (hfinal c (hinit c) es) T osp olen)) (valid_hist es).
Proof. exact passed_in_arrival_order. Qed.

(* No None / NaN sample ever reaches the function (every history); infinities and huge values are values. *)
Theorem C08_no_invalid : forall c es T osp olen x,
  In x (snd (htick c (hfinal c (hinit c) es) T osp olen)) ->
  i_kind x <> 1 /\ i_kind x <> 2 /\ In x (valid_hist es).
Proof. exact passed_all_valid. Qed.

(* Nothing stamped after T (or at/before T - relevance) reaches the function. *)
Theorem C08_no_future : forall c es T osp olen x,
  tsorted (valid_hist es) ->
  In x (snd (htick c (hfinal c (hinit c) es) T osp olen)) ->
  T - relevance c (fst (htick c (hfinal c (hinit c) es) T osp olen)) < i_ts x <= T.
Proof. exact passed_not_future. Qed.

(* The emitted value is None exactly when that set is empty. *)
Theorem C08_none_iff : forall c es T osp olen,
  tsorted (valid_hist es) ->
  let st' := fst (htick c (hfinal c (hinit c) es) T osp olen) in
  let passed := snd (htick c (hfinal c (hinit c) es) T osp olen) in
  (emits_value passed = false <-> passed = []) /\
  (emits_value passed = false <->
   forall x, In x (h_buf st') -> ~ (T - relevance c st' < i_ts x <= T)).
Proof. exact none_iff_empty. Qed.

(* timedelta * float: nearest microsecond to the exact product (ties to even); exact for integral ages *)
Theorem C08_relevance_rounding : forall a b, 0 < b ->
  let r := div_round_he a b in 2 * a - b <= 2 * b * r <= 2 * a + b.
Proof. exact div_round_he_nearest. Qed.

Theorem C08_relevance_integral_age : forall c st,
  c_age_d c = 1 ->
  relevance c st = c_age_n c * match h_sp st with Some sp => Z.max (c_period c) sp | None => c_period c end.
Proof. exact relevance_integral_age. Qed.

(* The two float computations of the resize control flow, as checked against the implementation on every
   compared run (hspec_ok): the estimate is (T - sampling_start)/received within a microsecond, the new
   capacity lies in [1, max_buffer_len]. *)
Theorem C08_estimate_spec : forall st T osp s0,
  h_start st = Some s0 -> 0 < h_recv st -> osp_ok st T osp = true ->
  (osp - 1) * h_recv st <= T - s0 <= (osp + 1) * h_recv st.
Proof. exact osp_ok_spec. Qed.

Theorem C08_capacity_bounds : forall c osp olen,
  1 <= c_max_len c -> olen_ok c osp olen = true -> 1 <= olen <= c_max_len c.
Proof. exact olen_ok_bounds. Qed.

(* Unless the exact quotient is within 1e-9 of an integer only the documented capacity is accepted from the
   implementation, and at the boundary between the two formulas -- input period EQUAL to the resampling period --
   the documented capacity is ceil(max_age) (clamped) for every period, not ceil(period_s * max_age). *)
Theorem C08_capacity_is_documented : forall c osp olen,
  olen_ok c osp olen = true ->
  let a := fst (len_quot c osp) in let b := snd (len_quot c osp) in
  a < (a mod b) * 1000000000 -> a < (b - a mod b) * 1000000000 ->
  olen = doc_len c osp.
Proof. exact olen_ok_is_documented. Qed.

Theorem C08_capacity_equal_period : forall c,
  0 < c_period c -> 0 < c_age_d c ->
  doc_len c (c_period c) = clamp_len c (ceil_div (c_age_n c) (c_age_d c)).
Proof. exact doc_len_equal_period. Qed.

Theorem C08_capacity_upsampling : forall c osp,
  c_period c < osp -> doc_len c osp = clamp_len c (ceil_div (osp * c_age_n c) (1000000 * c_age_d c)).
Proof. exact doc_len_upsampling. Qed.

(* period 0.5 s, max_age 4, input period exactly 0.5 s: capacity 4 is accepted, 2 (= ceil(0.5*4)) is not *)
Example C08_equal_period_example :
  let c := mkC 500000 4 1 4 1024 in
  doc_len c 500000 = 4 /\ olen_ok c 500000 4 = true /\ olen_ok c 500000 2 = false.
Proof. vm_compute. repeat split; reflexivity. Qed.

(* non-vacuity: period 1 s, max age 1.5, capacity 3; samples stamped 0.4 s, exactly T - 1.5 s (excluded),
   +1 us (included), a NaN, exactly T (included), T + 1 us (arrived early, excluded) *)
Example C08_nonvacuous :
  let c := mkC 1000000 3 2 3 1024 in
  let es := [Recv (mkI 400000 0 0); Recv (mkI 500000 1 0); Recv (mkI 500001 2 0); Recv (mkI 900000 3 2);
             Recv (mkI 2000000 4 0); Recv (mkI 2000001 5 0)] in
  tsorted (valid_hist es) /\
  snd (htick c (hfinal c (hinit c) es) 2000000 400000 4) = [mkI 500001 2 0; mkI 2000000 4 0] /\
  snd (htick c (hfinal c (hinit c) es) 4000000 720000 4) = [] /\
  relevance c (hinit c) = 1500000.
Proof.
  cbn zeta. split; [|vm_compute; repeat split; reflexivity].
  cbn. unfold tsorted. repeat (constructor; [|repeat constructor; unfold ts_le; cbn; lia]). constructor.
Qed.

Print Assumptions C08_bisect_right_filter.
Print Assumptions C08_window.
Print Assumptions C08_buffer_most_recent.
Print Assumptions C08_buffer_after_estimate.
Print Assumptions C08_order.
Print Assumptions C08_no_invalid.
Print Assumptions C08_no_future.
Print Assumptions C08_none_iff.
Print Assumptions C08_relevance_rounding.
Print Assumptions C08_relevance_integral_age.
Print Assumptions C08_estimate_spec.
Print Assumptions C08_capacity_bounds.
Print Assumptions C08_capacity_is_documented.
Print Assumptions C08_capacity_equal_period.
Print Assumptions C08_capacity_upsampling.
