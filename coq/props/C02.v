(* C02 — no inverter or battery group is commanded outside its power bounds.
   Statements only; every proof is `exact <lemma>` from proofs/Dist*.v.  Same model and vocabulary as props/C01.v.
   [setpoint_ok gs a]  a = (inverter id, set-point): the set-point is zero, or some inverter of gs with that id has it
                       inside its inclusion bounds and outside its exclusion zone
   [group_full g gr]   the total of group g's inverters is inside the aggregated battery inclusion bounds and is zero or
                       outside the aggregated battery exclusion zone
   On the unchanged tree C02_no_headroom and C02_group were refuted by corpus/C02/exact_fixed_F2_F3.json
   (fix commits ccb79d8, fcfd05e). *)
From Coq Require Import QArith List.
From Verif Require Import gen.DistConst model.Dist proofs.DistFacts proofs.DistBounds proofs.DistTop proofs.DistWitness.
Import ListNotations.
Open Scope Q_scope.

(* groups with two or more inverters: unconditional on the run *)
Theorem C02_inverter_multi : forall powf gs p r gr,
  wf_groups gs -> czero p = false -> distribute powf gs p = Some r -> In gr (res_groups r) ->
  length (pg_invs (gr_src gr)) <> 1%nat ->
  forall a, In a (gr_sp gr) -> setpoint_ok gs a.
Proof. exact distribute_inverter_multi. Qed.

(* every inverter; for single-inverter groups the set-point is the group's power, whose lower bound needs side_ok *)
Theorem C02_inverter_partial : forall powf gs p r gr,
  wf_groups gs -> czero p = false -> side_ok powf gs p -> distribute powf gs p = Some r -> In gr (res_groups r) ->
  forall a, In a (gr_sp gr) -> setpoint_ok gs a.
Proof. exact distribute_inverter_all. Qed.

(* group totals: inside the battery inclusion bounds always; zero or outside the battery exclusion zone when the
   split over the group's inverters leaves nothing over (always the case for single-inverter groups) *)
Theorem C02_group_partial : forall powf gs p r gr,
  wf_groups gs -> czero p = false -> side_ok powf gs p -> distribute powf gs p = Some r -> In gr (res_groups r) ->
  exists g, In g gs /\ gr_src gr = prepare (supply_of p) powf g /\
            (let a := aggregate (g_bats g) in a_il a <= sumsp (gr_sp gr) <= a_iu a) /\
            (gr_left gr == 0 -> group_full g gr).
Proof. exact distribute_group_partial. Qed.

(* known finding C02-split-leftover: at full strength the group clause is false *)
Theorem C02_group_refuted :
  exists gs p r gr g,
    wf_groups gs /\ admitted gs p /\ side_ok idf gs p /\ distribute idf gs p = Some r /\
    In gr (res_groups r) /\ In g gs /\ gr_src gr = prepare (supply_of p) idf g /\
    ~ group_full g gr /\ ~ gr_left gr == 0.
Proof. exact split_leftover_witness. Qed.

(* a group with no SoC headroom in the requested direction gets zero on every inverter, for every pow function
   with pow(0) = 0, i.e. every exponent > 0 (exponent 0: pow(0, 0) = 1, known finding C02-exponent0-full-battery) *)
Theorem C02_no_headroom : forall powf gs p r gr g,
  wf_groups gs -> czero p = false -> distribute powf gs p = Some r -> In gr (res_groups r) ->
  gr_src gr = prepare (supply_of p) powf g -> no_headroom (supply_of p) g -> powf 0 == 0 ->
  forall a, In a (gr_sp gr) -> snd a == 0.
Proof. exact distribute_no_headroom. Qed.

(* the exponent the BatteryManager passes to the algorithm (constant translated from /repo on every run) is 1,
   for which pow(x) = x and pow(0) = 0: the hypothesis of C02_no_headroom holds for the shipped configuration *)
Theorem C02_manager_exponent :
  0 < gen.DistConst.dist_manager_exponent /\ gen.DistConst.dist_manager_exponent == 1 /\ idf 0 == 0.
Proof. exact manager_exponent_positive. Qed.

(* every battery group and every inverter of the input appears in the result exactly once *)
Theorem C02_every_component_has_a_setpoint : forall powf gs p r,
  czero p = false -> distribute powf gs p = Some r ->
  Permutation.Permutation (map gr_src (res_groups r)) (pgs_of powf gs p) /\
  forall gr, In gr (res_groups r) ->
    Permutation.Permutation (map fst (gr_sp gr)) (map pi_id (pg_invs (gr_src gr))).
Proof. exact distribute_complete. Qed.

Example C02_nonvacuous :
  wf_groups [ex_full; ex_g1] /\ no_headroom false ex_full /\ admitted [ex_full; ex_g1] 100 /\
  wf_groups ex_gs /\ (side_ok idf ex_gs 120 /\ side_ok idf ex_gs (-120)).
Proof. exact (conj ex_full_wf (conj (proj1 ex_full_no_headroom) (conj (proj2 ex_full_no_headroom) (conj ex_wf ex_side_ok)))). Qed.

Print Assumptions C02_inverter_multi.
Print Assumptions C02_inverter_partial.
Print Assumptions C02_group_partial.
Print Assumptions C02_group_refuted.
Print Assumptions C02_no_headroom.
Print Assumptions C02_manager_exponent.
Print Assumptions C02_every_component_has_a_setpoint.
Print Assumptions C02_nonvacuous.
