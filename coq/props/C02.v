From Verif Require Import model.Dist.
Example C02_placeholder : True. Proof. exact I. Qed.
Print Assumptions C02_placeholder.
