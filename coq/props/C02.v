(* C02 — no inverter or battery group is commanded outside its power bounds.
   Statements only; every proof is `exact <lemma>` from proofs/Dist*.v.  Same model and vocabulary as props/C01.v.
   All theorems are unconditional on the run and need no admission condition.
   [setpoint_okx gs a] a = (inverter id, set-point): zero, or some inverter of gs with that id has it inside its inclusion
                       bounds and not strictly inside (1 - rel_tol) * its exclusion zone (rel_tol = math.isclose's 1e-9:
                       the minimum-power guard of fix 5d1dfb7 accepts totals that are isclose to the minimum)
   [setpoint_ok gs a]  the same without the factor (exact)
   [group_full g gr]   the total of group g's inverters is inside the aggregated battery inclusion bounds and is zero or not
                       strictly inside (1 - rel_tol) * the aggregated battery exclusion zone
   On the unchanged tree C02 was refuted by corpus/C02/*.json (fix commits ccb79d8, fcfd05e, 5d1dfb7). *)
From Coq Require Import QArith List.
From Verif Require Import gen.DistConst model.Dist model.DistMgr proofs.DistMgrFacts proofs.DistFacts proofs.DistBounds proofs.DistTop proofs.DistRemainder proofs.DistWitness.
Import ListNotations.
Open Scope Q_scope.

Theorem C02_inverter : forall powf gs p r gr,
  wf_groups gs -> czero p = false -> distribute powf gs p = Some r -> In gr (res_groups r) ->
  forall a, In a (gr_sp gr) -> setpoint_okx gs a.
Proof. exact distribute_inverter. Qed.

(* groups with two or more inverters: exact *)
Theorem C02_inverter_multi_exact : forall powf gs p r gr,
  wf_groups gs -> czero p = false -> distribute powf gs p = Some r -> In gr (res_groups r) ->
  length (pg_invs (gr_src gr)) <> 1%nat ->
  forall a, In a (gr_sp gr) -> setpoint_ok gs a.
Proof. exact distribute_inverter_multi. Qed.

Theorem C02_group : forall powf gs p r gr,
  wf_groups gs -> czero p = false -> distribute powf gs p = Some r -> In gr (res_groups r) ->
  exists g, In g gs /\ gr_src gr = prepare (supply_of p) powf g /\ group_full g gr.
Proof. exact distribute_group. Qed.

(* a request BatteryManager serves is exactly the algorithm's result on the data it was given, so the theorems above
   apply to the set_power calls of the manager stream (model/DistMgr.v) *)
Theorem C02_manager_runs_the_algorithm : forall powf gs p adj rr,
  manager_request powf gs p adj = MDone rr -> run_request powf gs p = Some rr /\ check_request gs p adj = true.
Proof. exact manager_done. Qed.

(* a group with no SoC headroom in the requested direction gets zero on every inverter, for every pow function
   with pow(0) = 0, i.e. every exponent > 0 (exponent 0: pow(0, 0) = 1, known finding C02-exponent0-full-battery) *)
Theorem C02_no_headroom : forall powf gs p r gr g,
  wf_groups gs -> czero p = false -> distribute powf gs p = Some r -> In gr (res_groups r) ->
  gr_src gr = prepare (supply_of p) powf g -> no_headroom (supply_of p) g -> powf 0 == 0 ->
  forall a, In a (gr_sp gr) -> snd a == 0.
Proof. exact distribute_no_headroom. Qed.

(* the exponent the BatteryManager passes to the algorithm (constant translated from /repo on every run) is 1,
   for which pow(x) = x and pow(0) = 0: the hypothesis of C02_no_headroom holds for the shipped configuration *)
Theorem C02_manager_exponent :
  0 < dist_manager_exponent /\ dist_manager_exponent == 1 /\ idf 0 == 0.
Proof. exact manager_exponent_positive. Qed.

(* every battery group and every inverter of the input appears in the result exactly once *)
Theorem C02_every_component_has_a_setpoint : forall powf gs p r,
  czero p = false -> distribute powf gs p = Some r ->
  Permutation.Permutation (map gr_src (res_groups r)) (pgs_of powf gs p) /\
  forall gr, In gr (res_groups r) ->
    Permutation.Permutation (map fst (gr_sp gr)) (map pi_id (pg_invs (gr_src gr))).
Proof. exact distribute_complete. Qed.

(* non-vacuity: a full battery next to a usable one; and the former finding's witness (a group whose inverters cannot
   realise its minimum power) is now simply not used: all set-points 0, the request returned as remainder *)
Example C02_nonvacuous :
  wf_groups [ex_full; ex_g1] /\ no_headroom false ex_full /\ admitted [ex_full; ex_g1] 100 /\
  wf_groups [sl_g] /\ admitted [sl_g] 25 /\
  exists r, distribute idf [sl_g] 25 = Some r /\ (forall a, In a (res_dist r) -> snd a == 0) /\ res_rem r == 25.
Proof.
  exact (conj ex_full_wf (conj (proj1 ex_full_no_headroom) (conj (proj2 ex_full_no_headroom)
        (conj sl_wf (conj (proj1 sl_fixed) (proj2 sl_fixed)))))).
Qed.

Print Assumptions C02_inverter.
Print Assumptions C02_inverter_multi_exact.
Print Assumptions C02_group.
Print Assumptions C02_manager_runs_the_algorithm.
Print Assumptions C02_no_headroom.
Print Assumptions C02_manager_exponent.
Print Assumptions C02_every_component_has_a_setpoint.
Print Assumptions C02_nonvacuous.
