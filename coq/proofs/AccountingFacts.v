(* Facts about the result-accounting model (C15). *)
From Coq Require Import Lia Lqa Permutation Setoid.
From Verif Require Import model.Accounting.
Open Scope Q_scope.

(* ------------------------------------------------------------------ order helpers *)
Lemma Qltb_false : forall a b, Qltb a b = false -> b <= a.
Proof.
  unfold Qltb. intros a b H. apply negb_false_iff in H. apply Qle_bool_iff. exact H.
Qed.

Lemma Qltb_true : forall a b, Qltb a b = true -> a < b.
Proof.
  unfold Qltb. intros a b H. apply negb_true_iff in H. apply Qnot_le_lt. intro L.
  apply Qle_bool_iff in L. congruence.
Qed.

Lemma Qmax_ge_l : forall a b, a <= Qmax a b.
Proof.
  intros a b. unfold Qmax. destruct (Qltb a b) eqn:E.
  - apply Qlt_le_weak. apply Qltb_true. exact E.
  - apply Qle_refl.
Qed.

Lemma Qmax_ge_r : forall a b, b <= Qmax a b.
Proof.
  intros a b. unfold Qmax. destruct (Qltb a b) eqn:E.
  - apply Qle_refl.
  - apply Qltb_false. exact E.
Qed.

Lemma Qmax_lub : forall a b c, a <= c -> b <= c -> Qmax a b <= c.
Proof. intros a b c Ha Hb. unfold Qmax. destruct (Qltb a b); assumption. Qed.

(* ------------------------------------------------------------------ membership helpers *)
Lemma memZ_In : forall x l, memZ x l = true <-> In x l.
Proof.
  intros x l. unfold memZ. rewrite existsb_exists. split.
  - intros [y [Hy E]]. apply Z.eqb_eq in E. subst. exact Hy.
  - intro H. exists x. split; [exact H|apply Z.eqb_refl].
Qed.

Lemma diffZ_In : forall x a b, In x (diffZ a b) <-> In x a /\ ~ In x b.
Proof.
  intros x a b. unfold diffZ. rewrite filter_In. split.
  - intros [Ha Hb]. split; [exact Ha|]. intro Hin. apply memZ_In in Hin. rewrite Hin in Hb. discriminate.
  - intros [Ha Hb]. split; [exact Ha|]. destruct (memZ x b) eqn:E; [|reflexivity].
    apply memZ_In in E. contradiction.
Qed.

Lemma is_nil_true : forall A (l : list A), is_nil l = true -> l = [].
Proof. intros A [|x l] H; [reflexivity|discriminate]. Qed.

Lemma is_nil_false : forall A (l : list A), is_nil l = false -> l <> [].
Proof. intros A [|x l] H; [discriminate|congruence]. Qed.

(* ------------------------------------------------------------------ the call list split by outcome *)
(* declarative reading of "the calls that failed": zip calls with outcomes, filter *)
Definition failed_calls (calls : list (Z * Q)) (outs : list outcome) : list (Z * Q) :=
  map fst (filter (fun co => call_failed (snd co)) (combine calls outs)).
Definition ok_calls (calls : list (Z * Q)) (outs : list outcome) : list (Z * Q) :=
  map fst (filter (fun co => negb (call_failed (snd co))) (combine calls outs)).

Lemma failed_setpoints_spec : forall c o, failed_setpoints c o = map snd (failed_calls c o).
Proof.
  unfold failed_calls. induction c as [|[i p] c IH]; intros [|o os]; try reflexivity.
  cbn. destruct (call_failed o); cbn; rewrite IH; reflexivity.
Qed.

Lemma ok_setpoints_spec : forall c o, ok_setpoints c o = map snd (ok_calls c o).
Proof.
  unfold ok_calls. induction c as [|[i p] c IH]; intros [|o os]; try reflexivity.
  cbn. destruct (call_failed o); cbn; rewrite IH; reflexivity.
Qed.

Lemma failed_ids_spec : forall c o, failed_ids c o = map fst (failed_calls c o).
Proof.
  unfold failed_calls. induction c as [|[i p] c IH]; intros [|o os]; try reflexivity.
  cbn. destruct (call_failed o); cbn; rewrite IH; reflexivity.
Qed.

Lemma ok_ids_spec : forall c o, ok_ids c o = map fst (ok_calls c o).
Proof.
  unfold ok_calls. induction c as [|[i p] c IH]; intros [|o os]; try reflexivity.
  cbn. destruct (call_failed o); cbn; rewrite IH; reflexivity.
Qed.

Lemma setpoints_split : forall c o, length c = length o ->
  qsum (failed_setpoints c o) + qsum (ok_setpoints c o) == qsum (map snd c).
Proof.
  induction c as [|[i p] c IH]; intros [|o os] L; try discriminate.
  - cbn. ring.
  - cbn in L. injection L as L. specialize (IH os L).
    cbn [failed_setpoints ok_setpoints map snd]. destruct (call_failed o); cbn [qsum]; lra.
Qed.

Lemma ids_split : forall c o i, length c = length o ->
  (In i (failed_ids c o) \/ In i (ok_ids c o) <-> In i (map fst c)).
Proof.
  induction c as [|[j p] c IH]; intros [|o os] i L; try discriminate.
  - cbn. tauto.
  - cbn in L. injection L as L. specialize (IH os i L).
    cbn [failed_ids ok_ids map fst]. destruct (call_failed o); cbn [In]; tauto.
Qed.

Lemma failed_ids_incl : forall c o i, In i (failed_ids c o) -> In i (map fst c).
Proof.
  induction c as [|[j p] c IH]; intros [|o os] i H; try (cbn in H; contradiction).
  cbn [failed_ids] in H. cbn [map fst In]. destruct (call_failed o).
  - destruct H as [H|H]; [left; exact H|right; eapply IH; exact H].
  - right. eapply IH. exact H.
Qed.

Lemma ok_ids_incl : forall c o i, In i (ok_ids c o) -> In i (map fst c).
Proof.
  induction c as [|[j p] c IH]; intros [|o os] i H; try (cbn in H; contradiction).
  cbn [ok_ids] in H. cbn [map fst In]. destruct (call_failed o).
  - right. eapply IH. exact H.
  - destruct H as [H|H]; [left; exact H|right; eapply IH; exact H].
Qed.

Lemma ids_disjoint : forall c o i, NoDup (map fst c) -> ~ (In i (failed_ids c o) /\ In i (ok_ids c o)).
Proof.
  induction c as [|[j p] c IH]; intros [|o os] i ND [Hf Hk]; try (cbn in Hf; contradiction).
  cbn [map fst] in ND. inversion ND as [|? ? Hnin ND']. subst.
  cbn [failed_ids ok_ids] in Hf, Hk. destruct (call_failed o).
  - destruct Hf as [Hf|Hf].
    + subst. apply Hnin. eapply ok_ids_incl. exact Hk.
    + apply (IH os i ND'). split; assumption.
  - destruct Hk as [Hk|Hk].
    + subst. apply Hnin. eapply failed_ids_incl. exact Hf.
    + apply (IH os i ND'). split; assumption.
Qed.

Lemma failed_ids_nil_setpoints : forall c o, failed_ids c o = [] -> failed_setpoints c o = [].
Proof.
  induction c as [|[j p] c IH]; intros [|o os] H; try reflexivity.
  cbn [failed_ids failed_setpoints] in *. destruct (call_failed o); [discriminate|apply IH; exact H].
Qed.

Lemma failed_ids_nil_all_ok : forall c o, length c = length o -> failed_ids c o = [] ->
  Forall (fun x => call_failed x = false) o.
Proof.
  induction c as [|[j p] c IH]; intros [|o os] L H; try discriminate; [constructor|].
  cbn in L. injection L as L. cbn [failed_ids] in H. destruct (call_failed o) eqn:E; [discriminate|].
  constructor; [exact E|apply IH; assumption].
Qed.

(* ================================================================== battery path *)
Lemma parse_result_fst : forall m d o, fst (parse_result m d o) = qsum (failed_setpoints d o).
Proof.
  induction d as [|[i p] d IH]; intros [|o os]; try reflexivity.
  cbn [parse_result failed_setpoints]. destruct (call_failed o); cbn [fst qsum]; rewrite IH; reflexivity.
Qed.

Lemma parse_result_snd : forall m d o, snd (parse_result m d o) = flat_map (inv_bats m) (failed_ids d o).
Proof.
  induction d as [|[i p] d IH]; intros [|o os]; try reflexivity.
  cbn [parse_result failed_ids]. destruct (call_failed o); cbn [snd flat_map]; rewrite IH; reflexivity.
Qed.

(* every addressed inverter is connected to at least one battery: how _get_battery_inverter_mappings builds the map *)
Definition bat_wf (x : bat_in) : Prop :=
  length (b_dist x) = length (b_out x) /\
  forall inv, In inv (map fst (b_dist x)) -> inv_bats (b_map x) inv <> [].

Lemma flat_map_nil_nonempty : forall (f : Z -> list Z) l, (forall i, In i l -> f i <> []) -> flat_map f l = [] -> l = [].
Proof.
  intros f [|a l] Hne H; [reflexivity|]. cbn in H. apply app_eq_nil in H. destruct H as [H _].
  exfalso. apply (Hne a); [left; reflexivity|exact H].
Qed.

Lemma bat_no_failed_bats_no_failed_calls : forall x, bat_wf x ->
  snd (parse_result (b_map x) (b_dist x) (b_out x)) = [] -> failed_ids (b_dist x) (b_out x) = [].
Proof.
  intros x [_ Hne] H. rewrite parse_result_snd in H.
  eapply flat_map_nil_nonempty; [|exact H]. intros i Hi. apply Hne. eapply failed_ids_incl. exact Hi.
Qed.

Lemma bat_answer_sum : forall x,
  r_succeeded_power (bat_answer x) + r_failed_power (bat_answer x) + r_excess (bat_answer x) == b_req x.
Proof.
  intro x. unfold bat_answer. destruct (is_nil _); cbn; ring.
Qed.

Lemma bat_answer_reported : forall x, r_reported (bat_answer x) = true.
Proof. intro x. unfold bat_answer. destruct (is_nil _); reflexivity. Qed.

Lemma bat_failed_sub_addressed : forall m d o b,
  In b (flat_map (inv_bats m) (failed_ids d o)) -> In b (bat_addressed m d).
Proof.
  intros m d o b H. unfold bat_addressed. apply in_flat_map in H. destruct H as [inv [Hi Hb]].
  apply failed_ids_incl in Hi. apply in_map_iff in Hi. destruct Hi as [c [Ec Hc]].
  apply in_flat_map. exists c. split; [exact Hc|]. rewrite Ec. exact Hb.
Qed.

Lemma bat_answer_sets_disjoint : forall x b,
  ~ (In b (r_succeeded (bat_answer x)) /\ In b (r_failed (bat_answer x))).
Proof.
  intros x b. unfold bat_answer. destruct (is_nil _); cbn [r_succeeded r_failed].
  - intros [_ H]. exact H.
  - intros [Hs Hf]. apply diffZ_In in Hs. destruct Hs as [_ Hs]. contradiction.
Qed.

Lemma bat_answer_sets_cover : forall x b,
  In b (r_succeeded (bat_answer x)) \/ In b (r_failed (bat_answer x)) <-> In b (bat_addressed (b_map x) (b_dist x)).
Proof.
  intros x b. unfold bat_answer. destruct (is_nil _) eqn:E; cbn [r_succeeded r_failed].
  - cbn [In]. tauto.
  - rewrite diffZ_In. split.
    + intros [[H _]|H]; [exact H|]. rewrite parse_result_snd in H. eapply bat_failed_sub_addressed. exact H.
    + intro H. destruct (memZ b (snd (parse_result (b_map x) (b_dist x) (b_out x)))) eqn:M.
      * right. apply memZ_In. exact M.
      * left. split; [exact H|]. intro Hin. apply memZ_In in Hin. congruence.
Qed.

(* the failed set is exactly the batteries behind the inverters whose call failed *)
Lemma bat_answer_failed_set : forall x b,
  In b (r_failed (bat_answer x)) <->
  exists inv, In inv (failed_ids (b_dist x) (b_out x)) /\ In b (inv_bats (b_map x) inv).
Proof.
  intros x b. rewrite <- in_flat_map. rewrite <- parse_result_snd.
  unfold bat_answer. destruct (is_nil _) eqn:E; cbn [r_failed].
  - apply is_nil_true in E. rewrite E. tauto.
  - tauto.
Qed.

Lemma bat_answer_failed_power : forall x, bat_wf x ->
  r_failed_power (bat_answer x) == qsum (failed_setpoints (b_dist x) (b_out x)).
Proof.
  intros x W. unfold bat_answer. destruct (is_nil _) eqn:E; cbn [r_failed_power].
  - apply is_nil_true in E. apply (bat_no_failed_bats_no_failed_calls x W) in E.
    rewrite (failed_ids_nil_setpoints _ _ E). cbn. apply Qeq_refl.
  - rewrite parse_result_fst. apply Qeq_refl.
Qed.

(* given C01's identity: what is reported as succeeded is what the successful calls carried *)
Lemma bat_answer_succeeded_power : forall x, bat_wf x ->
  qsum (map snd (b_dist x)) + b_rem x == b_req x ->
  r_succeeded_power (bat_answer x) == qsum (ok_setpoints (b_dist x) (b_out x)).
Proof.
  intros x W C01. pose proof (bat_answer_failed_power x W) as F. pose proof (bat_answer_sum x) as S.
  destruct W as [L _]. pose proof (setpoints_split _ _ L) as SP.
  assert (E : r_excess (bat_answer x) == b_rem x).
  { unfold bat_answer. destruct (is_nil _); cbn; apply Qeq_refl. }
  lra.
Qed.

Lemma bat_answer_kind : forall x, bat_wf x ->
  ((exists p s e, bat_answer x = Success p s e) <-> Forall (fun o => call_failed o = false) (b_out x)).
Proof.
  intros x W. split.
  - intros [p [s [e H]]]. unfold bat_answer in H. destruct (is_nil _) eqn:E; [|discriminate].
    apply is_nil_true in E. apply (bat_no_failed_bats_no_failed_calls x W) in E.
    destruct W as [L _]. eapply failed_ids_nil_all_ok; eassumption.
  - intro A. unfold bat_answer.
    assert (N : failed_ids (b_dist x) (b_out x) = []).
    { clear W. generalize (b_dist x). induction A as [|o os Ho A IH]; intros [|[i p] d]; try reflexivity.
      cbn [failed_ids]. rewrite Ho. apply IH. }
    rewrite parse_result_snd, N. cbn. eauto.
Qed.


(* --- the coroutine itself: raises on an empty distribution, otherwise answers as above *)
Lemma bat_result_nonempty : forall x, b_dist x <> [] -> bat_result x = bat_answer x.
Proof. intros x H. unfold bat_result. destruct (b_dist x); [contradiction|reflexivity]. Qed.

Lemma bat_result_empty : forall x, b_dist x = [] -> bat_result x = Raised.
Proof. intros x H. unfold bat_result. rewrite H. reflexivity. Qed.

Lemma bat_reported : forall x, r_reported (bat_result x) = true <-> b_dist x <> [].
Proof.
  intro x. split.
  - intros R E. rewrite (bat_result_empty x E) in R. discriminate.
  - intro N. rewrite (bat_result_nonempty x N). apply bat_answer_reported.
Qed.

Lemma bat_sum : forall x, b_dist x <> [] ->
  r_succeeded_power (bat_result x) + r_failed_power (bat_result x) + r_excess (bat_result x) == b_req x.
Proof. intros x N. rewrite (bat_result_nonempty x N). apply bat_answer_sum. Qed.

Lemma bat_sets_disjoint : forall x b,
  ~ (In b (r_succeeded (bat_result x)) /\ In b (r_failed (bat_result x))).
Proof.
  intros x b. unfold bat_result. destruct (is_nil (b_dist x)); [cbn; tauto|apply bat_answer_sets_disjoint].
Qed.

Lemma bat_sets_cover : forall x b,
  In b (r_succeeded (bat_result x)) \/ In b (r_failed (bat_result x)) <-> In b (bat_addressed (b_map x) (b_dist x)).
Proof.
  intros x b. unfold bat_result. destruct (is_nil (b_dist x)) eqn:E; [|apply bat_answer_sets_cover].
  apply is_nil_true in E. rewrite E. cbn. tauto.
Qed.

Lemma bat_failed_set : forall x b,
  In b (r_failed (bat_result x)) <->
  exists inv, In inv (failed_ids (b_dist x) (b_out x)) /\ In b (inv_bats (b_map x) inv).
Proof.
  intros x b. unfold bat_result. destruct (is_nil (b_dist x)) eqn:E; [|apply bat_answer_failed_set].
  apply is_nil_true in E. rewrite E. cbn. split; [tauto|]. intros [inv [[] _]].
Qed.

Lemma bat_failed_power : forall x, bat_wf x ->
  r_failed_power (bat_result x) == qsum (failed_setpoints (b_dist x) (b_out x)).
Proof.
  intros x W. unfold bat_result. destruct (is_nil (b_dist x)) eqn:E; [|apply bat_answer_failed_power; exact W].
  apply is_nil_true in E. rewrite E. cbn. apply Qeq_refl.
Qed.

Lemma bat_succeeded_power : forall x, bat_wf x ->
  qsum (map snd (b_dist x)) + b_rem x == b_req x ->
  r_succeeded_power (bat_result x) == qsum (ok_setpoints (b_dist x) (b_out x)).
Proof.
  intros x W C01. unfold bat_result. destruct (is_nil (b_dist x)) eqn:E; [|apply bat_answer_succeeded_power; assumption].
  apply is_nil_true in E. rewrite E. cbn. apply Qeq_refl.
Qed.

Lemma bat_kind : forall x, bat_wf x -> b_dist x <> [] ->
  ((exists p s e, bat_result x = Success p s e) <-> Forall (fun o => call_failed o = false) (b_out x)).
Proof. intros x W N. rewrite (bat_result_nonempty x N). apply bat_answer_kind. exact W. Qed.

(* ================================================================== PV path *)
Lemma pv_fill_cons : forall rem i b t,
  pv_fill rem ((i, b) :: t) =
  if Qltb 0 rem || close_to_zero rem
  then ((i, 0) :: fst (pv_fill rem t), snd (pv_fill rem t))
  else let alloc := Qmax (Qmax rem b) (rem / inject_Z (Z.of_nat (S (length t)))) in
       ((i, alloc) :: fst (pv_fill (rem - alloc) t), snd (pv_fill (rem - alloc) t)).
Proof. reflexivity. Qed.

(* loop invariant: what was handed out plus what is left is what was asked for *)
Lemma pv_fill_sum : forall l rem, qsum (map snd (fst (pv_fill rem l))) + snd (pv_fill rem l) == rem.
Proof.
  induction l as [|[i b] t IH]; intro rem.
  - cbn. ring.
  - rewrite pv_fill_cons. destruct (Qltb 0 rem || close_to_zero rem).
    + specialize (IH rem). cbn [fst snd map qsum]. lra.
    + cbv zeta. set (alloc := Qmax _ _). specialize (IH (rem - alloc)). cbn [fst snd map qsum]. lra.
Qed.

Lemma pv_fill_ids : forall l rem, map fst (fst (pv_fill rem l)) = map fst l.
Proof.
  induction l as [|[i b] t IH]; intro rem; [reflexivity|].
  rewrite pv_fill_cons. destruct (Qltb 0 rem || close_to_zero rem); cbv zeta; cbn [fst map]; rewrite IH; reflexivity.
Qed.

Lemma inject_pos : forall n, 0 < inject_Z (Z.of_nat (S n)).
Proof. intro n. unfold Qlt. cbn. lia. Qed.

(* each allocation is between the inverter's (non-positive) lower bound and zero *)
Lemma pv_fill_bounds : forall l rem,
  Forall2 (fun w a => fst a = fst w /\ (snd w <= 0 -> snd w <= snd a /\ snd a <= 0)) l (fst (pv_fill rem l)).
Proof.
  induction l as [|[i b] t IH]; intro rem; [constructor|].
  rewrite pv_fill_cons. destruct (Qltb 0 rem || close_to_zero rem) eqn:E.
  - cbn [fst]. constructor; [|apply IH]. cbn [fst snd]. split; [reflexivity|]. intro Hb. split; [exact Hb|apply Qle_refl].
  - cbv zeta. cbn [fst]. constructor; [|apply IH]. cbn [fst snd]. split; [reflexivity|]. intro Hb.
    apply orb_false_iff in E. destruct E as [E _]. apply Qltb_false in E.
    split.
    + eapply Qle_trans; [|apply Qmax_ge_l]. apply Qmax_ge_r.
    + apply Qmax_lub; [apply Qmax_lub; assumption|].
      apply Qle_shift_div_r; [apply inject_pos|]. lra.
Qed.

(* --- the sort only permutes the usable inverters *)
Lemma insert_desc_perm : forall x l, Permutation (insert_desc x l) (x :: l).
Proof.
  induction l as [|y t IH]; [reflexivity|]. cbn [insert_desc]. destruct (Qltb (snd x) (snd y)).
  - rewrite IH. apply perm_swap.
  - reflexivity.
Qed.

Lemma pv_sort_perm : forall l, Permutation (pv_sort l) l.
Proof.
  induction l as [|x t IH]; [reflexivity|]. unfold pv_sort in *. cbn [fold_right].
  rewrite insert_desc_perm. constructor. exact IH.
Qed.

Lemma with_data_In : forall l i b, In (i, b) (with_data l) <-> In (i, Some b) l.
Proof.
  induction l as [|[j [c|]] t IH]; intros i b; cbn [with_data In].
  - tauto.
  - rewrite IH. split.
    + intros [H|H]; [left; injection H as -> ->; reflexivity|right; exact H].
    + intros [H|H]; [left; injection H as -> ->; reflexivity|right; exact H].
  - rewrite IH. split; [tauto|]. intros [H|H]; [discriminate|exact H].
Qed.

Lemma with_data_ids_incl : forall l i, In i (map fst (with_data l)) -> In i (map fst l).
Proof.
  intros l i H. apply in_map_iff in H. destruct H as [[j b] [E H]]. cbn in E. subst.
  apply with_data_In in H. apply in_map_iff. exists (i, Some b). split; [reflexivity|exact H].
Qed.

Lemma with_data_NoDup : forall l, NoDup (map fst l) -> NoDup (map fst (with_data l)).
Proof.
  induction l as [|[j [c|]] t IH]; intro ND; cbn [with_data map fst] in *.
  - constructor.
  - inversion ND as [|? ? Hn ND']. subst. constructor; [|apply IH; exact ND'].
    intro H. apply Hn. apply with_data_ids_incl. exact H.
  - inversion ND as [|? ? Hn ND']. subst. apply IH. exact ND'.
Qed.

Lemma pv_sorted_NoDup : forall x, NoDup (map fst (p_working x)) -> NoDup (map fst (pv_sorted_working x)).
Proof.
  intros x ND. unfold pv_sorted_working.
  eapply Permutation_NoDup; [|apply with_data_NoDup; exact ND].
  apply Permutation_map. symmetry. apply pv_sort_perm.
Qed.

Lemma pv_sort_nil : forall l, pv_sort l = [] -> l = [].
Proof.
  intros l H. pose proof (pv_sort_perm l) as P. rewrite H in P. apply Permutation_nil in P. exact P.
Qed.

(* the sort is descending by bound *)
Fixpoint desc_sorted (l : list (Z * Q)) : Prop :=
  match l with
  | [] => True
  | x :: t => (forall y, In y t -> snd y <= snd x) /\ desc_sorted t
  end.

Lemma insert_desc_sorted : forall x l, desc_sorted l -> desc_sorted (insert_desc x l).
Proof.
  induction l as [|y t IH]; intro S.
  - cbn. split; [intros ? []|exact I].
  - cbn [insert_desc]. destruct S as [Sy St]. destruct (Qltb (snd x) (snd y)) eqn:E.
    + cbn [desc_sorted]. split; [|apply IH; exact St].
      intros z Hz. apply (Permutation_in _ (insert_desc_perm x t)) in Hz. destruct Hz as [Hz|Hz].
      * subst. apply Qlt_le_weak. apply Qltb_true. exact E.
      * apply Sy. exact Hz.
    + apply Qltb_false in E. cbn [desc_sorted]. split; [|split; assumption].
      intros z [Hz|Hz]; [subst; exact E|]. eapply Qle_trans; [apply Sy; exact Hz|exact E].
Qed.

Lemma pv_sort_sorted : forall l, desc_sorted (pv_sort l).
Proof.
  induction l as [|x t IH]; [exact I|]. unfold pv_sort in *. cbn [fold_right]. apply insert_desc_sorted. exact IH.
Qed.

(* --- results *)
Definition pv_distributing (x : pv_in) : Prop := p_tracker x = true /\ with_data (p_working x) <> [].

Lemma pv_result_distributing : forall x, pv_distributing x ->
  pv_result x = pv_set_api_power (p_req x - snd (pv_fill (p_req x) (pv_sorted_working x)))
                                 (pv_calls x) (snd (pv_fill (p_req x) (pv_sorted_working x))) (p_out x).
Proof.
  intros x [T W]. unfold pv_result, pv_result_with, pv_calls. rewrite T. cbn [negb].
  destruct (is_nil (pv_sorted_working x)) eqn:E; [|reflexivity].
  apply is_nil_true in E. unfold pv_sorted_working in E. apply pv_sort_nil in E. contradiction.
Qed.

Lemma pv_no_result : forall x, pv_result x = NoResult <-> p_tracker x = true /\ with_data (p_working x) = [].
Proof.
  intro x. split.
  - unfold pv_result, pv_result_with. destruct (p_tracker x); cbn [negb].
    + destruct (is_nil (pv_sorted_working x)) eqn:E.
      * intros _. split; [reflexivity|]. apply is_nil_true in E. apply pv_sort_nil in E. exact E.
      * unfold pv_set_api_power. destruct (is_nil (failed_ids _ _)); discriminate.
    + destruct (p_ids_empty x); discriminate.
  - intros [T W]. unfold pv_result, pv_result_with, pv_sorted_working. rewrite T, W. reflexivity.
Qed.

Lemma pv_reported : forall x, r_reported (pv_result x) = true <->
  (p_tracker x = false /\ p_ids_empty x = true) \/ pv_distributing x.
Proof.
  intro x. unfold pv_distributing. split.
  - unfold pv_result, pv_result_with. destruct (p_tracker x); cbn [negb].
    + destruct (is_nil (pv_sorted_working x)) eqn:E; [discriminate|].
      intros _. right. split; [reflexivity|]. intro W. unfold pv_sorted_working in E. rewrite W in E. discriminate.
    + destruct (p_ids_empty x); [|discriminate]. intros _. left. split; reflexivity.
  - intros [[T I]|D].
    + unfold pv_result, pv_result_with. rewrite T, I. reflexivity.
    + rewrite (pv_result_distributing x D). unfold pv_set_api_power. destruct (is_nil _); reflexivity.
Qed.

Lemma pv_sum : forall x, r_reported (pv_result x) = true ->
  r_succeeded_power (pv_result x) + r_failed_power (pv_result x) + r_excess (pv_result x) == p_req x.
Proof.
  intros x R. apply pv_reported in R. destruct R as [[T I]|D].
  - unfold pv_result, pv_result_with. rewrite T, I. cbn. ring.
  - rewrite (pv_result_distributing x D). unfold pv_set_api_power. destruct (is_nil _); cbn; ring.
Qed.

Lemma pv_calls_ids : forall x, p_tracker x = true -> map fst (pv_calls x) = map fst (pv_sorted_working x).
Proof. intros x T. unfold pv_calls. rewrite T. apply pv_fill_ids. Qed.

Lemma pv_alloc_sum : forall x, p_tracker x = true ->
  qsum (map snd (pv_calls x)) + snd (pv_fill (p_req x) (pv_sorted_working x)) == p_req x.
Proof. intros x T. unfold pv_calls. rewrite T. apply pv_fill_sum. Qed.

Lemma pv_excess : forall x, pv_distributing x ->
  r_excess (pv_result x) = snd (pv_fill (p_req x) (pv_sorted_working x)).
Proof.
  intros x D. rewrite (pv_result_distributing x D). unfold pv_set_api_power. destruct (is_nil _); reflexivity.
Qed.

Lemma pv_failed_power : forall x, pv_distributing x ->
  r_failed_power (pv_result x) == qsum (failed_setpoints (pv_calls x) (p_out x)).
Proof.
  intros x D. rewrite (pv_result_distributing x D). unfold pv_set_api_power.
  destruct (is_nil _) eqn:E; cbn [r_failed_power]; [|apply Qeq_refl].
  apply is_nil_true in E. rewrite (failed_ids_nil_setpoints _ _ E). cbn. apply Qeq_refl.
Qed.

Lemma pv_succeeded_power : forall x, pv_distributing x -> length (pv_calls x) = length (p_out x) ->
  r_succeeded_power (pv_result x) == qsum (ok_setpoints (pv_calls x) (p_out x)).
Proof.
  intros x D L. pose proof (pv_failed_power x D) as F.
  assert (R : r_reported (pv_result x) = true) by (apply pv_reported; right; exact D).
  pose proof (pv_sum x R) as S. pose proof (setpoints_split _ _ L) as SP.
  pose proof (pv_alloc_sum x (proj1 D)) as A. rewrite <- (pv_excess x D) in A. lra.
Qed.

Lemma pv_sets_disjoint : forall x i, NoDup (map fst (p_working x)) ->
  ~ (In i (r_succeeded (pv_result x)) /\ In i (r_failed (pv_result x))).
Proof.
  intros x i ND. unfold pv_result, pv_result_with. destruct (p_tracker x) eqn:T; cbn [negb].
  - destruct (is_nil (pv_sorted_working x)); [cbn; tauto|].
    unfold pv_set_api_power. destruct (is_nil (failed_ids _ _)); cbn [r_succeeded r_failed]; [cbn; tauto|].
    intros [Hs Hf]. eapply ids_disjoint; [|split; [exact Hf|exact Hs]].
    rewrite pv_fill_ids. apply pv_sorted_NoDup. exact ND.
  - destruct (p_ids_empty x); cbn; tauto.
Qed.

Lemma pv_sets_cover : forall x i, pv_distributing x -> length (pv_calls x) = length (p_out x) ->
  (In i (r_succeeded (pv_result x)) \/ In i (r_failed (pv_result x)) <-> In i (map fst (pv_calls x))).
Proof.
  intros x i D L. rewrite (pv_result_distributing x D). unfold pv_set_api_power.
  rewrite <- (ids_split _ _ i L).
  destruct (is_nil (failed_ids _ _)) eqn:E; cbn [r_succeeded r_failed].
  - apply is_nil_true in E. rewrite E. cbn [In]. tauto.
  - tauto.
Qed.

Lemma pv_failed_set : forall x, pv_distributing x -> r_failed (pv_result x) = failed_ids (pv_calls x) (p_out x).
Proof.
  intros x D. rewrite (pv_result_distributing x D). unfold pv_set_api_power.
  destruct (is_nil (failed_ids _ _)) eqn:E; cbn [r_failed]; [|reflexivity].
  apply is_nil_true in E. symmetry. exact E.
Qed.

Lemma pv_succeeded_set : forall x, pv_distributing x -> r_succeeded (pv_result x) = ok_ids (pv_calls x) (p_out x).
Proof.
  intros x D. rewrite (pv_result_distributing x D). unfold pv_set_api_power.
  destruct (is_nil (failed_ids _ _)); reflexivity.
Qed.

(* the addressed PV inverters are exactly the usable ones *)
Lemma pv_calls_usable : forall x i, p_tracker x = true ->
  (In i (map fst (pv_calls x)) <-> exists b, In (i, Some b) (p_working x)).
Proof.
  intros x i T. rewrite (pv_calls_ids x T). unfold pv_sorted_working. split.
  - intro H. apply (Permutation_in _ (Permutation_map fst (pv_sort_perm _))) in H.
    apply in_map_iff in H. destruct H as [[j b] [E H]]. cbn in E. subst. exists b. apply with_data_In. exact H.
  - intros [b H]. apply with_data_In in H.
    apply (Permutation_in _ (Permutation_sym (Permutation_map fst (pv_sort_perm _)))).
    apply in_map_iff. exists (i, b). split; [reflexivity|exact H].
Qed.

(* the defect repaired by the F14 commit: before it, a fully successful distribution of a non-zero power
   reported succeeded_power = 0 and broke the sum *)
Lemma pv_before_fix_refuted :
  let x := mkPV (-1000) false true [(1%Z, Some (-300)); (2%Z, Some (-600))] [OOk; OOk] in
  let r := pv_result_before_fix x in
  r_reported r = true /\ ~ (r_succeeded_power r + r_failed_power r + r_excess r == p_req x).
Proof. split; [reflexivity|]. vm_compute. discriminate. Qed.
