(* The remainder has the request's sign up to an explicit tolerance slack:
     - (n * eps + 2 * rel_tol * pool inclusion bound) <= remainder      (core: request magnitude p >= 0)
   derived from the property's domain (well-formed data + request admitted by the advertised
   exclusion bounds) for runs with and without deficits.  Ingredients:
     (1) the proportional shares never add up to more than the request;
     (2) exact bookkeeping of the deficit covering (what leaves the excess entries reduces the deficits);
     (3) an uncovered deficit (beyond eps) means every excess entry is at most eps;
     (4) math.isclose covers leave an excess of at least -2*rel_tol*(upper - min) (slot_inv);
     (5) the greedy top-up and the guarded split never hand out more than the positive parts. *)
From Coq Require Import QArith Qabs Lqa Lia List Bool Permutation.
From Verif Require Import model.Dist proofs.DistFacts proofs.DistBounds proofs.DistTop.
Import ListNotations.
Open Scope Q_scope.

(* ------------------------------------------------------------------ small arithmetic *)
Lemma share_le a r rho : 0 <= a -> 0 <= r -> r <= rho -> 0 < rho -> 0 <= a * r / rho <= a.
Proof.
  intros Ha Hr Hle Hrho.
  assert (K1 : 0 <= r / rho) by (apply Qle_shift_div_l; lra).
  assert (K2 : r / rho <= 1) by (apply Qle_shift_div_r; lra).
  assert (E : a * r / rho == a * (r / rho)) by (field; lra).
  rewrite E. split; nra.
Qed.

Lemma share_neg a r rho : a <= 0 -> 0 <= r -> 0 < rho -> a * r / rho <= 0.
Proof.
  intros Ha Hr Hrho. apply Qle_shift_div_r; auto. nra.
Qed.

Lemma czero_false_pos v : czero v = false -> 0 <= v -> eps < v.
Proof.
  intros H Hv. unfold czero in H. apply Qle_bool_false in H. rewrite Qabs_pos in H; auto.
Qed.

Lemma czero_le v : czero v = true -> v <= eps.
Proof. intro H. apply czero_true in H. pose proof (Qle_Qabs v). lra. Qed.

Lemma czero_ge v : czero v = true -> - eps <= v.
Proof. intro H. apply czero_true in H. pose proof (Qle_Qabs (- v)). rewrite Qabs_opp in H0. lra. Qed.

Lemma czero_proper a b : a == b -> czero a = czero b.
Proof.
  intro E. unfold czero. destruct (Qle_bool (Qabs b) eps) eqn:B.
  - apply Qle_bool_iff. apply Qle_bool_iff in B. rewrite E. exact B.
  - apply Qle_bool_false. apply Qle_bool_false in B. rewrite E. exact B.
Qed.

Lemma Qlt_bool_proper_l a b c : a == b -> Qlt_bool a c = Qlt_bool b c.
Proof.
  intro E. destruct (Qlt_bool b c) eqn:B.
  - apply Qlt_bool_iff. apply Qlt_bool_iff in B. lra.
  - apply Qlt_bool_false. apply Qlt_bool_false in B. lra.
Qed.

Definition pos (x : Q) : Q := qmax 0 x.
Lemma pos_nonneg x : 0 <= pos x. Proof. apply qmax_ge_l. Qed.
Lemma pos_ge x : x <= pos x. Proof. apply qmax_ge_r. Qed.
Lemma pos_cases x : (x <= 0 /\ pos x = 0) \/ (0 < x /\ pos x = x).
Proof. unfold pos. destruct (qmax_spec 0 x) as [[? ->]|[? ->]]; auto. Qed.

Lemma qsum_perm l l' : Permutation l l' -> qsum l == qsum l'.
Proof.
  induction 1; try reflexivity.
  - rewrite !qsum_cons. lra.
  - rewrite !qsum_cons. lra.
  - lra.
Qed.

Lemma qsum_le_map {A} (f g : A -> Q) l : (forall x, In x l -> f x <= g x) -> qsum (map f l) <= qsum (map g l).
Proof.
  induction l as [|x t IH]; intro H; [cbn; apply Qle_refl|]. cbn [map]. rewrite !qsum_cons.
  assert (Hx : f x <= g x) by (apply H; cbn; auto).
  assert (Ht : qsum (map f t) <= qsum (map g t)) by (apply IH; intros; apply H; cbn; auto).
  clear H IH. lra.
Qed.

Lemma qsum_le_len l c : (forall x, In x l -> x <= c) -> qsum l <= inject_Z (Z.of_nat (length l)) * c.
Proof.
  induction l as [|x t IH]; intro H; [unfold qsum; cbn [fold_right length Z.of_nat]; change (inject_Z 0) with 0; lra|]. rewrite qsum_cons.
  assert (Hx : x <= c) by (apply H; cbn; auto).
  assert (Ht : qsum t <= inject_Z (Z.of_nat (length t)) * c) by (apply IH; intros; apply H; cbn; auto).
  clear H IH. cbn [length]. rewrite Nat2Z.inj_succ. unfold Z.succ. rewrite inject_Z_plus. change (inject_Z 1) with 1. lra.
Qed.

(* ------------------------------------------------------------------ (1) the shares *)
Definition rsum (l : list entry) : Q := qsum (map e_ratio l).
(* the share a slot stands for: its minimum power plus its (signed) excess or deficit *)
Definition ctil (s : slot) : Q :=
  match s_kind s with KZero => 0 | KExcess e => s_min s + e | KDeficit d => s_min s + d end.

Lemma reserve_ctil_le p sr : forall l R U,
  rsum l <= sr - U ->
  (forall x, In x l -> 0 <= e_ratio x /\ 0 <= e_min x /\ e_min x <= e_upper x) ->
  qsum (map ctil (reserve p sr R U l)) <= pos (p - R).
Proof.
  induction l as [|x t IH]; intros R U HU Hl; [cbn; apply pos_nonneg|].
  assert (Hx : 0 <= e_ratio x /\ 0 <= e_min x /\ e_min x <= e_upper x) by (apply Hl; cbn; auto).
  assert (Ht : forall y, In y t -> 0 <= e_ratio y /\ 0 <= e_min y /\ e_min y <= e_upper y) by (intros; apply Hl; cbn; auto).
  assert (Hrt : 0 <= rsum t).
  { unfold rsum. apply qsum_nonneg. intros v Hv. apply in_map_iff in Hv. destruct Hv as (y & <- & Hy). now apply Ht. }
  unfold rsum in HU; cbn [map] in HU; rewrite qsum_cons in HU. fold (rsum t) in HU.
  destruct Hx as (Hr & Hm0 & Hmu). cbn [reserve].
  destruct (czero (sr - U) || czero (e_ratio x)) eqn:Z.
  - cbn [map]. rewrite qsum_cons. unfold ctil at 1; cbn [s_kind].
    assert (rsum t <= sr - U) by lra. specialize (IH R U H Ht). lra.
  - apply orb_false_iff in Z. destruct Z as [Z1 Z2].
    assert (Hrho : 0 < sr - U). { assert (0 <= sr - U) by lra. pose proof (czero_false_pos _ Z1 H). pose proof eps_pos. lra. }
    set (c := (p - R) * e_ratio x / (sr - U)) in *.
    cbn [map]. rewrite qsum_cons.
    assert (H2 : rsum t <= sr - (U + e_ratio x)) by lra.
    specialize (IH (R + qmax c (e_min x)) (U + e_ratio x) H2 Ht).
    set (T := qsum (map ctil (reserve p sr (R + qmax c (e_min x)) (U + e_ratio x) t))) in *.
    assert (Hhead : ctil (mkS (e_src x) (e_min x) (e_upper x)
                     (if Qlt_bool (e_upper x) c then KExcess (e_upper x - e_min x)
                      else if Qlt_bool c (e_min x) then KDeficit (c - e_min x) else KExcess (c - e_min x))) <= c).
    { unfold ctil; cbn [s_kind s_min]. destruct (Qlt_bool (e_upper x) c) eqn:A.
      - apply Qlt_bool_iff in A. lra.
      - destruct (Qlt_bool c (e_min x)); lra. }
    pose proof (qmax_ge_l c (e_min x)) as Q1. pose proof (qmax_ge_r c (e_min x)) as Q2.
    destruct (Qlt_le_dec (p - R) 0) as [N|N].
    + assert (c <= 0) by (apply share_neg; lra).
      destruct (pos_cases (p - (R + qmax c (e_min x)))) as [[? E]|[? E]]; rewrite E in IH; [|lra].
      destruct (pos_cases (p - R)) as [[? ->]|[? ->]]; lra.
    + assert (0 <= c <= p - R) by (apply share_le; lra).
      destruct (pos_cases (p - (R + qmax c (e_min x)))) as [[? E]|[? E]]; rewrite E in IH;
      destruct (pos_cases (p - R)) as [[? ->]|[? ->]]; lra.
Qed.

(* ------------------------------------------------------------------ (2)(3) the deficit covering *)
Definition exc (s : slot) : Q := match s_kind s with KExcess e => e | _ => 0 end.
Definition esum (l : list slot) : Q := qsum (map exc l).
Definition msum (l : list slot) : Q := qsum (map s_min l).
Definition allle (c : Q) (l : list slot) : Prop := forall s e, In s l -> s_kind s = KExcess e -> e <= c.
Definition has_exc (lp : Q) (l : list slot) : Prop := exists s, In s l /\ s_kind s = KExcess lp.

Lemma max_step_spec acc x :
  (forall b, acc = Some b -> exists b', max_step acc x = Some b' /\ b <= b') /\
  (forall e, s_kind x = KExcess e -> exists b', max_step acc x = Some b' /\ e <= b') /\
  (forall b', max_step acc x = Some b' -> acc = Some b' \/ s_kind x = KExcess b').
Proof.
  unfold max_step. destruct (s_kind x) as [|e|d].
  - repeat split; [intros b ->; exists b; split; auto; lra|intros e E; discriminate|auto].
  - destruct acc as [b|].
    + destruct (Qlt_bool b e) eqn:L.
      * apply Qlt_bool_iff in L. repeat split.
        -- intros b0 E; inversion E; subst. exists e. split; auto. lra.
        -- intros e0 E; inversion E; subst. exists e0. split; auto. lra.
        -- intros b' E; inversion E; subst. right; reflexivity.
      * apply Qlt_bool_false in L. repeat split.
        -- intros b0 E; inversion E; subst. exists b0. split; auto. lra.
        -- intros e0 E; inversion E; subst. exists b. split; auto.
        -- intros b' E. left; exact E.
    + repeat split.
      * intros b E; discriminate.
      * intros e0 E; inversion E; subst. exists e0. split; auto. lra.
      * intros b' E; inversion E; subst. right; reflexivity.
  - repeat split; [intros b ->; exists b; split; auto; lra|intros e E; discriminate|auto].
Qed.

Lemma max_step_fold : forall l acc m,
  fold_left max_step l acc = m ->
  (forall b, acc = Some b -> exists m', m = Some m' /\ b <= m') /\
  (forall s e, In s l -> s_kind s = KExcess e -> exists m', m = Some m' /\ e <= m') /\
  (forall m', m = Some m' -> acc = Some m' \/ has_exc m' l).
Proof.
  induction l as [|x t IH]; intros acc m H; cbn in H.
  - subst. repeat split.
    + intros b ->. exists b. split; auto. lra.
    + intros s e [].
    + intros m' ->. left; reflexivity.
  - destruct (IH _ _ H) as (I1 & I2 & I3). clear IH. destruct (max_step_spec acc x) as (S1 & S2 & S3).
    repeat split.
    + intros b E. destruct (S1 b E) as (b' & E' & ?). destruct (I1 b' E') as (m' & -> & ?). exists m'. split; auto. lra.
    + intros s e [<-|Hs] K; [|eapply I2; eauto].
      destruct (S2 e K) as (b' & E' & ?). destruct (I1 b' E') as (m' & -> & ?). exists m'. split; auto. lra.
    + intros m' ->. destruct (I3 m' eq_refl) as [A|(s & Hs & K)]; [|right; exists s; cbn; auto].
      destruct (S3 m' A) as [B|B]; [left; exact B|right; exists x; cbn; auto].
Qed.

Lemma max_excess_some l lp : max_excess l = Some lp -> allle lp l /\ has_exc lp l.
Proof.
  intro H. destruct (max_step_fold l None _ H) as (_ & I2 & I3). split.
  - intros s e Hs K. destruct (I2 s e Hs K) as (m' & E & ?). inversion E; subst. auto.
  - destruct (I3 lp eq_refl) as [A|A]; [discriminate|exact A].
Qed.

Lemma max_excess_none l : max_excess l = None -> forall c, allle c l.
Proof.
  intros H c s e Hs K. destruct (max_step_fold l None _ H) as (_ & I2 & _).
  destruct (I2 s e Hs K) as (m' & E & _). discriminate.
Qed.

Lemma take_first_esum lp v : forall l, has_exc lp l -> esum (take_first lp v l) == esum l - lp + v.
Proof.
  induction l as [|x t IH]; intros (s & Hs & K); [destruct Hs|].
  cbn [take_first]. unfold esum in *. destruct (s_kind x) as [|e|d] eqn:Kx.
  - cbn [map]. rewrite !qsum_cons. unfold exc at 1 3; rewrite Kx.
    destruct Hs as [<-|Hs]; [congruence|]. rewrite IH by (exists s; auto). lra.
  - destruct (Qeq_bool e lp) eqn:E.
    + apply Qeq_bool_iff in E. cbn [map]. rewrite !qsum_cons. unfold exc at 1 3; cbn [s_kind]. rewrite Kx. lra.
    + cbn [map]. rewrite !qsum_cons. unfold exc at 1 3; rewrite Kx.
      destruct Hs as [<-|Hs].
      * rewrite Kx in K. inversion K; subst. rewrite Qeq_bool_refl in E. discriminate.
      * rewrite IH by (exists s; auto). lra.
  - cbn [map]. rewrite !qsum_cons. unfold exc at 1 3; rewrite Kx.
    destruct Hs as [<-|Hs]; [congruence|]. rewrite IH by (exists s; auto). lra.
Qed.

Lemma take_first_mins lp v : forall l, map s_min (take_first lp v l) = map s_min l.
Proof.
  induction l as [|x t IH]; [reflexivity|]. cbn [take_first].
  destruct (s_kind x) as [|e|d] eqn:K.
  - cbn [map]. f_equal. exact IH.
  - destruct (Qeq_bool e lp); cbn [map s_min]; [reflexivity|f_equal; exact IH].
  - cbn [map]. f_equal. exact IH.
Qed.

Lemma take_first_msum lp v l : msum (take_first lp v l) = msum l.
Proof. unfold msum. now rewrite take_first_mins. Qed.

Lemma take_first_length lp v l : length (take_first lp v l) = length l.
Proof. rewrite <- (map_length s_min), take_first_mins. apply map_length. Qed.

Lemma take_first_allle c lp v l : allle c l -> v <= c -> allle c (take_first lp v l).
Proof.
  intros H Hv. unfold allle. intros s e Hs K. revert s Hs e K.
  apply (take_first_ind (fun s => forall e, s_kind s = KExcess e -> e <= c) lp v l).
  - intros s Hs e K. eapply H; eauto.
  - intros s e Hs K E e' K'. cbn in K'. inversion K'; subst. exact Hv.
Qed.

(* entries that still count as positive for the loop: not (close to zero or negative) *)
Definition posb (e : Q) : bool := negb (czero e || Qlt_bool e 0).
Definition cntpos (l : list slot) : nat :=
  length (filter (fun s => match s_kind s with KExcess e => posb e | _ => false end) l).

Lemma posb_proper a b : a == b -> posb a = posb b.
Proof. intro E. unfold posb. rewrite (czero_proper _ _ E), (Qlt_bool_proper_l _ _ 0 E). reflexivity. Qed.

Lemma cntpos_le_length l : (cntpos l <= length l)%nat.
Proof.
  unfold cntpos. induction l as [|x t IH]; cbn [filter length]; [lia|].
  destruct (match s_kind x with KExcess e => posb e | _ => false end); cbn [length]; lia.
Qed.

Lemma cntpos_take_first lp : forall l, has_exc lp l -> posb lp = true ->
  (cntpos (take_first lp 0 l) < cntpos l)%nat.
Proof.
  induction l as [|x t IH]; intros (s & Hs & K) P; [destruct Hs|].
  cbn [take_first]. unfold cntpos in *. destruct (s_kind x) as [|e|d] eqn:Kx.
  - cbn [filter]. rewrite Kx. destruct Hs as [<-|Hs]; [congruence|]. apply IH; auto. exists s; auto.
  - destruct (Qeq_bool e lp) eqn:E.
    + apply Qeq_bool_iff in E. cbn [filter s_kind]. rewrite Kx. rewrite (posb_proper _ _ E), P.
      assert (posb 0 = false) by reflexivity. rewrite H. cbn [length]. lia.
    + cbn [filter]. rewrite Kx. destruct Hs as [<-|Hs].
      * rewrite Kx in K. inversion K; subst. rewrite Qeq_bool_refl in E. discriminate.
      * assert (length (filter (fun s0 => match s_kind s0 with KExcess e0 => posb e0 | _ => false end) (take_first lp 0 t)) <
                length (filter (fun s0 => match s_kind s0 with KExcess e0 => posb e0 | _ => false end) t))%nat
          by (apply IH; auto; exists s; auto).
        destruct (posb e); cbn [length]; lia.
  - cbn [filter]. rewrite Kx. destruct Hs as [<-|Hs]; [congruence|]. apply IH; auto. exists s; auto.
Qed.

(* exact bookkeeping + range of the uncovered rest, for every fuel *)
Lemma cover_book : forall fuel d l, d <= 0 ->
  esum (fst (cover fuel d l)) == esum l + d - snd (cover fuel d l) /\
  d <= snd (cover fuel d l) <= 0 /\
  msum (fst (cover fuel d l)) = msum l /\ length (fst (cover fuel d l)) = length l.
Proof.
  induction fuel as [|f IH]; intros d l Hd; cbn [cover]; [cbn [fst snd]; repeat split; auto; lra|].
  destruct (czero d || negb (Qlt_bool d 0)) eqn:G; [cbn [fst snd]; repeat split; auto; lra|].
  apply orb_false_iff in G. destruct G as [_ G]. apply negb_false_iff in G. apply Qlt_bool_iff in G.
  destruct (max_excess l) as [lp|] eqn:M; [|cbn [fst snd]; repeat split; auto; lra].
  destruct (max_excess_some _ _ M) as [_ Hex].
  destruct (czero lp || Qlt_bool lp 0) eqn:B; [cbn [fst snd]; repeat split; auto; lra|].
  apply orb_false_iff in B. destruct B as [_ B]. apply Qlt_bool_false in B.
  destruct (Qle_bool (- d) lp || isclose lp (- d)) eqn:C.
  - cbn [fst snd]. rewrite take_first_esum by auto. rewrite take_first_msum, take_first_length.
    repeat split; auto; lra.
  - apply orb_false_iff in C. destruct C as [C _]. apply Qle_bool_false in C.
    assert (Hd' : d + lp <= 0) by lra. destruct (IH (d + lp) (take_first lp 0 l) Hd') as (I1 & I2 & I3 & I4).
    rewrite I1, I3, I4. rewrite take_first_esum by auto. rewrite take_first_msum, take_first_length.
    repeat split; auto; lra.
Qed.

(* with enough fuel an uncovered rest beyond eps means that every excess entry is at most eps *)
Lemma cover_uncovered : forall fuel d l, (cntpos l < fuel)%nat ->
  snd (cover fuel d l) < - eps -> allle eps (fst (cover fuel d l)).
Proof.
  induction fuel as [|f IH]; intros d l Hf Hr; [lia|]. cbn [cover] in *.
  destruct (czero d || negb (Qlt_bool d 0)) eqn:G.
  { cbn [fst snd] in *. exfalso. apply orb_true_iff in G. destruct G as [G|G].
    - apply czero_ge in G. lra.
    - apply negb_true_iff in G. apply Qlt_bool_false in G. pose proof eps_pos. lra. }
  destruct (max_excess l) as [lp|] eqn:M; [|cbn [fst]; now apply max_excess_none].
  destruct (max_excess_some _ _ M) as [Hall Hex].
  destruct (czero lp || Qlt_bool lp 0) eqn:B.
  { cbn [fst]. intros s e Hs K. specialize (Hall s e Hs K). apply orb_true_iff in B. destruct B as [B|B].
    - apply czero_le in B. lra.
    - apply Qlt_bool_iff in B. pose proof eps_pos. lra. }
  destruct (Qle_bool (- d) lp || isclose lp (- d)) eqn:C.
  - cbn [snd] in Hr. pose proof eps_pos. lra.
  - apply IH; auto. assert (cntpos (take_first lp 0 l) < cntpos l)%nat by (apply cntpos_take_first; auto; unfold posb; rewrite B; reflexivity). lia.
Qed.

Lemma cover_allle : forall fuel d l c, 0 <= c -> d <= 0 -> allle c l -> allle c (fst (cover fuel d l)).
Proof.
  induction fuel as [|f IH]; intros d l c Hc Hd H; cbn [cover]; [exact H|].
  destruct (czero d || negb (Qlt_bool d 0)); [exact H|].
  destruct (max_excess l) as [lp|] eqn:M; [|exact H].
  destruct (max_excess_some _ _ M) as [_ (s & Hs & K)]. assert (lp <= c) by (eapply H; eauto).
  destruct (czero lp || Qlt_bool lp 0) eqn:B; [exact H|].
  apply orb_false_iff in B. destruct B as [_ B]. apply Qlt_bool_false in B.
  destruct (Qle_bool (- d) lp || isclose lp (- d)) eqn:C; cbn [fst].
  - apply take_first_allle; auto. lra.
  - apply orb_false_iff in C. destruct C as [C _]. apply Qle_bool_false in C.
    apply IH; auto; [lra|]. apply take_first_allle; auto.
Qed.

Lemma cover_all_allle : forall ds l c, 0 <= c -> (forall d, In d ds -> d <= 0) -> allle c l ->
  allle c (fst (cover_all ds l)).
Proof.
  induction ds as [|d t IH]; intros l c Hc Hd H; [exact H|]. rewrite cover_all_cons.
  pose proof (cover_allle (S (length l)) d l c Hc (Hd d (or_introl eq_refl)) H) as H1.
  destruct (cover (S (length l)) d l) as [l1 r]. cbn [fst] in H1.
  specialize (IH l1 c Hc (fun d' Hd' => Hd d' (or_intror Hd')) H1).
  destruct (cover_all t l1) as [l2 rs]. exact IH.
Qed.

Lemma cover_all_book : forall ds l, (forall d, In d ds -> d <= 0) ->
  esum (fst (cover_all ds l)) == esum l + qsum ds - qsum (snd (cover_all ds l)) /\
  msum (fst (cover_all ds l)) = msum l /\ length (fst (cover_all ds l)) = length l /\
  length (snd (cover_all ds l)) = length ds /\
  (forall r, In r (snd (cover_all ds l)) -> r <= 0) /\
  ((exists r, In r (snd (cover_all ds l)) /\ r < - eps) -> allle eps (fst (cover_all ds l))).
Proof.
  induction ds as [|d t IH]; intros l Hd.
  - cbn [cover_all fst snd]. split; [unfold qsum; cbn [fold_right]; lra|]. split; [reflexivity|]. split; [reflexivity|].
    split; [reflexivity|]. split; [intros r []|intros (r & [] & _)].
  - rewrite cover_all_cons.
    assert (Hd0 : d <= 0) by (apply Hd; cbn; auto).
    assert (Ht : forall d', In d' t -> d' <= 0) by (intros; apply Hd; cbn; auto).
    destruct (cover_book (S (length l)) d l Hd0) as (B1 & B2 & B3 & B4).
    assert (Hf : (cntpos l < S (length l))%nat) by (pose proof (cntpos_le_length l); lia).
    pose proof (cover_uncovered (S (length l)) d l Hf) as BU.
    destruct (cover (S (length l)) d l) as [l1 r] eqn:C. cbn [fst snd] in *.
    destruct (IH l1 Ht) as (I1 & I2 & I3 & I4 & I5 & I6).
    pose proof (cover_all_allle t l1 eps (Qlt_le_weak _ _ eps_pos) Ht) as MA.
    destruct (cover_all t l1) as [l2 rs] eqn:A. cbn [fst snd] in *.
    rewrite qsum_cons. repeat split.
    + rewrite I1, B1. rewrite qsum_cons. lra.
    + congruence.
    + congruence.
    + cbn [length]. congruence.
    + intros r' [<-|Hr']; [lra|auto].
    + intros (r' & [<-|Hr'] & Hlt); [apply MA; apply BU; exact Hlt|apply I6; exists r'; auto].
Qed.

Lemma rests_cases (rs : list Q) : (forall r, In r rs -> - eps <= r) \/ (exists r, In r rs /\ r < - eps).
Proof.
  induction rs as [|r t [IH|(r' & H & L)]].
  - left. intros r [].
  - destruct (Qlt_le_dec r (- eps)) as [L|L]; [right; exists r; cbn; auto|left].
    intros r' [<-|H]; auto.
  - right. exists r'. cbn; auto.
Qed.

Lemma neg_qsum_le_len rs : (forall r, In r rs -> - eps <= r) -> - qsum rs <= inject_Z (Z.of_nat (length rs)) * eps.
Proof.
  intro H. assert (E : - qsum rs == qsum (map Qopp rs)).
  { clear H. induction rs as [|r t IH]; [reflexivity|]. cbn [map]. rewrite !qsum_cons, <- IH. lra. }
  rewrite E. rewrite <- (map_length Qopp rs). apply qsum_le_len. intros x Hx. apply in_map_iff in Hx.
  destruct Hx as (r & <- & Hr). specialize (H r Hr). lra.
Qed.

Lemma esum_le_len l : allle eps l -> esum l <= inject_Z (Z.of_nat (length l)) * eps.
Proof.
  intro H. unfold esum. rewrite <- (map_length exc l). apply qsum_le_len. intros x Hx. apply in_map_iff in Hx.
  destruct Hx as (s & <- & Hs). unfold exc. destruct (s_kind s) as [|e|d] eqn:K.
  - pose proof eps_pos; lra.
  - eapply H; eauto.
  - pose proof eps_pos; lra.
Qed.

(* ------------------------------------------------------------------ sums over slots *)
Definition psum (l : list slot) : Q := qsum (map slot_power l).
Definition zero_min (l : list slot) : Prop := forall s, In s l -> s_kind s = KZero -> s_min s = 0.

Lemma psum_split l : zero_min l -> psum l == msum l + esum l.
Proof.
  unfold psum, msum, esum. induction l as [|s t IH]; intro H; [reflexivity|]. cbn [map]. rewrite !qsum_cons.
  rewrite IH by (intros s' Hs'; apply H; cbn; auto). unfold slot_power, exc.
  destruct (s_kind s) eqn:K; [rewrite (H s (or_introl eq_refl) K)|..]; lra.
Qed.

Lemma ctil_split l : zero_min l -> qsum (map ctil l) == msum l + esum l + qsum (deficits_of l).
Proof.
  unfold msum, esum, deficits_of. induction l as [|s t IH]; intro H; [reflexivity|]. cbn [map flat_map].
  rewrite qsum_app, !qsum_cons. rewrite IH by (intros s' Hs'; apply H; cbn; auto). unfold ctil, exc.
  destruct (s_kind s) eqn:K; [rewrite (H s (or_introl eq_refl) K)|..]; cbn; lra.
Qed.

Lemma deficits_length l : (length (deficits_of l) <= length l)%nat.
Proof.
  unfold deficits_of. induction l as [|s t IH]; [cbn; lia|]. cbn [flat_map]. rewrite app_length.
  destruct (s_kind s); cbn [length]; lia.
Qed.

Lemma reserve_facts p sr : forall l R U,
  (forall x, In x l -> 0 <= e_min x) ->
  zero_min (reserve p sr R U l) /\
  (forall d, In d (deficits_of (reserve p sr R U l)) -> d <= 0) /\
  msum (reserve p sr R U l) <= qsum (map e_min l).
Proof.
  induction l as [|x t IH]; intros R U Hl.
  - cbn. repeat split; try lra. intros s []. intros d [].
  - assert (Hx : 0 <= e_min x) by (apply Hl; cbn; auto).
    assert (Ht : forall y, In y t -> 0 <= e_min y) by (intros; apply Hl; cbn; auto).
    cbn [reserve]. destruct (czero (sr - U) || czero (e_ratio x)).
    + destruct (IH R U Ht) as (I1 & I2 & I3). repeat split.
      * intros s [<-|Hs] K; [reflexivity|auto].
      * intros d Hd. unfold deficits_of in Hd. cbn [flat_map s_kind] in Hd. cbn in Hd. apply I2. exact Hd.
      * unfold msum in *. cbn [map s_min]. rewrite !qsum_cons. lra.
    + set (c := (p - R) * e_ratio x / (sr - U)).
      destruct (IH (R + qmax c (e_min x)) (U + e_ratio x) Ht) as (I1 & I2 & I3). repeat split.
      * intros s [<-|Hs] K; [|auto]. cbn in K. destruct (Qlt_bool (e_upper x) c); [discriminate|].
        destruct (Qlt_bool c (e_min x)); discriminate.
      * intros d Hd. unfold deficits_of in Hd. cbn [flat_map s_kind] in Hd. apply in_app_or in Hd.
        destruct Hd as [Hd|Hd]; [|apply I2; exact Hd].
        destruct (Qlt_bool (e_upper x) c); [destruct Hd|].
        destruct (Qlt_bool c (e_min x)) eqn:B; [|destruct Hd]. apply Qlt_bool_iff in B.
        destruct Hd as [<-|[]]. lra.
      * unfold msum in *. cbn [map s_min]. rewrite !qsum_cons. lra.
Qed.

Lemma reserve_length p sr : forall l R U, length (reserve p sr R U l) = length l.
Proof. intros. rewrite <- (map_length s_src), reserve_src. apply map_length. Qed.

(* ------------------------------------------------------------------ ratios, admission *)
Definition ratio_ok (g : pgroup) : Prop := 0 <= pg_factor g /\ 0 < pg_cap g.
(* the request is at least the advertised exclusion bound (per group the larger of the battery bound and the
   summed inverter bounds) *)
Definition adm_core (gs : list pgroup) (p : Q) : Prop :=
  qsum (map (fun g => qmax (pg_bexcl g) (qsum (map pi_excl (pg_invs g)))) gs) <= p.

Lemma total_cap_pos gs : gs <> [] -> (forall g, In g gs -> ratio_ok g) -> 0 < total_cap gs.
Proof.
  unfold total_cap. induction gs as [|g t IH]; [congruence|]. intros _ H. cbn [map]. rewrite qsum_cons.
  assert (0 < pg_cap g) by (apply H; cbn; auto).
  destruct t as [|g' t']; [cbn; lra|].
  assert (0 < qsum (map pg_cap (g' :: t'))) by (apply IH; [congruence|intros; apply H; cbn; auto]). lra.
Qed.

Lemma entry_ratio_nonneg gs x : (forall g, In g gs -> ratio_ok g) -> In x (entries gs) -> 0 <= e_ratio x.
Proof.
  intros H Hx. unfold entries in Hx. apply sort_entries_in in Hx. apply in_map_iff in Hx.
  destruct Hx as (g & <- & Hg). unfold mk_entry; cbn [e_ratio].
  assert (0 < total_cap gs) by (apply total_cap_pos; auto; destruct gs; [destruct Hg|congruence]).
  destruct (H g Hg) as [Hf Hc].
  assert (0 <= pg_cap g / total_cap gs) by (apply Qle_shift_div_l; lra).
  nra.
Qed.

Lemma rsum_entries gs : rsum (entries gs) == sum_ratio gs.
Proof.
  unfold rsum, entries, sum_ratio. rewrite (qsum_perm _ _ (Permutation_map e_ratio (sort_entries_perm _))).
  rewrite map_map. reflexivity.
Qed.

Lemma qminl_le_qsum l : (forall x, In x l -> 0 <= x) -> qminl l <= qsum l.
Proof.
  destruct l as [|x t]; intro H; [cbn; lra|]. cbn [qminl]. rewrite qsum_cons.
  pose proof (fold_qmin_le t x). assert (0 <= qsum t) by (apply qsum_nonneg; intros; apply H; cbn; auto). lra.
Qed.

Lemma min_power_le_adv g : wf_pg g -> min_power g <= qmax (pg_bexcl g) (qsum (map pi_excl (pg_invs g))).
Proof.
  intros (Hi & _). unfold min_power.
  assert (qminl (map pi_excl (pg_invs g)) <= qsum (map pi_excl (pg_invs g))).
  { apply qminl_le_qsum. intros x Hx. apply in_map_iff in Hx. destruct Hx as (i & <- & Hin). now destruct (Hi i Hin). }
  destruct (qmax_spec (pg_bexcl g) (qminl (map pi_excl (pg_invs g)))) as [[? ->]|[? ->]];
  destruct (qmax_spec (pg_bexcl g) (qsum (map pi_excl (pg_invs g)))) as [[? ->]|[? ->]]; lra.
Qed.

Lemma entries_min_le gs p : wf_pgs gs -> adm_core gs p -> qsum (map e_min (entries gs)) <= p.
Proof.
  intros Hwf Ha. unfold entries. rewrite (qsum_perm _ _ (Permutation_map e_min (sort_entries_perm _))).
  rewrite map_map. unfold adm_core in Ha. eapply Qle_trans; [|exact Ha].
  apply qsum_le_map. intros g Hg. cbn [mk_entry e_min]. apply min_power_le_adv. auto.
Qed.

Lemma entries_length gs : length (entries gs) = length gs.
Proof. unfold entries. rewrite (Permutation_length (sort_entries_perm _)). apply map_length. Qed.

Lemma inj_nat_le (k n : nat) : (k <= n)%nat -> inject_Z (Z.of_nat k) <= inject_Z (Z.of_nat n).
Proof. intro H. rewrite <- Zle_Qle. lia. Qed.

Lemma inj_nat_nonneg (n : nat) : 0 <= inject_Z (Z.of_nat n).
Proof. change 0 with (inject_Z 0). rewrite <- Zle_Qle. lia. Qed.

(* the left-over handed to the greedy top-up is at least -n*eps *)
Lemma left_over_ge gs p :
  wf_pgs gs -> (forall g, In g gs -> ratio_ok g) -> adm_core gs p -> 0 <= p ->
  - (inject_Z (Z.of_nat (length gs)) * eps) <= left_over gs p.
Proof.
  intros Hwf Hr Ha Hp.
  assert (Hent : forall x, In x (entries gs) -> 0 <= e_ratio x /\ 0 <= e_min x /\ e_min x <= e_upper x).
  { intros x Hx. destruct (entries_ok gs Hwf x Hx) as (W & Em & Eu & _). rewrite Em, Eu.
    split; [eapply entry_ratio_nonneg; eauto|]. split; [now apply min_power_nonneg|now destruct W as (_ & _ & ?)]. }
  set (sl0 := reserved_slots gs p).
  destruct (reserve_facts p (sum_ratio gs) (entries gs) 0 0 (fun x Hx => proj1 (proj2 (Hent x Hx)))) as (Fz & Fd & Fm).
  fold (reserved_slots gs p) in Fz, Fd, Fm. fold sl0 in Fz, Fd, Fm.
  assert (C : qsum (map ctil sl0) <= p).
  { unfold sl0, reserved_slots. eapply Qle_trans; [apply reserve_ctil_le|].
    - rewrite rsum_entries. lra.
    - exact Hent.
    - destruct (pos_cases (p - 0)) as [[? ->]|[? ->]]; lra. }
  pose proof (ctil_split sl0 Fz) as CS.
  pose proof (entries_min_le gs p Hwf Ha) as Mp.
  destruct (cover_all_book (deficits_of sl0) sl0 Fd) as (B1 & B2 & B3 & B4 & B5 & B6).
  assert (Hn : length sl0 = length gs) by (unfold sl0, reserved_slots; rewrite reserve_length; apply entries_length).
  assert (Hz : zero_min (fst (cover_all (deficits_of sl0) sl0))).
  { intros s Hs K. destruct (covered_inv gs p Hwf s Hs) as [(_ & _ & Hk) _]. rewrite K in Hk. tauto. }
  pose proof (psum_split _ Hz) as PS.
  assert (LO : left_over gs p == p - psum (fst (cover_all (deficits_of sl0) sl0))).
  { unfold left_over, assigned, covered_slots, apply_excess. fold sl0. rewrite map_map. cbn [gp_power]. reflexivity. }
  rewrite LO. pose proof eps_pos as He.
  destruct (rests_cases (snd (cover_all (deficits_of sl0) sl0))) as [A|Bc].
  - pose proof (neg_qsum_le_len _ A) as NA. rewrite B4 in NA.
    pose proof (inj_nat_le _ _ (deficits_length sl0)) as K. rewrite Hn in K.
    rewrite B2 in PS. nra.
  - pose proof (esum_le_len _ (B6 Bc)) as EB. rewrite B3, Hn in EB. rewrite B2 in PS. lra.
Qed.

(* ------------------------------------------------------------------ (4) negative parts after approximate covers *)
Lemma slot_power_lb s : slot_inv s -> - (2 * rel_tol) * s_upper s <= slot_power s.
Proof.
  intros (Hwf & Hb & Hk). pose proof (min_power_nonneg _ Hwf) as Hm. unfold slot_power, rel_tol in *.
  destruct (s_kind s) as [|e|d].
  - destruct Hk as [_ ->]. lra.
  - destruct Hk as (Em & Eu & H1 & H2). rewrite Em in *. lra.
  - destruct Hk as (Em & Eu & H1). rewrite Em in *. lra.
Qed.

Definition usum (l : list slot) : Q := qsum (map s_upper l).
Definition ppsum (l : list gpower) : Q := qsum (map (fun g => pos (gp_power g)) l).

Lemma ppsum_assigned l :
  (forall s, In s l -> slot_inv s) -> ppsum (apply_excess l) <= psum l + 2 * rel_tol * usum l.
Proof.
  unfold ppsum, psum, usum, apply_excess. induction l as [|s t IH]; intro H; [cbn; lra|].
  cbn [map gp_power]. rewrite !qsum_cons.
  assert (Hs : slot_inv s) by (apply H; cbn; auto). pose proof (slot_power_lb s Hs) as L.
  assert (0 <= s_upper s).
  { destruct Hs as (W & _ & Hk). pose proof (min_power_nonneg _ W). destruct (s_kind s).
    - destruct Hk as [_ ->]. lra.
    - destruct Hk as (Em & _ & ? & ?). rewrite Em in *. unfold rel_tol in *. lra.
    - destruct Hk as (Em & _ & ?). rewrite Em in *. lra. }
  specialize (IH (fun s' Hs' => H s' (or_intror Hs'))). cbn [map gp_power] in IH.
  destruct (pos_cases (slot_power s)) as [[? ->]|[? ->]]; unfold rel_tol in *; lra.
Qed.

Lemma usum_le gs p : wf_pgs gs -> usum (fst (covered_slots gs p)) <= qsum (map incl_bound gs).
Proof.
  intro Hwf. unfold usum.
  assert (E : qsum (map incl_bound gs) == qsum (map (fun s => incl_bound (s_src s)) (fst (covered_slots gs p)))).
  { rewrite <- (map_map s_src incl_bound). unfold covered_slots, reserved_slots. rewrite cover_all_src, reserve_src.
    apply qsum_perm. apply Permutation_map. symmetry. apply entries_perm. }
  rewrite E. apply qsum_le_map. intros s Hs. destruct (covered_inv gs p Hwf s Hs) as [(W & _ & Hk) _].
  pose proof (min_power_nonneg _ W). destruct W as (_ & _ & ?). destruct (s_kind s).
  - destruct Hk as [_ ->]. lra.
  - destruct Hk as (_ & -> & _). lra.
  - destruct Hk as (_ & -> & _). lra.
Qed.

(* ------------------------------------------------------------------ (5) greedy top-up and guarded split *)
Lemma greedy_loop_pos : forall l rem,
  (forall g, In g l -> gp_power g <= gp_upper g) ->
  ppsum (fst (greedy_loop rem l)) <= ppsum l + pos rem.
Proof.
  unfold ppsum. induction l as [|x t IH]; intros rem H; cbn [greedy_loop]; [cbn; pose proof (pos_nonneg rem); lra|].
  assert (Hx : gp_power x <= gp_upper x) by (apply H; cbn; auto).
  assert (Ht : forall g, In g t -> gp_power g <= gp_upper g) by (intros; apply H; cbn; auto).
  destruct (czero rem || czero (gp_power x)).
  - specialize (IH rem Ht). destruct (greedy_loop rem t) as [t' r]. cbn [fst map] in *. rewrite !qsum_cons. lra.
  - specialize (IH (rem - qmin (gp_upper x - gp_power x) rem) Ht).
    destruct (greedy_loop (rem - qmin (gp_upper x - gp_power x) rem) t) as [t' r]. cbn [fst map gp_power] in *.
    rewrite !qsum_cons.
    destruct (qmin_spec (gp_upper x - gp_power x) rem) as [[? Eq]|[? Eq]]; rewrite Eq in *;
    destruct (pos_cases (gp_power x)) as [[? ->]|[? ->]];
    destruct (pos_cases rem) as [[? ->]|[? ->]];
    match goal with |- context [pos ?a + _ <= _] => destruct (pos_cases a) as [[? ->]|[? ->]] end;
    match type of IH with context [pos ?b] => destruct (pos_cases b) as [[? Eb]|[? Eb]]; rewrite Eb in IH end; lra.
Qed.

Lemma greedy_pos l rem :
  (forall g, In g l -> gp_power g <= gp_upper g) -> ppsum (fst (greedy rem l)) <= ppsum l + pos rem.
Proof.
  intro H. unfold greedy. destruct (czero rem); cbn [fst]; [pose proof (pos_nonneg rem); lra|now apply greedy_loop_pos].
Qed.

Lemma split_all_total : forall l, (forall g, In g l -> gp_inv g) ->
  sumsp (flat_map gr_sp (fst (split_all l))) <= ppsum l.
Proof.
  unfold ppsum. induction l as [|g t IH]; intro H; [unfold sumsp; cbn; lra|].
  assert (Hg : gp_inv g) by (apply H; cbn; auto).
  destruct (split_group_spec g Hg) as (_ & _ & _ & T1 & _).
  specialize (IH (fun g' Hg' => H g' (or_intror Hg'))).
  cbn [split_all]. destruct (split_group g) as [d r]. destruct (split_all t) as [ds rs]. cbn [fst flat_map gr_sp map] in *.
  rewrite qsum_cons. pose proof (sumsp_app d (flat_map gr_sp ds)). unfold pos in *. lra.
Qed.

(* ------------------------------------------------------------------ the lower half of C01_remainder on the core *)
Definition rem_slack (gs : list pgroup) : Q :=
  inject_Z (Z.of_nat (length gs)) * eps + 2 * rel_tol * qsum (map incl_bound gs).

Lemma rem_slack_nonneg gs : wf_pgs gs -> 0 <= rem_slack gs.
Proof.
  intro Hwf. unfold rem_slack. pose proof (inj_nat_nonneg (length gs)). pose proof eps_pos.
  assert (0 <= qsum (map incl_bound gs)).
  { apply qsum_nonneg. intros x Hx. apply in_map_iff in Hx. destruct Hx as (g & <- & Hg).
    pose proof (min_power_nonneg _ (Hwf g Hg)). destruct (Hwf g Hg) as (_ & _ & ?). lra. }
  unfold rel_tol. nra.
Qed.

Lemma core_remainder_lower gs p r :
  wf_pgs gs -> (forall g, In g gs -> ratio_ok g) -> adm_core gs p -> 0 <= p ->
  core gs p = Some r -> - rem_slack gs <= res_rem r.
Proof.
  intros Hwf Hr Ha Hp H. pose proof (rem_slack_nonneg gs Hwf) as S0.
  destruct (core_cases _ _ _ H) as [[_ E]|[E _]]; [rewrite E; lra|].
  pose proof (core_sum _ _ _ H) as CS. unfold res_dist in CS. rewrite E in CS.
  pose proof (split_all_total _ (final_inv gs p Hwf)) as T.
  assert (G : ppsum (fst (final_powers gs p)) <= ppsum (assigned gs p) + pos (left_over gs p)).
  { unfold final_powers. apply greedy_pos. intros g Hg. now destruct (assigned_inv gs p Hwf g Hg) as (_ & ? & _). }
  assert (A : ppsum (assigned gs p) <= psum (fst (covered_slots gs p)) + 2 * rel_tol * usum (fst (covered_slots gs p))).
  { unfold assigned. apply ppsum_assigned. intros s Hs. now destruct (covered_inv gs p Hwf s Hs). }
  pose proof (usum_le gs p Hwf) as U.
  assert (LO : left_over gs p == p - psum (fst (covered_slots gs p))).
  { unfold left_over, assigned, apply_excess. rewrite map_map. cbn [gp_power]. reflexivity. }
  pose proof (left_over_ge gs p Hwf Hr Ha Hp) as LG.
  unfold rem_slack. unfold rel_tol in *.
  assert (K0 : 0 <= inject_Z (Z.of_nat (length gs)) * eps).
  { pose proof (inj_nat_nonneg (length gs)). pose proof eps_pos. nra. }
  set (K := inject_Z (Z.of_nat (length gs)) * eps) in *.
  assert (X2 : 2 * 0.000000001 * usum (fst (covered_slots gs p)) <= 2 * 0.000000001 * qsum (map incl_bound gs)) by lra.
  destruct (pos_cases (left_over gs p)) as [[? Q]|[? Q]]; rewrite Q in G.
  - assert (X1 : sumsp (flat_map gr_sp (fst (split_all (fst (final_powers gs p))))) <=
                 psum (fst (covered_slots gs p)) + 2 * 0.000000001 * usum (fst (covered_slots gs p))) by lra.
    assert (X3 : psum (fst (covered_slots gs p)) <= p + K) by lra. lra.
  - assert (X1 : sumsp (flat_map gr_sp (fst (split_all (fst (final_powers gs p))))) <=
                 psum (fst (covered_slots gs p)) + 2 * 0.000000001 * usum (fst (covered_slots gs p)) + left_over gs p) by lra.
    assert (X3 : psum (fst (covered_slots gs p)) + left_over gs p <= p) by lra. lra.
Qed.

(* ------------------------------------------------------------------ on the original data *)
Lemma qsum_map_eq {A} (f g : A -> Q) l : (forall x, In x l -> f x == g x) -> qsum (map f l) == qsum (map g l).
Proof.
  intro H. apply Qle_antisym; apply qsum_le_map; intros x Hx; rewrite (H x Hx); apply Qle_refl.
Qed.

Lemma qsum_pos l : l <> [] -> (forall x, In x l -> 0 < x) -> 0 < qsum l.
Proof.
  induction l as [|x t IH]; [congruence|]. intros _ H. rewrite qsum_cons.
  assert (0 < x) by (apply H; cbn; auto). destruct t as [|y t']; [cbn; lra|].
  assert (0 < qsum (y :: t')) by (apply IH; [congruence|intros; apply H; cbn; auto]). lra.
Qed.

Lemma prepare_ratio_ok supply powf g :
  wf_group g -> (forall x, 0 <= x -> 0 <= powf x) -> ratio_ok (prepare supply powf g).
Proof.
  intros (Hne & Hb & _) Hpow. unfold ratio_ok, prepare; cbn [pg_factor pg_cap]. split.
  - apply Hpow. destruct supply; apply qmax_ge_l.
  - unfold aggregate; cbn [a_cap]. apply qsum_pos; [destruct (g_bats g); cbn; congruence|].
    intros x Hx. apply in_map_iff in Hx. destruct Hx as (b & <- & Hbin). now destruct (Hb b Hbin) as (_ & _ & _ & _ & ?).
Qed.

Lemma qsum_neg_map {A} (f : A -> Q) l : qsum (map (fun x => - f x) l) == - qsum (map f l).
Proof. induction l as [|x t IH]; [reflexivity|]. cbn [map]. rewrite !qsum_cons, IH. lra. Qed.

Lemma adm_core_consume powf gs p : adv_excl_upper gs <= p -> adm_core (map (prepare false powf) gs) p.
Proof.
  unfold adm_core, adv_excl_upper. intro H. rewrite map_map. eapply Qle_trans; [|exact H].
  apply Qle_lteq. right. apply qsum_map_eq. intros g _. unfold prepare; cbn [pg_bexcl pg_invs].
  rewrite map_map. cbn [prep_inv pi_excl]. reflexivity.
Qed.

Lemma adm_core_supply powf gs p : p <= adv_excl_lower gs -> adm_core (map (prepare true powf) gs) (- p).
Proof.
  unfold adm_core, adv_excl_lower. intro H. rewrite map_map.
  assert (E : qsum (map (fun g => qmax (pg_bexcl (prepare true powf g)) (qsum (map pi_excl (pg_invs (prepare true powf g))))) gs)
              == - qsum (map (fun g => qmin (a_el (aggregate (g_bats g))) (qsum (map i_el (g_invs g)))) gs)).
  { rewrite <- qsum_neg_map. apply qsum_map_eq. intros g _. unfold prepare; cbn [pg_bexcl pg_invs].
    rewrite map_map. cbn [prep_inv pi_excl]. pose proof (qsum_neg_map i_el (g_invs g)) as N.
    destruct (qmax_spec (- a_el (aggregate (g_bats g))) (qsum (map (fun x => - i_el x) (g_invs g)))) as [[? ->]|[? ->]];
    destruct (qmin_spec (a_el (aggregate (g_bats g))) (qsum (map i_el (g_invs g)))) as [[? ->]|[? ->]]; lra. }
  rewrite E. lra.
Qed.

(* the tolerance slack of the remainder: n groups, eps = is_close_to_zero's tolerance, rel_tol = math.isclose's,
   and the pool's inclusion bound in the request's direction *)
Definition remainder_slack (powf : Q -> Q) (gs : list group) (p : Q) : Q := rem_slack (pgs_of powf gs p).

Lemma distribute_remainder_lower powf gs p r :
  wf_groups gs -> (forall x, 0 <= x -> 0 <= powf x) -> admitted gs p -> distribute powf gs p = Some r ->
  (0 < p -> - remainder_slack powf gs p <= res_rem r) /\ (p < 0 -> res_rem r <= remainder_slack powf gs p).
Proof.
  intros Hwf Hpow [Hz Ha] H. unfold remainder_slack.
  destruct (distribute_cases _ _ _ _ Hz H) as [(Hp & Hs & C)|(Hp & Hs & r0 & C & ->)];
    unfold core_result, pgs_of, mag in *; rewrite Hs in *.
  - destruct Ha as [[_ Ha]|[? _]]; [|lra].
    assert (L : - rem_slack (map (prepare false powf) gs) <= res_rem r).
    { apply (core_remainder_lower _ p); auto.
      - now apply prepare_wfs.
      - intros pg Hpg. apply in_map_iff in Hpg. destruct Hpg as (g & <- & Hg). apply prepare_ratio_ok; auto.
      - now apply adm_core_consume.
      - lra. }
    split; intros; lra.
  - destruct Ha as [[? _]|[_ Ha]]; [lra|].
    assert (L : - rem_slack (map (prepare true powf) gs) <= res_rem r0).
    { apply (core_remainder_lower _ (- p)); auto.
      - now apply prepare_wfs.
      - intros pg Hpg. apply in_map_iff in Hpg. destruct Hpg as (g & <- & Hg). apply prepare_ratio_ok; auto.
      - now apply adm_core_supply.
      - lra. }
    cbn [neg_result res_rem]. split; intros; lra.
Qed.

Lemma distribute_remainder powf gs p r :
  wf_groups gs -> (forall x, 0 <= x -> 0 <= powf x) -> admitted gs p -> distribute powf gs p = Some r ->
  (0 < p -> - remainder_slack powf gs p <= res_rem r <= p) /\
  (p < 0 -> p <= res_rem r <= remainder_slack powf gs p).
Proof.
  intros Hwf Hpow Ha H. destruct (distribute_remainder_lower _ _ _ _ Hwf Hpow Ha H) as [L1 L2].
  destruct (distribute_remainder_upper _ _ _ _ Hwf (proj1 Ha) H) as [U1 U2].
  split; intro Hp; split; auto.
Qed.

Lemma remainder_slack_formula powf gs p :
  remainder_slack powf gs p =
  inject_Z (Z.of_nat (length (pgs_of powf gs p))) * eps + 2 * rel_tol * qsum (map incl_bound (pgs_of powf gs p)).
Proof. reflexivity. Qed.
