(* Phase-by-phase bound invariants of the distribution algorithm (core = request already
   normalised to a positive magnitude): reservation, deficit covering, greedy top-up, split. *)
From Coq Require Import QArith Qabs Lqa Lia List Bool.
From Verif Require Import model.Dist proofs.DistFacts.
Import ListNotations.
Open Scope Q_scope.

(* ------------------------------------------------------------------ well-formed prepared data *)
Definition wf_pinv (bincl : Q) (i : pinv) : Prop :=
  0 <= pi_excl i /\ 0 <= pi_incl i /\ (pi_excl i <= bincl -> pi_excl i <= pi_incl i).

Definition wf_pg (g : pgroup) : Prop :=
  (forall i, In i (pg_invs g) -> wf_pinv (pg_bincl g) i) /\
  0 <= pg_bexcl g /\ min_power g <= incl_bound g.

Lemma min_power_nonneg g : wf_pg g -> 0 <= min_power g.
Proof. intros (_ & H & _). unfold min_power. pose proof (qmax_ge_l (pg_bexcl g) (qminl (map pi_excl (pg_invs g)))). lra. Qed.

Lemma min_power_bexcl g : pg_bexcl g <= min_power g.
Proof. unfold min_power. apply qmax_ge_l. Qed.

Lemma incl_bound_bincl g : incl_bound g <= pg_bincl g.
Proof. unfold incl_bound. apply qmin_le_r. Qed.

Lemma czero_eq0 v : v == 0 -> czero v = true.
Proof.
  intro H. apply czero_true. rewrite H. cbn. pose proof eps_pos. lra.
Qed.

Lemma czero_false_neq0 v : czero v = false -> ~ v == 0.
Proof. intros H E. apply czero_eq0 in E. congruence. Qed.

(* ------------------------------------------------------------------ sorting keeps the elements *)
Lemma insert_desc_in x y l : In y (insert_desc x l) -> y = x \/ In y l.
Proof.
  induction l as [|z t IH]; cbn; [intros [->|[]]; auto|]. destruct (key_lt x z); cbn; [|intros [->|[->|H]]; auto].
  intros [H|H]; auto. apply IH in H. tauto.
Qed.

Lemma sort_entries_in y l : In y (sort_entries l) -> In y l.
Proof.
  induction l as [|x t IH]; cbn; [tauto|]. intro H. apply insert_desc_in in H. destruct H as [->|H]; auto.
Qed.

Lemma insert_inv_in x y l : In y (insert_inv x l) -> y = x \/ In y l.
Proof.
  induction l as [|z t IH]; cbn; [intros [->|[]]; auto|]. destruct (inv_before z x); cbn; [|intros [->|[->|H]]; auto].
  intros [H|H]; auto. apply IH in H. tauto.
Qed.

Lemma sort_invs_in y l : In y (sort_invs l) -> In y l.
Proof.
  induction l as [|x t IH]; cbn; [tauto|]. intro H. apply insert_inv_in in H. destruct H as [->|H]; auto.
Qed.

(* ------------------------------------------------------------------ slots *)
Definition slot_inv (s : slot) : Prop :=
  wf_pg (s_src s) /\ s_upper s <= pg_bincl (s_src s) /\
  match s_kind s with
  | KZero => s_min s = 0 /\ s_upper s = 0
  | KExcess e => s_min s = min_power (s_src s) /\ s_upper s = incl_bound (s_src s) /\ s_min s + e <= s_upper s /\
                 - (2 * rel_tol) * (s_upper s - s_min s) <= e
  | KDeficit d => s_min s = min_power (s_src s) /\ s_upper s = incl_bound (s_src s) /\ s_min s <= s_upper s
  end.

(* a group whose soc factor is 0 is never used *)
Definition slot_zero_ok (s : slot) : Prop := pg_factor (s_src s) == 0 -> s_kind s = KZero.

Definition nonneg_excess (l : list slot) : Prop :=
  forall s e, In s l -> s_kind s = KExcess e -> 0 <= e.

Definition entry_ok (total : Q) (x : entry) : Prop :=
  wf_pg (e_src x) /\ e_min x = min_power (e_src x) /\ e_upper x = incl_bound (e_src x) /\
  e_ratio x = pg_cap (e_src x) / total * pg_factor (e_src x).

Lemma reserve_inv : forall total l p sr R U,
  (forall x, In x l -> entry_ok total x) ->
  forall s, In s (reserve p sr R U l) -> slot_inv s /\ slot_zero_ok s.
Proof.
  induction l as [|x t IH]; intros p sr R U Hl s Hs; cbn in Hs; [tauto|].
  assert (Hx : entry_ok total x) by (apply Hl; cbn; auto).
  assert (Ht : forall y, In y t -> entry_ok total y) by (intros; apply Hl; cbn; auto).
  destruct Hx as (Hwf & Hm & Hu & Hr).
  destruct (czero (sr - U) || czero (e_ratio x)) eqn:Z.
  - destruct Hs as [<-|Hs]; [|eapply IH; eauto].
    split; [|intro; reflexivity]. unfold slot_inv; cbn. split; auto. split; [|split; reflexivity].
    pose proof (min_power_nonneg _ Hwf). pose proof (incl_bound_bincl (e_src x)). destruct Hwf as (_ & _ & ?). lra.
  - destruct Hs as [<-|Hs]; [|eapply IH; eauto].
    apply orb_false_iff in Z. destruct Z as [_ Z].
    split.
    + unfold slot_inv; cbn. split; auto. split; [rewrite Hu; apply incl_bound_bincl|].
      destruct (Qlt_bool (e_upper x) ((p - R) * e_ratio x / (sr - U))) eqn:A.
      * assert (e_min x <= e_upper x) by (destruct Hwf as (_ & _ & ?); rewrite Hm, Hu; lra).
        repeat split; auto; unfold rel_tol; lra.
      * apply Qlt_bool_false in A.
        destruct (Qlt_bool ((p - R) * e_ratio x / (sr - U)) (e_min x)) eqn:B.
        -- repeat split; auto. destruct Hwf as (_ & _ & ?). rewrite Hm, Hu. lra.
        -- apply Qlt_bool_false in B. repeat split; auto; unfold rel_tol; lra.
    + unfold slot_zero_ok; cbn. intro F. exfalso.
      assert (E : e_ratio x == 0) by (rewrite Hr, F; ring).
      apply czero_eq0 in E. congruence.
Qed.

Lemma reserve_nonneg : forall total l p sr R U,
  (forall x, In x l -> entry_ok total x) -> nonneg_excess (reserve p sr R U l).
Proof.
  induction l as [|x t IH]; intros p sr R U Hl s e Hs Hk; cbn in Hs; [tauto|].
  assert (Hx : entry_ok total x) by (apply Hl; cbn; auto).
  assert (Ht : forall y, In y t -> entry_ok total y) by (intros; apply Hl; cbn; auto).
  destruct Hx as (Hwf & Hm & Hu & Hr).
  destruct (czero (sr - U) || czero (e_ratio x)) eqn:Z.
  - destruct Hs as [<-|Hs]; [cbn in Hk; discriminate|]. eapply IH; eauto.
  - destruct Hs as [<-|Hs]; [|eapply IH; eauto]. cbn in Hk.
    destruct (Qlt_bool (e_upper x) ((p - R) * e_ratio x / (sr - U))) eqn:A.
    + inversion Hk; subst. destruct Hwf as (_ & _ & ?). rewrite Hm, Hu. lra.
    + destruct (Qlt_bool ((p - R) * e_ratio x / (sr - U)) (e_min x)) eqn:B; [discriminate|].
      apply Qlt_bool_false in B. inversion Hk; subst. lra.
Qed.

(* ------------------------------------------------------------------ deficit covering *)
Lemma take_first_ind (P : slot -> Prop) lp v : forall l,
  (forall s, In s l -> P s) ->
  (forall s e, In s l -> s_kind s = KExcess e -> Qeq_bool e lp = true ->
               P (mkS (s_src s) (s_min s) (s_upper s) (KExcess v))) ->
  forall s, In s (take_first lp v l) -> P s.
Proof.
  induction l as [|x t IH]; intros Hl Hn s Hs; cbn in Hs; [tauto|].
  assert (Ht : forall s, In s t -> P s) by (intros; apply Hl; cbn; auto).
  assert (Hn' : forall s e, In s t -> s_kind s = KExcess e -> Qeq_bool e lp = true ->
               P (mkS (s_src s) (s_min s) (s_upper s) (KExcess v))) by (intros; eapply Hn; eauto; cbn; auto).
  destruct (s_kind x) as [|e|d] eqn:K.
  - destruct Hs as [<-|Hs]; [apply Hl; cbn; auto|]. now apply IH.
  - destruct (Qeq_bool e lp) eqn:E.
    + destruct Hs as [<-|Hs]; [|apply Hl; cbn; auto]. eapply Hn; eauto. cbn; auto.
    + destruct Hs as [<-|Hs]; [apply Hl; cbn; auto|]. now apply IH.
  - destruct Hs as [<-|Hs]; [apply Hl; cbn; auto|]. now apply IH.
Qed.

Lemma take_first_inv lp v l :
  (forall s, In s l -> slot_inv s /\ slot_zero_ok s) ->
  0 <= lp -> v <= lp -> - (2 * rel_tol) * lp <= v ->
  forall s, In s (take_first lp v l) -> slot_inv s /\ slot_zero_ok s.
Proof.
  intros Hl Hp Hv Hv'. apply take_first_ind; auto.
  intros s e Hs K E. apply Qeq_bool_iff in E. destruct (Hl s Hs) as [(Hwf & Hb & Hk) Hz].
  rewrite K in Hk. split.
  - unfold slot_inv; cbn. split; auto. split; auto. destruct Hk as (? & ? & ? & ?). repeat split; auto; [lra|].
    unfold rel_tol in *. lra.
  - unfold slot_zero_ok in *; cbn. intro F. apply Hz in F. congruence.
Qed.

(* math.isclose(a, b) for 0 <= a < b: the gap is at most rel_tol * b *)
Lemma isclose_lt a b : 0 <= a -> a < b -> isclose a b = true -> b - a <= rel_tol * b.
Proof.
  intros Ha Hab H. unfold isclose in H. apply Qle_bool_iff in H.
  assert (E1 : Qabs (a - b) == - (a - b)) by (apply Qabs_neg; lra).
  assert (E2 : Qabs a == a) by (apply Qabs_pos; lra). assert (E3 : Qabs b == b) by (apply Qabs_pos; lra).
  destruct (qmax_spec (Qabs a) (Qabs b)) as [[? E]|[? E]]; rewrite E in H; unfold rel_tol in *; lra.
Qed.

Lemma cover_inv : forall fuel d l,
  (forall s, In s l -> slot_inv s /\ slot_zero_ok s) ->
  forall s, In s (fst (cover fuel d l)) -> slot_inv s /\ slot_zero_ok s.
Proof.
  induction fuel as [|f IH]; intros d l Hl; cbn; auto.
  destruct (czero d || negb (Qlt_bool d 0)) eqn:G; cbn; auto.
  apply orb_false_iff in G. destruct G as [_ G]. apply negb_false_iff in G. apply Qlt_bool_iff in G.
  destruct (max_excess l) as [lp|]; cbn; auto.
  destruct (czero lp || Qlt_bool lp 0) eqn:B; cbn; auto.
  apply orb_false_iff in B. destruct B as [_ B]. apply Qlt_bool_false in B.
  destruct (Qle_bool (- d) lp || isclose lp (- d)) eqn:C; cbn.
  - apply take_first_inv; auto; [lra|].
    apply orb_true_iff in C. destruct C as [C|C].
    + apply Qle_bool_iff in C. unfold rel_tol. lra.
    + destruct (Qlt_le_dec lp (- d)) as [L|L]; [|unfold rel_tol; lra].
      pose proof (isclose_lt _ _ B L C) as I. unfold rel_tol in *. lra.
  - apply IH. apply take_first_inv; auto; unfold rel_tol; lra.
Qed.

Lemma cover_all_cons d t l :
  cover_all (d :: t) l = let '(l1, r) := cover (S (length l)) d l in
                         let '(l2, rs) := cover_all t l1 in (l2, r :: rs).
Proof. reflexivity. Qed.

Lemma cover_all_inv : forall ds l,
  (forall s, In s l -> slot_inv s /\ slot_zero_ok s) ->
  forall s, In s (fst (cover_all ds l)) -> slot_inv s /\ slot_zero_ok s.
Proof.
  induction ds as [|d t IH]; intros l Hl; [cbn; auto|]. rewrite cover_all_cons.
  destruct (cover (S (length l)) d l) as [l1 r] eqn:C.
  destruct (cover_all t l1) as [l2 rs] eqn:A. cbn [fst].
  assert (H1 : forall s, In s l1 -> slot_inv s /\ slot_zero_ok s).
  { intros s Hs. apply (cover_inv (S (length l)) d l Hl). rewrite C. exact Hs. }
  specialize (IH l1 H1). rewrite A in IH. exact IH.
Qed.

(* ------------------------------------------------------------------ group powers *)
Definition gp_inv (g : gpower) : Prop :=
  wf_pg (gp_src g) /\ gp_power g <= gp_upper g /\ gp_upper g <= pg_bincl (gp_src g) /\ 0 <= gp_lower g /\
  (gp_power g == 0 \/ (gp_lower g = min_power (gp_src g) /\ gp_upper g = incl_bound (gp_src g))) /\
  (pg_factor (gp_src g) == 0 -> gp_power g == 0).

Lemma apply_excess_inv l :
  (forall s, In s l -> slot_inv s /\ slot_zero_ok s) ->
  forall g, In g (apply_excess l) -> gp_inv g.
Proof.
  intros Hl g Hg. unfold apply_excess in Hg. apply in_map_iff in Hg. destruct Hg as (s & <- & Hs).
  destruct (Hl s Hs) as [(Hwf & Hb & Hk) Hz]. unfold gp_inv; cbn. pose proof (min_power_nonneg _ Hwf) as Hm0.
  unfold slot_power. destruct (s_kind s) as [|e|d] eqn:K.
  - destruct Hk as [Hm Hu]. rewrite Hm. rewrite Hu in *. split; [exact Hwf|]. split; [lra|]. split; [lra|]. split; [lra|]. split.
    + left; reflexivity.
    + intros _; reflexivity.
  - destruct Hk as (Hm & Hu & Hp & _). split; [exact Hwf|]. split; [lra|]. split; [lra|]. split; [rewrite Hm; lra|]. split.
    + right. split; auto.
    + intro F. apply Hz in F. congruence.
  - destruct Hk as (Hm & Hu & Hp). split; [exact Hwf|]. split; [lra|]. split; [lra|]. split; [rewrite Hm; lra|]. split.
    + right. split; auto.
    + intro F. apply Hz in F. congruence.
Qed.

(* ------------------------------------------------------------------ greedy top-up *)
Lemma greedy_loop_inv : forall l rem,
  (forall g, In g l -> gp_inv g) -> forall g, In g (fst (greedy_loop rem l)) -> gp_inv g.
Proof.
  induction l as [|x t IH]; intros rem Hl g Hg; cbn in Hg; [tauto|].
  assert (Hx : gp_inv x) by (apply Hl; cbn; auto).
  assert (Ht : forall g, In g t -> gp_inv g) by (intros; apply Hl; cbn; auto).
  destruct (czero rem || czero (gp_power x)) eqn:Z.
  - specialize (IH rem Ht). destruct (greedy_loop rem t) as [t' r]. cbn in Hg.
    destruct Hg as [<-|Hg]; auto.
  - specialize (IH (rem - qmin (gp_upper x - gp_power x) rem) Ht).
    destruct (greedy_loop (rem - qmin (gp_upper x - gp_power x) rem) t) as [t' r]. cbn in Hg.
    destruct Hg as [<-|Hg]; auto.
    apply orb_false_iff in Z. destruct Z as [_ Z]. apply czero_false_neq0 in Z.
    destruct Hx as (Hwf & Hp & Hb & H0 & Hs & Hz). unfold gp_inv; cbn.
    split; [exact Hwf|]. split; [pose proof (qmin_le_l (gp_upper x - gp_power x) rem); lra|].
    split; [exact Hb|]. split; [exact H0|]. split.
    + destruct Hs as [E|Hs]; [contradiction|right; exact Hs].
    + intro F. apply Hz in F. contradiction.
Qed.

Lemma greedy_inv l rem :
  (forall g, In g l -> gp_inv g) -> forall g, In g (fst (greedy rem l)) -> gp_inv g.
Proof.
  intros Hl. unfold greedy. destruct (czero rem); cbn [fst]; auto. now apply greedy_loop_inv.
Qed.

(* ------------------------------------------------------------------ split over inverters *)
(* exact: zero, or within [excl, incl] of an inverter of the set with that id *)
Definition sp_ok (invs : list pinv) (a : Z * Q) : Prop :=
  snd a == 0 \/ exists i, In i invs /\ pi_id i = fst a /\ pi_excl i <= snd a <= pi_incl i.
(* up to the relative tolerance of math.isclose on the lower end *)
Definition sp_okx (invs : list pinv) (a : Z * Q) : Prop :=
  snd a == 0 \/ exists i, In i invs /\ pi_id i = fst a /\ (1 - rel_tol) * pi_excl i <= snd a <= pi_incl i.

Lemma sp_ok_incl l l' a : (forall i, In i l -> In i l') -> sp_ok l a -> sp_ok l' a.
Proof. intros H [E|(i & Hi & ?)]; [left; auto|right; exists i; auto]. Qed.

Lemma sp_ok_x bincl invs a : (forall i, In i invs -> wf_pinv bincl i) -> sp_ok invs a -> sp_okx invs a.
Proof.
  intros Hw [E|(i & Hi & Hid & Hb)]; [left; auto|right]. exists i. split; auto. split; auto.
  destruct (Hw i Hi) as (He & _). unfold rel_tol. split; [|lra]. nra.
Qed.

Lemma split_loop_ok : forall bincl l rem,
  rem <= bincl ->
  (forall i, In i l -> wf_pinv bincl i) ->
  (forall a, In a (fst (split_loop rem l)) -> sp_ok l a) /\
  sumsp (fst (split_loop rem l)) <= qmax 0 rem.
Proof.
  induction l as [|i t IH]; intros rem Hb Hl; cbn.
  - split; [tauto|]. unfold sumsp; cbn. apply qmax_ge_l.
  - assert (Hi : wf_pinv bincl i) by (apply Hl; cbn; auto).
    assert (Ht : forall j, In j t -> wf_pinv bincl j) by (intros; apply Hl; cbn; auto).
    destruct Hi as (He & Hi & Hei).
    destruct (negb (czero rem) && Qle_bool (pi_excl i) rem) eqn:T.
    + apply andb_true_iff in T. destruct T as [_ T]. apply Qle_bool_iff in T.
      pose proof (qmin_spec (pi_incl i) rem) as Hq.
      assert (Ha : pi_excl i <= qmin (pi_incl i) rem <= pi_incl i /\ qmin (pi_incl i) rem <= rem).
      { assert (pi_excl i <= pi_incl i) by (apply Hei; lra). destruct Hq as [[? ->]|[? ->]]; lra. }
      assert (Hb' : rem - qmin (pi_incl i) rem <= bincl) by lra.
      specialize (IH _ Hb' Ht). destruct (split_loop (rem - qmin (pi_incl i) rem) t) as [t' r]. cbn [fst] in *.
      destruct IH as [IH1 IH2]. split.
      * intros a [<-|Ha']; [right; exists i; cbn; split; [auto|split; [reflexivity|lra]]|].
        eapply sp_ok_incl; [|apply IH1; exact Ha']. intros k Hk; right; exact Hk.
      * unfold sumsp in *. cbn [map snd]. rewrite qsum_cons.
        destruct (qmax_spec 0 (rem - qmin (pi_incl i) rem)) as [[? E]|[? E]]; rewrite E in IH2;
        destruct (qmax_spec 0 rem) as [[? ->]|[? ->]]; lra.
    + specialize (IH _ Hb Ht). destruct (split_loop rem t) as [t' r]. cbn [fst] in *.
      destruct IH as [IH1 IH2]. split.
      * intros a [<-|Ha']; [left; reflexivity|].
        eapply sp_ok_incl; [|apply IH1; exact Ha']. intros k Hk; right; exact Hk.
      * unfold sumsp in *. cbn [map snd]. rewrite qsum_cons. lra.
Qed.

Lemma sumsp_all_zero d : (forall a, In a d -> snd a == 0) -> sumsp d == 0.
Proof.
  induction d as [|a d IH]; intro H; unfold sumsp in *; [reflexivity|]. cbn [map]. rewrite qsum_cons.
  rewrite (H a) by (cbn; auto). rewrite IH by (intros; apply H; cbn; auto). lra.
Qed.

Lemma sumsp_nonneg l : (forall a, In a l -> 0 <= snd a) -> 0 <= sumsp l.
Proof.
  intro H. unfold sumsp. apply qsum_nonneg. intros x Hx. apply in_map_iff in Hx.
  destruct Hx as (a & <- & Ha). auto.
Qed.

Lemma sp_ok_nonneg bincl invs a :
  (forall i, In i invs -> wf_pinv bincl i) -> sp_ok invs a -> 0 <= snd a.
Proof.
  intros Hw [E|(i & Hi & _ & H)]; [lra|]. destruct (Hw i Hi) as (? & _). lra.
Qed.

Lemma split_loop_zero : forall l rem, rem == 0 -> forall a, In a (fst (split_loop rem l)) -> snd a == 0.
Proof.
  induction l as [|i t IH]; intros rem Hz a Ha; cbn in Ha; [tauto|].
  rewrite (czero_eq0 _ Hz) in Ha. cbn in Ha. specialize (IH rem Hz).
  destruct (split_loop rem t) as [t' r]. cbn in *. destruct Ha as [<-|Ha]; [reflexivity|auto].
Qed.

Lemma qminl_single x : qminl [x] = x.
Proof. reflexivity. Qed.

(* the raw split: exact per-inverter bounds for sets with several inverters, total at most the positive
   part of the set's power, and everything zero when the set's power is zero *)
Lemma split_raw_multi g :
  gp_inv g -> length (pg_invs (gp_src g)) <> 1%nat ->
  (forall a, In a (fst (split_raw g)) -> sp_ok (pg_invs (gp_src g)) a) /\
  sumsp (fst (split_raw g)) <= qmax 0 (gp_power g).
Proof.
  intros (Hwf & Hp & Hb & _) L. unfold split_raw. destruct Hwf as (Hinv & _).
  destruct (pg_invs (gp_src g)) as [|i [|j t]] eqn:E.
  - cbn. split; [tauto|]. unfold sumsp; cbn. apply qmax_ge_l.
  - cbn in L. congruence.
  - assert (Hr : gp_power g <= pg_bincl (gp_src g)) by lra.
    assert (Hs : forall k, In k (sort_invs (i :: j :: t)) -> wf_pinv (pg_bincl (gp_src g)) k).
    { intros k Hk. apply sort_invs_in in Hk. auto. }
    destruct (split_loop_ok _ _ _ Hr Hs) as [H1 H2]. split; auto.
    intros a Ha. eapply sp_ok_incl; [|apply H1; exact Ha]. intros k Hk. now apply sort_invs_in.
Qed.

Lemma split_raw_zero g : gp_power g == 0 -> forall a, In a (fst (split_raw g)) -> snd a == 0.
Proof.
  intros Hz. unfold split_raw. destruct (pg_invs (gp_src g)) as [|i [|j t]].
  - cbn; tauto.
  - cbn. intros a [<-|[]]. exact Hz.
  - now apply split_loop_zero.
Qed.

(* ------------------------------------------------------------------ the minimum-power guard *)
Lemma guard_ok_spec a lower :
  0 <= lower -> guard_ok a lower = true -> (1 - rel_tol) * lower <= a /\ 0 <= a.
Proof.
  intros Hl H. unfold guard_ok in H. apply orb_true_iff in H. destruct H as [H|H].
  - apply negb_true_iff in H. apply Qlt_bool_false in H. unfold rel_tol. split; [nra|lra].
  - destruct (Qlt_le_dec a lower) as [L|L]; [|unfold rel_tol; split; [nra|lra]].
    destruct (Qlt_le_dec a 0) as [N|N].
    + exfalso. unfold isclose in H. apply Qle_bool_iff in H.
      assert (E1 : Qabs (a - lower) == - (a - lower)) by (apply Qabs_neg; lra).
      assert (E2 : Qabs a == - a) by (apply Qabs_neg; lra). assert (E3 : Qabs lower == lower) by (apply Qabs_pos; lra).
      destruct (qmax_spec (Qabs a) (Qabs lower)) as [[? E]|[? E]]; rewrite E in H; unfold rel_tol in *; lra.
    + pose proof (isclose_lt _ _ N L H). unfold rel_tol in *. split; lra.
Qed.

Lemma zeroed_in (d : list (Z * Q)) a : In a (map (fun a => (fst a, 0)) d) -> snd a == 0.
Proof. intro H. apply in_map_iff in H. destruct H as (b & <- & _). reflexivity. Qed.

(* what the guarded split guarantees for a set *)
Lemma split_group_spec g :
  gp_inv g ->
  let d := fst (split_group g) in
  (forall a, In a d -> sp_okx (pg_invs (gp_src g)) a) /\
  (length (pg_invs (gp_src g)) <> 1%nat -> forall a, In a d -> sp_ok (pg_invs (gp_src g)) a) /\
  0 <= sumsp d /\ sumsp d <= qmax 0 (gp_power g) /\
  (sumsp d == 0 \/ (1 - rel_tol) * min_power (gp_src g) <= sumsp d) /\
  (pg_factor (gp_src g) == 0 -> forall a, In a d -> snd a == 0).
Proof.
  intros Hinv. pose proof Hinv as (Hwf & Hp & Hb & H0 & Hs & Hz). cbn zeta.
  assert (Hwi : forall i, In i (pg_invs (gp_src g)) -> wf_pinv (pg_bincl (gp_src g)) i) by (destruct Hwf; auto).
  unfold split_group. destruct (split_raw g) as [d0 r0] eqn:R.
  destruct (guard_ok (sumsp d0) (gp_lower g)) eqn:G; cbn [fst].
  2:{ (* the set is not used *)
      pose proof (sumsp_zeroed d0) as Z0.
      repeat split.
      - intros a Ha. left. eapply zeroed_in; eauto.
      - intros _ a Ha. left. eapply zeroed_in; eauto.
      - lra.
      - pose proof (qmax_ge_l 0 (gp_power g)). lra.
      - left; exact Z0.
      - intros _ a Ha. eapply zeroed_in; eauto. }
  destruct (guard_ok_spec _ _ H0 G) as [G1 G2].
  destruct (Nat.eq_dec (length (pg_invs (gp_src g))) 1) as [L|L].
  - (* one inverter: its set-point is the set's power *)
    destruct (pg_invs (gp_src g)) as [|i [|j t]] eqn:E; cbn in L; try congruence.
    unfold split_raw in R. rewrite E in R. inversion R; subst d0 r0. clear R.
    assert (T : sumsp [(pi_id i, gp_power g)] == gp_power g) by (unfold sumsp; cbn; lra).
    rewrite T in *.
    assert (Hsingle : sp_okx [i] (pi_id i, gp_power g)).
    { destruct Hs as [Z|[Hm Hu]]; [left; exact Z|right]. exists i. cbn. split; auto. split; auto.
      unfold min_power, incl_bound in *. rewrite E in *. cbn [map] in *. rewrite qminl_single in Hm.
      rewrite Hu in Hp. unfold qsum in Hp; cbn [fold_right] in Hp.
      pose proof (qmax_ge_r (pg_bexcl (gp_src g)) (pi_excl i)).
      pose proof (qmin_le_l (pi_incl i + 0) (pg_bincl (gp_src g))).
      destruct (Hwi i (or_introl eq_refl)) as (He & _). rewrite Hm in G1. unfold rel_tol in *. split; [nra|lra]. }
    repeat split.
    + intros a [<-|[]]. exact Hsingle.
    + intro C. cbn in C. congruence.
    + lra.
    + pose proof (qmax_ge_r 0 (gp_power g)). lra.
    + destruct Hs as [Z|[Hm Hu]]; [left; lra|right]. rewrite <- Hm. lra.
    + intros F a [<-|[]]. cbn. auto.
  - assert (Hd0 : d0 = fst (split_raw g)) by (rewrite R; reflexivity).
    destruct (split_raw_multi g Hinv L) as [M1 M2]. rewrite <- Hd0 in *.
    repeat split.
    + intros a Ha. eapply sp_ok_x; eauto.
    + intros _ a Ha. auto.
    + exact G2.
    + exact M2.
    + destruct Hs as [Z|[Hm Hu]]; [left|right; rewrite <- Hm; exact G1].
      apply sumsp_all_zero. rewrite Hd0. now apply split_raw_zero.
    + intros F. rewrite Hd0. apply split_raw_zero. auto.
Qed.
(* ------------------------------------------------------------------ the groups keep their identity *)
Lemma reserve_src : forall l p sr R U, map s_src (reserve p sr R U l) = map e_src l.
Proof.
  induction l as [|x t IH]; intros; cbn; auto.
  destruct (czero (sr - U) || czero (e_ratio x)); cbn; now rewrite IH.
Qed.

Lemma take_first_src lp v : forall l, map s_src (take_first lp v l) = map s_src l.
Proof.
  induction l as [|x t IH]; cbn; auto.
  destruct (s_kind x) as [|e|d]; cbn; try now rewrite IH.
  destruct (Qeq_bool e lp); cbn; auto. now rewrite IH.
Qed.

Lemma cover_src : forall fuel d l, map s_src (fst (cover fuel d l)) = map s_src l.
Proof.
  induction fuel as [|f IH]; intros d l; cbn; auto.
  destruct (czero d || negb (Qlt_bool d 0)); cbn; auto.
  destruct (max_excess l) as [lp|]; cbn; auto.
  destruct (czero lp || Qlt_bool lp 0); cbn; auto.
  destruct (Qle_bool (- d) lp || isclose lp (- d)); cbn.
  - apply take_first_src.
  - rewrite IH. apply take_first_src.
Qed.

Lemma cover_all_src : forall ds l, map s_src (fst (cover_all ds l)) = map s_src l.
Proof.
  induction ds as [|d t IH]; intros l; [reflexivity|]. rewrite cover_all_cons.
  pose proof (cover_src (S (length l)) d l) as C.
  destruct (cover (S (length l)) d l) as [l1 r]. specialize (IH l1).
  destruct (cover_all t l1) as [l2 rs]. cbn [fst] in *. congruence.
Qed.

Lemma apply_excess_src l : map gp_src (apply_excess l) = map s_src l.
Proof. unfold apply_excess. rewrite map_map. reflexivity. Qed.

Lemma greedy_loop_src : forall l rem, map gp_src (fst (greedy_loop rem l)) = map gp_src l.
Proof.
  induction l as [|x t IH]; intros rem; cbn; auto.
  destruct (czero rem || czero (gp_power x)).
  - specialize (IH rem). destruct (greedy_loop rem t). cbn in *. congruence.
  - specialize (IH (rem - qmin (gp_upper x - gp_power x) rem)).
    destruct (greedy_loop (rem - qmin (gp_upper x - gp_power x) rem) t). cbn in *. congruence.
Qed.

Lemma greedy_src l rem : map gp_src (fst (greedy rem l)) = map gp_src l.
Proof. unfold greedy. destruct (czero rem); auto. apply greedy_loop_src. Qed.

Lemma split_all_src : forall l, map gr_src (fst (split_all l)) = map gp_src l.
Proof.
  induction l as [|g t IH]; cbn; auto.
  destruct (split_group g) as [d r]. destruct (split_all t) as [ds rs]. cbn in *. congruence.
Qed.

Lemma split_all_in : forall l gr, In gr (fst (split_all l)) ->
  exists g, In g l /\ gr = mkGR (gp_src g) (fst (split_group g)) (snd (split_group g)).
Proof.
  induction l as [|g t IH]; cbn; [tauto|]. intros gr H.
  destruct (split_group g) as [d r] eqn:G. destruct (split_all t) as [ds rs]. cbn in *.
  destruct H as [<-|H].
  - exists g. rewrite G. auto.
  - destruct (IH gr H) as (g' & ? & ?). exists g'. auto.
Qed.

(* ------------------------------------------------------------------ the pipeline of [core] *)
Definition final_powers (gs : list pgroup) (p : Q) : list gpower * Q :=
  greedy (left_over gs p) (assigned gs p).

Lemma core_cases gs p r : core gs p = Some r ->
  (res_groups r = zeros gs /\ res_rem r = p) \/
  (res_groups r = fst (split_all (fst (final_powers gs p))) /\
   res_rem r = snd (final_powers gs p) + snd (split_all (fst (final_powers gs p)))).
Proof.
  unfold core, final_powers, left_over, assigned, covered_slots. intro H.
  destruct (czero (total_cap gs)); [discriminate|].
  destruct (czero (sum_ratio gs)).
  - inversion H; subst; cbn. left; auto.
  - destruct (cover_all (deficits_of (reserved_slots gs p)) (reserved_slots gs p)) as [sl rests].
    cbn [fst].
    destruct (greedy (p - qsum (map gp_power (apply_excess sl))) (apply_excess sl)) as [pw rem].
    cbn [fst snd]. destruct (split_all pw) as [ds srem]. inversion H; subst; cbn. right; auto.
Qed.

Definition wf_pgs (gs : list pgroup) : Prop := forall g, In g gs -> wf_pg g.

Lemma entries_ok gs : wf_pgs gs -> forall x, In x (entries gs) -> entry_ok (total_cap gs) x.
Proof.
  intros Hwf x Hx. unfold entries in Hx. apply sort_entries_in in Hx. apply in_map_iff in Hx.
  destruct Hx as (g & <- & Hg). unfold entry_ok, mk_entry; cbn. auto.
Qed.

Lemma entries_src gs g : In g (map e_src (entries gs)) -> In g gs.
Proof.
  intro H. apply in_map_iff in H. destruct H as (x & <- & Hx). unfold entries in Hx.
  apply sort_entries_in in Hx. apply in_map_iff in Hx. destruct Hx as (g & <- & Hg). exact Hg.
Qed.

Lemma covered_inv gs p : wf_pgs gs ->
  forall s, In s (fst (covered_slots gs p)) -> slot_inv s /\ slot_zero_ok s.
Proof.
  intros Hwf. unfold covered_slots. apply cover_all_inv. unfold reserved_slots.
  apply (reserve_inv (total_cap gs)). now apply entries_ok.
Qed.

Lemma assigned_inv gs p : wf_pgs gs -> forall g, In g (assigned gs p) -> gp_inv g.
Proof. intros Hwf. unfold assigned. apply apply_excess_inv. now apply covered_inv. Qed.

Lemma final_inv gs p : wf_pgs gs -> forall g, In g (fst (final_powers gs p)) -> gp_inv g.
Proof. intros Hwf. unfold final_powers. apply greedy_inv. now apply assigned_inv. Qed.

Lemma final_src gs p g : In g (map gp_src (fst (final_powers gs p))) -> In g gs.
Proof.
  unfold final_powers, assigned, covered_slots, reserved_slots.
  rewrite greedy_src, apply_excess_src, cover_all_src, reserve_src. apply entries_src.
Qed.

(* ------------------------------------------------------------------ theorems on the core (all unconditional on the run) *)
Lemma zeros_in gs gr : In gr (zeros gs) ->
  In (gr_src gr) gs /\ gr_left gr = 0 /\ forall a, In a (gr_sp gr) -> snd a == 0.
Proof.
  unfold zeros. intro H. apply in_map_iff in H. destruct H as (g & <- & Hg). cbn. repeat split; auto.
  intros a Ha. apply in_map_iff in Ha. destruct Ha as (i & <- & _). reflexivity.
Qed.

Lemma core_src gs p r gr : core gs p = Some r -> In gr (res_groups r) -> In (gr_src gr) gs.
Proof.
  intros H Hg. destruct (core_cases _ _ _ H) as [[E _]|[E _]]; rewrite E in Hg.
  - now apply zeros_in.
  - apply (final_src gs p). rewrite <- split_all_src. now apply in_map.
Qed.

(* a result group is either all zeros or the guarded split of a final group power *)
Lemma core_group_cases gs p r gr : wf_pgs gs -> core gs p = Some r -> In gr (res_groups r) ->
  (In (gr_src gr) gs /\ forall a, In a (gr_sp gr) -> snd a == 0) \/
  exists g, gp_inv g /\ gr_src gr = gp_src g /\ gr_sp gr = fst (split_group g).
Proof.
  intros Hwf H Hg. destruct (core_cases _ _ _ H) as [[E _]|[E _]]; rewrite E in Hg.
  - left. destruct (zeros_in gs gr Hg) as (? & _ & ?). auto.
  - right. apply split_all_in in Hg. destruct Hg as (g & Hg & ->). exists g. cbn.
    split; [now apply (final_inv gs p Hwf)|auto].
Qed.

Lemma core_inverter gs p r gr :
  wf_pgs gs -> core gs p = Some r -> In gr (res_groups r) ->
  forall a, In a (gr_sp gr) -> sp_okx (pg_invs (gr_src gr)) a.
Proof.
  intros Hwf H Hg a Ha. destruct (core_group_cases _ _ _ _ Hwf H Hg) as [[_ Z]|(g & Hi & -> & E)].
  - left. auto.
  - rewrite E in Ha. now apply (split_group_spec g Hi).
Qed.

Lemma core_inverter_multi gs p r gr :
  wf_pgs gs -> core gs p = Some r -> In gr (res_groups r) -> length (pg_invs (gr_src gr)) <> 1%nat ->
  forall a, In a (gr_sp gr) -> sp_ok (pg_invs (gr_src gr)) a.
Proof.
  intros Hwf H Hg L a Ha. destruct (core_group_cases _ _ _ _ Hwf H Hg) as [[_ Z]|(g & Hi & Es & E)].
  - left. auto.
  - rewrite Es in *. rewrite E in Ha. now apply (split_group_spec g Hi).
Qed.

Lemma core_group gs p r gr :
  wf_pgs gs -> core gs p = Some r -> In gr (res_groups r) ->
  0 <= sumsp (gr_sp gr) <= pg_bincl (gr_src gr) /\
  (sumsp (gr_sp gr) == 0 \/ (1 - rel_tol) * pg_bexcl (gr_src gr) <= sumsp (gr_sp gr)).
Proof.
  intros Hwf H Hg. destruct (core_group_cases _ _ _ _ Hwf H Hg) as [[Hs Z]|(g & Hi & Es & E)].
  - pose proof (sumsp_all_zero _ Z) as Z0. pose proof (Hwf _ Hs) as W. pose proof (min_power_nonneg _ W).
    pose proof (incl_bound_bincl (gr_src gr)). destruct W as (_ & _ & ?). split; [lra|left; exact Z0].
  - rewrite Es, E. destruct (split_group_spec g Hi) as (_ & _ & T0 & T1 & T2 & _).
    destruct Hi as (W & Hp & Hb & _). pose proof (min_power_nonneg _ W). pose proof (incl_bound_bincl (gp_src g)).
    assert (0 <= pg_bincl (gp_src g)) by (destruct W as (_ & _ & ?); lra).
    split.
    + split; [exact T0|]. destruct (qmax_spec 0 (gp_power g)) as [[? Q]|[? Q]]; rewrite Q in T1; lra.
    + destruct T2 as [Z|T2]; [left; exact Z|right]. pose proof (min_power_bexcl (gp_src g)). unfold rel_tol in *. nra.
Qed.

Lemma core_no_headroom gs p r gr :
  wf_pgs gs -> core gs p = Some r -> In gr (res_groups r) -> pg_factor (gr_src gr) == 0 ->
  forall a, In a (gr_sp gr) -> snd a == 0.
Proof.
  intros Hwf H Hg F a Ha. destruct (core_group_cases _ _ _ _ Hwf H Hg) as [[_ Z]|(g & Hi & Es & E)]; auto.
  rewrite Es in F. rewrite E in Ha. now apply (split_group_spec g Hi).
Qed.

Lemma sp_okx_nonneg bincl invs a :
  (forall i, In i invs -> wf_pinv bincl i) -> sp_okx invs a -> 0 <= snd a.
Proof.
  intros Hw [E|(i & Hi & _ & H)]; [lra|]. destruct (Hw i Hi) as (? & _). unfold rel_tol in *. nra.
Qed.

(* C01_sign on the core: exact and unconditional *)
Lemma core_sign gs p r :
  wf_pgs gs -> core gs p = Some r -> forall a, In a (res_dist r) -> 0 <= snd a.
Proof.
  intros Hwf H a Ha. unfold res_dist in Ha. apply in_flat_map in Ha. destruct Ha as (gr & Hg & Ha).
  pose proof (core_inverter gs p r gr Hwf H Hg a Ha) as S.
  pose proof (core_src _ _ _ _ H Hg) as Hs. destruct (Hwf _ Hs) as (W & _).
  eapply sp_okx_nonneg; eauto.
Qed.

(* the remainder never exceeds the request (exact, unconditional) *)
Lemma core_remainder_upper gs p r :
  wf_pgs gs -> core gs p = Some r -> res_rem r <= p.
Proof.
  intros Hwf H. pose proof (core_sum _ _ _ H) as S.
  assert (0 <= sumsp (res_dist r)) by (apply sumsp_nonneg; intros; eapply core_sign; eauto). lra.
Qed.
