(* Formula engine (C05): the tokenizer reads back every spelling of a token list. *)
From Coq Require Import ZArith NArith QArith List Bool Lia.
From Verif Require Import model.Common gen.Formula model.Formula.
Import ListNotations.
Local Open Scope list_scope.
Local Open Scope N_scope.

Definition idle_mode (m : tmode) : Prop := match m with MHash => False | _ => True end.

Lemma ws_not_digit c : is_ws c = true -> is_digit c = false.
Proof.
  unfold is_ws, is_digit. intros H.
  repeat (apply orb_true_iff in H; destruct H as [H|H]); apply N.eqb_eq in H; subst; reflexivity.
Qed.

Lemma ws_idle c : is_ws c = true -> idle_char c = Some (None, MIdle).
Proof. unfold idle_char. intros ->. reflexivity. Qed.

(* a non-digit character seen in an idle mode *)
Lemma tokz_nondigit m c r : idle_mode m -> is_digit c = false ->
  tokz m (c :: r) = match idle_char c with
                    | None => None
                    | Some (ot, m') => match tokz m' r with
                                       | None => None
                                       | Some ts => Some (flush m ++ opt_list ot ++ ts)
                                       end
                    end.
Proof. intros Hm Hd. destruct m; cbn [tokz]; rewrite ?Hd; try reflexivity. destruct Hm. Qed.

Lemma tokz_ws m ws cs ts : idle_mode m -> Forall (fun c => is_ws c = true) ws ->
  (forall m', idle_mode m' -> tokz m' cs = Some (flush m' ++ ts)) ->
  tokz m (ws ++ cs) = Some (flush m ++ ts).
Proof.
  intros Hm Hws Hcs. revert m Hm. induction Hws as [|c ws Hc _ IH]; intros m Hm; [apply Hcs, Hm|].
  cbn [app]. rewrite (tokz_nondigit m c _ Hm (ws_not_digit c Hc)), (ws_idle c Hc).
  rewrite (IH MIdle I). reflexivity.
Qed.

Lemma digit_char x : x < 10 -> is_digit (48 + x) = true /\ digit_val (48 + x) = x.
Proof. intros H. unfold is_digit, digit_val. split; [apply andb_true_iff; split; apply N.leb_le; lia|lia]. Qed.

Lemma tokz_digits ds : Forall (fun x => x < 10) ds -> forall a cs,
  tokz (MNum a) (map (fun x => 48 + x) ds ++ cs) = tokz (MNum (fold_left (fun a x => 10 * a + x) ds a)) cs.
Proof.
  induction 1 as [|d ds Hd _ IH]; intros a cs; [reflexivity|].
  destruct (digit_char d Hd) as [H1 H2]. cbn [map app tokz fold_left]. rewrite H1, H2. apply IH.
Qed.

Lemma oper_char_not_digit c o : oper_of_char c = Some o -> is_digit c = false /\ idle_char c = Some (Some (TOper o), MIdle).
Proof.
  unfold oper_of_char, idle_char, is_ws, is_digit. intros H.
  repeat match type of H with
         | (if ?c =? ?k then _ else _) = _ => destruct (N.eqb_spec c k); [subst; injection H as <-; split; reflexivity|]
         end.
  discriminate.
Qed.

Theorem tokenize_render : forall l trail,
  Forall (fun p => Forall (fun c => is_ws c = true) (fst p) /\ sp_ok (snd p)) l ->
  Forall (fun c => is_ws c = true) trail ->
  forall m, idle_mode m -> tokz m (render l trail) = Some (flush m ++ map (fun p => sp_tok (snd p)) l).
Proof.
  intros l trail Hl Ht. induction Hl as [|[ws t] l [Hws Hok] _ IH]; intros m Hm; cbn [render map].
  - rewrite <- (app_nil_r trail). rewrite (tokz_ws m trail [] [] Hm Ht); [reflexivity|].
    intros m' Hm'. destruct m'; try reflexivity. destruct Hm'.
  - cbn [fst snd] in *. apply (tokz_ws m ws _ _ Hm Hws). clear m Hm. intros m Hm.
    destruct t as [d ds|c o]; cbn [sp_chars sp_tok sp_ok] in *.
    + inversion Hok as [|? ? Hd Hds]; subst. cbn [map app].
      rewrite (tokz_nondigit m 35 _ Hm eq_refl). cbn [idle_char is_ws oper_of_char N.eqb orb].
      change (idle_char 35) with (Some (@None tok, MHash)). cbn iota.
      destruct (digit_char d Hd) as [H1 H2]. cbn [map app tokz]. rewrite H1, H2.
      rewrite (tokz_digits ds Hds), (IH (MNum _) I). cbn [flush opt_list app]. reflexivity.
    + destruct (oper_char_not_digit c o Hok) as [H1 H2]. cbn [app].
      rewrite (tokz_nondigit m c _ Hm H1), H2, (IH MIdle I). reflexivity.
Qed.

Corollary tokenize_spelling l trail :
  Forall (fun p => Forall (fun c => is_ws c = true) (fst p) /\ sp_ok (snd p)) l ->
  Forall (fun c => is_ws c = true) trail ->
  tokenize (render l trail) = Some (map (fun p => sp_tok (snd p)) l).
Proof. intros Hl Ht. apply (tokenize_render l trail Hl Ht MIdle I). Qed.
