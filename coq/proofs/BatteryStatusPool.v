(* ComponentPoolStatus: the working / uncertain sets reflect the latest status of each
   component, and get_working_components falls back to uncertain ones only when no
   working one is among the requested components. *)
From Coq Require Import Lia ZifyBool.
From Verif Require Import model.BatteryStatus.
Open Scope list_scope.
Open Scope Z_scope.

Lemma zmem_In : forall x l, zmem x l = true <-> In x l.
Proof.
  intros x l. unfold zmem. rewrite existsb_exists. split.
  - intros [y [Hin E]]. apply Z.eqb_eq in E. subst. exact Hin.
  - intro Hin. exists x. split; [exact Hin|apply Z.eqb_refl].
Qed.

Lemma set_add_In : forall x y l, In x (set_add y l) <-> x = y \/ In x l.
Proof.
  intros x y l. unfold set_add. destruct (zmem y l) eqn:E.
  - apply zmem_In in E. split; [auto|]. intros [->|H]; assumption.
  - cbn. split; intros [H|H]; auto.
Qed.

Lemma set_discard_In : forall x y l, In x (set_discard y l) <-> x <> y /\ In x l.
Proof.
  intros x y l. unfold set_discard. rewrite filter_In. split.
  - intros [H N]. split; [|exact H]. intro E. subst. rewrite Z.eqb_refl in N. discriminate.
  - intros [N H]. split; [exact H|]. destruct (y =? x) eqn:E; [|reflexivity].
    apply Z.eqb_eq in E. congruence.
Qed.

Lemma set_inter_In : forall x a b, In x (set_inter a b) <-> In x a /\ In x b.
Proof. intros x a b. unfold set_inter. rewrite filter_In, zmem_In. reflexivity. Qed.

(* the latest status notified for component [id], NOT_WORKING before the first one
   (the pool starts with both sets empty) *)
Definition latest (ms : list (Z * status)) (id : Z) : status :=
  match find (fun m => fst m =? id) (rev ms) with
  | Some m => snd m
  | None => NotWorking
  end.

Lemma latest_snoc : forall ms m id,
  latest (ms ++ [m]) id = if fst m =? id then snd m else latest ms id.
Proof. intros ms m id. unfold latest. rewrite rev_unit. cbn [find]. destruct (fst m =? id); reflexivity. Qed.

Lemma pool_run_snoc : forall p ms m,
  pool_run p (ms ++ [m]) = pool_update (pool_run p ms) (fst m) (snd m).
Proof. intros. unfold pool_run. rewrite fold_left_app. reflexivity. Qed.

Lemma pool_update_working : forall p j v id,
  In id (p_working (pool_update p j v)) <->
  (if j =? id then v = Working else In id (p_working p)).
Proof.
  intros p j v id. destruct (Z.eqb_spec j id) as [E|E];
    destruct v; cbn [pool_update p_working]; rewrite ?set_add_In, ?set_discard_In;
    intuition congruence.
Qed.

Lemma pool_update_uncertain : forall p j v id,
  In id (p_uncertain (pool_update p j v)) <->
  (if j =? id then v = Uncertain else In id (p_uncertain p)).
Proof.
  intros p j v id. destruct (Z.eqb_spec j id) as [E|E];
    destruct v; cbn [pool_update p_uncertain]; rewrite ?set_add_In, ?set_discard_In;
    intuition congruence.
Qed.

Lemma pool_sets : forall ms id,
  (In id (p_working (pool_run pool_init ms)) <-> latest ms id = Working) /\
  (In id (p_uncertain (pool_run pool_init ms)) <-> latest ms id = Uncertain).
Proof.
  intros ms. induction ms as [|[j v] ms IH] using rev_ind; intro id.
  - cbn. split; split; intro H; try contradiction; discriminate.
  - rewrite pool_run_snoc, latest_snoc. cbn [fst snd].
    rewrite pool_update_working, pool_update_uncertain. destruct (IH id) as [IW IU].
    destruct (j =? id); [split; reflexivity|split; assumption].
Qed.

Lemma length_pos_nonempty : forall (l : list Z), (0 <? Z.of_nat (length l)) = false <-> l = [].
Proof.
  intros [|x l]; cbn [length]; split; intro H; try reflexivity; try discriminate.
Qed.

Lemma pool_fallback : forall ms comps id,
  In id (get_working_components (pool_run pool_init ms) comps) ->
  In id comps /\
  (latest ms id = Working \/
   (latest ms id = Uncertain /\ forall id', In id' comps -> latest ms id' <> Working)).
Proof.
  intros ms comps id. unfold get_working_components.
  destruct (0 <? Z.of_nat (length (set_inter (p_working (pool_run pool_init ms)) comps))) eqn:E.
  - rewrite set_inter_In. intros [HW HC]. split; [exact HC|]. left. apply (pool_sets ms id). exact HW.
  - apply length_pos_nonempty in E. rewrite set_inter_In. intros [HU HC]. split; [exact HC|]. right.
    split; [apply (pool_sets ms id); exact HU|].
    intros id' HC' W. apply (pool_sets ms id') in W.
    assert (X : In id' (set_inter (p_working (pool_run pool_init ms)) comps)) by (apply set_inter_In; auto).
    rewrite E in X. exact X.
Qed.

(* and nothing usable is withheld: every working requested component is returned, and when
   there is none, every uncertain requested component is *)
Lemma pool_complete : forall ms comps id,
  In id comps ->
  (latest ms id = Working -> In id (get_working_components (pool_run pool_init ms) comps)) /\
  (latest ms id = Uncertain -> (forall id', In id' comps -> latest ms id' <> Working) ->
   In id (get_working_components (pool_run pool_init ms) comps)).
Proof.
  intros ms comps id HC. unfold get_working_components. split.
  - intro W. apply (pool_sets ms id) in W.
    assert (X : In id (set_inter (p_working (pool_run pool_init ms)) comps)) by (apply set_inter_In; auto).
    destruct (0 <? Z.of_nat (length (set_inter (p_working (pool_run pool_init ms)) comps))) eqn:E; [exact X|].
    apply length_pos_nonempty in E. rewrite E in X. contradiction.
  - intros U NW.
    destruct (0 <? Z.of_nat (length (set_inter (p_working (pool_run pool_init ms)) comps))) eqn:E.
    + exfalso. destruct (set_inter (p_working (pool_run pool_init ms)) comps) as [|x l] eqn:EL; [discriminate|].
      assert (X : In x (set_inter (p_working (pool_run pool_init ms)) comps)) by (rewrite EL; left; reflexivity).
      apply set_inter_In in X. destruct X as [XW XC]. apply (pool_sets ms x) in XW. exact (NW x XC XW).
    + apply set_inter_In. split; [|exact HC]. apply (pool_sets ms id). exact U.
Qed.
