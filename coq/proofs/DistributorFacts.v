(* Invariants of the request-coalescing machine (model/Distributor.v), for ALL event words. *)
From Coq Require Import Lia ZifyBool.
From Verif Require Import model.Distributor.

(* a restart belongs to no component group: it carries the reserved label -1 *)
Definition ev_group (e : devent) : Z := match e with Arrive g _ => g | Finish g _ => g | Restart => -1 end.
Definition lbl_group (l : dlabel) : Z := match l with LA g _ => g | LF g _ => g | LS g _ => g | LR => -1 end.
Definition ev_in (g : Z) (e : devent) : bool := Z.eqb (ev_group e) g.
Definition lbl_in (g : Z) (l : dlabel) : bool := Z.eqb (lbl_group l) g.

(* ------------------------------------------------------------------ basic algebra *)
Lemma upd_same f g v : upd f g v g = v.
Proof. unfold upd. rewrite Z.eqb_refl. reflexivity. Qed.

Lemma upd_other f g v x : x <> g -> upd f g v x = f x.
Proof. intros H. unfold upd. destruct (Z.eqb_spec x g); [contradiction|reflexivity]. Qed.

Lemma dfinal_app st w1 w2 : dfinal st (w1 ++ w2) = dfinal (dfinal st w1) w2.
Proof. revert st. induction w1 as [|e w1 IH]; intros st; cbn; [reflexivity|apply IH]. Qed.

Lemma dtrace_app st w1 w2 : dtrace st (w1 ++ w2) = dtrace st w1 ++ dtrace (dfinal st w1) w2.
Proof.
  revert st. induction w1 as [|e w1 IH]; intros st; cbn; [reflexivity|].
  destruct (dstep st e) as [st' outs] eqn:E. cbn. rewrite IH, app_assoc. reflexivity.
Qed.

(* ------------------------------------------------------------------ pending => inflight *)
Definition pend_inv (st : dstate) : Prop := forall g, pending st g <> None -> inflight st g <> None.

Lemma pend_inv_step st e : pend_inv st -> pend_inv (fst (dstep st e)).
Proof.
  intros HI g. destruct e as [g0 r|g0 ok|]; cbn; [| |apply HI].
  - destruct (inflight st g0) eqn:Ei; cbn.
    + destruct (Z.eq_dec g g0) as [->|Hne].
      * rewrite Ei. congruence.
      * rewrite upd_other by assumption. apply HI.
    + destruct (Z.eq_dec g g0) as [->|Hne].
      * rewrite upd_same. congruence.
      * rewrite upd_other by assumption. apply HI.
  - destruct (pending st g0) eqn:Ep; cbn.
    + destruct (Z.eq_dec g g0) as [->|Hne].
      * rewrite !upd_same. congruence.
      * rewrite !upd_other by assumption. apply HI.
    + destruct (inflight st g0) eqn:Ei; cbn.
      * destruct (Z.eq_dec g g0) as [->|Hne].
        -- rewrite Ep. congruence.
        -- rewrite upd_other by assumption. apply HI.
      * apply HI.
Qed.

Lemma pend_inv_final st w : pend_inv st -> pend_inv (dfinal st w).
Proof. revert st. induction w as [|e w IH]; intros st H; cbn; [assumption|]. apply IH, pend_inv_step, H. Qed.

Lemma pend_inv_init : pend_inv d_init.
Proof. intros g H. cbn in H. congruence. Qed.

Lemma pending_needs_inflight w g :
  pending (dfinal d_init w) g <> None -> inflight (dfinal d_init w) g <> None.
Proof. apply pend_inv_final, pend_inv_init. Qed.

(* ------------------------------------------------------------------ exclusivity *)
(* between two starts of the same group there is a completion of that group *)
Definition exclusive (tr : list dlabel) : Prop :=
  forall g pre r mid r' post,
    tr = pre ++ LS g r :: mid ++ LS g r' :: post -> exists ok, In (LF g ok) mid.

(* no start of g before a completion of g *)
Definition finish_first (g : Z) (tr : list dlabel) : Prop :=
  forall pre r post, tr = pre ++ LS g r :: post -> exists ok, In (LF g ok) pre.

(* alternation monitor: [busy] = a start of g is open *)
Fixpoint alt (g : Z) (busy : bool) (tr : list dlabel) : Prop :=
  match tr with
  | [] => True
  | LS g' _ :: t => if Z.eqb g' g then busy = false /\ alt g true t else alt g busy t
  | LF g' _ :: t => if Z.eqb g' g then alt g false t else alt g busy t
  | LA _ _ :: t => alt g busy t
  | LR :: t => alt g busy t
  end.

Lemma alt_busy_finish_first g tr : alt g true tr -> finish_first g tr.
Proof.
  induction tr as [|l t IH]; intros Ha pre r post Heq.
  - destruct pre; discriminate.
  - destruct pre as [|x pre].
    + cbn in Heq. injection Heq as -> ->. cbn in Ha. rewrite Z.eqb_refl in Ha. destruct Ha; discriminate.
    + cbn in Heq. injection Heq as <- ->.
      destruct l as [g' r0|g' ok|g' r0|]; cbn in Ha;
        [| | |destruct (IH Ha pre r post eq_refl) as [ok H]; exists ok; right; exact H].
      * destruct (IH Ha pre r post eq_refl) as [ok H]. exists ok. right. exact H.
      * destruct (Z.eqb_spec g' g) as [->|Hne].
        -- exists ok. left. reflexivity.
        -- destruct (IH Ha pre r post eq_refl) as [ok' H]. exists ok'. right. exact H.
      * destruct (Z.eqb_spec g' g) as [->|Hne].
        -- destruct Ha; discriminate.
        -- destruct (IH Ha pre r post eq_refl) as [ok' H]. exists ok'. right. exact H.
Qed.

Lemma alt_split g b tr pre r post :
  alt g b tr -> tr = pre ++ LS g r :: post -> alt g true post.
Proof.
  revert b pre. induction tr as [|l t IH]; intros b pre Ha Heq.
  - destruct pre; discriminate.
  - destruct pre as [|x pre].
    + cbn in Heq. injection Heq as -> ->. cbn in Ha. rewrite Z.eqb_refl in Ha. apply Ha.
    + cbn in Heq. injection Heq as <- ->.
      destruct l as [g' r0|g' ok|g' r0|]; cbn in Ha; [| | |eapply IH; [exact Ha|reflexivity]].
      * eapply IH; [exact Ha|reflexivity].
      * destruct (Z.eqb g' g); eapply IH; try exact Ha; reflexivity.
      * destruct (Z.eqb g' g); [destruct Ha as [_ Ha]|]; eapply IH; try exact Ha; reflexivity.
Qed.

Lemma alt_exclusive_g g b tr : alt g b tr ->
  forall pre r mid r' post, tr = pre ++ LS g r :: mid ++ LS g r' :: post -> exists ok, In (LF g ok) mid.
Proof.
  intros Ha pre r mid r' post Heq.
  pose proof (alt_split g b tr pre r _ Ha Heq) as Hb.
  exact (alt_busy_finish_first g _ Hb mid r' post eq_refl).
Qed.

Definition busy_of (st : dstate) (g : Z) : bool :=
  match inflight st g with Some _ => true | None => false end.

(* the monitor accepts the trace of every word from every state *)
Lemma alt_dtrace g w : forall st, alt g (busy_of st g) (dtrace st w).
Proof.
  induction w as [|e w IH]; intros st; cbn; [exact I|].
  destruct e as [g0 r|g0 ok|]; cbn; [| |apply IH].
  - destruct (inflight st g0) eqn:Ei; cbn.
    + specialize (IH (mkD (inflight st) (upd (pending st) g0 (Some r)))).
      unfold busy_of in *. cbn in IH. exact IH.
    + specialize (IH (mkD (upd (inflight st) g0 (Some r)) (pending st))).
      unfold busy_of in *. cbn in IH.
      destruct (Z.eqb_spec g0 g) as [->|Hne].
      * rewrite upd_same in IH. rewrite Ei. split; [reflexivity|exact IH].
      * rewrite upd_other in IH by congruence. exact IH.
  - destruct (pending st g0) eqn:Ep; cbn.
    + specialize (IH (mkD (upd (inflight st) g0 (Some z)) (upd (pending st) g0 None))).
      unfold busy_of in *. cbn in IH.
      destruct (Z.eqb_spec g0 g) as [->|Hne].
      * rewrite upd_same in IH. split; [reflexivity|exact IH].
      * rewrite upd_other in IH by congruence. exact IH.
    + destruct (inflight st g0) eqn:Ei; cbn.
      * specialize (IH (mkD (upd (inflight st) g0 None) (pending st))).
        unfold busy_of in *. cbn in IH.
        destruct (Z.eqb_spec g0 g) as [->|Hne].
        -- rewrite upd_same in IH. exact IH.
        -- rewrite upd_other in IH by congruence. exact IH.
      * specialize (IH st). unfold busy_of in *.
        destruct (Z.eqb_spec g0 g) as [->|Hne].
        -- rewrite Ei in IH. exact IH.
        -- exact IH.
Qed.

Lemma dtrace_exclusive st w : exclusive (dtrace st w).
Proof. intros g. eapply alt_exclusive_g. apply alt_dtrace. Qed.

(* while a task of g is in flight, no new start of g before its completion *)
Lemma dtrace_finish_first st w g : inflight st g <> None -> finish_first g (dtrace st w).
Proof.
  intros H. apply alt_busy_finish_first. pose proof (alt_dtrace g w st) as Ha.
  unfold busy_of in Ha. destruct (inflight st g); [exact Ha|congruence].
Qed.

(* ------------------------------------------------------------------ latest wins *)
Lemma last_arrive_from_app g acc a b :
  last_arrive_from g acc (a ++ b) = last_arrive_from g (last_arrive_from g acc a) b.
Proof. revert acc. induction a as [|l a IH]; intros acc; cbn; [reflexivity|]. destruct l; apply IH. Qed.

Lemma last_start_from_app g acc a b :
  last_start_from g acc (a ++ b) = last_start_from g (last_start_from g acc a) b.
Proof. revert acc. induction a as [|l a IH]; intros acc; cbn; [reflexivity|]. destruct l; apply IH. Qed.

(* aa = last arrival so far, sa = last start so far *)
Definition latest_inv (st : dstate) (g : Z) (aa sa : option Z) : Prop :=
  match pending st g with
  | Some r => aa = Some r /\ inflight st g <> None
  | None => sa = aa
  end.

Lemma latest_step st e g aa sa :
  latest_inv st g aa sa ->
  let tr := lbl_of_event e :: map lbl_of_out (snd (dstep st e)) in
  latest_inv (fst (dstep st e)) g (last_arrive_from g aa tr) (last_start_from g sa tr).
Proof.
  unfold latest_inv. intros HI.
  destruct e as [g0 r|g0 ok|]; cbn; [| |exact HI].
  - destruct (inflight st g0) eqn:Ei; cbn.
    + destruct (Z.eqb_spec g0 g) as [->|Hne].
      * rewrite upd_same. split; [reflexivity|congruence].
      * rewrite upd_other by congruence. exact HI.
    + destruct (Z.eqb_spec g0 g) as [->|Hne].
      * rewrite upd_same. destruct (pending st g) eqn:Ep.
        -- destruct HI as [_ HI]. congruence.
        -- reflexivity.
      * rewrite upd_other by congruence. exact HI.
  - destruct (pending st g0) eqn:Ep; cbn.
    + destruct (Z.eqb_spec g0 g) as [->|Hne].
      * rewrite upd_same. rewrite Ep in HI. destruct HI as [-> _]. reflexivity.
      * rewrite !upd_other by congruence. exact HI.
    + destruct (inflight st g0) eqn:Ei; cbn.
      * destruct (Z.eqb_spec g0 g) as [->|Hne].
        -- rewrite Ep in *. exact HI.
        -- destruct (pending st g); [rewrite upd_other by congruence|]; exact HI.
      * exact HI.
Qed.

Lemma latest_run w : forall st g aa sa,
  latest_inv st g aa sa ->
  latest_inv (dfinal st w) g (last_arrive_from g aa (dtrace st w)) (last_start_from g sa (dtrace st w)).
Proof.
  induction w as [|e w IH]; intros st g aa sa HI; cbn; [exact HI|].
  pose proof (latest_step st e g aa sa HI) as Hs. cbn zeta in Hs.
  destruct (dstep st e) as [st' outs] eqn:E. cbn [fst snd] in *.
  change (lbl_of_event e :: map lbl_of_out outs ++ dtrace st' w)
    with ((lbl_of_event e :: map lbl_of_out outs) ++ dtrace st' w).
  rewrite last_arrive_from_app, last_start_from_app. apply IH. exact Hs.
Qed.

(* with nothing pending for g, the request last started for g is the one that arrived last *)
Lemma latest_wins w g :
  pending (dfinal d_init w) g = None ->
  last_start g (dtrace d_init w) = last_arrive g (dtrace d_init w).
Proof.
  intros Hp. pose proof (latest_run w d_init g None None) as H.
  unfold latest_inv in H. rewrite Hp in H. apply H. cbn. reflexivity.
Qed.

(* with a request pending for g, it IS the last arrival, and a task of g is in flight *)
Lemma pending_is_latest w g r :
  pending (dfinal d_init w) g = Some r ->
  last_arrive g (dtrace d_init w) = Some r /\ inflight (dfinal d_init w) g <> None.
Proof.
  intros Hp. pose proof (latest_run w d_init g None None) as H.
  unfold latest_inv in H. rewrite Hp in H. apply H. cbn. reflexivity.
Qed.

(* ------------------------------------------------------------------ promptness *)
Lemma finish_ignores_result st g : dstep st (Finish g true) = dstep st (Finish g false).
Proof. reflexivity. Qed.

Lemma finish_starts_pending st g ok r :
  pending st g = Some r ->
  snd (dstep st (Finish g ok)) = [Start g r] /\
  inflight (fst (dstep st (Finish g ok))) g = Some r /\
  pending (fst (dstep st (Finish g ok))) g = None.
Proof. intros Hp. cbn. rewrite Hp. cbn. rewrite !upd_same. repeat split. Qed.

Lemma finish_without_pending st g ok :
  pending st g = None ->
  snd (dstep st (Finish g ok)) = [] /\
  inflight (fst (dstep st (Finish g ok))) g = None /\
  pending (fst (dstep st (Finish g ok))) g = None.
Proof.
  intros Hp. cbn. rewrite Hp. destruct (inflight st g) eqn:Ei; cbn.
  - rewrite upd_same. repeat split. exact Hp.
  - repeat split; assumption.
Qed.

(* the last request is eventually applied: two completions of g's tasks suffice *)
Lemma eventually_applied w g ok1 ok2 :
  let w' := w ++ [Finish g ok1; Finish g ok2] in
  inflight (dfinal d_init w') g = None /\ pending (dfinal d_init w') g = None /\
  last_start g (dtrace d_init w') = last_arrive g (dtrace d_init w') /\
  last_arrive g (dtrace d_init w') = last_arrive g (dtrace d_init w).
Proof.
  cbn zeta.
  assert (Hq : inflight (dfinal d_init (w ++ [Finish g ok1; Finish g ok2])) g = None /\
               pending (dfinal d_init (w ++ [Finish g ok1; Finish g ok2])) g = None).
  { rewrite dfinal_app. set (st := dfinal d_init w). cbn [dfinal].
    destruct (pending st g) as [r|] eqn:Ep.
    - destruct (finish_starts_pending st g ok1 r Ep) as (_ & _ & Hp1).
      destruct (finish_without_pending _ g ok2 Hp1) as (_ & Hi & Hp). split; assumption.
    - destruct (finish_without_pending st g ok1 Ep) as (_ & _ & Hp1).
      destruct (finish_without_pending _ g ok2 Hp1) as (_ & Hi & Hp). split; assumption. }
  destruct Hq as [Hi Hp]. repeat split; try assumption.
  - apply latest_wins. exact Hp.
  - rewrite dtrace_app. unfold last_arrive. rewrite last_arrive_from_app.
    generalize (last_arrive_from g None (dtrace d_init w)). intros acc.
    set (st := dfinal d_init w). cbn [dtrace].
    destruct (dstep st (Finish g ok1)) as [st1 o1] eqn:E1.
    destruct (dstep st1 (Finish g ok2)) as [st2 o2] eqn:E2.
    assert (Ho : forall st0 ok, forall o, In o (snd (dstep st0 (Finish g ok))) -> exists r, o = Start g r).
    { intros st0 ok o. cbn. destruct (pending st0 g); cbn.
      - intros [<-|[]]. eexists; reflexivity.
      - destruct (inflight st0 g); cbn; intros []. }
    assert (Hn : forall outs acc0 rest, (forall o, In o outs -> exists r, o = Start g r) ->
                 last_arrive_from g acc0 (map lbl_of_out outs ++ rest) = last_arrive_from g acc0 rest).
    { induction outs as [|o outs IHo]; intros acc0 rest Hall; cbn; [reflexivity|].
      destruct (Hall o (or_introl eq_refl)) as [r ->]. cbn. apply IHo. intros o' Ho'. apply Hall. right. exact Ho'. }
    cbn [lbl_of_event last_arrive_from].
    rewrite Hn by (intros o Hin; apply (Ho st ok1); rewrite E1; exact Hin).
    cbn [last_arrive_from].
    rewrite Hn by (intros o Hin; apply (Ho st1 ok2); rewrite E2; exact Hin).
    reflexivity.
Qed.

(* ------------------------------------------------------------------ independence *)
(* an arrival for an idle group starts at once, whatever the other groups hold *)
Lemma idle_group_starts st g r :
  inflight st g = None -> snd (dstep st (Arrive g r)) = [Start g r].
Proof. intros H. cbn. rewrite H. reflexivity. Qed.

(* frame: an event of another group neither touches g's slots nor emits a start for g *)
Lemma step_frame st e g :
  ev_group e <> g ->
  inflight (fst (dstep st e)) g = inflight st g /\
  pending (fst (dstep st e)) g = pending st g /\
  forall o, In o (snd (dstep st e)) -> lbl_group (lbl_of_out o) = ev_group e.
Proof.
  intros Hne. destruct e as [g0 r|g0 ok|]; cbn in *; [| |repeat split; intros o []].
  - destruct (inflight st g0); cbn.
    + rewrite upd_other by congruence. repeat split. intros o [].
    + rewrite upd_other by congruence. repeat split. intros o [<-|[]]. reflexivity.
  - destruct (pending st g0); cbn.
    + rewrite !upd_other by congruence. repeat split. intros o [<-|[]]. reflexivity.
    + destruct (inflight st g0); cbn.
      * rewrite upd_other by congruence. repeat split. intros o [].
      * repeat split. intros o [].
Qed.

Definition agree (g : Z) (s1 s2 : dstate) : Prop :=
  inflight s1 g = inflight s2 g /\ pending s1 g = pending s2 g.

(* locality: what a step of group g does depends only on g's own slots *)
Lemma step_local s1 s2 e :
  agree (ev_group e) s1 s2 ->
  snd (dstep s1 e) = snd (dstep s2 e) /\ agree (ev_group e) (fst (dstep s1 e)) (fst (dstep s2 e)).
Proof.
  unfold agree. intros [Hi Hp]. destruct e as [g r|g ok|]; cbn in *; [| |repeat split; assumption].
  - rewrite <- Hi. destruct (inflight s1 g) eqn:E1; cbn; rewrite ?upd_same; repeat split; congruence.
  - rewrite <- Hp, <- Hi. destruct (pending s1 g) eqn:E1; cbn; rewrite ?upd_same; [repeat split|].
    destruct (inflight s1 g) eqn:E2; cbn; rewrite ?upd_same; repeat split; congruence.
Qed.

Lemma filter_outs_other g e outs :
  ev_group e <> g ->
  (forall o, In o outs -> lbl_group (lbl_of_out o) = ev_group e) ->
  filter (lbl_in g) (map lbl_of_out outs) = [].
Proof.
  intros Hne. induction outs as [|o outs IH]; intros Hall; cbn; [reflexivity|].
  unfold lbl_in at 1. rewrite (Hall o (or_introl eq_refl)).
  destruct (Z.eqb_spec (ev_group e) g); [contradiction|]. apply IH. intros o' H'. apply Hall. right. exact H'.
Qed.

Lemma filter_outs_same g e st :
  ev_group e = g -> filter (lbl_in g) (map lbl_of_out (snd (dstep st e))) = map lbl_of_out (snd (dstep st e)).
Proof.
  intros <-. destruct e as [g r|g ok|]; cbn; [| |reflexivity].
  - destruct (inflight st g); cbn; [reflexivity|]. unfold lbl_in. cbn. rewrite Z.eqb_refl. reflexivity.
  - destruct (pending st g); cbn.
    + unfold lbl_in. cbn. rewrite Z.eqb_refl. reflexivity.
    + destruct (inflight st g); reflexivity.
Qed.

(* what is observed of group g (arrivals, completions, starts) is the behaviour of the
   machine fed ONLY g's events: other groups can neither delay nor reorder g's requests *)
Lemma dtrace_cons st e w :
  dtrace st (e :: w) = lbl_of_event e :: map lbl_of_out (snd (dstep st e)) ++ dtrace (fst (dstep st e)) w.
Proof. cbn. destruct (dstep st e). reflexivity. Qed.

Lemma filter_cons_eq {A} (f : A -> bool) x l :
  filter f (x :: l) = if f x then x :: filter f l else filter f l.
Proof. reflexivity. Qed.

Lemma projection g w : forall s1 s2,
  agree g s1 s2 ->
  filter (lbl_in g) (dtrace s1 w) = dtrace s2 (filter (ev_in g) w).
Proof.
  induction w as [|e w IH]; intros s1 s2 Ha; [reflexivity|].
  rewrite dtrace_cons, !filter_cons_eq, filter_app.
  unfold ev_in at 1. destruct (Z.eqb_spec (ev_group e) g) as [Heq|Hne].
  - rewrite dtrace_cons.
    assert (Ha' : agree (ev_group e) s1 s2) by (rewrite Heq; exact Ha).
    destruct (step_local s1 s2 e Ha') as [Ho Hag].
    replace (lbl_in g (lbl_of_event e)) with true
      by (unfold lbl_in; destruct e; cbn [lbl_of_event lbl_group ev_group] in *; symmetry; apply Z.eqb_eq; exact Heq).
    rewrite (filter_outs_same g e s1 Heq), Ho. f_equal. f_equal.
    apply IH. rewrite <- Heq. exact Hag.
  - replace (lbl_in g (lbl_of_event e)) with false
      by (unfold lbl_in; destruct e; cbn [lbl_of_event lbl_group ev_group] in *; symmetry; apply Z.eqb_neq; exact Hne).
    destruct (step_frame s1 e g Hne) as (Hi & Hp & Hall).
    rewrite (filter_outs_other g e _ Hne Hall). cbn [app].
    apply IH. destruct Ha as [Ha1 Ha2]. split; congruence.
Qed.

(* ------------------------------------------------------------------ replay soundness *)
(* a replay accepted by [dreplay] is a run of the model: its flattened observation is the
   model's trace of the same events *)
Fixpoint obs_trace (obs : list (devent * list dout)) : list dlabel :=
  match obs with
  | [] => []
  | (e, outs) :: rest => lbl_of_event e :: map lbl_of_out outs ++ obs_trace rest
  end.

Lemma dout_eqb_eq a b : dout_eqb a b = true -> a = b.
Proof. destruct a, b. cbn. intros H. apply andb_prop in H as [H1 H2]. apply Z.eqb_eq in H1, H2. congruence. Qed.

Lemma list_eqb_dout a b : list_eqb dout_eqb a b = true -> a = b.
Proof.
  revert b. induction a as [|x a IH]; intros [|y b]; cbn; try discriminate; [reflexivity|].
  intros H. apply andb_prop in H as [H1 H2]. apply dout_eqb_eq in H1. apply IH in H2. congruence.
Qed.

Lemma dreplay_sound obs : forall st st',
  dreplay st obs = Some st' ->
  obs_trace obs = dtrace st (map fst obs) /\ st' = dfinal st (map fst obs).
Proof.
  induction obs as [|[e outs] rest IH]; intros st st' H; cbn in *.
  - injection H as <-. split; reflexivity.
  - destruct (dstep st e) as [st1 mouts] eqn:E. cbn.
    destruct (allowed st e && list_eqb dout_eqb mouts outs) eqn:Ec; [|discriminate].
    apply andb_prop in Ec as [_ Ec]. apply list_eqb_dout in Ec. subst outs.
    destruct (IH _ _ H) as [Ht Hf]. rewrite Ht. split; [reflexivity|exact Hf].
Qed.
