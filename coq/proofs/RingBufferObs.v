(* C09, stages 2 and 3: under the refinement invariant, every observer of the concrete buffer
   (count_valid, oldest/newest_timestamp, count_covered, window by index / by datetime,
   MovingWindow.at) returns what the abstract sliding map says. *)
From Coq Require Import Lia ZifyBool.
From Verif Require Import model.RingBuffer model.RingBufferSpec proofs.RingBufferGaps proofs.RingBufferInv.

(* ------------------------------------------------------------------ ranges and counting *)
Lemma In_zrange : forall n lo j, In j (zrange lo n) <-> lo <= j < lo + Z.of_nat n.
Proof.
  induction n as [|n IH]; intros lo j; cbn [zrange In]; [lia|]. rewrite IH. lia.
Qed.

Lemma length_zrange : forall n lo, length (zrange lo n) = n.
Proof. induction n; intros; cbn; auto. Qed.

Lemma zrange_app : forall n m lo, zrange lo (n + m) = zrange lo n ++ zrange (lo + Z.of_nat n) m.
Proof.
  induction n as [|n IH]; intros m lo; cbn [zrange Nat.add app].
  - f_equal. lia.
  - rewrite IH. replace (lo + Z.of_nat (S n)) with (lo + 1 + Z.of_nat n) by lia. reflexivity.
Qed.

Lemma nth_zrange : forall n lo i d, (i < n)%nat -> nth i (zrange lo n) d = lo + Z.of_nat i.
Proof.
  induction n as [|n IH]; intros lo i d Hi; [lia|]. destruct i as [|i]; cbn [zrange nth]; [lia|].
  rewrite IH by lia. lia.
Qed.

Definition cntZ (f : Z -> bool) (lo hi : Z) : Z :=
  Z.of_nat (length (filter f (zrange lo (Z.to_nat (hi - lo))))).

Lemma cntZ_split : forall f lo mid hi, lo <= mid <= hi -> cntZ f lo hi = cntZ f lo mid + cntZ f mid hi.
Proof.
  intros f lo mid hi H. unfold cntZ.
  replace (Z.to_nat (hi - lo)) with (Z.to_nat (mid - lo) + Z.to_nat (hi - mid))%nat by lia.
  rewrite zrange_app, filter_app, app_length. replace (lo + Z.of_nat (Z.to_nat (mid - lo))) with mid by lia. lia.
Qed.

Lemma filter_ext_in' : forall (f g : Z -> bool) l, (forall x, In x l -> f x = g x) -> filter f l = filter g l.
Proof.
  induction l as [|h t IH]; intros H; cbn; [reflexivity|].
  rewrite (H h) by (left; reflexivity). rewrite IH by (intros; apply H; right; assumption). reflexivity.
Qed.

Lemma cntZ_ext : forall f g lo hi, (forall j, lo <= j < hi -> f j = g j) -> cntZ f lo hi = cntZ g lo hi.
Proof.
  intros f g lo hi H. unfold cntZ. rewrite (filter_ext_in' f g); [reflexivity|].
  intros x Hx. apply In_zrange in Hx. apply H. lia.
Qed.

Lemma cntZ_empty : forall f lo hi, hi <= lo -> cntZ f lo hi = 0.
Proof. intros. unfold cntZ. replace (Z.to_nat (hi - lo)) with 0%nat by lia. reflexivity. Qed.

Lemma len_filter_const : forall (b : bool) n lo, length (filter (fun _ : Z => b) (zrange lo n)) = if b then n else 0%nat.
Proof.
  induction n as [|n IH]; intros lo; cbn [zrange filter]; [destruct b; reflexivity|].
  destruct b; cbn [length]; rewrite IH; reflexivity.
Qed.

Lemma cntZ_true : forall f lo hi, lo <= hi -> (forall j, lo <= j < hi -> f j = true) -> cntZ f lo hi = hi - lo.
Proof.
  intros f lo hi H Hf. rewrite (cntZ_ext f (fun _ => true)) by exact Hf.
  unfold cntZ. rewrite len_filter_const. lia.
Qed.

Lemma cntZ_false : forall f lo hi, (forall j, lo <= j < hi -> f j = false) -> cntZ f lo hi = 0.
Proof.
  intros f lo hi Hf. rewrite (cntZ_ext f (fun _ => false)) by exact Hf.
  unfold cntZ. rewrite len_filter_const. reflexivity.
Qed.

Lemma cntZ_negb : forall f lo hi, lo <= hi -> cntZ (fun j => negb (f j)) lo hi = (hi - lo) - cntZ f lo hi.
Proof.
  intros f lo hi H. unfold cntZ.
  assert (E : forall n lo, (length (filter (fun j => negb (f j)) (zrange lo n)) + length (filter f (zrange lo n)) = n)%nat).
  { clear. induction n as [|n IH]; intros lo; cbn [zrange filter]; [reflexivity|].
    specialize (IH (lo + 1)). destruct (f lo); cbn [negb length]; lia. }
  specialize (E (Z.to_nat (hi - lo)) lo). lia.
Qed.

Lemma cntZ_bounds : forall f lo hi, 0 <= cntZ f lo hi.
Proof. intros. unfold cntZ. lia. Qed.

Lemma find_zrange_some : forall f n lo x,
  lo <= x < lo + Z.of_nat n -> (forall j, lo <= j < x -> f j = false) -> f x = true ->
  find f (zrange lo n) = Some x.
Proof.
  induction n as [|n IH]; intros lo x Hx Hlt Hfx; [lia|]. cbn [zrange find].
  destruct (Z.eq_dec lo x) as [->|Hne]; [rewrite Hfx; reflexivity|].
  rewrite (Hlt lo) by lia. apply IH; [lia| |exact Hfx]. intros j Hj. apply Hlt. lia.
Qed.

Lemma find_zrange_none : forall f n lo,
  (forall j, lo <= j < lo + Z.of_nat n -> f j = false) -> find f (zrange lo n) = None.
Proof.
  induction n as [|n IH]; intros lo H; [reflexivity|]. cbn [zrange find].
  rewrite (H lo) by lia. apply IH. intros j Hj. apply H. lia.
Qed.

(* ------------------------------------------------------------------ count_valid *)
Definition sum_missing (old : Z) (gs : list gap) : Z :=
  fold_right (fun g acc => (snd g - Z.max (fst g) old) + acc) 0 gs.

Lemma sum_wf : forall gs lo hi old, gaps_wf lo hi gs -> old <= lo ->
  sum_missing old gs = cntZ (is_missing gs) lo hi.
Proof.
  induction gs as [|g r IH]; intros lo hi old Hwf Hold.
  - cbn. symmetry. apply cntZ_false. reflexivity.
  - cbn [gaps_wf] in Hwf. destruct Hwf as (H1 & H2 & H3 & H4).
    pose proof (wf_chain _ _ _ H4) as Hch.
    cbn [sum_missing fold_right]. fold (sum_missing old r).
    rewrite (IH (snd g + 1) hi old H4) by lia.
    rewrite (cntZ_split _ lo (fst g) hi) by lia.
    rewrite (cntZ_split _ (fst g) (snd g) hi) by lia.
    rewrite (cntZ_false _ lo (fst g)).
    2:{ intros j Hj. rewrite is_missing_cons. rewrite (chain_below _ _ j Hch) by lia. rewrite ?contains_unfold. lia. }
    rewrite (cntZ_true _ (fst g) (snd g)) by (try lia; intros j Hj; rewrite is_missing_cons; rewrite ?contains_unfold; lia).
    destruct (Z.eq_dec (snd g) hi) as [He|He].
    + rewrite (cntZ_empty _ (snd g) hi) by lia. rewrite (cntZ_empty _ (snd g + 1) hi) by lia. lia.
    + rewrite (cntZ_split _ (snd g) (snd g + 1) hi) by lia.
      rewrite (cntZ_false _ (snd g) (snd g + 1)).
      2:{ intros j Hj. rewrite is_missing_cons. rewrite (chain_below _ _ j Hch) by lia. rewrite ?contains_unfold. lia. }
      rewrite (cntZ_ext (is_missing (g :: r)) (is_missing r) (snd g + 1) hi).
      2:{ intros j Hj. rewrite is_missing_cons. rewrite ?contains_unfold. lia. }
      lia.
Qed.

Lemma sum_ok : forall c n gs, 0 < c -> gaps_ok c n gs ->
  sum_missing (n - c + 1) gs = cntZ (is_missing gs) (n - c + 1) (n + 1).
Proof.
  intros c n gs Hc [Hwf|[-> ->]].
  - apply sum_wf with (lo := n - c + 1); [exact Hwf|lia].
  - cbn [sum_missing fold_right fst snd]. symmetry.
    rewrite cntZ_false; [lia|]. intros j Hj. cbn. rewrite ?contains_unfold. cbn. lia.
Qed.

Lemma mod_pos : forall c n, 0 < c ->
  (n mod c = c - 1 /\ (n - c + 1) mod c = 0) \/ (n mod c < c - 1 /\ (n - c + 1) mod c = n mod c + 1).
Proof.
  intros c n Hc. pose proof (Z.mod_pos_bound n c Hc) as Hb. pose proof (Z.div_mod n c ltac:(lia)) as Hd.
  destruct (Z.eq_dec (n mod c) (c - 1)) as [He|Hne].
  - left. split; [exact He|]. symmetry. apply (Z.mod_unique _ _ (n / c)); lia.
  - right. split; [lia|]. symmetry. apply (Z.mod_unique _ _ (n / c - 1)); lia.
Qed.

Lemma count_valid_sum : forall b n, 0 < cap b -> newest b = Some n ->
  count_valid b = cap b - Z.max 0 (sum_missing (n - cap b + 1) (gaps b)).
Proof.
  intros b n Hc Hn. unfold count_valid. rewrite Hn. unfold oldest_bound. rewrite !wrap_mod.
  fold (sum_missing (n - cap b + 1) (gaps b)).
  destruct (mod_pos (cap b) n Hc) as [[E1 E2]|[E1 E2]]; rewrite E2.
  - destruct (n mod cap b <? 0) eqn:E; lia.
  - destruct (n mod cap b <? n mod cap b + 1) eqn:E; lia.
Qed.

(* the facts the invariant gives about a non-empty buffer, in the form the observers need *)
Record facts (b : rb) (a : spec) (n : Z) : Prop := mkFacts {
  f_c : 0 < cap b;
  f_new : newest b = Some n;
  f_snew : s_new a = Some n;
  f_gaps : gaps_ok (cap b) n (gaps b);
  f_map : forall j, n - cap b + 1 <= j <= n ->
            s_map a j = if is_missing (gaps b) j then None else get_cell (cells b) (j mod cap b);
  f_val : forall j, n - cap b + 1 <= j <= n -> is_missing (gaps b) j = false ->
            get_cell (cells b) (j mod cap b) <> None;
  f_out : forall j, j < n - cap b + 1 \/ n < j -> s_map a j = None;
}.

Lemma inv_facts : forall b a n, Inv b a -> newest b = Some n -> facts b a n.
Proof.
  intros b a n (Hc & Hn & Hw) En. unfold window_ok in Hw. rewrite En in Hw.
  destruct Hw as (G & M & V & O). constructor; auto. congruence.
Qed.

Lemma facts_some : forall b a n j, facts b a n -> n - cap b + 1 <= j <= n ->
  is_some (s_map a j) = negb (is_missing (gaps b) j).
Proof.
  intros b a n j F Hj. rewrite (f_map _ _ _ F j Hj).
  destruct (is_missing (gaps b) j) eqn:E; [reflexivity|].
  pose proof (f_val _ _ _ F j Hj E). destruct (get_cell (cells b) (j mod cap b)); [reflexivity|congruence].
Qed.

Lemma spec_slots : forall b a n, facts b a n ->
  spec_window_slots (cap b) a = zrange (n - cap b + 1) (Z.to_nat (cap b)).
Proof. intros b a n F. unfold spec_window_slots. rewrite (f_snew _ _ _ F). reflexivity. Qed.

Lemma count_valid_facts : forall b a n, facts b a n ->
  count_valid b = cap b - cntZ (is_missing (gaps b)) (n - cap b + 1) (n + 1) /\
  count_valid b = spec_count (cap b) a.
Proof.
  intros b a n F. pose proof (f_c _ _ _ F) as Hc.
  rewrite (count_valid_sum b n Hc (f_new _ _ _ F)).
  rewrite (sum_ok _ _ _ Hc (f_gaps _ _ _ F)).
  pose proof (cntZ_bounds (is_missing (gaps b)) (n - cap b + 1) (n + 1)).
  split; [lia|].
  unfold spec_count. rewrite (spec_slots _ _ _ F).
  replace (Z.to_nat (cap b)) with (Z.to_nat ((n + 1) - (n - cap b + 1))) by lia.
  change (Z.of_nat (length (filter ?f (zrange ?lo (Z.to_nat (?hi - ?lo)))))) with (cntZ f lo hi).
  rewrite (cntZ_ext (fun j => is_some (s_map a j)) (fun j => negb (is_missing (gaps b) j))).
  2:{ intros j Hj. apply (facts_some _ _ _ _ F). lia. }
  rewrite cntZ_negb by lia. lia.
Qed.

Lemma count_valid_empty : forall b a, Inv b a -> newest b = None ->
  count_valid b = 0 /\ spec_count (cap b) a = 0 /\ spec_oldest (cap b) a = None.
Proof.
  intros b a (Hc & Hn & Hw) En. unfold count_valid, spec_count, spec_oldest, spec_window_slots.
  rewrite <- Hn, En. cbn. auto.
Qed.

(* ------------------------------------------------------------------ oldest / newest *)
Lemma min_end_head : forall g r, (forall x, In x r -> snd g <= snd x) -> min_end (g :: r) = Some (snd g).
Proof.
  intros g r H. cbn [min_end]. f_equal.
  induction r as [|x r IH]; cbn [fold_right]; [reflexivity|].
  rewrite IH by (intros y Hy; apply H; right; exact Hy).
  assert (snd g <= snd x) by (apply H; left; reflexivity). lia.
Qed.

Lemma oldest_facts : forall b a n, facts b a n -> oldest_ts b = spec_oldest (cap b) a.
Proof.
  intros b a n F. pose proof (f_c _ _ _ F) as Hc.
  destruct (count_valid_facts _ _ _ F) as [Hcv Hsc].
  unfold oldest_ts, spec_oldest. rewrite (spec_slots _ _ _ F), (f_new _ _ _ F). unfold oldest_bound.
  set (c := cap b) in *. set (old := n - c + 1) in *.
  assert (Hsome : forall j, old <= j <= n -> is_some (s_map a j) = negb (is_missing (gaps b) j))
    by (intros; apply (facts_some _ _ _ _ F); assumption).
  destruct (count_valid b =? 0) eqn:E0.
  - (* no valid slot at all *)
    symmetry. apply find_zrange_none. intros j Hj. rewrite Hsome by lia.
    assert (Hall : cntZ (is_missing (gaps b)) old (n + 1) = c) by lia.
    destruct (is_missing (gaps b) j) eqn:Em; [reflexivity|exfalso].
    rewrite (cntZ_split _ old j (n + 1)) in Hall by lia.
    rewrite (cntZ_split _ j (j + 1) (n + 1)) in Hall by lia.
    rewrite (cntZ_false _ j (j + 1)) in Hall by (intros i Hi; replace i with j by lia; exact Em).
    assert (cntZ (is_missing (gaps b)) old j <= j - old).
    { pose proof (cntZ_negb (is_missing (gaps b)) old j ltac:(lia)). pose proof (cntZ_bounds (fun i => negb (is_missing (gaps b) i)) old j). lia. }
    assert (cntZ (is_missing (gaps b)) (j + 1) (n + 1) <= n - j).
    { pose proof (cntZ_negb (is_missing (gaps b)) (j + 1) (n + 1) ltac:(lia)). pose proof (cntZ_bounds (fun i => negb (is_missing (gaps b) i)) (j + 1) (n + 1)). lia. }
    lia.
  - destruct (is_missing (gaps b) old) eqn:Eo.
    + (* the window starts inside a gap: it is the first gap, and the slot after it is valid *)
      destruct (f_gaps _ _ _ F) as [Hwf|[_ Hs]].
      2:{ rewrite Hs in Eo. cbn in Eo. rewrite ?contains_unfold in Eo. cbn in Eo. lia. }
      destruct (gaps b) as [|g r] eqn:Eg; [discriminate|].
      cbn [gaps_wf] in Hwf. fold old in Hwf. destruct Hwf as (H1 & H2 & H3 & H4).
      pose proof (wf_chain _ _ _ H4) as Hch.
      assert (Hfst : fst g = old).
      { rewrite is_missing_cons in Eo. rewrite (chain_below _ _ old Hch) in Eo by lia. rewrite ?contains_unfold in Eo. lia. }
      rewrite min_end_head.
      2:{ intros x Hx. destruct (chain_starts _ _ _ Hch Hx). lia. }
      assert (He : snd g <= n).
      { destruct (Z.eq_dec (snd g) (n + 1)) as [E|E]; [exfalso|lia].
        assert (cntZ (is_missing (g :: r)) old (n + 1) = n + 1 - old).
        { apply cntZ_true; [lia|]. intros j Hj. rewrite is_missing_cons. rewrite ?contains_unfold. lia. }
        lia. }
      symmetry. apply find_zrange_some; [lia| |].
      * intros j Hj. rewrite Hsome by lia. rewrite is_missing_cons. rewrite ?contains_unfold. lia.
      * rewrite Hsome by lia. rewrite is_missing_cons. rewrite (chain_below _ _ (snd g) Hch) by lia.
        rewrite ?contains_unfold. lia.
    + symmetry. apply find_zrange_some; [lia|intros; lia|]. rewrite Hsome by lia. rewrite Eo. reflexivity.
Qed.

Lemma newest_facts : forall b a n, facts b a n -> newest_ts b = spec_newest (cap b) a.
Proof.
  intros b a n F. unfold spec_newest. rewrite <- (oldest_facts _ _ _ F).
  unfold newest_ts, oldest_ts. rewrite (f_new _ _ _ F), (f_snew _ _ _ F).
  destruct (count_valid b =? 0); [reflexivity|].
  destruct (is_missing (gaps b) (oldest_bound (cap b) n)) eqn:E; [|reflexivity].
  destruct (gaps b) as [|g r]; [discriminate|reflexivity].
Qed.

(* the oldest valid slot lies in the window and is valid *)
Lemma spec_oldest_range : forall b a n o, facts b a n -> spec_oldest (cap b) a = Some o ->
  n - cap b + 1 <= o <= n /\ is_missing (gaps b) o = false.
Proof.
  intros b a n o F Ho. unfold spec_oldest in Ho. rewrite (spec_slots _ _ _ F) in Ho.
  apply find_some in Ho. destruct Ho as [Hin Hs]. apply In_zrange in Hin.
  pose proof (f_c _ _ _ F). split; [lia|].
  rewrite (facts_some _ _ _ _ F) in Hs by lia. destruct (is_missing (gaps b) o); [discriminate|reflexivity].
Qed.

(* ------------------------------------------------------------------ lists: wrapped window, fill *)
Lemma nth_skipn' : forall {A} (l : list A) n i d, nth i (skipn n l) d = nth (n + i) l d.
Proof.
  induction l as [|h t IH]; intros n i d; destruct n; cbn [skipn nth Nat.add]; try reflexivity.
  - destruct i; reflexivity.
  - apply IH.
Qed.

Lemma nth_firstn' : forall {A} (l : list A) n i d, (i < n)%nat -> nth i (firstn n l) d = nth i l d.
Proof.
  induction l as [|h t IH]; intros n i d Hi; destruct n; cbn [firstn nth]; try reflexivity; try lia.
  destruct i; [reflexivity|]. apply IH. lia.
Qed.

Lemma wrapped_nth : forall cs c s L i,
  c = Z.of_nat (length cs) -> 0 < L <= c -> (i < Z.to_nat L)%nat ->
  length (wrapped cs (s mod c) ((s + L) mod c)) = Z.to_nat L /\
  nth i (wrapped cs (s mod c) ((s + L) mod c)) None = get_cell cs ((s + Z.of_nat i) mod c).
Proof.
  intros cs c s L i Hc HL Hi.
  assert (Hcp : 0 < c) by lia.
  pose proof (Z.mod_pos_bound s c Hcp) as Hs.
  pose proof (Z.div_mod s c ltac:(lia)) as Ds.
  set (sp := s mod c) in *.
  unfold wrapped, get_cell.
  destruct (Z_lt_ge_dec (sp + L) c) as [Hlt|Hge].
  - (* no wrap *)
    assert (E : (s + L) mod c = sp + L) by (symmetry; apply (Z.mod_unique _ _ (s / c)); lia).
    assert (Ei : (s + Z.of_nat i) mod c = sp + Z.of_nat i) by (symmetry; apply (Z.mod_unique _ _ (s / c)); lia).
    rewrite E, Ei. destruct (sp >=? sp + L) eqn:Eb; [lia|].
    split.
    + rewrite firstn_length, skipn_length. lia.
    + rewrite nth_firstn' by lia. rewrite nth_skipn'. f_equal. lia.
  - assert (E : (s + L) mod c = sp + L - c) by (symmetry; apply (Z.mod_unique _ _ (s / c + 1)); lia).
    rewrite E. destruct (sp >=? sp + L - c) eqn:Eb; [|lia].
    split.
    + rewrite app_length, firstn_length, skipn_length. lia.
    + destruct (Z_lt_ge_dec (sp + Z.of_nat i) c) as [Hi1|Hi2].
      * assert (Ei : (s + Z.of_nat i) mod c = sp + Z.of_nat i) by (symmetry; apply (Z.mod_unique _ _ (s / c)); lia).
        rewrite Ei. rewrite app_nth1 by (rewrite skipn_length; lia). rewrite nth_skipn'. f_equal. lia.
      * assert (Ei : (s + Z.of_nat i) mod c = sp + Z.of_nat i - c) by (symmetry; apply (Z.mod_unique _ _ (s / c + 1)); lia).
        rewrite Ei. rewrite app_nth2 by (rewrite skipn_length; lia). rewrite skipn_length.
        rewrite nth_firstn' by lia. f_equal. lia.
Qed.

Lemma fill_from_spec : forall d i0 si ei f,
  length (fill_from i0 si ei f d) = length d /\
  forall i, (i < length d)%nat ->
    nth i (fill_from i0 si ei f d) None
    = if (si <=? i0 + Z.of_nat i) && (i0 + Z.of_nat i <? ei) then f else nth i d None.
Proof.
  induction d as [|x r IH]; intros i0 si ei f; cbn [fill_from length].
  - split; [reflexivity|]. intros i Hi. lia.
  - destruct (IH (i0 + 1) si ei f) as [L N]. split; [lia|].
    intros i Hi. destruct i as [|i]; cbn [nth].
    + replace (i0 + Z.of_nat 0) with i0 by lia. reflexivity.
    + rewrite N by lia. replace (i0 + 1 + Z.of_nat i) with (i0 + Z.of_nat (S i)) by lia. reflexivity.
Qed.

Lemma fill_gaps_spec : forall gs d f s,
  length (fill_gaps d f s gs) = length d /\
  forall i, (i < length d)%nat ->
    nth i (fill_gaps d f s gs) None = if is_missing gs (s + Z.of_nat i) then f else nth i d None.
Proof.
  unfold fill_gaps. induction gs as [|g r IH]; intros d f s; cbn [fold_left].
  - split; [reflexivity|]. intros. reflexivity.
  - set (si := Z.max (fst g - s) 0). set (ei := Z.min (snd g - s) (Z.of_nat (length d))).
    set (d1 := if si <? ei then fill_from 0 si ei f d else d).
    assert (H1 : length d1 = length d /\ forall i, (i < length d)%nat ->
              nth i d1 None = if contains g (s + Z.of_nat i) then f else nth i d None).
    { unfold d1. destruct (si <? ei) eqn:E.
      - destruct (fill_from_spec d 0 si ei f) as [L N]. split; [exact L|].
        intros i Hi. rewrite N by exact Hi. rewrite ?contains_unfold.
        destruct ((si <=? 0 + Z.of_nat i) && (0 + Z.of_nat i <? ei)) eqn:E1;
          destruct ((fst g <=? s + Z.of_nat i) && (s + Z.of_nat i <? snd g)) eqn:E2; try reflexivity; lia.
      - split; [reflexivity|]. intros i Hi. rewrite ?contains_unfold.
        destruct ((fst g <=? s + Z.of_nat i) && (s + Z.of_nat i <? snd g)) eqn:E2; [lia|reflexivity]. }
    destruct H1 as [L1 N1]. destruct (IH d1 f s) as [L N].
    split; [congruence|]. intros i Hi. rewrite N by lia. rewrite is_missing_cons, N1 by exact Hi.
    destruct (is_missing r (s + Z.of_nat i)), (contains g (s + Z.of_nat i)); reflexivity.
Qed.

(* ------------------------------------------------------------------ window() *)
Lemma to_idx_in : forall b n k, newest b = Some n -> n - cap b + 1 <= k <= n + 1 ->
  to_idx b k = Some (k mod cap b).
Proof.
  intros b n k Hn Hk. unfold to_idx, oldest_bound. rewrite wrap_mod, Hn.
  destruct ((n + 1 <? k) || (k <? n - cap b + 1)) eqn:E; [lia|reflexivity].
Qed.

Lemma window_slots_facts : forall b a n s e f, facts b a n ->
  window_slots b s e (Some f) = RList (spec_window (cap b) a s e f).
Proof.
  intros b a n s e f F. pose proof (f_c _ _ _ F) as Hc.
  unfold window_slots, spec_window, spec_cover.
  rewrite (oldest_facts _ _ _ F), (newest_facts _ _ _ F). unfold spec_newest.
  destruct (spec_oldest (cap b) a) as [o|] eqn:Eo; [|reflexivity].
  rewrite (f_snew _ _ _ F).
  destruct (spec_oldest_range _ _ _ _ F Eo) as [Ho _].
  set (s' := Z.max s o). set (e' := Z.min e (n + 1)).
  destruct (s' >=? e') eqn:Ege.
  - replace (Z.to_nat (e' - s')) with 0%nat by lia. reflexivity.
  - rewrite (to_idx_in b n s' (f_new _ _ _ F)) by lia.
    rewrite (to_idx_in b n e' (f_new _ _ _ F)) by lia.
    f_equal. set (L := e' - s').
    replace e' with (s' + L) by lia.
    assert (HL : 0 < L <= cap b) by lia.
    assert (Hcap : cap b = Z.of_nat (length (cells b))) by reflexivity.
    apply (@nth_ext cell _ _ None None).
    + destruct (fill_gaps_spec (gaps b) (wrapped (cells b) (s' mod cap b) ((s' + L) mod cap b)) f s') as [Lf _].
      rewrite Lf. rewrite map_length, length_zrange.
      destruct (Z.to_nat L) eqn:EL; [lia|].
      destruct (wrapped_nth (cells b) (cap b) s' L 0%nat Hcap HL ltac:(lia)) as [Lw _]. lia.
    + intros i Hi.
      destruct (fill_gaps_spec (gaps b) (wrapped (cells b) (s' mod cap b) ((s' + L) mod cap b)) f s') as [Lf Nf].
      rewrite Lf in Hi.
      assert (Hi' : (i < Z.to_nat L)%nat).
      { destruct (Z.to_nat L) eqn:EL; [lia|].
        destruct (wrapped_nth (cells b) (cap b) s' L 0%nat Hcap HL ltac:(lia)) as [Lw _]. lia. }
      destruct (wrapped_nth (cells b) (cap b) s' L i Hcap HL Hi') as [Lw Nw].
      rewrite Nf by lia. rewrite Nw.
      rewrite (nth_indep _ None (slot_value a f 0)) by (rewrite map_length, length_zrange; exact Hi').
      rewrite map_nth. rewrite nth_zrange by exact Hi'.
      unfold slot_value. rewrite (f_map _ _ _ F) by lia.
      destruct (is_missing (gaps b) (s' + Z.of_nat i)) eqn:Em; [reflexivity|].
      pose proof (f_val _ _ _ F (s' + Z.of_nat i) ltac:(lia) Em) as Hv.
      destruct (get_cell (cells b) ((s' + Z.of_nat i) mod cap b)); [reflexivity|congruence].
Qed.

Lemma covered_facts : forall b a n, facts b a n -> count_covered b = spec_covered (cap b) a.
Proof.
  intros b a n F. unfold count_covered, spec_covered.
  rewrite (oldest_facts _ _ _ F), (newest_facts _ _ _ F). unfold spec_newest.
  destruct (spec_oldest (cap b) a); [|reflexivity]. rewrite (f_snew _ _ _ F). reflexivity.
Qed.

Lemma slice_adj_range : forall n x d, 0 <= n -> 0 <= d <= n -> 0 <= slice_adj n x d <= n.
Proof. intros n [s|] d Hn Hd; cbn [slice_adj]; [destruct (s <? 0) eqn:E; lia|lia]. Qed.

(* ------------------------------------------------------------------ normalize_timestamp *)
Lemma norm_slot_grid : forall p a k, 0 < p -> norm_slot p a (ts_of p a k) = k.
Proof.
  intros p a k Hp. rewrite norm_slot_unfold by exact Hp. cbv zeta. unfold ts_of. replace (a + k * p - a) with (k * p) by lia.
  rewrite Z.mod_mul by lia. rewrite Z.div_mul by lia. reflexivity.
Qed.

Lemma norm_slot_cases : forall p a t, 0 < p ->
  let n := (t - a) / p in let r := (t - a) mod p in
  (norm_slot p a t = n \/ norm_slot p a t = n + 1) /\
  (norm_slot p a t = n + 1 <-> r <> 0 /\ ((td_half p = r /\ n mod 2 <> 0) \/ td_half p < r)).
Proof.
  intros p a t Hp n r. rewrite norm_slot_unfold by exact Hp. cbv zeta. fold n r.
  destruct (negb (r =? 0) && ((td_half p =? r) && negb (n mod 2 =? 0) || (td_half p <? r))) eqn:E; split; lia.
Qed.

Lemma norm_slot_mono : forall p a t1 t2, 0 < p -> t1 <= t2 -> norm_slot p a t1 <= norm_slot p a t2.
Proof.
  intros p a t1 t2 Hp Ht.
  destruct (norm_slot_cases p a t1 Hp) as [C1 U1]. destruct (norm_slot_cases p a t2 Hp) as [C2 U2].
  cbv zeta in *.
  pose proof (Z.div_mod (t1 - a) p ltac:(lia)) as D1. pose proof (Z.div_mod (t2 - a) p ltac:(lia)) as D2.
  pose proof (Z.mod_pos_bound (t1 - a) p Hp) as B1. pose proof (Z.mod_pos_bound (t2 - a) p Hp) as B2.
  assert (Hn : (t1 - a) / p <= (t2 - a) / p) by (apply Z.div_le_mono; lia).
  destruct (Z.eq_dec ((t1 - a) / p) ((t2 - a) / p)) as [En|Hne]; [|lia].
  assert (Hr : (t1 - a) mod p <= (t2 - a) mod p) by nia.
  destruct C1 as [C1|C1]; [lia|]. destruct C2 as [C2|C2]; [|lia].
  exfalso. apply U1 in C1. rewrite En in C1. 
  assert (~ (norm_slot p a t2 = (t2 - a) / p + 1)) by lia.
  apply H. apply U2. destruct C1 as [Hr0 [[Hh Ho]|Hh]]; split; try lia.
  all: try (destruct (Z.eq_dec ((t1 - a) mod p) ((t2 - a) mod p)); [left; split; [lia|exact Ho]|right; lia]).
Qed.

(* ------------------------------------------------------------------ all observers, any state *)
Lemma covered_zero_oldest : forall b a n, facts b a n -> spec_covered (cap b) a = 0 -> spec_oldest (cap b) a = None.
Proof.
  intros b a n F H. unfold spec_covered in H. destruct (spec_oldest (cap b) a) as [o|] eqn:Eo; [|reflexivity].
  destruct (spec_oldest_range _ _ _ _ F Eo). rewrite (f_snew _ _ _ F) in H. lia.
Qed.

Lemma observers_inv : forall b a, Inv b a ->
  count_valid b = spec_count (cap b) a /\ oldest_ts b = spec_oldest (cap b) a /\
  newest_ts b = spec_newest (cap b) a /\ count_covered b = spec_covered (cap b) a.
Proof.
  intros b a HI. destruct (newest b) as [n|] eqn:En.
  - pose proof (inv_facts _ _ _ HI En) as F.
    split; [apply (count_valid_facts _ _ _ F)|]. split; [apply (oldest_facts _ _ _ F)|].
    split; [apply (newest_facts _ _ _ F)|apply (covered_facts _ _ _ F)].
  - destruct (count_valid_empty _ _ HI En) as (H1 & H2 & H3).
    unfold oldest_ts, newest_ts, count_covered, spec_newest, spec_covered, oldest_ts, newest_ts.
    rewrite H1, H2, H3. cbn. auto.
Qed.

Lemma empty_spec_window : forall c a s e f, spec_oldest c a = None -> spec_window c a s e f = [].
Proof. intros. unfold spec_window, spec_cover. rewrite H. reflexivity. Qed.

Lemma window_slots_inv : forall b a s e f, Inv b a ->
  window_slots b s e (Some f) = RList (spec_window (cap b) a s e f).
Proof.
  intros b a s e f HI. destruct (newest b) as [n|] eqn:En.
  - apply (window_slots_facts _ _ _ _ _ _ (inv_facts _ _ _ HI En)).
  - destruct (observers_inv _ _ HI) as (_ & Ho & _). destruct (count_valid_empty _ _ HI En) as (_ & _ & H3).
    unfold window_slots. rewrite Ho, H3. rewrite empty_spec_window by exact H3. reflexivity.
Qed.

Lemma covered_zero : forall b a, Inv b a -> count_covered b = 0 -> spec_oldest (cap b) a = None.
Proof.
  intros b a HI H. destruct (observers_inv _ _ HI) as (_ & _ & _ & Hc). rewrite Hc in H.
  destruct (newest b) as [n|] eqn:En.
  - apply (covered_zero_oldest _ _ _ (inv_facts _ _ _ HI En) H).
  - apply (count_valid_empty _ _ HI En).
Qed.

Lemma window_ts_inv : forall p al b a s e f, Inv b a ->
  window_ts p al b s e (Some f) = RList (spec_window (cap b) a (norm_slot p al s) (norm_slot p al e) f).
Proof.
  intros p al b a s e f HI. unfold window_ts.
  destruct (count_covered b =? 0) eqn:E.
  - rewrite empty_spec_window; [reflexivity|]. apply (covered_zero _ _ HI). lia.
  - apply window_slots_inv. exact HI.
Qed.

Lemma window_idx_inv : forall b a s e f, Inv b a ->
  window_idx b s e (Some f) = RList (spec_window_idx (cap b) a s e f).
Proof.
  intros b a s e f HI. unfold window_idx, spec_window_idx.
  destruct (observers_inv _ _ HI) as (_ & Ho & Hn & Hc).
  destruct (count_covered b =? 0) eqn:E.
  - rewrite (covered_zero _ _ HI) by lia. reflexivity.
  - unfold get_timestamp. rewrite Ho, Hn. unfold spec_newest.
    destruct (spec_oldest (cap b) a) as [o|] eqn:Eo.
    + assert (Hcov : 0 < spec_covered (cap b) a).
      { destruct (newest b) as [n'|] eqn:En; [|destruct (count_valid_empty _ _ HI En) as (_ & _ & H3); congruence].
        pose proof (inv_facts _ _ _ HI En) as F. destruct (spec_oldest_range _ _ _ _ F Eo).
        unfold spec_covered. rewrite Eo, (f_snew _ _ _ F). lia. }
      destruct (s_new a) as [n|] eqn:Esn.
      * rewrite Hc.
        pose proof (slice_adj_range (spec_covered (cap b) a) s 0 ltac:(lia) ltac:(lia)).
        pose proof (slice_adj_range (spec_covered (cap b) a) e (spec_covered (cap b) a) ltac:(lia) ltac:(lia)).
        destruct (slice_adj (spec_covered (cap b) a) s 0 >=? 0) eqn:E1; [|lia].
        destruct (slice_adj (spec_covered (cap b) a) e (spec_covered (cap b) a) >=? 0) eqn:E2; [|lia].
        apply window_slots_inv. exact HI.
      * unfold spec_covered in Hcov. rewrite Eo, Esn in Hcov. lia.
    + exfalso. unfold count_covered in E. rewrite Ho in E. lia.
Qed.

Lemma count_valid_zero_oldest : forall b, count_valid b = 0 -> oldest_ts b = None.
Proof. intros b H. unfold oldest_ts. rewrite H. reflexivity. Qed.

Lemma at_idx_inv : forall b a i, Inv b a -> at_idx b i = spec_at_idx (cap b) a i.
Proof.
  intros b a i HI. unfold at_idx, spec_at_idx.
  destruct (observers_inv _ _ HI) as (_ & Ho & Hn & _).
  destruct (count_valid b =? 0) eqn:E.
  - rewrite <- Ho, count_valid_zero_oldest by lia. reflexivity.
  - unfold get_timestamp. rewrite Ho, Hn. unfold spec_newest.
    destruct (spec_oldest (cap b) a) as [o|] eqn:Eo; [|reflexivity].
    destruct (newest b) as [n|] eqn:En; [|destruct (count_valid_empty _ _ HI En) as (_ & _ & H3); congruence].
    pose proof (inv_facts _ _ _ HI En) as F. rewrite (f_snew _ _ _ F).
    destruct (spec_oldest_range _ _ _ _ F Eo) as [Hr _].
    set (k := (if i >=? 0 then o else n + 1) + i).
    destruct ((k <? o) || (k >? n)) eqn:Eout; [reflexivity|].
    rewrite (f_map _ _ _ F k) by lia.
    destruct (is_missing (gaps b) k); [reflexivity|].
    rewrite (to_idx_in b n k En) by lia. reflexivity.
Qed.

Lemma at_ts_inv : forall p al b a t, 0 < p -> Inv b a -> at_ts p al b t = spec_at_ts p al (cap b) a t.
Proof.
  intros p al b a t Hp HI. unfold at_ts, spec_at_ts.
  destruct (observers_inv _ _ HI) as (_ & Ho & Hn & _).
  destruct (count_valid b =? 0) eqn:E.
  - rewrite <- Ho, count_valid_zero_oldest by lia. reflexivity.
  - rewrite Ho, Hn. unfold spec_newest.
    destruct (spec_oldest (cap b) a) as [o|] eqn:Eo; [|reflexivity].
    destruct (newest b) as [n|] eqn:En; [|destruct (count_valid_empty _ _ HI En) as (_ & _ & H3); congruence].
    pose proof (inv_facts _ _ _ HI En) as F. rewrite (f_snew _ _ _ F).
    destruct (spec_oldest_range _ _ _ _ F Eo) as [Hr _].
    destruct ((t <? ts_of p al o) || (t >? ts_of p al n)) eqn:Eout; [reflexivity|].
    set (k := norm_slot p al t).
    assert (Hk : o <= k <= n).
    { unfold k. pose proof (norm_slot_grid p al o Hp) as G1. pose proof (norm_slot_grid p al n Hp) as G2.
      pose proof (norm_slot_mono p al (ts_of p al o) t Hp ltac:(lia)).
      pose proof (norm_slot_mono p al t (ts_of p al n) Hp ltac:(lia)). lia. }
    rewrite (f_map _ _ _ F k) by lia.
    destruct (is_missing (gaps b) k); [reflexivity|].
    rewrite (to_idx_in b n k En) by lia. reflexivity.
Qed.

(* ------------------------------------------------------------------ consequences *)
(* every slot a query is answered from lies in [oldest valid, newest] and in the queried range *)
Lemma spec_cover_range : forall b a s e j, Inv b a -> In j (spec_cover (cap b) a s e) ->
  s <= j < e /\ exists o n, spec_oldest (cap b) a = Some o /\ s_new a = Some n /\ o <= j <= n /\ n - cap b + 1 <= o.
Proof.
  intros b a s e j HI Hin. unfold spec_cover in Hin.
  destruct (spec_oldest (cap b) a) as [o|] eqn:Eo; [|contradiction].
  destruct (s_new a) as [n|] eqn:Esn; [|contradiction].
  apply In_zrange in Hin.
  destruct HI as (Hc & Hnb & Hw). pose proof Hnb as Hnb'. rewrite Esn in Hnb'.
  pose proof (inv_facts b a n (conj Hc (conj Hnb Hw)) Hnb') as F.
  destruct (spec_oldest_range _ _ _ _ F Eo) as [Hr _].
  split; [lia|]. exists o, n. repeat split; auto; lia.
Qed.

Lemma spec_window_length : forall c a s e f, Z.of_nat (length (spec_window c a s e f)) <= Z.max 0 (e - s).
Proof.
  intros. unfold spec_window, spec_cover. rewrite map_length.
  destruct (spec_oldest c a); [|cbn; lia]. destruct (s_new a); [|cbn; lia].
  rewrite length_zrange. lia.
Qed.

(* values of the abstract map are values some update of the history wrote to that very slot *)
Lemma spec_run_values : forall c h a0 j v,
  s_map (spec_run c a0 h) j = Some v -> s_map a0 j = Some v \/ In (j, Some v) h.
Proof.
  intros c. induction h as [|[k w] h IH]; intros a0 j v H; cbn [spec_run fold_left] in H; [left; exact H|].
  apply IH in H. destruct H as [H|H]; [|right; right; exact H].
  unfold spec_step, spec_update in H. cbn [fst snd] in H.
  destruct (match s_new a0 with Some n => k <? n - c + 1 | None => false end); [left; exact H|].
  cbn [s_map] in H. destruct (j =? k) eqn:E.
  - right. left. assert (j = k) by lia. subst. reflexivity.
  - destruct (j <? _) in H; [discriminate|left; exact H].
Qed.

(* normalize_timestamp picks the nearest slot, the even one at equal distance (even periods:
   timedelta / 2 is then exact) *)
Lemma norm_slot_nearest : forall p a t, 0 < p -> p mod 2 = 0 ->
  let k := norm_slot p a t in
  - p <= 2 * (t - ts_of p a k) <= p /\
  (2 * (t - ts_of p a k) = p \/ 2 * (t - ts_of p a k) = - p -> k mod 2 = 0).
Proof.
  intros p a t Hp Hev. cbv zeta.
  destruct (norm_slot_cases p a t Hp) as [C U]. cbv zeta in *.
  pose proof (Z.div_mod (t - a) p ltac:(lia)) as D. pose proof (Z.mod_pos_bound (t - a) p Hp) as B.
  pose proof (Z.div_mod p 2 ltac:(lia)) as Dp.
  assert (Hh : td_half p = p / 2) by (unfold td_half; rewrite Hev; reflexivity).
  rewrite Hh in U. unfold ts_of.
  set (n := (t - a) / p) in *. set (r := (t - a) mod p) in *.
  pose proof (Z.mod_pos_bound n 2 ltac:(lia)) as Bn.
  destruct C as [C|C]; rewrite C.
  - assert (Hno : ~ (r <> 0 /\ (p / 2 = r /\ n mod 2 <> 0 \/ p / 2 < r))) by (intro X; apply U in X; lia).
    split; [nia|]. intros [X|X]; [|nia].
    assert (r = p / 2) by nia. destruct (Z.eq_dec (n mod 2) 0); [assumption|]. exfalso. apply Hno. split; [lia|left; split; [lia|assumption]].
  - apply U in C. destruct C as [Hr [[Hq Ho]|Hq]].
    + split; [nia|]. intros [X|X]; [nia|].
      replace (n + 1) with (n + 1 * 2 - 1) by lia. 
      assert (n mod 2 = 1) by lia.
      pose proof (Z.div_mod n 2 ltac:(lia)).
      symmetry. apply (Z.mod_unique _ _ (n / 2 + 1)); lia.
    + split; [nia|]. intros [X|X]; nia.
Qed.

(* fill_value=None (documented opt-out: raw data, gaps not blanked): same slots, and every slot that
   holds a valid value is reported with that value; nothing is claimed about the other positions *)
Definition raw_agrees (a : spec) (cover : list Z) (w : list cell) : Prop :=
  length w = length cover /\
  forall i j v, nth_error cover i = Some j -> s_map a j = Some v -> nth i w None = Some v.

Lemma window_slots_raw : forall b a s e, Inv b a ->
  exists w, window_slots b s e None = RList w /\ raw_agrees a (spec_cover (cap b) a s e) w.
Proof.
  intros b a s e HI. destruct (observers_inv _ _ HI) as (_ & Ho & Hn & _).
  unfold window_slots, spec_cover. rewrite Ho, Hn. unfold spec_newest.
  destruct (spec_oldest (cap b) a) as [o|] eqn:Eo.
  2:{ exists []. split; [reflexivity|]. split; [reflexivity|]. intros i j v H. destruct i; discriminate. }
  destruct (newest b) as [n|] eqn:En.
  2:{ destruct (count_valid_empty _ _ HI En) as (_ & _ & H3). congruence. }
  pose proof (inv_facts _ _ _ HI En) as F. rewrite (f_snew _ _ _ F).
  pose proof (f_c _ _ _ F) as Hc. destruct (spec_oldest_range _ _ _ _ F Eo) as [Hr _].
  set (s' := Z.max s o). set (e' := Z.min e (n + 1)).
  destruct (s' >=? e') eqn:Ege.
  - exists []. split; [reflexivity|]. replace (Z.to_nat (e' - s')) with 0%nat by lia.
    split; [reflexivity|]. intros i j v H. destruct i; discriminate.
  - rewrite (to_idx_in b n s' En) by lia. rewrite (to_idx_in b n e' En) by lia.
    eexists. split; [reflexivity|].
    set (L := e' - s'). replace e' with (s' + L) by lia.
    assert (HL : 0 < L <= cap b) by lia.
    assert (Hcap : cap b = Z.of_nat (length (cells b))) by reflexivity.
    split.
    + rewrite length_zrange. destruct (Z.to_nat L) eqn:EL; [lia|].
      destruct (wrapped_nth (cells b) (cap b) s' L 0%nat Hcap HL ltac:(lia)) as [Lw _]. lia.
    + intros i j v Hi Hv.
      assert (Hlt : (i < Z.to_nat L)%nat).
      { rewrite <- (length_zrange (Z.to_nat L) s'). apply nth_error_Some. congruence. }
      assert (Hj : j = s' + Z.of_nat i).
      { rewrite <- (nth_zrange (Z.to_nat L) s' i 0 Hlt). symmetry. apply nth_error_nth. exact Hi. }
      destruct (wrapped_nth (cells b) (cap b) s' L i Hcap HL Hlt) as [_ Nw]. rewrite Nw, <- Hj.
      rewrite (f_map _ _ _ F j) in Hv by lia.
      destruct (is_missing (gaps b) j); [discriminate|exact Hv].
Qed.

Lemma window_ts_raw : forall p al b a s e, Inv b a ->
  exists w, window_ts p al b s e None = RList w /\
            raw_agrees a (spec_cover (cap b) a (norm_slot p al s) (norm_slot p al e)) w.
Proof.
  intros p al b a s e HI. unfold window_ts. destruct (count_covered b =? 0) eqn:E.
  - exists []. split; [reflexivity|]. unfold spec_cover. rewrite (covered_zero _ _ HI) by lia.
    split; [reflexivity|]. intros i j v H. destruct i; discriminate.
  - apply window_slots_raw. exact HI.
Qed.

(* the fill value is a parameter like any other: for EVERY fill v (NaN, 0, -0.0, 1, negative, huge ...)
   the slots of the covered range that hold a sample read their sample, all others read v *)
Lemma window_ts_fill : forall p al b a s e (v : cell), Inv b a ->
  window_ts p al b s e (Some v)
  = RList (map (fun j => match s_map a j with Some x => Some x | None => v end)
               (spec_cover (cap b) a (norm_slot p al s) (norm_slot p al e))).
Proof. intros. rewrite (window_ts_inv p al b a s e v H). reflexivity. Qed.

Lemma window_idx_fill : forall b a s e (v : cell) o, Inv b a -> spec_oldest (cap b) a = Some o ->
  window_idx b s e (Some v)
  = RList (map (fun j => match s_map a j with Some x => Some x | None => v end)
               (spec_cover (cap b) a (o + slice_adj (spec_covered (cap b) a) s 0)
                                     (o + slice_adj (spec_covered (cap b) a) e (spec_covered (cap b) a)))).
Proof. intros b a s e v o H Ho. rewrite (window_idx_inv b a s e v H). unfold spec_window_idx. rewrite Ho. reflexivity. Qed.
