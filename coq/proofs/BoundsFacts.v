(* Facts about the three functions of _bounds.py AS TRANSLATED from /repo
   (gen/Extracted.v).  Everything downstream uses only the characterisations proved
   here, so a behaviour-preserving rewrite of _bounds.py only has to re-pass the three
   [_spec] lemmas, whose proofs are a generic case split. *)
From Coq Require Import Lia ZifyBool.
From Verif Require Import model.Common gen.Extracted.

Definition bnds := option (Z * Z).

(* reference definitions *)
Definition overlap (lo hi : Z) (ex : bnds) : bool * bool :=
  match ex with
  | None => (false, false)
  | Some (el, eu) => ((el <? lo) && (lo <? eu), (el <? hi) && (hi <? eu))
  end.

Definition adjust (lo hi : Z) (ex : bnds) : Z * Z :=
  match ex with
  | None => (lo, hi)
  | Some (el, eu) =>
    match overlap lo hi ex with
    | (true, true) => (0, 0)
    | (false, true) => (lo, el)
    | (true, false) => (eu, hi)
    | (false, false) => (lo, hi)
    end
  end.

Definition clamp (v lo hi : Z) (ex : bnds) : option Z * option Z :=
  let pre :=
    match ex with
    | None => None
    | Some (el, eu) =>
      match overlap lo hi ex with
      | (true, true) => Some (None, None)
      | (true, false) => if v <? eu then Some (None, Some eu) else None
      | (false, true) => if el <? v then Some (Some el, None) else None
      | (false, false) => None
      end
    end in
  match pre with
  | Some r => r
  | None =>
    if v <? lo then (Some lo, None)
    else if hi <? v then (None, Some hi)
    else match ex with
         | Some (el, eu) =>
           if negb (v =? 0) && ((el <? v) && (v <? eu)) then (Some el, Some eu) else (Some v, Some v)
         | None => (Some v, Some v)
         end
  end.

(* generic case splitter: destruct every boolean test that occurs in the goal *)
Ltac split_ifs :=
  repeat match goal with
  | |- context [if ?c then _ else _] =>
      match c with
      | context [if _ then _ else _] => fail 1
      | _ => let E := fresh "E" in destruct c eqn:E
      end
  | |- context [match ?c with (_, _) => _ end] =>
      match type of c with
      | (bool * bool)%type => let E := fresh "E" in destruct c as [[|] [|]] eqn:E
      end
  end.

Lemma overlap_spec lo hi ex : check_exclusion_bounds_overlap lo hi ex = overlap lo hi ex.
Proof.
  unfold check_exclusion_bounds_overlap, overlap.
  destruct ex as [[el eu]|]; [|reflexivity]. cbn [fst snd].
  destruct (el <? lo), (lo <? eu), (el <? hi), (hi <? eu); reflexivity.
Qed.

Lemma adjust_spec lo hi ex : adjust_exclusion_bounds lo hi ex = adjust lo hi ex.
Proof.
  unfold adjust_exclusion_bounds, adjust. destruct ex as [[el eu]|]; [|reflexivity].
  rewrite overlap_spec. cbn [fst snd].
  destruct (overlap lo hi (Some (el, eu))) as [[|] [|]]; reflexivity.
Qed.

Ltac split_cmp :=
  repeat match goal with
  | |- context [?a <? ?b] => destruct (a <? b)
  | |- context [?a =? ?b] => destruct (a =? b)
  | |- context [?a <=? ?b] => destruct (a <=? b)
  end.

Lemma clamp_spec v lo hi ex : clamp_to_bounds v lo hi ex = clamp v lo hi ex.
Proof.
  unfold clamp_to_bounds, clamp. destruct ex as [[el eu]|].
  - rewrite overlap_spec. cbn [fst snd].
    destruct (overlap lo hi (Some (el, eu))) as [[|] [|]]; cbn [fst snd];
    rewrite ?Z.gtb_ltb; split_cmp; reflexivity.
  - rewrite ?Z.gtb_ltb. split_cmp; reflexivity.
Qed.
