(* C17 — advertised vs enforced battery-pool bounds: the algebra, for every list of groups. *)
From Coq Require Import QArith Qabs List Bool Lqa Morphisms Setoid.
From Verif Require Import model.Common gen.Pool model.PoolBounds proofs.PoolBoundsNum.
Import ListNotations.
Open Scope Q_scope.

(* ------------------------------------------------------------------ vocabulary *)
Definition pb_eq (a b : pb) : Prop := il a == il b /\ el a == el b /\ eu a == eu b /\ iu a == iu b.

(* complete data of one group: at least one battery and one inverter (the mapping code only
   produces such groups: a battery set contains the battery itself, and batteries without an
   inverter are dropped) *)
Definition wf_group (g : cgroup) : Prop := fst g <> [] /\ snd g <> [].

(* consistent inverter data as in C01: every inverter's exclusion zone straddles zero *)
Definition wf_inverters (g : cgroup) : Prop := forall i, In i (snd g) -> el i <= 0 /\ 0 <= eu i.

(* what one group with complete data adds to the advertised bounds *)
Definition grp (g : cgroup) : pb :=
  let ab := agg_bat (fst g) in
  mkPB (pmax (il ab) (qsum (map il (snd g)))) (pmin (el ab) (qsum (map el (snd g))))
       (pmax (eu ab) (qsum (map eu (snd g)))) (pmin (iu ab) (qsum (map iu (snd g)))).

(* the documented shape of the advertised bounds: per group max/min, summed over groups *)
Definition adv_sum (gs : list cgroup) : pb :=
  mkPB (qsum (map (fun g => il (grp g)) gs)) (qsum (map (fun g => el (grp g)) gs))
       (qsum (map (fun g => eu (grp g)) gs)) (qsum (map (fun g => iu (grp g)) gs)).

(* ------------------------------------------------------------------ calculator on complete data *)
Lemma validate_wrap : forall b, validate (wrap_entry b) = Some b.
Proof. intros [a b c d]. reflexivity. Qed.

Lemma somes_validate_wrap : forall l, somes (map validate (map wrap_entry l)) = l.
Proof.
  induction l as [|b l IH]; cbn [map somes]; [reflexivity|].
  rewrite validate_wrap. cbn [somes]. now rewrite IH.
Qed.

Lemma adv_group_wrap : forall g, wf_group g -> adv_group (wrap g) = Some (grp g).
Proof.
  intros [bs is] [Hb Hi]. cbn [fst snd] in *. unfold adv_group, wrap. cbn [g_bats g_invs fst snd].
  rewrite !somes_validate_wrap.
  destruct bs as [|b bs]; [congruence|]. destruct is as [|i is]; [congruence|]. reflexivity.
Qed.

Lemma contribs_complete : forall gs, Forall wf_group gs -> adv_contribs (map wrap gs) = map grp gs.
Proof.
  unfold adv_contribs. induction 1 as [|g gs Hg Hgs IH]; cbn [map somes]; [reflexivity|].
  rewrite (adv_group_wrap g Hg). cbn [somes]. now rewrite IH.
Qed.

(* on complete data the calculator returns bounds iff there is at least one group, and they
   are the per-group max/min summed over the groups *)
Lemma advertised_complete : forall gs, Forall wf_group gs ->
  match advertised (map wrap gs) with
  | Some a => gs <> [] /\ pb_eq a (adv_sum gs)
  | None => gs = []
  end.
Proof.
  intros gs H. unfold advertised. rewrite (contribs_complete gs H).
  destruct gs as [|g gs]; [reflexivity|].
  cbn [map]. split; [congruence|].
  change (grp g :: map grp gs) with (map grp (g :: gs)).
  unfold pb_eq, adv_sum. cbn [il el eu iu]. rewrite !map_map. repeat split; reflexivity.
Qed.

(* ------------------------------------------------------------------ manager on the same groups *)
Lemma enforced_il : forall gs, il (enforced (map pair_of gs)) = il (adv_sum gs).
Proof. intros. unfold enforced, adv_sum. cbn [il]. now rewrite map_map. Qed.
Lemma enforced_iu : forall gs, iu (enforced (map pair_of gs)) = iu (adv_sum gs).
Proof. intros. unfold enforced, adv_sum. cbn [iu]. now rewrite map_map. Qed.

Lemma enforced_eu_le : forall gs, eu (enforced (map pair_of gs)) <= eu (adv_sum gs).
Proof.
  intros. unfold enforced, adv_sum. cbn [eu].
  rewrite qsum_flat_map, !map_map.
  apply (pmax_qsum (fun g => eu (fst (pair_of g))) (fun g => qsum (map eu (snd (pair_of g)))) gs).
Qed.
Lemma enforced_el_ge : forall gs, el (adv_sum gs) <= el (enforced (map pair_of gs)).
Proof.
  intros. unfold enforced, adv_sum. cbn [el].
  rewrite qsum_flat_map, !map_map.
  apply (pmin_qsum (fun g => el (fst (pair_of g))) (fun g => qsum (map el (snd (pair_of g)))) gs).
Qed.

Section Accept.
  Variable gs : list cgroup.
  Variable a : pb.
  Hypothesis Hwf : Forall wf_group gs.
  Hypothesis Hadv : advertised (map wrap gs) = Some a.
  Let enf := enforced (map pair_of gs).

  Lemma adv_is_sum : pb_eq a (adv_sum gs).
  Proof. pose proof (advertised_complete gs Hwf) as L. rewrite Hadv in L. apply L. Qed.

  Lemma incl_equal : il a == il enf /\ iu a == iu enf.
  Proof.
    destruct adv_is_sum as (A & _ & _ & D). unfold enf. now rewrite enforced_il, enforced_iu.
  Qed.

  Lemma excl_dominates : el a <= el enf /\ eu enf <= eu a.
  Proof.
    destruct adv_is_sum as (_ & B & C & _). pose proof (enforced_eu_le gs). pose proof (enforced_el_ge gs).
    unfold enf. split; lra.
  Qed.

  Lemma accept : forall p adjust,
    il a <= p <= iu a -> (p <= el a \/ eu a <= p) -> check_request adjust enf p = true.
  Proof.
    intros p adjust [Hl Hu] Hex.
    destruct incl_equal as [I1 I2]. destruct excl_dominates as [E1 E2].
    unfold check_request. destruct (is_close_to_zero p); [reflexivity|].
    destruct adjust.
    - apply negb_true_iff. apply andb_false_iff.
      destruct (Qltb (el enf) p) eqn:A; [right|now left]. qb A.
      apply Qltb_false. destruct Hex; lra.
    - apply orb_true_iff. destruct Hex as [Hex|Hex]; [left|right]; apply andb_true_iff; split; apply Qle_bool_iff; lra.
  Qed.

  (* the same through SystemBounds.__contains__ (which also excludes the edge of the zone) *)
  Lemma accept_contains : forall p adjust, adv_contains (Some a) p = true -> check_request adjust enf p = true.
  Proof.
    intros p adjust H. unfold adv_contains, sys_contains, bounds_contains in H.
    destruct (Qle_bool (il a) p && Qle_bool p (iu a))%bool eqn:A; cbn [negb] in H; [|discriminate].
    apply andb_true_iff in A. destruct A as [A1 A2]. qb A1. qb A2.
    apply negb_true_iff, andb_false_iff in H.
    apply accept; [lra|].
    destruct H as [H|H]; qb H; [left|right]; lra.
  Qed.
End Accept.

(* the manager's entry point: never OutOfBounds, for either flag and any remainder *)
Lemma accept_entry : forall gs a, Forall wf_group gs -> advertised (map wrap gs) = Some a ->
  forall p adjust rem, il a <= p <= iu a -> (p <= el a \/ eu a <= p) ->
  get_distribution_kind adjust (enforced (map pair_of gs)) p rem = DDistributed rem.
Proof.
  intros gs a W A p adjust rem R X. unfold get_distribution_kind.
  now rewrite (accept gs a W A p adjust R X).
Qed.

(* ------------------------------------------------------------------ minimum powers *)
Lemma neg_pmin : forall x y, - pmin x y == pmax (- x) (- y).
Proof.
  intros. unfold pmin, pmax.
  destruct (Qltb y x) eqn:A, (Qltb (- x) (- y)) eqn:B; qb A; qb B; lra.
Qed.

Lemma qsum_neg : forall {A} (f : A -> Q) (l : list A), qsum (map (fun i => - f i) l) == - qsum (map f l).
Proof.
  induction l as [|x l IH]; cbn [map].
  - reflexivity.
  - rewrite !qsum_cons, IH. lra.
Qed.

Lemma min_power_up_le : forall g, wf_group g -> wf_inverters g -> min_power_up (pair_of g) <= eu (grp g).
Proof.
  intros [bs is] [_ Hi] W. unfold min_power_up, pair_of, grp. cbn [fst snd eu] in *.
  apply pmax_mono; [lra|].
  apply lmin_le_qsum.
  - destruct is; [congruence|discriminate].
  - intros x Hx. apply in_map_iff in Hx. destruct Hx as (i & <- & Hin). apply (W i Hin).
Qed.

Lemma min_power_down_le : forall g, wf_group g -> wf_inverters g -> min_power_down (pair_of g) <= - el (grp g).
Proof.
  intros [bs is] [_ Hi] W. unfold min_power_down, pair_of, grp. cbn [fst snd el] in *.
  rewrite neg_pmin. apply pmax_mono; [lra|].
  rewrite <- qsum_neg.
  apply lmin_le_qsum.
  - destruct is; [congruence|discriminate].
  - intros x Hx. apply in_map_iff in Hx. destruct Hx as (i & <- & Hin). destruct (W i Hin). lra.
Qed.

Lemma grp_eu_nonneg : forall g, wf_inverters g -> 0 <= eu (grp g).
Proof.
  intros g W. unfold grp. cbn [eu].
  assert (0 <= qsum (map eu (snd g))).
  { apply qsum_nonneg. intros x Hx. apply in_map_iff in Hx. destruct Hx as (i & <- & Hin). apply (W i Hin). }
  pose proof (pmax_r (eu (agg_bat (fst g))) (qsum (map eu (snd g)))). lra.
Qed.
Lemma grp_el_nonpos : forall g, wf_inverters g -> el (grp g) <= 0.
Proof.
  intros g W. unfold grp. cbn [el].
  assert (0 <= qsum (map (fun i => - el i) (snd g))).
  { apply qsum_nonneg. intros x Hx. apply in_map_iff in Hx. destruct Hx as (i & <- & Hin). destruct (W i Hin). lra. }
  rewrite qsum_neg in H.
  pose proof (pmin_r (el (agg_bat (fst g))) (qsum (map el (snd g)))). lra.
Qed.

Lemma qsum_map_nonneg : forall {A} (f : A -> Q) l, (forall x, In x l -> 0 <= f x) -> 0 <= qsum (map f l).
Proof.
  intros. apply qsum_nonneg. intros y Hy. apply in_map_iff in Hy. destruct Hy as (x & <- & Hx). auto.
Qed.

Lemma min_powers : forall gs a p,
  Forall wf_group gs -> Forall wf_inverters gs -> advertised (map wrap gs) = Some a ->
  il a <= p <= iu a -> (p <= el a \/ eu a <= p) ->
  (0 < p -> qsum (map min_power_up (map pair_of gs)) <= p) /\
  (p < 0 -> qsum (map min_power_down (map pair_of gs)) <= - p).
Proof.
  intros gs a p Hwf Hinv Hadv Hin Hex.
  destruct (adv_is_sum gs a Hwf Hadv) as (_ & B & C & _).
  unfold adv_sum in B, C. cbn [el eu] in B, C.
  rewrite Forall_forall in Hwf, Hinv.
  assert (Eu : 0 <= eu a).
  { rewrite C. apply qsum_map_nonneg. intros g Hg. apply grp_eu_nonneg. auto. }
  assert (El : el a <= 0).
  { assert (0 <= qsum (map (fun g => - el (grp g)) gs)).
    { apply qsum_map_nonneg. intros g Hg. pose proof (grp_el_nonpos g (Hinv g Hg)). lra. }
    rewrite qsum_neg in H. lra. }
  rewrite !map_map. split; intro Hp.
  - assert (qsum (map (fun g => min_power_up (pair_of g)) gs) <= qsum (map (fun g => eu (grp g)) gs)).
    { apply qsum_le. intros g Hg. apply min_power_up_le; auto. }
    destruct Hex; lra.
  - assert (qsum (map (fun g => min_power_down (pair_of g)) gs) <= qsum (map (fun g => - el (grp g)) gs)).
    { apply qsum_le. intros g Hg. apply min_power_down_le; auto. }
    rewrite qsum_neg in H. destruct Hex; lra.
Qed.

(* the aggregation of batteries behind one inverter set, as documented *)
Lemma agg_bat_incl : forall bs, il (agg_bat bs) = qsum (map il bs) /\ iu (agg_bat bs) = qsum (map iu bs).
Proof. intros. split; reflexivity. Qed.
