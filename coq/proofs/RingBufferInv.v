(* C09, stage 1b: specification of _update_gaps, the refinement invariant between the concrete
   ring buffer and the abstract sliding map, and its preservation by update() for every history. *)
From Coq Require Import Lia ZifyBool.
From Verif Require Import model.RingBuffer model.RingBufferSpec proofs.RingBufferGaps.

(* gap list of a buffer whose newest slot is n: sorted, disjoint, non-adjacent, non-empty ranges
   inside the window [n-c+1, n+1) -- or, at capacity 1 only, the single empty range the far-jump
   branch of _update_gaps leaves behind until the next update (Gap(oldest, newest), oldest = newest) *)
Definition gaps_ok (c n : Z) (gs : list gap) : Prop :=
  gaps_wf (n - c + 1) (n + 1) gs \/ (c = 1 /\ gs = [(n, n)]).

Lemma not_missing_disj : forall l k x, is_missing l k = false -> In x l -> snd x <= k \/ k + 1 <= fst x.
Proof.
  intros l k x Hm Hin. destruct (Z_le_gt_dec (snd x) k); [lia|]. destruct (Z_le_gt_dec (k + 1) (fst x)); [lia|].
  assert (is_missing l k = true) by (apply is_missing_In; exists x; split; [exact Hin|lia]). congruence.
Qed.

Lemma missing_nonempty : forall (l : list gap) k, is_missing l k = true -> (0 <? Z.of_nat (length l)) = true.
Proof. destruct l; cbn; intros; [discriminate|lia]. Qed.

Lemma ins_first : forall L g, (forall x, In x L -> fst g <= fst x) -> ins_gap g L = g :: L.
Proof.
  destruct L as [|h t]; intros g H; cbn [ins_gap]; [reflexivity|].
  assert (fst g <= fst h) by (apply H; left; reflexivity).
  destruct (fst g <=? fst h) eqn:E; [reflexivity|lia].
Qed.

(* an out-of-date gap that sorts first is dropped by the loop without any other effect *)
Lemma cleanup_drop_first : forall old g0 gs,
  snd g0 <= old -> (forall x, In x gs -> fst g0 <= fst x) ->
  cleanup_gaps old (g0 :: gs) = cleanup_gaps old gs.
Proof.
  intros old g0 gs Hs Hle. unfold cleanup_gaps. cbn [sort_gaps].
  rewrite ins_first by (intros x Hx; apply Hle; apply In_sort; exact Hx).
  cbn [cl]. unfold trim. destruct (snd g0 <=? old) eqn:E; [reflexivity|lia].
Qed.

Section UpdateGaps.
  Variable c : Z.
  Hypothesis Hc : 0 < c.

  (* core: the general (well-formed) case *)
  Lemma update_gaps_wf : forall gs k n missing,
    gaps_wf (n - c + 1) (n + 1) gs -> n - c + 1 <= k ->
    gaps_ok c (Z.max n k) (update_gaps c gs k (Some n) (Z.max n k) missing) /\
    forall j, Z.max n k - c + 1 <= j <= Z.max n k ->
      is_missing (update_gaps c gs k (Some n) (Z.max n k) missing) j
      = if j =? k then missing else (n <? j) || is_missing gs j.
  Proof.
    intros gs k n missing Hwf Hk.
    pose proof (wf_chain _ _ _ Hwf) as Hch.
    pose proof (chain_pdisj _ _ Hch) as Hpd.
    assert (Hb : forall x, In x gs -> n - c + 1 <= fst x /\ snd x <= n + 1).
    { intros x Hx. pose proof (chain_starts _ _ _ Hch Hx). pose proof (wf_ends _ _ _ _ Hwf Hx). lia. }
    assert (Hrng : forall j, is_missing gs j = true -> n - c + 1 <= j < n + 1) by (intros j; apply wf_range; exact Hwf).
    unfold update_gaps, oldest_bound. set (nw := Z.max n k). set (old := nw - c + 1).
    destruct missing; cbn [negb andb].
    - (* the sample is missing *)
      destruct (is_missing gs k) eqn:Ef; cbn [negb].
      + destruct (cleanup_spec old (nw + 1) (n - c + 1) gs Hpd) as [W M].
        { intros x Hx. destruct (Hb x Hx). lia. }
        split; [left; exact W|]. intros j Hj. rewrite M. specialize (Hrng k Ef).
        destruct (j =? k) eqn:Ej.
        * assert (j = k) by lia. subst j. rewrite Ef. lia.
        * destruct (is_missing gs j) eqn:Emj; lia.
      + destruct (cleanup_spec old (nw + 1) (n - c + 1) (gs ++ [(Z.min (n + 1) k, k + 1)])) as [W M].
        { apply pdisj_snoc; [exact Hpd|cbn; lia|].
          intros x Hx. unfold disj. cbn [fst snd]. destruct (Hb x Hx).
          pose proof (not_missing_disj _ _ _ Ef Hx). lia. }
        { intros x Hx. apply in_app_or in Hx. destruct Hx as [Hx|[<-|[]]]; cbn [fst snd]; [|lia].
          destruct (Hb x Hx). lia. }
        split; [left; exact W|]. intros j Hj. rewrite M, is_missing_app, is_missing_cons.
        cbn [is_missing existsb]. rewrite ?contains_unfold. cbn [fst snd].
        destruct (j =? k) eqn:Ej.
        * assert (j = k) by lia. subst j. rewrite Ef. lia.
        * destruct (is_missing gs j) eqn:Emj; [specialize (Hrng j Emj)|]; lia.
    - (* the sample has a value *)
      destruct (nw - n >=? c) eqn:Efar.
      + (* far jump: one gap covering everything before the new sample *)
        split.
        * destruct (Z.eq_dec c 1) as [->|Hc1].
          -- right. split; [reflexivity|]. f_equal. f_equal. lia.
          -- left. cbn [gaps_wf fst snd]. repeat split; lia.
        * intros j Hj. cbn [is_missing existsb]. rewrite ?contains_unfold. cbn [fst snd].
          destruct (j =? k) eqn:Ej; [lia|].
          destruct (is_missing gs j) eqn:Emj; lia.
      + destruct (is_missing gs k) eqn:Ef; cbn [negb andb].
        * (* the slot was missing: take it out of its gap *)
          rewrite (missing_nonempty _ _ Ef). cbn [andb].
          destruct (remove_gap_spec k gs (n - c + 1) (n + 1) Hch) as (R1 & R2 & R3).
          { intros x Hx. destruct (Hb x Hx). lia. }
          destruct (cleanup_spec old (nw + 1) (n - c + 1) (remove_gap k gs) R1) as [W M].
          { intros x Hx. destruct (R2 x Hx). lia. }
          split; [left; exact W|]. intros j Hj. rewrite M, R3. specialize (Hrng k Ef).
          destruct (j =? k) eqn:Ej; [lia|].
          destruct (is_missing gs j) eqn:Emj; lia.
        * rewrite andb_false_r.
          destruct (k >? n + 1) eqn:Egap.
          -- (* a gap opens between the previous newest and the sample *)
             destruct (cleanup_spec old (nw + 1) (n - c + 1) (gs ++ [(n + 1, k)])) as [W M].
             { apply pdisj_snoc; [exact Hpd|cbn; lia|].
               intros x Hx. unfold disj. cbn [fst snd]. destruct (Hb x Hx). lia. }
             { intros x Hx. apply in_app_or in Hx. destruct Hx as [Hx|[<-|[]]]; cbn [fst snd]; [|lia].
               destruct (Hb x Hx). lia. }
             split; [left; exact W|]. intros j Hj. rewrite M, is_missing_app, is_missing_cons.
             cbn [is_missing existsb]. rewrite ?contains_unfold. cbn [fst snd].
             destruct (j =? k) eqn:Ej.
             ++ assert (j = k) by lia. subst j. rewrite Ef. lia.
             ++ destruct (is_missing gs j) eqn:Emj; [specialize (Hrng j Emj)|]; lia.
          -- destruct (cleanup_spec old (nw + 1) (n - c + 1) gs Hpd) as [W M].
             { intros x Hx. destruct (Hb x Hx). lia. }
             split; [left; exact W|]. intros j Hj. rewrite M.
             destruct (j =? k) eqn:Ej.
             ++ assert (j = k) by lia. subst j. rewrite Ef. lia.
             ++ destruct (is_missing gs j) eqn:Emj; [specialize (Hrng j Emj)|]; lia.
  Qed.

  (* the capacity-1 state with the empty range behaves like the state with no gap at all *)
  Lemma update_gaps_empty_range : forall k n missing,
    c = 1 -> n <= k ->
    update_gaps c [(n, n)] k (Some n) (Z.max n k) missing = update_gaps c [] k (Some n) (Z.max n k) missing.
  Proof.
    intros k n missing Hc1 Hk. unfold update_gaps, oldest_bound.
    assert (Hf : is_missing [(n, n)] k = false) by (cbn; rewrite ?contains_unfold; cbn; lia).
    rewrite Hf. cbn [is_missing existsb negb andb].
    destruct (negb missing && (Z.max n k - n >=? c)) eqn:E1; [reflexivity|].
    destruct missing; cbn [negb andb app length].
    - apply cleanup_drop_first; cbn [fst snd]; [lia|]. intros x [<-|[]]. cbn. lia.
    - rewrite !andb_false_r.
      destruct (k >? n + 1) eqn:E2; cbn [app].
      + apply cleanup_drop_first; cbn [fst snd]; [lia|]. intros x [<-|[]]. cbn. lia.
      + apply cleanup_drop_first; cbn [fst snd]; [lia|]. intros x [].
  Qed.

  Lemma update_gaps_some : forall gs k n missing,
    gaps_ok c n gs -> n - c + 1 <= k ->
    gaps_ok c (Z.max n k) (update_gaps c gs k (Some n) (Z.max n k) missing) /\
    forall j, Z.max n k - c + 1 <= j <= Z.max n k ->
      is_missing (update_gaps c gs k (Some n) (Z.max n k) missing) j
      = if j =? k then missing else (n <? j) || is_missing gs j.
  Proof.
    intros gs k n missing [Hwf|[Hc1 ->]] Hk.
    - apply update_gaps_wf; assumption.
    - rewrite update_gaps_empty_range by lia.
      destruct (update_gaps_wf [] k n missing I Hk) as [G M].
      split; [exact G|]. intros j Hj. rewrite (M j Hj). cbn. rewrite ?contains_unfold. cbn.
      destruct (j =? k); [reflexivity|]. lia.
  Qed.

  (* first update ever (newest = datetime.min) *)
  Lemma update_gaps_none : forall k missing,
    gaps_ok c k (update_gaps c [] k None k missing) /\
    forall j, k - c + 1 <= j <= k ->
      is_missing (update_gaps c [] k None k missing) j = if j =? k then missing else true.
  Proof.
    intros k missing. unfold update_gaps, oldest_bound. cbn [is_missing existsb negb andb].
    destruct missing; cbn [negb andb app].
    - destruct (cleanup_spec (k - c + 1) (k + 1) (k - c) [(Z.min (k - c + 1 - 1) k, k + 1)]) as [W M].
      { cbn. split; [lia|]. split; [intros x []|exact I]. }
      { intros x [<-|[]]. cbn. lia. }
      split; [left; exact W|]. intros j Hj. rewrite M. cbn. rewrite ?contains_unfold. cbn [fst snd].
      destruct (j =? k) eqn:Ej; lia.
    - try rewrite andb_true_r. cbv iota. split.
      + destruct (Z.eq_dec c 1) as [->|Hc1].
        * right. split; [reflexivity|]. f_equal. f_equal. lia.
        * left. cbn [gaps_wf fst snd]. repeat split; lia.
      + intros j Hj. cbn. rewrite ?contains_unfold. cbn [fst snd]. destruct (j =? k) eqn:Ej; lia.
  Qed.
End UpdateGaps.

(* ------------------------------------------------------------------ cells *)
Lemma length_set_nth : forall {A} (l : list A) n x, length (set_nth n x l) = length l.
Proof. induction l as [|h t IH]; intros [|n] x; cbn; auto. Qed.

Lemma nth_set_nth : forall {A} (l : list A) n m x d,
  (n < length l)%nat -> nth m (set_nth n x l) d = if Nat.eqb m n then x else nth m l d.
Proof.
  induction l as [|h t IH]; intros n m x d Hn; cbn in Hn; [lia|].
  destruct n as [|n]; destruct m as [|m]; cbn; auto.
  apply IH. lia.
Qed.

Lemma get_set_nth : forall cs i j v,
  0 <= i < Z.of_nat (length cs) -> 0 <= j ->
  get_cell (set_nth (Z.to_nat i) v cs) j = if j =? i then v else get_cell cs j.
Proof.
  intros cs i j v Hi Hj. unfold get_cell. rewrite nth_set_nth by lia.
  destruct (Nat.eqb (Z.to_nat j) (Z.to_nat i)) eqn:E1; destruct (j =? i) eqn:E2; try reflexivity.
  - apply Nat.eqb_eq in E1. lia.
  - apply Nat.eqb_neq in E1. assert (j = i) by lia. subst. congruence.
Qed.

Lemma mod_window_inj : forall c lo j k,
  0 < c -> lo <= j < lo + c -> lo <= k < lo + c -> j mod c = k mod c -> j = k.
Proof.
  intros c lo j k Hc Hj Hk Hm.
  pose proof (Z.div_mod j c ltac:(lia)) as Dj. pose proof (Z.div_mod k c ltac:(lia)) as Dk.
  assert (Hd : j - k = c * (j / c - k / c)) by lia.
  set (d := j / c - k / c) in *.
  assert (d = 0).
  { destruct (Z_lt_le_dec 0 d) as [H1|H1]; [assert (c * 1 <= c * d) by (apply Z.mul_le_mono_nonneg_l; lia); lia|].
    destruct (Z_lt_le_dec d 0) as [H2|H2]; [assert (c * d <= c * (-1)) by (apply Z.mul_le_mono_nonneg_l; lia); lia|]. lia. }
  subst d. lia.
Qed.

(* ------------------------------------------------------------------ the invariant *)
Definition window_ok (c : Z) (b : rb) (a : spec) : Prop :=
  match newest b with
  | None => gaps b = [] /\ forall j, s_map a j = None
  | Some n =>
      gaps_ok c n (gaps b) /\
      (forall j, n - c + 1 <= j <= n ->
         s_map a j = if is_missing (gaps b) j then None else get_cell (cells b) (j mod c)) /\
      (forall j, n - c + 1 <= j <= n -> is_missing (gaps b) j = false ->
         get_cell (cells b) (j mod c) <> None) /\
      (forall j, j < n - c + 1 \/ n < j -> s_map a j = None)
  end.

Definition Inv (b : rb) (a : spec) : Prop :=
  0 < cap b /\ newest b = s_new a /\ window_ok (cap b) b a.

Lemma Inv_init : forall cs, cs <> [] -> Inv (init_rb cs) spec_init.
Proof.
  intros cs Hne. unfold Inv, init_rb, cap, window_ok. cbn.
  split; [destruct cs; [congruence|cbn; lia]|]. auto.
Qed.

Lemma cap_update : forall b k v b', update b k v = Some b' -> cap b' = cap b.
Proof.
  intros b k v b' H. unfold update in H.
  destruct (match newest b with Some n => k <? oldest_bound (cap b) n | None => false end); [discriminate|].
  injection H as <-. unfold cap. cbn [cells]. rewrite length_set_nth. reflexivity.
Qed.

(* both sides reject exactly the same updates *)
Lemma update_rejects : forall b a k v, Inv b a ->
  (update b k v = None <-> spec_update (cap b) a k v = None).
Proof.
  intros b a k v (Hc & Hn & _). unfold update, spec_update, oldest_bound. rewrite <- Hn.
  destruct (newest b) as [n|]; [|split; discriminate].
  destruct (k <? n - cap b + 1); split; intros; try reflexivity; discriminate.
Qed.

Lemma update_preserves : forall b a k v b', Inv b a -> update b k v = Some b' ->
  exists a', spec_update (cap b) a k v = Some a' /\ Inv b' a'.
Proof.
  intros b a k v b' HI Hu. pose proof (cap_update _ _ _ _ Hu) as Hcap.
  destruct HI as (Hc & Hn & Hw). unfold update in Hu. unfold spec_update. rewrite <- Hn.
  set (c := cap b) in *. unfold oldest_bound in Hu.
  assert (Hmod : 0 <= k mod c < c) by (apply Z.mod_pos_bound; lia).
  destruct (newest b) as [n|] eqn:En.
  - (* a window exists *)
    destruct (k <? n - c + 1) eqn:Eold; [discriminate|].
    injection Hu as <-. eexists. split; [reflexivity|].
    unfold Inv. rewrite Hcap. fold c. cbn [newest s_new]. split; [exact Hc|]. split; [reflexivity|].
    unfold window_ok in *. rewrite En in Hw. cbn [newest gaps cells s_map].
    destruct Hw as (G & M & V & O).
    destruct (update_gaps_some c Hc (gaps b) k n (match v with None => true | Some _ => false end) G ltac:(lia)) as [G' M'].
    set (gs' := update_gaps c (gaps b) k (Some n) (Z.max n k) _) in *.
    assert (Hcell : forall j, Z.max n k - c + 1 <= j <= Z.max n k ->
              get_cell (set_nth (Z.to_nat (wrap c k)) v (cells b)) (j mod c)
              = if j =? k then v else get_cell (cells b) (j mod c)).
    { intros j Hj. rewrite wrap_mod. rewrite get_set_nth; [| unfold c, cap in *; lia | apply Z.mod_pos_bound; lia].
      destruct (j =? k) eqn:Ej.
      - assert (j = k) by lia. subst j. rewrite Z.eqb_refl. reflexivity.
      - destruct (j mod c =? k mod c) eqn:Em; [|reflexivity].
        exfalso. assert (j = k); [|lia].
        apply (mod_window_inj c (Z.max n k - c + 1)); lia. }
    split; [exact G'|]. split; [|split].
    + intros j Hj. rewrite (M' j Hj), (Hcell j Hj).
      destruct (j =? k) eqn:Ej; [destruct v; reflexivity|].
      destruct (j <? Z.max n k - c + 1) eqn:Elow; [lia|].
      destruct (n <? j) eqn:Enj; cbn [orb].
      * apply O. lia.
      * apply M. lia.
    + intros j Hj Hmiss. rewrite (M' j Hj) in Hmiss. rewrite (Hcell j Hj).
      destruct (j =? k) eqn:Ej; [destruct v; [discriminate|discriminate]|].
      destruct (n <? j) eqn:Enj; cbn [orb] in Hmiss; [discriminate|].
      apply V; [lia|exact Hmiss].
    + intros j Hj. destruct (j =? k) eqn:Ej; [lia|].
      destruct (j <? Z.max n k - c + 1) eqn:Elow; [reflexivity|]. apply O. lia.
  - (* first update *)
    injection Hu as <-. eexists. split; [reflexivity|].
    unfold Inv. rewrite Hcap. fold c. cbn [newest s_new]. split; [exact Hc|]. split; [reflexivity|].
    unfold window_ok in *. rewrite En in Hw. cbn [newest gaps cells s_map].
    destruct Hw as (G & M). rewrite G.
    destruct (update_gaps_none c Hc k (match v with None => true | Some _ => false end)) as [G' M'].
    set (gs' := update_gaps c [] k None k _) in *.
    split; [exact G'|]. split; [|split].
    + intros j Hj. rewrite (M' j Hj).
      destruct (j =? k) eqn:Ej.
      * assert (j = k) by lia. subst j. rewrite wrap_mod.
        rewrite get_set_nth; [|unfold c, cap in *; lia|lia]. rewrite Z.eqb_refl. destruct v; reflexivity.
      * destruct (j <? k - c + 1); [reflexivity|apply M].
    + intros j Hj Hmiss. rewrite (M' j Hj) in Hmiss.
      destruct (j =? k) eqn:Ej; [|discriminate].
      assert (j = k) by lia. subst j. rewrite wrap_mod.
      rewrite get_set_nth; [|unfold c, cap in *; lia|lia]. rewrite Z.eqb_refl. destruct v; discriminate.
    + intros j Hj. destruct (j =? k) eqn:Ej; [lia|].
      destruct (j <? k - c + 1); [reflexivity|apply M].
Qed.

(* every history: the concrete buffer and the abstract map move in lock step *)
Lemma step_preserves : forall b a x, Inv b a -> Inv (rb_step b x) (spec_step (cap b) a x) /\ cap (rb_step b x) = cap b.
Proof.
  intros b a [k v] HI. unfold rb_step, spec_step. cbn [fst snd].
  destruct (update b k v) as [b'|] eqn:Eu.
  - destruct (update_preserves _ _ _ _ _ HI Eu) as [a' [Ha HI']]. rewrite Ha.
    split; [exact HI'|]. eapply cap_update; eauto.
  - apply (update_rejects b a k v HI) in Eu. rewrite Eu. split; [exact HI|reflexivity].
Qed.

Lemma run_preserves : forall h b a, Inv b a -> Inv (rb_run b h) (spec_run (cap b) a h) /\ cap (rb_run b h) = cap b.
Proof.
  induction h as [|x h IH]; intros b a HI; cbn [rb_run spec_run fold_left]; [split; [exact HI|reflexivity]|].
  destruct (step_preserves b a x HI) as [HI' Hcap].
  destruct (IH _ _ HI') as [HI'' Hcap'']. unfold rb_run, spec_run in *. rewrite Hcap in HI''.
  split; [exact HI''|]. congruence.
Qed.
