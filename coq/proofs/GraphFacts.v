(* C12 — facts about the component-tree model: every generated formula evaluates to the true
   total of its device type on every tree that satisfies the premise [wf]. *)
From Coq Require Import Lia ZifyBool.
From Verif Require Import model.Common model.Graph.

(* ------------------------------------------------------------------ nested induction principle *)
Section NodeInd.
  Variable P : node -> Prop.
  Hypothesis HM : forall i kids load, Forall P kids -> P (Meter i kids load).
  Hypothesis HB : forall i b p, P (BatInv i b p).
  Hypothesis HP : forall i p, P (PvInv i p).
  Hypothesis HE : forall i p, P (Ev i p).
  Hypothesis HC : forall i p, P (Chp i p).
  Fixpoint node_ind' (n : node) : P n :=
    match n with
    | Meter i kids load =>
        HM i kids load ((fix go (l : list node) : Forall P l :=
                           match l with
                           | [] => Forall_nil P
                           | k :: r => Forall_cons k (node_ind' k) (go r)
                           end) kids)
    | BatInv i b p => HB i b p
    | PvInv i p => HP i p
    | Ev i p => HE i p
    | Chp i p => HC i p
    end.
End NodeInd.

(* ------------------------------------------------------------------ sums *)
Lemma zsum_app : forall a b, zsum (a ++ b) = zsum a + zsum b.
Proof.
  induction a as [|x a IH]; intros b; [reflexivity|].
  change (zsum ((x :: a) ++ b)) with (x + zsum (a ++ b)). change (zsum (x :: a)) with (x + zsum a).
  rewrite IH. lia.
Qed.

Lemma zsum_cons : forall x l, zsum (x :: l) = x + zsum l.
Proof. reflexivity. Qed.

Lemma zsum_map_ext : forall (f g : node -> Z) l,
  Forall (fun k => f k = g k) l -> zsum (map f l) = zsum (map g l).
Proof.
  intros f g l H. induction H as [|k l Hk _ IH]; [reflexivity|].
  cbn [map]. rewrite !zsum_cons, Hk, IH. reflexivity.
Qed.

Lemma zsum_map_zero : forall (f : node -> Z) l, Forall (fun k => f k = 0) l -> zsum (map f l) = 0.
Proof.
  intros f l H. induction H as [|k l Hk _ IH]; [reflexivity|].
  cbn [map]. rewrite zsum_cons, Hk, IH. reflexivity.
Qed.

Lemma zsum_map_plus : forall (f g : node -> Z) l,
  zsum (map (fun k => f k + g k) l) = zsum (map f l) + zsum (map g l).
Proof. induction l as [|k l IH]; [reflexivity|]. cbn [map]. rewrite !zsum_cons, IH. lia. Qed.

Lemma zsum_map_minus : forall (f g : node -> Z) l,
  zsum (map (fun k => f k - g k) l) = zsum (map f l) - zsum (map g l).
Proof. induction l as [|k l IH]; [reflexivity|]. cbn [map]. rewrite !zsum_cons, IH. lia. Qed.

Definition sumr (l : list node) : Z := zsum (map reading l).

Lemma sumr_app : forall a b, sumr (a ++ b) = sumr a + sumr b.
Proof. intros. unfold sumr. rewrite map_app. apply zsum_app. Qed.

Lemma sumr_flat_map : forall (f : node -> list node) l,
  sumr (flat_map f l) = zsum (map (fun k => sumr (f k)) l).
Proof.
  induction l as [|k l IH]; [reflexivity|].
  cbn [flat_map map]. rewrite sumr_app, zsum_cons, IH. reflexivity.
Qed.

Lemma eval_app : forall a b, eval (a ++ b) = eval a + eval b.
Proof. intros. unfold eval. rewrite map_app. apply zsum_app. Qed.

Lemma eval_flat_map : forall (f : node -> list term) l,
  eval (flat_map f l) = zsum (map (fun k => eval (f k)) l).
Proof.
  induction l as [|k l IH]; [reflexivity|].
  cbn [flat_map map]. rewrite eval_app, zsum_cons, IH. reflexivity.
Qed.

Lemma eval_with_fallback : forall fb s l, eval (map (with_fallback fb s) l) = s * sumr l.
Proof.
  induction l as [|k l IH]; [cbn; lia|].
  unfold eval, sumr in *. cbn [map]. rewrite !zsum_cons, IH.
  unfold with_fallback, t_sign, t_node. cbn [fst snd]. lia.
Qed.

Lemma eval_plain : forall l, eval (map (fun m : node => (1, m, @nil node)) l) = sumr l.
Proof.
  induction l as [|k l IH]; [reflexivity|].
  unfold eval, sumr in *. cbn [map]. rewrite !zsum_cons, IH.
  unfold t_sign, t_node. cbn [fst snd]. lia.
Qed.

(* ------------------------------------------------------------------ readings and totals *)
Lemma reading_split : forall n,
  reading n = tot_load n + tot_pv n + tot_bat n + tot_ev n + tot_chp n.
Proof.
  induction n as [i kids load IH| | | |] using node_ind';
    cbn [reading tot_load tot_pv tot_bat tot_ev tot_chp]; try lia.
  rewrite (zsum_map_ext _ _ _ IH).
  rewrite !zsum_map_plus. lia.
Qed.

Lemma forallb_Forall : forall (f : node -> bool) l, forallb f l = true -> Forall (fun k => f k = true) l.
Proof. intros f l H. apply Forall_forall. intros x Hx. rewrite forallb_forall in H. auto. Qed.

Lemma Forall_impl2 : forall (P Q R : node -> Prop) l,
  (forall k, P k -> Q k -> R k) -> Forall P l -> Forall Q l -> Forall R l.
Proof.
  intros P Q R l H HP. induction HP as [|k l Hk _ IH]; intros HQ; [constructor|].
  inversion HQ; subst. constructor; auto.
Qed.

(* a list of devices of one kind: readings are that kind's totals, everything else is 0 *)
Lemma kind_sum : forall (isx : node -> bool) (f g : node -> Z) kids,
  (forall k, isx k = true -> f k = g k) -> forallb isx kids = true ->
  zsum (map f kids) = zsum (map g kids).
Proof.
  intros isx f g kids H Hall. apply zsum_map_ext.
  eapply Forall_impl; [|apply forallb_Forall; exact Hall]. cbn. auto.
Qed.

Lemma kind_zero : forall (isx : node -> bool) (f : node -> Z) kids,
  (forall k, isx k = true -> f k = 0) -> forallb isx kids = true -> zsum (map f kids) = 0.
Proof.
  intros isx f kids H Hall. apply zsum_map_zero.
  eapply Forall_impl; [|apply forallb_Forall; exact Hall]. cbn. auto.
Qed.

Ltac dev k := destruct k; cbn in *; try discriminate; try reflexivity; try lia.

Lemma pv_reading : forall k, is_pv_inv k = true -> reading k = tot_pv k. Proof. intros k H; dev k. Qed.
Lemma bat_reading : forall k, is_bat_inv k = true -> reading k = tot_bat k. Proof. intros k H; dev k. Qed.
Lemma ev_reading : forall k, is_ev k = true -> reading k = tot_ev k. Proof. intros k H; dev k. Qed.
Lemma chp_reading : forall k, is_chp k = true -> reading k = tot_chp k. Proof. intros k H; dev k. Qed.

Lemma pv_others : forall k, is_pv_inv k = true -> tot_load k = 0 /\ tot_bat k = 0 /\ tot_ev k = 0 /\ tot_chp k = 0.
Proof. intros k H; dev k; auto. Qed.
Lemma bat_others : forall k, is_bat_inv k = true -> tot_load k = 0 /\ tot_pv k = 0 /\ tot_ev k = 0 /\ tot_chp k = 0.
Proof. intros k H; dev k; auto. Qed.
Lemma ev_others : forall k, is_ev k = true -> tot_load k = 0 /\ tot_pv k = 0 /\ tot_bat k = 0 /\ tot_chp k = 0.
Proof. intros k H; dev k; auto. Qed.
Lemma chp_others : forall k, is_chp k = true -> tot_load k = 0 /\ tot_pv k = 0 /\ tot_bat k = 0 /\ tot_ev k = 0.
Proof. intros k H; dev k; auto. Qed.

(* unfolding helpers for the classification of a meter *)
Lemma dedicated_to_meter : forall isx gm i kids load,
  dedicated_to isx gm (Meter i kids load) = true ->
  gm = false /\ kids <> [] /\ forallb isx kids = true.
Proof.
  intros isx gm i kids load H. unfold dedicated_to in H. cbn [is_meter succs] in H.
  destruct gm; cbn in H; [discriminate|]. destruct kids; cbn in H; [discriminate|].
  repeat split; [discriminate|exact H].
Qed.

Lemma wf_meter : forall gm i kids load,
  wf_node gm (Meter i kids load) = true ->
  (dedicated gm (Meter i kids load) = true -> load = 0) /\
  (existsb is_chp kids = true -> is_chp_meter gm (Meter i kids load) = true) /\
  forallb (wf_node false) kids = true.
Proof.
  intros gm i kids load H. cbn [wf_node] in H.
  apply andb_prop in H. destruct H as [H H3]. apply andb_prop in H. destruct H as [H1 H2].
  repeat split; auto.
  - intros Hd. rewrite Hd in H1. lia.
  - intros He. rewrite He in H2. exact H2.
Qed.

Lemma wf_kids : forall (P : node -> Prop) kids,
  Forall (fun k => forall gm, wf_node gm k = true -> P k) kids ->
  forallb (wf_node false) kids = true -> Forall P kids.
Proof.
  intros P kids IH Hwf. apply forallb_Forall in Hwf.
  eapply Forall_impl2; [|exact IH|exact Hwf]. cbn. intros k Hk Hw. eapply Hk; eauto.
Qed.

(* the reading of a meter dedicated to one device type is the total of that type *)
Lemma dedicated_reading : forall gm i kids load,
  wf_node gm (Meter i kids load) = true -> dedicated gm (Meter i kids load) = true ->
  load = 0 /\ zsum (map tot_load kids) = 0 /\
  reading (Meter i kids load) = sumr kids.
Proof.
  intros gm i kids load Hwf Hd. destruct (wf_meter _ _ _ _ Hwf) as [Hl _]. specialize (Hl Hd).
  split; [exact Hl|]. split.
  - unfold dedicated in Hd. repeat (apply orb_prop in Hd; destruct Hd as [Hd|Hd]);
      apply dedicated_to_meter in Hd; destruct Hd as (_ & _ & Hall).
    + eapply kind_zero; [|exact Hall]. intros k Hk. apply pv_others in Hk. tauto.
    + eapply kind_zero; [|exact Hall]. intros k Hk. apply ev_others in Hk. tauto.
    + eapply kind_zero; [|exact Hall]. intros k Hk. apply bat_others in Hk. tauto.
    + eapply kind_zero; [|exact Hall]. intros k Hk. apply chp_others in Hk. tauto.
  - cbn [reading]. unfold sumr. lia.
Qed.

(* ------------------------------------------------------------------ DFS-based generators *)
Lemma dfs_meter : forall cond gm i kids load,
  dfs cond gm (Meter i kids load) =
  if cond gm (Meter i kids load) then [Meter i kids load] else flat_map (dfs cond false) kids.
Proof. reflexivity. Qed.

Lemma sumr_one : forall n, sumr [n] = reading n.
Proof. intros. unfold sumr. cbn [map]. rewrite zsum_cons. cbn. lia. Qed.

(* per-kid induction hypotheses, the kids being visited with gm = false *)
Ltac kids_tac IH Hk :=
  apply zsum_map_ext; apply forallb_Forall in Hk;
  eapply Forall_impl2; [|exact IH|exact Hk]; cbn beta; intros ?k ?Hi ?Hw.

Lemma pv_dfs : forall n gm, wf_node gm n = true -> sumr (dfs pv_chain gm n) = tot_pv n.
Proof.
  induction n as [i kids load IH| | | |] using node_ind'; intros gm Hwf; try (cbn; lia).
  rewrite dfs_meter. destruct (pv_chain gm (Meter i kids load)) eqn:Hc.
  - unfold pv_chain in Hc. cbn [is_pv_inv orb] in Hc.
    assert (Hd : dedicated gm (Meter i kids load) = true) by (unfold dedicated; rewrite Hc; reflexivity).
    destruct (dedicated_reading _ _ _ _ Hwf Hd) as (_ & _ & Hr).
    rewrite sumr_one, Hr. apply dedicated_to_meter in Hc. destruct Hc as (_ & _ & Hall).
    cbn [tot_pv]. unfold sumr. exact (kind_sum _ _ _ _ pv_reading Hall).
  - rewrite sumr_flat_map. cbn [tot_pv].
    destruct (wf_meter _ _ _ _ Hwf) as (_ & _ & Hk).
    kids_tac IH Hk. apply Hi. exact Hw.
Qed.

Lemma producer_dfs : forall n gm, wf_node gm n = true ->
  sumr (dfs (fun g k => pv_chain g k || chp_chain g k) gm n) = tot_pv n + tot_chp n.
Proof.
  induction n as [i kids load IH| | | |] using node_ind'; intros gm Hwf; try (cbn; lia).
  rewrite dfs_meter. destruct (pv_chain gm (Meter i kids load) || chp_chain gm (Meter i kids load)) eqn:Hc.
  - unfold pv_chain, chp_chain in Hc. cbn [is_pv_inv is_chp orb] in Hc.
    assert (Hd : dedicated gm (Meter i kids load) = true).
    { unfold dedicated. apply orb_prop in Hc. destruct Hc as [Hc|Hc]; rewrite Hc; cbn; rewrite ?orb_true_r; reflexivity. }
    destruct (dedicated_reading _ _ _ _ Hwf Hd) as (_ & _ & Hr).
    rewrite sumr_one, Hr. cbn [tot_pv tot_chp]. unfold sumr.
    apply orb_prop in Hc. destruct Hc as [Hc|Hc]; apply dedicated_to_meter in Hc; destruct Hc as (_ & _ & Hall).
    + rewrite (kind_sum _ _ _ _ pv_reading Hall).
      rewrite (kind_zero _ tot_chp _ (fun k H => proj2 (proj2 (proj2 (pv_others k H)))) Hall). lia.
    + rewrite (kind_sum _ _ _ _ chp_reading Hall).
      rewrite (kind_zero _ tot_pv _ (fun k H => proj1 (proj2 (chp_others k H))) Hall). lia.
  - rewrite sumr_flat_map. cbn [tot_pv tot_chp]. rewrite <- zsum_map_plus.
    destruct (wf_meter _ _ _ _ Hwf) as (_ & _ & Hk).
    kids_tac IH Hk. apply Hi. exact Hw.
Qed.

Lemma non_consumer_meter : forall gm i kids load,
  non_consumer gm (Meter i kids load) = dedicated gm (Meter i kids load).
Proof.
  intros. unfold non_consumer, dedicated, bat_chain, chp_chain, pv_chain, ev_chain.
  cbn [is_bat_inv is_chp is_pv_inv is_ev orb].
  destruct (is_pv_meter gm _), (is_ev_meter gm _), (is_bat_meter gm _), (is_chp_meter gm _); reflexivity.
Qed.

Lemma tot_load_non_consumer : forall gm n,
  wf_node gm n = true -> non_consumer gm n = true -> tot_load n = 0.
Proof.
  intros gm n Hwf Hc. destruct n as [i kids load| | | |]; try reflexivity.
  rewrite non_consumer_meter in Hc.
  destruct (dedicated_reading _ _ _ _ Hwf Hc) as (Hl & Hz & _). cbn [tot_load]. lia.
Qed.

(* a meter's reading minus every non-consumer chain below it is the unmetered load below it *)
Lemma consumer_dfs : forall n gm, wf_node gm n = true ->
  reading n - sumr (dfs non_consumer gm n) = tot_load n.
Proof.
  induction n as [i kids load IH| | | |] using node_ind'; intros gm Hwf; try (cbn; lia).
  rewrite dfs_meter. destruct (non_consumer gm (Meter i kids load)) eqn:Hc.
  - rewrite sumr_one, (tot_load_non_consumer _ _ Hwf Hc). lia.
  - rewrite sumr_flat_map. cbn [reading tot_load].
    destruct (wf_meter _ _ _ _ Hwf) as (_ & _ & Hk).
    assert (E : zsum (map tot_load kids)
                = zsum (map (fun k => reading k - sumr (dfs non_consumer false k)) kids)).
    { symmetry. kids_tac IH Hk. apply Hi. exact Hw. }
    rewrite E, zsum_map_minus. lia.
Qed.

Lemma consumer_from_meters_eval : forall fb gm ms,
  forallb (wf_node gm) ms = true -> eval (consumer_from_meters fb gm ms) = zsum (map tot_load ms).
Proof.
  intros fb gm ms Hwf. unfold consumer_from_meters.
  rewrite eval_app, eval_plain, eval_with_fallback, sumr_flat_map.
  assert (E : zsum (map tot_load ms) = zsum (map (fun k => reading k - sumr (dfs non_consumer gm k)) ms)).
  { symmetry. apply zsum_map_ext. apply forallb_Forall in Hwf.
    eapply Forall_impl; [|exact Hwf]. cbn beta. intros k Hw. apply consumer_dfs. exact Hw. }
  rewrite E, zsum_map_minus. unfold sumr. lia.
Qed.

(* the consumer DFS from the grid only ever returns grid successors *)
Lemma consumer_dfs_top : forall gm n,
  dfs consumer_component gm n = if consumer_component gm n then [n] else [].
Proof.
  intros gm n. destruct n as [i kids load| | | |]; try reflexivity.
  rewrite dfs_meter. destruct (consumer_component gm (Meter i kids load)) eqn:Hc; [reflexivity|].
  unfold consumer_component in Hc. cbn [is_meter orb andb] in Hc. apply negb_false_iff in Hc.
  rewrite non_consumer_meter in Hc.
  assert (Hdev : forallb (fun k => negb (is_meter k)) kids = true).
  { unfold dedicated in Hc. apply forallb_forall. intros k Hin.
    repeat (apply orb_prop in Hc; destruct Hc as [Hc|Hc]);
      apply dedicated_to_meter in Hc; destruct Hc as (_ & _ & Hall);
      rewrite forallb_forall in Hall; specialize (Hall k Hin); destruct k; cbn in *; congruence. }
  clear Hc. induction kids as [|k kids IHk]; [reflexivity|].
  cbn [forallb] in Hdev. apply andb_prop in Hdev. destruct Hdev as [Hk Hr].
  cbn [flat_map]. rewrite (IHk Hr), app_nil_r.
  destruct k; cbn in Hk; try discriminate; reflexivity.
Qed.

Lemma consumer_dfs_filter : forall g l,
  flat_map (dfs consumer_component g) l = filter (consumer_component g) l.
Proof.
  intros g l. induction l as [|r l IH]; [reflexivity|].
  cbn [flat_map filter]. rewrite IH, consumer_dfs_top. destruct (consumer_component g r); reflexivity.
Qed.

Lemma tot_load_filter : forall g l, forallb (wf_node g) l = true ->
  zsum (map tot_load (filter (consumer_component g) l)) = zsum (map tot_load l).
Proof.
  intros g l Hwf. induction l as [|r l IH]; [reflexivity|].
  cbn [forallb] in Hwf. apply andb_prop in Hwf. destruct Hwf as [Hr Hrest].
  cbn [filter]. destruct (consumer_component g r) eqn:Hc; cbn [map]; rewrite ?zsum_cons, (IH Hrest); [reflexivity|].
  enough (tot_load r = 0) by lia.
  apply (tot_load_non_consumer g r Hr).
  unfold consumer_component in Hc. destruct r; cbn in Hc |- *; try reflexivity.
  apply negb_false_iff in Hc. exact Hc.
Qed.

Lemma consumer_terms_eval : forall fb roots,
  forallb (wf_node (gm_of roots)) roots = true ->
  eval (consumer_terms fb roots) = total tot_load roots.
Proof.
  intros fb roots Hwf. unfold consumer_terms, total.
  destruct (are_grid_meters roots) eqn:Hg; [apply consumer_from_meters_eval; exact Hwf|].
  unfold dfs_grid. rewrite consumer_dfs_filter.
  set (gm := gm_of roots) in *.
  assert (Hw2 : forallb (wf_node gm) (filter (consumer_component gm) roots) = true).
  { apply forallb_forall. intros x Hx. apply filter_In in Hx. rewrite forallb_forall in Hwf. apply Hwf, Hx. }
  pose proof (tot_load_filter gm roots Hwf) as Hs.
  destruct (is_nil (filter (consumer_component gm) roots)) eqn:Hn.
  - destruct (filter (consumer_component gm) roots); [|discriminate]. cbn in Hs. rewrite <- Hs. reflexivity.
  - rewrite (consumer_from_meters_eval fb gm _ Hw2). exact Hs.
Qed.

(* ------------------------------------------------------------------ formulas over all inverters of a type *)
Lemma eval_one : forall n fbs, eval [(1, n, fbs)] = reading n.
Proof. intros. unfold eval, t_sign, t_node. cbn [map fst snd]. rewrite zsum_cons. cbn [zsum fold_right]. lia. Qed.

Lemma filter_all : forall (f : node -> bool) l, forallb f l = true -> filter f l = l.
Proof.
  induction l as [|k l IH]; intros H; [reflexivity|].
  cbn in *. apply andb_prop in H. destruct H as [Hk Hl]. rewrite Hk, (IH Hl). reflexivity.
Qed.

(* a list of inverters: none of them is a meter *)
Lemma inv_kind_dev : forall isx, (isx = is_pv_inv \/ isx = is_bat_inv) ->
  forall k, isx k = true -> is_meter k = false.
Proof. intros isx [-> | ->] k H; destruct k; cbn in *; congruence. Qed.

Lemma tot_sel_dev : forall sel k, is_meter k = false -> tot_sel sel k = if sel k then reading k else 0.
Proof. intros sel k H. destruct k; cbn in *; try discriminate; reflexivity. Qed.

Lemma by_inverters_node : forall isx sel fb, (isx = is_pv_inv \/ isx = is_bat_inv) ->
  forall n gm, wf_node gm n = true -> eval (by_inverters isx sel fb gm n) = tot_sel sel n.
Proof.
  intros isx sel fb Hx. induction n as [i kids load IH|i b p|i p|i p|i p] using node_ind'; intros gm Hwf;
    try (cbn [by_inverters tot_sel]; match goal with |- context [sel ?n] => destruct (sel n) end;
         rewrite ?eval_one; reflexivity).
  cbn [by_inverters].
  destruct (fb && dedicated_to isx gm (Meter i kids load) && forallb sel kids) eqn:Hc.
  - apply andb_prop in Hc. destruct Hc as [Hc Hsel]. apply andb_prop in Hc. destruct Hc as [_ Hc].
    assert (Hd : dedicated gm (Meter i kids load) = true).
    { unfold dedicated, is_pv_meter, is_bat_meter. destruct Hx as [-> | ->]; rewrite Hc; rewrite ?orb_true_r; reflexivity. }
    destruct (dedicated_reading _ _ _ _ Hwf Hd) as (_ & _ & Hr).
    apply dedicated_to_meter in Hc. destruct Hc as (_ & _ & Hall).
    rewrite eval_one, Hr. cbn [tot_sel]. unfold sumr. apply zsum_map_ext.
    apply forallb_Forall in Hall. apply forallb_Forall in Hsel.
    eapply Forall_impl2; [|exact Hall|exact Hsel]. cbn beta. intros k Hk Hs.
    rewrite (tot_sel_dev sel k (inv_kind_dev isx Hx k Hk)), Hs. reflexivity.
  - rewrite eval_flat_map. cbn [tot_sel].
    destruct (wf_meter _ _ _ _ Hwf) as (_ & _ & Hk).
    kids_tac IH Hk. apply Hi. exact Hw.
Qed.

Lemma tot_sel_pv : forall n, tot_sel is_pv_inv n = tot_pv n.
Proof.
  induction n as [i kids load IH| | | |] using node_ind'; try reflexivity.
  cbn [tot_sel tot_pv]. apply zsum_map_ext. exact IH.
Qed.

Lemma tot_sel_bat : forall n gm, wf_node gm n = true -> tot_sel has_bats n = tot_bat n.
Proof.
  induction n as [i kids load IH|i b p| | |] using node_ind'; intros gm Hwf; try reflexivity.
  - cbn [tot_sel tot_bat]. destruct (wf_meter _ _ _ _ Hwf) as (_ & _ & Hk).
    kids_tac IH Hk. apply (Hi false). exact Hw.
  - cbn [wf_node] in Hwf. destruct b; [discriminate|reflexivity].
Qed.

Lemma ev_node : forall n, sumr (ev_nodes n) = tot_ev n.
Proof.
  induction n as [i kids load IH| | | |] using node_ind'; try (cbn; lia).
  cbn [ev_nodes tot_ev]. rewrite sumr_flat_map. apply zsum_map_ext. exact IH.
Qed.

(* ------------------------------------------------------------------ CHP meters *)
Lemma opt_concat_all : forall (l : list node) (f : node -> option (list node)) (g : node -> Z),
  Forall (fun k => exists ms, f k = Some ms /\ sumr ms = g k) l ->
  exists ms, opt_concat (map f l) = Some ms /\ sumr ms = zsum (map g l).
Proof.
  intros l f g H. induction H as [|k l (ms & Hf & Hs) _ (mr & Hr & Hsr)].
  - exists []. split; reflexivity.
  - exists (ms ++ mr). cbn [map opt_concat]. rewrite Hf, Hr. split; [reflexivity|].
    rewrite sumr_app, zsum_cons. lia.
Qed.

Lemma existsb_false_forall : forall (f : node -> bool) l, existsb f l = false -> forallb (fun k => negb (f k)) l = true.
Proof.
  induction l as [|k l IH]; intros H; [reflexivity|]. cbn in *.
  apply orb_false_elim in H. destruct H as [Hk Hl]. rewrite Hk, (IH Hl). reflexivity.
Qed.

Lemma chp_node : forall n gm, wf_node gm n = true -> is_chp n = false ->
  exists ms, chp_meters n = Some ms /\ sumr ms = tot_chp n.
Proof.
  induction n as [i kids load IH| | | |] using node_ind'; intros gm Hwf Hn;
    try (exists []; split; reflexivity); [|discriminate].
  cbn [chp_meters]. destruct (wf_meter _ _ _ _ Hwf) as (_ & Hchp & Hk).
  destruct (existsb is_chp kids) eqn:He.
  - specialize (Hchp eq_refl).
    assert (Hd : dedicated gm (Meter i kids load) = true).
    { unfold dedicated. rewrite Hchp. rewrite ?orb_true_r. reflexivity. }
    destruct (dedicated_reading _ _ _ _ Hwf Hd) as (_ & _ & Hr).
    apply dedicated_to_meter in Hchp. destruct Hchp as (_ & _ & Hall). rewrite Hall.
    exists [Meter i kids load]. split; [reflexivity|].
    rewrite sumr_one, Hr. cbn [tot_chp]. unfold sumr. exact (kind_sum _ _ _ _ chp_reading Hall).
  - cbn [tot_chp]. apply opt_concat_all.
    apply existsb_false_forall in He. apply forallb_Forall in He. apply forallb_Forall in Hk.
    eapply Forall_impl2; [|exact IH|].
    2:{ eapply Forall_impl2; [|exact Hk|exact He]. cbn beta. intros k H1 H2. exact (conj H1 H2). }
    cbn beta. intros k Hi [Hw Hnc]. apply (Hi false Hw). apply negb_true_iff in Hnc. exact Hnc.
Qed.

(* ------------------------------------------------------------------ whole microgrid *)
Lemma wf_parts : forall roots, wf roots = true ->
  roots <> [] /\ forallb (fun r => negb (is_chp r)) roots = true /\ forallb (wf_node (gm_of roots)) roots = true.
Proof.
  intros roots H. unfold wf in H. apply andb_prop in H. destruct H as [H H3].
  apply andb_prop in H. destruct H as [H1 H2]. repeat split; auto.
  destruct roots; [discriminate|congruence].
Qed.

Lemma roots_sum : forall (f : bool -> node -> list node) (g : node -> Z) gm roots,
  forallb (wf_node gm) roots = true ->
  (forall n, wf_node gm n = true -> sumr (f gm n) = g n) ->
  sumr (flat_map (f gm) roots) = zsum (map g roots).
Proof.
  intros f g gm roots Hwf H. rewrite sumr_flat_map. apply zsum_map_ext.
  apply forallb_Forall in Hwf. eapply Forall_impl; [|exact Hwf]. cbn beta. auto.
Qed.

Lemma roots_eval : forall (f : bool -> node -> list term) (g : node -> Z) gm roots,
  forallb (wf_node gm) roots = true ->
  (forall n, wf_node gm n = true -> eval (f gm n) = g n) ->
  eval (flat_map (f gm) roots) = zsum (map g roots).
Proof.
  intros f g gm roots Hwf H. rewrite eval_flat_map. apply zsum_map_ext.
  apply forallb_Forall in Hwf. eapply Forall_impl; [|exact Hwf]. cbn beta. auto.
Qed.

Theorem pv_formula : forall fb roots, wf roots = true -> eval (pv_terms fb roots) = total tot_pv roots.
Proof.
  intros fb roots H. destruct (wf_parts _ H) as (_ & _ & Hwf).
  unfold pv_terms, dfs_grid, total. rewrite eval_with_fallback.
  rewrite (roots_sum (dfs pv_chain) tot_pv _ _ Hwf); [lia|]. intros n Hn. apply pv_dfs. exact Hn.
Qed.

Theorem pvids_formula : forall fb roots, wf roots = true -> eval (pvids_terms fb roots) = total tot_pv roots.
Proof.
  intros fb roots H. destruct (wf_parts _ H) as (_ & _ & Hwf).
  unfold pvids_terms, total.
  apply (roots_eval (by_inverters is_pv_inv is_pv_inv fb) tot_pv _ _ Hwf). intros n Hn.
  rewrite (by_inverters_node _ _ _ (or_introl eq_refl) _ _ Hn). apply tot_sel_pv.
Qed.

Theorem battery_formula : forall fb roots, wf roots = true -> eval (battery_terms fb roots) = total tot_bat roots.
Proof.
  intros fb roots H. destruct (wf_parts _ H) as (_ & _ & Hwf).
  unfold battery_terms, total.
  apply (roots_eval (by_inverters is_bat_inv has_bats fb) tot_bat _ _ Hwf). intros n Hn.
  rewrite (by_inverters_node _ _ _ (or_intror eq_refl) _ _ Hn). apply (tot_sel_bat _ _ Hn).
Qed.

(* pools over a subset of the inverters: the total of exactly the requested ones *)
Theorem battery_pool_formula : forall fb roots bids ts, wf roots = true ->
  battery_pool_terms fb roots bids = Some ts -> eval ts = total (tot_sel (bat_sel bids)) roots.
Proof.
  intros fb roots bids ts H Hts. destruct (wf_parts _ H) as (_ & _ & Hwf). unfold battery_pool_terms in Hts.
  destruct (forallb _ (all_nodes roots)); [|discriminate]. injection Hts as <-. unfold total.
  apply (roots_eval (by_inverters is_bat_inv (bat_sel bids) fb) _ _ _ Hwf). intros n Hn.
  apply (by_inverters_node _ _ _ (or_intror eq_refl) _ _ Hn).
Qed.

(* the generator succeeds exactly when every inverter of a requested battery has all its batteries requested *)
Lemma battery_pool_defined : forall fb roots bids,
  (exists ts, battery_pool_terms fb roots bids = Some ts) <->
  forallb (fun n => implb (bat_sel bids n) (bat_closed bids n)) (all_nodes roots) = true.
Proof.
  intros. unfold battery_pool_terms. destruct (forallb _ (all_nodes roots)); split; intros H; try reflexivity;
    try (eexists; reflexivity); try discriminate. destruct H as (ts & H). discriminate.
Qed.

Theorem pv_pool_formula : forall fb roots psel, wf roots = true ->
  eval (pv_pool_terms fb roots psel) =
  if is_nil psel then total tot_pv roots else total (tot_sel (pv_sel psel)) roots.
Proof.
  intros fb roots psel H. unfold pv_pool_terms. destruct (is_nil psel); [apply pv_formula; exact H|].
  destruct (wf_parts _ H) as (_ & _ & Hwf). unfold total.
  apply (roots_eval (by_inverters is_pv_inv (pv_sel psel) fb) _ _ _ Hwf). intros n Hn.
  apply (by_inverters_node _ _ _ (or_introl eq_refl) _ _ Hn).
Qed.

Theorem ev_formula : forall roots, eval (ev_terms roots) = total tot_ev roots.
Proof.
  intros roots. unfold ev_terms, total. rewrite eval_plain, sumr_flat_map.
  apply zsum_map_ext. apply Forall_forall. intros n _. apply ev_node.
Qed.

Lemma ev_pool_node : forall sel n, sumr (ev_pool_nodes sel n) = tot_sel (fun k => is_ev k && sel k) n.
Proof.
  intros sel. induction n as [i kids load IH| | | |] using node_ind'; try reflexivity.
  - cbn [ev_pool_nodes tot_sel]. rewrite sumr_flat_map. apply zsum_map_ext. exact IH.
  - cbn [ev_pool_nodes tot_sel is_ev andb]. destruct (sel (Ev i p)); [apply sumr_one|reflexivity].
Qed.

Lemma tot_sel_ext : forall (f g : node -> bool) n, (forall k, f k = g k) -> tot_sel f n = tot_sel g n.
Proof.
  intros f g n H. induction n as [i kids load IH| | | |] using node_ind'; cbn [tot_sel]; rewrite ?H; try reflexivity.
  apply zsum_map_ext. exact IH.
Qed.

Theorem ev_pool_formula : forall roots esel,
  eval (ev_pool_terms roots esel) = total (tot_sel (ev_sel esel)) roots.
Proof.
  intros roots esel. unfold ev_pool_terms, total. rewrite eval_plain, sumr_flat_map.
  apply zsum_map_ext. apply Forall_forall. intros n _. rewrite ev_pool_node.
  apply tot_sel_ext. intros k. unfold ev_sel. destruct (is_ev k); reflexivity.
Qed.

Theorem chp_formula : forall roots, wf roots = true ->
  exists ts, chp_terms roots = Some ts /\ eval ts = total tot_chp roots.
Proof.
  intros roots H. destruct (wf_parts _ H) as (_ & Hnc & Hwf).
  assert (E : exists ms, opt_concat (map chp_meters roots) = Some ms /\ sumr ms = zsum (map tot_chp roots)).
  { apply opt_concat_all. apply forallb_Forall in Hnc. apply forallb_Forall in Hwf.
    eapply Forall_impl2; [|exact Hwf|exact Hnc]. cbn beta. intros k Hw Hk.
    apply (chp_node k _ Hw). apply negb_true_iff in Hk. exact Hk. }
  destruct E as (ms & Hms & Hs). exists (map (fun m => (1, m, [])) ms).
  unfold chp_terms. rewrite Hms. split; [reflexivity|]. rewrite eval_plain. exact Hs.
Qed.

Theorem consumer_formula : forall fb roots, wf roots = true ->
  eval (consumer_terms fb roots) = total tot_load roots.
Proof. intros fb roots H. destruct (wf_parts _ H) as (_ & _ & Hwf). apply consumer_terms_eval. exact Hwf. Qed.

Theorem producer_formula : forall fb roots, wf roots = true ->
  eval (producer_terms fb roots) = total tot_pv roots + total tot_chp roots.
Proof.
  intros fb roots H. destruct (wf_parts _ H) as (_ & _ & Hwf).
  unfold producer_terms, dfs_grid, total. rewrite eval_with_fallback, <- zsum_map_plus.
  rewrite (roots_sum (dfs (fun g k => pv_chain g k || chp_chain g k)) (fun k => tot_pv k + tot_chp k) _ _ Hwf); [lia|].
  intros n Hn. apply producer_dfs. exact Hn.
Qed.

Theorem grid_formula : forall fb roots, wf roots = true ->
  exists ts, grid_terms fb roots = Some ts /\ eval ts = sumr roots.
Proof.
  intros fb roots H. destruct (wf_parts _ H) as (Hne & Hnc & _).
  unfold grid_terms. rewrite (filter_all _ _ Hnc).
  destruct roots as [|r roots]; [congruence|]. cbn [is_nil].
  eexists. split; [reflexivity|]. rewrite eval_with_fallback. lia.
Qed.

Theorem balance : forall fb roots, wf roots = true ->
  exists g, grid_terms fb roots = Some g /\
    eval g = eval (consumer_terms fb roots) + eval (producer_terms fb roots)
             + eval (battery_terms fb roots) + eval (ev_terms roots).
Proof.
  intros fb roots H. destruct (grid_formula fb roots H) as (g & Hg & Eg). exists g. split; [exact Hg|].
  rewrite Eg, (consumer_formula _ _ H), (producer_formula _ _ H), (battery_formula _ _ H), ev_formula.
  unfold sumr, total. rewrite (zsum_map_ext reading _ roots (proj2 (Forall_forall _ _) (fun n _ => reading_split n))).
  rewrite !zsum_map_plus. lia.
Qed.

Theorem grid_total : forall fb roots, wf roots = true ->
  exists g, grid_terms fb roots = Some g /\
    eval g = total tot_load roots + total tot_pv roots + total tot_chp roots + total tot_bat roots + total tot_ev roots.
Proof.
  intros fb roots H. destruct (balance fb roots H) as (g & Hg & B). exists g. split; [exact Hg|].
  rewrite B, (consumer_formula _ _ H), (producer_formula _ _ H), (battery_formula _ _ H), ev_formula.
  lia.
Qed.

(* ------------------------------------------------------------------ fallback formulas *)
(* a fallback formula stands in for a meter dedicated to one device type: it has the same value *)
Lemma meter_fallback_value : forall gm n, wf_node gm n = true -> dedicated gm n = true ->
  sumr (meter_fallback n) = reading n.
Proof.
  intros gm n Hwf Hd. destruct n as [i kids load| | | |]; try (cbn in Hd; discriminate).
  destruct (dedicated_reading _ _ _ _ Hwf Hd) as (_ & _ & Hr). rewrite Hr.
  unfold meter_fallback. cbn [succs].
  replace (forallb is_chp kids || forallb is_pv_inv kids || forallb is_bat_inv kids || forallb is_ev kids) with true; [reflexivity|].
  unfold dedicated in Hd.
  repeat (apply orb_prop in Hd; destruct Hd as [Hd|Hd]);
    apply dedicated_to_meter in Hd; destruct Hd as (_ & _ & Hall); rewrite Hall; rewrite ?orb_true_r; reflexivity.
Qed.

Lemma by_inverters_fallback : forall isx sel fb, (isx = is_pv_inv \/ isx = is_bat_inv) ->
  forall n gm t, wf_node gm n = true -> In t (by_inverters isx sel fb gm n) -> t_fb t <> [] ->
  eval_fb t = reading (t_node t).
Proof.
  intros isx sel fb Hx. induction n as [i kids load IH| | | |] using node_ind'; intros gm t Hwf Hin Hfb;
    try (cbn [by_inverters] in Hin; match type of Hin with context [sel ?n] => destruct (sel n) end;
         [destruct Hin as [<-|[]]; cbn in Hfb; congruence|destruct Hin]).
  cbn [by_inverters] in Hin.
  destruct (wf_meter _ _ _ _ Hwf) as (_ & _ & Hk).
  destruct (fb && dedicated_to isx gm (Meter i kids load) && forallb sel kids) eqn:Hc.
  - apply andb_prop in Hc. destruct Hc as [Hc _]. apply andb_prop in Hc. destruct Hc as [_ Hc].
    assert (Hd : dedicated gm (Meter i kids load) = true).
    { unfold dedicated, is_pv_meter, is_bat_meter. destruct Hx as [-> | ->]; rewrite Hc; rewrite ?orb_true_r; reflexivity. }
    destruct (dedicated_reading _ _ _ _ Hwf Hd) as (_ & _ & Hr).
    destruct Hin as [<-|[]]. unfold eval_fb, t_fb, t_node. cbn [fst snd]. rewrite Hr. reflexivity.
  - apply in_flat_map in Hin. destruct Hin as (k & Hkin & Hin).
    rewrite Forall_forall in IH. rewrite forallb_forall in Hk.
    apply (IH k Hkin false t (Hk k Hkin) Hin Hfb).
Qed.

(* ------------------------------------------------------------------ finding F9 (fixed in /repo) *)
(* grid -> { meter 2 (load 7) -> { battery inverter 3, PV inverter 5 }, PV inverter 6 } *)
Definition f9_witness : list node :=
  [Meter 2 [BatInv 3 [4] 10; PvInv 5 (-20)] 7; PvInv 6 (-30)].

(* the formula generated BEFORE the fix took meter 2 whole: consumer = -3 instead of 7, and
   grid (-33) <> consumer (-3) + producer (-50) + battery (10) + ev (0) *)
Lemma consumer_before_fix_refuted :
  wf f9_witness = true /\ f9_trigger f9_witness = true /\
  eval (consumer_terms_before_fix true f9_witness) <> total tot_load f9_witness /\
  (forall g, grid_terms true f9_witness = Some g ->
     eval g <> eval (consumer_terms_before_fix true f9_witness) + eval (producer_terms true f9_witness)
               + eval (battery_terms true f9_witness) + eval (ev_terms f9_witness)).
Proof.
  repeat split; try (vm_compute; congruence).
  intros g Hg. vm_compute in Hg. injection Hg as <-. vm_compute. congruence.
Qed.

(* outside the trigger the old formula was already the repaired one *)
Lemma consumer_before_fix_partial : forall fb roots,
  f9_trigger roots = false -> eval (consumer_terms_before_fix fb roots) = eval (consumer_terms fb roots).
Proof.
  intros fb roots H. unfold consumer_terms_before_fix, consumer_terms, f9_trigger in *.
  destruct (are_grid_meters roots); [reflexivity|]. cbn [negb andb] in H.
  set (cc := dfs_grid consumer_component roots) in *.
  assert (E : flat_map (dfs non_consumer (gm_of roots)) cc = []).
  { clearbody cc. induction cc as [|m cc IH]; [reflexivity|].
    cbn [existsb] in H. apply orb_false_elim in H. destruct H as [Hm Hr].
    cbn [flat_map]. rewrite (IH Hr). destruct (dfs non_consumer (gm_of roots) m); [reflexivity|discriminate]. }
  unfold consumer_from_meters. rewrite E. cbn [map]. rewrite app_nil_r.
  destruct cc; reflexivity.
Qed.

(* ------------------------------------------------------------------ finding F9b (fixed in /repo) *)
(* grid -> meter 2 (load 5) -> battery meter 3 -> { inverter 4 (10 W), inverter 6 (20 W) };
   a battery pool over the battery of inverter 4 only *)
Definition f9b_witness : list node :=
  [Meter 2 [Meter 3 [BatInv 4 [5] 10; BatInv 6 [7] 20] 0] 5].

(* before the fix the pool formula read the shared meter 3: 30 W instead of 10 W *)
Lemma pool_before_fix_refuted :
  wf f9b_witness = true /\
  eval (battery_pool_terms_before_fix true f9b_witness [5]) <> total (tot_sel (bat_sel [5])) f9b_witness /\
  option_map eval (battery_pool_terms true f9b_witness [5]) = Some 10.
Proof. repeat split; vm_compute; congruence. Qed.

(* ------------------------------------------------------------------ no formula reads a CHP itself *)
Notation no_chp l := (Forall (fun x : node => is_chp x = false) l).

Lemma no_chp_flat_map : forall (f : node -> list node) l,
  Forall (fun k => no_chp (f k)) l -> no_chp (flat_map f l).
Proof.
  intros f l H. induction H as [|k l Hk _ IH]; [constructor|].
  cbn [flat_map]. apply Forall_app. split; assumption.
Qed.

(* a DFS whose condition holds at every CHP meter never reaches a CHP *)
Lemma dfs_no_chp : forall cond : bool -> node -> bool,
  (forall gm i kids load, is_chp_meter gm (Meter i kids load) = true -> cond gm (Meter i kids load) = true) ->
  forall n gm, wf_node gm n = true -> is_chp n = false -> no_chp (dfs cond gm n).
Proof.
  intros cond Hcond. induction n as [i kids load IH| | | |] using node_ind'; intros gm Hwf Hn;
    [|try (cbn in Hn; discriminate);
      cbn [dfs]; match goal with |- context [cond ?g ?x] => destruct (cond g x) end; repeat constructor ..].
  rewrite dfs_meter. destruct (cond gm (Meter i kids load)) eqn:Hc; [repeat constructor|].
  destruct (wf_meter _ _ _ _ Hwf) as (_ & Hchp & Hk).
  destruct (existsb is_chp kids) eqn:He.
  - rewrite (Hcond _ _ _ _ (Hchp eq_refl)) in Hc. discriminate.
  - apply no_chp_flat_map. apply existsb_false_forall in He.
    apply forallb_Forall in He. apply forallb_Forall in Hk.
    eapply Forall_impl2; [|exact IH|].
    2:{ eapply Forall_impl2; [|exact Hk|exact He]. cbn beta. intros k H1 H2. exact (conj H1 H2). }
    cbn beta. intros k Hi [Hw Hnc]. apply (Hi false Hw). apply negb_true_iff in Hnc. exact Hnc.
Qed.

(* every node a DFS returns fulfils its condition *)
Lemma dfs_In_cond : forall cond n gm x, In x (dfs cond gm n) -> exists g, cond g x = true.
Proof.
  intros cond. induction n as [i kids load IH| | | |] using node_ind'; intros gm x Hin;
    [|cbn [dfs] in Hin; match type of Hin with context [cond ?g ?y] => destruct (cond g y) eqn:Hc end;
      [destruct Hin as [<-|[]]; eexists; exact Hc|destruct Hin] ..].
  rewrite dfs_meter in Hin. destruct (cond gm (Meter i kids load)) eqn:Hc.
  - destruct Hin as [<-|[]]. eexists; exact Hc.
  - apply in_flat_map in Hin. destruct Hin as (k & Hk & Hin). rewrite Forall_forall in IH. eapply IH; eauto.
Qed.

Lemma forallb_map' : forall {A B} (f : A -> B) (p : B -> bool) l, forallb p (map f l) = forallb (fun x => p (f x)) l.
Proof. induction l as [|x l IH]; [reflexivity|]. cbn. rewrite IH. reflexivity. Qed.

Lemma rm_map_with_fallback : forall fb s l, no_chp l -> reads_measurable (map (with_fallback fb s) l) = true.
Proof.
  intros fb s l H. unfold reads_measurable. rewrite forallb_map'. apply forallb_forall. intros x Hx.
  rewrite Forall_forall in H. unfold with_fallback, t_node. cbn [fst snd]. rewrite (H x Hx). reflexivity.
Qed.

Lemma rm_map_plain : forall l, no_chp l -> reads_measurable (map (fun m : node => (1, m, @nil node)) l) = true.
Proof.
  intros l H. unfold reads_measurable. rewrite forallb_map'. apply forallb_forall. intros x Hx.
  rewrite Forall_forall in H. unfold t_node. cbn [fst snd]. rewrite (H x Hx). reflexivity.
Qed.

Lemma rm_app : forall a b, reads_measurable (a ++ b) = reads_measurable a && reads_measurable b.
Proof. intros. unfold reads_measurable. apply forallb_app. Qed.

Lemma roots_no_chp : forall roots, wf roots = true -> no_chp roots.
Proof.
  intros roots H. destruct (wf_parts _ H) as (_ & Hnc & _). apply forallb_Forall in Hnc.
  eapply Forall_impl; [|exact Hnc]. cbn beta. intros k Hk. apply negb_true_iff in Hk. exact Hk.
Qed.

Lemma dfs_grid_no_chp : forall cond : bool -> node -> bool,
  (forall gm i kids load, is_chp_meter gm (Meter i kids load) = true -> cond gm (Meter i kids load) = true) ->
  forall roots, wf roots = true -> no_chp (dfs_grid cond roots).
Proof.
  intros cond Hcond roots H. pose proof (roots_no_chp _ H) as Hnc. destruct (wf_parts _ H) as (_ & _ & Hwf).
  unfold dfs_grid. apply no_chp_flat_map. apply forallb_Forall in Hwf.
  eapply Forall_impl2; [|exact Hwf|exact Hnc]. cbn beta. intros k Hw Hk. apply dfs_no_chp; assumption.
Qed.

Theorem producer_reads_measurable : forall fb roots, wf roots = true ->
  reads_measurable (producer_terms fb roots) = true.
Proof.
  intros fb roots H. apply rm_map_with_fallback. apply dfs_grid_no_chp; [|exact H].
  intros gm i kids load Hm. unfold chp_chain. rewrite Hm. rewrite ?orb_true_r. reflexivity.
Qed.

Theorem consumer_reads_measurable : forall fb roots, wf roots = true ->
  reads_measurable (consumer_terms fb roots) = true.
Proof.
  intros fb roots H. pose proof (roots_no_chp _ H) as Hnc. destruct (wf_parts _ H) as (_ & _ & Hwf).
  assert (Hfm : forall ms, no_chp ms -> forallb (wf_node (gm_of roots)) ms = true ->
                reads_measurable (consumer_from_meters fb (gm_of roots) ms) = true).
  { intros ms Hms Hw. unfold consumer_from_meters. rewrite rm_app, (rm_map_plain _ Hms). cbn [andb].
    apply rm_map_with_fallback. apply no_chp_flat_map. apply forallb_Forall in Hw.
    eapply Forall_impl2; [|exact Hw|exact Hms]. cbn beta. intros k Hk Hc. apply dfs_no_chp; try assumption.
    intros gm i kids load Hm. unfold non_consumer, chp_chain. rewrite Hm. rewrite ?orb_true_r. reflexivity. }
  unfold consumer_terms. destruct (are_grid_meters roots); [apply Hfm; assumption|].
  unfold dfs_grid. rewrite consumer_dfs_filter.
  destruct (is_nil (filter (consumer_component (gm_of roots)) roots)); [reflexivity|].
  apply Hfm.
  - apply Forall_forall. intros x Hx. apply filter_In in Hx. rewrite Forall_forall in Hnc. apply Hnc, Hx.
  - apply forallb_forall. intros x Hx. apply filter_In in Hx. rewrite forallb_forall in Hwf. apply Hwf, Hx.
Qed.

Theorem grid_reads_measurable : forall fb roots g, wf roots = true ->
  grid_terms fb roots = Some g -> reads_measurable g = true.
Proof.
  intros fb roots g H Hg. pose proof (roots_no_chp _ H) as Hnc. destruct (wf_parts _ H) as (_ & Hf & _).
  unfold grid_terms in Hg. rewrite (filter_all _ _ Hf) in Hg. destruct (is_nil roots); [discriminate|].
  injection Hg as <-. apply rm_map_with_fallback. exact Hnc.
Qed.
