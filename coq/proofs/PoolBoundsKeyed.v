(* C17 — the minimum powers as the distribution algorithm stores them (one dict keyed by
   component id): equal to the per-group minimum powers when no id is written twice
   (disjoint groups), different when battery sets overlap. *)
From Coq Require Import QArith Qabs List Bool Lqa ZArith.
From Verif Require Import model.Common gen.Pool model.PoolBounds proofs.PoolBoundsNum proofs.PoolBoundsFacts.
Import ListNotations.
Open Scope Q_scope.

Lemma fold_cons_rev : forall {A} (ws d : list A), fold_left (fun d w => w :: d) ws d = rev ws ++ d.
Proof.
  induction ws as [|w ws IH]; intro d; cbn [fold_left rev]; [reflexivity|].
  rewrite IH, <- app_assoc. reflexivity.
Qed.

Lemma excl_dict_acc : forall up ps d,
  fold_left (fun d p => fold_left (fun d w => w :: d) (writes_of up p) d) ps d
  = rev (flat_map (writes_of up) ps) ++ d.
Proof.
  induction ps as [|p ps IH]; intro d; cbn [fold_left flat_map]; [reflexivity|].
  rewrite IH, fold_cons_rev, rev_app_distr, <- app_assoc. reflexivity.
Qed.

Lemma excl_dict_rev : forall up ps, excl_dict up ps = rev (flat_map (writes_of up) ps).
Proof. intros. unfold excl_dict. rewrite excl_dict_acc. apply app_nil_r. Qed.

Lemma dget_in : forall (l : dict) k v, NoDup (map fst l) -> In (k, v) l -> dget l k = v.
Proof.
  induction l as [|[k' v'] l IH]; intros k v N H; [contradiction|].
  cbn [map fst] in N. inversion N as [|? ? Nk Nl]; subst. cbn [dget].
  destruct (Z.eqb_spec k k') as [->|Ne].
  - destruct H as [E|H]; [now inversion E|].
    exfalso. apply Nk. change k' with (fst (k', v)). now apply in_map.
  - destruct H as [E|H]; [inversion E; congruence|]. now apply IH.
Qed.

Lemma writes_keys : forall up ps, map fst (flat_map (writes_of up) ps) = flat_map keys_of ps.
Proof.
  induction ps as [|[[bid b] invs] ps IH]; cbn [flat_map]; [reflexivity|].
  rewrite map_app, IH. f_equal. cbn [writes_of keys_of map fst]. now rewrite map_map.
Qed.

Lemma dget_excl : forall up ps k v, NoDup (flat_map keys_of ps) -> In (k, v) (flat_map (writes_of up) ps) ->
  dget (excl_dict up ps) k = v.
Proof.
  intros up ps k v N H. rewrite excl_dict_rev. apply dget_in.
  - rewrite map_rev, writes_keys. now apply NoDup_rev.
  - now apply in_rev in H.
Qed.

Lemma min_power_keyed_up : forall ps, NoDup (flat_map keys_of ps) ->
  min_power_keyed true ps = qsum (map min_power_up (map strip ps)).
Proof.
  intros ps N. unfold min_power_keyed. rewrite map_map. f_equal. apply map_ext_in.
  intros [[bid b] invs] Hp. unfold min_power_up, strip. cbn [fst snd].
  assert (W : forall w, In w (writes_of true (bid, b, invs)) -> In w (flat_map (writes_of true) ps)).
  { intros w Hw. apply in_flat_map. eauto. }
  rewrite (dget_excl true ps bid (eu b) N); [|apply W; now left].
  rewrite map_map. f_equal. f_equal. apply map_ext_in. intros i Hi.
  apply (dget_excl true ps _ _ N). apply W. right. apply in_map_iff. eauto.
Qed.

Lemma min_power_keyed_down : forall ps, NoDup (flat_map keys_of ps) ->
  min_power_keyed false ps = qsum (map min_power_down (map strip ps)).
Proof.
  intros ps N. unfold min_power_keyed. rewrite map_map. f_equal. apply map_ext_in.
  intros [[bid b] invs] Hp. unfold min_power_down, strip. cbn [fst snd].
  assert (W : forall w, In w (writes_of false (bid, b, invs)) -> In w (flat_map (writes_of false) ps)).
  { intros w Hw. apply in_flat_map. eauto. }
  rewrite (dget_excl false ps bid (- el b) N); [|apply W; now left].
  rewrite map_map. f_equal. f_equal. apply map_ext_in. intros i Hi.
  apply (dget_excl false ps _ _ N). apply W. right. apply in_map_iff. eauto.
Qed.


Lemma strip_ipair_of : forall g, strip (ipair_of g) = pair_of (cg_of g).
Proof. intros [bs is]. reflexivity. Qed.

(* disjoint groups: what the algorithm reads back is the per-group minimum power, hence the
   advertised-and-accepted power is at least their sum *)
Lemma min_powers_keyed : forall (igs : list igroup) a p,
  NoDup (flat_map keys_of (map ipair_of igs)) ->
  Forall wf_group (map cg_of igs) -> Forall wf_inverters (map cg_of igs) ->
  advertised (map wrap (map cg_of igs)) = Some a ->
  il a <= p <= iu a -> (p <= el a \/ eu a <= p) ->
  (0 < p -> min_power_keyed true (map ipair_of igs) <= p) /\
  (p < 0 -> min_power_keyed false (map ipair_of igs) <= - p).
Proof.
  intros igs a p N W1 W2 A R X.
  rewrite (min_power_keyed_up _ N), (min_power_keyed_down _ N).
  assert (E : map strip (map ipair_of igs) = map pair_of (map cg_of igs)).
  { rewrite !map_map. apply map_ext. apply strip_ipair_of. }
  rewrite E.
  exact (min_powers (map cg_of igs) a p W1 W2 A R X).
Qed.

(* overlapping battery sets (chain topology of the known finding): inverter 5 -> batteries {3,4},
   inverter 6 -> batteries {3,1}; the manager forms the sets {3,4}, {1,3}, {1,3,4}; the last two
   start with battery 1, share one dict entry, and the stored minimum powers add up to 72 W
   although 47 W is advertised (and accepted) *)
Definition overlap_witness : list igroup :=
  let b1 := (1%Z, mkPB (-62) (-1) 1 201) in
  let b3 := (3%Z, mkPB (-62) 0 0 0) in
  let b4 := (4%Z, mkPB (-51) (-1) 9 9) in
  let i5 := (5%Z, mkPB (-1010) (-10) 0 50) in
  let i6 := (6%Z, mkPB (-300) (-100) 1 201) in
  [([b3; b4], [i5; i6]); ([b1; b3], [i6]); ([b1; b3; b4], [i6])].

Lemma min_powers_refuted_overlapping : exists (igs : list igroup) a p,
  Forall wf_group (map cg_of igs) /\ Forall wf_inverters (map cg_of igs) /\
  advertised (map wrap (map cg_of igs)) = Some a /\
  il a <= p <= iu a /\ (p <= el a \/ eu a <= p) /\ 0 < p /\
  (forall adjust, check_request adjust (enforced (map pair_of (map cg_of igs))) p = true) /\
  ~ min_power_keyed true (map ipair_of igs) <= p.
Proof.
  exists overlap_witness.
  destruct (advertised (map wrap (map cg_of overlap_witness))) as [a|] eqn:A; [|vm_compute in A; discriminate A].
  exists a, 47.
  assert (W1 : Forall wf_group (map cg_of overlap_witness)).
  { repeat (apply Forall_cons; [split; cbn; congruence|]). apply Forall_nil. }
  assert (R : il a <= 47 <= iu a /\ eu a <= 47).
  { vm_compute in A. injection A as <-. cbn. split; [split|]; discriminate. }
  split; [exact W1|]. split.
  { repeat (apply Forall_cons; [intros i Hi; cbn in Hi;
      repeat (destruct Hi as [<-|Hi]; [split; cbn; discriminate|]); contradiction|]). apply Forall_nil. }
  split; [reflexivity|]. split; [apply R|]. split; [right; apply R|]. split; [reflexivity|]. split.
  - intro adjust. apply (accept _ a W1 A); [apply R|right; apply R].
  - vm_compute. intro H. apply H. reflexivity.
Qed.
