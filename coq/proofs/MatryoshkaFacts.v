(* Invariants of the Matryoshka sweep and of the proposal bucket. *)
From Coq Require Import Lia ZifyBool Permutation Sorted.
From Verif Require Import model.Matryoshka proofs.BoundsFacts.

(* ------------------------------------------------------------------ envelope *)
Definition usable (ex : bnds) (sl su t : Z) : Prop :=
  sl <= t <= su /\ match ex with Some (el, eu) => t = 0 \/ ~ (el < t < eu) | None => True end.

(* the value chosen from a clamp result is inside [lo,hi] and outside the open exclusion
   zone, or the previous target is kept *)
Lemma pick_clamp_usable v lo hi ex cur :
  lo <= hi ->
  let t := pick v (clamp v lo hi ex) cur in
  t = cur \/ usable ex lo hi t.
Proof.
  intros Hlh. unfold pick, clamp, overlap, usable.
  destruct ex as [[el eu]|].
  - destruct (el <? lo) eqn:E1, (lo <? eu) eqn:E2, (el <? hi) eqn:E3, (hi <? eu) eqn:E4; cbn [andb];
    repeat match goal with
    | |- context [if ?c then _ else _] =>
        match c with
        | context [if _ then _ else _] => fail 1
        | _ => let E := fresh "E" in destruct c eqn:E
        end
    end; cbn [negb andb] in *; lia.
  - destruct (v <? lo) eqn:E7; [lia|]. destruct (hi <? v) eqn:E8; [lia|].
    destruct (v - v <? v - v); lia.
Qed.

Lemma adjust_within lo hi ex sl su :
  sl <= 0 <= su -> sl <= lo -> hi <= su -> lo <= hi \/ True ->
  let '(lo', hi') := adjust lo hi ex in sl <= lo' /\ hi' <= su.
Proof.
  intros H0 Hl Hh _. unfold adjust, overlap. destruct ex as [[el eu]|]; [|lia].
  destruct (el <? lo) eqn:E1, (lo <? eu) eqn:E2, (el <? hi) eqn:E3, (hi <? eu) eqn:E4; cbn [andb]; lia.
Qed.

Definition sweep_inv (ex : bnds) (sl su : Z) (st : Z * Z * Z) : Prop :=
  let '(lb, ub, tgt) := st in sl <= lb /\ ub <= su /\ usable ex sl su tgt.

Lemma usable_widen ex lo hi sl su t : sl <= lo -> hi <= su -> usable ex lo hi t -> usable ex sl su t.
Proof. unfold usable; intros; destruct ex as [[el eu]|]; lia. Qed.

Lemma sweep_step_inv ex sl su p st :
  sl <= 0 <= su -> sweep_inv ex sl su st ->
  (let '(lb, ub, _) := st in lb <= ub) ->
  sweep_inv ex sl su (sweep_step ex p st).
Proof.
  intros H0. destruct st as [[lb ub] tgt]. intros (Hl & Hu & Ht) Hlu.
  unfold sweep_step. rewrite overlap_spec, adjust_spec.
  assert (Ht' : usable ex sl su (match p_pref p with
                                  | None => tgt
                                  | Some v => pick v (clamp_to_bounds v lb ub ex) tgt end)).
  { destruct (p_pref p) as [v|]; [|exact Ht]. rewrite clamp_spec.
    destruct (pick_clamp_usable v lb ub ex tgt Hlu) as [-> | Hu']; [exact Ht|].
    eapply usable_widen; eauto. }
  set (pl := default lb (p_lo p)). set (pu := default ub (p_hi p)).
  destruct (overlap pl pu ex) as [[|] [|]] eqn:Eo.
  1: { cbn. auto. }
  all: pose proof (adjust_within (Z.max lb pl) (Z.min ub pu) ex sl su H0 ltac:(lia) ltac:(lia) (or_intror I)) as Ha;
       destruct (adjust (Z.max lb pl) (Z.min ub pu) ex) as [lb' ub']; cbn; tauto.
Qed.

Lemma sweep_inv_result ex sl su ps st :
  sl <= 0 <= su -> sweep_inv ex sl su st -> usable ex sl su (sweep ex ps st).
Proof.
  intros H0. revert st. induction ps as [|p ps IH]; intros [[lb ub] tgt] Hinv.
  - cbn. destruct Hinv as (_ & _ & H). exact H.
  - cbn [sweep]. destruct (ub <? lb) eqn:E.
    + destruct Hinv as (_ & _ & H). exact H.
    + apply IH. apply sweep_step_inv; auto. lia.
Qed.

Definition wf_sys (s : sysb) : Prop :=
  match s_incl s with Some (l, u) => l <= 0 <= u | None => True end.

Definition in_envelope (s : sysb) (t : Z) : Prop :=
  match s_incl s with Some (l, u) => l <= t <= u | None => t = 0 end /\
  match s_excl s with Some (el, eu) => t = 0 \/ ~ (el < t < eu) | None => True end.

Lemma calc_target_envelope s ps : wf_sys s -> in_envelope s (calc_target s ps).
Proof.
  intros Hwf. unfold calc_target, init_bounds, in_envelope, wf_sys in *.
  assert (Hgen : forall l u, l <= 0 <= u ->
            usable (eff_excl s) l u (sweep (eff_excl s) (sort_desc ps) (l, u, 0))).
  { intros l u Hlu. apply sweep_inv_result; [exact Hlu|]. cbn. unfold usable.
    repeat split; try lia. destruct (eff_excl s) as [[el eu]|]; auto. }
  destruct (s_incl s) as [[l u]|].
  - specialize (Hgen l u Hwf). remember (sweep (eff_excl s) (sort_desc ps) (l, u, 0)) as t eqn:Et. clear Et.
    destruct Hgen as [Hin Hex]. split; [exact Hin|].
    unfold eff_excl in Hex. destruct (s_excl s) as [[el eu]|]; [|exact I].
    destruct (negb (el =? 0) || negb (eu =? 0)) eqn:E; [exact Hex|]. right. lia.
  - specialize (Hgen 0 0 ltac:(lia)). remember (sweep (eff_excl s) (sort_desc ps) (0, 0, 0)) as t eqn:Et. clear Et.
    destruct Hgen as [Hin Hex]. split; [lia|].
    destruct (s_excl s) as [[el eu]|]; [|exact I]. left. lia.
Qed.

(* ------------------------------------------------------------------ keys and sorting *)
Definition key (p : proposal) : Z * Z := (p_prio p, p_src p).

Lemma p_keyb_true a b : p_keyb a b = true <-> key a = key b.
Proof.
  unfold p_keyb, key. split.
  - intros H. apply andb_prop in H as [H1 H2]. f_equal; lia.
  - intros H. injection H as H1 H2. apply andb_true_intro; split; lia.
Qed.

Lemma p_keyb_false a b : p_keyb a b = false <-> key a <> key b.
Proof.
  rewrite <- p_keyb_true. destruct (p_keyb a b); split; congruence.
Qed.

Definition lt (a b : proposal) : Prop := p_ltb a b = true.

Lemma lt_spec a b : lt a b <-> (p_prio a < p_prio b \/ (p_prio a = p_prio b /\ p_src a < p_src b)).
Proof. unfold lt, p_ltb. lia. Qed.

Lemma lt_irrefl a : ~ lt a a.
Proof. rewrite lt_spec. lia. Qed.

Lemma lt_trans a b c : lt a b -> lt b c -> lt a c.
Proof. rewrite !lt_spec. lia. Qed.

Lemma lt_asym a b : lt a b -> lt b a -> False.
Proof. rewrite !lt_spec. lia. Qed.

Lemma lt_total a b : lt a b \/ key a = key b \/ lt b a.
Proof.
  rewrite !lt_spec. unfold key.
  destruct (Z.lt_trichotomy (p_prio a) (p_prio b)) as [H|[H|H]]; [lia| |lia].
  destruct (Z.lt_trichotomy (p_src a) (p_src b)) as [G|[G|G]]; [lia| |lia].
  right; left. congruence.
Qed.

Definition NoDupKey (l : list proposal) : Prop := NoDup (map key l).

(* descending strict sortedness *)
Definition desc := StronglySorted (fun a b => lt b a).

Lemma insert_desc_perm p l : Permutation (insert_desc p l) (p :: l).
Proof.
  induction l as [|q qs IH]; cbn; [reflexivity|].
  destruct (p_ltb p q); [|reflexivity].
  rewrite IH. apply perm_swap.
Qed.

Lemma sort_desc_perm l : Permutation (sort_desc l) l.
Proof.
  induction l as [|p l IH]; cbn; [reflexivity|].
  rewrite insert_desc_perm. constructor. exact IH.
Qed.

Lemma insert_desc_sorted p l :
  desc l -> ~ In (key p) (map key l) -> desc (insert_desc p l).
Proof.
  induction l as [|q qs IH]; intros Hs Hk; cbn.
  - constructor; constructor.
  - apply StronglySorted_inv in Hs as [Hs Hq].
    destruct (p_ltb p q) eqn:E.
    + constructor.
      * apply IH; [exact Hs|]. cbn in Hk. tauto.
      * rewrite Forall_forall. intros x Hx.
        apply (Permutation_in _ (insert_desc_perm p qs)) in Hx. destruct Hx as [<-|Hx]; [exact E|].
        rewrite Forall_forall in Hq. auto.
    + assert (Hqp : lt q p).
      { destruct (lt_total p q) as [H|[H|H]]; [unfold lt in H; congruence| |exact H].
        exfalso. apply Hk. cbn. left. congruence. }
      constructor; [constructor; assumption|].
      constructor; [exact Hqp|].
      rewrite Forall_forall in *. intros x Hx. eapply lt_trans; [apply Hq; exact Hx|exact Hqp].
Qed.

Lemma sort_desc_sorted l : NoDupKey l -> desc (sort_desc l).
Proof.
  induction l as [|p l IH]; intros Hn; cbn; [constructor|].
  unfold NoDupKey in Hn. cbn in Hn. apply NoDup_cons_iff in Hn as [Hp Hn].
  apply insert_desc_sorted; [apply IH; exact Hn|].
  intros Hin. apply Hp. apply in_map_iff in Hin as (x & Hx & Hin).
  apply in_map_iff. exists x. split; [exact Hx|].
  eapply Permutation_in; [apply sort_desc_perm|exact Hin].
Qed.

Lemma desc_perm_eq l1 l2 : desc l1 -> desc l2 -> Permutation l1 l2 -> l1 = l2.
Proof.
  revert l2. induction l1 as [|a l1 IH]; intros l2 H1 H2 Hp.
  - apply Permutation_nil in Hp. congruence.
  - destruct l2 as [|b l2]; [apply Permutation_sym, Permutation_nil in Hp; discriminate|].
    apply StronglySorted_inv in H1 as [H1 Ha]. apply StronglySorted_inv in H2 as [H2 Hb].
    rewrite Forall_forall in Ha, Hb.
    assert (a = b).
    { assert (Ia : In a (b :: l2)) by (eapply Permutation_in; [exact Hp|left; reflexivity]).
      assert (Ib : In b (a :: l1)) by (eapply Permutation_in; [apply Permutation_sym; exact Hp|left; reflexivity]).
      destruct Ia as [->|Ia]; [reflexivity|]. destruct Ib as [->|Ib]; [reflexivity|].
      exfalso. eapply lt_asym; [apply Hb; exact Ia|apply Ha; exact Ib]. }
    subst b. f_equal. apply IH; auto. eapply Permutation_cons_inv; exact Hp.
Qed.

Lemma NoDupKey_perm l1 l2 : Permutation l1 l2 -> NoDupKey l1 -> NoDupKey l2.
Proof.
  intros Hp Hn. unfold NoDupKey in *. eapply Permutation_NoDup; [|exact Hn].
  apply Permutation_map. exact Hp.
Qed.

Lemma sort_desc_perm_invariant l1 l2 :
  NoDupKey l1 -> Permutation l1 l2 -> sort_desc l1 = sort_desc l2.
Proof.
  intros Hn Hp. apply desc_perm_eq.
  - apply sort_desc_sorted; exact Hn.
  - apply sort_desc_sorted. eapply NoDupKey_perm; eauto.
  - rewrite !sort_desc_perm. exact Hp.
Qed.

Lemma calc_target_perm s l1 l2 :
  NoDupKey l1 -> Permutation l1 l2 -> calc_target s l1 = calc_target s l2.
Proof.
  intros Hn Hp. unfold calc_target. rewrite (sort_desc_perm_invariant l1 l2 Hn Hp). reflexivity.
Qed.

(* ------------------------------------------------------------------ the bucket *)
Lemma NoDupKey_filter f l : NoDupKey l -> NoDupKey (filter f l).
Proof.
  unfold NoDupKey. induction l as [|x l IH]; cbn; intros H; [constructor|].
  apply NoDup_cons_iff in H as [Hx H].
  destruct (f x); cbn; [|auto].
  constructor; [|auto]. intros Hin. apply Hx.
  apply in_map_iff in Hin as (y & Hy & Hin). apply filter_In in Hin as [Hin _].
  apply in_map_iff. eauto.
Qed.

Lemma bucket_insert_nodup p b : NoDupKey b -> NoDupKey (bucket_insert p b).
Proof.
  intros H. unfold bucket_insert, NoDupKey. cbn. constructor.
  - intros Hin. apply in_map_iff in Hin as (y & Hy & Hin). apply filter_In in Hin as [_ Hf].
    apply negb_true_iff, p_keyb_false in Hf. congruence.
  - apply NoDupKey_filter. exact H.
Qed.

Lemma bucket_step_nodup ma b e : NoDupKey b -> NoDupKey (bucket_step ma b e).
Proof.
  destruct e; cbn; intros H; [apply bucket_insert_nodup|apply NoDupKey_filter|]; exact H.
Qed.

Lemma bucket_after_nodup ma h : NoDupKey (bucket_after ma h).
Proof.
  unfold bucket_after. assert (G : NoDupKey []) by constructor.
  revert G. generalize (@nil proposal). induction h as [|e h IH]; intros b Hb; cbn; [exact Hb|].
  apply IH. apply bucket_step_nodup. exact Hb.
Qed.

Lemma NoDupKey_NoDup l : NoDupKey l -> NoDup l.
Proof. unfold NoDupKey. apply NoDup_map_inv. Qed.

(* declarative meaning of "live": proposed, not replaced by a later proposal of the same
   (priority, source), and not older than the maximum age at any later expiry call *)
Definition live (ma : Z) (h : list mevent) (p : proposal) : Prop :=
  exists h1 h2, h = h1 ++ Propose p :: h2 /\
    (forall q, In (Propose q) h2 -> key q <> key p) /\
    (forall now, In (Expire now) h2 -> now - p_time p <= ma).

Lemma bucket_after_snoc ma h e : bucket_after ma (h ++ [e]) = bucket_step ma (bucket_after ma h) e.
Proof. unfold bucket_after. rewrite fold_left_app. reflexivity. Qed.

Lemma live_snoc ma h e p :
  live ma (h ++ [e]) p <->
  (e = Propose p) \/
  (live ma h p /\ match e with
                  | Propose q => key q <> key p
                  | Expire now => now - p_time p <= ma
                  | SetBounds _ => True
                  end).
Proof.
  split.
  - intros (h1 & h2 & Heq & Hk & Hx).
    induction h2 as [|e' h2' _] using rev_ind.
    + (* h2 = [] *)
      apply app_inj_tail in Heq as [_ ->]. left. reflexivity.
    + (* h2 = h2' ++ [e'] *)
      rewrite app_comm_cons, app_assoc in Heq. apply app_inj_tail in Heq as [-> ->].
      right. split.
      * exists h1, h2'. split; [reflexivity|]. split.
        -- intros q Hq. apply Hk. apply in_or_app. left. exact Hq.
        -- intros now Hn. apply Hx. apply in_or_app. left. exact Hn.
      * destruct e' as [q|now|s]; [apply Hk|apply Hx|exact I]; apply in_or_app; right; left; reflexivity.
  - intros [-> | [(h1 & h2 & -> & Hk & Hx) He]].
    + exists h, []. split; [reflexivity|]. split; intros ? [].
    + exists h1, (h2 ++ [e]). split; [rewrite <- app_assoc; reflexivity|]. split.
      * intros q Hq. apply in_app_or in Hq as [Hq|[Hq|[]]]; [apply Hk; exact Hq|]. subst e. exact He.
      * intros now Hn. apply in_app_or in Hn as [Hn|[Hn|[]]]; [apply Hx; exact Hn|]. subst e. exact He.
Qed.

Lemma bucket_after_live ma h p : In p (bucket_after ma h) <-> live ma h p.
Proof.
  revert p. induction h as [|e h IH] using rev_ind; intros p.
  - cbn. split; [intros []|]. intros (h1 & h2 & Heq & _). destruct h1; discriminate.
  - rewrite bucket_after_snoc, live_snoc. destruct e as [q|now|s]; cbn [bucket_step].
    + unfold bucket_insert. cbn [In]. rewrite filter_In, IH, negb_true_iff, p_keyb_false.
      split.
      * intros [->|[H1 H2]]; [left; reflexivity|right; auto].
      * intros [H|[H1 H2]]; [left; congruence|right; auto].
    + unfold bucket_expire. rewrite filter_In, IH. split.
      * intros [H1 H2]. right. split; [exact H1|]. lia.
      * intros [H|[H1 H2]]; [discriminate|]. split; [exact H1|]. lia.
    + rewrite IH. split; [intros H; right; auto|]. intros [H|[H _]]; [discriminate|exact H].
Qed.

Lemma history_free ma s h1 h2 :
  (forall p, live ma h1 p <-> live ma h2 p) -> target_after ma s h1 = target_after ma s h2.
Proof.
  intros Hl. unfold target_after. apply calc_target_perm; [apply bucket_after_nodup|].
  apply NoDup_Permutation; try (apply NoDupKey_NoDup, bucket_after_nodup).
  intros p. rewrite !bucket_after_live. apply Hl.
Qed.

(* arrival-order independence for plain proposal sets *)
Lemma order_free ma s ps1 ps2 :
  NoDupKey ps1 -> Permutation ps1 ps2 ->
  target_after ma s (map Propose ps1) = target_after ma s (map Propose ps2).
Proof.
  intros Hn Hp. apply history_free. intros p.
  assert (G : forall ps, NoDupKey ps -> (live ma (map Propose ps) p <-> In p ps)).
  { clear. intros ps Hn. rewrite <- bucket_after_live.
    induction ps as [|q ps IH] using rev_ind; [cbn; tauto|].
    rewrite map_app. cbn [map]. rewrite bucket_after_snoc. cbn [bucket_step]. unfold bucket_insert.
    cbn [In]. rewrite filter_In, negb_true_iff, p_keyb_false, in_app_iff. cbn [In].
    assert (Hn' : NoDupKey ps /\ ~ In (key q) (map key ps)).
    { unfold NoDupKey in *. rewrite map_app in Hn. cbn in Hn.
      apply NoDup_remove in Hn. rewrite app_nil_r in Hn. exact Hn. }
    destruct Hn' as [Hn1 Hn2]. rewrite (IH Hn1). split.
    - intros [->|[H _]]; auto.
    - intros [H|[->|[]]]; [right|left; reflexivity]. split; [exact H|].
      intros E. apply Hn2. rewrite E. apply in_map. exact H. }
  rewrite (G ps1 Hn), (G ps2 (NoDupKey_perm _ _ Hp Hn)).
  split; apply Permutation_in; [exact Hp|apply Permutation_sym; exact Hp].
Qed.

(* the stepwise machine that mirrors calculate_target_power never disagrees with the
   bucket fold: with bounds present, the target reported after every call is the target of the
   current bucket under the current bounds *)
Lemma mstep_bucket ma st e :
  m_bucket (fst (mstep ma st e)) =
    if (match e with Propose _ => negb (m_created st) && no_bounds (m_sys st) | _ => false end)
    then m_bucket st else bucket_step ma (m_bucket st) e.
Proof.
  destruct e as [p|now|s]; cbn; [|reflexivity|reflexivity].
  destruct (negb (m_created st) && no_bounds (m_sys st)); reflexivity.
Qed.

Lemma mstep_output ma st e t :
  snd (mstep ma st e) = Some t ->
  t = calc_target (m_sys (fst (mstep ma st e))) (m_bucket (fst (mstep ma st e))).
Proof.
  destruct e as [p|now|s]; cbn.
  - destruct (negb (m_created st) && no_bounds (m_sys st)); cbn; congruence.
  - destruct (m_created st); cbn; congruence.
  - discriminate.
Qed.

(* expiry: after an expiry call at [now] nothing older than the maximum age is left *)
Lemma expire_drops ma now b p : In p (bucket_expire ma now b) -> now - p_time p <= ma.
Proof. unfold bucket_expire. rewrite filter_In. intros [_ H]. lia. Qed.

Lemma expire_keeps ma now b p : In p b -> now - p_time p <= ma -> In p (bucket_expire ma now b).
Proof. unfold bucket_expire. rewrite filter_In. intros H1 H2. split; [exact H1|]. lia. Qed.

(* ---- lift to every reachable state of the per-call machine ---- *)
Definition ev_wf (e : mevent) : Prop :=
  match e with SetBounds s => wf_sys s | _ => True end.

Lemma mstep_wf ma st e : wf_sys (m_sys st) -> ev_wf e -> wf_sys (m_sys (fst (mstep ma st e))).
Proof.
  intros Hwf He. destruct e as [p|now|s]; cbn.
  - destruct (negb (m_created st) && no_bounds (m_sys st)); cbn; exact Hwf.
  - exact Hwf.
  - exact He.
Qed.

(* every target the machine ever reports lies in the envelope of the bounds in force at
   the moment of the report, whatever happened before *)
Lemma mrun_envelope ma : forall h st n t,
  wf_sys (m_sys st) -> Forall ev_wf h ->
  nth_error (mrun ma st h) n = Some (Some t) ->
  in_envelope (m_sys (mfinal ma st (firstn (S n) h))) t.
Proof.
  induction h as [|e h IH]; intros st n t Hwf Hall Hn.
  - destruct n; discriminate Hn.
  - inversion Hall as [|e' h' He Hh]; subst e' h'.
    pose proof (mstep_wf ma st e Hwf He) as Hwf'.
    pose proof (mstep_output ma st e) as Hout.
    cbn [mrun] in Hn. cbn [firstn mfinal].
    destruct (mstep ma st e) as [st' o] eqn:E. cbn [fst snd] in *.
    destruct n as [|n].
    + cbn in Hn. injection Hn as Ho. subst o.
      cbn [firstn mfinal]. rewrite (Hout t eq_refl).
      apply calc_target_envelope. exact Hwf'.
    + cbn [nth_error] in Hn. apply IH; assumption.
Qed.

(* the machine's bucket is the bucket of the accepted events: once created, the machine
   bucket follows bucket_step exactly *)
Lemma mfinal_created ma : forall h st, m_created st = true ->
  m_created (mfinal ma st h) = true /\
  m_bucket (mfinal ma st h) = fold_left (bucket_step ma) h (m_bucket st).
Proof.
  induction h as [|e h IH]; intros st Hc; [split; [exact Hc|reflexivity]|].
  cbn [mfinal fold_left].
  assert (Hc' : m_created (fst (mstep ma st e)) = true).
  { destruct e as [p|now|s]; cbn; rewrite ?Hc; cbn; try exact Hc; reflexivity. }
  destruct (IH _ Hc') as [H1 H2]. split; [exact H1|].
  rewrite H2. f_equal. rewrite mstep_bucket.
  destruct e as [p|now|s]; rewrite ?Hc; reflexivity.
Qed.

(* history-freedom at the level of the machine: two arbitrary event histories that leave
   the same live proposals and the same bounds in force give the same target *)
Lemma machine_history_free ma s0 h1 h2 :
  let st := mkM true [] s0 in
  (forall p, live ma h1 p <-> live ma h2 p) ->
  m_sys (mfinal ma st h1) = m_sys (mfinal ma st h2) ->
  calc_target (m_sys (mfinal ma st h1)) (m_bucket (mfinal ma st h1)) =
  calc_target (m_sys (mfinal ma st h2)) (m_bucket (mfinal ma st h2)).
Proof.
  intros st Hl Hs.
  destruct (mfinal_created ma h1 st eq_refl) as [_ B1].
  destruct (mfinal_created ma h2 st eq_refl) as [_ B2].
  rewrite B1, B2, Hs. cbn [st m_bucket].
  exact (history_free ma (m_sys (mfinal ma st h2)) h1 h2 Hl).
Qed.
