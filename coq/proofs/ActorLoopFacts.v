(* Facts about the transition system of ONE Actor._run_loop task (model/Actor.v, Part 1),
   for ALL sequences of events. *)
From Coq Require Import Lia ZifyBool.
From Verif Require Import model.Actor.

Lemma lrun_app limit delay tr1 : forall s tr2,
  lrun limit delay s (tr1 ++ tr2) =
  match lrun limit delay s tr1 with Some s' => lrun limit delay s' tr2 | None => None end.
Proof.
  induction tr1 as [|[t e] tr1 IH]; intros s tr2; cbn; [reflexivity|].
  destruct (lstep limit delay s t e); [apply IH|reflexivity].
Qed.

Lemma count_app {A} (f : A -> bool) a b : count f (a ++ b) = (count f a + count f b)%nat.
Proof. unfold count. rewrite filter_app, app_length. reflexivity. Qed.

Lemma count_cons {A} (f : A -> bool) x l : count f (x :: l) = ((if f x then 1 else 0) + count f l)%nat.
Proof. unfold count. cbn. destruct (f x); reflexivity. Qed.

(* ------------------------------------------------------------------ a finished loop stays finished *)
Lemma ended_absorbing limit delay o tr : forall s,
  lrun limit delay (Ended o) tr = Some s ->
  s = Ended o /\ count is_enter tr = 0%nat /\ count is_exit tr = 0%nat.
Proof.
  induction tr as [|[t e] tr IH]; intros s H; cbn in H.
  - injection H as <-. repeat split.
  - destruct e; cbn in H; try discriminate.
    destruct (IH _ H) as (-> & H1 & H2). rewrite !count_cons. cbn. repeat split; assumption.
Qed.

Lemma ended_rejects_enter limit delay o l t r :
  lrun limit delay (Ended o) (l ++ (t, LEnter) :: r) = None.
Proof.
  induction l as [|[t' e] l IH]; cbn; [reflexivity|].
  destruct e; cbn; try reflexivity. exact IH.
Qed.

(* ------------------------------------------------------------------ restart count *)
Definition le_limit (n : nat) (limit : option nat) : Prop :=
  match limit with None => True | Some l => (n <= l)%nat end.

(* what the numbers of invocations and of failing runs are in every state *)
Definition loop_inv (limit : option nat) (tr : list (Z * levent)) (s : lstate) : Prop :=
  let ne := count is_enter tr in
  let nx := count is_exc tr in
  let dc := count is_delay_cancel tr in
  match s with
  | Delay n _ _ => ne = n /\ nx = n /\ le_limit n limit /\ dc = 0%nat
  | Running n _ => ne = S n /\ nx = n /\ le_limit n limit /\ dc = 0%nat
  | Ended o =>
      (dc = 1%nat /\ o = Cancelled /\ ne = nx /\ le_limit nx limit) \/
      (dc = 0%nat /\ ne = S (min_limit nx limit))
  end.

Lemma may_restart_true limit n : may_restart limit n = true -> le_limit n limit -> le_limit (S n) limit.
Proof. destruct limit as [l|]; cbn; [|trivial]. intros H _. apply Nat.ltb_lt in H. lia. Qed.

Lemma may_restart_false limit n :
  may_restart limit n = false -> le_limit n limit -> min_limit (S n) limit = n.
Proof.
  destruct limit as [l|]; unfold may_restart, le_limit, min_limit; [|discriminate].
  intros H Hl. apply Nat.ltb_ge in H. lia.
Qed.

Lemma min_limit_le n limit : le_limit n limit -> min_limit n limit = n.
Proof. destruct limit as [l|]; unfold le_limit, min_limit; [lia|reflexivity]. Qed.

Lemma count_snoc {A} (f : A -> bool) l x : count f (l ++ [x]) = if f x then S (count f l) else count f l.
Proof. unfold count. rewrite filter_app, app_length. cbn. destruct (f x); cbn; lia. Qed.

Lemma loop_inv_step limit delay tr s t e s' :
  loop_inv limit tr s -> lstep limit delay s t e = Some s' -> loop_inv limit (tr ++ [(t, e)]) s'.
Proof.
  unfold loop_inv. intros HI Hs. rewrite !count_snoc.
  destruct e as [| | |o|]; cbn [is_enter is_exc is_delay_cancel snd].
  - (* LCancel *) cbn in Hs. injection Hs as <-. destruct s; cbn; cbn in HI; exact HI.
  - (* LEnter *) destruct s as [n since [|]| |]; cbn in Hs; try discriminate.
    destruct (Z.eqb t (since + delay_of delay n)); [|discriminate]. injection Hs as <-.
    destruct HI as (H1 & H2 & H3 & H4). repeat split; try assumption. lia.
  - (* LDeliver *) destruct s as [|n [|]|]; cbn in Hs; try discriminate. injection Hs as <-. exact HI.
  - (* LExit *) destruct s as [|n p|]; cbn in Hs; try discriminate.
    destruct HI as (H1 & H2 & H3 & H4).
    destruct o.
    + injection Hs as <-. right. split; [assumption|]. rewrite H2, (min_limit_le _ _ H3). exact H1.
    + destruct (may_restart limit n) eqn:Em; injection Hs as <-.
      * repeat split; try assumption; try lia. apply may_restart_true; assumption.
      * right. split; [assumption|]. rewrite H2, (may_restart_false _ _ Em H3). exact H1.
    + injection Hs as <-. right. split; [assumption|]. rewrite H2, (min_limit_le _ _ H3). exact H1.
    + injection Hs as <-. right. split; [assumption|]. rewrite H2, (min_limit_le _ _ H3). exact H1.
  - (* LDelayCancelled *) destruct s as [n since [|]| |]; cbn in Hs; try discriminate. injection Hs as <-.
    destruct HI as (H1 & H2 & H3 & H4). left. repeat split; try lia. rewrite H2. exact H3.
Qed.

Lemma loop_inv_run limit delay t0 tr : forall s,
  lrun limit delay (Delay 0 t0 false) tr = Some s -> loop_inv limit tr s.
Proof.
  induction tr as [|[t e] tr IH] using rev_ind; intros s H.
  - cbn in H. injection H as <-. cbn. repeat split; destruct limit; cbn; lia.
  - rewrite lrun_app in H. destruct (lrun limit delay (Delay 0 t0 false) tr) as [s1|] eqn:E; [|discriminate].
    cbn in H. destruct (lstep limit delay s1 t e) as [s2|] eqn:E2; [|discriminate]. injection H as <-.
    eapply loop_inv_step; [apply IH; reflexivity|exact E2].
Qed.

(* a loop that ended through an outcome of _run: invocations = 1 + min(failures, limit) *)
Lemma restart_count limit delay t0 tr o :
  lrun limit delay (Delay 0 t0 false) tr = Some (Ended o) ->
  count is_delay_cancel tr = 0%nat ->
  count is_enter tr = S (min_limit (count is_exc tr) limit).
Proof.
  intros H Hd. pose proof (loop_inv_run _ _ _ _ _ H) as HI. cbn in HI.
  destruct HI as [(H1 & _)|(_ & H2)]; [lia|exact H2].
Qed.

(* a loop cancelled while waiting to (re)start: every failure so far was followed by a restart *)
Lemma restart_count_cancelled limit delay t0 tr o :
  lrun limit delay (Delay 0 t0 false) tr = Some (Ended o) ->
  count is_delay_cancel tr <> 0%nat ->
  o = Cancelled /\ count is_enter tr = count is_exc tr /\ le_limit (count is_exc tr) limit.
Proof.
  intros H Hd. pose proof (loop_inv_run _ _ _ _ _ H) as HI. cbn in HI.
  destruct HI as [(_ & H1 & H2 & H3)|(H1 & _)]; [auto|lia].
Qed.

(* ------------------------------------------------------------------ no restart after a final outcome *)
Lemma no_restart_after limit delay s0 tr1 t o tr2 s :
  lrun limit delay s0 (tr1 ++ (t, LExit o) :: tr2) = Some s -> o <> Exc ->
  s = Ended o /\ count is_enter tr2 = 0%nat.
Proof.
  intros H Ho. rewrite lrun_app in H. destruct (lrun limit delay s0 tr1) as [s1|]; [|discriminate].
  cbn in H. destruct s1 as [|n p|]; cbn in H; try discriminate.
  assert (H' : lrun limit delay (Ended o) tr2 = Some s) by (destruct o; try exact H; contradiction).
  destruct (ended_absorbing _ _ _ _ _ H') as (-> & He & _). split; [reflexivity|exact He].
Qed.

(* a failure beyond the limit is final as well *)
Lemma no_restart_beyond_limit delay l p t tr2 s :
  lrun (Some l) delay (Running l p) ((t, LExit Exc) :: tr2) = Some s ->
  s = Ended Exc /\ count is_enter tr2 = 0%nat.
Proof.
  intros H. cbn [lrun] in H. unfold lstep, may_restart in H. rewrite Nat.ltb_irrefl in H.
  destruct (ended_absorbing _ _ _ _ _ H) as (-> & He & _). auto.
Qed.

(* a failure within the limit schedules a restart *)
Lemma restart_after_exception limit delay n p t :
  may_restart limit n = true -> lstep limit delay (Running n p) t (LExit Exc) = Some (Delay (S n) t p).
Proof. intros H. cbn. rewrite H. reflexivity. Qed.

(* ------------------------------------------------------------------ one invocation at a time, after the delay *)
Lemma delay_pending_rejects_enter limit delay l : forall n since tb r,
  count is_enter l = 0%nat ->
  lrun limit delay (Delay n since true) (l ++ (tb, LEnter) :: r) = None.
Proof.
  induction l as [|[t e] l IH]; intros n since tb r Hc; cbn; [reflexivity|].
  rewrite count_cons in Hc.
  destruct e; cbn in *; try reflexivity; try lia.
  - apply IH. lia.
  - apply ended_rejects_enter.
Qed.

Lemma delay_then_enter limit delay l : forall n since p tb r s,
  count is_enter l = 0%nat ->
  lrun limit delay (Delay n since p) (l ++ (tb, LEnter) :: r) = Some s ->
  l = [] /\ p = false /\ tb = since + delay_of delay n.
Proof.
  destruct l as [|[t e] l]; intros n since p tb r s Hc H.
  - cbn in H. destruct p; [discriminate|].
    destruct (Z.eqb_spec tb (since + delay_of delay n)); [auto|discriminate].
  - exfalso. rewrite count_cons in Hc. cbn in H.
    destruct e; cbn in *; try discriminate; try lia.
    + rewrite delay_pending_rejects_enter in H by lia. discriminate.
    + destruct p; [|discriminate]. rewrite ended_rejects_enter in H. discriminate.
Qed.

Lemma running_then_enter limit delay mid : forall n p tb r s,
  count is_enter mid = 0%nat ->
  lrun limit delay (Running n p) (mid ++ (tb, LEnter) :: r) = Some s ->
  exists pre t1, mid = pre ++ [(t1, LExit Exc)] /\ count is_exit pre = 0%nat /\ tb = t1 + delay.
Proof.
  induction mid as [|[t e] mid IH]; intros n p tb r s Hc H.
  - cbn in H. discriminate.
  - rewrite count_cons in Hc. cbn in H.
    destruct e as [| | |o|]; cbn in *; try discriminate; try lia.
    + destruct (IH _ _ _ _ _ ltac:(lia) H) as (pre & t1 & -> & Hx & Ht).
      exists ((t, LCancel) :: pre), t1. rewrite count_cons. cbn. auto.
    + destruct p; [|discriminate].
      destruct (IH _ _ _ _ _ ltac:(lia) H) as (pre & t1 & -> & Hx & Ht).
      exists ((t, LDeliver) :: pre), t1. rewrite count_cons. cbn. auto.
    + destruct o; try (rewrite ended_rejects_enter in H; discriminate).
      destruct (may_restart limit n); [|rewrite ended_rejects_enter in H; discriminate].
      assert (Hc' : count is_enter mid = 0%nat) by lia.
      destruct (delay_then_enter _ _ _ _ _ _ _ _ _ Hc' H) as (-> & _ & ->).
      exists [], t. cbn. auto.
Qed.

(* between two consecutive invocations there is exactly one end of _run, it is a failure, it is
   the last event before the restart, and the restart happens exactly [delay] after it *)
Lemma restart_spacing limit delay s0 tr1 ta mid tb tr2 s :
  lrun limit delay s0 (tr1 ++ (ta, LEnter) :: mid ++ (tb, LEnter) :: tr2) = Some s ->
  count is_enter mid = 0%nat ->
  exists pre t1, mid = pre ++ [(t1, LExit Exc)] /\ count is_exit pre = 0%nat /\ tb = t1 + delay.
Proof.
  intros H Hc. rewrite lrun_app in H. destruct (lrun limit delay s0 tr1) as [s1|]; [|discriminate].
  cbn in H. destruct s1 as [n since [|]| |]; cbn in H; try discriminate.
  destruct (Z.eqb ta (since + delay_of delay n)); [|discriminate].
  eapply running_then_enter; eassumption.
Qed.

(* the first invocation happens at the instant the task was created *)
Lemma first_enter_time limit delay t0 l tb r s :
  count is_enter l = 0%nat ->
  lrun limit delay (Delay 0 t0 false) (l ++ (tb, LEnter) :: r) = Some s -> tb = t0.
Proof.
  intros Hc H. destruct (delay_then_enter _ _ _ _ _ _ _ _ _ Hc H) as (_ & _ & ->). cbn. lia.
Qed.

(* a failure with the restart budget exhausted -- n_restarts at OR BEYOND the limit in force -- is final *)
Lemma no_restart_without_budget limit delay n p t :
  may_restart limit n = false -> lstep limit delay (Running n p) t (LExit Exc) = Some (Ended Exc).
Proof. intros H. cbn. rewrite H. reflexivity. Qed.

Lemma may_restart_spec limit n :
  may_restart limit n = true <-> match limit with None => True | Some l => (n < l)%nat end.
Proof. destruct limit as [l|]; cbn; [apply Nat.ltb_lt|tauto]. Qed.
