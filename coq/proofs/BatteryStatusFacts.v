(* Facts about the battery status tracker model (model/BatteryStatus.v): safety invariant
   over all event histories, immediacy, status characterisation, only-on-change. *)
From Coq Require Import Lia ZifyBool.
From Verif Require Import model.BatteryStatus.
Open Scope list_scope.
Open Scope Z_scope.

(* ------------------------------------------------------------------ small helpers *)
Lemma status_eqb_eq : forall a b, status_eqb a b = true <-> a = b.
Proof. intros [] []; cbn; split; intro H; try reflexivity; try discriminate. Qed.

Lemma status_eqb_neq : forall a b, status_eqb a b = false <-> a <> b.
Proof. intros [] []; cbn; split; intro H; try reflexivity; try discriminate; try congruence. Qed.

Lemma status_eqb_refl : forall a, status_eqb a a = true.
Proof. intros []; reflexivity. Qed.

(* ------------------------------------------------------------------ the translated BlockingStatus, readable *)
Definition block_hand (c : cfg) (now : Z) (b : blocking) : blocking * Z :=
  match b_until b with
  | None => (mkB (c_dmin c) (Some (now + c_dmin c)), c_dmin c)
  | Some u =>
      if u >? now then (b, 0)
      else let d := Z.min (2 * b_last b) (c_dmax c) in
           (mkB d (Some (now + d)), d)
  end.
Definition unblock_hand (b : blocking) : blocking := mkB (b_last b) None.
Definition is_blocked_hand (now : Z) (b : blocking) : bool :=
  match b_until b with
  | None => false
  | Some u => u >? now
  end.

(* These three proofs are deliberately not `reflexivity`: they case-split on every test and
   compare the results arithmetically, so a behaviour-preserving rewrite of the Python
   methods (other temporaries, `a if c else b` instead of min, reordered tests) still checks,
   while a different growth law or a different comparison does not. *)
Ltac blk_crush :=
  repeat (cbv beta iota zeta;
          match goal with
          | |- context [if ?b then _ else _] => destruct b eqn:?
          | |- context [match ?o with Some _ => _ | None => _ end] => is_var o; destruct o
          end);
  cbv beta iota zeta;
  repeat match goal with
         | |- (_, _) = (_, _) => f_equal
         | |- mkB _ _ = mkB _ _ => f_equal
         | |- Some _ = Some _ => f_equal
         end;
  try reflexivity; try lia; try (exfalso; lia);
  try match goal with
      | |- ?x = ?y => destruct x eqn:?; destruct y eqn:?; try reflexivity; exfalso; lia
      end.

Lemma block_spec : forall c now b, block c now b = block_hand c now b.
Proof.
  intros c now [l o]; unfold block, block_hand, BlockingStatus_block; cbn [b_until b_last]. blk_crush.
Qed.
Lemma unblock_spec : forall b, unblock b = unblock_hand b.
Proof.
  intros [l o]; unfold unblock, unblock_hand, BlockingStatus_unblock; cbn [b_until b_last]. blk_crush.
Qed.
Lemma is_blocked_spec : forall now b, is_blocked now b = is_blocked_hand now b.
Proof.
  intros now [l o]; unfold is_blocked, is_blocked_hand, BlockingStatus_is_blocked; cbn [b_until b_last].
  blk_crush.
Qed.

(* ------------------------------------------------------------------ finish *)
Definition both_ok (s : state) : bool := s_ok (st_bat s) && s_ok (st_inv s).

(* the status the tracker settles on, as a function of the facts it holds *)
Definition settled (now : Z) (s : state) : status :=
  if negb (both_ok s) then NotWorking
  else match st_last s with
       | NotWorking => Working
       | _ => if is_blocked now (st_blk s) then Uncertain else Working
       end.

Lemma current_status_fst : forall now s, fst (current_status now s) = settled now s.
Proof.
  intros now s. unfold current_status, settled, both_ok.
  destruct (negb (s_ok (st_bat s) && s_ok (st_inv s))); [reflexivity|].
  destruct (st_last s); try reflexivity; destruct (is_blocked now (st_blk s)); reflexivity.
Qed.

Lemma current_status_snd : forall now s,
  snd (current_status now s) =
  if both_ok s && status_eqb (st_last s) NotWorking then unblock (st_blk s) else st_blk s.
Proof.
  intros now s. unfold current_status, both_ok.
  destruct (s_ok (st_bat s) && s_ok (st_inv s)); cbn; [|reflexivity].
  destruct (st_last s); cbn; try reflexivity; destruct (is_blocked now (st_blk s)); reflexivity.
Qed.

Lemma finish_spec : forall now s,
  finish now s =
  (mkST (st_bat s) (st_inv s) (snd (current_status now s)) (settled now s),
   if status_eqb (st_last s) (settled now s) then None else Some (settled now s)).
Proof.
  intros now s. unfold finish.
  rewrite <- (current_status_fst now s).
  destruct (current_status now s) as [cur blk]. cbn [fst snd].
  destruct (status_eqb (st_last s) cur) eqn:E; [|reflexivity].
  apply status_eqb_eq in E. rewrite E. reflexivity.
Qed.

Lemma finish_bat : forall now s, st_bat (fst (finish now s)) = st_bat s.
Proof. intros. rewrite finish_spec. reflexivity. Qed.
Lemma finish_inv : forall now s, st_inv (fst (finish now s)) = st_inv s.
Proof. intros. rewrite finish_spec. reflexivity. Qed.
Lemma finish_last : forall now s, st_last (fst (finish now s)) = settled now s.
Proof. intros. rewrite finish_spec. reflexivity. Qed.

Lemma settled_usable : forall now s, settled now s <> NotWorking -> both_ok s = true.
Proof.
  intros now s H. unfold settled in H. destruct (both_ok s); [reflexivity|]. cbn in H. congruence.
Qed.

Lemma handle_set_power_bat : forall c now a b s, st_bat (handle_set_power c now a b s) = st_bat s.
Proof. intros. unfold handle_set_power. destruct a; [reflexivity|]. destruct (b && _); reflexivity. Qed.
Lemma handle_set_power_inv : forall c now a b s, st_inv (handle_set_power c now a b s) = st_inv s.
Proof. intros. unfold handle_set_power. destruct a; [reflexivity|]. destruct (b && _); reflexivity. Qed.
Lemma handle_set_power_last : forall c now a b s, st_last (handle_set_power c now a b s) = st_last s.
Proof. intros. unfold handle_set_power. destruct a; [reflexivity|]. destruct (b && _); reflexivity. Qed.

(* ------------------------------------------------------------------ which events evaluate the status *)
(* a timer tick that the late-timer filter discards leaves everything untouched *)
Definition skipped (c : cfg) (s : state) (now : Z) (e : event) : bool :=
  match e with
  | BatTimer => timer_is_late c now (st_bat s)
  | InvTimer => timer_is_late c now (st_inv s)
  | _ => false
  end.

(* the state just before `_get_new_status_if_changed` *)
Definition handled (c : cfg) (s : state) (now : Z) (e : event) : state :=
  match e with
  | BatMsg m => mkST (mkCS (bat_msg_ok c now m) (bm_ts m)) (st_inv s) (st_blk s) (st_last s)
  | InvMsg m => mkST (st_bat s) (mkCS (inv_msg_ok c now m) (im_ts m)) (st_blk s) (st_last s)
  | SetPower a b => handle_set_power c now a b s
  | BatTimer => mkST (mkCS false (s_ts (st_bat s))) (st_inv s) (st_blk s) (st_last s)
  | InvTimer => mkST (st_bat s) (mkCS false (s_ts (st_inv s))) (st_blk s) (st_last s)
  end.

Lemma step_spec : forall c s now e,
  step c s now e = if skipped c s now e then (s, None) else finish now (handled c s now e).
Proof. intros c s now []; cbn; try reflexivity. Qed.

Lemma handled_last : forall c s now e, st_last (handled c s now e) = st_last s.
Proof. intros c s now []; cbn; try reflexivity. apply handle_set_power_last. Qed.

(* ------------------------------------------------------------------ invariant 1: usable => both streams ok *)
Definition usable_ok (s : state) : Prop := st_last s <> NotWorking -> both_ok s = true.

Lemma step_usable_ok : forall c s now e, usable_ok s -> usable_ok (fst (step c s now e)).
Proof.
  intros c s now e H. rewrite step_spec. destruct (skipped c s now e); [exact H|].
  unfold usable_ok. rewrite finish_last. intro U. apply settled_usable in U.
  unfold both_ok in *. rewrite finish_bat, finish_inv. exact U.
Qed.

(* each output is the new last status and differs from the previous one *)
Lemma step_output : forall c s now e x,
  snd (step c s now e) = Some x -> st_last (fst (step c s now e)) = x /\ x <> st_last s.
Proof.
  intros c s now e x. rewrite step_spec. destruct (skipped c s now e); [discriminate|].
  rewrite finish_spec. cbn [fst snd st_last]. rewrite handled_last.
  destruct (status_eqb (st_last s) (settled now (handled c s now e))) eqn:E; [discriminate|].
  intro H. inversion H; subst. split; [reflexivity|]. apply status_eqb_neq in E. congruence.
Qed.

Lemma step_no_output : forall c s now e,
  snd (step c s now e) = None -> st_last (fst (step c s now e)) = st_last s.
Proof.
  intros c s now e. rewrite step_spec. destruct (skipped c s now e); [reflexivity|].
  rewrite finish_spec. cbn [fst snd st_last]. rewrite handled_last.
  destruct (status_eqb (st_last s) (settled now (handled c s now e))) eqn:E; [|discriminate].
  intros _. apply status_eqb_eq in E. congruence.
Qed.

(* ------------------------------------------------------------------ run *)
Lemma run_cons : forall c s now e tr,
  run c s ((now, e) :: tr) =
  (fst (run c (fst (step c s now e)) tr), snd (step c s now e) :: snd (run c (fst (step c s now e)) tr)).
Proof.
  intros. cbn [run]. destruct (step c s now e) as [s1 o]. cbn [fst snd].
  destruct (run c s1 tr) as [s2 os]. reflexivity.
Qed.

Lemma final_cons : forall c s now e tr, final c s ((now, e) :: tr) = final c (fst (step c s now e)) tr.
Proof. intros. unfold final. rewrite run_cons. reflexivity. Qed.

Lemma outputs_cons : forall c s now e tr,
  outputs c s ((now, e) :: tr) = snd (step c s now e) :: outputs c (fst (step c s now e)) tr.
Proof. intros. unfold outputs. rewrite run_cons. reflexivity. Qed.

Lemma final_app : forall c tr1 tr2 s, final c s (tr1 ++ tr2) = final c (final c s tr1) tr2.
Proof.
  intros c tr1. induction tr1 as [|[now e] tr1 IH]; intros tr2 s; [reflexivity|].
  rewrite <- app_comm_cons, !final_cons. apply IH.
Qed.

Lemma final_snoc : forall c s tr now e,
  final c s (tr ++ [(now, e)]) = fst (step c (final c s tr) now e).
Proof. intros. rewrite final_app. unfold final at 1. rewrite run_cons. reflexivity. Qed.

Lemma final_usable_ok : forall c tr s, usable_ok s -> usable_ok (final c s tr).
Proof.
  intros c tr. induction tr as [|[now e] tr IH]; intros s H; [exact H|].
  rewrite final_cons. apply IH. apply step_usable_ok. exact H.
Qed.

Lemma init_usable_ok : forall c ts0, usable_ok (init c ts0).
Proof. intros c ts0 H. cbn in H. congruence. Qed.

(* ------------------------------------------------------------------ last reported status = _last_status *)
Lemma last_cons_default : forall (A : Type) (l : list A) (x d : A), last (x :: l) d = last l x.
Proof.
  intros A l. induction l as [|y l IH]; intros x d; [reflexivity|].
  change (last (x :: y :: l) d) with (last (y :: l) d). rewrite (IH y d), (IH y x). reflexivity.
Qed.

Lemma last_notification_final : forall c tr s,
  last (notifications (outputs c s tr)) (st_last s) = st_last (final c s tr).
Proof.
  intros c tr. induction tr as [|[now e] tr IH]; intros s; [reflexivity|].
  rewrite outputs_cons, final_cons. cbn [notifications].
  destruct (snd (step c s now e)) as [x|] eqn:E.
  - rewrite last_cons_default. destruct (step_output _ _ _ _ _ E) as [L _]. rewrite <- L. apply IH.
  - rewrite <- (step_no_output _ _ _ _ E). apply IH.
Qed.

Lemma last_reported_final : forall c ts0 tr,
  last_reported (outputs c (init c ts0) tr) = st_last (final c (init c ts0) tr).
Proof. intros. unfold last_reported. apply (last_notification_final c tr (init c ts0)). Qed.

(* ------------------------------------------------------------------ only on change *)
Fixpoint no_repeat (prev : status) (l : list status) : Prop :=
  match l with
  | [] => True
  | x :: r => x <> prev /\ no_repeat x r
  end.

Lemma only_on_change_from : forall c tr s, no_repeat (st_last s) (notifications (outputs c s tr)).
Proof.
  intros c tr. induction tr as [|[now e] tr IH]; intros s; [exact I|].
  rewrite outputs_cons. cbn [notifications].
  destruct (snd (step c s now e)) as [x|] eqn:E.
  - destruct (step_output _ _ _ _ _ E) as [L N]. cbn [no_repeat]. split; [exact N|].
    rewrite <- L. apply IH.
  - rewrite <- (step_no_output _ _ _ _ E). apply IH.
Qed.

Lemma only_on_change : forall c ts0 tr,
  no_repeat NotWorking (notifications (outputs c (init c ts0) tr)).
Proof. intros. apply (only_on_change_from c tr (init c ts0)). Qed.

(* ------------------------------------------------------------------ evidence invariant (C16_safe) *)
(* The latest battery message of the history passed every validity predicate at the moment
   it was handled, and every battery-timer tick handled since then was a late one
   (discarded by the filter): no data time-out has been processed since. *)
Definition is_bat_msg (e : event) : Prop := exists m, e = BatMsg m.
Definition is_inv_msg (e : event) : Prop := exists m, e = InvMsg m.

Definition bat_evidence (c : cfg) (tr : trace) : Prop :=
  exists pre now m post,
    tr = pre ++ (now, BatMsg m) :: post /\
    bat_msg_ok c now m = true /\
    (forall t e, In (t, e) post -> ~ is_bat_msg e) /\
    (forall t, In (t, BatTimer) post -> t - bm_ts m < c_max_age c).

Definition inv_evidence (c : cfg) (tr : trace) : Prop :=
  exists pre now m post,
    tr = pre ++ (now, InvMsg m) :: post /\
    inv_msg_ok c now m = true /\
    (forall t e, In (t, e) post -> ~ is_inv_msg e) /\
    (forall t, In (t, InvTimer) post -> t - im_ts m < c_max_age c).

Definition bat_inv (c : cfg) (tr : trace) (s : state) : Prop :=
  s_ok (st_bat s) = true ->
  exists pre now m post,
    tr = pre ++ (now, BatMsg m) :: post /\
    bat_msg_ok c now m = true /\ s_ts (st_bat s) = bm_ts m /\
    (forall t e, In (t, e) post -> ~ is_bat_msg e) /\
    (forall t, In (t, BatTimer) post -> t - bm_ts m < c_max_age c).

Definition inv_inv (c : cfg) (tr : trace) (s : state) : Prop :=
  s_ok (st_inv s) = true ->
  exists pre now m post,
    tr = pre ++ (now, InvMsg m) :: post /\
    inv_msg_ok c now m = true /\ s_ts (st_inv s) = im_ts m /\
    (forall t e, In (t, e) post -> ~ is_inv_msg e) /\
    (forall t, In (t, InvTimer) post -> t - im_ts m < c_max_age c).

Lemma step_bat : forall c s now e,
  st_bat (fst (step c s now e)) =
  match e with
  | BatMsg m => mkCS (bat_msg_ok c now m) (bm_ts m)
  | BatTimer => if timer_is_late c now (st_bat s) then st_bat s else mkCS false (s_ts (st_bat s))
  | _ => st_bat s
  end.
Proof.
  intros c s now e. rewrite step_spec. destruct e; cbn [skipped handled].
  - rewrite finish_bat. reflexivity.
  - rewrite finish_bat. reflexivity.
  - destruct (timer_is_late c now (st_bat s)); [reflexivity|]. rewrite finish_bat. reflexivity.
  - destruct (timer_is_late c now (st_inv s)); [reflexivity|]. rewrite finish_bat. reflexivity.
  - rewrite finish_bat. apply handle_set_power_bat.
Qed.

Lemma step_inv : forall c s now e,
  st_inv (fst (step c s now e)) =
  match e with
  | InvMsg m => mkCS (inv_msg_ok c now m) (im_ts m)
  | InvTimer => if timer_is_late c now (st_inv s) then st_inv s else mkCS false (s_ts (st_inv s))
  | _ => st_inv s
  end.
Proof.
  intros c s now e. rewrite step_spec. destruct e; cbn [skipped handled].
  - rewrite finish_inv. reflexivity.
  - rewrite finish_inv. reflexivity.
  - destruct (timer_is_late c now (st_bat s)); [reflexivity|]. rewrite finish_inv. reflexivity.
  - destruct (timer_is_late c now (st_inv s)); [reflexivity|]. rewrite finish_inv. reflexivity.
  - rewrite finish_inv. apply handle_set_power_inv.
Qed.

Lemma in_snoc : forall (A : Type) (l : list A) (x y : A), In y (l ++ [x]) -> In y l \/ y = x.
Proof. intros A l x y H. apply in_app_or in H. destruct H as [H|[H|[]]]; [left|right]; auto. Qed.

Lemma bat_inv_step : forall c tr s now e,
  bat_inv c tr s -> bat_inv c (tr ++ [(now, e)]) (fst (step c s now e)).
Proof.
  intros c tr s now e IH. unfold bat_inv. rewrite step_bat.
  (* the generic "battery stream untouched, event is neither a battery message nor a battery tick" case *)
  assert (KEEP : (forall m, e <> BatMsg m) -> e <> BatTimer ->
                 s_ok (st_bat s) = true ->
                 exists pre now0 m post,
                   tr ++ [(now, e)] = pre ++ (now0, BatMsg m) :: post /\
                   bat_msg_ok c now0 m = true /\ s_ts (st_bat s) = bm_ts m /\
                   (forall t e0, In (t, e0) post -> ~ is_bat_msg e0) /\
                   (forall t, In (t, BatTimer) post -> t - bm_ts m < c_max_age c)).
  { intros NB NT OK. destruct (IH OK) as (pre & now0 & m & post & Etr & Hok & Hts & Hnb & Hnt).
    exists pre, now0, m, (post ++ [(now, e)]). repeat split; try assumption.
    - rewrite Etr, <- app_assoc. reflexivity.
    - intros t e0 Hin. apply in_snoc in Hin. destruct Hin as [Hin|Heq]; [eapply Hnb; eauto|].
      inversion Heq; subst. intros [m' Hm']. exact (NB m' Hm').
    - intros t Hin. apply in_snoc in Hin. destruct Hin as [Hin|Heq]; [auto|].
      inversion Heq; subst. congruence. }
  destruct e as [m| |  | |a b].
  - (* BatMsg *) cbn [s_ok s_ts]. intro OK. exists tr, now, m, [].
    split; [reflexivity|]. split; [exact OK|]. split; [reflexivity|].
    split; [intros t e0 []|intros t []].
  - apply KEEP; intros; discriminate.
  - (* BatTimer *) destruct (timer_is_late c now (st_bat s)) eqn:L; [|cbn; discriminate].
    intro OK. destruct (IH OK) as (pre & now0 & m & post & Etr & Hok & Hts & Hnb & Hnt).
    exists pre, now0, m, (post ++ [(now, BatTimer)]). repeat split; try assumption.
    + rewrite Etr, <- app_assoc. reflexivity.
    + intros t e0 Hin. apply in_snoc in Hin. destruct Hin as [Hin|Heq]; [eapply Hnb; eauto|].
      inversion Heq; subst. intros [m' Hm']. discriminate.
    + intros t Hin. apply in_snoc in Hin. destruct Hin as [Hin|Heq]; [auto|].
      inversion Heq; subst. unfold timer_is_late in L. rewrite Hts in L. lia.
  - apply KEEP; intros; discriminate.
  - apply KEEP; intros; discriminate.
Qed.

Lemma inv_inv_step : forall c tr s now e,
  inv_inv c tr s -> inv_inv c (tr ++ [(now, e)]) (fst (step c s now e)).
Proof.
  intros c tr s now e IH. unfold inv_inv. rewrite step_inv.
  assert (KEEP : (forall m, e <> InvMsg m) -> e <> InvTimer ->
                 s_ok (st_inv s) = true ->
                 exists pre now0 m post,
                   tr ++ [(now, e)] = pre ++ (now0, InvMsg m) :: post /\
                   inv_msg_ok c now0 m = true /\ s_ts (st_inv s) = im_ts m /\
                   (forall t e0, In (t, e0) post -> ~ is_inv_msg e0) /\
                   (forall t, In (t, InvTimer) post -> t - im_ts m < c_max_age c)).
  { intros NB NT OK. destruct (IH OK) as (pre & now0 & m & post & Etr & Hok & Hts & Hnb & Hnt).
    exists pre, now0, m, (post ++ [(now, e)]). repeat split; try assumption.
    - rewrite Etr, <- app_assoc. reflexivity.
    - intros t e0 Hin. apply in_snoc in Hin. destruct Hin as [Hin|Heq]; [eapply Hnb; eauto|].
      inversion Heq; subst. intros [m' Hm']. exact (NB m' Hm').
    - intros t Hin. apply in_snoc in Hin. destruct Hin as [Hin|Heq]; [auto|].
      inversion Heq; subst. congruence. }
  destruct e as [m|m| | |a b].
  - apply KEEP; intros; discriminate.
  - (* InvMsg *) cbn [s_ok s_ts]. intro OK. exists tr, now, m, [].
    split; [reflexivity|]. split; [exact OK|]. split; [reflexivity|].
    split; [intros t e0 []|intros t []].
  - apply KEEP; intros; discriminate.
  - (* InvTimer *) destruct (timer_is_late c now (st_inv s)) eqn:L; [|cbn; discriminate].
    intro OK. destruct (IH OK) as (pre & now0 & m & post & Etr & Hok & Hts & Hnb & Hnt).
    exists pre, now0, m, (post ++ [(now, InvTimer)]). repeat split; try assumption.
    + rewrite Etr, <- app_assoc. reflexivity.
    + intros t e0 Hin. apply in_snoc in Hin. destruct Hin as [Hin|Heq]; [eapply Hnb; eauto|].
      inversion Heq; subst. intros [m' Hm']. discriminate.
    + intros t Hin. apply in_snoc in Hin. destruct Hin as [Hin|Heq]; [auto|].
      inversion Heq; subst. unfold timer_is_late in L. rewrite Hts in L. lia.
  - apply KEEP; intros; discriminate.
Qed.

Lemma evidence_inv : forall c ts0 tr,
  bat_inv c tr (final c (init c ts0) tr) /\ inv_inv c tr (final c (init c ts0) tr).
Proof.
  intros c ts0 tr. induction tr as [|[now e] tr IH] using rev_ind.
  - split; intro H; cbn in H; discriminate.
  - rewrite final_snoc. destruct IH as [B I]. split; [apply bat_inv_step|apply inv_inv_step]; assumption.
Qed.

Theorem safe : forall c ts0 tr,
  last_reported (outputs c (init c ts0) tr) <> NotWorking ->
  bat_evidence c tr /\ inv_evidence c tr.
Proof.
  intros c ts0 tr H. rewrite last_reported_final in H.
  pose proof (final_usable_ok c tr _ (init_usable_ok c ts0) H) as OK.
  unfold both_ok in OK. apply andb_prop in OK. destruct OK as [OKb OKi].
  destruct (evidence_inv c ts0 tr) as [B I].
  destruct (B OKb) as (pre & now & m & post & E1 & E2 & _ & E3 & E4).
  destruct (I OKi) as (pre' & now' & m' & post' & F1 & F2 & _ & F3 & F4).
  split; [exists pre, now, m, post|exists pre', now', m', post']; repeat split; assumption.
Qed.

(* ------------------------------------------------------------------ immediacy *)
(* an event that disqualifies the battery: a message failing any predicate, or a data
   timer tick that the late filter does not discard *)
Definition disqualifying (c : cfg) (s : state) (now : Z) (e : event) : Prop :=
  match e with
  | BatMsg m => bat_msg_ok c now m = false
  | InvMsg m => inv_msg_ok c now m = false
  | BatTimer => c_max_age c <= now - s_ts (st_bat s)
  | InvTimer => c_max_age c <= now - s_ts (st_inv s)
  | SetPower _ _ => False
  end.

Lemma immediate : forall c s now e,
  disqualifying c s now e ->
  st_last (fst (step c s now e)) = NotWorking /\
  (st_last s <> NotWorking -> snd (step c s now e) = Some NotWorking).
Proof.
  intros c s now e D.
  assert (SK : skipped c s now e = false).
  { destruct e; cbn in *; try reflexivity; unfold timer_is_late; lia. }
  assert (NB : both_ok (handled c s now e) = false).
  { unfold both_ok. destruct e; cbn in *; try rewrite D; try reflexivity;
      try apply andb_false_r; contradiction. }
  rewrite step_spec, SK, finish_spec. cbn [fst snd st_last].
  assert (ST : settled now (handled c s now e) = NotWorking).
  { unfold settled. rewrite NB. reflexivity. }
  rewrite ST. split; [reflexivity|]. intro U. rewrite handled_last.
  destruct (status_eqb (st_last s) NotWorking) eqn:E; [|reflexivity].
  apply status_eqb_eq in E. contradiction.
Qed.

(* what every predicate of a healthy message means, spelled out *)
Lemma bat_msg_ok_spec : forall c now m,
  bat_msg_ok c now m = true <->
  now - bm_ts m <= c_max_age c /\
  mem_str (bm_state m) battery_valid_state = true /\
  mem_str (bm_relay m) battery_valid_relay = true /\
  mem_str critical_level (bm_errors m) = false /\
  bm_cap m = true.
Proof.
  intros c now m. unfold bat_msg_ok, reliable, battery_state_correct, no_critical.
  rewrite !andb_true_iff, !negb_true_iff. split.
  - intros [[[R [S1 S2]] E] C]. repeat split; try assumption. lia.
  - intros (R & S1 & S2 & E & C). repeat split; try assumption. lia.
Qed.

Lemma inv_msg_ok_spec : forall c now m,
  inv_msg_ok c now m = true <->
  now - im_ts m <= c_max_age c /\
  mem_str (im_state m) inverter_valid_state = true /\
  mem_str critical_level (im_errors m) = false.
Proof.
  intros c now m. unfold inv_msg_ok, reliable, inverter_state_correct, no_critical.
  rewrite !andb_true_iff, !negb_true_iff. split.
  - intros [[R S1] E]. repeat split; try assumption. lia.
  - intros (R & S1 & E). repeat split; try assumption. lia.
Qed.

(* ------------------------------------------------------------------ the reported status, exactly *)
Lemma step_status : forall c s now e,
  skipped c s now e = false ->
  st_last (fst (step c s now e)) = settled now (handled c s now e).
Proof. intros c s now e SK. rewrite step_spec, SK. apply finish_last. Qed.

Lemma step_blk : forall c s now e,
  skipped c s now e = false ->
  st_blk (fst (step c s now e)) =
  let h := handled c s now e in
  if both_ok h && status_eqb (st_last s) NotWorking then unblock (st_blk h) else st_blk h.
Proof.
  intros c s now e SK. rewrite step_spec, SK, finish_spec. cbn [fst st_blk].
  rewrite current_status_snd, handled_last. reflexivity.
Qed.

(* blocked and healthy => UNCERTAIN; not blocked and healthy => WORKING *)
Lemma uncertain : forall c s now e,
  skipped c s now e = false ->
  let s' := fst (step c s now e) in
  both_ok s' = true -> st_last s <> NotWorking ->
  st_last s' = if is_blocked now (st_blk s') then Uncertain else Working.
Proof.
  intros c s now e SK s' OK U. subst s'.
  assert (OKh : both_ok (handled c s now e) = true).
  { revert OK. rewrite step_spec, SK. unfold both_ok. rewrite finish_bat, finish_inv. auto. }
  rewrite (step_blk _ _ _ _ SK). cbn zeta.
  rewrite (step_status _ _ _ _ SK). unfold settled. rewrite OKh, handled_last. cbn [negb].
  assert (E : status_eqb (st_last s) NotWorking = false) by (apply status_eqb_neq; exact U).
  rewrite E, andb_false_r. destruct (st_last s); [contradiction| |]; reflexivity.
Qed.

(* recovery: a not-working battery whose data become healthy is WORKING at once and unblocked *)
Lemma recover : forall c s now e,
  skipped c s now e = false ->
  let s' := fst (step c s now e) in
  both_ok s' = true -> st_last s = NotWorking ->
  st_last s' = Working /\ b_until (st_blk s') = None.
Proof.
  intros c s now e SK s' OK U. subst s'.
  assert (OKh : both_ok (handled c s now e) = true).
  { revert OK. rewrite step_spec, SK. unfold both_ok. rewrite finish_bat, finish_inv. auto. }
  rewrite (step_blk _ _ _ _ SK). cbn zeta.
  rewrite (step_status _ _ _ _ SK). unfold settled. rewrite OKh, handled_last, U. cbn. auto.
Qed.

(* ------------------------------------------------------------------ membership in the translated tables *)
Lemma mem_str_In : forall s l, mem_str s l = true <-> In s l.
Proof.
  intros s l. unfold mem_str. rewrite existsb_exists. split.
  - intros [y [Hin E]]. apply String.eqb_eq in E. subst. exact Hin.
  - intro Hin. exists s. split; [exact Hin|apply String.eqb_refl].
Qed.
