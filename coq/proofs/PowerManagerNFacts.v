(* Facts about the multi-group power manager model (model/PowerManagerN.v). *)
From Coq Require Import Lia.
From Verif Require Import model.PowerManagerN proofs.MatryoshkaFacts proofs.PowerManagerFacts.

Definition NInv (st : pmn) : Prop := Forall PMinv (n_groups st).

Definition wf_nevent (ev : nevent) : Prop :=
  match ev with NE _ (PTick _) => False | NE _ e => wf_event e | NTick _ => True | NRestart => True end.

Lemma upd_Forall {A} (P : A -> Prop) l k x : Forall P l -> P x -> Forall P (upd l k x).
Proof.
  revert k; induction l as [|y l IH]; intros k Hl Hx; [constructor|].
  inversion Hl as [|? ? Hy Hr]; subst. destruct k as [|k]; cbn [upd]; constructor; auto.
Qed.

Lemma upd_nth_same {A} (l : list A) k x g : nth_error l k = Some g -> nth_error (upd l k x) k = Some x.
Proof.
  revert k; induction l as [|y l IH]; intros [|k] H; cbn in *; try discriminate; auto.
Qed.

Lemma upd_nth_other {A} (l : list A) k j x : j <> k -> nth_error (upd l k x) j = nth_error l j.
Proof.
  revert k j; induction l as [|y l IH]; intros [|k] [|j] H; cbn; auto; try congruence.
Qed.

Lemma upd_length {A} (l : list A) k x : length (upd l k x) = length l.
Proof. revert k; induction l as [|y l IH]; intros [|k]; cbn; auto. Qed.

Lemma PMinv_with_pf g b : PMinv g -> PMinv (with_pf g b).
Proof. intros (a & c & d); repeat split; assumption. Qed.

Lemma tick_pm_inv ma1 ma2 now g : PMinv g -> PMinv (tick_pm ma1 ma2 now g).
Proof.
  intros (Hr & Ho & Hw). repeat split; cbn; try assumption; unfold Ginv, expire_grp in *; cbn; assumption.
Qed.

(* what a step may output: a request of group k that equals the sum of group k's two stored
   targets and lies within group k's inclusion bounds in force *)
Definition nreq_ok (st' : pmn) (o : option (nat * option Z * bool)) : Prop :=
  match o with
  | None => True
  | Some (k, r, _) => exists g', nth_error (n_groups st') k = Some g' /\ req_ok g' r
  end.

Lemma nstep_inv ma1 ma2 st ev :
  NInv st -> wf_nevent ev ->
  let '(st', o) := nstep ma1 ma2 st ev in NInv st' /\ nreq_ok st' o.
Proof.
  intros Hinv Hwf. destruct ev as [k e|now|]; cbn [nstep].
  - destruct (nth_error (n_groups st) k) as [g|] eqn:Hk; [|split; [assumption|exact I]].
    assert (Hg : PMinv g).
    { unfold NInv in Hinv. rewrite Forall_forall in Hinv. apply Hinv. eapply nth_error_In; eassumption. }
    assert (He : wf_event e) by (destruct e; cbn in Hwf; cbn; tauto).
    pose proof (pstep_inv ma1 ma2 (with_pf g (n_pf st)) e (PMinv_with_pf g (n_pf st) Hg) He) as H.
    destruct (pstep ma1 ma2 (with_pf g (n_pf st)) e) as [[g' r] rep]. destruct H as [Hg' Hreq].
    split.
    + unfold NInv; cbn. apply upd_Forall; assumption.
    + cbn. exists g'. split; [eapply upd_nth_same; eassumption|assumption].
  - split; [|exact I]. unfold NInv in *; cbn. rewrite Forall_forall in *. intros x Hx.
    apply in_map_iff in Hx. destruct Hx as (g & <- & Hin). apply tick_pm_inv. auto.
  - split; [exact Hinv|exact I].
Qed.

(* all requests along a history, with the group and the state they were sent from *)
Fixpoint nrequests (ma1 ma2 : Z) (st : pmn) (h : list nevent) : list (pmn * nat * Z) :=
  match h with
  | [] => []
  | ev :: h' =>
      let '(st', o) := nstep ma1 ma2 st ev in
      match o with Some (k, Some x, _) => [(st', k, x)] | _ => [] end ++ nrequests ma1 ma2 st' h'
  end.

Lemma nrequests_ok ma1 ma2 h : forall st,
  NInv st -> Forall wf_nevent h ->
  Forall (fun '(st', k, x) =>
            exists g, nth_error (n_groups st') k = Some g /\
                      x = opt0 (g_target (pm_reg g)) + opt0 (g_target (pm_op g)) /\ incl_ok (pm_sys g) x)
         (nrequests ma1 ma2 st h).
Proof.
  induction h as [|ev h IH]; intros st Hinv Hwf; cbn [nrequests]; [constructor|].
  inversion Hwf as [|? ? He Hh]; subst.
  pose proof (nstep_inv ma1 ma2 st ev Hinv He) as H.
  destruct (nstep ma1 ma2 st ev) as [st' o]. destruct H as [Hinv' Hreq].
  apply Forall_app. split; [|apply IH; assumption].
  destruct o as [[[k r] rep]|]; [|constructor]. destruct r as [x|]; [|constructor].
  constructor; [|constructor]. cbn in Hreq. destruct Hreq as (g' & Hn & Hr). exists g'. split; [assumption|exact Hr].
Qed.

Lemma pmn_init_inv n : NInv (pmn_init n).
Proof. unfold NInv, pmn_init; cbn. apply Forall_forall. intros x Hx. apply repeat_spec in Hx. subst. exact pm_init_inv. Qed.

(* an event of group k leaves the buckets, stored targets and bounds of every other group alone,
   and never changes the number of groups *)
Lemma nstep_other_groups ma1 ma2 st k e j :
  j <> k -> nth_error (n_groups (fst (nstep ma1 ma2 st (NE k e)))) j = nth_error (n_groups st) j.
Proof.
  intros Hj. cbn [nstep]. destruct (nth_error (n_groups st) k) as [g|]; [|reflexivity].
  destruct (pstep ma1 ma2 (with_pf g (n_pf st)) e) as [[g' r] rep]. cbn. apply upd_nth_other. assumption.
Qed.

Lemma nstep_length ma1 ma2 st ev : length (n_groups (fst (nstep ma1 ma2 st ev))) = length (n_groups st).
Proof.
  destruct ev as [k e|now|]; cbn [nstep].
  - destruct (nth_error (n_groups st) k) as [g|]; [|reflexivity].
    destruct (pstep ma1 ma2 (with_pf g (n_pf st)) e) as [[g' r] rep]. cbn. apply upd_length.
  - cbn. apply map_length.
  - reflexivity.
Qed.

(* a restart of the actor changes no group at all *)
Lemma nrestart_keeps_groups ma1 ma2 st : n_groups (fst (nstep ma1 ma2 st NRestart)) = n_groups st.
Proof. reflexivity. Qed.

(* a timer tick changes no stored target and no bounds, in any group *)
Lemma ntick_keeps_targets ma1 ma2 st now j g :
  nth_error (n_groups st) j = Some g ->
  exists g', nth_error (n_groups (fst (nstep ma1 ma2 st (NTick now)))) j = Some g' /\
             g_target (pm_reg g') = g_target (pm_reg g) /\ g_target (pm_op g') = g_target (pm_op g) /\
             pm_sys g' = pm_sys g.
Proof.
  intros H. cbn. exists (tick_pm ma1 ma2 now g). split; [apply map_nth_error; assumption|]. cbn. auto.
Qed.
