(* C09: the abstract sliding map, read declaratively: after ANY history its newest slot is the
   largest slot that occurred and each slot of the window ending there holds the value written to
   it last (None if never written or written as missing); everything else is empty.  Rejected
   updates are exactly those that cannot matter for this reading. *)
From Coq Require Import Lia ZifyBool.
From Verif Require Import model.RingBuffer model.RingBufferSpec.

Lemma hist_max_snoc : forall h x,
  hist_max (h ++ [x]) = Some (match hist_max h with Some n => Z.max n (fst x) | None => fst x end).
Proof. intros. unfold hist_max. rewrite fold_left_app. reflexivity. Qed.

Lemma last_write_snoc : forall j h x,
  last_write j (h ++ [x]) = if fst x =? j then snd x else last_write j h.
Proof. intros. unfold last_write. rewrite fold_left_app. reflexivity. Qed.

Lemma spec_run_snoc : forall c a h x, spec_run c a (h ++ [x]) = spec_step c (spec_run c a h) x.
Proof. intros. unfold spec_run. rewrite fold_left_app. reflexivity. Qed.

Lemma spec_run_declarative : forall c h, 0 < c ->
  let a := spec_run c spec_init h in
  s_new a = hist_max h /\
  (forall j, last_write j h <> None -> exists N, hist_max h = Some N /\ j <= N) /\
  (forall j, s_map a j = match hist_max h with
                         | Some N => if N - c + 1 <=? j then last_write j h else None
                         | None => None
                         end).
Proof.
  intros c h Hc. cbv zeta. induction h as [|[k v] h IH] using rev_ind.
  - cbn. split; [reflexivity|]. split; [intros j H; congruence|reflexivity].
  - destruct IH as (Hn & Hw & Hm).
    rewrite spec_run_snoc, hist_max_snoc. cbn [fst snd].
    set (a := spec_run c spec_init h) in *.
    unfold spec_step, spec_update. cbn [fst snd]. rewrite Hn.
    destruct (hist_max h) as [N|] eqn:EN.
    + destruct (k <? N - c + 1) eqn:Erej.
      * (* rejected: nothing changes, and nothing should *)
        replace (Z.max N k) with N by lia.
        split; [exact Hn|]. split.
        -- intros j Hj. rewrite last_write_snoc in Hj. cbn [fst snd] in Hj.
           destruct (k =? j) eqn:E; [exists N; split; [reflexivity|lia]|].
           destruct (Hw j Hj) as [N' [HN' Hle]]. exists N. split; [reflexivity|]. congruence.
        -- intros j. rewrite Hm, last_write_snoc. cbn [fst snd].
           destruct (N - c + 1 <=? j) eqn:E1; [|reflexivity].
           destruct (k =? j) eqn:E2; [lia|reflexivity].
      * cbn [s_new s_map]. split; [reflexivity|]. split.
        -- intros j Hj. rewrite last_write_snoc in Hj. cbn [fst snd] in Hj.
           exists (Z.max N k). split; [reflexivity|].
           destruct (k =? j) eqn:E; [lia|]. destruct (Hw j Hj) as [N' [HN' Hle]]. injection HN' as <-. lia.
        -- intros j. rewrite last_write_snoc. cbn [fst snd].
           destruct (j =? k) eqn:E.
           ++ assert (j = k) by lia. subst j. rewrite Z.eqb_refl.
              destruct (Z.max N k - c + 1 <=? k) eqn:E1; [reflexivity|lia].
           ++ destruct (k =? j) eqn:E'; [lia|].
              destruct (j <? Z.max N k - c + 1) eqn:E2.
              ** destruct (Z.max N k - c + 1 <=? j) eqn:E3; [lia|reflexivity].
              ** destruct (Z.max N k - c + 1 <=? j) eqn:E3; [|lia].
                 rewrite Hm. destruct (N - c + 1 <=? j) eqn:E4; [reflexivity|lia].
    + (* first update *)
      cbn [s_new s_map]. split; [reflexivity|]. split.
      * intros j Hj. rewrite last_write_snoc in Hj. cbn [fst snd] in Hj. exists k. split; [reflexivity|].
        destruct (k =? j) eqn:E; [lia|]. destruct (Hw j Hj) as [N' [HN' _]]. discriminate.
      * intros j. rewrite last_write_snoc. cbn [fst snd].
        destruct (j =? k) eqn:E.
        -- assert (j = k) by lia. subst j. rewrite Z.eqb_refl. destruct (k - c + 1 <=? k) eqn:E1; [reflexivity|lia].
        -- destruct (k =? j) eqn:E'; [lia|].
           destruct (j <? k - c + 1) eqn:E2.
           ++ destruct (k - c + 1 <=? j) eqn:E3; [lia|reflexivity].
           ++ rewrite Hm. destruct (k - c + 1 <=? j) eqn:E3; [|reflexivity].
              destruct (last_write j h) eqn:El; [|reflexivity].
              destruct (Hw j ltac:(congruence)) as [N' [HN' _]]. discriminate.
Qed.
