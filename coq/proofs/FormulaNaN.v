(* Formula engine (C13): NaN/None propagation, "missing = 0" on zero-configured streams, and a
   sample for every round.  Everything here holds for EVERY rounding function [rnd]. *)
From Coq Require Import ZArith NArith QArith List Bool Lia.
From Verif Require Import model.Common gen.Formula model.Formula proofs.FormulaFacts proofs.FormulaHO.
Import ListNotations.
Local Open Scope list_scope.

(* ------------------------------------------------------------------ every operator, both positions *)
Section Ops.
Variable rnd : Q -> val.

Lemma vadd_nan_l b : vadd rnd NaN b = NaN.  Proof. reflexivity. Qed.
Lemma vadd_nan_r a : vadd rnd a NaN = NaN.  Proof. destruct a; reflexivity. Qed.
Lemma vsub_nan_l b : vsub rnd NaN b = NaN.  Proof. destruct b; reflexivity. Qed.
Lemma vsub_nan_r a : vsub rnd a NaN = NaN.  Proof. destruct a; reflexivity. Qed.
Lemma vmul_nan_l b : vmul rnd NaN b = NaN.  Proof. reflexivity. Qed.
Lemma vmul_nan_r a : vmul rnd a NaN = NaN.  Proof. destruct a; reflexivity. Qed.
Lemma vdiv_nan_l b : vdiv rnd NaN b = NaN.
Proof. destruct b as [y| | |]; cbn; try reflexivity. destruct (Qeq_bool y 0); reflexivity. Qed.
Lemma vdiv_nan_r a : vdiv rnd a NaN = NaN.  Proof. reflexivity. Qed.
Lemma vmax_nan_l b : vmax NaN b = NaN.  Proof. reflexivity. Qed.
Lemma vmax_nan_r a : vmax a NaN = NaN.  Proof. unfold vmax. cbn. rewrite orb_true_r. reflexivity. Qed.
Lemma vmin_nan_l b : vmin NaN b = NaN.  Proof. reflexivity. Qed.
Lemma vmin_nan_r a : vmin a NaN = NaN.  Proof. unfold vmin. cbn. rewrite orb_true_r. reflexivity. Qed.
Lemma vcons_nan : vcons NaN = NaN.  Proof. reflexivity. Qed.
Lemma vprod_nan : vprod NaN = NaN.  Proof. reflexivity. Qed.
Lemma vclip_nan lo hi : vclip lo hi NaN = NaN.
Proof. unfold vclip. destruct lo as [l|], hi as [h|]; cbn; try reflexivity; try (destruct l; reflexivity).
  - destruct l; cbn; destruct h; reflexivity.
  - destruct h; reflexivity.
Qed.
(* a zero divisor gives the undefined value, whatever the dividend *)
Lemma vdiv_zero a y : Qeq y 0 -> vdiv rnd a (Num y) = NaN.
Proof. intros H. unfold vdiv. apply Qeq_bool_iff in H. rewrite H. reflexivity. Qed.

Lemma vapp_nan_l o b : vapp rnd o NaN b = NaN.
Proof. destruct o; [apply vadd_nan_l|apply vsub_nan_l|apply vmul_nan_l|apply vdiv_nan_l]. Qed.
Lemma vapp_nan_r o a : vapp rnd o a NaN = NaN.
Proof. destruct o; [apply vadd_nan_r|apply vsub_nan_r|apply vmul_nan_r|apply vdiv_nan_r]. Qed.
Lemma happ_nan_l o b : happ rnd o NaN b = NaN.
Proof. destruct o; [apply vapp_nan_l|apply vmax_nan_l|apply vmin_nan_l]. Qed.
Lemma happ_nan_r o a : happ rnd o a NaN = NaN.
Proof. destruct o; [apply vapp_nan_r|apply vmax_nan_r|apply vmin_nan_r]. Qed.
Lemma hunapp_nan u : hunapp u NaN = NaN.
Proof. destruct u; reflexivity. Qed.

(* ------------------------------------------------------------------ any post-fix program *)
Definition has_nan (st : list val) : Prop := In NaN st.

Lemma step_keeps_nan fv s st st' :
  has_nan st -> exec_step rnd fv s st = Some st' -> has_nan st'.
Proof.
  unfold has_nan. intros H E.
  assert (B : forall f, (forall b, f NaN b = NaN) -> (forall a, f a NaN = NaN) ->
                        bin2 f st = Some st' -> In NaN st').
  { intros f Hl Hr E'. destruct st as [|v2 [|v1 r]]; cbn in E'; try discriminate.
    injection E' as <-. destruct H as [->|[->|H]]; [left; apply Hr|left; apply Hl|right; exact H]. }
  assert (U : forall f, f NaN = NaN -> un1 f st = Some st' -> In NaN st').
  { intros f Hf E'. destruct st as [|v r]; cbn in E'; try discriminate.
    injection E' as <-. destruct H as [->|H]; [left; exact Hf|right; exact H]. }
  destruct s; cbn in E.
  - apply (B _ vadd_nan_l vadd_nan_r E).
  - apply (B _ vsub_nan_l vsub_nan_r E).
  - apply (B _ vmul_nan_l vmul_nan_r E).
  - apply (B _ vdiv_nan_l vdiv_nan_r E).
  - apply (B _ vmax_nan_l vmax_nan_r E).
  - apply (B _ vmin_nan_l vmin_nan_r E).
  - apply (U _ vcons_nan E).
  - apply (U _ vprod_nan E).
  - injection E as <-. exact H.
  - injection E as <-. right. exact H.
  - apply (U _ (vclip_nan lo hi) E).
  - injection E as <-. right. exact H.
Qed.

Lemma exec_keeps_nan fv p : forall st st', has_nan st -> exec rnd fv p st = Some st' -> has_nan st'.
Proof.
  induction p as [|s p IH]; intros st st' H E; cbn in E.
  - injection E as <-. exact H.
  - destruct (exec_step rnd fv s st) as [st1|] eqn:E1; [|discriminate].
    apply (IH st1 st'); [|exact E]. apply (step_keeps_nan fv s st st1 H E1).
Qed.

(* A missing (NaN) fetched value reaches the result of ANY post-fix program over the eleven
   step kinds, whatever the operators between are and on whichever side it enters. *)
Lemma exec_fetch_nan fv p n : In (SFetch n) p -> fv n = NaN ->
  forall st st', exec rnd fv p st = Some st' -> has_nan st'.
Proof.
  induction p as [|s p IH]; intros Hin Hn st st' E; [destruct Hin|].
  cbn in E. destruct (exec_step rnd fv s st) as [st1|] eqn:E1; [|discriminate].
  destruct Hin as [->|Hin].
  - cbn in E1. injection E1 as <-. apply (exec_keeps_nan fv p (fv n :: st) st'); [left; exact Hn|exact E].
  - apply (IH Hin Hn st1 st' E).
Qed.

Lemma finish_nan_never_value r q : (forall st, r = Some st -> has_nan st) -> finish r <> Emit (Some q).
Proof.
  intros H E. destruct r as [[|v l]|]; cbn in E; try discriminate.
  destruct v, l; try discriminate. destruct (H _ eq_refl) as [F|[]]. discriminate.
Qed.
End Ops.

(* ------------------------------------------------------------------ builder trees *)
Section Trees.
Variable rnd : Q -> val.

Lemma hval_strict fv b n : In n (hb_engines b) -> fv n = NaN -> hval rnd fv b = NaN.
Proof.
  intros Hin Hn. induction b as [m|b IH o m|b IH o c|b IH o b' IH'|b IH u]; cbn in *.
  - destruct Hin as [->|[]]. exact Hn.
  - apply in_app_or in Hin. destruct Hin as [H|[->|[]]].
    + rewrite (IH H). apply happ_nan_l.
    + rewrite Hn. apply happ_nan_r.
  - rewrite (IH Hin). apply happ_nan_l.
  - apply in_app_or in Hin. destruct Hin as [H|H].
    + rewrite (IH H). apply happ_nan_l.
    + rewrite (IH' H). apply happ_nan_r.
  - rewrite (IH Hin). apply hunapp_nan.
Qed.

Lemma hval_ext fv1 fv2 b : (forall n, In n (hb_engines b) -> fv1 n = fv2 n) -> hval rnd fv1 b = hval rnd fv2 b.
Proof.
  induction b as [m|b IH o m|b IH o c|b IH o b' IH'|b IH u]; intros H; cbn in *.
  - apply H. left. reflexivity.
  - rewrite IH, (H m); [reflexivity|apply in_or_app; right; left; reflexivity|].
    intros n Hn. apply H, in_or_app. left. exact Hn.
  - rewrite IH; [reflexivity|exact H].
  - rewrite IH, IH'; [reflexivity| |]; intros n Hn; apply H, in_or_app; [right|left]; exact Hn.
  - rewrite IH; [reflexivity|exact H].
Qed.

Definition numval (i : inp) : Q := match i with IVal q => q | _ => 0%Q end.
Definition not_finite (v : val) : Prop := is_nan v || is_inf v = true.

Lemma finish_single v : finish (Some [v]) = Emit None <-> not_finite v.
Proof. unfold not_finite. destruct v; cbn; split; intros H; try reflexivity; try discriminate. Qed.

(* a sample (value or None) for every round: the engine never loses a timestamp *)
Theorem hb_always_emits nz b env : run_round rnd (compile_hb nz b) env <> Dropped.
Proof. rewrite run_round_hb. destruct (hval _ _ b); discriminate. Qed.

Definition needed_missing (nz : bool) (env : N -> inp) (b : hb) : Prop :=
  exists n, In n (hb_engines b) /\ missing (env n) = true /\ nz = false.

Lemma needed_missing_dec nz env b :
  needed_missing nz env b \/
  (forall n, In n (hb_engines b) -> fetch_val nz (env n) = Num (numval (env n))).
Proof.
  unfold needed_missing. induction (hb_engines b) as [|m l IH].
  - right. intros n [].
  - destruct IH as [(n & Hin & H)|IH].
    + left. exists n. split; [right; exact Hin|exact H].
    + destruct (missing (env m)) eqn:Em.
      * destruct nz.
        -- right. intros n [<-|Hn]; [|apply IH, Hn]. destruct (env m); reflexivity.
        -- left. exists m. repeat split; [left; reflexivity|exact Em].
      * right. intros n [<-|Hn]; [|apply IH, Hn]. destruct (env m); try discriminate. reflexivity.
Qed.

(* None exactly when a needed input is missing on a stream not configured as zero, or the
   value of the tree on the (zero-filled) inputs is undefined / not finite *)
Theorem hb_none_iff nz b env :
  run_round rnd (compile_hb nz b) env = Emit None <->
  needed_missing nz env b \/ not_finite (hval rnd (fun n => Num (numval (env n))) b).
Proof.
  rewrite run_round_hb, finish_single.
  destruct (needed_missing_dec nz env b) as [(n & Hin & Hm & Hz)|Hall].
  - assert (E : hval rnd (fun n0 => fetch_val nz (env n0)) b = NaN).
    { apply (hval_strict _ b n Hin). subst nz. destruct (env n); try discriminate; reflexivity. }
    rewrite E. split; [|reflexivity]. intros _. left. exists n. auto.
  - rewrite (hval_ext _ _ b Hall). split; [intros H; right; exact H|].
    intros [(n & Hin & Hm & Hz)|H]; [|exact H].
    exfalso. specialize (Hall n Hin). subst nz. destruct (env n); cbn in *; discriminate.
Qed.

(* ... and otherwise the emitted value is the value of the tree *)
Theorem hb_value nz b env :
  ~ needed_missing nz env b ->
  run_round rnd (compile_hb nz b) env = finish (Some [hval rnd (fun n => Num (numval (env n))) b]).
Proof.
  intros H. rewrite run_round_hb.
  destruct (needed_missing_dec nz env b) as [C|Hall]; [contradiction|].
  rewrite (hval_ext _ _ b Hall). reflexivity.
Qed.

(* on a zero-configured build a missing value (any encoding) behaves exactly like 0 *)
Theorem hb_missing_is_zero b env :
  run_round rnd (compile_hb true b) env = run_round rnd (compile_hb true b) (fun n => IVal (numval (env n))).
Proof.
  rewrite !run_round_hb. f_equal. f_equal. f_equal. apply hval_ext. intros n _. destruct (env n); reflexivity.
Qed.
End Trees.

Lemma fetch_zero i : missing i = true -> fetch_val true i = Num 0.
Proof. destruct i; cbn; intros H; try discriminate; reflexivity. Qed.
Lemma fetch_nan i : missing i = true -> fetch_val false i = NaN.
Proof. destruct i; cbn; intros H; try discriminate; reflexivity. Qed.
Lemma fetch_present nz q : fetch_val nz (IVal q) = Num q.
Proof. reflexivity. Qed.
