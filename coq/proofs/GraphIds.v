(* C12 — the generated formulas read component IDS: on a tree with distinct component ids, looking
   the ids of the generated terms up in the tree gives the same value as [eval]. *)
From Coq Require Import Lia ZifyBool.
From Verif Require Import model.Common model.Graph proofs.GraphFacts.

Lemma find_unique : forall (l : list node) n,
  NoDup (map nid l) -> In n l -> find (fun x => nid x =? nid n) l = Some n.
Proof.
  induction l as [|x l IH]; intros n Hnd Hin; [destruct Hin|].
  cbn [map] in Hnd. inversion Hnd as [|? ? Hx Hl]; subst.
  cbn [find]. destruct (nid x =? nid n) eqn:E.
  - destruct Hin as [->|Hin]; [reflexivity|].
    exfalso. apply Hx. apply Z.eqb_eq in E. rewrite E. apply in_map. exact Hin.
  - destruct Hin as [->|Hin]; [rewrite Z.eqb_refl in E; discriminate|]. apply IH; assumption.
Qed.

Definition within (roots : list node) (ts : list term) : Prop :=
  Forall (fun t => In (t_node t) (all_nodes roots)) ts.

Theorem eval_by_id_eval : forall roots ts,
  NoDup (map nid (all_nodes roots)) -> within roots ts -> eval_by_id roots (map by_id ts) = eval ts.
Proof.
  intros roots ts Hnd Hin. unfold eval_by_id, eval. rewrite map_map.
  induction Hin as [|t ts Ht _ IH]; [reflexivity|].
  cbn [map]. rewrite !zsum_cons, IH. f_equal.
  unfold by_id, reading_of, lookup. cbn [fst snd]. rewrite (find_unique _ _ Hnd Ht). reflexivity.
Qed.

(* ------------------------------------------------------------------ every generated term names a node of the tree *)
Lemma nodes_self : forall n, In n (nodes n).
Proof. destruct n; left; reflexivity. Qed.

Lemma nodes_kid : forall i kids load k x, In k kids -> In x (nodes k) -> In x (nodes (Meter i kids load)).
Proof. intros. cbn [nodes]. right. apply in_flat_map. exists k. split; assumption. Qed.

Lemma incl_flat_map : forall (f g : node -> list node) l,
  Forall (fun k => incl (f k) (g k)) l -> incl (flat_map f l) (flat_map g l).
Proof.
  intros f g l H x Hx. apply in_flat_map in Hx. destruct Hx as (k & Hk & Hx).
  rewrite Forall_forall in H. apply in_flat_map. exists k. split; [exact Hk|]. apply (H k Hk). exact Hx.
Qed.

Lemma dfs_incl : forall cond n gm, incl (dfs cond gm n) (nodes n).
Proof.
  intros cond. induction n as [i kids load IH| | | |] using node_ind'; intros gm x Hx;
    [|cbn [dfs] in Hx; match type of Hx with context [cond ?g ?y] => destruct (cond g y) end;
      [destruct Hx as [<-|[]]; apply nodes_self|destruct Hx] ..].
  rewrite dfs_meter in Hx. destruct (cond gm (Meter i kids load)).
  - destruct Hx as [<-|[]]. apply nodes_self.
  - apply in_flat_map in Hx. destruct Hx as (k & Hk & Hx). rewrite Forall_forall in IH.
    eapply nodes_kid; [exact Hk|]. eapply IH; eauto.
Qed.

Lemma in_all_nodes : forall roots r x, In r roots -> In x (nodes r) -> In x (all_nodes roots).
Proof. intros. unfold all_nodes. apply in_flat_map. exists r. split; assumption. Qed.

Lemma dfs_grid_incl : forall cond roots, incl (dfs_grid cond roots) (all_nodes roots).
Proof.
  intros cond roots x Hx. unfold dfs_grid in Hx. apply in_flat_map in Hx. destruct Hx as (r & Hr & Hx).
  eapply in_all_nodes; [exact Hr|]. eapply dfs_incl; eauto.
Qed.

Lemma within_map_wf : forall roots fb s l, incl l (all_nodes roots) -> within roots (map (with_fallback fb s) l).
Proof.
  intros roots fb s l H. unfold within. apply Forall_forall. intros t Ht. apply in_map_iff in Ht.
  destruct Ht as (n & <- & Hn). unfold with_fallback, t_node. cbn [fst snd]. apply H, Hn.
Qed.

Lemma within_map_plain : forall roots l, incl l (all_nodes roots) ->
  within roots (map (fun m : node => (1, m, @nil node)) l).
Proof.
  intros roots l H. unfold within. apply Forall_forall. intros t Ht. apply in_map_iff in Ht.
  destruct Ht as (n & <- & Hn). unfold t_node. cbn [fst snd]. apply H, Hn.
Qed.

Lemma roots_incl : forall roots, incl roots (all_nodes roots).
Proof. intros roots r Hr. eapply in_all_nodes; [exact Hr|apply nodes_self]. Qed.

Lemma within_producer : forall fb roots, within roots (producer_terms fb roots).
Proof. intros. apply within_map_wf, dfs_grid_incl. Qed.

Lemma within_pv : forall fb roots, within roots (pv_terms fb roots).
Proof. intros. apply within_map_wf, dfs_grid_incl. Qed.

Lemma within_grid : forall fb roots g, grid_terms fb roots = Some g -> within roots g.
Proof.
  intros fb roots g H. unfold grid_terms in H. destruct (is_nil _); [discriminate|]. injection H as <-.
  apply within_map_wf. intros x Hx. apply filter_In in Hx. apply roots_incl, Hx.
Qed.

Lemma within_consumer : forall fb roots, within roots (consumer_terms fb roots).
Proof.
  intros fb roots.
  assert (H : forall ms, incl ms roots -> within roots (consumer_from_meters fb (gm_of roots) ms)).
  { intros ms Hms. unfold consumer_from_meters, within. apply Forall_app. split.
    - apply within_map_plain. intros x Hx. apply roots_incl, Hms, Hx.
    - apply within_map_wf. intros x Hx. apply in_flat_map in Hx. destruct Hx as (m & Hm & Hx).
      eapply in_all_nodes; [apply Hms, Hm|]. eapply dfs_incl; eauto. }
  unfold consumer_terms. destruct (are_grid_meters roots); [apply H, incl_refl|].
  unfold dfs_grid. rewrite consumer_dfs_filter. destruct (is_nil _); [constructor|].
  apply H. intros x Hx. apply filter_In in Hx. apply Hx.
Qed.

Lemma by_inverters_incl : forall isx sel fb n gm t, In t (by_inverters isx sel fb gm n) -> In (t_node t) (nodes n).
Proof.
  intros isx sel fb. induction n as [i kids load IH| | | |] using node_ind'; intros gm t Hin;
    [|cbn [by_inverters] in Hin; match type of Hin with context [sel ?y] => destruct (sel y) end;
      [destruct Hin as [<-|[]]; apply nodes_self|destruct Hin] ..].
  cbn [by_inverters] in Hin. destruct (fb && dedicated_to isx gm (Meter i kids load) && forallb sel kids).
  - destruct Hin as [<-|[]]. apply nodes_self.
  - apply in_flat_map in Hin. destruct Hin as (k & Hk & Hin). rewrite Forall_forall in IH.
    eapply nodes_kid; [exact Hk|]. eapply IH; eauto.
Qed.

Lemma within_by_inverters : forall isx sel fb roots,
  within roots (flat_map (by_inverters isx sel fb (gm_of roots)) roots).
Proof.
  intros. unfold within. apply Forall_forall. intros t Ht. apply in_flat_map in Ht. destruct Ht as (r & Hr & Ht).
  eapply in_all_nodes; [exact Hr|]. eapply by_inverters_incl; eauto.
Qed.

Lemma within_battery_pool : forall fb roots bids ts, battery_pool_terms fb roots bids = Some ts -> within roots ts.
Proof.
  intros fb roots bids ts H. unfold battery_pool_terms in H. destruct (forallb _ (all_nodes roots)); [|discriminate].
  injection H as <-. apply within_by_inverters.
Qed.

Lemma ev_nodes_incl : forall n, incl (ev_nodes n) (nodes n).
Proof.
  induction n as [i kids load IH| | | |] using node_ind'; intros x Hx; try (destruct Hx as [<-|[]]; apply nodes_self); try destruct Hx.
  cbn [ev_nodes] in Hx. apply in_flat_map in Hx. destruct Hx as (k & Hk & Hx). rewrite Forall_forall in IH.
  eapply nodes_kid; [exact Hk|]. eapply IH; eauto.
Qed.

Lemma within_ev : forall roots, within roots (ev_terms roots).
Proof.
  intros. apply within_map_plain. intros x Hx. apply in_flat_map in Hx. destruct Hx as (r & Hr & Hx).
  eapply in_all_nodes; [exact Hr|]. apply ev_nodes_incl, Hx.
Qed.

Lemma ev_pool_nodes_incl : forall sel n, incl (ev_pool_nodes sel n) (nodes n).
Proof.
  intros sel. induction n as [i kids load IH| | | |] using node_ind'; intros x Hx; try destruct Hx.
  - cbn [ev_pool_nodes] in Hx. apply in_flat_map in Hx. destruct Hx as (k & Hk & Hx). rewrite Forall_forall in IH.
    eapply nodes_kid; [exact Hk|]. eapply IH; eauto.
  - cbn [ev_pool_nodes] in Hx. destruct (sel (Ev i p)); [destruct Hx as [<-|[]]; apply nodes_self|destruct Hx].
Qed.

Lemma within_ev_pool : forall roots esel, within roots (ev_pool_terms roots esel).
Proof.
  intros. apply within_map_plain. intros x Hx. apply in_flat_map in Hx. destruct Hx as (r & Hr & Hx).
  eapply in_all_nodes; [exact Hr|]. eapply ev_pool_nodes_incl; eauto.
Qed.

Lemma opt_concat_incl : forall (f : node -> option (list node)) (g : node -> list node) l ms,
  Forall (fun k => forall m, f k = Some m -> incl m (g k)) l ->
  opt_concat (map f l) = Some ms -> incl ms (flat_map g l).
Proof.
  intros f g l. induction l as [|k l IH]; intros ms H Hc.
  - cbn in Hc. injection Hc as <-. intros x [].
  - inversion H as [|? ? Hk Hl]; subst. cbn [map opt_concat] in Hc.
    destruct (f k) as [mk|] eqn:Ek; [|discriminate].
    destruct (opt_concat (map f l)) as [mr|] eqn:Er; [|discriminate]. injection Hc as <-.
    cbn [flat_map]. apply incl_app_app; [apply Hk; reflexivity|apply IH; auto].
Qed.

Lemma chp_meters_incl : forall n ms, chp_meters n = Some ms -> incl ms (nodes n).
Proof.
  induction n as [i kids load IH| | | |] using node_ind'; intros ms H;
    try (cbn in H; injection H as <-; intros x []); try discriminate.
  cbn [chp_meters] in H. destruct (existsb is_chp kids).
  - destruct (forallb is_chp kids); [|discriminate]. injection H as <-. intros x [<-|[]]. apply nodes_self.
  - intros x Hx. cbn [nodes]. right. revert x Hx. apply (opt_concat_incl chp_meters nodes kids ms); [|exact H].
    exact IH.
Qed.

Lemma within_chp : forall roots ts, chp_terms roots = Some ts -> within roots ts.
Proof.
  intros roots ts H. unfold chp_terms in H. destruct (opt_concat (map chp_meters roots)) as [ms|] eqn:E; [|discriminate].
  injection H as <-. apply within_map_plain. unfold all_nodes.
  apply (opt_concat_incl chp_meters nodes roots ms); [|exact E].
  apply Forall_forall. intros k _ m Hm. apply chp_meters_incl. exact Hm.
Qed.

(* the balance, stated on what the formulas read by component id *)
Theorem balance_by_id : forall fb roots,
  wf roots = true -> NoDup (map nid (all_nodes roots)) ->
  exists g, grid_terms fb roots = Some g /\
    eval_by_id roots (map by_id g) =
      eval_by_id roots (map by_id (consumer_terms fb roots)) + eval_by_id roots (map by_id (producer_terms fb roots))
      + eval_by_id roots (map by_id (battery_terms fb roots)) + eval_by_id roots (map by_id (ev_terms roots)).
Proof.
  intros fb roots H Hnd. destruct (balance fb roots H) as (g & Hg & B). exists g. split; [exact Hg|].
  rewrite (eval_by_id_eval _ _ Hnd (within_grid _ _ _ Hg)), (eval_by_id_eval _ _ Hnd (within_consumer _ _)),
    (eval_by_id_eval _ _ Hnd (within_producer _ _)), (eval_by_id_eval _ _ Hnd (within_ev _)).
  unfold battery_terms. rewrite (eval_by_id_eval _ _ Hnd (within_by_inverters _ _ _ _)). exact B.
Qed.
