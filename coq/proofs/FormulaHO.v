(* Formula engine: the higher-order builder (operator API) compiles every builder tree to a
   post-fix program that computes the tree's value.  Holds for every rounding function, every
   fetch function and every constant (finite or not): _push parenthesises each operand, so the
   result does not depend on the relative precedence of the operators, only on their position
   relative to "(" and ")" in the translated table. *)
From Coq Require Import ZArith NArith QArith List Bool Lia.
From Verif Require Import model.Common gen.Formula model.Formula proofs.FormulaFacts.
Import ListNotations.
Local Open Scope list_scope.

Definition nonparen (l : list oper) : Prop := Forall (fun o => is_paren o = false) l.

Lemma push_op_base nz b o :
  base_ok (b_stack b) -> is_paren o = false ->
  b_stack (feed nz b (TOper o)) = o :: b_stack b /\ b_steps (feed nz b (TOper o)) = b_steps b.
Proof.
  intros Hb Ho. cbn [feed]. unfold push_oper.
  assert (Hl : is_lp o = false) by (destruct o; cbn in *; congruence).
  rewrite Hl, (pop_ops_base _ _ Hb Ho). cbn [b_stack b_steps map]. rewrite app_nil_r.
  split; [|reflexivity]. destruct o; cbn in *; try discriminate; reflexivity.
Qed.

Lemma pop_rp_frame pend s : nonparen pend -> pop_ops ORp (pend ++ OLp :: s) = (pend, s).
Proof.
  induction 1 as [|o pend Ho _ IH]; cbn [app].
  - rewrite pop_ops_cons. reflexivity.
  - rewrite pop_ops_cons, IH. destruct o; cbn in *; try discriminate; reflexivity.
Qed.

Lemma close_frame nz b pend s :
  nonparen pend -> b_stack b = pend ++ OLp :: s ->
  b_stack (feed nz b (TOper ORp)) = s /\ b_steps (feed nz b (TOper ORp)) = b_steps b ++ map step_of pend.
Proof.
  intros Hp Hs. cbn [feed]. unfold push_oper. cbn [is_lp]. rewrite Hs, (pop_rp_frame _ _ Hp).
  cbn. auto.
Qed.

Section HO.
Variable rnd : Q -> val.
Variable fv : N -> val.
Variable nz : bool.

Notation ex := (exec rnd fv).

Lemma step_of_hop o st : exec_step rnd fv (step_of (oper_of_hop o)) st = bin2 (happ rnd o) st.
Proof. destruct o as [[]| |]; reflexivity. Qed.
Lemma step_of_hun u st : exec_step rnd fv (step_of (oper_of_hun u)) st = un1 (hunapp u) st.
Proof. destruct u; reflexivity. Qed.
Lemma hop_nonparen o : is_paren (oper_of_hop o) = false.
Proof. destruct o as [[]| |]; reflexivity. Qed.
Lemma hun_nonparen u : is_paren (oper_of_hun u) = false.
Proof. destruct u; reflexivity. Qed.

Definition paren_toks (b : hb) : list tok := TOper OLp :: hb_tokens b ++ [TOper ORp].

(* "( tokens of b )" from ANY builder state: stack unchanged, code that pushes the value of b *)
Definition Paren (b : hb) : Prop :=
  forall bld, let bld' := run_toks nz bld (paren_toks b) in
  b_stack bld' = b_stack bld /\
  exists code, extends bld bld' code /\ forall st, ex code st = Some (hval rnd fv b :: st).

(* the bare tokens of b from a frame bottom: some pending operators stay on the stack *)
Definition Body (b : hb) : Prop :=
  forall bld, base_ok (b_stack bld) -> let bld' := run_toks nz bld (hb_tokens b) in
  exists pend code, b_stack bld' = pend ++ b_stack bld /\ nonparen pend /\ extends bld bld' code /\
    forall st, ex (code ++ map step_of pend) st = Some (hval rnd fv b :: st).

Lemma body_to_paren b : Body b -> Paren b.
Proof.
  intros HB bld. unfold paren_toks. cbn zeta.
  change (TOper OLp :: hb_tokens b ++ [TOper ORp]) with ([TOper OLp] ++ hb_tokens b ++ [TOper ORp]).
  rewrite !run_toks_app.
  set (b1 := run_toks nz bld [TOper OLp]).
  assert (Hs1 : b_stack b1 = OLp :: b_stack bld) by reflexivity.
  assert (Hc1 : b_steps b1 = b_steps bld) by apply push_lp_steps.
  destruct (HB b1) as (pend & code & Hs2 & Hp & He2 & Hx).
  { right. eexists. exact Hs1. }
  cbn zeta in *. set (b2 := run_toks nz b1 (hb_tokens b)) in *.
  rewrite Hs1 in Hs2.
  destruct (close_frame nz b2 pend (b_stack bld) Hp Hs2) as [Hs3 Hc3].
  change (run_toks nz b2 [TOper ORp]) with (feed nz b2 (TOper ORp)).
  split; [exact Hs3|].
  exists (code ++ map step_of pend). split; [|exact Hx].
  unfold extends in *. rewrite Hc3, He2, Hc1, app_assoc. reflexivity.
Qed.

Lemma tokens_pushE b o n : hb_tokens (HPushE b o n) = paren_toks b ++ [TOper (oper_of_hop o); TMetric n].
Proof. unfold paren_toks. cbn. rewrite <- app_assoc. reflexivity. Qed.
Lemma tokens_pushC b o c : hb_tokens (HPushC b o c) = paren_toks b ++ [TOper (oper_of_hop o); TConst c].
Proof. unfold paren_toks. cbn. rewrite <- app_assoc. reflexivity. Qed.
Lemma tokens_pushB b o b' : hb_tokens (HPushB b o b') = paren_toks b ++ [TOper (oper_of_hop o)] ++ paren_toks b'.
Proof. unfold paren_toks. cbn. rewrite <- !app_assoc. reflexivity. Qed.
Lemma tokens_un b u : hb_tokens (HUn b u) = paren_toks b ++ [TOper (oper_of_hun u)].
Proof. unfold paren_toks. cbn. rewrite <- app_assoc. reflexivity. Qed.

Lemma body_all : forall b, Body b.
Proof.
  induction b as [n|b IH o n|b IH o c|b IH o b' IH'|b IH u]; intros bld Hbase; cbn zeta.
  - exists [], [SFetch n]. cbn. repeat split; try constructor.
  - rewrite tokens_pushE, run_toks_app.
    destruct (body_to_paren b IH bld) as (Hs1 & code & He1 & Hx1). cbn zeta in *.
    set (b1 := run_toks nz bld (paren_toks b)) in *. clearbody b1.
    assert (Hb1 : base_ok (b_stack b1)) by (rewrite Hs1; exact Hbase).
    destruct (push_op_base nz b1 _ Hb1 (hop_nonparen o)) as [Hs2 Hc2].
    rewrite run_toks_cons. set (b2 := feed nz b1 (TOper (oper_of_hop o))) in *. clearbody b2.
    exists [oper_of_hop o], (code ++ [SFetch n]). cbn [run_toks fold_left feed push_metric b_stack b_steps].
    repeat split.
    + rewrite Hs2, Hs1. reflexivity.
    + repeat constructor. apply hop_nonparen.
    + unfold extends in *. cbn. rewrite Hc2, He1, app_assoc. reflexivity.
    + intros st. rewrite <- app_assoc, (exec_app_some _ _ _ _ _ _ (Hx1 st)). cbn. rewrite step_of_hop. reflexivity.
  - rewrite tokens_pushC, run_toks_app.
    destruct (body_to_paren b IH bld) as (Hs1 & code & He1 & Hx1). cbn zeta in *.
    set (b1 := run_toks nz bld (paren_toks b)) in *. clearbody b1.
    assert (Hb1 : base_ok (b_stack b1)) by (rewrite Hs1; exact Hbase).
    destruct (push_op_base nz b1 _ Hb1 (hop_nonparen o)) as [Hs2 Hc2].
    rewrite run_toks_cons. set (b2 := feed nz b1 (TOper (oper_of_hop o))) in *. clearbody b2.
    exists [oper_of_hop o], (code ++ [SConst c]). cbn [run_toks fold_left feed push_constant b_stack b_steps].
    repeat split.
    + rewrite Hs2, Hs1. reflexivity.
    + repeat constructor. apply hop_nonparen.
    + unfold extends in *. cbn. rewrite Hc2, He1, app_assoc. reflexivity.
    + intros st. rewrite <- app_assoc, (exec_app_some _ _ _ _ _ _ (Hx1 st)). cbn. rewrite step_of_hop. reflexivity.
  - rewrite tokens_pushB, !run_toks_app.
    destruct (body_to_paren b IH bld) as (Hs1 & code & He1 & Hx1). cbn zeta in *.
    set (b1 := run_toks nz bld (paren_toks b)) in *. clearbody b1.
    assert (Hb1 : base_ok (b_stack b1)) by (rewrite Hs1; exact Hbase).
    destruct (push_op_base nz b1 _ Hb1 (hop_nonparen o)) as [Hs2 Hc2].
    change (run_toks nz b1 [TOper (oper_of_hop o)]) with (feed nz b1 (TOper (oper_of_hop o))).
    set (b2 := feed nz b1 (TOper (oper_of_hop o))) in *. clearbody b2.
    destruct (body_to_paren b' IH' b2) as (Hs3 & code' & He3 & Hx3). cbn zeta in *.
    set (b3 := run_toks nz b2 (paren_toks b')) in *. clearbody b3.
    exists [oper_of_hop o], (code ++ code'). repeat split.
    + rewrite Hs3, Hs2, Hs1. reflexivity.
    + repeat constructor. apply hop_nonparen.
    + unfold extends in *. rewrite He3, Hc2, He1, app_assoc. reflexivity.
    + intros st. rewrite <- !app_assoc, (exec_app_some _ _ _ _ _ _ (Hx1 st)).
      rewrite (exec_app_some _ _ _ _ _ _ (Hx3 _)). cbn. rewrite step_of_hop. reflexivity.
  - rewrite tokens_un, run_toks_app.
    destruct (body_to_paren b IH bld) as (Hs1 & code & He1 & Hx1). cbn zeta in *.
    set (b1 := run_toks nz bld (paren_toks b)) in *. clearbody b1.
    assert (Hb1 : base_ok (b_stack b1)) by (rewrite Hs1; exact Hbase).
    destruct (push_op_base nz b1 _ Hb1 (hun_nonparen u)) as [Hs2 Hc2].
    change (run_toks nz b1 [TOper (oper_of_hun u)]) with (feed nz b1 (TOper (oper_of_hun u))).
    exists [oper_of_hun u], code. repeat split.
    + rewrite Hs2, Hs1. reflexivity.
    + repeat constructor. apply hun_nonparen.
    + unfold extends in *. rewrite Hc2, He1. reflexivity.
    + intros st. rewrite (exec_app_some _ _ _ _ _ _ (Hx1 st)). cbn. rewrite step_of_hun. reflexivity.
Qed.

(* HigherOrderFormulaBuilder.build + FormulaBuilder.finalize: the program computes the tree *)
Theorem compile_hb_exec b : ex (fst (compile_hb nz b)) [] = Some [hval rnd fv b].
Proof.
  unfold compile_hb, compile, finalize. cbn [fst].
  destruct (body_all b empty_builder) as (pend & code & Hs & Hp & He & Hx); [left; reflexivity|].
  cbn zeta in *. fold (run_toks nz empty_builder (hb_tokens b)).
  unfold extends in He. cbn in He, Hs. rewrite app_nil_r in Hs. rewrite He, Hs. apply Hx.
Qed.
End HO.

Theorem run_round_hb rnd nz b env :
  run_round rnd (compile_hb nz b) env = finish (Some [hval rnd (fun n => fetch_val nz (env n)) b]).
Proof.
  unfold compile_hb. rewrite run_round_compile. f_equal. apply compile_hb_exec.
Qed.

(* ------------------------------------------------------------------ exact arithmetic (rnd = Num) *)
Lemma vapp_inj_ho o a b : vapp Num o (inj a) (inj b) = inj (dapp o a b).
Proof.
  destruct a as [x|], b as [y|], o; cbn; try reflexivity; destruct (Qeq_bool y 0); reflexivity.
Qed.

Lemma happ_inj o a b : happ Num o (inj a) (inj b) = inj (dhapp o a b).
Proof.
  destruct o as [o| |]; [apply vapp_inj_ho| |];
    destruct a as [x|], b as [y|]; cbn; try reflexivity.
  - unfold vmax, pymax. cbn. destruct (Qlt_bool x y); reflexivity.
  - unfold vmin, pymin. cbn. destruct (Qlt_bool y x); reflexivity.
Qed.

Lemma hunapp_inj u a : hunapp u (inj a) = inj (dhun u a).
Proof.
  destruct u, a as [x|]; cbn; try reflexivity.
  - unfold vcons, pymax. cbn. destruct (Qlt_bool x 0); reflexivity.
  - unfold vprod, pymax. cbn. destruct (Qlt_bool (- x) 0); reflexivity.
Qed.

Lemma hval_exact fd b : hb_consts_finite b = true ->
  hval Num (fun n => inj (fd n)) b = inj (hvalD fd b).
Proof.
  induction b as [n|b IH o n|b IH o c|b IH o b' IH'|b IH u]; cbn [hb_consts_finite hval hvalD]; intros H.
  - reflexivity.
  - rewrite (IH H). apply happ_inj.
  - apply andb_true_iff in H. destruct H as [H1 H2]. rewrite (IH H1).
    destruct c; try discriminate. apply (happ_inj o _ (Some q)).
  - apply andb_true_iff in H. destruct H as [H1 H2]. rewrite (IH H1), (IH' H2). apply happ_inj.
  - rewrite (IH H). apply hunapp_inj.
Qed.

Lemma hval_ext_all rnd fv1 fv2 b : (forall n, fv1 n = fv2 n) -> hval rnd fv1 b = hval rnd fv2 b.
Proof.
  intros H. induction b as [n|b IH o n|b IH o c|b IH o b' IH'|b IH u]; cbn; rewrite ?IH, ?IH', ?H; reflexivity.
Qed.

Lemma fetch_val_inj nz i : fetch_val nz i = inj (fetch_D nz i).
Proof. destruct i, nz; reflexivity. Qed.

Theorem run_round_hb_exact nz b env : hb_consts_finite b = true ->
  run_round Num (compile_hb nz b) env = Emit (hvalD (fun n => fetch_D nz (env n)) b).
Proof.
  intros H. rewrite run_round_hb.
  rewrite (hval_ext_all Num _ (fun n => inj (fetch_D nz (env n))) b (fun n => fetch_val_inj nz (env n))).
  rewrite (hval_exact _ b H). destruct (hvalD _ b); reflexivity.
Qed.
