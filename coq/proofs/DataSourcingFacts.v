(* Invariants of the data-sourcing transition system (model/DataSourcing.v), for every event sequence. *)
From Coq Require Import Lia ZifyBool.
From Verif Require Import gen.DataSourcing model.DataSourcing.

(* ------------------------------------------------------------------ small facts *)
Lemma name_eqb_eq : forall a b, name_eqb a b = true <-> a = b.
Proof.
  intros [m1 t1] [m2 t2]; unfold name_eqb; cbn.
  rewrite andb_true_iff, !Z.eqb_eq. split.
  - intros [-> ->]; reflexivity.
  - intros H; injection H; auto.
Qed.

Lemma name_eqb_refl : forall a, name_eqb a a = true.
Proof. intros a; apply name_eqb_eq; reflexivity. Qed.

Lemma mem_name_In : forall n l, mem_name n l = true <-> In n l.
Proof.
  intros n l; unfold mem_name; rewrite existsb_exists. split.
  - intros [x [Hin Heq]]. apply name_eqb_eq in Heq. subst; exact Hin.
  - intros Hin. exists n. split; [exact Hin|apply name_eqb_refl].
Qed.

Lemma mem_name_false : forall n l, mem_name n l = false <-> ~ In n l.
Proof.
  intros n l. rewrite <- mem_name_In. destruct (mem_name n l); split; intro H.
  - discriminate.
  - exfalso; apply H; reflexivity.
  - intro H'; discriminate.
  - reflexivity.
Qed.

Lemma upd_eq : forall A (f : comp -> A) k v, upd f k v k = v.
Proof. intros; unfold upd; rewrite Z.eqb_refl; reflexivity. Qed.

Lemma upd_neq : forall A (f : comp -> A) k v x, x <> k -> upd f k v x = f x.
Proof. intros A f k v x Hne; unfold upd. destruct (x =? k) eqn:E; [apply Z.eqb_eq in E; contradiction|reflexivity]. Qed.

Lemma filter_andb : forall A (p q : A -> bool) l,
  filter (fun x => p x && q x) l = filter q (filter p l).
Proof.
  intros A p q l; induction l as [|x l IH]; cbn; [reflexivity|].
  destruct (p x); cbn; [destruct (q x); rewrite IH; reflexivity|exact IH].
Qed.

Lemma filter_all : forall A (p : A -> bool) l, (forall x, In x l -> p x = true) -> filter p l = l.
Proof.
  intros A p l; induction l as [|x l IH]; intros H; cbn; [reflexivity|].
  rewrite (H x (or_introl eq_refl)). f_equal. apply IH. intros y Hy; apply H; right; exact Hy.
Qed.

(* ------------------------------------------------------------------ projections *)
Definition acc_of (c : comp) (l : list (comp * msg)) : list msg :=
  map snd (filter (fun p => fst p =? c) l).
Definition tasks_of (c : comp) (l : list task) : list task := filter (fun t => t_comp t =? c) l.

Lemma acc_of_app : forall c a b, acc_of c (a ++ b) = acc_of c a ++ acc_of c b.
Proof. intros; unfold acc_of; rewrite filter_app, map_app; reflexivity. Qed.

Lemma tasks_of_app : forall c a b, tasks_of c (a ++ b) = tasks_of c a ++ tasks_of c b.
Proof. intros; unfold tasks_of; apply filter_app. Qed.

Lemma chan_out_app : forall c n a b, chan_out c n (a ++ b) = chan_out c n a ++ chan_out c n b.
Proof. intros; unfold chan_out; rewrite filter_app, map_app; reflexivity. Qed.

(* one task's fan-out contributes exactly one sample to each channel of its snapshot, none elsewhere *)
Lemma chan_out_fanout_gen : forall tc m c n l,
  chan_out c n (map (fun x => (tc, x, sample_of x m)) l) =
  if tc =? c then map (fun _ => sample_of n m) (filter (fun x => name_eqb x n) l) else [].
Proof.
  intros tc m c n l; induction l as [|x l IH]; cbn.
  - destruct (tc =? c); reflexivity.
  - unfold chan_out in *; cbn. destruct (tc =? c) eqn:E; cbn.
    + destruct (name_eqb x n) eqn:En; cbn; rewrite IH; [|reflexivity].
      apply name_eqb_eq in En; subst; reflexivity.
    + exact IH.
Qed.

Lemma filter_name_nodup : forall n l, NoDup l ->
  filter (fun x => name_eqb x n) l = if mem_name n l then [n] else [].
Proof.
  intros n l Hnd; induction Hnd as [|x l Hnot Hnd IH]; cbn; [reflexivity|].
  destruct (name_eqb x n) eqn:E.
  - apply name_eqb_eq in E; subst x. rewrite name_eqb_refl; cbn.
    rewrite IH. apply mem_name_false in Hnot. rewrite Hnot. reflexivity.
  - assert (E' : name_eqb n x = false).
    { destruct (name_eqb n x) eqn:E'; [|reflexivity]. apply name_eqb_eq in E'; subst.
      rewrite name_eqb_refl in E; discriminate. }
    rewrite E'; cbn. exact IH.
Qed.

Lemma chan_out_fanout : forall t c n, NoDup (t_snap t) ->
  chan_out c n (fanout t) =
  if (t_comp t =? c) && mem_name n (t_snap t) then [sample_of n (t_msg t)] else [].
Proof.
  intros t c n Hnd; unfold fanout. rewrite chan_out_fanout_gen, (filter_name_nodup n _ Hnd).
  destruct (t_comp t =? c); cbn; [|reflexivity]. destruct (mem_name n (t_snap t)); reflexivity.
Qed.

(* ------------------------------------------------------------------ the invariant *)
(* snapshots of one component only grow along the take log *)
Fixpoint mono (l : list task) : Prop :=
  match l with
  | [] => True
  | t :: r => (forall t', In t' r -> t_comp t' = t_comp t -> incl (t_snap t) (t_snap t')) /\ mono r
  end.

Lemma mono_snoc : forall l t,
  mono l -> (forall t0, In t0 l -> t_comp t0 = t_comp t -> incl (t_snap t0) (t_snap t)) -> mono (l ++ [t]).
Proof.
  induction l as [|x l IH]; intros t Hm Hall; cbn in *; [split; [intros t' []|exact I]|].
  destruct Hm as [Hx Hm]. split.
  - intros t' Hin Hc. apply in_app_or in Hin. destruct Hin as [Hin|[<-|[]]].
    + apply Hx; assumption.
    + apply Hall; [left; reflexivity|symmetry; exact Hc].
  - apply IH; [exact Hm|]. intros t0 Hin Hc. apply Hall; [right; exact Hin|exact Hc].
Qed.

Lemma mono_app_l : forall a b, mono (a ++ b) -> mono a.
Proof.
  induction a as [|x a IH]; intros b Hm; cbn in *; [exact I|].
  destruct Hm as [Hx Hm]. split; [|eapply IH; exact Hm].
  intros t' Hin Hc. apply Hx; [apply in_or_app; left; exact Hin|exact Hc].
Qed.

Record Inv (cats : comp -> option category) (s : state) : Prop := mkInv {
  inv_cons : forall c, acc_of c (st_acc s) = map t_msg (tasks_of c (st_taken s)) ++ queue s c;
  inv_fly : exists done, st_taken s = done ++ st_fly s /\ st_out s = flat_map fanout done;
  inv_snap : forall c snap, st_hand s c = Some (HRunning snap) -> snap = st_subs s c;
  inv_nodup : forall c, NoDup (st_subs s c);
  inv_mono : mono (st_taken s);
  inv_sub : forall t, In t (st_taken s) -> incl (t_snap t) (st_subs s (t_comp t));
  inv_tnodup : forall t, In t (st_taken s) -> NoDup (t_snap t);
  (* since the fix: only metrics the component's data provides are ever registered ... *)
  inv_supp : forall c n, In n (st_subs s c) -> exists cat, cats c = Some cat /\ supported cat (n_metric n) = true
}.

Lemma inv_init : forall cats, Inv cats init.
Proof.
  intros cats. constructor; cbn; intros; try reflexivity; try discriminate; try contradiction; try exact I.
  - exists []; split; reflexivity.
  - constructor.
Qed.

Lemma nodup_snoc : forall (l : list name) n, NoDup l -> ~ In n l -> NoDup (l ++ [n]).
Proof.
  induction l as [|x l IH]; intros n Hnd Hnot; cbn.
  - constructor; [intros []|constructor].
  - inversion Hnd as [|? ? Hx Hl]; subst. constructor.
    + intros Hin. apply in_app_or in Hin. destruct Hin as [Hin|[<-|[]]]; [contradiction|].
      apply Hnot; left; reflexivity.
    + apply IH; [exact Hl|]. intros Hin; apply Hnot; right; exact Hin.
Qed.

Ltac simp_st := cbn [st_subs st_recv st_hand st_fly st_acc st_taken st_out].

Lemma set_hand_inv : forall cats s c h, Inv cats s -> (forall snap, h <> HRunning snap) -> Inv cats (set_hand s c h).
Proof.
  intros cats s c h [Hcons Hfly Hsnap Hnd Hmono Hsub Htnd Hsupp] Hh. unfold set_hand.
  constructor; simp_st; try assumption.
  intros c0 snap Hs. destruct (Z.eq_dec c0 c) as [->|Hne].
  - rewrite upd_eq in Hs. injection Hs as Hs. exfalso; apply (Hh snap); exact Hs.
  - rewrite upd_neq in Hs by exact Hne. apply Hsnap; exact Hs.
Qed.

Lemma supp_all : forall cats s c cat, Inv cats s -> cats c = Some cat ->
  forallb (fun n => supported cat (n_metric n)) (st_subs s c) = true.
Proof.
  intros cats s c cat HI Ecat. apply forallb_forall. intros n Hin.
  destruct (inv_supp cats s HI c n Hin) as [cat' [E1 E2]]. congruence.
Qed.

Lemma do_open_eq : forall cats s c s', Inv cats s -> do_open cats s c = Some s' -> s' = set_hand s c HOpening.
Proof.
  intros cats s c s' HI H. unfold do_open in H. destruct (cats c) as [cat|] eqn:Ecat; [|discriminate].
  rewrite (supp_all _ _ _ _ HI Ecat) in H. injection H as <-. reflexivity.
Qed.

Lemma do_start_eq : forall cats s c s', Inv cats s -> do_start cats s c = Some s' ->
  s' = mkSt (st_subs s)
            (match st_recv s c with None => upd (st_recv s) c (Some []) | Some _ => st_recv s end)
            (upd (st_hand s) c (Some (HRunning (st_subs s c))))
            (st_fly s) (st_acc s) (st_taken s) (st_out s).
Proof.
  intros cats s c s' HI H. unfold do_start in H. destruct (cats c) as [cat|] eqn:Ecat; [|discriminate].
  rewrite (supp_all _ _ _ _ HI Ecat) in H. injection H as <-. reflexivity.
Qed.

Lemma do_start_inv : forall cats s c s', Inv cats s -> do_start cats s c = Some s' -> Inv cats s'.
Proof.
  intros cats s c s' HI H. rewrite (do_start_eq _ _ _ _ HI H).
  destruct HI as [Hcons Hfly Hsnap Hnd Hmono Hsub Htnd Hsupp].
  constructor; simp_st; try assumption.
  - intros c0. rewrite Hcons. f_equal. unfold queue; simp_st.
    destruct (st_recv s c) eqn:Er; [reflexivity|].
    destruct (Z.eq_dec c0 c) as [->|Hne]; [rewrite upd_eq, Er; reflexivity|rewrite upd_neq by exact Hne; reflexivity].
  - intros c0 snap Hh. destruct (Z.eq_dec c0 c) as [->|Hne].
    + rewrite upd_eq in Hh. injection Hh as <-. reflexivity.
    + rewrite upd_neq in Hh by exact Hne. apply Hsnap; exact Hh.
Qed.

Lemma option_map_some : forall A B (f : A -> B) (x : option A) y, option_map f x = Some y -> exists a, x = Some a /\ y = f a.
Proof. intros A B f [a|] y H; cbn in H; [injection H as <-; exists a; auto|discriminate]. Qed.

Lemma step_inv : forall cats s e s' o, Inv cats s -> step cats s e = Some (s', o) -> Inv cats s'.
Proof.
  intros cats s e s' o HI Hstep. destruct HI as [Hcons Hfly Hsnap Hnd Hmono Hsub Htnd Hsupp].
  destruct e as [c n|c|c|c m|c| |c|c n|]; cbn [step] in Hstep.
  - (* AddMetric *)
    destruct (cats c) as [cat|] eqn:Ecat; [|injection Hstep as <- <-; constructor; assumption].
    destruct (supported cat (n_metric n)) eqn:Hsup; cbn [negb] in Hstep;
      [|injection Hstep as <- <-; constructor; assumption].
    destruct (mem_name n (st_subs s c)) eqn:Hmem; [injection Hstep as <- <-; constructor; assumption|].
    injection Hstep as <- <-. apply mem_name_false in Hmem.
    constructor; simp_st; try assumption.
    + intros c0 snap Hh. destruct (Z.eq_dec c0 c) as [->|Hne].
      * rewrite upd_eq in Hh; discriminate.
      * rewrite upd_neq in Hh by exact Hne. rewrite upd_neq by exact Hne. apply Hsnap; exact Hh.
    + intros c0. destruct (Z.eq_dec c0 c) as [->|Hne].
      * rewrite upd_eq. apply nodup_snoc; [apply Hnd|exact Hmem].
      * rewrite upd_neq by exact Hne. apply Hnd.
    + intros t Hin. destruct (Z.eq_dec (t_comp t) c) as [E|Hne].
      * rewrite E, upd_eq. intros x Hx. apply in_or_app; left. rewrite <- E. apply (Hsub t Hin); exact Hx.
      * rewrite upd_neq by exact Hne. apply Hsub; exact Hin.
    + intros c0 n0 Hin. destruct (Z.eq_dec c0 c) as [->|Hne].
      * rewrite upd_eq in Hin. apply in_app_or in Hin. destruct Hin as [Hin|[<-|[]]]; [apply Hsupp; exact Hin|].
        exists cat. split; assumption.
      * rewrite upd_neq in Hin by exact Hne. apply Hsupp; exact Hin.
  - (* HandlerOpen *)
    assert (HI : Inv cats s) by (constructor; assumption).
    destruct (st_hand s c) as [[| | |]|]; try discriminate; destruct (st_recv s c); try discriminate;
      apply option_map_some in Hstep; destruct Hstep as [s1 [Ho Heq]]; injection Heq as -> ->;
      rewrite (do_open_eq _ _ _ _ HI Ho); apply set_hand_inv; try exact HI; intros snap; discriminate.
  - (* HandlerStart *)
    assert (HI : Inv cats s) by (constructor; assumption).
    destruct (st_hand s c) as [[| | |]|]; try discriminate; destruct (st_recv s c); try discriminate;
      apply option_map_some in Hstep; destruct Hstep as [s1 [Ho Heq]]; injection Heq as -> ->;
      apply (do_start_inv _ _ _ _ HI Ho).
  - (* ApiMsg *)
    destruct (st_recv s c) as [q|] eqn:Er; [|injection Hstep as <- <-; constructor; assumption].
    injection Hstep as <- <-. constructor; simp_st; try assumption.
    intros c0. rewrite acc_of_app, Hcons. unfold queue; simp_st.
    destruct (Z.eq_dec c0 c) as [->|Hne].
    + rewrite upd_eq, Er. unfold acc_of; cbn. rewrite Z.eqb_refl; cbn. rewrite <- app_assoc. reflexivity.
    + rewrite upd_neq by exact Hne. unfold acc_of; cbn.
      destruct (c =? c0) eqn:E; [apply Z.eqb_eq in E; subst; contradiction|]. cbn. rewrite app_nil_r. reflexivity.
  - (* Take *)
    destruct (st_hand s c) as [[|snap| |]|] eqn:Eh; try discriminate.
    destruct (st_recv s c) as [[|m q]|] eqn:Er; try discriminate.
    injection Hstep as <- <-. pose proof (Hsnap c snap Eh) as Hs.
    constructor; simp_st; try assumption.
    + intros c0. rewrite tasks_of_app, map_app, Hcons. unfold queue; simp_st.
      destruct (Z.eq_dec c0 c) as [->|Hne].
      * rewrite upd_eq, Er. unfold tasks_of at 2; cbn. rewrite Z.eqb_refl; cbn. rewrite <- app_assoc. reflexivity.
      * rewrite upd_neq by exact Hne. unfold tasks_of at 2; cbn.
        destruct (c =? c0) eqn:E; [apply Z.eqb_eq in E; subst; contradiction|]. cbn. rewrite app_nil_r. reflexivity.
    + destruct Hfly as [done [Ht Ho]]. exists done. split; [rewrite Ht, app_assoc; reflexivity|exact Ho].
    + apply mono_snoc; [exact Hmono|]. cbn. intros t0 Hin Hc. rewrite Hs, <- Hc. apply Hsub; exact Hin.
    + intros t Hin. apply in_app_or in Hin. destruct Hin as [Hin|[<-|[]]]; [apply Hsub; exact Hin|].
      cbn. rewrite Hs. apply incl_refl.
    + intros t Hin. apply in_app_or in Hin. destruct Hin as [Hin|[<-|[]]]; [apply Htnd; exact Hin|].
      cbn. rewrite Hs. apply Hnd.
  - (* Deliver *)
    destruct (st_fly s) as [|t r] eqn:Ef; [discriminate|]. injection Hstep as <- <-.
    constructor; simp_st; try assumption.
    destruct Hfly as [done [Ht Ho]]. exists (done ++ [t]). split.
    + rewrite Ht, <- app_assoc. reflexivity.
    + rewrite Ho, flat_map_app. cbn. rewrite app_nil_r. reflexivity.
  - (* HandlerFail *)
    assert (HI : Inv cats s) by (constructor; assumption).
    destruct (st_hand s c) as [[| | |]|]; try discriminate; injection Hstep as <- <-;
      apply set_hand_inv; try exact HI; intros snap; discriminate.
  - (* AddFault *) injection Hstep as <- <-; constructor; assumption.
  - (* Restart *) injection Hstep as <- <-; constructor; assumption.
Qed.

Lemma run_inv : forall cats es s s', Inv cats s -> run cats s es = Some s' -> Inv cats s'.
Proof.
  intros cats es; induction es as [|e es IH]; intros s s' HI Hr; cbn in Hr.
  - injection Hr as <-; exact HI.
  - destruct (step cats s e) as [[s1 o]|] eqn:Es; [|discriminate].
    eapply IH; [eapply step_inv; eassumption|exact Hr].
Qed.

Lemma reach_inv : forall cats es s, run cats init es = Some s -> Inv cats s.
Proof. intros cats es s H. eapply run_inv; [apply inv_init|exact H]. Qed.

(* ------------------------------------------------------------------ conservation *)
Lemma conservation : forall cats es s, run cats init es = Some s ->
  exists done, st_taken s = done ++ st_fly s /\ st_out s = flat_map fanout done /\
  forall c, acc_of c (st_acc s) =
            map t_msg (tasks_of c done) ++ map t_msg (tasks_of c (st_fly s)) ++ queue s c.
Proof.
  intros cats es s H. destruct (reach_inv _ _ _ H) as [Hcons [done [Ht Ho]] _ _ _ _ _ _].
  exists done. split; [exact Ht|]. split; [exact Ho|].
  intros c. rewrite Hcons, Ht, tasks_of_app, map_app, <- app_assoc. reflexivity.
Qed.

(* ------------------------------------------------------------------ exactly once, in take order *)
Lemma chan_out_flat : forall c n done, (forall t, In t done -> NoDup (t_snap t)) ->
  chan_out c n (flat_map fanout done) =
  map (fun t => sample_of n (t_msg t)) (filter (fun t => (t_comp t =? c) && mem_name n (t_snap t)) done).
Proof.
  intros c n done; induction done as [|t r IH]; intros Hnd; [reflexivity|].
  cbn [flat_map filter].
  rewrite chan_out_app, chan_out_fanout by (apply Hnd; left; reflexivity).
  rewrite IH by (intros t' Hin; apply Hnd; right; exact Hin).
  destruct ((t_comp t =? c) && mem_name n (t_snap t)); reflexivity.
Qed.

Lemma exactly_once_in_order : forall cats es s, run cats init es = Some s ->
  exists done, st_taken s = done ++ st_fly s /\
  forall c n, chan_out c n (st_out s) =
    map (fun t => sample_of n (t_msg t))
        (filter (fun t => (t_comp t =? c) && mem_name n (t_snap t)) done).
Proof.
  intros cats es s H. destruct (reach_inv _ _ _ H) as [_ [done [Ht Ho]] _ _ _ _ Htnd _].
  exists done. split; [exact Ht|]. intros c n. rewrite Ho. apply chan_out_flat.
  intros t Hin. apply Htnd. rewrite Ht. apply in_or_app; left; exact Hin.
Qed.

(* ------------------------------------------------------------------ snapshot = current subscriptions *)
Lemma take_snapshot_current : forall cats s c s' o, Inv cats s -> step cats s (Take c) = Some (s', o) ->
  exists m, st_taken s' = st_taken s ++ [mkT c (st_subs s c) m] /\ st_fly s' = st_fly s ++ [mkT c (st_subs s c) m] /\
            st_subs s' = st_subs s.
Proof.
  intros cats s c s' o HI Hstep. cbn [step] in Hstep.
  destruct (st_hand s c) as [[|snap| |]|] eqn:Eh; try discriminate.
  destruct (st_recv s c) as [[|m q]|] eqn:Er; try discriminate.
  injection Hstep as <- <-. rewrite (inv_snap cats s HI c snap Eh). exists m. cbn. auto.
Qed.

(* ------------------------------------------------------------------ monotonicity / existing unaffected *)
Lemma step_subs_mono : forall cats s e s' o c, step cats s e = Some (s', o) -> incl (st_subs s c) (st_subs s' c).
Proof.
  intros cats s e s' o c Hstep. destruct e as [c1 n|c1|c1|c1 m|c1| |c1|c1 n|]; cbn [step] in Hstep.
  - destruct (cats c1) as [cat|]; [|injection Hstep as <- <-; apply incl_refl].
    destruct (negb (supported cat (n_metric n))); [injection Hstep as <- <-; apply incl_refl|].
    destruct (mem_name n (st_subs s c1)); injection Hstep as <- <-; [apply incl_refl|]. cbn.
    destruct (Z.eq_dec c c1) as [->|Hne]; [rewrite upd_eq; apply incl_appl, incl_refl|rewrite upd_neq by exact Hne; apply incl_refl].
  - destruct (st_hand s c1) as [[| | |]|]; try discriminate; destruct (st_recv s c1); try discriminate;
      apply option_map_some in Hstep; destruct Hstep as [s1 [Ho Heq]]; injection Heq as -> ->;
      unfold do_open in Ho; destruct (cats c1); try discriminate; destruct (forallb _ _); injection Ho as <-; apply incl_refl.
  - destruct (st_hand s c1) as [[| | |]|]; try discriminate; destruct (st_recv s c1); try discriminate;
      apply option_map_some in Hstep; destruct Hstep as [s1 [Ho Heq]]; injection Heq as -> ->;
      unfold do_start in Ho; destruct (cats c1); try discriminate; destruct (forallb _ _); injection Ho as <-; apply incl_refl.
  - destruct (st_recv s c1); injection Hstep as <- <-; apply incl_refl.
  - destruct (st_hand s c1) as [[| | |]|]; try discriminate. destruct (st_recv s c1) as [[|]|]; try discriminate.
    injection Hstep as <- <-; apply incl_refl.
  - destruct (st_fly s); [discriminate|]. injection Hstep as <- <-; apply incl_refl.
  - destruct (st_hand s c1) as [[| | |]|]; try discriminate; injection Hstep as <- <-; apply incl_refl.
  - injection Hstep as <- <-; apply incl_refl.
  - injection Hstep as <- <-; apply incl_refl.
Qed.

Lemma step_taken : forall cats s e s' o, Inv cats s -> step cats s e = Some (s', o) ->
  st_taken s' = st_taken s \/ exists t, st_taken s' = st_taken s ++ [t] /\ t_snap t = st_subs s (t_comp t).
Proof.
  intros cats s e s' o HI Hstep. destruct e as [c1 n|c1|c1|c1 m|c1| |c1|c1 n|].
  - cbn [step] in Hstep. destruct (cats c1) as [cat|]; [|injection Hstep as <- <-; left; reflexivity].
    destruct (negb (supported cat (n_metric n))); [injection Hstep as <- <-; left; reflexivity|].
    destruct (mem_name n (st_subs s c1)); injection Hstep as <- <-; left; reflexivity.
  - cbn [step] in Hstep. destruct (st_hand s c1) as [[| | |]|]; try discriminate; destruct (st_recv s c1); try discriminate;
      apply option_map_some in Hstep; destruct Hstep as [s1 [Ho Heq]]; injection Heq as -> ->;
      rewrite (do_open_eq _ _ _ _ HI Ho); left; reflexivity.
  - cbn [step] in Hstep. destruct (st_hand s c1) as [[| | |]|]; try discriminate; destruct (st_recv s c1); try discriminate;
      apply option_map_some in Hstep; destruct Hstep as [s1 [Ho Heq]]; injection Heq as -> ->;
      rewrite (do_start_eq _ _ _ _ HI Ho); left; reflexivity.
  - cbn [step] in Hstep. destruct (st_recv s c1); injection Hstep as <- <-; left; reflexivity.
  - right. destruct (take_snapshot_current _ _ _ _ _ HI Hstep) as [m [Ht _]]. eexists; split; [exact Ht|reflexivity].
  - cbn [step] in Hstep. destruct (st_fly s); [discriminate|]. injection Hstep as <- <-; left; reflexivity.
  - cbn [step] in Hstep. destruct (st_hand s c1) as [[| | |]|]; try discriminate; injection Hstep as <- <-; left; reflexivity.
  - cbn [step] in Hstep. injection Hstep as <- <-; left; reflexivity.
  - cbn [step] in Hstep. injection Hstep as <- <-; left; reflexivity.
Qed.

Lemma existing_unaffected : forall cats es s s' c n,
  Inv cats s -> In n (st_subs s c) -> run cats s es = Some s' ->
  In n (st_subs s' c) /\
  exists new, st_taken s' = st_taken s ++ new /\ forall t, In t new -> t_comp t = c -> In n (t_snap t).
Proof.
  intros cats es; induction es as [|e es IH]; intros s s' c n HI Hin Hr; cbn in Hr.
  - injection Hr as <-. split; [exact Hin|]. exists []. rewrite app_nil_r. split; [reflexivity|intros t []].
  - destruct (step cats s e) as [[s1 o]|] eqn:Es; [|discriminate].
    pose proof (step_inv _ _ _ _ _ HI Es) as HI1.
    pose proof (step_subs_mono _ _ _ _ _ c Es n Hin) as Hin1.
    destruct (IH s1 s' c n HI1 Hin1 Hr) as [Hfin [new [Ht Hall]]]. split; [exact Hfin|].
    destruct (step_taken _ _ _ _ _ HI Es) as [E|[t [E Hsn]]].
    + exists new. rewrite Ht, E. split; [reflexivity|exact Hall].
    + exists (t :: new). rewrite Ht, E, <- app_assoc. split; [reflexivity|].
      intros t' [<-|Hin'] Hc; [rewrite Hsn, Hc; exact Hin|apply Hall; assumption].
Qed.

(* ------------------------------------------------------------------ gap-free suffix *)
Lemma mono_filter_suffix : forall l c n, mono l ->
  exists k, filter (fun t => mem_name n (t_snap t)) (tasks_of c l) = skipn k (tasks_of c l).
Proof.
  induction l as [|t r IH]; intros c n Hm; cbn; [exists 0%nat; reflexivity|].
  destruct Hm as [Ht Hm]. destruct (t_comp t =? c) eqn:Ec; [|apply IH; exact Hm].
  apply Z.eqb_eq in Ec. cbn. destruct (mem_name n (t_snap t)) eqn:Emem.
  - exists 0%nat. cbn. f_equal. apply filter_all. intros t' Hin.
    unfold tasks_of in Hin. apply filter_In in Hin. destruct Hin as [Hin Hc]. apply Z.eqb_eq in Hc.
    apply mem_name_In. apply (Ht t' Hin); [congruence|]. apply mem_name_In; exact Emem.
  - destruct (IH c n Hm) as [k Hk]. exists (S k). cbn. exact Hk.
Qed.

Lemma stream_gap_free : forall cats es s, run cats init es = Some s ->
  exists done, st_taken s = done ++ st_fly s /\
  forall c n, exists k,
    chan_out c n (st_out s) = map (sample_of n) (skipn k (map t_msg (tasks_of c done))) /\
    acc_of c (st_acc s) = map t_msg (tasks_of c done) ++ map t_msg (tasks_of c (st_fly s)) ++ queue s c.
Proof.
  intros cats es s H. pose proof (reach_inv _ _ _ H) as HI.
  destruct (conservation _ _ _ H) as [done [Ht [Ho Hc]]]. exists done. split; [exact Ht|].
  intros c n. assert (Hm : mono done) by (apply (mono_app_l done (st_fly s)); rewrite <- Ht; apply (inv_mono cats s HI)).
  destruct (mono_filter_suffix done c n Hm) as [k Hk]. exists k. split; [|apply Hc].
  rewrite Ho, chan_out_flat.
  - rewrite filter_andb. fold (tasks_of c done). rewrite Hk, skipn_map, map_map. reflexivity.
  - intros t Hin. apply (inv_tnodup cats s HI). rewrite Ht. apply in_or_app; left; exact Hin.
Qed.

(* ------------------------------------------------------------------ no-op requests *)
Lemma add_existing_noop : forall cats s c n, In n (st_subs s c) -> step cats s (AddMetric c n) = Some (s, []).
Proof.
  intros cats s c n Hin. cbn [step]. destruct (cats c) as [cat|]; [|reflexivity].
  destruct (negb (supported cat (n_metric n))); [reflexivity|].
  apply mem_name_In in Hin. rewrite Hin. reflexivity.
Qed.

Lemma add_twice_noop : forall cats s c n s1 o,
  step cats s (AddMetric c n) = Some (s1, o) -> step cats s1 (AddMetric c n) = Some (s1, []).
Proof.
  intros cats s c n s1 o Hstep. cbn [step] in *. destruct (cats c) as [cat|]; [|reflexivity].
  destruct (negb (supported cat (n_metric n))); [injection Hstep as <- <-; reflexivity|].
  destruct (mem_name n (st_subs s c)) eqn:Hmem; injection Hstep as <- <-.
  - rewrite Hmem. reflexivity.
  - simp_st. rewrite upd_eq. assert (Hin : mem_name n (st_subs s c ++ [n]) = true).
    { apply mem_name_In. apply in_or_app; right; left; reflexivity. }
    rewrite Hin. reflexivity.
Qed.

Lemma add_unknown_noop : forall cats s c n, cats c = None -> step cats s (AddMetric c n) = Some (s, []).
Proof. intros cats s c n H. cbn [step]. rewrite H. reflexivity. Qed.

(* a subscription request touches neither buffers, in-flight tasks, nor anything already sent, nor other components *)
Lemma add_frame : forall cats s c n s' o, step cats s (AddMetric c n) = Some (s', o) ->
  o = [] /\ st_recv s' = st_recv s /\ st_fly s' = st_fly s /\ st_out s' = st_out s /\ st_taken s' = st_taken s /\
  st_acc s' = st_acc s /\
  forall c', c' <> c -> st_subs s' c' = st_subs s c' /\ st_hand s' c' = st_hand s c'.
Proof.
  intros cats s c n s' o Hstep. cbn [step] in Hstep.
  destruct (cats c) as [cat|]; [destruct (negb (supported cat (n_metric n))); [|destruct (mem_name n (st_subs s c))]|];
    injection Hstep as <- <-; simp_st;
    repeat split; try reflexivity; rewrite upd_neq by assumption; reflexivity.
Qed.

(* ------------------------------------------------------------------ the trace checker only accepts runs *)
Lemma run_checked_run : forall cats evs s s',
  run_checked cats s evs = Some s' -> run cats s (map fst evs) = Some s'.
Proof.
  intros cats evs; induction evs as [|[e ob] r IH]; intros s s' H; cbn in *; [exact H|].
  destruct (step cats s e) as [[s1 o]|]; [|discriminate].
  destruct (obs_ok s s1 e o ob); [|discriminate]. apply IH; exact H.
Qed.

(* the two step/continuation facts, stated from a reachable state *)
Lemma take_snapshot_current_reach : forall cats es s c s' o, run cats init es = Some s ->
  step cats s (Take c) = Some (s', o) ->
  exists m, st_taken s' = st_taken s ++ [mkT c (st_subs s c) m] /\
            st_fly s' = st_fly s ++ [mkT c (st_subs s c) m] /\ st_subs s' = st_subs s.
Proof. intros cats es s c s' o H. apply take_snapshot_current. exact (reach_inv _ _ _ H). Qed.

Lemma existing_unaffected_reach : forall cats es0 es s s' c n,
  run cats init es0 = Some s -> In n (st_subs s c) -> run cats s es = Some s' ->
  In n (st_subs s' c) /\
  exists new, st_taken s' = st_taken s ++ new /\ forall t, In t new -> t_comp t = c -> In n (t_snap t).
Proof. intros cats es0 es s s' c n H. apply existing_unaffected. exact (reach_inv _ _ _ H). Qed.


(* ------------------------------------------------------------------ invalid requests (after the fix) *)
Lemma add_unsupported_noop : forall cats s c n cat,
  cats c = Some cat -> supported cat (n_metric n) = false -> step cats s (AddMetric c n) = Some (s, []).
Proof. intros cats s c n cat Hc Hs. cbn [step]. rewrite Hc, Hs. reflexivity. Qed.

(* a handler is in the crashed state only through a fault of the API client *)
Lemma step_nocrash : forall cats s e s' o, Inv cats s -> is_fault e = false ->
  (forall c, st_hand s c <> Some HCrashed) -> step cats s e = Some (s', o) ->
  forall c, st_hand s' c <> Some HCrashed.
Proof.
  intros cats s e s' o HI Hnf Hnc Hstep c0.
  destruct e as [c n|c|c|c m|c| |c|c n|]; cbn [step] in Hstep; try discriminate Hnf.
  - destruct (cats c) as [cat|]; [|injection Hstep as <- <-; apply Hnc].
    destruct (negb (supported cat (n_metric n))); [injection Hstep as <- <-; apply Hnc|].
    destruct (mem_name n (st_subs s c)); injection Hstep as <- <-; [apply Hnc|]. simp_st.
    destruct (Z.eq_dec c0 c) as [->|Hne]; [rewrite upd_eq; discriminate|rewrite upd_neq by exact Hne; apply Hnc].
  - destruct (st_hand s c) as [[| | |]|]; try discriminate; destruct (st_recv s c); try discriminate;
      apply option_map_some in Hstep; destruct Hstep as [s1 [Ho Heq]]; injection Heq as -> ->;
      rewrite (do_open_eq _ _ _ _ HI Ho); unfold set_hand; simp_st;
      (destruct (Z.eq_dec c0 c) as [->|Hne]; [rewrite upd_eq; discriminate|rewrite upd_neq by exact Hne; apply Hnc]).
  - destruct (st_hand s c) as [[| | |]|]; try discriminate; destruct (st_recv s c); try discriminate;
      apply option_map_some in Hstep; destruct Hstep as [s1 [Ho Heq]]; injection Heq as -> ->;
      rewrite (do_start_eq _ _ _ _ HI Ho); simp_st;
      (destruct (Z.eq_dec c0 c) as [->|Hne]; [rewrite upd_eq; discriminate|rewrite upd_neq by exact Hne; apply Hnc]).
  - destruct (st_recv s c); injection Hstep as <- <-; apply Hnc.
  - destruct (st_hand s c) as [[| | |]|]; try discriminate. destruct (st_recv s c) as [[|]|]; try discriminate.
    injection Hstep as <- <-; apply Hnc.
  - destruct (st_fly s); [discriminate|]. injection Hstep as <- <-; apply Hnc.
  - injection Hstep as <- <-; apply Hnc.
  - injection Hstep as <- <-; apply Hnc.
Qed.

Lemma run_nocrash : forall cats es s s', Inv cats s -> existsb is_fault es = false ->
  (forall c, st_hand s c <> Some HCrashed) -> run cats s es = Some s' ->
  forall c, st_hand s' c <> Some HCrashed.
Proof.
  intros cats es; induction es as [|e es IH]; intros s s' HI Hnf Hnc Hr; cbn in Hr.
  - injection Hr as <-; exact Hnc.
  - cbn in Hnf. apply orb_false_iff in Hnf. destruct Hnf as [Hf Hfs].
    destruct (step cats s e) as [[s1 o]|] eqn:Es; [|discriminate].
    eapply IH; [eapply step_inv; eassumption|exact Hfs| |exact Hr].
    eapply step_nocrash; eassumption.
Qed.

Lemma never_crashed : forall cats es s c, run cats init es = Some s -> existsb is_fault es = false ->
  st_hand s c <> Some HCrashed.
Proof.
  intros cats es s c H Hnf. eapply run_nocrash; [apply inv_init|exact Hnf| |exact H].
  intros c0; cbn; discriminate.
Qed.

(* faults and restarts leave everything the property talks about untouched *)
Lemma fault_frame : forall cats s e s' o,
  (match e with HandlerFail _ | AddFault _ _ | Restart => True | _ => False end) ->
  step cats s e = Some (s', o) ->
  o = [] /\ st_subs s' = st_subs s /\ st_recv s' = st_recv s /\ st_fly s' = st_fly s /\ st_out s' = st_out s /\
  st_taken s' = st_taken s /\ st_acc s' = st_acc s /\
  (match e with HandlerFail _ => True | _ => s' = s end).
Proof.
  intros cats s e s' o He Hstep. destruct e as [c n|c|c|c m|c| |c|c n|]; try contradiction; cbn [step] in Hstep.
  - destruct (st_hand s c) as [[| | |]|]; try discriminate; injection Hstep as <- <-; unfold set_hand; simp_st; repeat split; reflexivity.
  - injection Hstep as <- <-; repeat split; reflexivity.
  - injection Hstep as <- <-; repeat split; reflexivity.
Qed.

Lemma handler_start_runs : forall cats es s c s' o, run cats init es = Some s ->
  step cats s (HandlerStart c) = Some (s', o) -> st_hand s' c = Some (HRunning (st_subs s c)).
Proof.
  intros cats es s c s' o H Hstep. pose proof (reach_inv _ _ _ H) as HI. cbn [step] in Hstep.
  destruct (st_hand s c) as [[| | |]|]; try discriminate; destruct (st_recv s c); try discriminate;
    apply option_map_some in Hstep; destruct Hstep as [s1 [Ho Heq]]; injection Heq as -> ->;
    rewrite (do_start_eq _ _ _ _ HI Ho); simp_st; apply upd_eq.
Qed.

(* the opening call: only the handler's own state changes; a request arriving while it is pending sends the
   handler back to "starting" (the task is cancelled in that await and replaced) *)
Lemma open_frame : forall cats es s c s' o, run cats init es = Some s ->
  step cats s (HandlerOpen c) = Some (s', o) -> s' = set_hand s c HOpening /\ o = [] /\ st_recv s c = None.
Proof.
  intros cats es s c s' o H Hstep. pose proof (reach_inv _ _ _ H) as HI. cbn [step] in Hstep.
  destruct (st_hand s c) as [[| | |]|]; try discriminate; destruct (st_recv s c) eqn:Er; try discriminate;
    apply option_map_some in Hstep; destruct Hstep as [s1 [Ho Heq]]; injection Heq as -> ->;
    rewrite (do_open_eq _ _ _ _ HI Ho); auto.
Qed.

Lemma add_while_opening : forall cats s c n cat,
  st_hand s c = Some HOpening -> cats c = Some cat -> supported cat (n_metric n) = true -> ~ In n (st_subs s c) ->
  exists s', step cats s (AddMetric c n) = Some (s', []) /\ st_hand s' c = Some HStarting /\
             st_subs s' c = st_subs s c ++ [n] /\ st_recv s' = st_recv s.
Proof.
  intros cats s c n cat Hh Hc Hs Hn. cbn [step]. rewrite Hc, Hs. cbn [negb].
  apply mem_name_false in Hn. rewrite Hn. eexists. split; [reflexivity|]. simp_st. rewrite !upd_eq. auto.
Qed.



(* ------------------------------------------------------------------ request bursts *)
Lemma req_burst_no_loss : forall A (cap : nat) (rs q : list A),
  (length q + length rs <= cap)%nat -> req_burst cap q rs = q ++ rs.
Proof.
  intros A cap rs; induction rs as [|r rs IH]; intros q Hlen; cbn in *.
  - rewrite app_nil_r; reflexivity.
  - unfold req_enqueue at 2. destruct (cap <=? length q)%nat eqn:E.
    + apply Nat.leb_le in E. lia.
    + unfold req_burst in IH. rewrite IH.
      * rewrite <- app_assoc. reflexivity.
      * rewrite app_length; cbn; lia.
Qed.

Lemma req_burst_from_empty : forall A (cap : nat) (rs : list A),
  (length rs <= cap)%nat -> req_burst cap [] rs = rs.
Proof. intros A cap rs H. apply (req_burst_no_loss A cap rs []). cbn; exact H. Qed.

(* beyond the capacity the oldest requests are the ones that go *)
Lemma req_burst_length : forall A (cap : nat) (rs q : list A),
  (0 < cap)%nat -> (length q <= cap)%nat -> length (req_burst cap q rs) = Nat.min cap (length q + length rs).
Proof.
  intros A cap rs; induction rs as [|r rs IH]; intros q Hc Hq; cbn.
  - lia.
  - unfold req_burst in IH. rewrite IH; try exact Hc.
    + unfold req_enqueue. destruct (cap <=? length q)%nat eqn:E.
      * apply Nat.leb_le in E. rewrite app_length; cbn. destruct q; cbn in *; lia.
      * apply Nat.leb_gt in E. rewrite app_length; cbn. lia.
    + unfold req_enqueue. destruct (cap <=? length q)%nat eqn:E.
      * apply Nat.leb_le in E. rewrite app_length; cbn. destruct q; cbn in *; lia.
      * apply Nat.leb_gt in E. rewrite app_length; cbn. lia.
Qed.


(* the capacity the pipeline gives the actor's request receiver (translated `limit=` keyword) is the configured
   constant (translated `_REQUEST_RECV_BUFFER_SIZE`): a fact about the code as it is now, re-checked on every run *)
Lemma request_limit_is_configured_size : data_sourcing_request_limit = request_recv_buffer_size.
Proof. vm_compute. reflexivity. Qed.

Lemma request_burst_served : forall A (rs : list A),
  (length rs <= Z.to_nat request_recv_buffer_size)%nat ->
  req_burst (Z.to_nat data_sourcing_request_limit) [] rs = rs.
Proof. intros A rs H. apply req_burst_from_empty. rewrite request_limit_is_configured_size. exact H. Qed.


(* a request whose handling failed is NOT subscribed: sending it again (after the restart) is a fresh AddMetric *)
Lemma repeat_after_fault_is_served : forall cats s c n cat s1 o1 s2 o2,
  step cats s (AddFault c n) = Some (s1, o1) -> step cats s1 Restart = Some (s2, o2) ->
  cats c = Some cat -> supported cat (n_metric n) = true -> ~ In n (st_subs s c) ->
  ~ In n (st_subs s2 c) /\
  exists s3, step cats s2 (AddMetric c n) = Some (s3, []) /\ st_subs s3 c = st_subs s c ++ [n] /\
             st_hand s3 c = Some HStarting.
Proof.
  intros cats s c n cat s1 o1 s2 o2 H1 H2 Hc Hs Hn. cbn [step] in H1, H2.
  injection H1 as <- <-. injection H2 as <- <-. split; [exact Hn|].
  cbn [step]. rewrite Hc, Hs. cbn [negb]. apply mem_name_false in Hn. rewrite Hn.
  eexists. split; [reflexivity|]. simp_st. rewrite !upd_eq. auto.
Qed.
