(* Formula engine (C05): the shunting-yard builder with the translated precedence table compiles
   every well-formed formula to a post-fix program whose result is the value of the formula under
   ordinary precedence / left-to-right evaluation.

   Layers:
   1. [D]-level shunting yard on one parenthesis-free segment ([sy]) = ordinary evaluation [std]:
      invariant [Rel] over the 16 operator-stack shapes that can occur, 16 x 4 step cases and 16
      final cases, each an identity of exact arithmetic WITH undefinedness ([D] = option Q, a zero
      divisor or a missing operand is [None]; nothing uses x / 0 = 0).
   2. the builder's push_oper / finalize refine that machine ([pop_ops_reduce], [collapse_exec]),
      generically in the stack (no enumeration), for every frame bottom ("(" or empty stack).
   3. structural induction over the grammar form lifts it through parentheses ([atom_all]).
   4. the AST printed by the standard printer [pp] is in grammar form ([pp_flat]) with the same
      value ([flat_value]). *)
From Coq Require Import ZArith NArith QArith List Bool Lia Setoid Morphisms.
From Verif Require Import model.Common gen.Formula model.Formula proofs.FormulaFacts proofs.FormulaHO.
Import ListNotations.
Local Open Scope list_scope.

(* ------------------------------------------------------------------ D as a setoid *)
Lemma Qeq_bool_proper x y : Qeq x y -> Qeq_bool x 0 = Qeq_bool y 0.
Proof.
  intros H. destruct (Qeq_bool x 0) eqn:Ex, (Qeq_bool y 0) eqn:Ey; try reflexivity.
  - apply Qeq_bool_iff in Ex. apply Qeq_bool_neq in Ey. exfalso. apply Ey. rewrite <- H. exact Ex.
  - apply Qeq_bool_iff in Ey. apply Qeq_bool_neq in Ex. exfalso. apply Ex. rewrite H. exact Ey.
Qed.

Global Instance deq_equiv : Equivalence deq.
Proof.
  split.
  - intros [x|]; cbn; [reflexivity|exact I].
  - intros [x|] [y|]; cbn; try tauto. intros H. symmetry. exact H.
  - intros [x|] [y|] [z|]; cbn; try tauto. intros H1 H2. rewrite H1. exact H2.
Qed.

Global Instance dapp_proper : Proper (eq ==> deq ==> deq ==> deq) dapp.
Proof.
  intros o o' <- [a|] [a'|] Ha [b|] [b'|] Hb; cbn in *; try contradiction; try exact I.
  destruct o; cbn; try (rewrite Ha, Hb; reflexivity).
  rewrite (Qeq_bool_proper b b' Hb). destruct (Qeq_bool b' 0); cbn; [exact I|].
  rewrite Ha, Hb. reflexivity.
Qed.

Ltac dsolve :=
  repeat match goal with x : D |- _ => destruct x as [?|] end;
  cbn;
  repeat match goal with |- context [Qeq_bool ?q 0] => destruct (Qeq_bool q 0); cbn end;
  try exact I; try (unfold Qdiv, Qminus; ring).

Lemma dapp_zero_l x : deq (dapp Add (Some 0%Q) x) x.
Proof. dsolve. Qed.

(* ------------------------------------------------------------------ 1. one segment, on D *)
Definition brank (o : bop) : nat := match o with Div => 5 | Mul => 6 | Sub => 7 | Add => 8 end.

Lemma rank_bop o : rank (oper_of_bop o) = brank o.
Proof. destruct o; reflexivity. Qed.

Fixpoint reduce (o : bop) (vs : list D) (os : list bop) : option (list D * list bop) :=
  match os with
  | [] => Some (vs, [])
  | p :: os' =>
      if (brank o <? brank p)%nat then Some (vs, os)
      else match vs with
           | b :: a :: vs' => reduce o (dapp p a b :: vs') os'
           | _ => None
           end
  end.

Fixpoint collapse (vs : list D) (os : list bop) : option D :=
  match os, vs with
  | [], [v] => Some v
  | o :: os', b :: a :: vs' => collapse (dapp o a b :: vs') os'
  | _, _ => None
  end.

Fixpoint sy (vs : list D) (os : list bop) (rest : list (bop * D)) : option D :=
  match rest with
  | [] => collapse vs os
  | (o, x) :: r =>
      match reduce o vs os with
      | Some (vs', os') => sy (x :: vs') (o :: os') r
      | None => None
      end
  end.

(* the standard left-to-right state (S pm T) that a shunting-yard state stands for *)
Definition Rel (vs : list D) (os : list bop) (S : D) (pm : bop) (T : D) : Prop :=
  match os, vs with
  | [], [t] => deq S (Some 0%Q) /\ pm = Add /\ deq T t
  | [Add], [t; a] => deq S a /\ pm = Add /\ deq T t
  | [Sub], [t; a] => deq S a /\ pm = Sub /\ deq T t
  | [Sub; Add], [t; b; a] => deq S (dapp Add a b) /\ pm = Sub /\ deq T t
  | [Mul], [t; a] => deq S (Some 0%Q) /\ pm = Add /\ deq T (dapp Mul a t)
  | [Div], [t; a] => deq S (Some 0%Q) /\ pm = Add /\ deq T (dapp Div a t)
  | [Div; Mul], [t; b; a] => deq S (Some 0%Q) /\ pm = Add /\ deq T (dapp Mul a (dapp Div b t))
  | [Mul; Add], [t; b; a] => deq S a /\ pm = Add /\ deq T (dapp Mul b t)
  | [Mul; Sub], [t; b; a] => deq S a /\ pm = Sub /\ deq T (dapp Mul b t)
  | [Div; Add], [t; b; a] => deq S a /\ pm = Add /\ deq T (dapp Div b t)
  | [Div; Sub], [t; b; a] => deq S a /\ pm = Sub /\ deq T (dapp Div b t)
  | [Mul; Sub; Add], [t; c; b; a] => deq S (dapp Add a b) /\ pm = Sub /\ deq T (dapp Mul c t)
  | [Div; Sub; Add], [t; c; b; a] => deq S (dapp Add a b) /\ pm = Sub /\ deq T (dapp Div c t)
  | [Div; Mul; Add], [t; c; b; a] => deq S a /\ pm = Add /\ deq T (dapp Mul b (dapp Div c t))
  | [Div; Mul; Sub], [t; c; b; a] => deq S a /\ pm = Sub /\ deq T (dapp Mul b (dapp Div c t))
  | [Div; Mul; Sub; Add], [t; d; c; b; a] =>
      deq S (dapp Add a b) /\ pm = Sub /\ deq T (dapp Mul c (dapp Div d t))
  | _, _ => False
  end.

Lemma std_proper rest : forall S S' pm T T',
  deq S S' -> deq T T' -> deq (std S pm T rest) (std S' pm T' rest).
Proof.
  induction rest as [|[o x] r IH]; intros S S' pm T T' HS HT; cbn.
  - rewrite HS, HT. reflexivity.
  - destruct o; apply IH; try assumption; try reflexivity; rewrite ?HS, ?HT; reflexivity.
Qed.

Ltac shape os vs :=
  destruct os as [|[] [|[] [|[] [|[] [|? ?]]]]]; cbn in *; try contradiction;
  destruct vs as [|? [|? [|? [|? [|? [|? ?]]]]]]; cbn in *; try contradiction.

Lemma sy_std rest : forall vs os S pm T, Rel vs os S pm T ->
  exists res, sy vs os rest = Some res /\ deq res (std S pm T rest).
Proof.
  induction rest as [|[o x] r IH]; intros vs os S pm T HR.
  - shape os vs; destruct HR as (HS & -> & HT); eexists; (split; [reflexivity|]);
      cbn; rewrite HS, HT; clear HS HT; dsolve.
  - shape os vs; destruct HR as (HS & -> & HT); destruct o; cbn;
    match goal with
    | |- exists r0, sy ?vs' ?os' r = Some r0 /\ deq r0 (std ?S' ?pm' ?T' r) =>
      let H := fresh in
      assert (H : Rel vs' os' S' pm' T')
        by (cbn; repeat split; try reflexivity; rewrite ?HS, ?HT; clear HS HT; dsolve);
      destruct (IH vs' os' S' pm' T' H) as (r0 & Hsy & Heq);
      exists r0; split; [exact Hsy | exact Heq]
    end.
Qed.

Theorem sy_flat_correct v0 rest :
  exists res, sy [v0] [] rest = Some res /\ deq res (std (Some 0%Q) Add v0 rest).
Proof. apply sy_std; cbn; repeat split; reflexivity. Qed.

(* ------------------------------------------------------------------ grammar form: induction, values *)
Section GInd.
Variable P : gexpr -> Prop.
Hypothesis HV : forall n, P (GVar n).
Hypothesis HC : forall q, P (GConst q).
Hypothesis HS : forall f r, P f -> Forall (fun p => P (snd p)) r -> P (GSeg f r).
Fixpoint gexpr_ind' (g : gexpr) : P g :=
  match g with
  | GVar n => HV n
  | GConst q => HC q
  | GSeg f r =>
      HS f r (gexpr_ind' f)
         ((fix go (r : list (bop * gexpr)) : Forall (fun p => P (snd p)) r :=
             match r with
             | [] => Forall_nil _
             | p :: r' => Forall_cons p (gexpr_ind' (snd p)) (go r')
             end) r)
  end.
End GInd.

(* the value as the shunting yard associates it *)
Fixpoint gsy (fd : N -> D) (g : gexpr) : D :=
  match g with
  | GVar n => fd n
  | GConst q => Some q
  | GSeg f r =>
      match sy [gsy fd f] [] (map (fun p => (fst p, gsy fd (snd p))) r) with
      | Some d => d
      | None => None
      end
  end.

Lemma std_proper_rest : forall r r' S S' pm T T',
  Forall2 (fun p q => fst p = fst q /\ deq (snd p) (snd q)) r r' ->
  deq S S' -> deq T T' -> deq (std S pm T r) (std S' pm T' r').
Proof.
  induction r as [|[o x] r IH]; intros r' S S' pm T T' HF HS HT; inversion HF; subst; cbn.
  - rewrite HS, HT. reflexivity.
  - destruct y as [o' x']. cbn in *. destruct H1 as [<- Hx].
    destruct o; apply IH; try assumption; try reflexivity; rewrite ?HS, ?HT, ?Hx; reflexivity.
Qed.

Lemma gsy_gval fd : forall g, deq (gsy fd g) (gval fd g).
Proof.
  induction g as [n|q|f r IHf IHr] using gexpr_ind'; cbn [gsy gval]; try reflexivity.
  destruct (sy_flat_correct (gsy fd f) (map (fun p => (fst p, gsy fd (snd p))) r)) as (res & -> & Hres).
  rewrite Hres. apply std_proper_rest; [|reflexivity|exact IHf].
  induction IHr as [|p r Hp _ IH]; cbn.
  Show.
  - constructor.
  - Show.
