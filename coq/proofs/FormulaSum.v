(* Formula engine, link C12 <-> C05: the call sequence of the formula generators (first term,
   then "+"/"-" and a term, then build) compiles to a program whose round value is
   sum_i sign_i * value_i under C13's missing-value rules. *)
From Coq Require Import ZArith NArith QArith List Bool Lia Setoid Morphisms.
From Verif Require Import model.Common gen.Formula model.Formula proofs.FormulaFacts proofs.FormulaHO
  proofs.FormulaSY proofs.FormulaNaN.
Import ListNotations.
Local Open Scope list_scope.

(* ------------------------------------------------------------------ the success of exec depends on stack depth only *)
Definition same_depth (a b : option (list val)) : Prop :=
  match a, b with
  | Some x, Some y => length x = length y
  | None, None => True
  | _, _ => False
  end.

Lemma exec_step_depth rnd1 fv1 rnd2 fv2 s st1 st2 : length st1 = length st2 ->
  same_depth (exec_step rnd1 fv1 s st1) (exec_step rnd2 fv2 s st2).
Proof.
  intros H.
  destruct s; cbn; unfold bin2, un1;
    destruct st1 as [|a1 [|b1 r1]], st2 as [|a2 [|b2 r2]]; cbn in *; try discriminate; try exact I; try lia.
Qed.

Lemma exec_depth rnd1 fv1 rnd2 fv2 p : forall st1 st2, length st1 = length st2 ->
  same_depth (exec rnd1 fv1 p st1) (exec rnd2 fv2 p st2).
Proof.
  induction p as [|s p IH]; intros st1 st2 H; cbn; [exact H|].
  pose proof (exec_step_depth rnd1 fv1 rnd2 fv2 s st1 st2 H) as E.
  destruct (exec_step rnd1 fv1 s st1), (exec_step rnd2 fv2 s st2); cbn in E; try contradiction; [apply IH, E|exact I].
Qed.

(* ------------------------------------------------------------------ the generators' call sequence *)
Definition gen_g (n0 : N) (rest : list sterm) : gexpr :=
  GSeg (GVar n0) (map (fun t => (st_op t, GVar (st_id t))) rest).

Definition same_code (a b : builder) : Prop := b_stack a = b_stack b /\ b_steps a = b_steps b.

Lemma grest_terms rest :
  grest (map (fun t => (st_op t, GVar (st_id t))) rest) =
  flat_map (fun t => [TOper (oper_of_bop (st_op t)); TMetric (st_id t)]) rest.
Proof. induction rest as [|t rest IH]; [reflexivity|]. cbn [map flat_map]. rewrite grest_cons, IH. reflexivity. Qed.

Lemma signed_calls_code rest : forall a b, same_code a b ->
  same_code (fold_left (fun b t => push_metric (st_id t) (st_nz t) (push_oper (oper_of_bop (st_op t)) b)) rest a)
            (run_toks false b (flat_map (fun t => [TOper (oper_of_bop (st_op t)); TMetric (st_id t)]) rest)).
Proof.
  induction rest as [|t rest IH]; intros a b H; [exact H|].
  cbn [fold_left flat_map app]. rewrite !run_toks_cons. apply IH.
  destruct H as [H1 H2]. cbn [feed]. unfold same_code, push_metric, push_oper. cbn [b_stack b_steps].
  rewrite H1, H2.
  destruct (if is_lp (oper_of_bop (st_op t)) then ([], b_stack b) else pop_ops (oper_of_bop (st_op t)) (b_stack b)).
  cbn. auto.
Qed.

Lemma compile_signed_steps n0 z0 rest :
  fst (compile_signed n0 z0 rest) = fst (compile false (gtokens (gen_g n0 rest))).
Proof.
  unfold compile_signed, compile, finalize, signed_calls, gen_g. cbn [fst gtokens gatom].
  rewrite grest_terms. fold (run_toks false empty_builder ([TMetric n0] ++ flat_map (fun t => [TOper (oper_of_bop (st_op t)); TMetric (st_id t)]) rest)).
  rewrite run_toks_app.
  destruct (signed_calls_code rest (push_metric n0 z0 empty_builder) (run_toks false empty_builder [TMetric n0])) as [H1 H2].
  { split; reflexivity. }
  rewrite H1, H2. reflexivity.
Qed.

(* fetchers: first occurrence of an id fixes its flag *)
Lemma signed_fetch_flags rest : forall b l,
  (forall n, has_key (b_fetch b) n = has_key l n) -> (forall n, nz_flag (b_fetch b) n = nz_flag l n) ->
  forall n, nz_flag (b_fetch (fold_left (fun b t => push_metric (st_id t) (st_nz t) (push_oper (oper_of_bop (st_op t)) b)) rest b)) n
            = nz_flag (l ++ map (fun t => (st_id t, st_nz t)) rest) n.
Proof.
  induction rest as [|t rest IH]; intros b l Hk Hf n; cbn [fold_left map].
  - rewrite app_nil_r. apply Hf.
  - change (l ++ (st_id t, st_nz t) :: map (fun t0 => (st_id t0, st_nz t0)) rest)
      with (l ++ [(st_id t, st_nz t)] ++ map (fun t0 => (st_id t0, st_nz t0)) rest).
    rewrite app_assoc. apply IH; clear IH n; intros n; unfold push_metric, push_oper;
      destruct (if is_lp (oper_of_bop (st_op t)) then ([], b_stack b) else pop_ops (oper_of_bop (st_op t)) (b_stack b));
      cbn [b_fetch].
    + rewrite has_key_app. cbn [has_key]. destruct (has_key (b_fetch b) (st_id t)) eqn:E.
      * rewrite Hk. destruct (N.eqb_spec (st_id t) n) as [<-|Hne]; [|rewrite orb_false_r; reflexivity].
        rewrite <- Hk, E. reflexivity.
      * rewrite has_key_app, Hk. reflexivity.
    + rewrite nz_flag_app. destruct (has_key (b_fetch b) (st_id t)) eqn:E.
      * rewrite <- Hk. destruct (has_key (b_fetch b) n) eqn:En; [apply Hf|].
        cbn [nz_flag]. destruct (N.eqb_spec (st_id t) n) as [<-|Hne]; [congruence|]. rewrite Hf.
        (* n is in neither list *)
        assert (Hl : has_key l n = false) by (rewrite <- Hk; exact En).
        clear -Hl. induction l as [|[m z] l IHl]; [reflexivity|]. cbn in *.
        apply orb_false_iff in Hl. destruct Hl as [H1 H2]. rewrite H1. apply IHl, H2.
      * rewrite nz_flag_app, <- Hk, Hf. reflexivity.
Qed.

Lemma compile_signed_flag n0 z0 rest n :
  nz_flag (snd (compile_signed n0 z0 rest)) n = signed_flag n0 z0 rest n.
Proof.
  unfold compile_signed, finalize, signed_calls, signed_flag. cbn [snd].
  apply (signed_fetch_flags rest (push_metric n0 z0 empty_builder) [(n0, z0)]); intros m; reflexivity.
Qed.

(* ------------------------------------------------------------------ values *)
Lemma std_addsub r : Forall (fun p => level (fst p) = 0%nat) r -> forall S pm T,
  std S pm T r = fold_left (fun acc p => dapp (fst p) acc (snd p)) r (dapp pm S T).
Proof.
  induction 1 as [|[o x] r Ho _ IH]; intros S pm T; [reflexivity|].
  cbn in Ho. destruct o; try discriminate; cbn; apply IH.
Qed.

Lemma fold_dapp_proper (r : list (bop * D)) : forall a b, deq a b ->
  deq (fold_left (fun acc p => dapp (fst p) acc (snd p)) r a) (fold_left (fun acc p => dapp (fst p) acc (snd p)) r b).
Proof. induction r as [|p r IH]; intros a b H; [exact H|]. cbn. apply IH. rewrite H. reflexivity. Qed.

Lemma gen_g_value fd n0 rest : deq (gval fd (gen_g n0 rest)) (signed_sum fd n0 rest).
Proof.
  unfold gen_g, signed_sum. cbn [gval]. rewrite map_map. cbn [fst snd gval].
  rewrite std_addsub.
  - rewrite (fold_dapp_proper _ _ _ (dapp_zero_l (fd n0))).
    generalize (fd n0). induction rest as [|t rest IH]; intros d; [reflexivity|]. cbn. apply IH.
  - induction rest as [|t rest IH]; constructor; [|exact IH]. unfold st_op. cbn. destruct (fst (fst t)); reflexivity.
Qed.

Lemma signed_sum_none_iff fd n0 rest :
  signed_sum fd n0 rest = None <-> fd n0 = None \/ exists t, In t rest /\ fd (st_id t) = None.
Proof.
  unfold signed_sum. generalize (fd n0). induction rest as [|t rest IH]; intros d; cbn [fold_left].
  - split; [auto|]. intros [H|(t & [] & _)]. exact H.
  - rewrite IH. split.
    + intros [H|(u & Hu & Hn)]; [|right; exists u; split; [right; exact Hu|exact Hn]].
      destruct d as [x|]; [|left; reflexivity]. right. exists t. split; [left; reflexivity|].
      destruct (fd (st_id t)); [|reflexivity]. unfold st_op in H. destruct (fst (fst t)); discriminate.
    + intros [->|(u & [<-|Hu] & Hn)].
      * left. reflexivity.
      * left. rewrite Hn. destruct d; reflexivity.
      * right. exists u. auto.
Qed.

(* ------------------------------------------------------------------ rounds *)
(* exact arithmetic: the emitted value is the signed sum; None exactly when a term is missing on
   a stream whose (first-occurrence) flag is not nones_are_zeros *)
Theorem signed_round n0 z0 rest env :
  outcome_equiv (run_round Num (compile_signed n0 z0 rest) env)
                (Emit (signed_sum (fun n => fetch_D (signed_flag n0 z0 rest n) (env n)) n0 rest)).
Proof.
  unfold run_round. rewrite compile_signed_steps.
  rewrite (exec_ext Num _ (fun n => fetch_val (signed_flag n0 z0 rest n) (env n)))
    by (intros n _; rewrite compile_signed_flag; reflexivity).
  rewrite (gtokens_exec (fun n => fetch_val (signed_flag n0 z0 rest n) (env n)) false
             (fun n => fetch_D (signed_flag n0 z0 rest n) (env n))
             (fun n => fetch_val_D _ (env n)) (gen_g n0 rest)).
  rewrite finish_inj. cbn [outcome_equiv].
  rewrite (gsy_gval _ (gen_g n0 rest)). apply gen_g_value.
Qed.

(* every rounding function: a sample in every round ... *)
Theorem signed_always_emits rnd n0 z0 rest env : run_round rnd (compile_signed n0 z0 rest) env <> Dropped.
Proof.
  unfold run_round.
  set (fv := fun n => fetch_val (nz_flag (snd (compile_signed n0 z0 rest)) n) (env n)).
  pose proof (exec_depth rnd fv Num (fun n => inj (Some 0%Q)) (fst (compile_signed n0 z0 rest)) [] [] eq_refl) as H.
  rewrite compile_signed_steps in H at 2.
  rewrite (gtokens_exec (fun n => inj (Some 0%Q)) false (fun _ => Some 0%Q) (fun _ => eq_refl) (gen_g n0 rest)) in H.
  destruct (exec rnd fv (fst (compile_signed n0 z0 rest)) []) as [[|v [|w l]]|]; cbn in H; try discriminate; try contradiction.
  destruct v; discriminate.
Qed.

Lemma signed_steps_mono rest : forall b x, In x (b_steps b) ->
  In x (b_steps (fold_left (fun b t => push_metric (st_id t) (st_nz t) (push_oper (oper_of_bop (st_op t)) b)) rest b)).
Proof.
  induction rest as [|t rest IH]; intros b x H; [exact H|]. cbn [fold_left]. apply IH.
  unfold push_metric, push_oper.
  destruct (if is_lp (oper_of_bop (st_op t)) then ([], b_stack b) else pop_ops (oper_of_bop (st_op t)) (b_stack b)).
  cbn [b_steps]. apply in_or_app. left. apply in_or_app. left. exact H.
Qed.

Lemma signed_steps_fetch n0 z0 rest n :
  n = n0 \/ (exists t, In t rest /\ st_id t = n) -> In (SFetch n) (fst (compile_signed n0 z0 rest)).
Proof.
  unfold compile_signed, finalize, signed_calls. cbn [fst]. intros H. apply in_or_app. left.
  destruct H as [->|(t & Ht & <-)].
  - apply signed_steps_mono. cbn. left. reflexivity.
  - generalize (push_metric n0 z0 empty_builder). induction rest as [|u rest IH]; intros b; [destruct Ht|].
    cbn [fold_left]. destruct Ht as [->|Ht]; [|apply IH, Ht].
    apply signed_steps_mono. unfold push_metric. cbn [b_steps]. apply in_or_app. right. left. reflexivity.
Qed.

(* ... and it is None as soon as one term is missing on a stream that is not zero-configured *)
Theorem signed_missing_none rnd n0 z0 rest env n :
  n = n0 \/ (exists t, In t rest /\ st_id t = n) ->
  missing (env n) = true -> signed_flag n0 z0 rest n = false ->
  run_round rnd (compile_signed n0 z0 rest) env = Emit None.
Proof.
  intros Hin Hm Hz.
  pose proof (signed_always_emits rnd n0 z0 rest env) as He. unfold run_round in *.
  set (fv := fun n => fetch_val (nz_flag (snd (compile_signed n0 z0 rest)) n) (env n)) in *.
  assert (Hn : fv n = NaN).
  { unfold fv. rewrite compile_signed_flag, Hz. destruct (env n); try discriminate; reflexivity. }
  pose proof (exec_fetch_nan rnd fv _ n (signed_steps_fetch n0 z0 rest n Hin) Hn []) as Hx.
  destruct (exec rnd fv (fst (compile_signed n0 z0 rest)) []) as [[|v [|w l]]|]; cbn in He |- *; try congruence.
  - destruct (Hx _ eq_refl) as [->|[]]. reflexivity.
  - destruct v; cbn in He; congruence.
Qed.
