(* Formula engine: the hand-written step semantics of model/Formula.v IS the `apply` body of each
   step class as translated from _formula_steps.py (gen/Formula.v), instantiated with the model's
   value operations.  Proofs are one generic case split, so a rewrite of the source that keeps the
   meaning re-passes and one that changes it (operand order, a dropped NaN / zero test) does not. *)
From Coq Require Import ZArith NArith QArith List Bool.
From Verif Require Import model.Common gen.Formula model.Formula.
Import ListNotations.

Ltac case_atom :=
  match goal with
  | |- context [Qeq_bool ?a ?b] => destruct (Qeq_bool a b) eqn:?
  | |- context [Qle_bool ?a ?b] => destruct (Qle_bool a b) eqn:?
  | |- context [Qcompare ?a ?b] => destruct (Qcompare a b) eqn:?
  end.
Ltac case_if := match goal with |- context [if ?c then _ else _] => destruct c eqn:? end.
Ltac step_tac :=
  cbn; unfold inject_Z; rewrite ?Qeq_bool_refl; cbn; try reflexivity;
  unfold vmax, vmin, pymax, pymin, vcons, vprod, vclip, bin2, un1, Qlt_bool; cbn; unfold inject_Z; rewrite ?Qeq_bool_refl; cbn;
  repeat (case_atom; cbn); repeat (case_if; cbn); try reflexivity; try discriminate.

Section Steps.
Variable rnd : Q -> val.
Variable fv : N -> val.

Lemma Adder_ok st : Adder_apply (vops rnd) st = exec_step rnd fv SAdd st.
Proof. destruct st as [|v2 [|v1 r]]; step_tac. Qed.
Lemma Subtractor_ok st : Subtractor_apply (vops rnd) st = exec_step rnd fv SSub st.
Proof. destruct st as [|v2 [|v1 r]]; step_tac. Qed.
Lemma Multiplier_ok st : Multiplier_apply (vops rnd) st = exec_step rnd fv SMul st.
Proof. destruct st as [|v2 [|v1 r]]; step_tac. Qed.
Lemma Divider_ok st : Divider_apply (vops rnd) st = exec_step rnd fv SDiv st.
Proof. destruct st as [|v2 [|v1 r]]; [reflexivity|reflexivity|]. destruct v1, v2; step_tac. Qed.
Lemma Maximizer_ok st : Maximizer_apply (vops rnd) st = exec_step rnd fv SMax st.
Proof. destruct st as [|v2 [|v1 r]]; [reflexivity|reflexivity|]. destruct v1, v2; step_tac. Qed.
Lemma Minimizer_ok st : Minimizer_apply (vops rnd) st = exec_step rnd fv SMin st.
Proof. destruct st as [|v2 [|v1 r]]; [reflexivity|reflexivity|]. destruct v1, v2; step_tac. Qed.
Lemma Consumption_ok st : Consumption_apply (vops rnd) st = exec_step rnd fv SCons st.
Proof. destruct st as [|v r]; [reflexivity|]. destruct v; step_tac. Qed.
Lemma Production_ok st : Production_apply (vops rnd) st = exec_step rnd fv SProd st.
Proof. destruct st as [|v r]; [reflexivity|]. destruct v; step_tac. Qed.
Lemma Clipper_ok lo hi st : Clipper_apply (vops rnd) lo hi st = exec_step rnd fv (SClip lo hi) st.
Proof. destruct st as [|v r]; [destruct lo, hi; reflexivity|]. destruct lo as [l|], hi as [h|]; step_tac. Qed.
Lemma ConstantValue_ok c st : ConstantValue_apply (vops rnd) c st = exec_step rnd fv (SConst c) st.
Proof. reflexivity. Qed.
End Steps.

Theorem steps_as_translated rnd fv st :
  Adder_apply (vops rnd) st = exec_step rnd fv SAdd st /\
  Subtractor_apply (vops rnd) st = exec_step rnd fv SSub st /\
  Multiplier_apply (vops rnd) st = exec_step rnd fv SMul st /\
  Divider_apply (vops rnd) st = exec_step rnd fv SDiv st /\
  Maximizer_apply (vops rnd) st = exec_step rnd fv SMax st /\
  Minimizer_apply (vops rnd) st = exec_step rnd fv SMin st /\
  Consumption_apply (vops rnd) st = exec_step rnd fv SCons st /\
  Production_apply (vops rnd) st = exec_step rnd fv SProd st /\
  (forall lo hi, Clipper_apply (vops rnd) lo hi st = exec_step rnd fv (SClip lo hi) st) /\
  (forall c, ConstantValue_apply (vops rnd) c st = exec_step rnd fv (SConst c) st).
Proof.
  refine (conj (Adder_ok rnd fv st) (conj (Subtractor_ok rnd fv st) (conj (Multiplier_ok rnd fv st)
         (conj (Divider_ok rnd fv st) (conj (Maximizer_ok rnd fv st) (conj (Minimizer_ok rnd fv st)
         (conj (Consumption_ok rnd fv st) (conj (Production_ok rnd fv st)
         (conj (fun lo hi => Clipper_ok rnd fv lo hi st) (fun c => ConstantValue_ok rnd fv c st)))))))))).
Qed.
