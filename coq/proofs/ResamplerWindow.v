(* C08: facts about the per-source part of model/Resampler.v *)
From Coq Require Import Lia ZifyBool Sorted.
From Verif Require Import model.Resampler.

Ltac Zify.zify_post_hook ::= Z.to_euclidean_division_equations.

(* ------------------------------------------------------------------ time order *)

Definition ts_le (a b : item) : Prop := i_ts a <= i_ts b.
Definition tsorted (l : list item) : Prop := StronglySorted ts_le l.

Definition cnt (x : Z) (l : list item) : nat := length (filter (fun y => i_ts y <=? x) l).

Lemma forall_gt_filter_nil : forall x l,
  Forall (fun y => x < i_ts y) l -> filter (fun y => i_ts y <=? x) l = [].
Proof.
  intros x l H. induction H as [|y ys Hy _ IH]; cbn; auto.
  destruct (i_ts y <=? x) eqn:E; [lia|exact IH].
Qed.

Lemma sorted_tail_gt : forall a l x,
  Forall (ts_le a) l -> x < i_ts a -> Forall (fun y => x < i_ts y) l.
Proof.
  intros a l x H Hx. eapply Forall_impl; [|exact H]. unfold ts_le. intros; cbn in *; lia.
Qed.

(* in a time-ordered list the stamps <= x form a prefix of length cnt x l *)
Lemma sorted_prefix : forall x l, tsorted l ->
  filter (fun y => i_ts y <=? x) l = firstn (cnt x l) l /\
  filter (fun y => x <? i_ts y) l = skipn (cnt x l) l.
Proof.
  intros x l H. induction H as [|a l Hs IH Ha]; [split; reflexivity|].
  unfold cnt in *. cbn [filter]. destruct (i_ts a <=? x) eqn:E.
  - assert (x <? i_ts a = false) as -> by lia. cbn [length firstn skipn].
    destruct IH as [IH1 IH2]. rewrite <- IH1, <- IH2. auto.
  - assert (x <? i_ts a = true) as -> by lia.
    assert (G : Forall (fun y => x < i_ts y) l) by (apply (sorted_tail_gt a); auto; lia).
    rewrite (forall_gt_filter_nil x l G). cbn [length firstn skipn]. split; auto. f_equal.
    clear - G. induction G as [|y ys Hy _ IHg]; cbn; auto.
    assert (x <? i_ts y = true) as -> by lia. f_equal. exact IHg.
Qed.

Lemma cnt_le_length : forall x l, (cnt x l <= length l)%nat.
Proof.
  intros x l. unfold cnt. induction l as [|a l IH]; cbn; auto.
  destruct (i_ts a <=? x); cbn; lia.
Qed.

Lemma filter_all_In : forall (f : item -> bool) l y, In y (filter f l) -> f y = true.
Proof. intros f l y H. apply filter_In in H. tauto. Qed.

(* position k holds a stamp <= x  iff  k < cnt x l *)
Lemma nth_le_iff : forall x l k d, tsorted l -> (k < length l)%nat ->
  (i_ts (nth k l d) <= x <-> (k < cnt x l)%nat).
Proof.
  intros x l k d Hs Hk. destruct (sorted_prefix x l Hs) as [P1 P2].
  pose proof (cnt_le_length x l) as Hc.
  rewrite <- (firstn_skipn (cnt x l) l) at 1.
  assert (Hl : length (firstn (cnt x l) l) = cnt x l) by (rewrite firstn_length; lia).
  destruct (Nat.lt_ge_cases k (cnt x l)) as [Hlt|Hge].
  - rewrite app_nth1 by lia. split; [auto|intros _].
    assert (In (nth k (firstn (cnt x l) l) d) (firstn (cnt x l) l)) as Hin by (apply nth_In; lia).
    remember (nth k (firstn (cnt x l) l) d) as y eqn:Ey. clear Ey.
    rewrite <- P1 in Hin. apply filter_all_In in Hin. cbn beta in Hin. lia.
  - rewrite app_nth2 by lia. rewrite Hl. split; [|lia]. intros Hle. exfalso.
    assert (In (nth (k - cnt x l) (skipn (cnt x l) l) d) (skipn (cnt x l) l)) as Hin.
    { apply nth_In. rewrite skipn_length. lia. }
    remember (nth (k - cnt x l) (skipn (cnt x l) l) d) as y eqn:Ey. clear Ey.
    rewrite <- P2 in Hin. apply filter_all_In in Hin. cbn beta in Hin. lia.
Qed.

(* CPython's bisect_right loop returns cnt x l on a time-ordered list *)
Lemma bis_correct : forall fuel x l lo hi, tsorted l ->
  (lo <= cnt x l <= hi)%nat -> (hi <= length l)%nat -> (hi - lo < fuel)%nat ->
  bis fuel x l lo hi = cnt x l.
Proof.
  induction fuel as [|f IH]; intros x l lo hi Hs Hc Hh Hf; [lia|].
  cbn [bis]. destruct (lo <? hi)%nat eqn:E.
  - apply Nat.ltb_lt in E.
    assert (Hm : (lo <= (lo + hi) / 2 < hi)%nat).
    { split; [apply Nat.div_le_lower_bound; lia|apply Nat.div_lt_upper_bound; lia]. }
    set (mid := ((lo + hi) / 2)%nat) in *.
    pose proof (nth_le_iff x l mid (mkI 0 0 0) Hs ltac:(lia)) as N.
    destruct (x <? i_ts (nth mid l (mkI 0 0 0))) eqn:C.
    + assert (~ (mid < cnt x l)%nat) by (rewrite <- N; lia). apply IH; auto; lia.
    + assert (mid < cnt x l)%nat by (apply N; lia). apply IH; auto; lia.
  - apply Nat.ltb_ge in E. lia.
Qed.

Theorem bisect_right_sorted : forall x l, tsorted l -> bisect_right x l = cnt x l.
Proof.
  intros x l Hs. unfold bisect_right. apply bis_correct; auto; try lia.
  split; [lia|apply cnt_le_length].
Qed.

(* the slice between the two bisect positions of a time-ordered list is the half-open filter *)
Theorem islice_cnt_filter : forall lo hi l, tsorted l ->
  islice l (cnt lo l) (cnt hi l) = filter (fun y => (lo <? i_ts y) && (i_ts y <=? hi)) l.
Proof.
  intros lo hi l H. induction H as [|a l Hs IH Ha]; [reflexivity|].
  unfold islice, cnt in *. cbn [filter].
  destruct (i_ts a <=? lo) eqn:E1; destruct (i_ts a <=? hi) eqn:E2; cbn [length].
  - assert (lo <? i_ts a = false) as -> by lia. cbn [andb Nat.sub skipn]. exact IH.
  - assert (lo <? i_ts a = false) as -> by lia. cbn [andb].
    assert (G : Forall (fun y => hi < i_ts y) l) by (apply (sorted_tail_gt a); auto; lia).
    rewrite (forall_gt_filter_nil hi l G). cbn [length Nat.sub firstn].
    clear - G. induction G as [|y ys Hy _ IHg]; cbn; auto.
    assert (i_ts y <=? hi = false) as -> by lia. rewrite andb_false_r. exact IHg.
  - assert (lo <? i_ts a = true) as -> by lia. cbn [andb].
    assert (G : Forall (fun y => lo < i_ts y) l) by (apply (sorted_tail_gt a); auto; lia).
    rewrite (forall_gt_filter_nil lo l G). cbn [length Nat.sub skipn firstn]. f_equal.
    destruct (sorted_prefix hi l Hs) as [P1 _]. unfold cnt in P1. rewrite <- P1.
    clear - G. induction G as [|y ys Hy _ IHg]; cbn; auto.
    assert (lo <? i_ts y = true) as -> by lia. cbn [andb]. destruct (i_ts y <=? hi); [f_equal|]; exact IHg.
  - assert (lo <? i_ts a = true) as -> by lia. cbn [andb].
    assert (G : Forall (fun y => lo < i_ts y) l) by (apply (sorted_tail_gt a); auto; lia).
    assert (G2 : Forall (fun y => hi < i_ts y) l) by (apply (sorted_tail_gt a); auto; lia).
    rewrite (forall_gt_filter_nil lo l G), (forall_gt_filter_nil hi l G2). cbn [length Nat.sub skipn firstn].
    clear - G2. induction G2 as [|y ys Hy _ IHg]; cbn; auto.
    assert (i_ts y <=? hi = false) as -> by lia. rewrite andb_false_r. exact IHg.
Qed.

Corollary bisect_slice_filter : forall lo hi l, tsorted l ->
  islice l (bisect_right lo l) (bisect_right hi l) =
  filter (fun y => (lo <? i_ts y) && (i_ts y <=? hi)) l.
Proof. intros. rewrite !bisect_right_sorted by auto. apply islice_cnt_filter; auto. Qed.

(* ------------------------------------------------------------------ suffixes, order *)

Definition suffix (b v : list item) : Prop := exists pre, v = pre ++ b.

Lemma suffix_refl : forall l, suffix l l.
Proof. intros l. exists []. reflexivity. Qed.

Lemma suffix_skipn : forall k b v, suffix b v -> suffix (skipn k b) v.
Proof.
  intros k b v [pre E]. exists (pre ++ firstn k b). rewrite <- app_assoc, firstn_skipn. exact E.
Qed.

Lemma suffix_snoc : forall b v x, suffix b v -> suffix (b ++ [x]) (v ++ [x]).
Proof. intros b v x [pre E]. exists pre. rewrite E, app_assoc. reflexivity. Qed.

Lemma suffix_lastn : forall n b v, suffix b v -> suffix (lastn n b) v.
Proof. intros. unfold lastn. apply suffix_skipn. auto. Qed.

Lemma tsorted_app_r : forall a b, tsorted (a ++ b) -> tsorted b.
Proof.
  induction a as [|x a IH]; intros b H; cbn in *; auto.
  inversion H; subst. apply IH. auto.
Qed.

Lemma suffix_sorted : forall b v, suffix b v -> tsorted v -> tsorted b.
Proof. intros b v [pre E] H. subst. eapply tsorted_app_r; eauto. Qed.

Lemma suffix_forall : forall (P : item -> Prop) b v, suffix b v -> Forall P v -> Forall P b.
Proof. intros P b v [pre E] H. subst. apply Forall_app in H. tauto. Qed.

Lemma lastn_length : forall (n : nat) (l : list item), (length (lastn n l) <= n)%nat.
Proof. intros. unfold lastn. rewrite skipn_length. lia. Qed.

(* order-preserving sub-sequence *)
Inductive subseq : list item -> list item -> Prop :=
| sub_nil : subseq [] []
| sub_skip : forall x a b, subseq a b -> subseq a (x :: b)
| sub_keep : forall x a b, subseq a b -> subseq (x :: a) (x :: b).

Lemma subseq_refl : forall l, subseq l l.
Proof. induction l; [constructor|apply sub_keep; auto]. Qed.

Lemma subseq_nil : forall l, subseq [] l.
Proof. induction l; constructor; auto. Qed.

Lemma subseq_app_l : forall pre a b, subseq a b -> subseq a (pre ++ b).
Proof. induction pre; intros; cbn; auto. constructor. auto. Qed.

Lemma subseq_skipn : forall k l, subseq (skipn k l) l.
Proof.
  induction k as [|k IH]; intros l; cbn; [apply subseq_refl|].
  destruct l; [constructor|]. constructor. apply IH.
Qed.

Lemma subseq_firstn : forall k l, subseq (firstn k l) l.
Proof.
  induction k as [|k IH]; intros l; cbn; [apply subseq_nil|].
  destruct l; [constructor|]. apply sub_keep. apply IH.
Qed.

Lemma subseq_trans : forall a b c, subseq a b -> subseq b c -> subseq a c.
Proof.
  intros a b c H1 H2. revert a H1. induction H2 as [|x b c H IH|x b c H IH]; intros a H1; auto.
  - apply sub_skip. auto.
  - inversion H1; subst; [apply sub_skip|apply sub_keep]; auto.
Qed.

Lemma subseq_islice : forall l i j, subseq (islice l i j) l.
Proof.
  intros. unfold islice. eapply subseq_trans; [apply subseq_firstn|apply subseq_skipn].
Qed.

Lemma subseq_In : forall a b x, subseq a b -> In x a -> In x b.
Proof.
  intros a b x H. induction H; intros Hin; cbn in *; auto.
  - destruct Hin; auto.
Qed.

Lemma suffix_subseq : forall b v, suffix b v -> subseq b v.
Proof. intros b v [pre E]. subst. apply subseq_app_l. apply subseq_refl. Qed.

(* ------------------------------------------------------------------ invariant of the helper *)

Lemma valid_hist_app : forall a b, valid_hist (a ++ b) = valid_hist a ++ valid_hist b.
Proof.
  induction a as [|e a IH]; intros b; cbn; auto.
  destruct e as [x|T osp olen]; [destruct (item_valid x); cbn|]; rewrite IH; reflexivity.
Qed.

Lemma valid_hist_valid : forall es, Forall (fun x => item_valid x = true) (valid_hist es).
Proof.
  induction es as [|e es IH]; cbn; auto.
  destruct e as [x|T osp olen]; auto. destruct (item_valid x) eqn:V; auto.
Qed.

(* the buffer is a suffix of the valid history, never longer than its capacity *)
Definition hinv (st : hstate) (vh : list item) : Prop :=
  suffix (h_buf st) vh /\ (length (h_buf st) <= Z.to_nat (h_maxlen st))%nat.

Lemma hinv_recv : forall st vh x, hinv st vh ->
  hinv (hrecv st x) (if item_valid x then vh ++ [x] else vh).
Proof.
  intros st vh x [Hs Hl]. unfold hrecv. destruct (item_valid x); [|split; auto].
  split; cbn [h_buf h_maxlen].
  - unfold push. apply suffix_lastn. apply suffix_snoc. exact Hs.
  - unfold push. apply lastn_length.
Qed.

Lemma hinv_update : forall c st vh T osp olen, hinv st vh -> hinv (hupdate c st T osp olen) vh.
Proof.
  intros c st vh T osp olen [Hs Hl]. unfold hupdate. destruct (upd_cond c st T && negb (osp =? 0)); [|split; auto].
  split; cbn [h_buf h_maxlen].
  - destruct (olen =? h_maxlen st); [exact Hs|apply suffix_lastn; exact Hs].
  - destruct (olen =? h_maxlen st) eqn:E; [assert (olen = h_maxlen st) by lia; subst; exact Hl|apply lastn_length].
Qed.

Lemma hinv_step : forall c st vh e, hinv st vh ->
  hinv (fst (hstep c st e)) (vh ++ valid_hist [e]).
Proof.
  intros c st vh e H. destruct e as [x|T osp olen]; cbn [hstep valid_hist].
  - cbn [fst]. pose proof (hinv_recv st vh x H) as R. destruct (item_valid x); [exact R|rewrite app_nil_r; exact R].
  - unfold htick. cbn [fst]. rewrite app_nil_r. apply hinv_update. exact H.
Qed.

Lemma hinv_final : forall c es st vh, hinv st vh -> hinv (hfinal c st es) (vh ++ valid_hist es).
Proof.
  induction es as [|e es IH]; intros st vh H; cbn [hfinal].
  - cbn. rewrite app_nil_r. exact H.
  - change (e :: es) with ([e] ++ es). rewrite valid_hist_app, app_assoc. apply IH. apply hinv_step. exact H.
Qed.

Lemma hinv_init : forall c, hinv (hinit c) [].
Proof. intros c. split; cbn; [apply suffix_refl|lia]. Qed.

Lemma hinv_reach : forall c es, hinv (hfinal c (hinit c) es) (valid_hist es).
Proof. intros. apply (hinv_final c es (hinit c) [] (hinv_init c)). Qed.

(* ------------------------------------------------------------------ the tick *)

Definition in_window (lo hi : Z) (y : item) : bool := (lo <? i_ts y) && (i_ts y <=? hi).

(* For EVERY time-ordered history: what the resampling function is handed at tick T is exactly the
   buffered samples stamped in (T - relevance, T]; the buffer is a suffix of the valid history that
   fits the (possibly just resized) capacity. *)
Theorem window_exact : forall c es T osp olen,
  tsorted (valid_hist es) ->
  let st' := fst (htick c (hfinal c (hinit c) es) T osp olen) in
  let passed := snd (htick c (hfinal c (hinit c) es) T osp olen) in
  passed = filter (in_window (T - relevance c st') T) (h_buf st') /\
  suffix (h_buf st') (valid_hist es) /\
  (length (h_buf st') <= Z.to_nat (h_maxlen st'))%nat.
Proof.
  intros c es T osp olen Hs st' passed.
  pose proof (hinv_update c _ _ T osp olen (hinv_reach c es)) as [Hsuf Hlen].
  unfold st', passed, htick. cbn [fst snd]. split; [|split; assumption].
  apply bisect_slice_filter. eapply suffix_sorted; eauto.
Qed.

(* arrival order is preserved and nothing is invented: for every history (time-ordered or not) the
   passed sequence is an order-preserving sub-sequence of the valid history *)
Theorem passed_in_arrival_order : forall c es T osp olen,
  subseq (snd (htick c (hfinal c (hinit c) es) T osp olen)) (valid_hist es).
Proof.
  intros c es T osp olen.
  pose proof (hinv_update c _ _ T osp olen (hinv_reach c es)) as [Hsuf _].
  unfold htick. cbn [snd]. eapply subseq_trans; [apply subseq_islice|apply suffix_subseq; exact Hsuf].
Qed.

(* no None / NaN sample ever reaches the function (every history) *)
Theorem passed_all_valid : forall c es T osp olen x,
  In x (snd (htick c (hfinal c (hinit c) es) T osp olen)) ->
  i_kind x <> 1 /\ i_kind x <> 2 /\ In x (valid_hist es).
Proof.
  intros c es T osp olen x Hin.
  pose proof (subseq_In _ _ x (passed_in_arrival_order c es T osp olen) Hin) as Hv.
  pose proof (valid_hist_valid es) as F. rewrite Forall_forall in F.
  specialize (F x Hv). unfold item_valid in F. repeat split; auto; lia.
Qed.

(* nothing stamped after T reaches the function (time-ordered histories) *)
Theorem passed_not_future : forall c es T osp olen x,
  tsorted (valid_hist es) ->
  In x (snd (htick c (hfinal c (hinit c) es) T osp olen)) ->
  T - relevance c (fst (htick c (hfinal c (hinit c) es) T osp olen)) < i_ts x <= T.
Proof.
  intros c es T osp olen x Hs Hin.
  destruct (window_exact c es T osp olen Hs) as [E _]. cbn zeta in E. rewrite E in Hin.
  apply filter_In in Hin. destruct Hin as [_ W]. unfold in_window in W. lia.
Qed.

(* a value is emitted iff the window is non-empty *)
Theorem none_iff_empty : forall c es T osp olen,
  tsorted (valid_hist es) ->
  let st' := fst (htick c (hfinal c (hinit c) es) T osp olen) in
  let passed := snd (htick c (hfinal c (hinit c) es) T osp olen) in
  (emits_value passed = false <-> passed = []) /\
  (emits_value passed = false <->
   forall x, In x (h_buf st') -> ~ (T - relevance c st' < i_ts x <= T)).
Proof.
  intros c es T osp olen Hs st' passed.
  assert (A : emits_value passed = false <-> passed = []).
  { destruct passed; cbn; split; intros; auto; discriminate. }
  split; [exact A|]. rewrite A.
  destruct (window_exact c es T osp olen Hs) as [E _]. cbn zeta in E. fold st' passed in E.
  rewrite E. split.
  - intros Hnil x Hx W.
    assert (In x (filter (in_window (T - relevance c st') T) (h_buf st'))) as Hin.
    { apply filter_In. split; auto. unfold in_window. lia. }
    rewrite Hnil in Hin. exact Hin.
  - intros Hno. destruct (filter (in_window (T - relevance c st') T) (h_buf st')) as [|y ys] eqn:F; auto.
    exfalso. assert (In y (y :: ys)) as Hy by (left; reflexivity). rewrite <- F in Hy.
    apply filter_In in Hy. destruct Hy as [Hy W]. apply (Hno y Hy). unfold in_window in W. lia.
Qed.

(* ------------------------------------------------------------------ "the most recent ones that fit" *)

Lemma skipn_skipn' : forall (y x : nat) (l : list item), skipn x (skipn y l) = skipn (x + y) l.
Proof.
  induction y as [|y IH]; intros x l.
  - rewrite Nat.add_0_r. reflexivity.
  - destruct l as [|a l]; [rewrite !skipn_nil; reflexivity|].
    rewrite Nat.add_succ_r. cbn [skipn]. apply IH.
Qed.

Lemma lastn_snoc_lastn : forall (m : nat) (v : list item) x,
  lastn m (lastn m v ++ [x]) = lastn m (v ++ [x]).
Proof.
  intros m v x. unfold lastn.
  assert (E : skipn (length v - m) v ++ [x] = skipn (length v - m) (v ++ [x])).
  { rewrite skipn_app. replace (length v - m - length v)%nat with 0%nat by lia. reflexivity. }
  rewrite E, skipn_skipn'. f_equal. rewrite skipn_length, !app_length. cbn. lia.
Qed.

Lemma lastn_all : forall (m : nat) (v : list item), (length v <= m)%nat -> lastn m v = v.
Proof. intros. unfold lastn. replace (length v - m)%nat with 0%nat by lia. reflexivity. Qed.

(* until the input period has been estimated (the only moment the capacity changes) the buffer is
   exactly the last initial_buffer_len valid samples *)
Definition hinv0 (c : hconf) (st : hstate) (vh : list item) : Prop :=
  h_sp st = None -> h_maxlen st = c_init_len c /\ h_buf st = lastn (Z.to_nat (c_init_len c)) vh.

Lemma hinv0_step : forall c st vh e, hinv0 c st vh ->
  hinv0 c (fst (hstep c st e)) (vh ++ valid_hist [e]).
Proof.
  intros c st vh e H. destruct e as [x|T osp olen]; cbn [hstep valid_hist fst].
  - unfold hrecv. destruct (item_valid x); [|rewrite app_nil_r; exact H].
    intros Hsp. cbn [h_sp h_maxlen h_buf] in *. destruct (H Hsp) as [Hm Hb]. split; auto.
    unfold push. rewrite Hm, Hb. apply lastn_snoc_lastn.
  - rewrite app_nil_r. unfold htick. cbn [fst]. unfold hupdate. destruct (upd_cond c st T && negb (osp =? 0)); [|exact H].
    intros Hsp. cbn in Hsp. discriminate.
Qed.

Lemma hinv0_final : forall c es st vh, hinv0 c st vh -> hinv0 c (hfinal c st es) (vh ++ valid_hist es).
Proof.
  induction es as [|e es IH]; intros st vh H; cbn [hfinal].
  - cbn. rewrite app_nil_r. exact H.
  - change (e :: es) with ([e] ++ es). rewrite valid_hist_app, app_assoc. apply IH. apply hinv0_step. exact H.
Qed.

Theorem buffer_most_recent : forall c es,
  h_sp (hfinal c (hinit c) es) = None ->
  h_buf (hfinal c (hinit c) es) = lastn (Z.to_nat (c_init_len c)) (valid_hist es) /\
  h_maxlen (hfinal c (hinit c) es) = c_init_len c.
Proof.
  intros c es Hsp.
  assert (H0 : hinv0 c (hinit c) []) by (intros _; split; reflexivity).
  pose proof (hinv0_final c es (hinit c) [] H0) as H. cbn [app] in H. destruct (H Hsp). split; auto.
Qed.

(* the estimate is made at most once: afterwards neither it nor the capacity changes *)
Theorem estimate_once : forall c st e sp,
  h_sp st = Some sp ->
  h_sp (fst (hstep c st e)) = Some sp /\ (h_maxlen (fst (hstep c st e)) = h_maxlen st).
Proof.
  intros c st e sp H. destruct e as [x|T osp olen]; cbn [hstep fst].
  - unfold hrecv. destruct (item_valid x); cbn; auto.
  - unfold htick. cbn [fst]. unfold hupdate, upd_cond. rewrite H. auto.
Qed.

Lemma lastn_app_lastn : forall (m : nat) (w b : list item),
  lastn m (lastn m b ++ w) = lastn m (b ++ w).
Proof.
  intros m w. induction w as [|x w IH] using rev_ind; intros b.
  - rewrite !app_nil_r. apply lastn_all. apply lastn_length.
  - rewrite !app_assoc. rewrite <- (lastn_snoc_lastn m (lastn m b ++ w)), IH. apply lastn_snoc_lastn.
Qed.

(* once the capacity is final (m) the buffer is the last m of (buffer at that moment ++ later valid samples) *)
Theorem buffer_after_estimate : forall c es st sp,
  h_sp st = Some sp -> (length (h_buf st) <= Z.to_nat (h_maxlen st))%nat ->
  h_buf (hfinal c st es) = lastn (Z.to_nat (h_maxlen st)) (h_buf st ++ valid_hist es) /\
  h_maxlen (hfinal c st es) = h_maxlen st /\ h_sp (hfinal c st es) = Some sp.
Proof.
  intros c es. induction es as [|e es IH]; intros st sp Hsp Hlen; cbn [hfinal valid_hist].
  - rewrite app_nil_r. split; auto. symmetry. apply lastn_all. exact Hlen.
  - destruct (estimate_once c st e sp Hsp) as [Hsp' Hm'].
    assert (Hlen' : (length (h_buf (fst (hstep c st e))) <= Z.to_nat (h_maxlen (fst (hstep c st e))))%nat).
    { rewrite Hm'. destruct e as [x|T osp olen]; cbn [hstep fst].
      - unfold hrecv. destruct (item_valid x); cbn [h_buf]; auto. unfold push. apply lastn_length.
      - unfold htick. cbn [fst]. unfold hupdate, upd_cond. rewrite Hsp. exact Hlen. }
    destruct (IH _ sp Hsp' Hlen') as [Hb [Hm Hs]]. rewrite Hb, Hm, Hs, Hm'. split; auto.
    destruct e as [x|T osp olen]; cbn [hstep fst].
    + unfold hrecv. destruct (item_valid x); cbn [h_buf]; auto.
      unfold push. rewrite lastn_app_lastn, <- app_assoc. reflexivity.
    + unfold htick. cbn [fst]. unfold hupdate, upd_cond. rewrite Hsp. reflexivity.
Qed.

(* ------------------------------------------------------------------ timedelta * float rounding *)

(* div_round_he a b is a nearest integer to a/b *)
Theorem div_round_he_nearest : forall a b, 0 < b ->
  let r := div_round_he a b in 2 * a - b <= 2 * b * r <= 2 * a + b.
Proof.
  intros a b Hb. unfold div_round_he.
  pose proof (Z.div_mod a b ltac:(lia)) as E. pose proof (Z.mod_pos_bound a b Hb) as M.
  set (q := a / b) in *. set (m := a mod b) in *.
  destruct ((2 * m >? b) || ((2 * m =? b) && Z.odd q)) eqn:C; cbn zeta.
  - apply orb_true_iff in C. destruct C as [C|C]; [|apply andb_true_iff in C]; nia.
  - apply orb_false_iff in C. nia.
Qed.

Theorem div_round_he_exact : forall k b, 0 < b -> div_round_he (k * b) b = k.
Proof.
  intros k b Hb. unfold div_round_he. rewrite Z_div_mult by lia. rewrite Z_mod_mult.
  assert (2 * 0 >? b = false) as -> by lia. assert (2 * 0 =? b = false) as -> by lia. reflexivity.
Qed.

(* integral max_data_age: the relevance window is exactly age * max(period, input period) *)
Corollary relevance_integral_age : forall c st,
  c_age_d c = 1 ->
  relevance c st = c_age_n c * match h_sp st with Some sp => Z.max (c_period c) sp | None => c_period c end.
Proof.
  intros c st H. unfold relevance. rewrite H.
  rewrite <- (Z.mul_1_r (_ * c_age_n c)). rewrite div_round_he_exact by lia. lia.
Qed.

Lemma relevance_nonneg : forall c st,
  0 <= c_period c -> 0 <= c_age_n c -> 0 < c_age_d c -> 0 <= relevance c st.
Proof.
  intros c st Hp Hn Hd. unfold relevance.
  set (p := match h_sp st with Some sp => Z.max (c_period c) sp | None => c_period c end).
  assert (0 <= p) by (unfold p; destruct (h_sp st); lia).
  pose proof (div_round_he_nearest (p * c_age_n c) (c_age_d c) Hd) as N. cbn zeta in N. nia.
Qed.

(* ------------------------------------------------------------------ the resized capacity *)

Lemma clamp_len_bounds : forall c n, 1 <= c_max_len c -> 1 <= clamp_len c n <= c_max_len c.
Proof.
  intros c n H. unfold clamp_len. destruct (Z.max 1 n >? c_max_len c) eqn:E; lia.
Qed.

(* a capacity accepted by the specification of _update_buffer_len lies in [1, max_buffer_len] *)
Theorem olen_ok_bounds : forall c osp olen,
  1 <= c_max_len c -> olen_ok c osp olen = true -> 1 <= olen <= c_max_len c.
Proof.
  intros c osp olen H Hok. unfold olen_ok, doc_len in Hok.
  destruct (len_quot c osp) as [a b]. cbn [fst snd] in Hok.
  apply orb_true_iff in Hok. destruct Hok as [Hok|Hok]; [apply orb_true_iff in Hok; destruct Hok as [Hok|Hok]|].
  - apply Z.eqb_eq in Hok. rewrite Hok. apply clamp_len_bounds; auto.
  - apply andb_true_iff in Hok. destruct Hok as [_ Hok]. apply Z.eqb_eq in Hok. rewrite Hok. apply clamp_len_bounds; auto.
  - apply andb_true_iff in Hok. destruct Hok as [_ Hok]. apply Z.eqb_eq in Hok. rewrite Hok. apply clamp_len_bounds; auto.
Qed.

(* unless the exact quotient is within 1e-9 of an integer, only the documented capacity is accepted *)
Theorem olen_ok_is_documented : forall c osp olen,
  olen_ok c osp olen = true ->
  let a := fst (len_quot c osp) in let b := snd (len_quot c osp) in
  a < (a mod b) * 1000000000 -> a < (b - a mod b) * 1000000000 ->
  olen = doc_len c osp.
Proof.
  intros c osp olen Hok a b H1 H2. unfold olen_ok in Hok. subst a b.
  destruct (len_quot c osp) as [a b]. cbn [fst snd] in *.
  apply orb_true_iff in Hok. destruct Hok as [Hok|Hok]; [apply orb_true_iff in Hok; destruct Hok as [Hok|Hok]|].
  - apply Z.eqb_eq in Hok. exact Hok.
  - apply andb_true_iff in Hok. destruct Hok as [Hc _]. lia.
  - apply andb_true_iff in Hok. destruct Hok as [Hc _]. lia.
Qed.

Lemma ceil_div_scale : forall p n d, 0 < p -> 0 < d -> ceil_div (p * n) (p * d) = ceil_div n d.
Proof.
  intros p n d Hp Hd. unfold ceil_div.
  rewrite Z.mul_mod_distr_l by lia. rewrite Z.div_mul_cancel_l by lia.
  destruct (n mod d =? 0) eqn:E.
  - assert (n mod d = 0) as -> by lia. rewrite Z.mul_0_r. reflexivity.
  - assert (p * (n mod d) =? 0 = false) as -> by nia. reflexivity.
Qed.

(* The boundary between the two formulas: an input period EQUAL to the resampling period is not up-sampling;
   the documented capacity there is ceil(max_age) (clamped), whatever the period -- not ceil(period_s*max_age). *)
Theorem doc_len_equal_period : forall c,
  0 < c_period c -> 0 < c_age_d c ->
  doc_len c (c_period c) = clamp_len c (ceil_div (c_age_n c) (c_age_d c)).
Proof.
  intros c Hp Hd. unfold doc_len, len_quot.
  assert (c_period c >? c_period c = false) as -> by lia. cbn [fst snd].
  rewrite ceil_div_scale by lia. reflexivity.
Qed.

Corollary doc_len_equal_period_integral_age : forall c,
  0 < c_period c -> c_age_d c = 1 -> doc_len c (c_period c) = clamp_len c (c_age_n c).
Proof.
  intros c Hp Hd. rewrite doc_len_equal_period by lia. rewrite Hd. unfold ceil_div.
  rewrite Z.mod_1_r, Z.div_1_r. reflexivity.
Qed.

(* strictly slower input: the up-sampling formula ceil(sp_seconds * max_age) *)
Theorem doc_len_upsampling : forall c osp,
  c_period c < osp -> doc_len c osp = clamp_len c (ceil_div (osp * c_age_n c) (1000000 * c_age_d c)).
Proof.
  intros c osp H. unfold doc_len, len_quot. assert (osp >? c_period c = true) as -> by lia. reflexivity.
Qed.

(* the accepted estimate is the quotient (T - start)/received within one microsecond *)
Theorem osp_ok_spec : forall st T osp s0,
  h_start st = Some s0 -> 0 < h_recv st -> osp_ok st T osp = true ->
  (osp - 1) * h_recv st <= T - s0 <= (osp + 1) * h_recv st.
Proof.
  intros st T osp s0 Hs Hr Hok. unfold osp_ok in Hok. rewrite Hs in Hok. lia.
Qed.
