(* C11: every request equals the sum of the stored (= reported) targets and lies within the
   latest system inclusion bounds, for every event history. *)
From Coq Require Import Lia ZifyBool.
From Verif Require Import model.PowerManager proofs.BoundsFacts proofs.MatryoshkaFacts.

Definition opt0 (o : option Z) : Z := match o with Some x => x | None => 0 end.

(* a group that was never created has no stored target *)
Definition Ginv (g : grp) : Prop := g_created g = false -> g_target g = None.

Lemma gcalc_result g p s must :
  let '(g', r) := gcalc g p s must in
  (r = None \/ r = g_target g') .
Proof.
  unfold gcalc. destruct g as [c b t]. cbn [g_created g_target g_bucket].
  destruct (negb c && no_bounds s); [left; reflexivity|].
  destruct p as [q|]; cbn [g_created g_target g_bucket negb].
  - destruct (must || _); cbn; auto.
  - destruct (negb c); [left; reflexivity|].
    destruct (must || _); cbn; auto.
Qed.

Lemma or_stored_post g p s must :
  let '(g', r) := gcalc g p s must in or_stored r g' = g_target g'.
Proof.
  pose proof (gcalc_result g p s must) as H. destruct (gcalc g p s must) as [g' r].
  destruct H as [-> | ->]; [reflexivity|]. unfold or_stored. destruct (g_target g'); reflexivity.
Qed.

(* after gcalc the stored target, if any, is the target of the current bucket under [s] —
   unless gcalc did nothing because the group does not exist *)
Lemma gcalc_post g p s must :
  Ginv g ->
  let '(g', r) := gcalc g p s must in
  Ginv g' /\
  match g_target g' with
  | None => r = None
  | Some t => t = calc_target s (g_bucket g') /\ g_created g' = true
  end.
Proof.
  unfold gcalc, Ginv. destruct g as [c b t]. cbn [g_created g_target g_bucket]. intros Hg.
  destruct c; cbn [negb andb].
  - (* group exists *)
    destruct p as [q|]; cbn [g_created g_target g_bucket negb].
    + destruct t as [t0|]; cbn [orb].
      * destruct (must || negb (t0 =? calc_target s (bucket_insert q b))) eqn:E; cbn [g_created g_target g_bucket].
        -- split; [discriminate|]. split; reflexivity.
        -- split; [discriminate|]. split; [lia|reflexivity].
      * rewrite orb_true_r. cbn [g_created g_target g_bucket]. split; [discriminate|]. split; reflexivity.
    + destruct t as [t0|]; cbn [orb].
      * destruct (must || negb (t0 =? calc_target s b)) eqn:E; cbn [g_created g_target g_bucket].
        -- split; [discriminate|]. split; reflexivity.
        -- split; [discriminate|]. split; [lia|reflexivity].
      * rewrite orb_true_r. cbn [g_created g_target g_bucket]. split; [discriminate|]. split; reflexivity.
  - (* group does not exist yet *)
    specialize (Hg eq_refl). subst t. destruct (no_bounds s); cbn [andb g_created g_target g_bucket].
    + split; [reflexivity|reflexivity].
    + destruct p as [q|]; cbn [g_created g_target g_bucket negb].
      * rewrite orb_true_r. cbn [g_created g_target g_bucket]. split; [discriminate|]. split; reflexivity.
      * split; reflexivity.
Qed.

Definition incl_ok (s : sysb) (r : Z) : Prop :=
  match s_incl s with Some (l, u) => l <= r <= u | None => r = 0 end.

Lemma shifted_wf s o : wf_sys s -> incl_ok s (opt0 o) -> wf_sys (shifted s o).
Proof.
  unfold wf_sys, incl_ok, shifted. destruct o as [x|]; cbn [opt0]; [|auto].
  destruct (s_incl s) as [[l u]|]; cbn; [lia|auto].
Qed.

Lemma shifted_incl s o t :
  incl_ok (shifted s o) t -> incl_ok s (opt0 o) -> incl_ok s (opt0 o + t).
Proof.
  unfold incl_ok, shifted. destruct o as [x|]; cbn [opt0].
  - destruct (s_incl s) as [[l u]|]; cbn; lia.
  - destruct (s_incl s) as [[l u]|]; cbn; lia.
Qed.

Lemma envelope_incl s b : wf_sys s -> incl_ok s (calc_target s b).
Proof. intros H. apply (calc_target_envelope s b H). Qed.

(* two consecutive gcalc calls, the second under bounds shifted by the first's stored target *)
Lemma two_groups g1 g2 p1 s must :
  wf_sys s -> Ginv g1 -> Ginv g2 ->
  let '(g1', r1) := gcalc g1 p1 s must in
  let '(g2', r2) := gcalc g2 None (shifted s (or_stored r1 g1')) must in
  Ginv g1' /\ Ginv g2' /\
  or_stored r1 g1' = g_target g1' /\ or_stored r2 g2' = g_target g2' /\
  (r1 = None \/ r1 = g_target g1') /\ (r2 = None \/ r2 = g_target g2') /\
  incl_ok s (opt0 (g_target g1') + opt0 (g_target g2')).
Proof.
  intros Hw H1 H2.
  pose proof (gcalc_post g1 p1 s must H1) as P1. pose proof (or_stored_post g1 p1 s must) as O1.
  pose proof (gcalc_result g1 p1 s must) as R1.
  destruct (gcalc g1 p1 s must) as [g1' r1]. destruct P1 as [I1 T1]. rewrite O1.
  pose proof (gcalc_post g2 None (shifted s (g_target g1')) must H2) as P2.
  pose proof (or_stored_post g2 None (shifted s (g_target g1')) must) as O2.
  pose proof (gcalc_result g2 None (shifted s (g_target g1')) must) as R2.
  destruct (gcalc g2 None (shifted s (g_target g1')) must) as [g2' r2]. destruct P2 as [I2 T2].
  repeat (split; [assumption || reflexivity|]).
  assert (A1 : incl_ok s (opt0 (g_target g1'))).
  { destruct (g_target g1') as [t1|]; cbn [opt0].
    - destruct T1 as [-> _]. apply envelope_incl; exact Hw.
    - unfold incl_ok, wf_sys in *. destruct (s_incl s) as [[l u]|]; lia. }
  destruct (g_target g2') as [t2|] eqn:E2; cbn [opt0].
  - destruct T2 as [-> _]. apply shifted_incl; [|exact A1].
    apply envelope_incl. apply shifted_wf; assumption.
  - rewrite Z.add_0_r. exact A1.
Qed.

Lemma total_opt0 a b : a <> None \/ b <> None -> total a b = Some (opt0 a + opt0 b).
Proof. destruct a, b; cbn; intros [H|H]; try congruence; f_equal; lia. Qed.

Definition PMinv (st : pm) : Prop := Ginv (pm_reg st) /\ Ginv (pm_op st) /\ wf_sys (pm_sys st).

Definition req_ok (st' : pm) (r : option Z) : Prop :=
  match r with
  | None => True
  | Some x => x = opt0 (g_target (pm_reg st')) + opt0 (g_target (pm_op st')) /\ incl_ok (pm_sys st') x
  end.

Lemma finish_ok s (ga gb : grp) (ra rb : option Z) :
  or_stored ra ga = g_target ga -> or_stored rb gb = g_target gb ->
  (ra = None \/ ra = g_target ga) -> (rb = None \/ rb = g_target gb) ->
  incl_ok s (opt0 (g_target ga) + opt0 (g_target gb)) ->
  match (match ra, rb with None, None => None | _, _ => total (or_stored ra ga) (or_stored rb gb) end) with
  | None => True
  | Some x => x = opt0 (g_target ga) + opt0 (g_target gb) /\ incl_ok s x
  end.
Proof.
  intros Oa Ob Ra Rb Hi. rewrite Oa, Ob.
  destruct ra as [x|], rb as [y|]; try exact I.
  all: rewrite total_opt0; [split; [reflexivity|exact Hi]|].
  all: destruct Ra as [Ra|Ra], Rb as [Rb|Rb]; try discriminate.
  all: first [left; rewrite <- Ra; discriminate | right; rewrite <- Rb; discriminate].
Qed.

Lemma calc_total_spec st p must :
  PMinv st ->
  let '(st', r) := calc_total st p must in
  PMinv st' /\ pm_sys st' = pm_sys st /\ pm_last_pf st' = pm_last_pf st /\ req_ok st' r.
Proof.
  intros (Hr & Ho & Hw). unfold calc_total, req_ok.
  destruct p as [[[|] q]|].
  - pose proof (two_groups (pm_op st) (pm_reg st) (Some q) (pm_sys st) must Hw Ho Hr) as H.
    destruct (gcalc (pm_op st) (Some q) (pm_sys st) must) as [gop rs].
    destruct (gcalc (pm_reg st) None (shifted (pm_sys st) (or_stored rs gop)) must) as [greg rn].
    destruct H as (I1 & I2 & O1 & O2 & R1 & R2 & Hb). cbn [pm_reg pm_op pm_sys pm_last_pf].
    split; [repeat split; assumption|]. split; [reflexivity|]. split; [reflexivity|].
    pose proof (finish_ok (pm_sys st) gop greg rs rn O1 O2 R1 R2 Hb) as F.
    destruct (match rs, rn with None, None => None | _, _ => total (or_stored rs gop) (or_stored rn greg) end); [|exact I].
    destruct F as [F1 F2]. split; [lia|exact F2].
  - pose proof (two_groups (pm_reg st) (pm_op st) (Some q) (pm_sys st) must Hw Hr Ho) as H.
    destruct (gcalc (pm_reg st) (Some q) (pm_sys st) must) as [greg rn].
    destruct (gcalc (pm_op st) None (shifted (pm_sys st) (or_stored rn greg)) must) as [gop rs].
    destruct H as (I1 & I2 & O1 & O2 & R1 & R2 & Hb). cbn [pm_reg pm_op pm_sys pm_last_pf].
    split; [repeat split; assumption|]. split; [reflexivity|]. split; [reflexivity|].
    replace (opt0 (g_target greg) + opt0 (g_target gop)) with (opt0 (g_target gop) + opt0 (g_target greg)) in Hb by lia.
    pose proof (finish_ok (pm_sys st) gop greg rs rn O2 O1 R2 R1 Hb) as F.
    destruct (match rs, rn with None, None => None | _, _ => total (or_stored rs gop) (or_stored rn greg) end); [|exact I].
    destruct F as [F1 F2]. split; [lia|exact F2].
  - pose proof (two_groups (pm_reg st) (pm_op st) None (pm_sys st) must Hw Hr Ho) as H.
    destruct (gcalc (pm_reg st) None (pm_sys st) must) as [greg rn].
    destruct (gcalc (pm_op st) None (shifted (pm_sys st) (or_stored rn greg)) must) as [gop rs].
    destruct H as (I1 & I2 & O1 & O2 & R1 & R2 & Hb). cbn [pm_reg pm_op pm_sys pm_last_pf].
    split; [repeat split; assumption|]. split; [reflexivity|]. split; [reflexivity|].
    replace (opt0 (g_target greg) + opt0 (g_target gop)) with (opt0 (g_target gop) + opt0 (g_target greg)) in Hb by lia.
    pose proof (finish_ok (pm_sys st) gop greg rs rn O2 O1 R2 R1 Hb) as F.
    destruct (match rs, rn with None, None => None | _, _ => total (or_stored rs gop) (or_stored rn greg) end); [|exact I].
    destruct F as [F1 F2]. split; [lia|exact F2].
Qed.

(* every bounds update carries bounds that contain zero (the domain of C03/C11) *)
Definition wf_event (e : pevent) : Prop :=
  match e with PBounds s => wf_sys s | _ => True end.

Lemma pstep_inv ma1 ma2 st e :
  PMinv st -> wf_event e ->
  let '(st', r, _) := pstep ma1 ma2 st e in PMinv st' /\ req_ok st' r.
Proof.
  intros Hinv Hwf. destruct Hinv as (Hr & Ho & Hw). destruct e as [is_op p|s|k|now]; cbn [pstep].
  - pose proof (calc_total_spec st (Some (is_op, p)) true (conj Hr (conj Ho Hw))) as H.
    destruct (calc_total st (Some (is_op, p)) true) as [st' r]. tauto.
  - pose proof (calc_total_spec (mkPM (pm_reg st) (pm_op st) s (pm_last_pf st)) None false
                  (conj Hr (conj Ho Hwf))) as H.
    destruct (calc_total _ None false) as [st' r]. tauto.
  - destruct (k =? 1).
    + destruct (pm_last_pf st); [split; [repeat split; assumption|exact I]|].
      pose proof (calc_total_spec (mkPM (pm_reg st) (pm_op st) (pm_sys st) true) None true
                    (conj Hr (conj Ho Hw))) as H.
      destruct (calc_total _ None true) as [st' r]. tauto.
    + destruct (k =? 0); (split; [repeat split; assumption|exact I]).
  - split; [|exact I]. repeat split; cbn; try assumption; unfold Ginv, expire_grp in *; cbn; assumption.
Qed.

Lemma pm_init_inv : PMinv pm_init.
Proof. repeat split; cbn; auto. Qed.

(* all requests along a history *)
Fixpoint requests (ma1 ma2 : Z) (st : pm) (h : list pevent) : list (pm * Z) :=
  match h with
  | [] => []
  | e :: h' =>
    let '(st', r, _) := pstep ma1 ma2 st e in
    match r with Some x => [(st', x)] | None => [] end ++ requests ma1 ma2 st' h'
  end.

Lemma requests_ok ma1 ma2 h : forall st,
  PMinv st -> Forall wf_event h ->
  Forall (fun '(st', x) => x = opt0 (g_target (pm_reg st')) + opt0 (g_target (pm_op st')) /\ incl_ok (pm_sys st') x)
         (requests ma1 ma2 st h).
Proof.
  induction h as [|e h IH]; intros st Hinv Hwf; cbn [requests]; [constructor|].
  inversion Hwf as [|? ? He Hh]; subst.
  pose proof (pstep_inv ma1 ma2 st e Hinv He) as H.
  destruct (pstep ma1 ma2 st e) as [[st' r] rep]. destruct H as [Hinv' Hreq].
  apply Forall_app. split; [|apply IH; assumption].
  destruct r as [x|]; [|constructor]. constructor; [exact Hreq|constructor].
Qed.

(* the reports sent with a request carry exactly the stored targets *)
Lemma reports_carry_targets st q1 q2 :
  r_reg_target (reports st q1 q2) = g_target (pm_reg st) /\
  r_op_target (reports st q1 q2) = g_target (pm_op st).
Proof. split; reflexivity. Qed.

(* coalescing timer ticks in the harness is sound *)
Lemma expire_expire ma n1 n2 b : n1 <= n2 ->
  bucket_expire ma n2 (bucket_expire ma n1 b) = bucket_expire ma n2 b.
Proof.
  intros H. unfold bucket_expire. induction b as [|p b IH]; cbn; [reflexivity|].
  destruct (negb (n1 - p_time p >? ma)) eqn:E1; cbn.
  - rewrite IH. reflexivity.
  - rewrite IH. destruct (negb (n2 - p_time p >? ma)) eqn:E2; [lia|reflexivity].
Qed.

(* the second run function (dynamic subscriptions) produces exactly the requests of the
   underlying pstep sequence: subscriptions never influence a request *)
Definition strip (h : list pevent2) : list pevent :=
  flat_map (fun x => match x with PE e => [e] | PSub _ _ => [] end) h.

Fixpoint somes {A} (l : list (option A)) : list A :=
  match l with [] => [] | Some x :: t => x :: somes t | None :: t => somes t end.

Lemma prun2_requests ma1 ma2 h : forall sb st,
  somes (map fst (prun2 ma1 ma2 sb st h)) = map snd (requests ma1 ma2 st (strip h)).
Proof.
  induction h as [|x h IH]; intros sb st; cbn [prun2 strip flat_map map somes requests]; [reflexivity|].
  destruct x as [e|is_op q].
  - cbn [app requests]. destruct (pstep ma1 ma2 st e) as [[st' r] rep] eqn:E.
    cbn [map fst somes]. rewrite map_app. destruct r as [v|]; cbn [somes map snd app]; rewrite IH; reflexivity.
  - cbn [map fst somes app]. apply IH.
Qed.

(* ---- what the actors are told is what is in force ------------------------------------------
   [told st] is the sum of the two stored (= reported) targets, absent groups counting as
   absent.  A step that sends a request sends exactly [told] of the new state; a step that
   sends nothing leaves [told] unchanged.  Hence after every history the last request sent is
   the sum of the targets the actors are told (or nothing has been targeted yet). *)
Definition told (st : pm) : option Z := total (g_target (pm_op st)) (g_target (pm_reg st)).

Lemma gcalc_none_keeps g p s must :
  snd (gcalc g p s must) = None -> g_target (fst (gcalc g p s must)) = g_target g.
Proof.
  unfold gcalc. destruct g as [c b t]. cbn [g_created g_target g_bucket].
  destruct (negb c && no_bounds s); [reflexivity|].
  destruct p as [q|]; cbn [g_created g_target g_bucket negb].
  - destruct (must || _); cbn; [discriminate|reflexivity].
  - destruct (negb c); [reflexivity|].
    destruct (must || _); cbn; [discriminate|reflexivity].
Qed.

Lemma calc_total_told st p must :
  let '(st', r) := calc_total st p must in
  match r with Some x => told st' = Some x | None => told st' = told st end.
Proof.
  unfold calc_total, told.
  destruct p as [[[|] q]|].
  - pose proof (or_stored_post (pm_op st) (Some q) (pm_sys st) must) as H1.
    pose proof (gcalc_none_keeps (pm_op st) (Some q) (pm_sys st) must) as K1.
    destruct (gcalc (pm_op st) (Some q) (pm_sys st) must) as [gop rs]. cbn [fst snd] in K1.
    pose proof (or_stored_post (pm_reg st) None (shifted (pm_sys st) (or_stored rs gop)) must) as H2.
    pose proof (gcalc_none_keeps (pm_reg st) None (shifted (pm_sys st) (or_stored rs gop)) must) as K2.
    destruct (gcalc (pm_reg st) None (shifted (pm_sys st) (or_stored rs gop)) must) as [greg rn]. cbn [fst snd] in K2.
    cbn [pm_op pm_reg]. rewrite H1, H2.
    destruct rs as [a|], rn as [b|]; cbn [or_stored] in H1, H2.
    + rewrite <- H1, <- H2. reflexivity.
    + rewrite <- H1. cbn [total]. destruct (g_target greg); reflexivity.
    + rewrite <- H2. cbn [total]. destruct (g_target gop); reflexivity.
    + rewrite K1, K2 by reflexivity. reflexivity.
  - pose proof (or_stored_post (pm_reg st) (Some q) (pm_sys st) must) as H1.
    pose proof (gcalc_none_keeps (pm_reg st) (Some q) (pm_sys st) must) as K1.
    destruct (gcalc (pm_reg st) (Some q) (pm_sys st) must) as [greg rn]. cbn [fst snd] in K1.
    pose proof (or_stored_post (pm_op st) None (shifted (pm_sys st) (or_stored rn greg)) must) as H2.
    pose proof (gcalc_none_keeps (pm_op st) None (shifted (pm_sys st) (or_stored rn greg)) must) as K2.
    destruct (gcalc (pm_op st) None (shifted (pm_sys st) (or_stored rn greg)) must) as [gop rs]. cbn [fst snd] in K2.
    cbn [pm_op pm_reg]. rewrite H1, H2.
    destruct rs as [a|], rn as [b|]; cbn [or_stored] in H1, H2.
    + rewrite <- H1, <- H2. reflexivity.
    + rewrite <- H2. cbn [total]. destruct (g_target greg); reflexivity.
    + rewrite <- H1. cbn [total]. destruct (g_target gop); reflexivity.
    + rewrite K1, K2 by reflexivity. reflexivity.
  - pose proof (or_stored_post (pm_reg st) None (pm_sys st) must) as H1.
    pose proof (gcalc_none_keeps (pm_reg st) None (pm_sys st) must) as K1.
    destruct (gcalc (pm_reg st) None (pm_sys st) must) as [greg rn]. cbn [fst snd] in K1.
    pose proof (or_stored_post (pm_op st) None (shifted (pm_sys st) (or_stored rn greg)) must) as H2.
    pose proof (gcalc_none_keeps (pm_op st) None (shifted (pm_sys st) (or_stored rn greg)) must) as K2.
    destruct (gcalc (pm_op st) None (shifted (pm_sys st) (or_stored rn greg)) must) as [gop rs]. cbn [fst snd] in K2.
    cbn [pm_op pm_reg]. rewrite H1, H2.
    destruct rs as [a|], rn as [b|]; cbn [or_stored] in H1, H2.
    + rewrite <- H1, <- H2. reflexivity.
    + rewrite <- H2. cbn [total]. destruct (g_target greg); reflexivity.
    + rewrite <- H1. cbn [total]. destruct (g_target gop); reflexivity.
    + rewrite K1, K2 by reflexivity. reflexivity.
Qed.

Lemma pstep_told ma1 ma2 st e :
  let '(st', r, _) := pstep ma1 ma2 st e in
  match r with Some x => told st' = Some x | None => told st' = told st end.
Proof.
  destruct e as [is_op p|s|k|now]; cbn [pstep].
  - pose proof (calc_total_told st (Some (is_op, p)) true) as H.
    destruct (calc_total st (Some (is_op, p)) true) as [st' r]. exact H.
  - pose proof (calc_total_told (mkPM (pm_reg st) (pm_op st) s (pm_last_pf st)) None false) as H.
    destruct (calc_total _ None false) as [st' r]. exact H.
  - destruct (k =? 1).
    + destruct (pm_last_pf st); [reflexivity|].
      pose proof (calc_total_told (mkPM (pm_reg st) (pm_op st) (pm_sys st) true) None true) as H.
      destruct (calc_total _ None true) as [st' r]. exact H.
    + destruct (k =? 0); reflexivity.
  - reflexivity.
Qed.

(* final state and last request sent along a history *)
Fixpoint run_last (ma1 ma2 : Z) (st : pm) (last : option Z) (h : list pevent) : pm * option Z :=
  match h with
  | [] => (st, last)
  | e :: h' =>
    let '(st', r, _) := pstep ma1 ma2 st e in
    run_last ma1 ma2 st' (match r with Some x => Some x | None => last end) h'
  end.

Lemma told_in_force ma1 ma2 h : forall st last,
  (told st = None \/ told st = last) ->
  let '(st', last') := run_last ma1 ma2 st last h in told st' = None \/ told st' = last'.
Proof.
  induction h as [|e h IH]; intros st last Hinv; cbn [run_last]; [exact Hinv|].
  pose proof (pstep_told ma1 ma2 st e) as H.
  destruct (pstep ma1 ma2 st e) as [[st' r] rep].
  apply IH. destruct r as [x|]; [right; exact H|]. rewrite H. exact Hinv.
Qed.
