(* BatteryManager glue (model/DistMgr.v): a request the manager serves is the algorithm's result on the same data. *)
From Coq Require Import QArith Lqa List Bool.
From Verif Require Import model.DistMgr proofs.DistFacts.
Open Scope Q_scope.

Lemma manager_done powf gs p adj rr :
  manager_request powf gs p adj = MDone rr -> run_request powf gs p = Some rr /\ check_request gs p adj = true.
Proof.
  unfold manager_request. destruct gs as [|g t]; [discriminate|].
  destruct (check_request (g :: t) p adj); [|discriminate].
  destruct (run_request powf (g :: t) p) as [r|]; [|discriminate]. intro H. inversion H; subst. auto.
Qed.

(* what the fake API client records and what the Result reports, for every served non-zero request:
   set_power calls + excess == request, and succeeded power == sum of the set_power calls *)
Lemma manager_conserves powf gs p adj rr :
  czero p = false -> manager_request powf gs p adj = MDone rr ->
  sumsp (res_dist (rr_res rr)) + res_rem (rr_res rr) == p /\
  res_distributed rr == sumsp (res_dist (rr_res rr)).
Proof.
  intros Hz H. apply manager_done in H. destruct H as [H _]. split.
  - unfold run_request in H. destruct (distribute powf gs p) as [r|] eqn:D; [|discriminate].
    inversion H; subst. cbn [rr_res]. now apply distribute_sum in D.
  - eapply request_reported; eauto.
Qed.

(* ---------------------------------------------------------------- reported-as-set under API faults *)
From Verif Require model.Accounting proofs.AccountingFacts proofs.AccountingEndToEnd.

Lemma manager_reported_under_faults powf gs p adj rr m out_of :
  czero p = false -> manager_request powf gs p adj = MDone rr ->
  (forall inv, In inv (map fst (res_dist (rr_res rr))) -> Accounting.inv_bats m inv <> nil) ->
  res_dist (rr_res rr) <> nil ->
  let d := res_dist (rr_res rr) in
  let outs := map (fun c => out_of (fst c)) d in
  let R := faults_result p rr m out_of in
  Accounting.r_reported R = true /\
  Accounting.r_succeeded_power R == Accounting.qsum (map snd (AccountingFacts.ok_calls d outs)) /\
  Accounting.r_failed_power R == Accounting.qsum (map snd (AccountingFacts.failed_calls d outs)) /\
  Accounting.r_succeeded_power R + Accounting.r_failed_power R + Accounting.r_excess R == p /\
  Accounting.r_excess R == res_rem (rr_res rr).
Proof.
  intros Hz H Hm Hn d outs R. apply manager_done in H. destruct H as [H _].
  unfold run_request in H. destruct (distribute powf gs p) as [r|] eqn:D; [|discriminate].
  inversion H; subst rr. cbn [rr_res] in *.
  assert (W : AccountingFacts.bat_wf (AccountingEndToEnd.bat_of_distribution p r m outs)).
  { split; [unfold outs, d; cbn; now rewrite map_length|exact Hm]. }
  destruct (AccountingEndToEnd.bat_end_to_end powf gs p r m outs Hz D W Hn) as (E1 & E2 & E3 & E4 & E5).
  repeat split; assumption.
Qed.
