(* BatteryManager glue (model/DistMgr.v): a request the manager serves is the algorithm's result on the same data. *)
From Coq Require Import QArith Lqa List Bool.
From Verif Require Import model.DistMgr proofs.DistFacts.
Open Scope Q_scope.

Lemma manager_done powf gs p adj rr :
  manager_request powf gs p adj = MDone rr -> run_request powf gs p = Some rr /\ check_request gs p adj = true.
Proof.
  unfold manager_request. destruct gs as [|g t]; [discriminate|].
  destruct (check_request (g :: t) p adj); [|discriminate].
  destruct (run_request powf (g :: t) p) as [r|]; [|discriminate]. intro H. inversion H; subst. auto.
Qed.

(* what the fake API client records and what the Result reports, for every served non-zero request:
   set_power calls + excess == request, and succeeded power == sum of the set_power calls *)
Lemma manager_conserves powf gs p adj rr :
  czero p = false -> manager_request powf gs p adj = MDone rr ->
  sumsp (res_dist (rr_res rr)) + res_rem (rr_res rr) == p /\
  res_distributed rr == sumsp (res_dist (rr_res rr)).
Proof.
  intros Hz H. apply manager_done in H. destruct H as [H _]. split.
  - unfold run_request in H. destruct (distribute powf gs p) as [r|] eqn:D; [|discriminate].
    inversion H; subst. cbn [rr_res]. now apply distribute_sum in D.
  - eapply request_reported; eauto.
Qed.
