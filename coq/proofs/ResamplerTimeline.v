(* C07: facts about the timeline part of model/Resampler.v *)
From Coq Require Import Lia ZifyBool.
From Verif Require Import model.Resampler.

(* ------------------------------------------------------------------ first window end *)

Lemma mod_of_multiple : forall k p, (k * p) mod p = 0.
Proof. intros. apply Z_mod_mult. Qed.

Lemma multiple_of_mod0 : forall x p, 0 < p -> x mod p = 0 -> x = p * (x / p).
Proof. intros x p Hp H. pose proof (Z.div_mod x p ltac:(lia)) as E. lia. Qed.

(* The first window end w computed at creation instant [now]:
   - lies in [now + period, now + 2*period);
   - the timer is armed for exactly w (first_tick_at = now + period + start_delay);
   - without align_to it is now + period; with align_to = a it is on the grid a + k*period and is the
     FIRST grid point that is >= now + period. *)
Theorem window_end_first : forall now period align,
  0 < period ->
  let we := window_end_spec now period align in
  now + period <= fst we < now + 2 * period /\
  0 <= snd we < period /\
  first_tick_at now period we = fst we /\
  match align with
  | None => fst we = now + period
  | Some a => (fst we - a) mod period = 0 /\
              forall g, (g - a) mod period = 0 -> now + period <= g -> fst we <= g
  end.
Proof.
  intros now period align Hp. unfold window_end_spec, first_tick_at.
  destruct align as [a|]; cbn [fst snd].
  2:{ repeat split; lia. }
  pose proof (Z.mod_pos_bound (now - a) period Hp) as Hb.
  pose proof (Z.div_mod (now - a) period ltac:(lia)) as Hdm.
  set (e := (now - a) mod period) in *. set (q := (now - a) / period) in *.
  destruct (e =? 0) eqn:He; cbn [fst snd negb].
  - assert (e = 0) by lia. split; [lia|]. split; [lia|]. split; [lia|]. split.
    + replace (now + period - a) with ((q + 1) * period) by lia. apply mod_of_multiple.
    + intros g Hg Hge. lia.
  - assert (e <> 0) by lia. split; [lia|]. split; [lia|]. split; [lia|]. split.
    + replace (now + period * 2 - e - a) with ((q + 2) * period) by lia. apply mod_of_multiple.
    + intros g Hg Hge.
      pose proof (multiple_of_mod0 (g - a) period Hp Hg) as Hk.
      set (k := (g - a) / period) in *.
      assert (q + 1 < k) by nia. nia.
Qed.

(* The function translated from /repo's current source computes what [window_end_spec] computes.
   Proved semantically (case split on every test + linear arithmetic over the division equations), so an
   algebraically equivalent rewrite of the Python function (divmod, align_to + period*(k+1), ...) keeps it. *)
Lemma window_end_as_translated : forall now period align,
  0 < period ->
  calculate_window_end now period align = window_end_spec now period align.
Proof.
  intros now period align Hp. unfold calculate_window_end, window_end_spec.
  destruct align as [a|]; cbn zeta.
  2:{ repeat match goal with |- context [if ?c then _ else _] => destruct c eqn:? end;
      f_equal; lia. }
  pose proof (Z.div_mod (now - a) period ltac:(lia)) as Hdm.
  pose proof (Z.mod_pos_bound (now - a) period Hp) as Hb.
  set (e := (now - a) mod period) in *. set (q := (now - a) / period) in *.
  repeat match goal with |- context [if ?c then _ else _] => destruct c eqn:? end;
    try (f_equal; nia); try (exfalso; nia).
Qed.

(* exactly aligned creation instant: no extra period *)
Lemma window_end_aligned : forall now period a,
  0 < period -> (now - a) mod period = 0 -> window_end_spec now period (Some a) = (now + period, 0).
Proof.
  intros now period a Hp H. unfold window_end_spec. rewrite H. reflexivity.
Qed.

(* ------------------------------------------------------------------ bookkeeping of the loop *)

Definition nticks (es : list revent) : nat := length (filter is_tick es).

Lemma rfinal_app : forall period es1 es2 st,
  rfinal period st (es1 ++ es2) = rfinal period (rfinal period st es1) es2.
Proof. induction es1 as [|e es1 IH]; intros; cbn; auto. Qed.

Lemma rrun_app : forall period es1 es2 st,
  rrun period st (es1 ++ es2) = rrun period st es1 ++ rrun period (rfinal period st es1) es2.
Proof.
  induction es1 as [|e es1 IH]; intros es2 st; cbn; auto.
  destruct (rstep period st e) as [st' o] eqn:E. cbn. rewrite IH.
  replace (fst (rstep period st e)) with st' by (rewrite E; reflexivity). reflexivity.
Qed.

Lemma rrun_length : forall period es st, length (rrun period st es) = length es.
Proof.
  induction es as [|e es IH]; intros st; cbn; auto.
  destruct (rstep period st e) as [st' o]. cbn. rewrite IH. reflexivity.
Qed.

(* window end after any event sequence: one period per tick, nothing else matters *)
Lemma rfinal_wend : forall period es st,
  r_wend (rfinal period st es) = r_wend st + Z.of_nat (nticks es) * period.
Proof.
  induction es as [|e es IH]; intros st; cbn [rfinal].
  - unfold nticks; cbn. lia.
  - rewrite IH. unfold nticks. destruct e as [l f d du|s|s]; cbn [rstep fst r_wend filter is_tick length]; lia.
Qed.

(* what one tick hands out: every registered series whose source is alive gets the current window end *)
Lemma tick_outputs : forall period st late fail dead during,
  fst (snd (rstep period st (Tick late fail dead during))) =
  map (fun s => (s, r_wend st)) (filter (fun s => negb (zmem s dead)) (r_series st)).
Proof. reflexivity. Qed.

Lemma zmem_In : forall s l, zmem s l = true <-> In s l.
Proof.
  intros s l. unfold zmem. rewrite existsb_exists. split.
  - intros [x [Hx E]]. apply Z.eqb_eq in E. subst. exact Hx.
  - intros H. exists s. split; auto. apply Z.eqb_refl.
Qed.

(* k-th tick: the event after prefix [pre] is a tick; every pair it hands out carries
   w + (#ticks in pre) * period, and every registered live series is served *)
Theorem kth_tick : forall period st pre late fail dead during post,
  let es := pre ++ Tick late fail dead during :: post in
  let o := nth (length pre) (rrun period st es) ([], OOk) in
  let stk := rfinal period st pre in
  (forall s t, In (s, t) (fst o) -> t = r_wend st + Z.of_nat (nticks pre) * period) /\
  (forall s, In s (r_series stk) -> ~ In s dead -> In (s, r_wend st + Z.of_nat (nticks pre) * period) (fst o)).
Proof.
  intros period st pre late fail dead during post es o stk.
  assert (Ho : o = snd (rstep period stk (Tick late fail dead during))).
  { unfold o, es. rewrite rrun_app. rewrite app_nth2; rewrite rrun_length; [|lia].
    rewrite Nat.sub_diag. cbn. reflexivity. }
  assert (Hw : r_wend stk = r_wend st + Z.of_nat (nticks pre) * period) by apply rfinal_wend.
  rewrite Ho. cbn [rstep snd fst]. split.
  - intros s t Hin. apply in_map_iff in Hin. destruct Hin as [x [E _]]. inversion E; subst. exact Hw.
  - intros s Hs Hd. apply in_map_iff. exists s. split; [rewrite Hw; reflexivity|].
    apply filter_In. split; auto. destruct (zmem s dead) eqn:Z; auto. apply zmem_In in Z. contradiction.
Qed.

(* all series resampled together receive the same timestamp *)
Theorem shared_timestamp : forall period st es o s1 t1 s2 t2,
  In o (rrun period st es) -> In (s1, t1) (fst o) -> In (s2, t2) (fst o) -> t1 = t2.
Proof.
  intros period st es. revert st. induction es as [|e es IH]; intros st o s1 t1 s2 t2 Ho H1 H2; cbn in Ho; [contradiction|].
  destruct (rstep period st e) as [st' o'] eqn:E. cbn in Ho. destruct Ho as [<-|Ho].
  - destruct e as [l f d du|s|s]; cbn in E; inversion E; subst; cbn in H1, H2; try contradiction.
    apply in_map_iff in H1. apply in_map_iff in H2. destruct H1 as [x [E1 _]]. destruct H2 as [y [E2 _]].
    congruence.
  - eapply IH; eauto.
Qed.

(* the lateness label never matters *)
Theorem labels_irrelevant : forall period es st,
  rrun period st (map unlabel es) = rrun period st es /\
  rfinal period st (map unlabel es) = rfinal period st es.
Proof.
  induction es as [|e es IH]; intros st; [cbn; auto|].
  cbn [map rrun rfinal].
  assert (Hs : rstep period st (unlabel e) = rstep period st e) by (destruct e; reflexivity).
  rewrite Hs. destruct (rstep period st e) as [st' o]. cbn [fst].
  destruct (IH st') as [A B]. rewrite A, B. auto.
Qed.

Lemma reported_map_filter : forall (f : Z -> bool) l, reported l (map f l) = filter f l.
Proof. induction l as [|x l IH]; cbn; auto. destruct (f x); rewrite IH; reflexivity. Qed.

(* The increment happens on EVERY way out of the loop iteration: normal, ResamplingError, and the IndexError
   that kills resample() when a series was added while the sinks were awaited.  The latter happens exactly when
   the dictionary has grown; with an undisturbed gather the error names exactly the failing / stopped series. *)
Theorem error_path : forall period st late fail dead during,
  let '(st', (outs, how)) := rstep period st (Tick late fail dead during) in
  r_wend st' = r_wend st + period /\
  r_series st' = fold_left apply_change during (r_series st) /\
  (how = OCrash <-> (length (r_series st) < length (r_series st'))%nat) /\
  (during = [] ->
   how = match filter (fun s => zmem s fail || zmem s dead) (r_series st) with [] => OOk | l => ORaised l end).
Proof.
  intros. cbn [rstep]. split; [reflexivity|]. split; [reflexivity|]. cbn [r_series]. split.
  - unfold tick_outcome. rewrite map_length.
    destruct (length (r_series st) <? length (fold_left apply_change during (r_series st)))%nat eqn:E.
    + apply Nat.ltb_lt in E. tauto.
    + apply Nat.ltb_ge in E. split; [|lia].
      destruct (reported _ _); discriminate.
  - intros ->. cbn [fold_left]. unfold tick_outcome. rewrite map_length, Nat.ltb_irrefl.
    rewrite reported_map_filter. reflexivity.
Qed.

(* ---- no skip, no duplicate: a series that stays registered gets consecutive window ends *)

Definition never_removed (s : Z) (es : list revent) : Prop :=
  forall e, In e es -> match e with
                       | Remove x => x <> s
                       | Tick _ _ dead during => ~ In s dead /\ ~ In (CRemove s) during
                       | Add _ => True
                       end.

Lemma nodup_snoc : forall (l : list Z) s, NoDup l -> ~ In s l -> NoDup (l ++ [s]).
Proof.
  induction l as [|x xs IHx]; intros s Hnd Hn; cbn.
  - constructor; [intros []|constructor].
  - inversion Hnd as [|? ? Hx Hxs]; subst. constructor.
    + rewrite in_app_iff. cbn. intros [A|[A|[]]]; [contradiction|]. subst. apply Hn. left; reflexivity.
    + apply IHx; auto. intros A. apply Hn. right; exact A.
Qed.

Lemma add_series_nodup : forall s l, NoDup l -> NoDup (add_series s l).
Proof.
  intros s l H. unfold add_series. destruct (zmem s l) eqn:M; auto.
  apply nodup_snoc; auto. rewrite <- zmem_In. congruence.
Qed.

Lemma remove_series_nodup : forall s l, NoDup l -> NoDup (remove_series s l).
Proof. intros. unfold remove_series. apply NoDup_filter. auto. Qed.

Lemma changes_nodup : forall du l, NoDup l -> NoDup (fold_left apply_change du l).
Proof.
  induction du as [|c du IH]; intros l H; cbn; auto.
  apply IH. destruct c; cbn; [apply add_series_nodup|apply remove_series_nodup]; auto.
Qed.

Lemma add_series_stays : forall s x l, In s l -> In s (add_series x l).
Proof. intros. unfold add_series. destruct (zmem x l); auto. apply in_or_app. auto. Qed.

Lemma remove_series_stays : forall s x l, In s l -> x <> s -> In s (remove_series x l).
Proof.
  intros s x l H Hne. unfold remove_series. apply filter_In. split; auto.
  destruct (s =? x) eqn:E; auto. apply Z.eqb_eq in E. subst. contradiction.
Qed.

Lemma changes_stay : forall du l s, In s l -> ~ In (CRemove s) du -> In s (fold_left apply_change du l).
Proof.
  induction du as [|c du IH]; intros l s H Hn; cbn; auto.
  apply IH; [|intros A; apply Hn; right; exact A].
  destruct c as [x|x]; cbn; [apply add_series_stays; auto|].
  apply remove_series_stays; auto. intros ->. apply Hn. left. reflexivity.
Qed.

Lemma series_nodup_step : forall period st e,
  NoDup (r_series st) -> NoDup (r_series (fst (rstep period st e))).
Proof.
  intros period st e H. destruct e as [l f d du|s|s]; cbn.
  - apply changes_nodup. exact H.
  - apply add_series_nodup. exact H.
  - apply remove_series_nodup. exact H.
Qed.

Lemma series_stays : forall period st e s,
  In s (r_series st) ->
  match e with Remove x => x <> s | Tick _ _ _ du => ~ In (CRemove s) du | _ => True end ->
  In s (r_series (fst (rstep period st e))).
Proof.
  intros period st e s H Hne. destruct e as [l f d du|x|x]; cbn.
  - apply changes_stay; auto.
  - apply add_series_stays. exact H.
  - apply remove_series_stays; auto.
Qed.

Lemma one_output : forall s w dead l,
  NoDup l -> In s l -> ~ In s dead ->
  map snd (filter (fun p : Z * Z => fst p =? s) (map (fun x => (x, w)) (filter (fun x => negb (zmem x dead)) l))) = [w].
Proof.
  intros s w dead l Hnd. induction Hnd as [|x xs Hx Hnd IH]; intros Hin Hd; [inversion Hin|].
  cbn. destruct (zmem x dead) eqn:Zx; cbn.
  - destruct Hin as [->|Hin]; [apply zmem_In in Zx; contradiction|]. apply IH; auto.
  - destruct (x =? s) eqn:E; cbn.
    + apply Z.eqb_eq in E. subst x. f_equal.
      assert (forall l', ~ In s l' ->
        map snd (filter (fun p : Z * Z => fst p =? s) (map (fun x => (x, w)) (filter (fun x => negb (zmem x dead)) l'))) = []) as Hnone.
      { induction l' as [|y ys IHy]; intros Hn; cbn; auto.
        destruct (zmem y dead); cbn.
        - apply IHy. intros A. apply Hn. right; auto.
        - destruct (y =? s) eqn:E; cbn.
          + apply Z.eqb_eq in E. subst. exfalso. apply Hn. left; auto.
          + apply IHy. intros A. apply Hn. right; auto. }
      apply Hnone. exact Hx.
    + destruct Hin as [->|Hin]; [rewrite Z.eqb_refl in E; discriminate|]. apply IH; auto.
Qed.

Theorem no_skip_no_dup : forall period es st s,
  NoDup (r_series st) -> In s (r_series st) -> never_removed s es ->
  emitted s (rrun period st es) =
  map (fun k => r_wend st + Z.of_nat k * period) (seq 0 (nticks es)).
Proof.
  intros period es. induction es as [|e es IH]; intros st s Hnd Hin Hnr; [reflexivity|].
  cbn [rrun]. destruct (rstep period st e) as [st' o] eqn:E.
  assert (Hst' : st' = fst (rstep period st e)) by (rewrite E; reflexivity).
  assert (Ho : o = snd (rstep period st e)) by (rewrite E; reflexivity).
  unfold emitted. cbn [flat_map]. fold (emitted s (rrun period st' es)).
  assert (Hnr' : never_removed s es) by (intros x Hx; apply Hnr; right; exact Hx).
  pose proof (Hnr e (or_introl eq_refl)) as He.
  rewrite IH; [|subst st'; apply series_nodup_step; auto| |exact Hnr'].
  2:{ subst st'. apply series_stays; auto. destruct e; auto. tauto. }
  destruct e as [l f d du|x|x].
  - (* tick *)
    rewrite Ho. cbn [rstep snd fst]. rewrite one_output; auto; [|tauto].
    unfold nticks. cbn [filter is_tick length]. fold (nticks es).
    cbn [seq map app]. f_equal; [lia|].
    rewrite <- seq_shift, map_map. apply map_ext. intros k.
    rewrite Hst'. cbn [rstep fst r_wend]. lia.
  - rewrite Ho. cbn [rstep snd fst filter map app]. unfold nticks. cbn [filter is_tick].
    fold (nticks es). apply map_ext. intros k. rewrite Hst'. reflexivity.
  - rewrite Ho. cbn [rstep snd fst filter map app]. unfold nticks. cbn [filter is_tick].
    fold (nticks es). apply map_ext. intros k. rewrite Hst'. reflexivity.
Qed.

(* from creation: every timestamp ever handed out is w0 + k*period, hence on the align_to grid,
   not before creation + period *)
Theorem timeline_from_creation : forall now period align es o s t,
  0 < period ->
  let we := window_end_spec now period align in
  In o (rrun period (rinit now period align we) es) -> In (s, t) (fst o) ->
  (exists k, 0 <= k /\ t = fst we + k * period) /\
  now + period <= t /\
  match align with Some a => (t - a) mod period = 0 | None => (t - now) mod period = 0 end.
Proof.
  intros now period align es o s t Hp we Ho Hin.
  assert (Hk : exists k, 0 <= k /\ t = fst we + k * period).
  { apply In_nth with (d := ([], OOk)) in Ho. destruct Ho as [n [Hn Ho]].
    rewrite rrun_length in Hn.
    destruct (nth_split es (Tick 0 [] [] []) Hn) as [pre [post [Hes Hlen]]].
    remember (nth n es (Tick 0 [] [] [])) as e eqn:Ee.
    destruct e as [l f d du|x|x].
    - pose proof (kth_tick period (rinit now period align we) pre l f d du post) as K.
      cbn zeta in K. rewrite <- Hes, Hlen, Ho in K. destruct K as [K _].
      exists (Z.of_nat (nticks pre)). split; [lia|]. apply (K s t Hin).
    - exfalso. subst es. rewrite rrun_app, app_nth2, rrun_length in Ho by (rewrite rrun_length; lia).
      rewrite Hlen, Nat.sub_diag in Ho. cbn in Ho. subst o. inversion Hin.
    - exfalso. subst es. rewrite rrun_app, app_nth2, rrun_length in Ho by (rewrite rrun_length; lia).
      rewrite Hlen, Nat.sub_diag in Ho. cbn in Ho. subst o. inversion Hin. }
  split; [exact Hk|]. destruct Hk as [k [Hk0 Hk]].
  pose proof (window_end_first now period align Hp) as W. cbn zeta in W. fold we in W.
  destruct W as [Wb [_ [_ Wa]]]. split; [nia|].
  destruct align as [a|].
  - destruct Wa as [Wa _]. rewrite Hk.
    replace (fst we + k * period - a) with ((fst we - a) + k * period) by lia.
    rewrite Z_mod_plus_full. exact Wa.
  - rewrite Hk, Wa. replace (now + period + k * period - now) with ((k + 1) * period) by lia.
    apply mod_of_multiple.
Qed.

(* ------------------------------------------------------------------ the same, for the translated function *)

Lemma window_end_first_translated : forall now period align,
  0 < period ->
  let we := window_end now period align in
  now + period <= fst we < now + 2 * period /\
  0 <= snd we < period /\
  first_tick_at now period we = fst we /\
  match align with
  | None => fst we = now + period
  | Some a => (fst we - a) mod period = 0 /\
              forall g, (g - a) mod period = 0 -> now + period <= g -> fst we <= g
  end.
Proof.
  intros now period align Hp. unfold window_end. rewrite window_end_as_translated by exact Hp.
  exact (window_end_first now period align Hp).
Qed.

Lemma timeline_from_creation_translated : forall now period align es o s t,
  0 < period ->
  let we := window_end now period align in
  In o (rrun period (rinit now period align we) es) -> In (s, t) (fst o) ->
  (exists k, 0 <= k /\ t = fst we + k * period) /\
  now + period <= t /\
  match align with Some a => (t - a) mod period = 0 | None => (t - now) mod period = 0 end.
Proof.
  intros now period align es o s t Hp. unfold window_end. rewrite window_end_as_translated by exact Hp.
  exact (timeline_from_creation now period align es o s t Hp).
Qed.
