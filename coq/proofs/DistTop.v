(* From the direction-normalised core to [distribute] on the original battery / inverter data:
   well-formedness of the prepared groups, sign flip for supply requests, and the theorems behind
   props/C01.v and props/C02.v. *)
From Coq Require Import QArith Qabs Lqa Lia List Bool.
From Verif Require Import model.Dist proofs.DistFacts proofs.DistBounds.
Import ListNotations.
Open Scope Q_scope.

(* ------------------------------------------------------------------ the property's domain *)
Definition wf_inverter (i : inverter) : Prop :=
  i_il i <= i_el i /\ i_el i <= 0 /\ 0 <= i_eu i /\ i_eu i <= i_iu i.

Definition wf_battery (b : battery) : Prop :=
  b_il b <= b_el b /\ b_el b <= 0 /\ 0 <= b_eu b /\ b_eu b <= b_iu b /\ 0 < b_cap b.

(* minimum power / inclusion bound of a battery group in one direction (independent of the soc factor) *)
Definition group_min (supply : bool) (g : group) : Q := min_power (prepare supply (fun _ => 0) g).
Definition group_incl (supply : bool) (g : group) : Q := incl_bound (prepare supply (fun _ => 0) g).

Definition wf_group (g : group) : Prop :=
  g_bats g <> [] /\ (forall b, In b (g_bats g) -> wf_battery b) /\
  (forall i, In i (g_invs g) -> wf_inverter i) /\
  group_min false g <= group_incl false g /\ group_min true g <= group_incl true g.

Definition wf_groups (gs : list group) : Prop := forall g, In g gs -> wf_group g.

(* the bounds the pool advertises (PowerBoundsCalculator): per group the larger of the aggregated battery
   exclusion bound and the summed inverter exclusion bounds, summed over the groups *)
Definition adv_excl_upper (gs : list group) : Q :=
  qsum (map (fun g => qmax (a_eu (aggregate (g_bats g))) (qsum (map i_eu (g_invs g)))) gs).
Definition adv_excl_lower (gs : list group) : Q :=
  qsum (map (fun g => qmin (a_el (aggregate (g_bats g))) (qsum (map i_el (g_invs g)))) gs).
(* non-zero (beyond the code's own 1e-9 W zero test) and not inside the advertised exclusion zone *)
Definition admitted (gs : list group) (p : Q) : Prop :=
  czero p = false /\ ((0 < p /\ adv_excl_upper gs <= p) \/ (p < 0 /\ p <= adv_excl_lower gs)).

(* ------------------------------------------------------------------ aggregates of well-formed batteries *)
Lemma qsum_nonpos l : (forall x, In x l -> x <= 0) -> qsum l <= 0.
Proof.
  induction l as [|x l IH]; intro H; [cbn; lra|]. rewrite qsum_cons.
  assert (x <= 0) by (apply H; cbn; auto). assert (qsum l <= 0) by (apply IH; intros; apply H; cbn; auto). lra.
Qed.

Lemma fold_qmax_ge : forall l x, x <= fold_left qmax l x.
Proof.
  induction l as [|y l IH]; intro x; cbn; [lra|]. pose proof (IH (qmax x y)). pose proof (qmax_ge_l x y). lra.
Qed.

Lemma fold_qmin_le : forall l x, fold_left qmin l x <= x.
Proof.
  induction l as [|y l IH]; intro x; cbn; [lra|]. pose proof (IH (qmin x y)). pose proof (qmin_le_l x y). lra.
Qed.

Lemma qmaxl_nonneg l : l <> [] -> (forall x, In x l -> 0 <= x) -> 0 <= qmaxl l.
Proof.
  destruct l as [|x t]; [congruence|]. intros _ H. cbn. pose proof (fold_qmax_ge t x).
  assert (0 <= x) by (apply H; cbn; auto). lra.
Qed.

Lemma qminl_nonpos l : l <> [] -> (forall x, In x l -> x <= 0) -> qminl l <= 0.
Proof.
  destruct l as [|x t]; [congruence|]. intros _ H. cbn. pose proof (fold_qmin_le t x).
  assert (x <= 0) by (apply H; cbn; auto). lra.
Qed.

Lemma nbat_nonneg bs : 0 <= nbat bs.
Proof. unfold nbat. change 0 with (inject_Z 0). rewrite <- Zle_Qle. lia. Qed.

Lemma agg_wf bs : bs <> [] -> (forall b, In b bs -> wf_battery b) ->
  let a := aggregate bs in a_il a <= 0 /\ 0 <= a_iu a /\ a_el a <= 0 /\ 0 <= a_eu a.
Proof.
  intros Hne H. cbn. pose proof (nbat_nonneg bs) as Hn. repeat split.
  - apply qsum_nonpos. intros x Hx. apply in_map_iff in Hx. destruct Hx as (b & <- & Hb).
    destruct (H b Hb) as (? & ? & ? & ? & ?). lra.
  - apply qsum_nonneg. intros x Hx. apply in_map_iff in Hx. destruct Hx as (b & <- & Hb).
    destruct (H b Hb) as (? & ? & ? & ? & ?). lra.
  - assert (qminl (map b_el bs) <= 0).
    { apply qminl_nonpos; [destruct bs; cbn; congruence|]. intros x Hx. apply in_map_iff in Hx.
      destruct Hx as (b & <- & Hb). destruct (H b Hb) as (? & ? & ? & ? & ?). lra. }
    nra.
  - assert (0 <= qmaxl (map b_eu bs)).
    { apply qmaxl_nonneg; [destruct bs; cbn; congruence|]. intros x Hx. apply in_map_iff in Hx.
      destruct Hx as (b & <- & Hb). destruct (H b Hb) as (? & ? & ? & ? & ?). lra. }
    nra.
Qed.

(* ------------------------------------------------------------------ prepared groups are well-formed *)
Lemma prepare_wf supply powf g : wf_group g -> wf_pg (prepare supply powf g).
Proof.
  intros (Hne & Hb & Hi & Hc & Hs). destruct (agg_wf _ Hne Hb) as (A1 & A2 & A3 & A4).
  unfold wf_pg. split; [|split].
  - intros pi Hpi. unfold prepare in Hpi; cbn [pg_invs] in Hpi. apply in_map_iff in Hpi. destruct Hpi as (i & <- & Hin).
    destruct (Hi i Hin) as (I1 & I2 & I3 & I4). unfold wf_pinv, prep_inv, prepare. destruct supply; cbn [pi_excl pi_incl pg_bincl].
    + pose proof (qmax_spec (i_il i) (a_il (aggregate (g_bats g)))) as [[? ->]|[? ->]]; repeat split; lra.
    + pose proof (qmin_spec (i_iu i) (a_iu (aggregate (g_bats g)))) as [[? ->]|[? ->]]; repeat split; lra.
  - unfold prepare; destruct supply; cbn [pg_bexcl]; lra.
  - destruct supply; [exact Hs|exact Hc].
Qed.

Lemma prepare_wfs supply powf gs : wf_groups gs -> wf_pgs (map (prepare supply powf) gs).
Proof.
  intros H pg Hpg. apply in_map_iff in Hpg. destruct Hpg as (g & <- & Hg). apply prepare_wf. auto.
Qed.

(* ------------------------------------------------------------------ direction of a request *)
Definition supply_of (p : Q) : bool := negb (Qlt_bool 0 p).
Definition mag (p : Q) : Q := if supply_of p then - p else p.
Definition pgs_of (powf : Q -> Q) (gs : list group) (p : Q) : list pgroup := map (prepare (supply_of p) powf) gs.

Definition core_result (powf : Q -> Q) (gs : list group) (p : Q) : option result := core (pgs_of powf gs p) (mag p).

Lemma distribute_cases powf gs p r :
  czero p = false -> distribute powf gs p = Some r ->
  (0 < p /\ supply_of p = false /\ core_result powf gs p = Some r) \/
  (p < 0 /\ supply_of p = true /\ exists r0, core_result powf gs p = Some r0 /\ r = neg_result r0).
Proof.
  intros Hz H. unfold distribute in H. rewrite Hz in H. unfold core_result, pgs_of, mag, supply_of.
  destruct (Qlt_bool 0 p) eqn:E; cbn.
  - left. apply Qlt_bool_iff in E. auto.
  - right. apply Qlt_bool_false in E. apply czero_false_neq0 in Hz.
    assert (p < 0). { destruct (Qlt_le_dec p 0); auto. exfalso. apply Hz. lra. }
    destruct (core (map (prepare true powf) gs) (- p)) as [r0|]; [|discriminate].
    inversion H; subst. split; auto. split; auto. exists r0. auto.
Qed.

Lemma neg_groups_in r0 gr : In gr (res_groups (neg_result r0)) ->
  exists gr0, In gr0 (res_groups r0) /\
              gr = mkGR (gr_src gr0) (map (fun a => (fst a, - snd a)) (gr_sp gr0)) (- gr_left gr0).
Proof.
  unfold neg_result; cbn. intro H. apply in_map_iff in H. destruct H as (gr0 & <- & H0). exists gr0. auto.
Qed.

(* ------------------------------------------------------------------ original bounds of an inverter *)
Definition inverter_ok (i : inverter) (v : Q) : Prop :=
  i_il i <= v <= i_iu i /\ ~ (i_el i < v /\ v < i_eu i).

(* the same with the relative tolerance of math.isclose on the edge of the exclusion zone *)
Definition inverter_okx (i : inverter) (v : Q) : Prop :=
  i_il i <= v <= i_iu i /\ ~ ((1 - rel_tol) * i_el i < v /\ v < (1 - rel_tol) * i_eu i).

Lemma prep_inv_consume_x a i v :
  wf_inverter i -> (1 - rel_tol) * pi_excl (prep_inv false a i) <= v <= pi_incl (prep_inv false a i) -> inverter_okx i v.
Proof.
  intros (I1 & I2 & I3 & I4). unfold prep_inv; cbn. intros [H1 H2].
  pose proof (qmin_le_l (i_iu i) (a_iu a)). unfold inverter_okx, rel_tol in *. split; [split; [nra|lra]|]. intros [? ?]. lra.
Qed.

Lemma prep_inv_supply_x a i v :
  wf_inverter i -> (1 - rel_tol) * pi_excl (prep_inv true a i) <= v <= pi_incl (prep_inv true a i) -> inverter_okx i (- v).
Proof.
  intros (I1 & I2 & I3 & I4). unfold prep_inv; cbn. intros [H1 H2].
  pose proof (qmax_ge_l (i_il i) (a_il a)). unfold inverter_okx, rel_tol in *. split; [split; [lra|nra]|]. intros [? ?]. lra.
Qed.

Lemma prep_inv_consume a i v :
  wf_inverter i -> pi_excl (prep_inv false a i) <= v <= pi_incl (prep_inv false a i) -> inverter_ok i v.
Proof.
  intros (I1 & I2 & I3 & I4). unfold prep_inv; cbn. intros [H1 H2].
  pose proof (qmin_le_l (i_iu i) (a_iu a)). unfold inverter_ok. split; [lra|]. intros [? ?]. lra.
Qed.

Lemma prep_inv_supply a i v :
  wf_inverter i -> pi_excl (prep_inv true a i) <= v <= pi_incl (prep_inv true a i) -> inverter_ok i (- v).
Proof.
  intros (I1 & I2 & I3 & I4). unfold prep_inv; cbn. intros [H1 H2].
  pose proof (qmax_ge_l (i_il i) (a_il a)). unfold inverter_ok. split; [lra|]. intros [? ?]. lra.
Qed.

(* a set-point is zero or inside its inverter's inclusion bounds and outside its exclusion zone *)
Definition setpoint_ok (gs : list group) (a : Z * Q) : Prop :=
  snd a == 0 \/ exists g i, In g gs /\ In i (g_invs g) /\ i_id i = fst a /\ inverter_ok i (snd a).

Definition setpoint_okx (gs : list group) (a : Z * Q) : Prop :=
  snd a == 0 \/ exists g i, In g gs /\ In i (g_invs g) /\ i_id i = fst a /\ inverter_okx i (snd a).

Lemma src_is_prepared supply powf gs pg :
  In pg (map (prepare supply powf) gs) -> exists g, In g gs /\ pg = prepare supply powf g.
Proof. intro H. apply in_map_iff in H. destruct H as (g & <- & Hg). eauto. Qed.

Lemma sp_ok_consume powf gs g a :
  wf_groups gs -> In g gs -> sp_ok (pg_invs (prepare false powf g)) a -> setpoint_ok gs a.
Proof.
  intros Hwf Hg [E|(pi & Hpi & Hid & Hb)]; [left; auto|right].
  cbn in Hpi. apply in_map_iff in Hpi. destruct Hpi as (i & <- & Hi).
  exists g, i. destruct (Hwf g Hg) as (_ & _ & HI & _).
  split; [exact Hg|]. split; [exact Hi|]. split; [exact Hid|]. eapply prep_inv_consume; eauto.
Qed.

Lemma sp_ok_supply powf gs g a :
  wf_groups gs -> In g gs -> sp_ok (pg_invs (prepare true powf g)) a -> setpoint_ok gs (fst a, - snd a).
Proof.
  intros Hwf Hg [E|(pi & Hpi & Hid & Hb)]; [left; cbn; lra|right].
  cbn in Hpi. apply in_map_iff in Hpi. destruct Hpi as (i & <- & Hi).
  exists g, i. destruct (Hwf g Hg) as (_ & _ & HI & _). cbn [snd fst].
  split; [exact Hg|]. split; [exact Hi|]. split; [exact Hid|]. eapply prep_inv_supply; eauto.
Qed.

Lemma sp_okx_consume powf gs g a :
  wf_groups gs -> In g gs -> sp_okx (pg_invs (prepare false powf g)) a -> setpoint_okx gs a.
Proof.
  intros Hwf Hg [E|(pi & Hpi & Hid & Hb)]; [left; auto|right].
  cbn in Hpi. apply in_map_iff in Hpi. destruct Hpi as (i & <- & Hi).
  exists g, i. destruct (Hwf g Hg) as (_ & _ & HI & _).
  split; [exact Hg|]. split; [exact Hi|]. split; [exact Hid|]. eapply prep_inv_consume_x; eauto.
Qed.

Lemma sp_okx_supply powf gs g a :
  wf_groups gs -> In g gs -> sp_okx (pg_invs (prepare true powf g)) a -> setpoint_okx gs (fst a, - snd a).
Proof.
  intros Hwf Hg [E|(pi & Hpi & Hid & Hb)]; [left; cbn; lra|right].
  cbn in Hpi. apply in_map_iff in Hpi. destruct Hpi as (i & <- & Hi).
  exists g, i. destruct (Hwf g Hg) as (_ & _ & HI & _). cbn [snd fst].
  split; [exact Hg|]. split; [exact Hi|]. split; [exact Hid|]. eapply prep_inv_supply_x; eauto.
Qed.

(* ------------------------------------------------------------------ C02_inverter *)
Lemma distribute_inverter powf gs p r gr :
  wf_groups gs -> czero p = false -> distribute powf gs p = Some r -> In gr (res_groups r) ->
  forall a, In a (gr_sp gr) -> setpoint_okx gs a.
Proof.
  intros Hwf Hz H Hg a Ha.
  destruct (distribute_cases _ _ _ _ Hz H) as [(Hp & Hs & C)|(Hp & Hs & r0 & C & ->)];
    unfold core_result, pgs_of in *; rewrite Hs in *.
  - pose proof (core_src _ _ _ _ C Hg) as Hsrc. apply src_is_prepared in Hsrc. destruct Hsrc as (g & Hgin & Eg).
    pose proof (core_inverter _ _ _ gr (prepare_wfs false powf gs Hwf) C Hg a Ha) as S.
    rewrite Eg in S. eapply sp_okx_consume; eauto.
  - apply neg_groups_in in Hg. destruct Hg as (gr0 & Hg0 & ->). cbn [gr_sp gr_src] in *.
    apply in_map_iff in Ha. destruct Ha as (a0 & <- & Ha0).
    pose proof (core_src _ _ _ _ C Hg0) as Hsrc. apply src_is_prepared in Hsrc. destruct Hsrc as (g & Hgin & Eg).
    pose proof (core_inverter _ _ _ gr0 (prepare_wfs true powf gs Hwf) C Hg0 a0 Ha0) as S.
    rewrite Eg in S. eapply sp_okx_supply; eauto.
Qed.

(* sets with two or more inverters: exact *)
Lemma distribute_inverter_multi powf gs p r gr :
  wf_groups gs -> czero p = false -> distribute powf gs p = Some r -> In gr (res_groups r) ->
  length (pg_invs (gr_src gr)) <> 1%nat ->
  forall a, In a (gr_sp gr) -> setpoint_ok gs a.
Proof.
  intros Hwf Hz H Hg L a Ha.
  destruct (distribute_cases _ _ _ _ Hz H) as [(Hp & Hs & C)|(Hp & Hs & r0 & C & ->)];
    unfold core_result, pgs_of in *; rewrite Hs in *.
  - pose proof (core_src _ _ _ _ C Hg) as Hsrc. apply src_is_prepared in Hsrc. destruct Hsrc as (g & Hgin & Eg).
    pose proof (core_inverter_multi _ _ _ gr (prepare_wfs false powf gs Hwf) C Hg L a Ha) as S.
    rewrite Eg in S. eapply sp_ok_consume; eauto.
  - apply neg_groups_in in Hg. destruct Hg as (gr0 & Hg0 & ->). cbn [gr_sp gr_src] in *.
    apply in_map_iff in Ha. destruct Ha as (a0 & <- & Ha0).
    pose proof (core_src _ _ _ _ C Hg0) as Hsrc. apply src_is_prepared in Hsrc. destruct Hsrc as (g & Hgin & Eg).
    pose proof (core_inverter_multi _ _ _ gr0 (prepare_wfs true powf gs Hwf) C Hg0 L a0 Ha0) as S.
    rewrite Eg in S. eapply sp_ok_supply; eauto.
Qed.

(* ------------------------------------------------------------------ C01_sign, upper half of C01_remainder *)
Lemma distribute_sign powf gs p r :
  wf_groups gs -> czero p = false -> distribute powf gs p = Some r ->
  forall a, In a (res_dist r) -> (0 < p -> 0 <= snd a) /\ (p < 0 -> snd a <= 0).
Proof.
  intros Hwf Hz H a Ha.
  destruct (distribute_cases _ _ _ _ Hz H) as [(Hp & Hs & C)|(Hp & Hs & r0 & C & ->)];
    unfold core_result, pgs_of in *; rewrite Hs in *.
  - pose proof (core_sign _ _ _ (prepare_wfs false powf gs Hwf) C a Ha). split; intros; lra.
  - unfold res_dist in Ha. apply in_flat_map in Ha. destruct Ha as (gr & Hg & Ha).
    apply neg_groups_in in Hg. destruct Hg as (gr0 & Hg0 & ->). cbn [gr_sp] in Ha.
    apply in_map_iff in Ha. destruct Ha as (a0 & <- & Ha0).
    assert (In a0 (res_dist r0)) by (unfold res_dist; apply in_flat_map; eauto).
    pose proof (core_sign _ _ _ (prepare_wfs true powf gs Hwf) C a0 H0). cbn [snd]. split; intros; lra.
Qed.

Lemma distribute_remainder_upper powf gs p r :
  wf_groups gs -> czero p = false -> distribute powf gs p = Some r ->
  (0 < p -> res_rem r <= p) /\ (p < 0 -> p <= res_rem r).
Proof.
  intros Hwf Hz H.
  destruct (distribute_cases _ _ _ _ Hz H) as [(Hp & Hs & C)|(Hp & Hs & r0 & C & ->)];
    unfold core_result, pgs_of, mag in *; rewrite Hs in *.
  - pose proof (core_remainder_upper _ _ _ (prepare_wfs false powf gs Hwf) C). split; intros; lra.
  - pose proof (core_remainder_upper _ _ _ (prepare_wfs true powf gs Hwf) C). cbn [neg_result res_rem].
    split; intros; lra.
Qed.

(* ------------------------------------------------------------------ C02_group *)
(* the total of a battery group's inverters is inside the aggregated battery inclusion bounds and is zero or outside
   the aggregated battery exclusion zone (edge of the zone up to the relative tolerance of math.isclose) *)
Definition group_full (g : group) (gr : gres) : Prop :=
  let a := aggregate (g_bats g) in
  let tot := sumsp (gr_sp gr) in
  a_il a <= tot <= a_iu a /\ (tot == 0 \/ ~ ((1 - rel_tol) * a_el a < tot /\ tot < (1 - rel_tol) * a_eu a)).

Lemma distribute_group powf gs p r gr :
  wf_groups gs -> czero p = false -> distribute powf gs p = Some r -> In gr (res_groups r) ->
  exists g, In g gs /\ gr_src gr = prepare (supply_of p) powf g /\ group_full g gr.
Proof.
  intros Hwf Hz H Hg.
  destruct (distribute_cases _ _ _ _ Hz H) as [(Hp & Hs & C)|(Hp & Hs & r0 & C & ->)];
    unfold core_result, pgs_of in *; rewrite Hs in *.
  - pose proof (core_src _ _ _ _ C Hg) as Hsrc. apply src_is_prepared in Hsrc. destruct Hsrc as (g & Hgin & Eg).
    exists g. split; auto. split; auto.
    destruct (core_group _ _ _ gr (prepare_wfs false powf gs Hwf) C Hg) as (T1 & T3).
    rewrite Eg in *. cbn [prepare pg_bincl pg_bexcl] in *.
    destruct (Hwf g Hgin) as (Hne & Hb & _). destruct (agg_wf _ Hne Hb) as (A1 & A2 & A3 & A4).
    unfold group_full. split; [lra|]. destruct T3 as [E|E]; [left; auto|right]. intros [? ?]. lra.
  - apply neg_groups_in in Hg. destruct Hg as (gr0 & Hg0 & ->). cbn [gr_sp gr_src gr_left].
    pose proof (core_src _ _ _ _ C Hg0) as Hsrc. apply src_is_prepared in Hsrc. destruct Hsrc as (g & Hgin & Eg).
    exists g. split; auto. split; auto.
    destruct (core_group _ _ _ gr0 (prepare_wfs true powf gs Hwf) C Hg0) as (T1 & T3).
    rewrite Eg in *. cbn [prepare pg_bincl pg_bexcl] in *.
    destruct (Hwf g Hgin) as (Hne & Hb & _). destruct (agg_wf _ Hne Hb) as (A1 & A2 & A3 & A4).
    pose proof (sumsp_neg (gr_sp gr0)) as N.
    unfold group_full. cbn [gr_sp]. split; [lra|]. destruct T3 as [E|E]; [left; lra|right]. intros [? ?]. lra.
Qed.

(* ------------------------------------------------------------------ C02_no_headroom *)
Definition no_headroom (supply : bool) (g : group) : Prop :=
  let a := aggregate (g_bats g) in if supply then a_soc a - a_lo a <= 0 else a_hi a - a_soc a <= 0.

Lemma no_headroom_factor supply powf g : no_headroom supply g -> powf 0 == 0 -> pg_factor (prepare supply powf g) == 0.
Proof.
  unfold no_headroom. intros H P. destruct supply; cbn [prepare pg_factor].
  - destruct (qmax_spec 0 (a_soc (aggregate (g_bats g)) - a_lo (aggregate (g_bats g)))) as [[_ ->]|[? _]]; [exact P|lra].
  - destruct (qmax_spec 0 (a_hi (aggregate (g_bats g)) - a_soc (aggregate (g_bats g)))) as [[_ ->]|[? _]]; [exact P|lra].
Qed.

Lemma distribute_no_headroom powf gs p r gr g :
  wf_groups gs -> czero p = false -> distribute powf gs p = Some r -> In gr (res_groups r) ->
  gr_src gr = prepare (supply_of p) powf g -> no_headroom (supply_of p) g -> powf 0 == 0 ->
  forall a, In a (gr_sp gr) -> snd a == 0.
Proof.
  intros Hwf Hz H Hg Es Hn P a Ha. pose proof (no_headroom_factor _ powf g Hn P) as F. rewrite <- Es in F.
  destruct (distribute_cases _ _ _ _ Hz H) as [(Hp & Hs & C)|(Hp & Hs & r0 & C & ->)];
    unfold core_result, pgs_of in *; rewrite Hs in *.
  - eapply (core_no_headroom _ _ _ gr (prepare_wfs false powf gs Hwf) C Hg F); eauto.
  - apply neg_groups_in in Hg. destruct Hg as (gr0 & Hg0 & ->). cbn [gr_sp gr_src] in *.
    apply in_map_iff in Ha. destruct Ha as (a0 & <- & Ha0). cbn [snd].
    pose proof (core_no_headroom _ _ _ gr0 (prepare_wfs true powf gs Hwf) C Hg0 F a0 Ha0). lra.
Qed.

(* ------------------------------------------------------------------ nothing is lost: groups and inverters *)
From Coq Require Import Permutation.

Lemma insert_desc_perm x : forall l, Permutation (insert_desc x l) (x :: l).
Proof.
  induction l as [|y t IH]; cbn; auto. destruct (key_lt x y); auto.
  rewrite IH. apply perm_swap.
Qed.

Lemma sort_entries_perm l : Permutation (sort_entries l) l.
Proof. induction l as [|x t IH]; cbn; auto. rewrite insert_desc_perm. now constructor. Qed.

Lemma insert_inv_perm x : forall l, Permutation (insert_inv x l) (x :: l).
Proof.
  induction l as [|y t IH]; cbn; auto. destruct (inv_before y x); auto.
  rewrite IH. apply perm_swap.
Qed.

Lemma sort_invs_perm l : Permutation (sort_invs l) l.
Proof. induction l as [|x t IH]; cbn; auto. rewrite insert_inv_perm. now constructor. Qed.

Lemma entries_perm gs : Permutation (map e_src (entries gs)) gs.
Proof.
  unfold entries. rewrite (Permutation_map e_src (sort_entries_perm _)). rewrite map_map. cbn. rewrite map_id. reflexivity.
Qed.

Lemma final_perm gs p : Permutation (map gp_src (fst (final_powers gs p))) gs.
Proof.
  unfold final_powers, assigned, covered_slots, reserved_slots.
  rewrite greedy_src, apply_excess_src, cover_all_src, reserve_src. apply entries_perm.
Qed.

Lemma zeros_src gs : map gr_src (zeros gs) = gs.
Proof. unfold zeros. rewrite map_map. cbn. apply map_id. Qed.

Lemma core_perm gs p r : core gs p = Some r -> Permutation (map gr_src (res_groups r)) gs.
Proof.
  intro H. destruct (core_cases _ _ _ H) as [[E _]|[E _]]; rewrite E.
  - rewrite zeros_src. reflexivity.
  - rewrite split_all_src. apply final_perm.
Qed.

Lemma split_loop_ids : forall l rem, map fst (fst (split_loop rem l)) = map pi_id l.
Proof.
  induction l as [|i t IH]; intro rem; cbn; auto.
  destruct (negb (czero rem) && Qle_bool (pi_excl i) rem).
  - specialize (IH (rem - qmin (pi_incl i) rem)). destruct (split_loop (rem - qmin (pi_incl i) rem) t). cbn in *. congruence.
  - specialize (IH rem). destruct (split_loop rem t). cbn in *. congruence.
Qed.

Lemma split_raw_ids g : Permutation (map fst (fst (split_raw g))) (map pi_id (pg_invs (gp_src g))).
Proof.
  unfold split_raw. destruct (pg_invs (gp_src g)) as [|i [|j t]]; [cbn; auto|cbn; auto|].
  rewrite split_loop_ids. apply Permutation_map. apply sort_invs_perm.
Qed.

Lemma split_group_ids g : Permutation (map fst (fst (split_group g))) (map pi_id (pg_invs (gp_src g))).
Proof.
  unfold split_group. pose proof (split_raw_ids g) as R. destruct (split_raw g) as [d r]. cbn [fst] in R.
  destruct (guard_ok (sumsp d) (gp_lower g)); cbn [fst]; auto. rewrite map_map. cbn [fst]. exact R.
Qed.

Lemma core_ids gs p r gr : core gs p = Some r -> In gr (res_groups r) ->
  Permutation (map fst (gr_sp gr)) (map pi_id (pg_invs (gr_src gr))).
Proof.
  intros H Hg. destruct (core_cases _ _ _ H) as [[E _]|[E _]]; rewrite E in Hg.
  - unfold zeros in Hg. apply in_map_iff in Hg. destruct Hg as (g & <- & _). cbn. rewrite map_map. cbn. reflexivity.
  - apply split_all_in in Hg. destruct Hg as (g & _ & ->). cbn. apply split_group_ids.
Qed.

Lemma distribute_complete powf gs p r :
  czero p = false -> distribute powf gs p = Some r ->
  Permutation (map gr_src (res_groups r)) (pgs_of powf gs p) /\
  forall gr, In gr (res_groups r) -> Permutation (map fst (gr_sp gr)) (map pi_id (pg_invs (gr_src gr))).
Proof.
  intros Hz H.
  destruct (distribute_cases _ _ _ _ Hz H) as [(Hp & Hs & C)|(Hp & Hs & r0 & C & ->)]; unfold core_result in C.
  - split; [now apply core_perm in C|]. intros gr Hg. eapply core_ids; eauto.
  - split.
    + unfold neg_result; cbn [res_groups]. rewrite map_map. cbn [gr_src]. now apply core_perm in C.
    + intros gr Hg. apply neg_groups_in in Hg. destruct Hg as (gr0 & Hg0 & ->). cbn [gr_sp gr_src].
      rewrite map_map. cbn [fst]. eapply core_ids; eauto.
Qed.
