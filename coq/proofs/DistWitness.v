(* Concrete inputs: non-vacuity of the C01/C02 theorems and the witness of the known finding
   C02-split-leftover (a battery group whose inverters cannot realise its minimum power). *)
From Coq Require Import QArith Qabs Lqa Lia List Bool.
From Verif Require Import gen.DistConst model.Dist proofs.DistFacts proofs.DistBounds proofs.DistTop proofs.DistRemainder.
Import ListNotations.
Open Scope Q_scope.

Ltac qdec := vm_compute; first [reflexivity | discriminate | (intro; discriminate)].

Ltac wf_group_tac :=
  unfold wf_group; split; [cbn; discriminate|];
  split; [intros b Hb; cbn in Hb; repeat (destruct Hb as [<-|Hb]; [unfold wf_battery; cbn; repeat split; qdec|]); destruct Hb|];
  split; [intros i Hi; cbn in Hi; repeat (destruct Hi as [<-|Hi]; [unfold wf_inverter; cbn; repeat split; qdec|]); destruct Hi|];
  split; qdec.

(* ---------------------------------------------------------------- a plain two-group example *)
Definition ex_g1 : group := mkGrp [mkBat 10 50 0 100 (-200) (-10) 10 200] [mkInv 2 (-200) 0 0 200].
Definition ex_g2 : group := mkGrp [mkBat 10 70 0 100 (-200) 0 0 200] [mkInv 4 (-100) 0 0 100; mkInv 5 (-100) (-20) 20 100].
Definition ex_gs : list group := [ex_g1; ex_g2].
Definition idf (x : Q) : Q := x.

Lemma ex_wf : wf_groups ex_gs.
Proof. intros g [<-|[<-|[]]]; wf_group_tac. Qed.

Lemma ex_admitted : admitted ex_gs 120 /\ admitted ex_gs (-120).
Proof. split; (split; [reflexivity|]); [left|right]; split; qdec. Qed.

Lemma ex_slack_small : remainder_slack idf ex_gs 120 < 1 # 1000000 /\ remainder_slack idf ex_gs (-120) < 1 # 1000000.
Proof. split; qdec. Qed.

Lemma idf_nonneg : forall x, 0 <= x -> 0 <= idf x.
Proof. intros x H. exact H. Qed.

Lemma ex_runs :
  (exists r, distribute idf ex_gs 120 = Some r /\ sumsp (res_dist r) == 120 /\ res_rem r == 0) /\
  (exists r, distribute idf ex_gs (-120) = Some r /\ sumsp (res_dist r) == -120 /\ res_rem r == 0).
Proof.
  split.
  - destruct (distribute idf ex_gs 120) as [r|] eqn:D; [|vm_compute in D; discriminate].
    exists r. split; auto. vm_compute in D. inversion D; subst. split; qdec.
  - destruct (distribute idf ex_gs (-120)) as [r|] eqn:D; [|vm_compute in D; discriminate].
    exists r. split; auto. vm_compute in D. inversion D; subst. split; qdec.
Qed.

(* a full battery group (no headroom for charging) next to a usable one *)
Definition ex_full : group := mkGrp [mkBat 10 100 0 100 (-200) (-50) 50 200] [mkInv 7 (-200) 0 0 200].
Lemma ex_full_wf : wf_groups [ex_full; ex_g1].
Proof. intros g [<-|[<-|[]]]; wf_group_tac. Qed.
Lemma ex_full_no_headroom : no_headroom false ex_full /\ admitted [ex_full; ex_g1] 100.
Proof. split; [qdec|]. split; [reflexivity|left; split; qdec]. Qed.

(* the exponent BatteryManager configures (translated from /repo) is positive, so pow(0, exponent) = 0 *)
Lemma manager_exponent_positive : 0 < dist_manager_exponent /\ dist_manager_exponent == 1 /\ idf 0 == 0.
Proof. repeat split; qdec. Qed.

(* ---------------------------------------------------------------- former finding C02-split-leftover (fixed by 5d1dfb7) *)
(* battery: exclusion 10, inclusion 15; inverters: [0, 5] and [25, 75]: no total in [10, 15] is realisable.
   Before the fix the set was commanded 5 W (inside the battery exclusion zone); now it is not used. *)
Definition sl_g : group := mkGrp [mkBat 10 70 10 80 (-15) (-10) 10 15] [mkInv 2 (-5) 0 0 5; mkInv 3 (-75) (-25) 25 75].

Lemma sl_wf : wf_groups [sl_g].
Proof. intros g [<-|[]]; wf_group_tac. Qed.

Lemma sl_fixed :
  admitted [sl_g] 25 /\
  exists r, distribute idf [sl_g] 25 = Some r /\ (forall a, In a (res_dist r) -> snd a == 0) /\ res_rem r == 25.
Proof.
  split; [split; [reflexivity|left; split; qdec]|].
  destruct (distribute idf [sl_g] 25) as [r|] eqn:D; [|vm_compute in D; discriminate].
  exists r. split; auto. vm_compute in D. inversion D; subst. split; [|qdec].
  intros a Ha. cbn in Ha. destruct Ha as [<-|[<-|[]]]; reflexivity.
Qed.
