(* C04: under conflict-freeness the sweep computes the closest admissible value inside the
   ideal intersection of system bounds and higher-priority bounds, minus the exclusion zone;
   the reported bounds are that intersection; empty proposals are no-ops. *)
From Coq Require Import Lia ZifyBool.
From Verif Require Import model.Matryoshka proofs.BoundsFacts proofs.MatryoshkaFacts.

Definition inzone (ex : bnds) (x : Z) : Prop :=
  match ex with Some (el, eu) => el < x < eu | None => False end.

Definition wf_excl (ex : bnds) : Prop :=
  match ex with Some (el, eu) => el <= 0 <= eu /\ el < eu | None => True end.

(* the whole exclusion zone lies inside [L,U] *)
Definition zone_inside (ex : bnds) (L U : Z) : Prop :=
  match ex with Some (el, eu) => L <= el /\ eu <= U | None => True end.

(* admissible values for a preference [v] inside the interval [L,U]:
   inside the interval and outside the open exclusion zone; a preference of exactly zero is
   honoured as zero when the whole zone lies inside the interval *)
Definition adm (ex : bnds) (L U v a : Z) : Prop :=
  L <= a <= U /\ (~ inzone ex a \/ (a = 0 /\ v = 0 /\ zone_inside ex L U)).

(* t is the admissible value closest to v; ties go to the lower value *)
Definition closest_spec (ex : bnds) (L U v t : Z) : Prop :=
  adm ex L U v t /\
  forall a, adm ex L U v a -> Z.abs (t - v) <= Z.abs (a - v) /\ (Z.abs (t - v) = Z.abs (a - v) -> t <= a).

(* [L,U] minus the zone is non-empty *)
Definition cf (ex : bnds) (L U : Z) : Prop := exists x, L <= x <= U /\ ~ inzone ex x.

Definition ideal_step (b : Z * Z) (p : proposal) : Z * Z :=
  (Z.max (fst b) (default (fst b) (p_lo p)), Z.min (snd b) (default (snd b) (p_hi p))).

Fixpoint conflict_free (ex : bnds) (b : Z * Z) (ps : list proposal) : Prop :=
  cf ex (fst b) (snd b) /\
  match ps with
  | [] => True
  | p :: ps' => conflict_free ex (ideal_step b p) ps'
  end.

Definition ideal_bounds (b : Z * Z) (ps : list proposal) : Z * Z := fold_left ideal_step ps b.

(* code interval (lb,ub) and ideal interval (L,U) contain the same values outside the zone *)
Definition Sim (ex : bnds) (L U lb ub : Z) : Prop :=
  lb <= ub /\ forall x, ~ inzone ex x -> (lb <= x <= ub <-> L <= x <= U).

(* ---------------------------------------------------------------- the clamp is the argmin *)
Lemma cf_cases ex L U : wf_excl ex -> cf ex L U ->
  L <= U /\ match ex with Some (el, eu) => L <= el \/ eu <= U | None => True end.
Proof.
  intros Hw (x & Hx & Hz). destruct ex as [[el eu]|]; cbn in *; lia.
Qed.

Lemma pick_clamp_closest ex v lb ub cur :
  wf_excl ex -> cf ex lb ub -> closest_spec ex lb ub v (pick v (clamp v lb ub ex) cur).
Proof.
  intros Hw Hcf. pose proof (cf_cases ex lb ub Hw Hcf) as [Hlu Hc]. clear Hcf.
  unfold closest_spec, adm, pick, clamp, overlap, inzone, zone_inside.
  destruct ex as [[el eu]|]; cbn in Hw.
  - destruct (el <? lb) eqn:E1, (lb <? eu) eqn:E2, (el <? ub) eqn:E3, (ub <? eu) eqn:E4; cbn [andb];
    try lia;
    repeat match goal with
    | |- context [if ?c then _ else _] =>
        match c with
        | context [if _ then _ else _] => fail 1
        | _ => let E := fresh "E" in destruct c eqn:E
        end
    end; cbn [negb andb] in *; (split; [lia|intros a Ha; lia]).
  - destruct (v <? lb) eqn:E7; [split; [lia|intros a Ha; lia]|].
    destruct (ub <? v) eqn:E8; [split; [lia|intros a Ha; lia]|].
    destruct (v - v <? v - v); (split; [lia|intros a Ha; lia]).
Qed.

Lemma closest_unique ex L U v t1 t2 :
  closest_spec ex L U v t1 -> closest_spec ex L U v t2 -> t1 = t2.
Proof.
  intros [A1 M1] [A2 M2]. destruct (M1 t2 A2) as [H1 T1]. destruct (M2 t1 A1) as [H2 T2]. lia.
Qed.

Lemma sim_zone_inside ex L U lb ub : wf_excl ex -> Sim ex L U lb ub -> cf ex L U ->
  (zone_inside ex lb ub <-> zone_inside ex L U).
Proof.
  intros Hw [Hlu Hs] Hcf. apply (cf_cases ex L U Hw) in Hcf as [HLU Hc].
  destruct ex as [[el eu]|]; cbn in *; [|tauto].
  pose proof (Hs el ltac:(lia)). pose proof (Hs eu ltac:(lia)). lia.
Qed.

Lemma sim_adm ex L U lb ub v a : wf_excl ex -> Sim ex L U lb ub -> cf ex L U ->
  (adm ex lb ub v a <-> adm ex L U v a).
Proof.
  intros Hw HS Hcf. pose proof (sim_zone_inside ex L U lb ub Hw HS Hcf) as Hz.
  destruct HS as [Hlu Hs]. unfold adm.
  destruct ex as [[el eu]|]; cbn in *.
  - pose proof (Hs a). pose proof (Hs el ltac:(lia)). pose proof (Hs eu ltac:(lia)). lia.
  - pose proof (Hs a ltac:(tauto)). tauto.
Qed.

Lemma sim_cf ex L U lb ub : Sim ex L U lb ub -> cf ex L U -> cf ex lb ub.
Proof.
  intros [Hlu Hs] (x & Hx & Hz). exists x. split; [apply Hs; assumption|exact Hz].
Qed.

Lemma sim_closest ex L U lb ub v t : wf_excl ex -> Sim ex L U lb ub -> cf ex L U ->
  closest_spec ex lb ub v t -> closest_spec ex L U v t.
Proof.
  intros Hw HS Hcf [A M]. split; [apply (sim_adm ex L U lb ub v t Hw HS Hcf); exact A|].
  intros a Ha. apply M. apply (sim_adm ex L U lb ub v a Hw HS Hcf). exact Ha.
Qed.

Lemma pick_closest_sim ex L U lb ub v cur :
  wf_excl ex -> Sim ex L U lb ub -> cf ex L U ->
  closest_spec ex L U v (pick v (clamp v lb ub ex) cur).
Proof.
  intros Hw HS Hcf. apply (sim_closest ex L U lb ub v _ Hw HS Hcf).
  apply pick_clamp_closest; [exact Hw|]. apply (sim_cf ex L U lb ub HS Hcf).
Qed.

(* ---------------------------------------------------------------- one step of the simulation *)
Lemma adjust_sem ex a b : wf_excl ex -> cf ex a b ->
  let '(a', b') := adjust a b ex in Sim ex a b a' b'.
Proof.
  intros Hw Hcf. apply (cf_cases ex a b Hw) in Hcf as [Hab Hc].
  unfold adjust, overlap, Sim, inzone. destruct ex as [[el eu]|]; cbn in Hw.
  - destruct (el <? a) eqn:E1, (a <? eu) eqn:E2, (el <? b) eqn:E3, (b <? eu) eqn:E4; cbn [andb];
    try lia; (split; [lia|intros x Hx; lia]).
  - split; [lia|intros x _; lia].
Qed.

Lemma sweep_step_sim ex p L U lb ub tgt :
  wf_excl ex -> Sim ex L U lb ub -> cf ex L U ->
  cf ex (fst (ideal_step (L, U) p)) (snd (ideal_step (L, U) p)) ->
  let '(lb', ub', tgt') := sweep_step ex p (lb, ub, tgt) in
  Sim ex (fst (ideal_step (L, U) p)) (snd (ideal_step (L, U) p)) lb' ub' /\
  tgt' = match p_pref p with None => tgt | Some v => pick v (clamp v lb ub ex) tgt end.
Proof.
  intros Hw HS Hcf Hcf'. unfold sweep_step. rewrite overlap_spec, adjust_spec.
  destruct HS as [Hlu Hs]. cbn [ideal_step fst snd] in *.
  set (pl := default lb (p_lo p)). set (pu := default ub (p_hi p)).
  set (L' := Z.max L (default L (p_lo p))) in *. set (U' := Z.min U (default U (p_hi p))) in *.
  (* intersection semantics *)
  assert (Hint : forall x, ~ inzone ex x -> (Z.max lb pl <= x <= Z.min ub pu <-> L' <= x <= U')).
  { intros x Hx. specialize (Hs x Hx). subst pl pu L' U'.
    destruct (p_lo p) as [lo|], (p_hi p) as [hi|]; cbn [default]; lia. }
  assert (Hcf2 : cf ex (Z.max lb pl) (Z.min ub pu)).
  { destruct Hcf' as (x & Hx & Hz). exists x. split; [apply Hint; assumption|exact Hz]. }
  assert (Hnot : overlap pl pu ex <> (true, true)).
  { destruct Hcf2 as (x & Hx & Hz). unfold overlap, inzone in *. destruct ex as [[el eu]|]; [|discriminate].
    intros E. injection E as E1 E2. lia. }
  assert (Hclamp : (match p_pref p with
                    | None => tgt
                    | Some v => pick v (clamp_to_bounds v lb ub ex) tgt
                    end) = match p_pref p with None => tgt | Some v => pick v (clamp v lb ub ex) tgt end).
  { destruct (p_pref p); [rewrite clamp_spec|]; reflexivity. }
  rewrite Hclamp.
  pose proof (adjust_sem ex (Z.max lb pl) (Z.min ub pu) Hw Hcf2) as Ha.
  destruct (overlap pl pu ex) as [[|] [|]] eqn:Eo; try congruence;
  destruct (adjust (Z.max lb pl) (Z.min ub pu) ex) as [lb' ub']; (split; [|reflexivity]);
  destruct Ha as [Hl' Hs']; (split; [exact Hl'|]); intros x Hx; rewrite (Hs' x Hx); apply Hint; exact Hx.
Qed.

Lemma sweep_nopref ex ps st :
  (forall q, In q ps -> p_pref q = None) -> sweep ex ps st = snd st.
Proof.
  revert st. induction ps as [|p ps IH]; intros [[lb ub] tgt] Hn; cbn [sweep]; [reflexivity|].
  destruct (ub <? lb); [reflexivity|].
  rewrite IH by (intros q Hq; apply Hn; right; exact Hq).
  unfold sweep_step. rewrite (Hn p (or_introl eq_refl)).
  destruct (check_exclusion_bounds_overlap _ _ ex) as [[|] [|]]; try reflexivity;
  destruct (adjust_exclusion_bounds _ _ ex); reflexivity.
Qed.

(* running through a prefix [hi] under conflict-freeness keeps the simulation *)
Lemma sweep_prefix_sim ex hi rest L U lb ub tgt :
  wf_excl ex -> Sim ex L U lb ub -> conflict_free ex (L, U) hi ->
  exists lb' ub' tgt',
    sweep ex (hi ++ rest) (lb, ub, tgt) = sweep ex rest (lb', ub', tgt') /\
    Sim ex (fst (ideal_bounds (L, U) hi)) (snd (ideal_bounds (L, U) hi)) lb' ub' /\
    ((forall q, In q hi -> p_pref q = None) -> tgt' = tgt).
Proof.
  intros Hw. revert L U lb ub tgt. induction hi as [|p hi IH]; intros L U lb ub tgt HS Hcf.
  - exists lb, ub, tgt. cbn. auto.
  - cbn [conflict_free fst snd] in Hcf. destruct Hcf as [Hc0 Hc1].
    cbn [app sweep]. destruct HS as [Hlu Hs]. destruct (ub <? lb) eqn:E; [lia|].
    assert (Hc1' : cf ex (fst (ideal_step (L, U) p)) (snd (ideal_step (L, U) p))).
    { destruct hi; cbn in Hc1; tauto. }
    pose proof (sweep_step_sim ex p L U lb ub tgt Hw (conj Hlu Hs) Hc0 Hc1') as Hstep.
    destruct (sweep_step ex p (lb, ub, tgt)) as [[lb1 ub1] tgt1]. destruct Hstep as [HS1 Ht1].
    destruct (ideal_step (L, U) p) as [L1 U1] eqn:Ei. cbn [fst snd] in *.
    destruct (IH L1 U1 lb1 ub1 tgt1 HS1 Hc1) as (lb' & ub' & tgt' & Heq & HS' & Hn).
    exists lb', ub', tgt'. split; [exact Heq|]. split.
    + cbn [ideal_bounds fold_left]. rewrite Ei. exact HS'.
    + intros Hnone. rewrite Hn by (intros q Hq; apply Hnone; right; exact Hq).
      rewrite Ht1, (Hnone p (or_introl eq_refl)). reflexivity.
Qed.

Lemma conflict_free_head ex b ps : conflict_free ex b ps -> cf ex (fst b) (snd b).
Proof. destruct ps; cbn; tauto. Qed.

Lemma conflict_free_app ex b hi rest :
  conflict_free ex b (hi ++ rest) -> conflict_free ex b hi /\ conflict_free ex (ideal_bounds b hi) rest.
Proof.
  revert b. induction hi as [|p hi IH]; intros b H; cbn in *.
  - split; [split; [apply (conflict_free_head _ _ _ H)|exact I]|exact H].
  - destruct H as [H0 H1]. destruct (IH _ H1) as [Ha Hb]. split; [split; assumption|exact Hb].
Qed.

(* ---------------------------------------------------------------- main theorem on sorted lists *)
Lemma sweep_closest ex hi p lo v L U :
  wf_excl ex -> L <= U \/ True ->
  conflict_free ex (L, U) (hi ++ [p]) ->
  p_pref p = Some v -> (forall q, In q lo -> p_pref q = None) ->
  closest_spec ex (fst (ideal_bounds (L, U) hi)) (snd (ideal_bounds (L, U) hi)) v
               (sweep ex (hi ++ p :: lo) (L, U, 0)).
Proof.
  intros Hw _ Hcf Hv Hlo.
  apply conflict_free_app in Hcf as [Hcf_hi Hcf_p].
  pose proof (conflict_free_head _ _ _ Hcf_hi) as Hc0. cbn [fst snd] in Hc0.
  assert (HS0 : Sim ex L U L U).
  { split; [apply (cf_cases ex L U Hw Hc0)|tauto]. }
  destruct (sweep_prefix_sim ex hi (p :: lo) L U L U 0 Hw HS0 Hcf_hi) as (lb & ub & tgt & Heq & HS & _).
  rewrite Heq. cbn [sweep]. destruct HS as [Hlu Hs]. destruct (ub <? lb) eqn:E; [lia|].
  rewrite sweep_nopref by exact Hlo. cbn [snd].
  pose proof (conflict_free_head _ _ _ Hcf_p) as Hcp.
  unfold sweep_step. rewrite Hv.
  assert (Ht : closest_spec ex (fst (ideal_bounds (L, U) hi)) (snd (ideal_bounds (L, U) hi)) v
                 (pick v (clamp_to_bounds v lb ub ex) tgt)).
  { rewrite clamp_spec. apply pick_closest_sim; [exact Hw|split; assumption|exact Hcp]. }
  destruct (check_exclusion_bounds_overlap _ _ ex) as [[|] [|]]; try exact Ht;
  destruct (adjust_exclusion_bounds _ _ ex); exact Ht.
Qed.

Lemma sweep_no_pref_zero ex ps st : (forall q, In q ps -> p_pref q = None) -> sweep ex ps st = snd st.
Proof. apply sweep_nopref. Qed.

(* ---------------------------------------------------------------- reported bounds *)
Lemma status_sweep_sim ex q hi rest L U lb ub :
  wf_excl ex -> Sim ex L U lb ub -> conflict_free ex (L, U) hi ->
  (forall x, In x hi -> q < p_prio x) ->
  exists lb' ub',
    status_sweep ex q (hi ++ rest) lb ub = status_sweep ex q rest lb' ub' /\
    Sim ex (fst (ideal_bounds (L, U) hi)) (snd (ideal_bounds (L, U) hi)) lb' ub'.
Proof.
  intros Hw. revert L U lb ub. induction hi as [|p hi IH]; intros L U lb ub HS Hcf Hq.
  - exists lb, ub. cbn. auto.
  - cbn [conflict_free fst snd] in Hcf. destruct Hcf as [Hc0 Hc1].
    assert (Hc1' : cf ex (fst (ideal_step (L, U) p)) (snd (ideal_step (L, U) p))).
    { destruct hi; cbn in Hc1; tauto. }
    pose proof (sweep_step_sim ex p L U lb ub 0 Hw HS Hc0 Hc1') as Hstep.
    cbn [app status_sweep]. destruct (p_prio p <=? q) eqn:Ep.
    { specialize (Hq p (or_introl eq_refl)). lia. }
    unfold sweep_step in Hstep.
    set (pl := default lb (p_lo p)) in *. set (pu := default ub (p_hi p)) in *.
    destruct (check_exclusion_bounds_overlap pl pu ex) as [[|] [|]] eqn:Eo.
    1: { (* (true,true): state unchanged, and the simulation step says the same *)
         destruct Hstep as [HS1 _]. destruct (ideal_step (L, U) p) as [L1 U1] eqn:Ei. cbn [fst snd] in *.
         destruct (IH L1 U1 lb ub HS1 Hc1 ltac:(intros x Hx; apply Hq; right; exact Hx)) as (lb' & ub' & He & HS').
         exists lb', ub'. split; [exact He|]. cbn [ideal_bounds fold_left]. rewrite Ei. exact HS'. }
    all: destruct (adjust_exclusion_bounds (Z.max lb pl) (Z.min ub pu) ex) as [lb1 ub1] eqn:Ea;
         destruct Hstep as [HS1 _]; destruct (ideal_step (L, U) p) as [L1 U1] eqn:Ei; cbn [fst snd] in *;
         assert (Hne : Z.max lb pl <=? Z.min ub pu = true) by
           (rewrite adjust_spec in Ea; destruct HS as [Hlu Hs];
            assert (Hcfx : cf ex (Z.max lb pl) (Z.min ub pu)) by
              (destruct Hc1' as (x & Hx & Hz); exists x; split; [|exact Hz];
               specialize (Hs x Hz); subst pl pu; cbn [ideal_step fst snd] in Ei; injection Ei as <- <-;
               destruct (p_lo p), (p_hi p); cbn [default] in *; lia);
            apply (cf_cases ex _ _ Hw) in Hcfx; lia);
         rewrite Hne;
         destruct (IH L1 U1 lb1 ub1 HS1 Hc1 ltac:(intros x Hx; apply Hq; right; exact Hx)) as (lb' & ub' & He & HS');
         exists lb', ub'; (split; [exact He|]); cbn [ideal_bounds fold_left]; rewrite Ei; exact HS'.
Qed.

Lemma status_sweep_stop ex q rest lb ub :
  match rest with [] => True | p :: _ => p_prio p <= q end -> status_sweep ex q rest lb ub = (lb, ub).
Proof.
  destruct rest as [|p rest]; cbn; [reflexivity|]. intros H. destruct (p_prio p <=? q) eqn:E; [reflexivity|lia].
Qed.

(* ---------------------------------------------------------------- empty proposals *)
Definition is_empty (p : proposal) : Prop := p_pref p = None /\ p_lo p = None /\ p_hi p = None.

Lemma ideal_step_empty b p : is_empty p -> ideal_step b p = b.
Proof.
  intros (_ & Hl & Hh). unfold ideal_step. rewrite Hl, Hh. cbn [default]. destruct b as [L U]. cbn. f_equal; lia.
Qed.

Lemma conflict_free_insert_empty ex b l1 l2 p :
  is_empty p -> conflict_free ex b (l1 ++ l2) -> conflict_free ex b (l1 ++ p :: l2).
Proof.
  intros He. revert b. induction l1 as [|x l1 IH]; intros b H; cbn [app conflict_free] in *.
  - split; [apply (conflict_free_head _ _ _ H)|]. rewrite ideal_step_empty by exact He. exact H.
  - destruct H as [H0 H1]. split; [exact H0|apply IH; exact H1].
Qed.

Lemma sweep_skip_empty ex l1 l2 p L U lb ub tgt :
  wf_excl ex -> is_empty p -> Sim ex L U lb ub -> conflict_free ex (L, U) (l1 ++ l2) ->
  forall lbx ubx, Sim ex L U lbx ubx ->
  sweep ex (l1 ++ p :: l2) (lb, ub, tgt) = sweep ex (l1 ++ l2) (lbx, ubx, tgt).
Proof.
  intros Hw He. revert L U lb ub tgt. induction l1 as [|x l1 IH]; intros L U lb ub tgt HS Hcf lbx ubx HSx.
  - cbn [app] in *. (* process the empty proposal, then both runs are Sim to the same ideal interval *)
    cbn [sweep]. destruct HS as [Hlu Hs]. destruct (ub <? lb) eqn:E; [lia|].
    pose proof (conflict_free_head _ _ _ Hcf) as Hc0. cbn [fst snd] in Hc0.
    assert (Hc1 : cf ex (fst (ideal_step (L, U) p)) (snd (ideal_step (L, U) p)))
      by (rewrite ideal_step_empty by exact He; exact Hc0).
    pose proof (sweep_step_sim ex p L U lb ub tgt Hw (conj Hlu Hs) Hc0 Hc1) as Hstep.
    destruct (sweep_step ex p (lb, ub, tgt)) as [[lb1 ub1] tgt1]. destruct Hstep as [HS1 Ht1].
    rewrite ideal_step_empty in HS1 by exact He. cbn [fst snd] in HS1.
    destruct He as (Hp & _). rewrite Hp in Ht1. subst tgt1.
    (* now a generic fact: two Sim-related starts give the same result *)
    clear - Hw HS1 HSx Hcf. revert L U lb1 ub1 lbx ubx tgt HS1 HSx Hcf.
    induction l2 as [|y l2 IH2]; intros L U lb1 ub1 lbx ubx tgt HS1 HSx Hcf; [reflexivity|].
    cbn [sweep]. destruct HS1 as [Hl1 Hs1]. destruct HSx as [Hlx Hsx].
    destruct (ub1 <? lb1) eqn:E1; [lia|]. destruct (ubx <? lbx) eqn:Ex; [lia|].
    cbn [conflict_free fst snd] in Hcf. destruct Hcf as [Hc0 Hc1].
    assert (Hc1' : cf ex (fst (ideal_step (L, U) y)) (snd (ideal_step (L, U) y)))
      by (destruct l2; cbn in Hc1; tauto).
    pose proof (sweep_step_sim ex y L U lb1 ub1 tgt Hw (conj Hl1 Hs1) Hc0 Hc1') as Ha.
    pose proof (sweep_step_sim ex y L U lbx ubx tgt Hw (conj Hlx Hsx) Hc0 Hc1') as Hb.
    destruct (sweep_step ex y (lb1, ub1, tgt)) as [[a1 a2] ta]. destruct (sweep_step ex y (lbx, ubx, tgt)) as [[b1 b2] tb].
    destruct Ha as [HSa Hta]. destruct Hb as [HSb Htb].
    assert (Heqt : ta = tb).
    { rewrite Hta, Htb. destruct (p_pref y) as [v|]; [|reflexivity].
      apply (closest_unique ex L U v); apply pick_closest_sim; try assumption; split; assumption. }
    rewrite <- Heqt. destruct (ideal_step (L, U) y) as [L1 U1]. cbn [fst snd] in *.
    apply (IH2 L1 U1); assumption.
  - cbn [app sweep]. destruct HS as [Hlu Hs]. destruct HSx as [Hlx Hsx].
    destruct (ub <? lb) eqn:E; [lia|]. destruct (ubx <? lbx) eqn:Ex; [lia|].
    cbn [app conflict_free fst snd] in Hcf. destruct Hcf as [Hc0 Hc1].
    assert (Hc1' : cf ex (fst (ideal_step (L, U) x)) (snd (ideal_step (L, U) x))).
    { destruct (l1 ++ l2); cbn in Hc1; tauto. }
    pose proof (sweep_step_sim ex x L U lb ub tgt Hw (conj Hlu Hs) Hc0 Hc1') as Ha.
    pose proof (sweep_step_sim ex x L U lbx ubx tgt Hw (conj Hlx Hsx) Hc0 Hc1') as Hb.
    destruct (sweep_step ex x (lb, ub, tgt)) as [[a1 a2] ta]. destruct (sweep_step ex x (lbx, ubx, tgt)) as [[b1 b2] tb].
    destruct Ha as [HSa Hta]. destruct Hb as [HSb Htb].
    assert (Heqt : ta = tb).
    { rewrite Hta, Htb. destruct (p_pref x) as [v|]; [|reflexivity].
      apply (closest_unique ex L U v); apply pick_closest_sim; try assumption; split; assumption. }
    rewrite <- Heqt. destruct (ideal_step (L, U) x) as [L1 U1]. cbn [fst snd] in *.
    eapply IH; eassumption.
Qed.

Lemma insert_desc_split p l : exists l1 l2, l = l1 ++ l2 /\ insert_desc p l = l1 ++ p :: l2.
Proof.
  induction l as [|q l IH]; cbn.
  - exists [], []. auto.
  - destruct (p_ltb p q).
    + destruct IH as (l1 & l2 & -> & ->). exists (q :: l1), l2. auto.
    + exists [], (q :: l). auto.
Qed.

(* ---------------------------------------------------------------- assembled statements *)
Definition wf_sys_excl (s : sysb) : Prop :=
  match s_excl s with Some (el, eu) => el <= 0 <= eu | None => True end.

Lemma wf_eff_excl s : wf_sys_excl s -> wf_excl (eff_excl s).
Proof.
  unfold wf_sys_excl, wf_excl, eff_excl. destruct (s_excl s) as [[el eu]|]; [|auto].
  intros H. destruct (negb (el =? 0) || negb (eu =? 0)) eqn:E; [lia|exact I].
Qed.

Lemma clamp_eff_excl s v l u : clamp v l u (s_excl s) = clamp v l u (eff_excl s).
Proof.
  unfold eff_excl. destruct (s_excl s) as [[el eu]|]; [|reflexivity].
  destruct (negb (el =? 0) || negb (eu =? 0)) eqn:E; [reflexivity|].
  assert (el = 0 /\ eu = 0) as [-> ->] by lia.
  unfold clamp, overlap.
  destruct (0 <? l) eqn:E1, (l <? 0) eqn:E2, (0 <? u) eqn:E3, (u <? 0) eqn:E4; cbn [andb]; try lia;
  destruct (v <? l) eqn:E5; try reflexivity; destruct (u <? v) eqn:E6; try reflexivity;
  destruct (v =? 0) eqn:E7; cbn [negb andb]; try reflexivity;
  destruct (0 <? v) eqn:E8, (v <? 0) eqn:E9; cbn [andb]; try reflexivity; lia.
Qed.

Lemma calc_target_closest s bucket hi p lo v :
  wf_sys_excl s ->
  sort_desc bucket = hi ++ p :: lo ->
  p_pref p = Some v -> (forall q, In q lo -> p_pref q = None) ->
  conflict_free (eff_excl s) (init_bounds s) (hi ++ [p]) ->
  closest_spec (eff_excl s) (fst (ideal_bounds (init_bounds s) hi)) (snd (ideal_bounds (init_bounds s) hi)) v
               (calc_target s bucket).
Proof.
  intros Hw Hs Hv Hlo Hcf. unfold calc_target. rewrite Hs.
  destruct (init_bounds s) as [L U]. apply sweep_closest; auto. apply wf_eff_excl; exact Hw.
Qed.

Lemma calc_target_no_pref s bucket :
  (forall q, In q bucket -> p_pref q = None) -> calc_target s bucket = 0.
Proof.
  intros H. unfold calc_target. destruct (init_bounds s) as [L U].
  rewrite sweep_nopref; [reflexivity|]. intros q Hq. apply H.
  eapply Permutation.Permutation_in; [apply sort_desc_perm|exact Hq].
Qed.

Lemma report_is_ideal s bucket q hi rest l u :
  wf_sys_excl s -> s_incl s = Some (l, u) ->
  sort_desc bucket = hi ++ rest ->
  (forall x, In x hi -> q < p_prio x) ->
  match rest with [] => True | p :: _ => p_prio p <= q end ->
  conflict_free (eff_excl s) (l, u) hi ->
  exists R, get_status_bounds s bucket q = Some R /\
            Sim (eff_excl s) (fst (ideal_bounds (l, u) hi)) (snd (ideal_bounds (l, u) hi)) (fst R) (snd R).
Proof.
  intros Hw Hi Hs Hhi Hrest Hcf. unfold get_status_bounds. rewrite Hi, Hs.
  pose proof (wf_eff_excl s Hw) as Hwe.
  pose proof (conflict_free_head _ _ _ Hcf) as Hc0. cbn [fst snd] in Hc0.
  assert (HS0 : Sim (eff_excl s) l u l u) by (split; [apply (cf_cases _ l u Hwe Hc0)|tauto]).
  destruct (status_sweep_sim (eff_excl s) q hi rest l u l u Hwe HS0 Hcf Hhi) as (lb & ub & He & HS).
  rewrite He, status_sweep_stop by exact Hrest. exists (lb, ub). split; [reflexivity|exact HS].
Qed.

(* the bounds reported to the lowest-priority actor with a preference decide its target *)
Lemma target_from_report s bucket hi p lo v l u :
  wf_sys_excl s -> s_incl s = Some (l, u) ->
  sort_desc bucket = hi ++ p :: lo ->
  p_pref p = Some v -> (forall q, In q lo -> p_pref q = None) ->
  (forall x, In x hi -> p_prio p < p_prio x) ->
  conflict_free (eff_excl s) (l, u) (hi ++ [p]) ->
  exists R, get_status_bounds s bucket (p_prio p) = Some R /\
            calc_target s bucket = pick v (adjust_to_bounds s (Some R) v) 0.
Proof.
  intros Hw Hi Hs Hv Hlo Hhi Hcf.
  pose proof (wf_eff_excl s Hw) as Hwe.
  assert (Hib : init_bounds s = (l, u)) by (unfold init_bounds; rewrite Hi; reflexivity).
  pose proof (calc_target_closest s bucket hi p lo v Hw Hs Hv Hlo) as Hc. rewrite Hib in Hc. specialize (Hc Hcf).
  apply conflict_free_app in Hcf as [Hcf_hi Hcf_p].
  destruct (report_is_ideal s bucket (p_prio p) hi (p :: lo) l u Hw Hi Hs Hhi ltac:(cbn; lia) Hcf_hi) as (R & HR & HS).
  exists R. split; [exact HR|]. destruct R as [rl ru]. cbn [adjust_to_bounds fst snd] in *.
  rewrite clamp_spec, clamp_eff_excl.
  eapply closest_unique; [exact Hc|]. apply pick_closest_sim; [exact Hwe|exact HS|].
  apply (conflict_free_head _ _ _ Hcf_p).
Qed.

Lemma empty_proposal_noop s b p :
  wf_sys_excl s -> is_empty p ->
  conflict_free (eff_excl s) (init_bounds s) (sort_desc b) ->
  calc_target s (p :: b) = calc_target s b.
Proof.
  intros Hw He Hcf. unfold calc_target. destruct (init_bounds s) as [L U] eqn:Eb.
  change (sort_desc (p :: b)) with (insert_desc p (sort_desc b)).
  destruct (insert_desc_split p (sort_desc b)) as (l1 & l2 & H1 & H2). rewrite H2, H1. rewrite H1 in Hcf.
  pose proof (wf_eff_excl s Hw) as Hwe.
  pose proof (conflict_free_head _ _ _ Hcf) as Hc0. cbn [fst snd] in Hc0.
  assert (HS0 : Sim (eff_excl s) L U L U) by (split; [apply (cf_cases _ L U Hwe Hc0)|tauto]).
  apply (sweep_skip_empty (eff_excl s) l1 l2 p L U L U 0 Hwe He HS0 Hcf L U HS0).
Qed.
