(* Basic facts about the Q helpers of model/Dist.v and the bookkeeping (sum) invariants of the
   greedy top-up and of the split over inverters: the ingredients of C01_sum. *)
From Coq Require Import QArith Qabs Lqa Lia List Bool.
From Verif Require Import model.Dist.
Import ListNotations.
Open Scope Q_scope.

(* ------------------------------------------------------------------ booleans on Q *)
Lemma Qlt_bool_iff a b : Qlt_bool a b = true <-> a < b.
Proof.
  unfold Qlt_bool. rewrite negb_true_iff. split; intro H.
  - apply Qnot_le_lt. intro C. apply Qle_bool_iff in C. congruence.
  - destruct (Qle_bool b a) eqn:E; auto. apply Qle_bool_iff in E. lra.
Qed.

Lemma Qlt_bool_false a b : Qlt_bool a b = false <-> b <= a.
Proof.
  unfold Qlt_bool. rewrite negb_false_iff. apply Qle_bool_iff.
Qed.

Lemma Qle_bool_false a b : Qle_bool a b = false <-> b < a.
Proof.
  split; intro H.
  - apply Qnot_le_lt. intro C. apply Qle_bool_iff in C. congruence.
  - destruct (Qle_bool a b) eqn:E; auto. apply Qle_bool_iff in E. lra.
Qed.

Lemma qmin_spec a b : (a <= b /\ qmin a b = a) \/ (b < a /\ qmin a b = b).
Proof.
  unfold qmin. destruct (Qlt_bool b a) eqn:E.
  - right. split; auto. now apply Qlt_bool_iff.
  - left. split; auto. now apply Qlt_bool_false.
Qed.

Lemma qmax_spec a b : (b <= a /\ qmax a b = a) \/ (a < b /\ qmax a b = b).
Proof.
  unfold qmax. destruct (Qlt_bool a b) eqn:E.
  - right. split; auto. now apply Qlt_bool_iff.
  - left. split; auto. now apply Qlt_bool_false.
Qed.

Lemma qmin_le_l a b : qmin a b <= a.
Proof. destruct (qmin_spec a b) as [[? ->]|[? ->]]; lra. Qed.
Lemma qmin_le_r a b : qmin a b <= b.
Proof. destruct (qmin_spec a b) as [[? ->]|[? ->]]; lra. Qed.
Lemma qmax_ge_l a b : a <= qmax a b.
Proof. destruct (qmax_spec a b) as [[? ->]|[? ->]]; lra. Qed.
Lemma qmax_ge_r a b : b <= qmax a b.
Proof. destruct (qmax_spec a b) as [[? ->]|[? ->]]; lra. Qed.
Lemma qmin_glb a b c : c <= a -> c <= b -> c <= qmin a b.
Proof. intros. destruct (qmin_spec a b) as [[? ->]|[? ->]]; lra. Qed.

Lemma czero_true v : czero v = true <-> Qabs v <= eps.
Proof. unfold czero. apply Qle_bool_iff. Qed.

Lemma eps_pos : 0 < eps.
Proof. reflexivity. Qed.

Lemma czero_0 : czero 0 = true.
Proof. reflexivity. Qed.

(* ------------------------------------------------------------------ sums *)
Lemma qsum_cons x l : qsum (x :: l) = x + qsum l.
Proof. reflexivity. Qed.

Ltac fq := repeat match goal with
  | |- context [fold_right Qplus 0 ?l] => change (fold_right Qplus 0 l) with (qsum l)
  | H : context [fold_right Qplus 0 ?l] |- _ => change (fold_right Qplus 0 l) with (qsum l) in H
  end.
Ltac cq := cbn; fq.


Lemma qsum_app a b : qsum (a ++ b) == qsum a + qsum b.
Proof. induction a as [|x a IH]; cq; [lra|]. rewrite IH. lra. Qed.

Lemma sumsp_app a b : sumsp (a ++ b) == sumsp a + sumsp b.
Proof. unfold sumsp. rewrite map_app. apply qsum_app. Qed.

Lemma qsum_nonneg l : (forall x, In x l -> 0 <= x) -> 0 <= qsum l.
Proof.
  induction l as [|x l IH]; cq; intro H; [lra|].
  assert (0 <= x) by (apply H; auto). assert (0 <= qsum l) by (apply IH; intros; apply H; auto). lra.
Qed.

(* ------------------------------------------------------------------ greedy top-up conserves power *)
Lemma greedy_loop_sum : forall l rem l' r,
  greedy_loop rem l = (l', r) ->
  qsum (map gp_power l') + r == qsum (map gp_power l) + rem.
Proof.
  induction l as [|g t IH]; intros rem l' r H; cbn in H.
  - inversion H; subst. cq. lra.
  - destruct (czero rem || czero (gp_power g)) eqn:E.
    + destruct (greedy_loop rem t) as [t' r'] eqn:G. inversion H; subst.
      apply IH in G. cq. lra.
    + destruct (greedy_loop (rem - qmin (gp_upper g - gp_power g) rem) t) as [t' r'] eqn:G.
      inversion H; subst. apply IH in G. cq. lra.
Qed.

Lemma greedy_sum : forall l rem l' r,
  greedy rem l = (l', r) ->
  qsum (map gp_power l') + r == qsum (map gp_power l) + rem.
Proof.
  intros l rem l' r H. unfold greedy in H. destruct (czero rem).
  - inversion H; subst. lra.
  - now apply greedy_loop_sum.
Qed.

(* ------------------------------------------------------------------ the split conserves power *)
Lemma split_loop_sum : forall l rem d r,
  split_loop rem l = (d, r) -> sumsp d + r == rem.
Proof.
  induction l as [|i t IH]; intros rem d r H; cbn in H.
  - inversion H; subst. unfold sumsp; cq. lra.
  - destruct (negb (czero rem) && Qle_bool (pi_excl i) rem).
    + destruct (split_loop (rem - qmin (pi_incl i) rem) t) as [t' r'] eqn:G.
      inversion H; subst. apply IH in G. unfold sumsp in *; cq. lra.
    + destruct (split_loop rem t) as [t' r'] eqn:G.
      inversion H; subst. apply IH in G. unfold sumsp in *; cq. lra.
Qed.

Lemma split_raw_sum : forall g d r,
  split_raw g = (d, r) -> sumsp d + r == gp_power g.
Proof.
  intros g d r H. unfold split_raw in H.
  destruct (pg_invs (gp_src g)) as [|i [|j t]].
  - cbn in H. inversion H; subst. unfold sumsp; cq. lra.
  - inversion H; subst. unfold sumsp; cq. lra.
  - now apply split_loop_sum in H.
Qed.

Lemma sumsp_zeroed (d : list (Z * Q)) : sumsp (map (fun a => (fst a, 0)) d) == 0.
Proof. induction d as [|a d IH]; unfold sumsp in *; cq; [lra|]. cbn in IH. fq. lra. Qed.

Lemma split_group_sum : forall g d r,
  split_group g = (d, r) -> sumsp d + r == gp_power g.
Proof.
  intros g d r H. unfold split_group in H. destruct (split_raw g) as [d0 r0] eqn:R.
  destruct (guard_ok (sumsp d0) (gp_lower g)); inversion H; subst.
  - now apply split_raw_sum.
  - pose proof (sumsp_zeroed d0). lra.
Qed.

Lemma split_all_sum : forall l ds r,
  split_all l = (ds, r) -> sumsp (flat_map gr_sp ds) + r == qsum (map gp_power l).
Proof.
  induction l as [|g t IH]; intros ds r H; cbn in H.
  - inversion H; subst. unfold sumsp; cq. lra.
  - destruct (split_group g) as [d r1] eqn:G. destruct (split_all t) as [ds' rs] eqn:A.
    inversion H; subst. specialize (IH _ _ eq_refl). apply split_group_sum in G.
    cbn [flat_map gr_sp].
    match goal with |- sumsp (?a ++ ?b) + _ == _ => pose proof (sumsp_app a b) as HA end.
    cbn [map]. rewrite qsum_cons. lra.
Qed.

(* ------------------------------------------------------------------ zeros *)
Lemma sumsp_zeros_inv (l : list pinv) : sumsp (map (fun i => (pi_id i, 0)) l) == 0.
Proof. induction l; unfold sumsp in *; cq; [lra|]. cbn in IHl. lra. Qed.

Lemma sumsp_zeros gs : sumsp (flat_map gr_sp (zeros gs)) == 0.
Proof.
  induction gs as [|g t IH]; unfold zeros in *; cbn [map flat_map gr_sp]; [reflexivity|].
  match goal with |- sumsp (?a ++ ?b) == _ => pose proof (sumsp_app a b) as HA end.
  pose proof (sumsp_zeros_inv (pg_invs g)). lra.
Qed.

(* ------------------------------------------------------------------ C01_sum on the core *)
Lemma core_sum : forall gs p r,
  core gs p = Some r -> sumsp (res_dist r) + res_rem r == p.
Proof.
  intros gs p r H. unfold core in H.
  destruct (czero (total_cap gs)); [discriminate|].
  destruct (czero (sum_ratio gs)).
  - inversion H; subst. unfold res_dist; cbn [res_groups res_rem]. pose proof (sumsp_zeros gs). lra.
  - destruct (cover_all (deficits_of (reserved_slots gs p)) (reserved_slots gs p)) as [sl rests] eqn:C.
    destruct (greedy (p - qsum (map gp_power (apply_excess sl))) (apply_excess sl)) as [pw rem] eqn:G.
    destruct (split_all pw) as [ds srem] eqn:S.
    inversion H; subst. unfold res_dist; cbn [res_groups res_rem].
    apply greedy_sum in G. apply split_all_sum in S. lra.
Qed.

(* negation of a result (supply direction) *)
Lemma sumsp_neg l : sumsp (map (fun a : Z * Q => (fst a, - snd a)) l) == - sumsp l.
Proof. induction l as [|a l IH]; unfold sumsp in *; cq; [lra|]. cbn in IH. lra. Qed.

Lemma res_dist_neg r : sumsp (res_dist (neg_result r)) == - sumsp (res_dist r).
Proof.
  unfold res_dist, neg_result; cbn [res_groups]. induction (res_groups r) as [|gd t IH]; cbn [map flat_map gr_sp]; [reflexivity|].
  match goal with |- sumsp (?a ++ ?b) == - sumsp (?c ++ ?d) => pose proof (sumsp_app a b); pose proof (sumsp_app c d) end.
  pose proof (sumsp_neg (gr_sp gd)). lra.
Qed.

Lemma distribute_sum : forall powf gs p r,
  czero p = false -> distribute powf gs p = Some r -> sumsp (res_dist r) + res_rem r == p.
Proof.
  intros powf gs p r Hp H. unfold distribute in H. rewrite Hp in H.
  destruct (Qlt_bool 0 p).
  - now apply core_sum in H.
  - destruct (core (map (prepare true powf) gs) (- p)) as [r0|] eqn:C; [|discriminate].
    inversion H; subst. apply core_sum in C. pose proof (res_dist_neg r0). cbn [neg_result res_rem]. lra.
Qed.

(* BatteryManager._distribute_power: the power reported as set is the power commanded *)
Lemma request_reported powf gs p rr :
  czero p = false -> run_request powf gs p = Some rr -> res_distributed rr == sumsp (res_dist (rr_res rr)).
Proof.
  intros Hz H. unfold run_request in H. destruct (distribute powf gs p) as [r|] eqn:D; [|discriminate].
  inversion H; subst; cbn [rr_res res_distributed]. pose proof (distribute_sum _ _ _ _ Hz D). lra.
Qed.
