(* Facts about the Python numerics of model/PoolBounds.v (pmax, pmin, qsum, lmax, lmin,
   py_isclose) over Q, up to Qeq. *)
From Coq Require Import QArith Qabs List Bool Lqa Morphisms Setoid.
From Verif Require Import model.Common gen.Pool model.PoolBounds.
Import ListNotations.
Open Scope Q_scope.

(* ------------------------------------------------------------------ comparisons *)
Lemma Qle_bool_false : forall a b, Qle_bool a b = false <-> b < a.
Proof.
  intros a b. split; intro H.
  - apply Qnot_le_lt. intro L. apply Qle_bool_iff in L. congruence.
  - destruct (Qle_bool a b) eqn:E; [|reflexivity]. apply Qle_bool_iff in E. lra.
Qed.

Lemma Qltb_true : forall a b, Qltb a b = true <-> a < b.
Proof. intros. unfold Qltb. rewrite negb_true_iff. apply Qle_bool_false. Qed.

Lemma Qltb_false : forall a b, Qltb a b = false <-> b <= a.
Proof. intros. unfold Qltb. rewrite negb_false_iff. apply Qle_bool_iff. Qed.

Global Instance Qle_bool_proper : Proper (Qeq ==> Qeq ==> eq) Qle_bool.
Proof.
  intros a a' Ha b b' Hb.
  destruct (Qle_bool a b) eqn:E, (Qle_bool a' b') eqn:E'; try reflexivity.
  - apply Qle_bool_iff in E. apply Qle_bool_false in E'. lra.
  - apply Qle_bool_iff in E'. apply Qle_bool_false in E. lra.
Qed.

Global Instance Qltb_proper : Proper (Qeq ==> Qeq ==> eq) Qltb.
Proof. intros a a' Ha b b' Hb. unfold Qltb. now rewrite Ha, Hb. Qed.

Ltac qb H := first [apply Qltb_true in H | apply Qltb_false in H | apply Qle_bool_iff in H | apply Qle_bool_false in H].

(* ------------------------------------------------------------------ pmax / pmin *)
Lemma pmax_l : forall a b, a <= pmax a b.
Proof. intros. unfold pmax. destruct (Qltb a b) eqn:E; qb E; lra. Qed.
Lemma pmax_r : forall a b, b <= pmax a b.
Proof. intros. unfold pmax. destruct (Qltb a b) eqn:E; qb E; lra. Qed.
Lemma pmax_lub : forall a b c, a <= c -> b <= c -> pmax a b <= c.
Proof. intros. unfold pmax. destruct (Qltb a b); assumption. Qed.
Lemma pmax_cases : forall a b, pmax a b = a \/ pmax a b = b.
Proof. intros. unfold pmax. destruct (Qltb a b); auto. Qed.
Lemma pmin_l : forall a b, pmin a b <= a.
Proof. intros. unfold pmin. destruct (Qltb b a) eqn:E; qb E; lra. Qed.
Lemma pmin_r : forall a b, pmin a b <= b.
Proof. intros. unfold pmin. destruct (Qltb b a) eqn:E; qb E; lra. Qed.
Lemma pmin_glb : forall a b c, c <= a -> c <= b -> c <= pmin a b.
Proof. intros. unfold pmin. destruct (Qltb b a); assumption. Qed.
Lemma pmin_cases : forall a b, pmin a b = a \/ pmin a b = b.
Proof. intros. unfold pmin. destruct (Qltb b a); auto. Qed.

Global Instance pmax_proper : Proper (Qeq ==> Qeq ==> Qeq) pmax.
Proof. intros a a' Ha b b' Hb. unfold pmax. rewrite Ha, Hb. destruct (Qltb a' b'); assumption. Qed.
Global Instance pmin_proper : Proper (Qeq ==> Qeq ==> Qeq) pmin.
Proof. intros a a' Ha b b' Hb. unfold pmin. rewrite Ha, Hb. destruct (Qltb b' a'); assumption. Qed.

Lemma pmax_mono : forall a b a' b', a <= a' -> b <= b' -> pmax a b <= pmax a' b'.
Proof.
  intros. apply pmax_lub.
  - pose proof (pmax_l a' b'). lra.
  - pose proof (pmax_r a' b'). lra.
Qed.
Lemma pmin_mono : forall a b a' b', a <= a' -> b <= b' -> pmin a b <= pmin a' b'.
Proof.
  intros. apply pmin_glb.
  - pose proof (pmin_l a b). lra.
  - pose proof (pmin_r a b). lra.
Qed.

(* max of sums <= sum of maxes; min of sums >= sum of mins *)
Lemma pmax_plus : forall a b c d, pmax (a + c) (b + d) <= pmax a b + pmax c d.
Proof.
  intros. pose proof (pmax_l a b). pose proof (pmax_r a b). pose proof (pmax_l c d). pose proof (pmax_r c d).
  apply pmax_lub; lra.
Qed.
Lemma pmin_plus : forall a b c d, pmin a b + pmin c d <= pmin (a + c) (b + d).
Proof.
  intros. pose proof (pmin_l a b). pose proof (pmin_r a b). pose proof (pmin_l c d). pose proof (pmin_r c d).
  apply pmin_glb; lra.
Qed.

(* ------------------------------------------------------------------ sums *)
Lemma fold_left_Qplus_acc : forall l a, fold_left Qplus l a == a + fold_left Qplus l 0.
Proof.
  induction l as [|x l IH]; intro a; cbn.
  - lra.
  - rewrite (IH (a + x)), (IH (0 + x)). lra.
Qed.

Lemma qsum_nil : qsum [] == 0.
Proof. reflexivity. Qed.

Lemma qsum_cons : forall x l, qsum (x :: l) == x + qsum l.
Proof. intros. unfold qsum. cbn. rewrite fold_left_Qplus_acc. lra. Qed.

Lemma qsum_app : forall l1 l2, qsum (l1 ++ l2) == qsum l1 + qsum l2.
Proof.
  induction l1 as [|x l1 IH]; intro l2; cbn [app].
  - rewrite qsum_nil. lra.
  - rewrite !qsum_cons, IH. lra.
Qed.

Lemma qsum_flat_map : forall {A} (f : A -> list Q) (l : list A),
  qsum (flat_map f l) == qsum (map (fun x => qsum (f x)) l).
Proof.
  induction l as [|x l IH]; cbn [flat_map map].
  - reflexivity.
  - rewrite qsum_app, qsum_cons, IH. reflexivity.
Qed.

Lemma qsum_nonneg : forall l, (forall x, In x l -> 0 <= x) -> 0 <= qsum l.
Proof.
  induction l as [|x l IH]; intro H.
  - rewrite qsum_nil. lra.
  - rewrite qsum_cons. pose proof (H x (or_introl eq_refl)). assert (0 <= qsum l) by (apply IH; intros; apply H; now right). lra.
Qed.

Lemma qsum_le : forall {A} (f g : A -> Q) (l : list A),
  (forall x, In x l -> f x <= g x) -> qsum (map f l) <= qsum (map g l).
Proof.
  induction l as [|x l IH]; intro H; cbn [map].
  - lra.
  - rewrite !qsum_cons. pose proof (H x (or_introl eq_refl)).
    assert (qsum (map f l) <= qsum (map g l)) by (apply IH; intros; apply H; now right). lra.
Qed.

Lemma qsum_ext : forall {A} (f g : A -> Q) (l : list A),
  (forall x, In x l -> f x == g x) -> qsum (map f l) == qsum (map g l).
Proof.
  induction l as [|x l IH]; intro H; cbn [map].
  - reflexivity.
  - rewrite !qsum_cons. rewrite (H x (or_introl eq_refl)). rewrite IH; [reflexivity|]. intros; apply H; now right.
Qed.

Lemma qsum_plus : forall {A} (f g : A -> Q) (l : list A),
  qsum (map (fun x => f x + g x) l) == qsum (map f l) + qsum (map g l).
Proof.
  induction l as [|x l IH]; cbn [map].
  - rewrite !qsum_nil. lra.
  - rewrite !qsum_cons, IH. lra.
Qed.

(* max(Σa, Σb) <= Σ max(a, b)   and   Σ min(a, b) <= min(Σa, Σb) *)
Lemma pmax_qsum : forall {A} (f g : A -> Q) (l : list A),
  pmax (qsum (map f l)) (qsum (map g l)) <= qsum (map (fun x => pmax (f x) (g x)) l).
Proof.
  induction l as [|x l IH]; cbn [map].
  - vm_compute; discriminate.
  - rewrite !qsum_cons.
    pose proof (pmax_plus (f x) (g x) (qsum (map f l)) (qsum (map g l))). lra.
Qed.
Lemma pmin_qsum : forall {A} (f g : A -> Q) (l : list A),
  qsum (map (fun x => pmin (f x) (g x)) l) <= pmin (qsum (map f l)) (qsum (map g l)).
Proof.
  induction l as [|x l IH]; cbn [map].
  - vm_compute; discriminate.
  - rewrite !qsum_cons.
    pose proof (pmin_plus (f x) (g x) (qsum (map f l)) (qsum (map g l))). lra.
Qed.

(* ------------------------------------------------------------------ min / max of a list *)
Lemma fold_pmin_le_acc : forall l a, fold_left pmin l a <= a.
Proof.
  induction l as [|x l IH]; intro a; cbn.
  - lra.
  - pose proof (IH (pmin a x)). pose proof (pmin_l a x). lra.
Qed.
Lemma fold_pmin_le_in : forall l a x, In x l -> fold_left pmin l a <= x.
Proof.
  induction l as [|y l IH]; intros a x H; cbn; [contradiction|].
  destruct H as [->|H].
  - pose proof (fold_pmin_le_acc l (pmin a x)). pose proof (pmin_r a x). lra.
  - now apply IH.
Qed.
Lemma lmin_le : forall l x, In x l -> lmin l <= x.
Proof.
  intros [|y l] x H; [contradiction|]. cbn. destruct H as [->|H].
  - apply fold_pmin_le_acc.
  - now apply fold_pmin_le_in.
Qed.

(* the minimum of a non-empty list of non-negative numbers is at most their sum *)
Lemma lmin_le_qsum : forall l, l <> [] -> (forall x, In x l -> 0 <= x) -> lmin l <= qsum l.
Proof.
  intros [|y l] Hne H; [congruence|].
  rewrite qsum_cons.
  assert (0 <= qsum l) by (apply qsum_nonneg; intros; apply H; now right).
  pose proof (lmin_le (y :: l) y (or_introl eq_refl)). lra.
Qed.

(* ------------------------------------------------------------------ isclose *)
Global Instance Qabs_proper : Proper (Qeq ==> Qeq) Qabs := Qabs_wd.

Global Instance py_isclose_proper : Proper (Qeq ==> Qeq ==> Qeq ==> Qeq ==> eq) py_isclose.
Proof.
  intros r r' Hr t t' Ht a a' Ha b b' Hb. unfold py_isclose.
  apply Qle_bool_proper.
  - now rewrite Ha, Hb.
  - now rewrite Hr, Ht, Ha, Hb.
Qed.
Global Instance isclose_proper : Proper (Qeq ==> Qeq ==> eq) isclose.
Proof. intros a a' Ha b b' Hb. unfold isclose. now rewrite Ha, Hb. Qed.
Global Instance is_close_to_zero_proper : Proper (Qeq ==> eq) is_close_to_zero.
Proof. intros a a' Ha. unfold is_close_to_zero. now rewrite Ha. Qed.

Lemma abs_tol_pos : 0 < is_close_to_zero_abs_tol.
Proof. reflexivity. Qed.
Lemma abs_tol_lt_1 : is_close_to_zero_abs_tol < 1.
Proof. reflexivity. Qed.

(* is_close_to_zero v  <->  |v| <= abs_tol   (the relative part never helps against b = 0) *)
Lemma is_close_to_zero_spec : forall v, is_close_to_zero v = true <-> Qabs v <= is_close_to_zero_abs_tol.
Proof.
  intro v. unfold is_close_to_zero, py_isclose.
  rewrite Qle_bool_iff.
  assert (E0 : Qabs (isclose_rel_tol * 0) == 0) by reflexivity.
  assert (Ev : v - 0 == v) by lra. rewrite Ev.
  pose proof abs_tol_pos as Tp.
  pose proof (Qabs_nonneg v) as Vn.
  assert (Er : Qabs (isclose_rel_tol * v) == isclose_rel_tol * Qabs v).
  { rewrite Qabs_Qmult. reflexivity. }
  assert (Rl : isclose_rel_tol * Qabs v <= (1 # 2) * Qabs v).
  { apply Qmult_le_compat_r; [discriminate|assumption]. }
  split; intro H.
  - destruct (pmax_cases (pmax (Qabs (isclose_rel_tol * 0)) (Qabs (isclose_rel_tol * v))) is_close_to_zero_abs_tol) as [E|E];
      rewrite E in H; [|assumption].
    destruct (pmax_cases (Qabs (isclose_rel_tol * 0)) (Qabs (isclose_rel_tol * v))) as [E'|E']; rewrite E' in H.
    + rewrite E0 in H. lra.
    + rewrite Er in H. lra.
  - pose proof (pmax_r (pmax (Qabs (isclose_rel_tol * 0)) (Qabs (isclose_rel_tol * v))) is_close_to_zero_abs_tol). lra.
Qed.

Lemma is_close_to_zero_false : forall v, is_close_to_zero v = false <-> is_close_to_zero_abs_tol < Qabs v.
Proof.
  intro v. pose proof (is_close_to_zero_spec v) as S. split; intro H.
  - apply Qnot_le_lt. intro L. apply S in L. congruence.
  - destruct (is_close_to_zero v); [|reflexivity]. assert (T : true = true) by reflexivity. apply S in T. lra.
Qed.
