(* Formula engine: facts about the translated precedence table, the post-fix executor and the
   builder that the compiler-correctness (C05) and propagation (C13) proofs share. *)
From Coq Require Import ZArith NArith QArith List Bool String Lia.
From Verif Require Import model.Common gen.Formula model.Formula.
Import ListNotations.
Local Open Scope list_scope.

(* ------------------------------------------------------------------ the translated table *)
(* The only things the proofs use about _operator_precedence: every key is present and the
   relative order of the ten entries.  A renumbering that keeps the order keeps these facts. *)
Definition rank (o : oper) : nat :=
  match o with
  | OMax => 0 | OMin => 1 | OCons => 2 | OProd => 3 | OLp => 4
  | ODiv => 5 | OMul => 6 | OSub => 7 | OAdd => 8 | ORp => 9
  end.

Lemma prec_total : forall o, lookup_prec (oper_name o) operator_precedence <> None.
Proof. intros []; vm_compute; discriminate. Qed.

Lemma prec_order : forall a b, (prec a <? prec b)%Z = (rank a <? rank b)%nat.
Proof. intros [] []; vm_compute; reflexivity. Qed.

Lemma pop_ops_cons o p s :
  pop_ops o (p :: s) =
  if (rank o <? rank p)%nat then ([], p :: s)
  else if is_rp o && is_lp p then ([], s)
  else if is_lp p then ([], p :: s)
  else let '(a, b) := pop_ops o s in (p :: a, b).
Proof. cbn [pop_ops]. rewrite prec_order. reflexivity. Qed.

Global Opaque prec.

(* the bottom of a parenthesis frame: the stack is empty or starts with "(" *)
Definition base_ok (base : list oper) : Prop := base = [] \/ exists r, base = OLp :: r.

Definition is_paren (o : oper) : bool := is_lp o || is_rp o.

Lemma pop_ops_base o base : base_ok base -> is_paren o = false -> pop_ops o base = ([], base).
Proof.
  intros [->|[r ->]] Ho; [reflexivity|].
  rewrite pop_ops_cons. destruct o; cbn in *; try discriminate; reflexivity.
Qed.

(* ------------------------------------------------------------------ exec *)
Section Exec.
Variable rnd : Q -> val.
Variable fv : N -> val.

Lemma exec_app p q st :
  exec rnd fv (p ++ q) st = match exec rnd fv p st with Some st' => exec rnd fv q st' | None => None end.
Proof.
  revert st; induction p as [|s p IH]; intros st; cbn; [reflexivity|].
  destruct (exec_step rnd fv s st); [apply IH|reflexivity].
Qed.

Lemma exec_app_some p q st st' :
  exec rnd fv p st = Some st' -> exec rnd fv (p ++ q) st = exec rnd fv q st'.
Proof. intros H. rewrite exec_app, H. reflexivity. Qed.
End Exec.

Lemma exec_ext rnd fv1 fv2 p :
  (forall n, In (SFetch n) p -> fv1 n = fv2 n) -> forall st, exec rnd fv1 p st = exec rnd fv2 p st.
Proof.
  induction p as [|s p IH]; intros H st; cbn; [reflexivity|].
  assert (E : exec_step rnd fv1 s st = exec_step rnd fv2 s st).
  { destruct s; cbn; try reflexivity. rewrite (H n); [reflexivity|left; reflexivity]. }
  rewrite E. destruct (exec_step rnd fv2 s st); [|reflexivity].
  apply IH. intros n Hn. apply H. right. exact Hn.
Qed.

(* ------------------------------------------------------------------ builder runs *)
Definition run_toks (nz : bool) (b : builder) (ts : list tok) : builder := fold_left (feed nz) ts b.

Lemma run_toks_app nz b t1 t2 : run_toks nz b (t1 ++ t2) = run_toks nz (run_toks nz b t1) t2.
Proof. apply fold_left_app. Qed.

Lemma run_toks_cons nz b t ts : run_toks nz b (t :: ts) = run_toks nz (feed nz b t) ts.
Proof. reflexivity. Qed.

(* [extends b b' code]: b' has the steps of b followed by [code] *)
Definition extends (b b' : builder) (code : list step) : Prop := b_steps b' = b_steps b ++ code.

Lemma extends_trans b1 b2 b3 c1 c2 : extends b1 b2 c1 -> extends b2 b3 c2 -> extends b1 b3 (c1 ++ c2).
Proof. unfold extends. intros H1 H2. rewrite H2, H1, app_assoc. reflexivity. Qed.

Lemma push_lp_stack b : b_stack (push_oper OLp b) = OLp :: b_stack b.
Proof. reflexivity. Qed.
Lemma push_lp_steps b : b_steps (push_oper OLp b) = b_steps b.
Proof. unfold push_oper. cbn. apply app_nil_r. Qed.

(* closing parenthesis directly on its "(" *)
Lemma push_rp_on_lp b s : b_stack b = OLp :: s ->
  b_stack (push_oper ORp b) = s /\ b_steps (push_oper ORp b) = b_steps b.
Proof.
  intros H. unfold push_oper. cbn [is_lp]. rewrite H, pop_ops_cons. cbn. rewrite app_nil_r. auto.
Qed.

(* ------------------------------------------------------------------ fetchers of a compiled formula *)
(* all pushes of one compile use the same flag, so every fetcher that a step refers to has it *)
Definition fetch_inv (nz : bool) (b : builder) : Prop :=
  (forall n, In (SFetch n) (b_steps b) -> has_key (b_fetch b) n = true) /\
  (forall n, has_key (b_fetch b) n = true -> nz_flag (b_fetch b) n = nz).

Lemma has_key_app fs gs n : has_key (fs ++ gs) n = has_key fs n || has_key gs n.
Proof. induction fs as [|[m z] fs IH]; cbn; [reflexivity|]. rewrite IH, orb_assoc. reflexivity. Qed.

Lemma nz_flag_app fs gs n :
  nz_flag (fs ++ gs) n = if has_key fs n then nz_flag fs n else nz_flag gs n.
Proof.
  induction fs as [|[m z] fs IH]; cbn; [reflexivity|].
  destruct (N.eqb m n); cbn; [reflexivity|apply IH].
Qed.

Lemma In_map_step_of_fetch n l : ~ In (SFetch n) (map step_of l).
Proof. induction l as [|o l IH]; cbn; [tauto|]. intros [H|H]; [destruct o; discriminate|tauto]. Qed.

Lemma fetch_inv_feed nz b t : fetch_inv nz b -> fetch_inv nz (feed nz b t).
Proof.
  intros [H1 H2]. destruct t as [n|o|v]; cbn [feed].
  - unfold push_metric, fetch_inv; cbn [b_steps b_fetch]. split.
    + intros m Hm. apply in_app_or in Hm. destruct Hm as [Hm|[Hm|[]]].
      * destruct (has_key (b_fetch b) n); [auto|]. rewrite has_key_app, (H1 m Hm). reflexivity.
      * injection Hm as <-. destruct (has_key (b_fetch b) n) eqn:E; [exact E|].
        rewrite has_key_app. cbn. rewrite N.eqb_refl, orb_true_r. reflexivity.
    + intros m Hm. destruct (has_key (b_fetch b) n) eqn:E; [auto|].
      rewrite nz_flag_app. destruct (has_key (b_fetch b) m) eqn:E2; [auto|].
      rewrite has_key_app, E2 in Hm. cbn in Hm. cbn. rewrite orb_false_r in Hm. rewrite Hm. reflexivity.
  - unfold push_oper, fetch_inv.
    destruct (if is_lp o then ([], b_stack b) else pop_ops o (b_stack b)) as [popped rest].
    cbn [b_steps b_fetch]. split; [|exact H2].
    intros m Hm. apply in_app_or in Hm. destruct Hm as [Hm|Hm]; [auto|].
    exfalso. exact (In_map_step_of_fetch _ _ Hm).
  - unfold push_constant, fetch_inv; cbn [b_steps b_fetch]. split; [|exact H2].
    intros m Hm. apply in_app_or in Hm. destruct Hm as [Hm|[Hm|[]]]; [auto|discriminate].
Qed.

Lemma fetch_inv_run nz ts : forall b, fetch_inv nz b -> fetch_inv nz (run_toks nz b ts).
Proof.
  induction ts as [|t ts IH]; intros b H; [exact H|].
  rewrite run_toks_cons. apply IH, fetch_inv_feed, H.
Qed.

Lemma fetch_inv_empty nz : fetch_inv nz empty_builder.
Proof. split; cbn; [tauto|discriminate]. Qed.

(* the fetch function of a round agrees, on every name the program mentions, with [fetch_val nz] *)
Lemma compile_fetch nz ts env n :
  In (SFetch n) (fst (compile nz ts)) ->
  fetch_val (nz_flag (snd (compile nz ts)) n) (env n) = fetch_val nz (env n).
Proof.
  intros H. destruct (fetch_inv_run nz ts empty_builder (fetch_inv_empty nz)) as [H1 H2].
  unfold compile, finalize in *. cbn [fst snd] in *. fold (run_toks nz empty_builder ts) in *.
  apply in_app_or in H. destruct H as [H|H]; [|exfalso; exact (In_map_step_of_fetch _ _ H)].
  rewrite (H2 n (H1 n H)). reflexivity.
Qed.

Lemma run_round_compile rnd nz ts env :
  run_round rnd (compile nz ts) env =
  finish (exec rnd (fun n => fetch_val nz (env n)) (fst (compile nz ts)) []).
Proof.
  unfold run_round. f_equal. apply exec_ext. intros n Hn. apply compile_fetch. exact Hn.
Qed.
