(* Facts about model/Fallback.v used by props/C19.v *)
From Coq Require Import Lia ZifyBool.
From Verif Require Import model.Fallback.

Definition dflt : smp := (0, Inv 0).

(* [s] is consecutive with step [d], starting at timestamp [t] *)
Fixpoint sgrid (d t : Z) (s : list smp) : Prop :=
  match s with
  | [] => True
  | x :: r => fst x = t /\ sgrid d (t + d) r
  end.

(* a stream that delivers exactly the samples [l] (no receiver errors inside) *)
Definition samples (l : list smp) (closed_after : bool) : strm := mkS (map Smp l) closed_after.

Lemma recv_samples_cons : forall x r c, recv (samples (x :: r) c) = RSmp x (samples r c).
Proof. reflexivity. Qed.

Lemma sgrid_nth : forall s d t q, sgrid d t s -> (q < length s)%nat -> fst (nth q s dflt) = t + Z.of_nat q * d.
Proof.
  induction s as [|x r IH]; intros d t q Hg Hq; [cbn in Hq; lia|].
  destruct Hg as [Hx Hg]. destruct q as [|q]; cbn [nth].
  - lia.
  - cbn in Hq. rewrite (IH d (t + d) q Hg ltac:(lia)). lia.
Qed.

Lemma sgrid_skipn : forall q d t s, sgrid d t s -> sgrid d (t + Z.of_nat q * d) (skipn q s).
Proof.
  induction q as [|q IH]; intros d t s H.
  - cbn [skipn]. replace (t + Z.of_nat 0 * d) with t by lia. exact H.
  - destruct s as [|x r]; [exact I|]. cbn [skipn]. destruct H as [_ H]. apply IH in H.
    replace (t + Z.of_nat (S q) * d) with (t + d + Z.of_nat q * d) by lia. exact H.
Qed.

Lemma nth_skipn_smp : forall (q k : nat) (l : list smp), nth k (skipn q l) dflt = nth (q + k) l dflt.
Proof.
  induction q as [|q IH]; intros k l; [reflexivity|].
  destruct l as [|x r]; [cbn [skipn]; destruct k; reflexivity|]. cbn [skipn]. rewrite IH. reflexivity.
Qed.

Lemma skipn_cons_nth : forall (q : nat) (l : list smp),
  (q < length l)%nat -> skipn q l = nth q l dflt :: skipn (S q) l.
Proof.
  induction q as [|q IH]; intros l Hq; destruct l as [|x r]; cbn in Hq; try lia.
  - reflexivity.
  - cbn [skipn nth]. rewrite (IH r ltac:(lia)). reflexivity.
Qed.

(* ------------------------------------------------------------------ a valid primary is used immediately *)
Lemma fetch_valid_primary : forall fuel s p pr,
  recv (prim s) = RSmp p pr -> valid (snd p) = true ->
  (fetch_next fuel s = FBlock /\ running s = true) \/ exists s', fetch_next fuel s = FRet (Some p) s'.
Proof.
  intros fuel s p pr Hr Hv. unfold fetch_next.
  destruct (running s) eqn:Erun.
  - unfold fetch_with_fallback. rewrite Hr. unfold sync_and_fetch.
    destruct (latest s) as [l|].
    + destruct (catch_up fuel (fst p) l (fb s)) as [|l' f'|l' f'].
      * left. split; reflexivity.
      * right. eexists. reflexivity.
      * right. rewrite Hv. destruct (fst p <? fst l'); eexists; reflexivity.
    + destruct (recv (fb s)) as [|f'|x f'].
      * left. split; reflexivity.
      * right. eexists. reflexivity.
      * destruct (catch_up fuel (fst p) x f') as [|l' f''|l' f''].
        -- left. split; reflexivity.
        -- right. eexists. reflexivity.
        -- right. rewrite Hv. destruct (fst p <? fst l'); eexists; reflexivity.
  - right. rewrite Hr, Hv. eexists. reflexivity.
Qed.

(* ------------------------------------------------------------------ the catch-up loop on a grid *)
Lemma catch_up_unfold : forall fuel pts l f,
  catch_up fuel pts l f =
  if fst l <? pts then
    match fuel with
    | O => CBlock
    | S fu => match recv f with
              | RBlock => CBlock
              | RErr f' => CNone l f'
              | RSmp x f' => catch_up fu pts x f'
              end
    end
  else CSome l f.
Proof. destruct fuel; reflexivity. Qed.

(* whatever the lag: when the loop ends normally the cached fallback sample is not older than the primary *)
Lemma catch_up_reaches : forall fuel pts l f l' f',
  catch_up fuel pts l f = CSome l' f' -> pts <= fst l'.
Proof.
  induction fuel as [|fu IH]; intros pts l f l' f' H; rewrite catch_up_unfold in H.
  - destruct (fst l <? pts) eqn:E; [discriminate|]. inversion H; subst. lia.
  - destruct (fst l <? pts) eqn:E.
    + destruct (recv f) as [|f1|x f1]; try discriminate. apply (IH _ _ _ _ _ H).
    + inversion H; subst. lia.
Qed.

(* a fallback sample handed out for the primary sample p always carries p's timestamp *)
Lemma fallback_sample_same_ts : forall fuel s p pr o s',
  running s = true -> recv (prim s) = RSmp p pr ->
  fetch_next fuel s = FRet (Some o) s' -> o = p \/ fst o = fst p.
Proof.
  intros fuel s p pr o s' Hrun Hr H. unfold fetch_next in H. rewrite Hrun in H.
  unfold fetch_with_fallback in H. rewrite Hr in H. unfold sync_and_fetch in H.
  assert (Hgo : forall l f, match catch_up fuel (fst p) l f with
            | CBlock => FBlock
            | CNone l' f' => FRet (Some p) (mkF true (Some l') pr f')
            | CSome l' f' => if fst p <? fst l' then FRet (Some p) (mkF true (Some l') pr f')
                             else FRet (Some (if valid (snd p) then p else l')) (mkF true (Some l') pr f')
            end = FRet (Some o) s' -> o = p \/ fst o = fst p).
  { intros l f Hc. destruct (catch_up fuel (fst p) l f) as [|l' f'|l' f'] eqn:Ec; try discriminate.
    - inversion Hc; subst. left; reflexivity.
    - apply catch_up_reaches in Ec. destruct (fst p <? fst l') eqn:El.
      + inversion Hc; subst. left; reflexivity.
      + destruct (valid (snd p)); inversion Hc; subst; [left; reflexivity|right; lia]. }
  destruct (latest s) as [l|].
  - exact (Hgo _ _ H).
  - destruct (recv (fb s)) as [|f'|x f']; try discriminate.
    + inversion H; subst. left; reflexivity.
    + exact (Hgo _ _ H).
Qed.

Lemma catch_up_grid : forall d (q : nat) fuel pts (l : smp) (fs : list smp) c,
  0 < d -> sgrid d (fst l + d) fs -> pts = fst l + Z.of_nat q * d ->
  (q <= length fs)%nat -> (q <= fuel)%nat ->
  catch_up fuel pts l (samples fs c) = CSome (nth q (l :: fs) dflt) (samples (skipn q fs) c).
Proof.
  intros d. induction q as [|q IH]; intros fuel pts l fs c Hd Hg Hp Hq Hf.
  - rewrite catch_up_unfold. replace (fst l <? pts) with false by lia. reflexivity.
  - rewrite catch_up_unfold. replace (fst l <? pts) with true by nia.
    destruct fuel as [|fu]; [lia|]. destruct fs as [|x fs']; [cbn in Hq; lia|].
    rewrite recv_samples_cons. destruct Hg as [Hx Hg]. cbn in Hq.
    rewrite (IH fu pts x fs' c Hd); [reflexivity|rewrite Hx; exact Hg|lia|lia|lia].
Qed.

(* ------------------------------------------------------------------ running fallback, grid streams *)
(* what the term yields for the primary samples [ps] when the head of [ps] stands [z] steps after
   the head of the fallback samples [lfs] (z < 0: the lazily started fallback is still ahead) *)
Fixpoint synced_out (z : Z) (lfs : list smp) (ps : list smp) : list fout :=
  match ps with
  | [] => []
  | p :: ps' =>
      (if z <? 0 then ORet (Some p)
       else ORet (Some (if valid (snd p) then p else nth (Z.to_nat z) lfs dflt)))
      :: synced_out (z + 1) lfs ps'
  end.

Lemma synced_out_shift : forall ps z z2 lfs,
  0 <= z -> 0 <= z2 -> synced_out (z + z2) lfs ps = synced_out z2 (skipn (Z.to_nat z) lfs) ps.
Proof.
  induction ps as [|p ps IH]; intros z z2 lfs Hz Hz2; [reflexivity|].
  cbn [synced_out]. replace (z + z2 <? 0) with false by lia. replace (z2 <? 0) with false by lia.
  rewrite nth_skipn_smp. replace (Z.to_nat z + Z.to_nat z2)%nat with (Z.to_nat (z + z2)) by lia.
  f_equal. replace (z + z2 + 1) with (z + (z2 + 1)) by lia. apply IH; lia.
Qed.

Lemma synced_run : forall d (ps : list smp) z (l : smp) (fs : list smp) pc fc fuel T0,
  0 < d -> sgrid d (fst l + d) fs -> sgrid d T0 ps -> T0 = fst l + z * d ->
  z + Z.of_nat (length ps) <= Z.of_nat (length (l :: fs)) ->
  (length fs <= fuel)%nat ->
  fetch_n fuel (length ps) (mkF true (Some l) (samples ps pc) (samples fs fc)) = synced_out z (l :: fs) ps.
Proof.
  intros d. induction ps as [|p ps IH]; intros z l fs pc fc fuel T0 Hd Hgf Hgp HT Hlen Hfuel; [reflexivity|].
  destruct Hgp as [Hp Hgp]. cbn [length fetch_n synced_out].
  unfold fetch_next. cbn [running]. unfold fetch_with_fallback. cbn [prim]. rewrite recv_samples_cons.
  unfold sync_and_fetch. cbn [latest fb].
  destruct (z <? 0) eqn:Ez.
  - rewrite catch_up_unfold. replace (fst l <? fst p) with false by nia.
    replace (fst p <? fst l) with true by nia.
    f_equal. apply (IH (z + 1) l fs pc fc fuel (T0 + d)); try assumption; [lia|cbn [length] in Hlen |- *; lia].
  - assert (Hq : (Z.to_nat z <= length fs)%nat) by (cbn [length] in Hlen; lia).
    rewrite (catch_up_grid d (Z.to_nat z) fuel (fst p) l fs fc Hd Hgf); [|lia|exact Hq|lia].
    assert (Hlt : (Z.to_nat z < length (l :: fs))%nat) by (cbn [length]; lia).
    assert (Hgl : sgrid d (fst l) (l :: fs)) by (split; [reflexivity|exact Hgf]).
    pose proof (sgrid_nth (l :: fs) d (fst l) (Z.to_nat z) Hgl Hlt) as Hts.
    replace (fst p <? fst (nth (Z.to_nat z) (l :: fs) dflt)) with false by (rewrite Hts; lia).
    f_equal.
    pose proof (sgrid_skipn (Z.to_nat z) d (fst l) (l :: fs) Hgl) as Hsk.
    rewrite (skipn_cons_nth (Z.to_nat z) (l :: fs) Hlt) in Hsk. cbn [skipn] in Hsk. destruct Hsk as [_ Hsk].
    rewrite (IH 1 (nth (Z.to_nat z) (l :: fs) dflt) (skipn (Z.to_nat z) fs) pc fc fuel (T0 + d)); try assumption.
    + replace (z + 1) with (z + 1) by lia. rewrite (synced_out_shift ps z 1 (l :: fs)) by lia.
      rewrite (skipn_cons_nth (Z.to_nat z) (l :: fs) Hlt). reflexivity.
    + rewrite Hts. replace (fst l + Z.of_nat (Z.to_nat z) * d + d) with (fst l + Z.of_nat (Z.to_nat z) * d + d) by lia. exact Hsk.
    + rewrite Hts. lia.
    + cbn [length] in Hlen |- *. rewrite skipn_length. lia.
    + rewrite skipn_length. lia.
Qed.

Lemma synced_out_nth : forall ps z lfs k p,
  nth_error ps k = Some p ->
  nth_error (synced_out z lfs ps) k =
    Some (if z + Z.of_nat k <? 0 then ORet (Some p)
          else ORet (Some (if valid (snd p) then p else nth (Z.to_nat (z + Z.of_nat k)) lfs dflt))).
Proof.
  induction ps as [|p0 ps IH]; intros z lfs k p H; [destruct k; discriminate|].
  destruct k as [|k]; cbn [nth_error synced_out] in *.
  - inversion H; subst. replace (z + Z.of_nat 0) with z by lia. reflexivity.
  - rewrite (IH (z + 1) lfs k p H). replace (z + 1 + Z.of_nat k) with (z + Z.of_nat (S k)) by lia. reflexivity.
Qed.

(* C19_value: once fallback_ts <= primary_ts holds (z >= 0), every later primary sample at T yields
   primary(T) if valid else fallback(T), stamped T *)
Lemma value_after_sync : forall d (ps : list smp) z (l : smp) (fs : list smp) pc fc fuel T0 k (p : smp),
  0 < d -> sgrid d (fst l + d) fs -> sgrid d T0 ps -> T0 = fst l + z * d -> 0 <= z ->
  z + Z.of_nat (length ps) <= Z.of_nat (length (l :: fs)) -> (length fs <= fuel)%nat ->
  nth_error ps k = Some p ->
  exists x, nth_error (l :: fs) (Z.to_nat (z + Z.of_nat k)) = Some x /\ fst x = fst p /\
    nth_error (fetch_n fuel (length ps) (mkF true (Some l) (samples ps pc) (samples fs fc))) k =
      Some (ORet (Some (if valid (snd p) then p else x))).
Proof.
  intros d ps z l fs pc fc fuel T0 k p Hd Hgf Hgp HT Hz Hlen Hfuel Hk.
  assert (Hkl : (k < length ps)%nat) by (apply nth_error_Some; rewrite Hk; discriminate).
  assert (Hlt : (Z.to_nat (z + Z.of_nat k) < length (l :: fs))%nat) by lia.
  exists (nth (Z.to_nat (z + Z.of_nat k)) (l :: fs) dflt).
  split; [apply nth_error_nth'; exact Hlt|]. split.
  - assert (Hgl : sgrid d (fst l) (l :: fs)) by (split; [reflexivity|exact Hgf]).
    rewrite (sgrid_nth (l :: fs) d (fst l) _ Hgl Hlt).
    assert (Hpk : p = nth k ps dflt) by (symmetry; apply nth_error_nth; exact Hk).
    rewrite Hpk, (sgrid_nth ps d T0 k Hgp Hkl). rewrite Z2Nat.id by lia. rewrite HT. ring.
  - rewrite (synced_run d ps z l fs pc fc fuel T0 Hd Hgf Hgp HT Hlen Hfuel).
    rewrite (synced_out_nth ps z (l :: fs) k p Hk). replace (z + Z.of_nat k <? 0) with false by lia. reflexivity.
Qed.

(* ------------------------------------------------------------------ start-up *)
(* the first invalid primary sample p0 starts the fallback and is passed through; from then on the
   term behaves as [synced_out] with the fallback's first sample x0 *)
Lemma startup_run : forall d (p0 : smp) (ps : list smp) (x0 : smp) (fs : list smp) pc fc fuel z,
  0 < d -> valid (snd p0) = false ->
  sgrid d (fst p0 + d) ps -> sgrid d (fst x0 + d) fs ->
  fst p0 + d = fst x0 + z * d ->
  z + Z.of_nat (length ps) <= Z.of_nat (length (x0 :: fs)) -> (length fs <= fuel)%nat ->
  fetch_n fuel (S (length ps)) (fetcher_init (samples (p0 :: ps) pc) (samples (x0 :: fs) fc)) =
    ORet (Some p0) :: synced_out z (x0 :: fs) ps.
Proof.
  intros d p0 ps x0 fs pc fc fuel z Hd Hv Hgp Hgf HT Hlen Hfuel.
  cbn [fetch_n]. unfold fetch_next at 1. cbn [fetcher_init running prim]. rewrite recv_samples_cons. rewrite Hv.
  f_equal. cbn [latest fb].
  destruct ps as [|p1 ps]; [reflexivity|].
  (* the second call receives x0 first, then is exactly the call of a fetcher whose latest is x0 *)
  rewrite <- (synced_run d (p1 :: ps) z x0 fs pc fc fuel (fst p0 + d) Hd Hgf Hgp HT Hlen Hfuel).
  cbn [length fetch_n]. unfold fetch_next. cbn [running]. unfold fetch_with_fallback. cbn [prim].
  rewrite !recv_samples_cons. unfold sync_and_fetch. cbn [latest fb]. rewrite ?recv_samples_cons. reflexivity.
Qed.

(* C19_startup: after the first failure at p0 an invalid primary is passed through only while the
   lazily started fallback is still ahead: for the sample k steps after p0 with  lag <= k  and 1 <= k
   (lag = fallback start lag in steps) the term is right, i.e. at most lag + 1 timestamps are affected *)
Lemma startup_bound : forall d (p0 : smp) (ps : list smp) (x0 : smp) (fs : list smp) pc fc fuel (lag k : nat) (p : smp),
  0 < d -> valid (snd p0) = false ->
  sgrid d (fst p0 + d) ps -> sgrid d (fst x0 + d) fs ->
  fst x0 = fst p0 + Z.of_nat lag * d ->
  (length ps + 1 <= lag + length (x0 :: fs))%nat -> (length fs <= fuel)%nat ->
  (lag <= S k)%nat -> nth_error ps k = Some p ->
  exists x, In x (x0 :: fs) /\ fst x = fst p /\
    nth_error (fetch_n fuel (S (length ps)) (fetcher_init (samples (p0 :: ps) pc) (samples (x0 :: fs) fc))) (S k) =
      Some (ORet (Some (if valid (snd p) then p else x))).
Proof.
  intros d p0 ps x0 fs pc fc fuel lag k p Hd Hv Hgp Hgf Hlag Hlen Hfuel Hk Hp.
  set (z := 1 - Z.of_nat lag).
  assert (HT : fst p0 + d = fst x0 + z * d) by (unfold z; nia).
  assert (Hlen' : z + Z.of_nat (length ps) <= Z.of_nat (length (x0 :: fs))) by (unfold z; cbn [length] in *; lia).
  rewrite (startup_run d p0 ps x0 fs pc fc fuel z Hd Hv Hgp Hgf HT Hlen' Hfuel).
  cbn [nth_error]. rewrite (synced_out_nth ps z (x0 :: fs) k p Hp).
  replace (z + Z.of_nat k <? 0) with false by (unfold z; lia).
  assert (Hkl : (k < length ps)%nat) by (apply nth_error_Some; rewrite Hp; discriminate).
  assert (Hlt : (Z.to_nat (z + Z.of_nat k) < length (x0 :: fs))%nat) by (unfold z in *; cbn [length] in *; lia).
  exists (nth (Z.to_nat (z + Z.of_nat k)) (x0 :: fs) dflt). split; [apply nth_In; exact Hlt|]. split; [|reflexivity].
  assert (Hgl : sgrid d (fst x0) (x0 :: fs)) by (split; [reflexivity|exact Hgf]).
  rewrite (sgrid_nth (x0 :: fs) d (fst x0) _ Hgl Hlt).
  assert (Hpk : p = nth k ps dflt) by (symmetry; apply nth_error_nth; exact Hp).
  rewrite Hpk, (sgrid_nth ps d (fst p0 + d) k Hgp Hkl). rewrite Z2Nat.id by (unfold z; lia). unfold z. rewrite Hlag. ring.
Qed.

(* ------------------------------------------------------------------ the primary stream fails *)
Lemma nth_error_firstn_lt : forall (A : Type) (c k : nat) (l : list A),
  (k < c)%nat -> nth_error (firstn c l) k = nth_error l k.
Proof.
  induction c as [|c IH]; intros k l Hk; [lia|].
  destruct l as [|x l]; [destruct k; reflexivity|].
  destruct k as [|k]; [reflexivity|]. cbn [firstn nth_error]. apply IH. lia.
Qed.

Lemma closed_follows_fallback : forall fuel (c : nat) lat fs fc,
  (c <= length fs)%nat ->
  fetch_n fuel c (mkF true lat (samples [] true) (samples fs fc)) = map (fun x => ORet (Some x)) (firstn c fs).
Proof.
  intros fuel. induction c as [|c IH]; intros lat fs fc Hc; [reflexivity|].
  destruct fs as [|x fs]; [cbn in Hc; lia|].
  cbn [fetch_n firstn map]. unfold fetch_next. cbn [running]. unfold fetch_with_fallback. cbn [prim fb latest].
  change (recv (samples [] true)) with (RErr (samples [] true)). rewrite recv_samples_cons.
  f_equal. apply IH. cbn in Hc. lia.
Qed.

(* not yet started: the call that learns of the failure returns no sample and starts the fallback *)
Lemma closed_starts_fallback : forall fuel (c : nat) fs fc,
  (c <= length fs)%nat ->
  fetch_n fuel (S c) (fetcher_init (samples [] true) (samples fs fc)) =
    ORet None :: map (fun x => ORet (Some x)) (firstn c fs).
Proof.
  intros fuel c fs fc Hc. cbn [fetch_n]. unfold fetch_next at 1. cbn [fetcher_init running prim].
  change (recv (samples [] true)) with (RErr (samples [] true)). cbn iota. cbn [latest fb fetcher_init]. f_equal.
  apply closed_follows_fallback. exact Hc.
Qed.

(* the k-th sample returned after the primary stream failed at t_end is stamped t_end + (k+1) d *)
Definition stamps_follow (d t_end : Z) (outs : list fout) : Prop :=
  forall k x, nth_error outs k = Some (ORet (Some x)) -> fst x = t_end + Z.of_nat (S k) * d.

(* holds when the fallback was synchronised with the primary's last sample ... *)
Lemma closed_synchronised : forall d fuel c (l : smp) (fs : list smp) fc,
  sgrid d (fst l + d) fs -> (c <= length fs)%nat ->
  stamps_follow d (fst l) (fetch_n fuel c (mkF true (Some l) (samples [] true) (samples fs fc))).
Proof.
  intros d fuel c l fs fc Hg Hc k x Hk.
  rewrite (closed_follows_fallback fuel c (Some l) fs fc Hc) in Hk.
  rewrite nth_error_map in Hk. destruct (nth_error (firstn c fs) k) as [y|] eqn:Ey; [|discriminate].
  cbn in Hk. inversion Hk; subst y.
  assert (Hkc : (k < length (firstn c fs))%nat) by (apply nth_error_Some; rewrite Ey; discriminate).
  rewrite firstn_length in Hkc.
  assert (Hx : x = nth k fs dflt).
  { symmetry. apply nth_error_nth. rewrite <- Ey. symmetry. apply nth_error_firstn_lt. lia. }
  rewrite Hx, (sgrid_nth fs d (fst l + d) k Hg ltac:(lia)). lia.
Qed.

(* ... and fails otherwise (known finding C19-stream-failure-unaligned): the primary delivered its last
   sample at 0 and stopped, the fallback (never needed before) starts at 1 *)
Lemma closed_unaligned_refuted :
  exists fuel ps fs, sgrid 1 0 ps /\ sgrid 1 1 fs /\ Forall (fun x => valid (snd x) = true) (ps ++ fs) /\
    ~ stamps_follow 1 0 (skipn (length ps) (fetch_n fuel 4 (fetcher_init (samples ps true) (samples fs false)))).
Proof.
  exists 5%nat, [(0, V 1)], [(1, V 10); (2, V 20); (3, V 30)].
  split; [cbn; intuition|]. split; [cbn; intuition|]. split; [repeat constructor|].
  intro H. specialize (H 1%nat (1, V 10)). cbn in H. specialize (H eq_refl). discriminate.
Qed.
