(* C18 — SoCCalculator / CapacityCalculator: loop characterisation, documented formulas,
   None-iff, range, monotonicity, scale invariance, excluded batteries, permutation. *)
From Coq Require Import QArith Qabs List Bool Lqa Morphisms Setoid Permutation.
From Verif Require Import model.Common gen.Pool model.PoolBounds model.PoolMetrics proofs.PoolBoundsNum.
Import ListNotations.
Open Scope Q_scope.

(* equality of results up to Qeq *)
Definition optQ_eq (a b : option Q) : Prop :=
  match a, b with
  | Some x, Some y => x == y
  | None, None => True
  | _, _ => False
  end.

(* ------------------------------------------------------------------ one battery *)
Definition entry_used (b : bat) : Q := match soc_entry b with Some (u, s) => u * s | None => 0 end.
Definition entry_total (b : bat) : Q := match soc_entry b with Some (u, _) => u | None => 0 end.
Definition entry_cap (b : bat) : Q := match cap_entry b with Some u => u | None => 0 end.

Lemma soc_entry_none : forall b, soc_entry b = None <-> soc_qualifies b = false.
Proof.
  intro b. unfold soc_entry, soc_qualifies.
  destruct (b_working b && b_present b)%bool; cbn [andb]; [|tauto].
  destruct (b_cap b), (b_lo b), (b_hi b), (b_soc b); split; intro; congruence.
Qed.
Lemma soc_entry_some : forall b, soc_qualifies b = true ->
  exists c lo hi s, b_cap b = Some c /\ b_lo b = Some lo /\ b_hi b = Some hi /\ b_soc b = Some s /\
                    soc_entry b = Some (c * (hi - lo), soc_scaled lo hi s).
Proof.
  intros b H. unfold soc_entry, soc_qualifies in *.
  destruct (b_working b && b_present b)%bool; cbn [andb] in H; [|discriminate].
  destruct (b_cap b) as [c|], (b_lo b) as [lo|], (b_hi b) as [hi|], (b_soc b) as [s|]; try discriminate.
  exists c, lo, hi, s. repeat split; reflexivity.
Qed.
Lemma cap_entry_none : forall b, cap_entry b = None <-> cap_qualifies b = false.
Proof.
  intro b. unfold cap_entry, cap_qualifies.
  destruct (b_working b && b_present b)%bool; cbn [andb]; [|tauto].
  destruct (b_cap b), (b_lo b), (b_hi b); split; intro; congruence.
Qed.

(* ------------------------------------------------------------------ the loops are sums *)
Lemma soc_loop_sums : forall bs used total any,
  let r := soc_loop bs used total any in
  fst (fst r) == used + qsumf entry_used bs /\
  snd (fst r) == total + qsumf entry_total bs /\
  snd r = (any || existsb soc_qualifies bs)%bool.
Proof.
  induction bs as [|b bs IH]; intros used total any; cbn [soc_loop qsumf existsb].
  - cbn. repeat split; try lra. now rewrite orb_false_r.
  - unfold entry_used at 1, entry_total at 1.
    destruct (soc_entry b) as [[u s]|] eqn:E.
    + destruct (soc_qualifies b) eqn:HQ; [|apply soc_entry_none in HQ; congruence].
      specialize (IH (used + u * s) (total + u) true). cbv zeta in IH. destruct IH as (A & B & C).
      repeat split; try lra. rewrite C. cbn. now rewrite orb_true_r.
    + pose proof E as HQ. apply soc_entry_none in HQ. rewrite HQ.
      specialize (IH used total any). cbv zeta in IH. destruct IH as (A & B & C).
      repeat split; try lra. exact C.
Qed.

Lemma cap_loop_sums : forall bs total any,
  let r := cap_loop bs total any in
  fst r == total + qsumf entry_cap bs /\ snd r = (any || existsb cap_qualifies bs)%bool.
Proof.
  induction bs as [|b bs IH]; intros total any; cbn [cap_loop qsumf existsb].
  - cbn. split; [lra|now rewrite orb_false_r].
  - unfold entry_cap at 1.
    destruct (cap_entry b) as [u|] eqn:E.
    + destruct (cap_qualifies b) eqn:HQ; [|apply cap_entry_none in HQ; congruence].
      specialize (IH (total + u) true). cbv zeta in IH. destruct IH as (A & C).
      split; [lra|]. rewrite C. cbn. now rewrite orb_true_r.
    + pose proof E as HQ. apply cap_entry_none in HQ. rewrite HQ.
      specialize (IH total any). cbv zeta in IH. destruct IH as (A & C). split; [lra|exact C].
Qed.

Global Instance soc_finish_proper : Proper (Qeq ==> Qeq ==> Qeq) soc_finish.
Proof.
  intros u u' Hu t t' Ht. unfold soc_finish. rewrite Ht.
  destruct (is_close_to_zero t'); [reflexivity|].
  assert (E : u / t == u' / t') by now rewrite Hu, Ht.
  rewrite (isclose_proper _ _ E 100 100 (Qeq_refl _)).
  destruct (isclose (u' / t') 100); [reflexivity|exact E].
Qed.

Lemma soc_calc_char : forall bs,
  match soc_calc bs with
  | Some r => existsb soc_qualifies bs = true /\ r == soc_finish (qsumf entry_used bs) (qsumf entry_total bs)
  | None => existsb soc_qualifies bs = false
  end.
Proof.
  intro bs. unfold soc_calc.
  pose proof (soc_loop_sums bs 0 0 false) as L. cbv zeta in L.
  destruct (soc_loop bs 0 0 false) as [[used total] any]. cbn [fst snd orb] in L. destruct L as (A & B & C).
  subst any. destruct (existsb soc_qualifies bs); [|reflexivity].
  split; [reflexivity|]. apply soc_finish_proper; lra.
Qed.

Lemma cap_calc_char : forall bs,
  match cap_calc bs with
  | Some r => existsb cap_qualifies bs = true /\ r == qsumf entry_cap bs
  | None => existsb cap_qualifies bs = false
  end.
Proof.
  intro bs. unfold cap_calc.
  pose proof (cap_loop_sums bs 0 false) as L. cbv zeta in L.
  destruct (cap_loop bs 0 false) as [total any]. cbn [fst snd orb] in L. destruct L as (A & C).
  subst any. destruct (existsb cap_qualifies bs); [|reflexivity]. split; [reflexivity|lra].
Qed.

(* ------------------------------------------------------------------ None iff nobody qualifies *)
Lemma existsb_false_iff : forall {A} (f : A -> bool) l, existsb f l = false <-> forall x, In x l -> f x = false.
Proof.
  intros A f l. split.
  - intros H x Hx. destruct (f x) eqn:E; [|reflexivity].
    assert (existsb f l = true) by (apply existsb_exists; eauto). congruence.
  - intro H. destruct (existsb f l) eqn:E; [|reflexivity].
    apply existsb_exists in E. destruct E as (x & Hx & Fx). rewrite (H x Hx) in Fx. discriminate.
Qed.

Lemma soc_none_iff : forall bs, soc_calc bs = None <-> forall b, In b bs -> soc_qualifies b = false.
Proof.
  intro bs. rewrite <- existsb_false_iff. pose proof (soc_calc_char bs) as C.
  destruct (soc_calc bs); split; intro H; try congruence. destruct C. congruence.
Qed.
Lemma cap_none_iff : forall bs, cap_calc bs = None <-> forall b, In b bs -> cap_qualifies b = false.
Proof.
  intro bs. rewrite <- existsb_false_iff. pose proof (cap_calc_char bs) as C.
  destruct (cap_calc bs); split; intro H; try congruence. destruct C. congruence.
Qed.

(* ------------------------------------------------------------------ sums *)
Lemma qsumf_ext : forall {A} (f g : A -> Q) l, (forall x, In x l -> f x == g x) -> qsumf f l == qsumf g l.
Proof.
  induction l as [|x l IH]; intro H; cbn [qsumf]; [reflexivity|].
  rewrite (H x (or_introl eq_refl)), IH; [reflexivity|]. intros; apply H; now right.
Qed.
Lemma qsumf_le : forall {A} (f g : A -> Q) l, (forall x, In x l -> f x <= g x) -> qsumf f l <= qsumf g l.
Proof.
  induction l as [|x l IH]; intro H; cbn [qsumf]; [lra|].
  pose proof (H x (or_introl eq_refl)). assert (qsumf f l <= qsumf g l) by (apply IH; intros; apply H; now right). lra.
Qed.
Lemma qsumf_scale : forall {A} (f : A -> Q) k l, qsumf (fun x => k * f x) l == k * qsumf f l.
Proof. induction l as [|x l IH]; cbn [qsumf]; [lra|]. rewrite IH. lra. Qed.
Lemma qsumf_nonneg : forall {A} (f : A -> Q) l, (forall x, In x l -> 0 <= f x) -> 0 <= qsumf f l.
Proof.
  induction l as [|x l IH]; intro H; cbn [qsumf]; [lra|].
  pose proof (H x (or_introl eq_refl)). assert (0 <= qsumf f l) by (apply IH; intros; apply H; now right). lra.
Qed.
Lemma qsumf_filter : forall {A} (q : A -> bool) (f : A -> Q) l,
  (forall x, In x l -> q x = false -> f x == 0) -> qsumf f (filter q l) == qsumf f l.
Proof.
  induction l as [|x l IH]; intro H; cbn [filter qsumf]; [reflexivity|].
  assert (IH' : qsumf f (filter q l) == qsumf f l) by (apply IH; intros; apply H; [now right|assumption]).
  destruct (q x) eqn:E; cbn [qsumf].
  - rewrite IH'. reflexivity.
  - rewrite (H x (or_introl eq_refl) E), IH'. lra.
Qed.
Lemma qsumf_perm : forall {A} (f : A -> Q) l l', Permutation l l' -> qsumf f l == qsumf f l'.
Proof.
  induction 1; cbn [qsumf]; try lra.
Qed.
Lemma qsumf_map : forall {A B} (g : A -> B) (f : B -> Q) l, qsumf f (map g l) = qsumf (fun x => f (g x)) l.
Proof. induction l as [|x l IH]; cbn [map qsumf]; [reflexivity|]. now rewrite IH. Qed.
Lemma existsb_perm : forall {A} (f : A -> bool) l l', Permutation l l' -> existsb f l = existsb f l'.
Proof.
  induction 1; cbn [existsb]; try congruence.
  destruct (f x), (f y); reflexivity.
Qed.

(* ------------------------------------------------------------------ clamp / scaled SoC *)
Lemma clamp_range : forall x, 0 <= pmin (pmax x 0) 100 <= 100.
Proof.
  intro x. split.
  - apply pmin_glb; [apply pmax_r|lra].
  - apply pmin_r.
Qed.
Lemma clamp_mono : forall x y, x <= y -> pmin (pmax x 0) 100 <= pmin (pmax y 0) 100.
Proof. intros. apply pmin_mono; [apply pmax_mono|]; lra. Qed.

Lemma soc_scaled_range : forall lo hi s, 0 <= soc_scaled lo hi s <= 100.
Proof. intros. unfold soc_scaled. apply clamp_range. Qed.

Lemma isclose_refl : forall x y, x == y -> isclose x y = true.
Proof.
  intros x y E. unfold isclose, py_isclose. apply Qle_bool_iff.
  assert (Z : x - y == 0) by lra. rewrite Z. cbn [Qabs Z.abs Qnum Qden].
  eapply Qle_trans; [|apply pmax_r]. lra.
Qed.

Lemma soc_scaled_mono : forall lo hi s s', lo <= hi -> s <= s' -> soc_scaled lo hi s <= soc_scaled lo hi s'.
Proof.
  intros lo hi s s' L S. unfold soc_scaled.
  destruct (isclose hi lo) eqn:C; apply clamp_mono.
  - destruct (Qltb s lo) eqn:A, (Qltb s' lo) eqn:B; qb A; qb B; lra.
  - assert (P : 0 < hi - lo).
    { destruct (Qlt_le_dec lo hi) as [|G]; [lra|]. assert (E : hi == lo) by lra.
      rewrite (isclose_refl _ _ E) in C. discriminate. }
    apply Qmult_le_compat_r; [|lra].
    unfold Qdiv. apply Qmult_le_compat_r; [lra|].
    apply Qlt_le_weak, Qinv_lt_0_compat, P.
Qed.

(* ------------------------------------------------------------------ well-formed batteries *)
(* capacity >= 0 and soc_lower_bound <= soc_upper_bound for the batteries that count *)
Definition wf_bat (b : bat) : Prop :=
  soc_qualifies b = true -> oq (b_lo b) <= oq (b_hi b) /\ 0 <= oq (b_cap b).

Lemma entry_total_nonneg : forall b, wf_bat b -> 0 <= entry_total b.
Proof.
  intros b W. unfold entry_total. destruct (soc_entry b) as [[u s]|] eqn:E; [|lra].
  destruct (soc_qualifies b) eqn:HQ; [|apply soc_entry_none in HQ; congruence].
  destruct (soc_entry_some b HQ) as (c & lo & hi & s0 & Ec & El & Eh & Es & Ee).
  rewrite Ee in E. injection E as <- <-.
  destruct (W HQ) as [A B]. rewrite Ec, El, Eh in *. cbn in A, B. nra.
Qed.

Lemma entry_used_range : forall b, wf_bat b -> 0 <= entry_used b <= 100 * entry_total b.
Proof.
  intros b W. pose proof (entry_total_nonneg b W) as T. unfold entry_used, entry_total in *.
  destruct (soc_entry b) as [[u s]|] eqn:E; [|lra].
  destruct (soc_qualifies b) eqn:HQ; [|apply soc_entry_none in HQ; congruence].
  destruct (soc_entry_some b HQ) as (c & lo & hi & s0 & _ & _ & _ & _ & Ee).
  rewrite Ee in E. injection E as <- <-.
  pose proof (soc_scaled_range lo hi s0). nra.
Qed.

(* ------------------------------------------------------------------ the final division *)
Lemma soc_finish_range : forall u t, 0 <= t -> 0 <= u <= 100 * t -> 0 <= soc_finish u t <= 100.
Proof.
  intros u t T [U1 U2]. unfold soc_finish.
  destruct (is_close_to_zero t) eqn:Z; [lra|].
  apply is_close_to_zero_false in Z. pose proof abs_tol_pos.
  assert (P : 0 < t).
  { destruct (Qlt_le_dec 0 t); [assumption|]. assert (E : t == 0) by lra. rewrite E in Z. cbn in Z. lra. }
  destruct (isclose (u / t) 100); [lra|].
  split.
  - apply Qle_shift_div_l; [assumption|lra].
  - apply Qle_shift_div_r; [assumption|lra].
Qed.

Lemma isclose_100_upward : forall x y, 0 <= x -> x <= y -> y <= 100 -> isclose x 100 = true -> isclose y 100 = true.
Proof.
  intros x y X XY Y H. unfold isclose, py_isclose in *. qb H. apply Qle_bool_iff.
  assert (A : Qabs (y - 100) <= Qabs (x - 100)).
  { rewrite (Qabs_neg (y - 100)), (Qabs_neg (x - 100)); lra. }
  assert (B : Qabs (isclose_rel_tol * x) <= Qabs (isclose_rel_tol * y)).
  { rewrite !Qabs_pos.
    - apply Qmult_le_l; [reflexivity|assumption].
    - apply Qmult_le_0_compat; [discriminate|lra].
    - apply Qmult_le_0_compat; [discriminate|lra]. }
  eapply Qle_trans; [exact A|]. eapply Qle_trans; [exact H|].
  apply pmax_mono; [|lra]. apply pmax_mono; [lra|exact B].
Qed.

Lemma soc_finish_mono : forall u u' t, 0 <= t -> 0 <= u -> u <= u' -> u' <= 100 * t ->
  soc_finish u t <= soc_finish u' t.
Proof.
  intros u u' t T U UU U'. unfold soc_finish.
  destruct (is_close_to_zero t) eqn:Z; [lra|].
  apply is_close_to_zero_false in Z. pose proof abs_tol_pos.
  assert (P : 0 < t).
  { destruct (Qlt_le_dec 0 t); [assumption|]. assert (E : t == 0) by lra. rewrite E in Z. cbn in Z. lra. }
  assert (D : u / t <= u' / t).
  { unfold Qdiv. apply Qmult_le_compat_r; [assumption|]. apply Qlt_le_weak, Qinv_lt_0_compat, P. }
  assert (R0 : 0 <= u / t) by (apply Qle_shift_div_l; [assumption|lra]).
  assert (R1 : u' / t <= 100) by (apply Qle_shift_div_r; [assumption|lra]).
  destruct (isclose (u / t) 100) eqn:C.
  - rewrite (isclose_100_upward (u / t) (u' / t) R0 D R1 C). lra.
  - destruct (isclose (u' / t) 100); lra.
Qed.

(* ------------------------------------------------------------------ range *)
Lemma soc_range : forall bs r, (forall b, In b bs -> wf_bat b) -> soc_calc bs = Some r -> 0 <= r <= 100.
Proof.
  intros bs r W H. pose proof (soc_calc_char bs) as C. rewrite H in C. destruct C as [_ E]. rewrite E.
  apply soc_finish_range.
  - apply qsumf_nonneg. intros b Hb. apply entry_total_nonneg; auto.
  - split.
    + apply qsumf_nonneg. intros b Hb. apply entry_used_range; auto.
    + rewrite <- qsumf_scale. apply qsumf_le. intros b Hb. apply entry_used_range; auto.
Qed.

(* ------------------------------------------------------------------ documented formulas *)
(* no battery has distinct limits that math.isclose treats as equal *)
Definition limits_ok (b : bat) : Prop :=
  soc_qualifies b = true -> isclose (oq (b_hi b)) (oq (b_lo b)) = true -> oq (b_hi b) == oq (b_lo b).

Lemma pmax_comm : forall a b, pmax a b == pmax b a.
Proof. intros. unfold pmax. destruct (Qltb a b) eqn:A, (Qltb b a) eqn:B; qb A; qb B; lra. Qed.

Lemma entry_total_doc : forall b, soc_qualifies b = true -> entry_total b == 100 * doc_usable b.
Proof.
  intros b HQ. destruct (soc_entry_some b HQ) as (c & lo & hi & s & Ec & El & Eh & Es & Ee).
  unfold entry_total, doc_usable. rewrite Ee, Ec, El, Eh. cbn [oq default]. field.
Qed.

Lemma entry_used_doc : forall b, soc_qualifies b = true -> limits_ok b ->
  entry_used b == 100 * (doc_usable b * doc_scaled b).
Proof.
  intros b HQ L. destruct (soc_entry_some b HQ) as (c & lo & hi & s & Ec & El & Eh & Es & Ee).
  unfold entry_used, doc_usable, doc_scaled. specialize (L HQ). rewrite Ee, Ec, El, Eh, Es in *. cbn [oq default] in *.
  unfold soc_scaled. destruct (isclose hi lo) eqn:C.
  - specialize (L eq_refl). assert (Z : hi - lo == 0) by lra.
    match goal with |- _ * _ * ?x == 100 * (_ * _ / 100 * ?y) => generalize x; generalize y end.
    intros y x. rewrite Z. field.
  - rewrite (pmax_comm 0). field.
Qed.

Lemma used_sum_doc : forall bs, (forall b, In b bs -> limits_ok b) -> qsumf entry_used bs == 100 * doc_used bs.
Proof.
  intros bs L. unfold doc_used. rewrite <- qsumf_scale.
  rewrite <- (qsumf_filter soc_qualifies entry_used bs).
  - apply qsumf_ext. intros b Hb. apply filter_In in Hb. destruct Hb. apply entry_used_doc; auto.
  - intros b _ HQ. apply soc_entry_none in HQ. unfold entry_used. rewrite HQ. reflexivity.
Qed.

Lemma total_sum_doc : forall bs, qsumf entry_total bs == 100 * doc_total bs.
Proof.
  intros bs. unfold doc_total. rewrite <- qsumf_scale.
  rewrite <- (qsumf_filter soc_qualifies entry_total bs).
  - apply qsumf_ext. intros b Hb. apply filter_In in Hb. destruct Hb. apply entry_total_doc; auto.
  - intros b _ HQ. apply soc_entry_none in HQ. unfold entry_total. rewrite HQ. reflexivity.
Qed.

(* SoC = documented usable-capacity-weighted mean (snapped to 100 when within isclose of it),
   whenever the zero-capacity guard does not fire; 0 when it does *)
Lemma soc_spec : forall bs r, (forall b, In b bs -> limits_ok b) -> soc_calc bs = Some r ->
  (is_close_to_zero (100 * doc_total bs) = false -> r == snap100 (doc_soc bs)) /\
  (is_close_to_zero (100 * doc_total bs) = true -> r == 0).
Proof.
  intros bs r L H. pose proof (soc_calc_char bs) as C. rewrite H in C. destruct C as [_ E].
  rewrite (used_sum_doc bs L), (total_sum_doc bs) in E. unfold soc_finish in E.
  split; intro Z; rewrite Z in E; [|exact E].
  assert (NZ : ~ doc_total bs == 0).
  { intro E0. rewrite E0 in Z. discriminate. }
  assert (D : 100 * doc_used bs / (100 * doc_total bs) == doc_soc bs).
  { unfold doc_soc. field. exact NZ. }
  unfold snap100. rewrite (isclose_proper _ _ D 100 100 (Qeq_refl _)) in E.
  destruct (isclose (doc_soc bs) 100); [exact E|]. now rewrite E.
Qed.

Lemma cap_sum_doc : forall bs, qsumf entry_cap bs == doc_capacity bs.
Proof.
  intros bs. unfold doc_capacity.
  rewrite <- (qsumf_filter cap_qualifies entry_cap bs).
  - apply qsumf_ext. intros b Hb. apply filter_In in Hb. destruct Hb as [_ HQ].
    unfold entry_cap, cap_entry, doc_usable. unfold cap_qualifies in HQ.
    destruct (b_working b && b_present b)%bool; cbn [andb] in HQ; [|discriminate].
    destruct (b_cap b), (b_lo b), (b_hi b); try discriminate. reflexivity.
  - intros b _ HQ. apply cap_entry_none in HQ. unfold entry_cap. rewrite HQ. reflexivity.
Qed.

Lemma cap_spec : forall bs r, cap_calc bs = Some r -> r == doc_capacity bs.
Proof.
  intros bs r H. pose proof (cap_calc_char bs) as C. rewrite H in C. destruct C as [_ E].
  now rewrite E, cap_sum_doc.
Qed.

(* ------------------------------------------------------------------ monotone in every SoC *)
(* b' is b with a SoC that is not smaller (all other fields identical) *)
Definition soc_raised (b b' : bat) : Prop :=
  b_working b' = b_working b /\ b_present b' = b_present b /\ b_cap b' = b_cap b /\
  b_lo b' = b_lo b /\ b_hi b' = b_hi b /\
  match b_soc b, b_soc b' with
  | Some s, Some s' => s <= s'
  | None, None => True
  | _, _ => False
  end.

Lemma raised_qualifies : forall b b', soc_raised b b' -> soc_qualifies b' = soc_qualifies b.
Proof.
  intros b b' (A & B & C & D & E & F). unfold soc_qualifies. rewrite A, B, C, D, E.
  destruct (b_soc b), (b_soc b'); try contradiction; reflexivity.
Qed.

Lemma raised_entries : forall b b', wf_bat b -> soc_raised b b' ->
  entry_total b' == entry_total b /\ entry_used b <= entry_used b'.
Proof.
  intros b b' W R. pose proof (raised_qualifies b b' R) as RQ.
  pose proof (entry_total_nonneg b W) as TN.
  destruct (soc_qualifies b) eqn:HQ.
  - destruct (soc_entry_some b HQ) as (c & lo & hi & s & Ec & El & Eh & Es & Ee).
    destruct (soc_entry_some b' RQ) as (c' & lo' & hi' & s' & Ec' & El' & Eh' & Es' & Ee').
    destruct R as (_ & _ & C & D & E & F). rewrite Es, Es' in F.
    rewrite C, Ec in Ec'. rewrite D, El in El'. rewrite E, Eh in Eh'.
    injection Ec' as <-. injection El' as <-. injection Eh' as <-.
    destruct (W HQ) as [LH _]. rewrite El, Eh in LH. cbn in LH.
    unfold entry_total, entry_used in *. rewrite Ee in *. rewrite Ee'.
    split; [reflexivity|].
    pose proof (soc_scaled_mono lo hi s s' LH F). nra.
  - apply soc_entry_none in HQ. apply soc_entry_none in RQ.
    unfold entry_total, entry_used. rewrite HQ, RQ. split; lra.
Qed.

Lemma raised_wf : forall b b', soc_raised b b' -> wf_bat b -> wf_bat b'.
Proof.
  intros b b' R W HQ. rewrite (raised_qualifies b b' R) in HQ. specialize (W HQ).
  destruct R as (_ & _ & C & D & E & _). now rewrite C, D, E.
Qed.

Lemma soc_monotone : forall bs bs' r r',
  (forall b, In b bs -> wf_bat b) -> Forall2 soc_raised bs bs' ->
  soc_calc bs = Some r -> soc_calc bs' = Some r' -> r <= r'.
Proof.
  intros bs bs' r r' W F H H'.
  pose proof (soc_calc_char bs) as C. rewrite H in C. destruct C as [_ E].
  pose proof (soc_calc_char bs') as C'. rewrite H' in C'. destruct C' as [_ E'].
  rewrite E, E'.
  assert (S : qsumf entry_total bs' == qsumf entry_total bs /\ qsumf entry_used bs <= qsumf entry_used bs' /\
              (forall b, In b bs' -> wf_bat b)).
  { clear - W F. induction F as [|x x' l l' R F' IH]; cbn [qsumf].
    - split; [lra|split; [lra|]]. intros y [].
    - destruct IH as (A & B & C); [intros; apply W; now right|].
      destruct (raised_entries x x' (W x (or_introl eq_refl)) R) as [T U].
      split; [lra|split; [lra|]].
      intros y [<-|Hy]; [eapply raised_wf; eauto; apply W; now left|auto]. }
  destruct S as (ST & SU & W').
  rewrite (soc_finish_proper _ _ (Qeq_refl _) _ _ ST).
  apply soc_finish_mono.
  - apply qsumf_nonneg. intros b Hb. apply entry_total_nonneg; auto.
  - apply qsumf_nonneg. intros b Hb. apply entry_used_range; auto.
  - exact SU.
  - rewrite <- ST, <- qsumf_scale. apply qsumf_le. intros b Hb. apply entry_used_range; auto.
Qed.

(* ------------------------------------------------------------------ scaling all capacities *)
Lemma scale_entries : forall k b,
  soc_qualifies (mkBat (b_working b) (b_present b) (match b_cap b with Some c => Some (k * c) | None => None end)
                       (b_lo b) (b_hi b) (b_soc b)) = soc_qualifies b /\
  entry_total (mkBat (b_working b) (b_present b) (match b_cap b with Some c => Some (k * c) | None => None end)
                     (b_lo b) (b_hi b) (b_soc b)) == k * entry_total b /\
  entry_used (mkBat (b_working b) (b_present b) (match b_cap b with Some c => Some (k * c) | None => None end)
                    (b_lo b) (b_hi b) (b_soc b)) == k * entry_used b.
Proof.
  intros k [w p c lo hi s]. unfold soc_qualifies, entry_total, entry_used, soc_entry. cbn [b_working b_present b_cap b_lo b_hi b_soc].
  destruct (w && p)%bool; cbn [andb]; [|repeat split; lra].
  destruct c, lo, hi, s; repeat split; try reflexivity; try lra.
Qed.

Lemma scale_sums : forall k bs,
  existsb soc_qualifies (scale_caps k bs) = existsb soc_qualifies bs /\
  qsumf entry_total (scale_caps k bs) == k * qsumf entry_total bs /\
  qsumf entry_used (scale_caps k bs) == k * qsumf entry_used bs.
Proof.
  intros k bs. unfold scale_caps. induction bs as [|b bs (A & B & C)]; cbn [map existsb qsumf].
  - repeat split; lra.
  - destruct (scale_entries k b) as (X & Y & Z). rewrite X, A, Y, Z, B, C. repeat split; lra.
Qed.

Lemma soc_finish_scale : forall k u t, 0 < k -> is_close_to_zero (k * t) = is_close_to_zero t ->
  soc_finish (k * u) (k * t) == soc_finish u t.
Proof.
  intros k u t K Z. unfold soc_finish. rewrite Z.
  destruct (is_close_to_zero t) eqn:Zt; [reflexivity|].
  assert (NZ : ~ t == 0).
  { intro E0. rewrite E0 in Zt. discriminate. }
  assert (D : k * u / (k * t) == u / t) by (field; split; [exact NZ|lra]).
  rewrite (isclose_proper _ _ D 100 100 (Qeq_refl _)).
  destruct (isclose (u / t) 100); [reflexivity|exact D].
Qed.

(* Scaling every capacity by k > 0 leaves the SoC unchanged provided the zero-capacity guard
   (an ABSOLUTE tolerance on the total usable capacity x 100) answers the same before and after. *)
Lemma soc_scale : forall k bs, 0 < k ->
  is_close_to_zero (k * qsumf entry_total bs) = is_close_to_zero (qsumf entry_total bs) ->
  optQ_eq (soc_calc (scale_caps k bs)) (soc_calc bs).
Proof.
  intros k bs K Z. destruct (scale_sums k bs) as (A & B & C).
  pose proof (soc_calc_char bs) as H. pose proof (soc_calc_char (scale_caps k bs)) as H'.
  rewrite A in H'.
  destruct (soc_calc bs) as [r|], (soc_calc (scale_caps k bs)) as [r'|]; cbn [optQ_eq];
    try (destruct H; congruence); try (destruct H'; congruence); [|exact I].
  destruct H as [_ E]. destruct H' as [_ E']. rewrite E, E'.
  rewrite (soc_finish_proper _ _ C _ _ B). now apply soc_finish_scale.
Qed.

(* ------------------------------------------------------------------ excluded batteries *)
Lemma soc_loop_filter : forall bs u t a, soc_loop bs u t a = soc_loop (filter soc_qualifies bs) u t a.
Proof.
  induction bs as [|b bs IH]; intros u t a; cbn [filter soc_loop]; [reflexivity|].
  destruct (soc_qualifies b) eqn:HQ.
  - cbn [soc_loop]. destruct (soc_entry b) as [[x y]|]; apply IH.
  - apply soc_entry_none in HQ. rewrite HQ. apply IH.
Qed.
Lemma cap_loop_filter : forall bs t a, cap_loop bs t a = cap_loop (filter cap_qualifies bs) t a.
Proof.
  induction bs as [|b bs IH]; intros t a; cbn [filter cap_loop]; [reflexivity|].
  destruct (cap_qualifies b) eqn:HQ.
  - cbn [cap_loop]. destruct (cap_entry b); apply IH.
  - apply cap_entry_none in HQ. rewrite HQ. apply IH.
Qed.

(* the result is a function of the qualifying batteries only (syntactic equality) *)
Lemma soc_excluded : forall bs, soc_calc bs = soc_calc (filter soc_qualifies bs).
Proof. intro bs. unfold soc_calc. now rewrite soc_loop_filter. Qed.
Lemma cap_excluded : forall bs, cap_calc bs = cap_calc (filter cap_qualifies bs).
Proof. intro bs. unfold cap_calc. now rewrite cap_loop_filter. Qed.

Lemma soc_excluded_one : forall l1 b l2, soc_qualifies b = false -> soc_calc (l1 ++ b :: l2) = soc_calc (l1 ++ l2).
Proof.
  intros l1 b l2 HQ. rewrite (soc_excluded (l1 ++ b :: l2)), (soc_excluded (l1 ++ l2)).
  rewrite !filter_app. cbn [filter]. now rewrite HQ.
Qed.
Lemma cap_excluded_one : forall l1 b l2, cap_qualifies b = false -> cap_calc (l1 ++ b :: l2) = cap_calc (l1 ++ l2).
Proof.
  intros l1 b l2 HQ. rewrite (cap_excluded (l1 ++ b :: l2)), (cap_excluded (l1 ++ l2)).
  rewrite !filter_app. cbn [filter]. now rewrite HQ.
Qed.

(* ------------------------------------------------------------------ order of iteration *)
Lemma soc_permutation : forall bs bs', Permutation bs bs' -> optQ_eq (soc_calc bs) (soc_calc bs').
Proof.
  intros bs bs' P.
  pose proof (soc_calc_char bs) as H. pose proof (soc_calc_char bs') as H'.
  rewrite <- (existsb_perm soc_qualifies bs bs' P) in H'.
  destruct (soc_calc bs) as [r|], (soc_calc bs') as [r'|]; cbn [optQ_eq];
    try (destruct H; congruence); try (destruct H'; congruence); [|exact I].
  destruct H as [_ E]. destruct H' as [_ E']. rewrite E, E'.
  apply soc_finish_proper; apply qsumf_perm; assumption.
Qed.
Lemma cap_permutation : forall bs bs', Permutation bs bs' -> optQ_eq (cap_calc bs) (cap_calc bs').
Proof.
  intros bs bs' P.
  pose proof (cap_calc_char bs) as H. pose proof (cap_calc_char bs') as H'.
  rewrite <- (existsb_perm cap_qualifies bs bs' P) in H'.
  destruct (cap_calc bs) as [r|], (cap_calc bs') as [r'|]; cbn [optQ_eq];
    try (destruct H; congruence); try (destruct H'; congruence); [|exact I].
  destruct H as [_ E]. destruct H' as [_ E']. rewrite E, E'. apply qsumf_perm; assumption.
Qed.
