(* When no battery group's proportional share falls below its minimum power (no "deficit" entry after
   the reservation loop) the two run-time side conditions of the lower-bound theorems hold:
   the proportional shares never add up to more than the request. *)
From Coq Require Import QArith Qabs Lqa Lia List Bool Permutation.
From Verif Require Import model.Dist proofs.DistFacts proofs.DistBounds proofs.DistTop.
Import ListNotations.
Open Scope Q_scope.

Definition rsum (l : list entry) : Q := qsum (map e_ratio l).
Definition psum (l : list slot) : Q := qsum (map slot_power l).

Lemma share_le a r rho : 0 <= a -> 0 <= r -> r <= rho -> 0 < rho -> a * r / rho <= a.
Proof.
  intros Ha Hr Hle Hrho.
  assert (K1 : 0 <= r / rho) by (apply Qle_shift_div_l; lra).
  assert (K2 : r / rho <= 1) by (apply Qle_shift_div_r; lra).
  assert (E : a * r / rho == a * (r / rho)) by (field; lra).
  rewrite E. nra.
Qed.

Lemma czero_false_pos v : czero v = false -> 0 <= v -> eps < v.
Proof.
  intros H Hv. unfold czero in H. apply Qle_bool_false in H. rewrite Qabs_pos in H; auto.
Qed.

Lemma deficits_cons s l : deficits_of (s :: l) = [] ->
  (forall d, s_kind s <> KDeficit d) /\ deficits_of l = [].
Proof.
  unfold deficits_of; cbn [flat_map]. intro H. apply app_eq_nil in H. destruct H as [H1 H2]. split; auto.
  intros d E. rewrite E in H1. discriminate.
Qed.

Lemma reserve_sum_le p sr : forall l R U,
  0 <= p - R -> rsum l <= sr - U ->
  (forall x, In x l -> 0 <= e_ratio x /\ e_min x <= e_upper x) ->
  deficits_of (reserve p sr R U l) = [] ->
  psum (reserve p sr R U l) <= p - R.
Proof.
  induction l as [|x t IH]; intros R U HR HU Hl Hd; [unfold psum; cbn; lra|].
  assert (Hx : 0 <= e_ratio x /\ e_min x <= e_upper x) by (apply Hl; cbn; auto).
  assert (Ht : forall y, In y t -> 0 <= e_ratio y /\ e_min y <= e_upper y) by (intros; apply Hl; cbn; auto).
  assert (Hrt : 0 <= rsum t).
  { unfold rsum. apply qsum_nonneg. intros v Hv. apply in_map_iff in Hv. destruct Hv as (y & <- & Hy). now apply Ht. }
  unfold rsum in HU; cbn [map] in HU; rewrite qsum_cons in HU. fold (rsum t) in HU.
  destruct Hx as [Hr Hmu]. cbn [reserve] in *.
  destruct (czero (sr - U) || czero (e_ratio x)) eqn:Z.
  - apply deficits_cons in Hd. destruct Hd as [_ Hd].
    unfold psum; cbn [map]; rewrite qsum_cons. fold (psum (reserve p sr R U t)).
    assert (rsum t <= sr - U) by lra. specialize (IH R U HR H Ht Hd).
    unfold slot_power; cbn [s_kind]. lra.
  - apply orb_false_iff in Z. destruct Z as [Z1 Z2].
    assert (Hrho : 0 < sr - U). { assert (0 <= sr - U) by lra. pose proof (czero_false_pos _ Z1 H). pose proof eps_pos. lra. }
    set (c := (p - R) * e_ratio x / (sr - U)) in *.
    assert (Hc : c <= p - R) by (apply share_le; lra).
    apply deficits_cons in Hd. destruct Hd as [Hk Hd]. cbn [s_kind] in Hk.
    unfold psum; cbn [map]; rewrite qsum_cons. fold (psum (reserve p sr (R + qmax c (e_min x)) (U + e_ratio x) t)).
    unfold slot_power at 1; cbn [s_kind s_min].
    destruct (Qlt_bool (e_upper x) c) eqn:A.
    + apply Qlt_bool_iff in A.
      assert (Q : qmax c (e_min x) = c) by (destruct (qmax_spec c (e_min x)) as [[? ->]|[? ?]]; auto; lra).
      rewrite Q in *.
      assert (H1 : 0 <= p - (R + c)) by lra. assert (H2 : rsum t <= sr - (U + e_ratio x)) by lra.
      specialize (IH _ _ H1 H2 Ht Hd). lra.
    + destruct (Qlt_bool c (e_min x)) eqn:B; [exfalso; eapply Hk; reflexivity|].
      apply Qlt_bool_false in B.
      assert (Q : qmax c (e_min x) = c) by (destruct (qmax_spec c (e_min x)) as [[? ->]|[? ?]]; auto; lra).
      rewrite Q in *.
      assert (H1 : 0 <= p - (R + c)) by lra. assert (H2 : rsum t <= sr - (U + e_ratio x)) by lra.
      specialize (IH _ _ H1 H2 Ht Hd). lra.
Qed.

Lemma qsum_perm l l' : Permutation l l' -> qsum l == qsum l'.
Proof.
  induction 1; try reflexivity.
  - rewrite !qsum_cons. lra.
  - rewrite !qsum_cons. lra.
  - lra.
Qed.

Lemma rsum_entries gs : rsum (entries gs) == sum_ratio gs.
Proof.
  unfold rsum, entries, sum_ratio. rewrite (qsum_perm _ _ (Permutation_map e_ratio (sort_entries_perm _))).
  rewrite map_map. reflexivity.
Qed.

Definition ratio_ok (g : pgroup) : Prop := 0 <= pg_factor g /\ 0 < pg_cap g.

Lemma total_cap_pos gs : gs <> [] -> (forall g, In g gs -> ratio_ok g) -> 0 < total_cap gs.
Proof.
  unfold total_cap. induction gs as [|g t IH]; [congruence|]. intros _ H. cbn [map]. rewrite qsum_cons.
  assert (0 < pg_cap g) by (apply H; cbn; auto).
  destruct t as [|g' t']; [cbn; lra|].
  assert (0 < qsum (map pg_cap (g' :: t'))) by (apply IH; [congruence|intros; apply H; cbn; auto]). lra.
Qed.

Lemma entry_ratio_nonneg gs x : (forall g, In g gs -> ratio_ok g) -> In x (entries gs) -> 0 <= e_ratio x.
Proof.
  intros H Hx. unfold entries in Hx. apply sort_entries_in in Hx. apply in_map_iff in Hx.
  destruct Hx as (g & <- & Hg). unfold mk_entry; cbn [e_ratio].
  assert (0 < total_cap gs) by (apply total_cap_pos; auto; destruct gs; [destruct Hg|congruence]).
  destruct (H g Hg) as [Hf Hc].
  assert (0 <= pg_cap g / total_cap gs) by (apply Qle_shift_div_l; lra).
  nra.
Qed.

Definition no_deficit (gs : list pgroup) (p : Q) : Prop := deficits_of (reserved_slots gs p) = [].

Lemma no_deficit_lower_ok gs p :
  wf_pgs gs -> (forall g, In g gs -> ratio_ok g) -> 0 <= p -> no_deficit gs p -> lower_ok gs p.
Proof.
  intros Hwf Hr Hp Hd. unfold no_deficit in Hd.
  assert (C : fst (covered_slots gs p) = reserved_slots gs p) by (unfold covered_slots; rewrite Hd; reflexivity).
  split.
  - unfold exact_cover. rewrite C. unfold reserved_slots. apply (reserve_nonneg (total_cap gs)). now apply entries_ok.
  - unfold left_over, assigned. rewrite C. unfold apply_excess. rewrite map_map. cbn [gp_power].
    change (qsum (map (fun x => slot_power x) (reserved_slots gs p))) with (psum (reserved_slots gs p)).
    assert (psum (reserved_slots gs p) <= p - 0); [|lra].
    unfold reserved_slots in *. apply reserve_sum_le; auto; try lra.
    + rewrite rsum_entries. lra.
    + intros x Hx. split; [eapply entry_ratio_nonneg; eauto|].
      destruct (entries_ok gs Hwf x Hx) as (W & -> & -> & _). now destruct W as (_ & _ & ?).
Qed.

(* ---------------------------------------------------------------- on the original data *)
Definition deficit_free (powf : Q -> Q) (gs : list group) (p : Q) : Prop := no_deficit (pgs_of powf gs p) (mag p).

Lemma qsum_pos l : l <> [] -> (forall x, In x l -> 0 < x) -> 0 < qsum l.
Proof.
  induction l as [|x t IH]; [congruence|]. intros _ H. rewrite qsum_cons.
  assert (0 < x) by (apply H; cbn; auto). destruct t as [|y t']; [cbn; lra|].
  assert (0 < qsum (y :: t')) by (apply IH; [congruence|intros; apply H; cbn; auto]). lra.
Qed.

Lemma prepare_ratio_ok supply powf g :
  wf_group g -> (forall x, 0 <= x -> 0 <= powf x) -> ratio_ok (prepare supply powf g).
Proof.
  intros (Hne & Hb & _) Hpow. unfold ratio_ok, prepare; cbn [pg_factor pg_cap]. split.
  - apply Hpow. destruct supply; apply qmax_ge_l.
  - unfold aggregate; cbn [a_cap]. apply qsum_pos; [destruct (g_bats g); cbn; congruence|].
    intros x Hx. apply in_map_iff in Hx. destruct Hx as (b & <- & Hbin). now destruct (Hb b Hbin) as (_ & _ & _ & _ & ?).
Qed.

Lemma deficit_free_side_ok powf gs p :
  wf_groups gs -> (forall x, 0 <= x -> 0 <= powf x) -> deficit_free powf gs p -> side_ok powf gs p.
Proof.
  intros Hwf Hpow Hd. unfold side_ok, deficit_free, pgs_of in *. apply no_deficit_lower_ok; auto.
  - now apply prepare_wfs.
  - intros pg Hpg. apply in_map_iff in Hpg. destruct Hpg as (g & <- & Hg). apply prepare_ratio_ok; auto.
  - unfold mag, supply_of. destruct (Qlt_bool 0 p) eqn:E; cbn.
    + apply Qlt_bool_iff in E. lra.
    + apply Qlt_bool_false in E. lra.
Qed.
