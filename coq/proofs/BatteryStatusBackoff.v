(* Exponential back-off of BlockingStatus and its use by the tracker:
   the model's (last_blocking_duration, blocked_until) refine a closed-form specification
   that counts the consecutive effective failures. *)
From Coq Require Import Lia ZifyBool.
From Verif Require Import model.BatteryStatus proofs.BatteryStatusFacts.
Open Scope list_scope.
Open Scope Z_scope.

Fixpoint pow2 (n : nat) : Z := match n with O => 1 | S n => 2 * pow2 n end.

Lemma pow2_spec : forall n, pow2 n = 2 ^ Z.of_nat n.
Proof.
  induction n as [|n IH]; [reflexivity|].
  rewrite Nat2Z.inj_succ, Z.pow_succ_r by lia. cbn [pow2]. rewrite IH. reflexivity.
Qed.

Lemma pow2_pos : forall n, 0 < pow2 n.
Proof. induction n as [|n IH]; cbn [pow2]; lia. Qed.

(* duration of the k-th consecutive effective block: min(2^(k-1) d_min, d_max) *)
Definition dur (c : cfg) (k : nat) : Z :=
  match k with
  | O => 0
  | S j => Z.min (pow2 j * c_dmin c) (c_dmax c)
  end.

Definition wf_cfg (c : cfg) : Prop := 0 < c_dmin c <= c_dmax c.

(* ------------------------------------------------------------------ the specification *)
Record bspec := mkSp {
  sp_k     : nat;          (* consecutive effective failures since the last success / recovery *)
  sp_until : option Z      (* blocking deadline *)
}.
Definition spec0 : bspec := mkSp 0 None.

Definition spec_block (c : cfg) (now : Z) (sp : bspec) : bspec * Z :=
  match sp_until sp with
  | None => (mkSp 1 (Some (now + dur c 1)), dur c 1)
  | Some u => if u >? now then (sp, 0)
              else (mkSp (S (sp_k sp)) (Some (now + dur c (S (sp_k sp)))), dur c (S (sp_k sp)))
  end.

Definition refines (c : cfg) (b : blocking) (sp : bspec) : Prop :=
  b_until b = sp_until sp /\
  (sp_until sp = None <-> sp_k sp = 0%nat) /\
  (sp_k sp <> 0%nat -> b_last b = dur c (sp_k sp)).

Lemma refines_init : forall c, refines c (blocking_init c) spec0.
Proof. intro c. repeat split; cbn; intros; congruence. Qed.

Lemma unblock_refines : forall c b, refines c (unblock b) spec0.
Proof. intros c b. repeat split; cbn; intros; congruence. Qed.

Lemma dur_1 : forall c, wf_cfg c -> dur c 1 = c_dmin c.
Proof. intros c W. unfold wf_cfg in W. cbn [dur pow2]. lia. Qed.

Lemma dur_succ : forall c k, wf_cfg c -> k <> 0%nat ->
  Z.min (2 * dur c k) (c_dmax c) = dur c (S k).
Proof.
  intros c k W K. destruct k as [|j]; [congruence|]. unfold wf_cfg in W.
  cbn [dur pow2]. pose proof (pow2_pos j) as P.
  replace (2 * pow2 j * c_dmin c) with (2 * (pow2 j * c_dmin c)) by ring.
  remember (pow2 j * c_dmin c) as A. lia.
Qed.

Lemma block_refines : forall c now b sp,
  wf_cfg c -> refines c b sp ->
  refines c (fst (block c now b)) (fst (spec_block c now sp)) /\
  snd (block c now b) = snd (spec_block c now sp).
Proof.
  intros c now b sp W (U & KN & L). rewrite block_spec. unfold block_hand, spec_block. rewrite U.
  destruct (sp_until sp) as [u|] eqn:EU.
  - destruct (u >? now) eqn:G; cbn [fst snd].
    + split; [|reflexivity]. unfold refines. rewrite EU. auto.
    + assert (K : sp_k sp <> 0%nat) by (intro K0; apply KN in K0; congruence).
      rewrite (L K), (dur_succ c _ W K). split; [|reflexivity].
      repeat split; cbn; intros; congruence.
  - cbn [fst snd]. rewrite (dur_1 c W). split; [|reflexivity].
    repeat split; cbn [b_until b_last sp_until sp_k]; intros; try congruence.
    rewrite (dur_1 c W). reflexivity.
Qed.

(* ------------------------------------------------------------------ the tracker's use of it *)
(* the counter, run alongside the model: a success or a recovery resets it, a failure
   reported while the battery is usable and not currently blocked increments it *)
Definition spec_effect (c : cfg) (s s' : state) (now : Z) (e : event) (sp : bspec) : bspec :=
  let sp1 := match e with
             | SetPower true _ => spec0
             | SetPower false true =>
                 if status_eqb (st_last s) NotWorking then sp else fst (spec_block c now sp)
             | _ => sp
             end in
  if status_eqb (st_last s) NotWorking && negb (status_eqb (st_last s') NotWorking)
  then spec0 else sp1.

Lemma step_refines : forall c s now e sp,
  wf_cfg c -> refines c (st_blk s) sp ->
  refines c (st_blk (fst (step c s now e))) (spec_effect c s (fst (step c s now e)) now e sp).
Proof.
  intros c s now e sp W R.
  destruct (skipped c s now e) eqn:SK.
  - (* discarded timer tick: nothing changes *)
    rewrite step_spec, SK. cbn [fst]. unfold spec_effect.
    destruct (status_eqb (st_last s) NotWorking); cbn [andb negb];
      destruct e; cbn in SK; try discriminate; exact R.
  - rewrite (step_blk _ _ _ _ SK). cbn zeta. unfold spec_effect.
    rewrite (step_status _ _ _ _ SK).
    assert (REC : status_eqb (st_last s) NotWorking
                  && negb (status_eqb (settled now (handled c s now e)) NotWorking)
                  = both_ok (handled c s now e) && status_eqb (st_last s) NotWorking).
    { unfold settled. rewrite handled_last.
      destruct (both_ok (handled c s now e)); cbn [negb andb].
      - destruct (st_last s); reflexivity.
      - apply andb_false_r. }
    rewrite REC.
    destruct (both_ok (handled c s now e) && status_eqb (st_last s) NotWorking) eqn:RC.
    + apply unblock_refines.
    + destruct e as [m|m| | |a b]; cbn [handled st_blk]; try exact R.
      unfold handle_set_power. destruct a; [apply unblock_refines|].
      destruct b; cbn [andb].
      * destruct (status_eqb (st_last s) NotWorking); cbn [negb st_blk]; [exact R|].
        apply block_refines; assumption.
      * exact R.
Qed.

Fixpoint runk (c : cfg) (s : state) (sp : bspec) (tr : trace) : state * bspec :=
  match tr with
  | [] => (s, sp)
  | (now, e) :: tr' =>
      let s' := fst (step c s now e) in
      runk c s' (spec_effect c s s' now e sp) tr'
  end.

Definition streak (c : cfg) (ts0 : Z) (tr : trace) : bspec := snd (runk c (init c ts0) spec0 tr).

Lemma runk_final : forall c tr s sp, fst (runk c s sp tr) = final c s tr.
Proof.
  intros c tr. induction tr as [|[now e] tr IH]; intros s sp; [reflexivity|].
  cbn [runk]. rewrite final_cons. apply IH.
Qed.

Lemma runk_refines : forall c tr s sp,
  wf_cfg c -> refines c (st_blk s) sp ->
  refines c (st_blk (final c s tr)) (snd (runk c s sp tr)).
Proof.
  intros c tr. induction tr as [|[now e] tr IH]; intros s sp W R; [exact R|].
  cbn [runk]. rewrite final_cons. apply IH; [exact W|]. apply step_refines; assumption.
Qed.

Lemma backoff_reachable : forall c ts0 tr,
  wf_cfg c -> refines c (st_blk (final c (init c ts0) tr)) (streak c ts0 tr).
Proof. intros c ts0 tr W. apply runk_refines; [exact W|]. apply refines_init. Qed.

(* a failure reported for a usable battery whose block (if any) has expired: the k-th
   consecutive one blocks for min(2^(k-1) d_min, d_max) from now *)
Lemma backoff_failure : forall c s now sp,
  wf_cfg c -> refines c (st_blk s) sp ->
  st_last s <> NotWorking -> is_blocked now (st_blk s) = false ->
  let s' := fst (step c s now (SetPower false true)) in
  let k := S (sp_k sp) in
  spec_effect c s s' now (SetPower false true) sp
    = mkSp k (Some (now + Z.min (2 ^ (Z.of_nat k - 1) * c_dmin c) (c_dmax c))) /\
  b_until (st_blk s') = Some (now + Z.min (2 ^ (Z.of_nat k - 1) * c_dmin c) (c_dmax c)) /\
  st_last s' = (if both_ok s then Uncertain else NotWorking).
Proof.
  intros c s now sp W R U NB s' k.
  assert (E : status_eqb (st_last s) NotWorking = false) by (apply status_eqb_neq; exact U).
  assert (D : Z.min (2 ^ (Z.of_nat k - 1) * c_dmin c) (c_dmax c) = dur c k).
  { subst k. cbn [dur]. rewrite pow2_spec. replace (Z.of_nat (S (sp_k sp)) - 1) with (Z.of_nat (sp_k sp)) by lia.
    reflexivity. }
  rewrite D.
  assert (SE : spec_effect c s s' now (SetPower false true) sp = mkSp k (Some (now + dur c k))).
  { unfold spec_effect. rewrite E. cbn [andb]. unfold spec_block.
    destruct R as (RU & KN & L). rewrite is_blocked_spec in NB. unfold is_blocked_hand in NB. rewrite RU in NB.
    destruct (sp_until sp) as [u|] eqn:EU.
    - rewrite NB. reflexivity.
    - assert (K0 : sp_k sp = 0%nat) by (apply KN; reflexivity). subst k. rewrite K0. reflexivity. }
  split; [exact SE|].
  pose proof (step_refines c s now (SetPower false true) sp W R) as R'.
  fold s' in R'. rewrite SE in R'. destruct R' as (RU' & _ & _). cbn in RU'.
  split; [exact RU'|].
  subst s'. rewrite step_status by reflexivity.
  unfold settled. cbn [handled]. unfold both_ok. rewrite handle_set_power_bat, handle_set_power_inv, handle_set_power_last.
  fold (both_ok s). destruct (both_ok s); cbn [negb]; [|reflexivity].
  assert (B : is_blocked now (st_blk (handle_set_power c now false true s)) = true).
  { unfold handle_set_power. rewrite E. cbn [andb negb st_blk].
    pose proof (block_refines c now (st_blk s) sp W R) as [(BU & _ & _) _].
    rewrite is_blocked_spec. unfold is_blocked_hand. rewrite BU.
    assert (P : 0 < dur c k).
    { subst k. cbn [dur]. unfold wf_cfg in W. pose proof (pow2_pos (sp_k sp)). nia. }
    unfold spec_block. destruct R as (RU & KN & L). rewrite is_blocked_spec in NB. unfold is_blocked_hand in NB. rewrite RU in NB.
    destruct (sp_until sp) as [u|] eqn:EU.
    - rewrite NB. cbn [fst sp_until]. subst k. lia.
    - assert (K0 : sp_k sp = 0%nat) by (apply KN; reflexivity). cbn [fst sp_until].
      subst k. rewrite K0 in P. lia. }
  rewrite B. destruct (st_last s); [contradiction| |]; reflexivity.
Qed.

(* a failure reported while the battery is still blocked changes nothing *)
Lemma failure_while_blocked : forall c s now,
  st_last s <> NotWorking -> is_blocked now (st_blk s) = true ->
  st_blk (fst (step c s now (SetPower false true))) = st_blk s.
Proof.
  intros c s now U B.
  assert (E : status_eqb (st_last s) NotWorking = false) by (apply status_eqb_neq; exact U).
  rewrite step_blk by reflexivity. cbn zeta. rewrite E, andb_false_r.
  cbn [handled]. unfold handle_set_power. rewrite E. cbn [andb negb st_blk].
  rewrite block_spec. unfold block_hand. rewrite is_blocked_spec in B. unfold is_blocked_hand in B. destruct (b_until (st_blk s)) as [u|]; [|discriminate].
  rewrite B. reflexivity.
Qed.

(* success resets *)
Lemma success_resets : forall c s now b sp,
  let s' := fst (step c s now (SetPower true b)) in
  b_until (st_blk s') = None /\ spec_effect c s s' now (SetPower true b) sp = spec0.
Proof.
  intros c s now b sp s'. split.
  - subst s'. rewrite step_blk by reflexivity. cbn zeta. cbn [handled]. unfold handle_set_power.
    destruct (both_ok _ && _); reflexivity.
  - unfold spec_effect. destruct (status_eqb (st_last s) NotWorking && _); reflexivity.
Qed.

(* events other than a set-power result never touch the blocking state, except recovery *)
Lemma data_events_keep_blocking : forall c s now e,
  (forall a b, e <> SetPower a b) -> st_last s <> NotWorking ->
  st_blk (fst (step c s now e)) = st_blk s.
Proof.
  intros c s now e NS U.
  assert (E : status_eqb (st_last s) NotWorking = false) by (apply status_eqb_neq; exact U).
  destruct (skipped c s now e) eqn:SK.
  - rewrite step_spec, SK. reflexivity.
  - rewrite step_blk by exact SK. cbn zeta. rewrite E, andb_false_r.
    destruct e; cbn [handled st_blk]; try reflexivity. exfalso. eapply NS. reflexivity.
Qed.

(* ------------------------------------------------------------------ a result that does not mention the battery *)
(* reachable states: NOT_WORKING is reported only while the data are not both healthy *)
Definition nw_not_ok (s : state) : Prop := st_last s = NotWorking -> both_ok s = false.

Lemma step_nw_not_ok : forall c s now e, nw_not_ok s -> nw_not_ok (fst (step c s now e)).
Proof.
  intros c s now e H. rewrite step_spec. destruct (skipped c s now e); [exact H|].
  unfold nw_not_ok. rewrite finish_last. unfold both_ok. rewrite finish_bat, finish_inv.
  fold (both_ok (handled c s now e)). unfold settled.
  destruct (both_ok (handled c s now e)); cbn [negb]; [|reflexivity].
  destruct (st_last (handled c s now e)); try discriminate;
    destruct (is_blocked now (st_blk (handled c s now e))); discriminate.
Qed.

Lemma final_nw_not_ok : forall c tr s, nw_not_ok s -> nw_not_ok (final c s tr).
Proof.
  intros c tr. induction tr as [|[now e] tr IH]; intros s H; [exact H|].
  rewrite final_cons. apply IH. apply step_nw_not_ok. exact H.
Qed.

(* After every history: a set-power result that mentions the battery in neither set leaves
   its blocking state (deadline and last duration) and its failure streak untouched. *)
Lemma not_mentioned_keeps_blocking : forall c ts0 tr now sp,
  let s := final c (init c ts0) tr in
  let s' := fst (step c s now (SetPower false false)) in
  st_blk s' = st_blk s /\ spec_effect c s s' now (SetPower false false) sp = sp /\
  st_bat s' = st_bat s /\ st_inv s' = st_inv s.
Proof.
  intros c ts0 tr now sp s s'.
  assert (N : nw_not_ok s) by (apply final_nw_not_ok; intros _; reflexivity).
  assert (R : both_ok s && status_eqb (st_last s) NotWorking = false).
  { destruct (status_eqb (st_last s) NotWorking) eqn:E; [|apply andb_false_r].
    apply status_eqb_eq in E. rewrite (N E). reflexivity. }
  subst s'. repeat split.
  - rewrite step_blk by reflexivity. cbn zeta. cbn [handled]. unfold handle_set_power. cbn [andb]. rewrite R. reflexivity.
  - unfold spec_effect. rewrite step_status by reflexivity. cbn [handled]. unfold handle_set_power. cbn [andb].
    destruct (status_eqb (st_last s) NotWorking) eqn:E; cbn [andb]; [|reflexivity].
    apply status_eqb_eq in E. unfold settled. rewrite (N E). reflexivity.
  - rewrite step_bat. reflexivity.
  - rewrite step_inv. reflexivity.
Qed.
